#!/bin/sh
# Build the framework from files on disk only (offline): Lean library (models, lemmas, property
# theorems) and the compiled model drivers. Harnesses are compiled by the checks themselves from
# /repo's working tree.
set -e
cd "$(dirname "$0")/lean"
lake build RkVerif $(grep -o 'name = "drv_[a-z0-9_]*"' lakefile.toml | sed 's/name = "\(.*\)"/\1/')
