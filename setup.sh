#!/bin/sh
# Build the framework from files on disk only (offline): Lean library (models, lemmas, property
# theorems) and the compiled model drivers. Harnesses are compiled by the checks themselves from
# /repo's working tree.
set -e
cd "$(dirname "$0")/lean"
exes=""
for f in Driver/C[0-9][0-9].lean; do
  [ -f "$f" ] && exes="$exes drv_$(basename "$f" .lean | tr 'C' 'c')"
done
lake build RkVerif $exes
