#!/bin/sh
# Build the framework from files on disk only (offline): Lean library (models, lemmas, property
# theorems) and the compiled model drivers. Harnesses are compiled by the checks themselves from
# /repo's working tree.
set -e
cd "$(dirname "$0")/lean"
exes=""
for m in $(grep -o 'Props\.C[0-9][0-9]' RkVerif.lean | sed 's/Props\.//'); do
  [ -f "Driver/$m.lean" ] && exes="$exes drv_$(echo $m | tr 'C' 'c')"
done
lake build RkVerif $exes
