// C07 correspondence harness: the real scalar kernels of rkmath.h / vec.h / random.h called with the same
// operands (float bit patterns) as the Lean driver; results compared bit for bit.
// Built twice: default (SSE estimate + Newton-Raphson step) and -DRKCOMMON_NO_SIMD.
//
// In the SIMD build the hardware estimate is an INPUT of the Lean model. `est x` prints this machine's
// _mm_rcp_ss(x) and _mm_rsqrt_ss(x); the generator (props/c07.py) asks for them in a pre-pass and puts them on
// the op lines (`rcp x r`, `rsqrt x r`, `rcp_safe x r(x) r(flt_min) r(-flt_min)`). The real functions of course
// compute their own estimate; the supplied one is ignored here.
#include "drv_common.h"

#include <cstdint>
#include <limits>

#include "rkcommon/math/rkmath.h"
#include "rkcommon/math/vec.h"
#include "rkcommon/utility/random.h"

using namespace rkcommon;
using namespace rkcommon::math;

namespace {

std::string hex8(uint32_t u)
{
  char buf[16];
  snprintf(buf, sizeof buf, "%08x", u);
  return buf;
}

// clamp's result is determined by the property only up to the sign of a zero
std::string tok_canon_zero(float f)
{
  if (f == 0.f)
    f = 0.f;
  return vh::tok_of_f32(f);
}

// a 32-bit generator returning a prescribed value, with prescribed min()/max()
struct FixedGen
{
  typedef uint32_t result_type;
  uint32_t lo, hi, val;
  uint32_t min() const { return lo; }
  uint32_t max() const { return hi; }
  uint32_t operator()() { return val; }
};

}  // namespace

int main()
{
  return vh::run([]() {}, [](const std::vector<std::string> &w) -> std::string {
    const std::string &op = w[0];
    auto F = [&](size_t i) { return vh::f32_of_tok(w.at(i)); };
    auto T = [&](float f) { return vh::tok_of_f32(f); };
    if (op == "est") {
#ifdef RKCOMMON_NO_SIMD
      return "- -";
#else
      float x = F(1);
      float a = _mm_cvtss_f32(_mm_rcp_ss(_mm_set_ss(x)));
      float b = _mm_cvtss_f32(_mm_rsqrt_ss(_mm_set_ss(x)));
      return T(a) + " " + T(b);
#endif
    }
    if (op == "rcp")
      return T(rcp(F(1)));
    if (op == "rsqrt")
      return T(rsqrt(F(1)));
    if (op == "rcp_safe")
      return T(rcp_safe(F(1)));
    if (op == "sign")
      return T(sign(F(1)));
    if (op == "clamp")
      return tok_canon_zero(clamp(F(1), F(2), F(3)));
    if (op == "clamp01")
      return tok_canon_zero(clamp(F(1)));
    if (op == "deg2rad")
      return T(deg2rad(F(1)));
    if (op == "madd")
      return T(madd(F(1), F(2), F(3)));
    if (op == "lerp")
      return T(lerp(F(1), F(2), F(3)));
    if (op == "divru32") {
      int a = (int)vh::to_ll(w.at(1)), b = (int)vh::to_ll(w.at(2));
      return std::to_string(divRoundUp(a, b));
    }
    if (op == "divru8" || op == "divru16" || op == "divrus8" || op == "divrus16") {
      // narrow element types: a + b - 1 is computed in int (integral promotion), so the sum cannot wrap in T
      long long a = vh::to_ll(w.at(1)), b = vh::to_ll(w.at(2));
      if (op == "divru8") return std::to_string((unsigned)divRoundUp((uint8_t)a, (uint8_t)b));
      if (op == "divru16") return std::to_string((unsigned)divRoundUp((uint16_t)a, (uint16_t)b));
      if (op == "divrus8") return std::to_string((int)divRoundUp((int8_t)a, (int8_t)b));
      return std::to_string((int)divRoundUp((int16_t)a, (int16_t)b));
    }
    if (op == "divru64") {
      long long a = vh::to_ll(w.at(1)), b = vh::to_ll(w.at(2));
      return std::to_string(divRoundUp(a, b));
    }
    if (op == "srgb")
      return T(linear_to_srgb(F(1)));
    if (op == "cvt")
      return std::to_string(cvt_uint32(F(1)));
    if (op == "cvt4")
      return hex8(cvt_uint32(vec4f(F(1), F(2), F(3), F(4))));
    if (op == "srgba") {
      vec4f c = linear_to_srgba(vec4f(F(1), F(2), F(3), F(4)));
      return T(c.x) + " " + T(c.y) + " " + T(c.z) + " " + T(c.w);
    }
    if (op == "srgba8")
      return hex8(linear_to_srgba8(vec4f(F(1), F(2), F(3), F(4))));
    if (op == "pcg") {
      ::pcg32 rng;
      rng.seed((int)vh::to_ll(w.at(1)), (int)vh::to_ll(w.at(2)));
      long long n = vh::to_ll(w.at(3));
      std::string out;
      for (long long i = 0; i < n; i++)
        out += (i ? " " : "") + hex8(rng());
      return out.empty() ? "-" : out;
    }
    if (op == "biased") {
      utility::pcg32_biased_float_distribution d((int)vh::to_ll(w.at(1)), (int)vh::to_ll(w.at(2)), F(3), F(4));
      long long n = vh::to_ll(w.at(5));
      std::string out;
      for (long long i = 0; i < n; i++)
        out += (i ? " " : "") + T(d());
      return out.empty() ? "-" : out;
    }
    if (op == "urdp") {
      ::pcg32 rng;
      rng.seed((int)vh::to_ll(w.at(1)), (int)vh::to_ll(w.at(2)));
      utility::uniform_real_distribution<float> d(F(3), F(4));
      long long n = vh::to_ll(w.at(5));
      std::string out;
      for (long long i = 0; i < n; i++)
        out += (i ? " " : "") + T(d(rng));
      return out.empty() ? "-" : out;
    }
    if (op == "urd") {
      utility::uniform_real_distribution<float> d(F(1), F(2));
      FixedGen g{(uint32_t)vh::to_ull(w.at(3)), (uint32_t)vh::to_ull(w.at(4)), (uint32_t)vh::to_ull(w.at(5))};
      return T(d(g));
    }
    if (op == "urd2") {
      // ONE distribution object sampled with two generators of different range: each draw must use that
      // generator's own range (nothing may be remembered from the first generator)
      utility::uniform_real_distribution<float> d(F(1), F(2));
      FixedGen g1{(uint32_t)vh::to_ull(w.at(3)), (uint32_t)vh::to_ull(w.at(4)), (uint32_t)vh::to_ull(w.at(5))};
      FixedGen g2{(uint32_t)vh::to_ull(w.at(6)), (uint32_t)vh::to_ull(w.at(7)), (uint32_t)vh::to_ull(w.at(8))};
      std::string a = T(d(g1));
      std::string b = T(d(g2));
      std::string c = T(d(g1));
      return a + " " + b + " " + c;
    }
    if (op == "color") {
      vec3f c = utility::makeRandomColor((unsigned)vh::to_ull(w.at(1)));
      return T(c.x) + " " + T(c.y) + " " + T(c.z);
    }
    return "bad-op";
  });
}
