// C03 correspondence harness: the REAL rkcommon::tasking::AsyncLoop under forced schedules.
//
// The scheduling points of fixes/hook-C03-schedpoints.patch (RKCOMMON_VERIF_POINT) call hook() below;
// every thread parks there until the scheduler (this file's main thread, driven by the op lines)
// grants it a run to its next point.  Same op lines as lean/Driver/C03.lean:
//   cfg <fixed|orig> <thread|task>   construct the AsyncLoop (launch method), wait for loop.top   -> ok
//   g loop | g ctl [start|stop|destroy]   release that thread, print the hook point it arrives at
//   b loop                           release the loop thread, which is expected to block in wait() -> blocked
//   end                              final positions, then free-run: liveness oracles, destruction
// Observations: the arrival point of every grant (body entry = "body.in", return of a member function
// = "ctl.idle"/"ctl.dead"), plus the implementation-side oracle VIOLATION-OBSERVED:<what>.
#include "common.h"
#include <atomic>
#include <chrono>
#include <condition_variable>
#include <cstring>
#include <memory>
#include <mutex>
#include <thread>
#include <unistd.h>
#ifdef C03_ASYNCLOOP_HEADER
#include C03_ASYNCLOOP_HEADER  // private instrumented copy (tree without the hook commit), see props/c03.py
#else
#include "rkcommon/tasking/AsyncLoop.h"
#endif

#ifndef RKCOMMON_VERIF_POINT
#error "AsyncLoop.h carries no RKCOMMON_VERIF_POINT scheduling points (apply fixes/hook-C03-schedpoints.patch)"
#endif

using rkcommon::tasking::AsyncLoop;
typedef std::chrono::steady_clock Clock;

static long TIMEOUT_MS = 1000;   // arrival of a granted thread at its next point
static long LIVE_MS = 3000;      // liveness oracles in the free-run phase
static long BLIND_MS = 30;       // blind search mode: a thread that does not arrive counts as blocked
static bool active = false;
static bool outOfSync = false;  // a granted thread did not arrive: the rest of the schedule is meaningless
static bool blind = false;      // search mode: no model guidance, time-outs mean "blocked"

struct Slot
{
  std::mutex m;
  std::condition_variable cv;
  bool parked = false;   // inside hook() (or the controller's mailbox), waiting
  bool pending = false;  // an arrival the scheduler has not reported yet
  bool go = false;
  bool idle = false;     // controller only: waiting for a command
  bool exited = false;   // loop only: the loop function object is gone
  int cmd = 0;           // controller only: 1 start 2 stop 3 destroy 9 quit
  std::string point;
};
static Slot LOOP, CTL;
static std::atomic<bool> freeRun{false};

// oracle state
static std::atomic<bool> stoppedFlag{false};      // stop() returned, start() not called since
static std::atomic<bool> startedFlag{false};      // start() returned, nothing called since
static std::atomic<bool> destroyedFlag{false};    // destructor returned
static std::atomic<bool> threadLaunch{true};
static std::atomic<bool> inBody{false};
static std::atomic<long> bodyCount{0};
static std::atomic<bool> freeViolStopped{false}, freeViolDestroyed{false};
static AsyncLoop *obj = nullptr;

static void hook(const char *name)
{
  Slot &s = (!strncmp(name, "loop.", 5) || !strncmp(name, "body.", 5)) ? LOOP : CTL;
  if (freeRun.load())
    return;
  std::unique_lock<std::mutex> lk(s.m);
  s.point = name;
  s.parked = true;
  s.pending = true;
  s.go = false;
  s.cv.notify_all();
  s.cv.wait(lk, [&] { return s.go || freeRun.load(); });
  s.parked = false;
  s.go = false;
}

struct Token
{
  ~Token()
  {
    std::unique_lock<std::mutex> lk(LOOP.m);
    LOOP.exited = true;
    LOOP.point = "loop.exit";
    LOOP.pending = true;
    LOOP.cv.notify_all();
  }
};

struct Body
{
  std::shared_ptr<Token> tok;
  void operator()() const
  {
    if (stoppedFlag.load())
      freeViolStopped = true;
    if (destroyedFlag.load() && threadLaunch.load())
      freeViolDestroyed = true;
    inBody = true;
    bodyCount++;
    hook("body.in");
    inBody = false;
  }
};

static void ctlMain()
{
  for (;;) {
    int c;
    {
      std::unique_lock<std::mutex> lk(CTL.m);
      CTL.point = destroyedFlag.load() ? "ctl.dead" : "ctl.idle";
      CTL.parked = true;
      CTL.idle = true;
      CTL.pending = true;
      CTL.cv.notify_all();
      CTL.cv.wait(lk, [&] { return CTL.cmd != 0; });
      c = CTL.cmd;
      CTL.cmd = 0;
      CTL.parked = false;
      CTL.idle = false;
    }
    if (c == 9)
      return;
    if (c == 1) {
      stoppedFlag = false;
      startedFlag = false;
      obj->start();
      startedFlag = true;
    } else if (c == 2) {
      startedFlag = false;
      obj->stop();
      stoppedFlag = true;
      if (inBody.load())
        freeViolStopped = true;
    } else if (c == 3) {
      startedFlag = false;
      delete obj;
      obj = nullptr;
      destroyedFlag = true;
      if (inBody.load() && threadLaunch.load())
        freeViolDestroyed = true;
    }
  }
}

// wait for an unreported arrival of the thread; "" on time-out
static std::string await(Slot &s, long ms)
{
  std::unique_lock<std::mutex> lk(s.m);
  if (!s.cv.wait_for(lk, std::chrono::milliseconds(ms), [&] { return s.pending; }))
    return "timeout";
  s.pending = false;
  return s.point;
}

static std::string oracleNow()
{
  std::string o;
  if (stoppedFlag.load() && inBody.load())
    o += " VIOLATION-OBSERVED:body-while-stopped";
  if (destroyedFlag.load() && threadLaunch.load() && inBody.load())
    o += " VIOLATION-OBSERVED:body-after-destroy";
  return o;
}

static std::string grant(Slot &s, bool expectBlock, int cmd = 0)
{
  {
    std::unique_lock<std::mutex> lk(s.m);
    if (s.pending) {
      // an arrival nobody asked for yet (e.g. the woken loop thread re-evaluating its predicate)
      if (cmd)
        return "not-idle";
    } else if (s.parked) {
      if (cmd) {
        if (!s.idle)
          return "not-idle";
        s.cmd = cmd;
      } else {
        if (s.idle)
          return "idle-needs-call";
        s.go = true;
      }
      s.cv.notify_all();
    } else if (cmd) {
      return "not-idle";
    }
    if (expectBlock && !s.pending)
      return "blocked";
  }
  return await(s, blind ? BLIND_MS : TIMEOUT_MS);
}

static std::string position(Slot &s, bool &settled)
{
  std::unique_lock<std::mutex> lk(s.m);
  if (!s.pending && !(s.parked && !s.go) && !s.exited && !settled) {
    // running or blocked: give it a moment to show up at a hook point if it is going to
    settled = true;
    s.cv.wait_for(lk, std::chrono::milliseconds(3), [&] { return s.pending; });
  }
  if (s.pending || (s.parked && !s.go) || s.exited) {
    s.pending = false;
    return s.point;
  }
  return "blocked";
}

static bool waitFor(const std::function<bool()> &cond, long ms)
{
  auto t0 = Clock::now();
  while (!cond()) {
    if (std::chrono::duration_cast<std::chrono::milliseconds>(Clock::now() - t0).count() > ms)
      return false;
    std::this_thread::sleep_for(std::chrono::microseconds(50));
  }
  return true;
}

static bool ctlIdle()
{
  std::unique_lock<std::mutex> lk(CTL.m);
  return CTL.idle;
}
static bool loopExited()
{
  std::unique_lock<std::mutex> lk(LOOP.m);
  return LOOP.exited;
}
static void command(int c)
{
  std::unique_lock<std::mutex> lk(CTL.m);
  CTL.cmd = c;
  CTL.idle = false;
  CTL.cv.notify_all();
}


// free-run phase: everything is released; liveness oracles; destruction
static std::string finishCase()
{
  std::string flags;
  if (!active)
    return flags;
  {
    std::unique_lock<std::mutex> a(LOOP.m);
    std::unique_lock<std::mutex> b(CTL.m);
    freeRun = true;
    LOOP.cv.notify_all();
    CTL.cv.notify_all();
  }
  // a member function in progress must return (start/stop/destructor terminate)
  if (!waitFor(ctlIdle, LIVE_MS)) {
    vh::emit("end FREE-RUN-VIOLATION:member-function-does-not-return");
    _exit(3);
  }
  // after start() has returned the body must be executed again
  if (startedFlag.load() && !destroyedFlag.load()) {
    long c0 = bodyCount.load();
    if (!waitFor([&] { return bodyCount.load() > c0; }, LIVE_MS))
      flags += " FREE-RUN-VIOLATION:lost-wakeup(body-not-run-after-start-returned)";
  }
  if (!destroyedFlag.load()) {
    command(3);
    if (!waitFor(ctlIdle, LIVE_MS)) {
      vh::emit("end FREE-RUN-VIOLATION:destructor-does-not-return" + flags);
      _exit(3);
    }
  }
  if (threadLaunch.load() && !loopExited())
    flags += " FREE-RUN-VIOLATION:loop-thread-alive-after-destructor";
  if (!waitFor(loopExited, LIVE_MS)) {
    vh::emit("end FREE-RUN-VIOLATION:loop-never-exits" + flags);
    _exit(3);
  }
  if (freeViolStopped.load())
    flags += " FREE-RUN-VIOLATION:body-while-stopped";
  if (freeViolDestroyed.load())
    flags += " FREE-RUN-VIOLATION:body-after-destroy";
  active = false;
  return flags;
}

static void reset()
{
  std::string f = finishCase();  // a case without `end` line
  (void)f;
  freeRun = false;
  outOfSync = false;
  blind = false;
  stoppedFlag = false;
  startedFlag = false;
  destroyedFlag = false;
  inBody = false;
  freeViolStopped = false;
  freeViolDestroyed = false;
  {
    std::unique_lock<std::mutex> lk(LOOP.m);
    LOOP.parked = LOOP.pending = LOOP.go = LOOP.exited = false;
    LOOP.point = "";
  }
  {
    std::unique_lock<std::mutex> lk(CTL.m);
    if (CTL.idle)
      CTL.point = "ctl.idle";
  }
}

static std::string step(const std::vector<std::string> &w)
{
  if (w[0] == "cfg" && w.size() == 3) {
    reset();
    threadLaunch = (w[2] == "thread");
    {
      std::shared_ptr<Token> tok = std::make_shared<Token>();
      obj = new AsyncLoop(Body{tok}, threadLaunch.load() ? AsyncLoop::THREAD : AsyncLoop::TASK);
    }
    active = true;
    std::string p = await(LOOP, 5 * TIMEOUT_MS);
    // the controller is idle (a not yet reported arrival at ctl.idle is consumed here)
    bool idle = waitFor(ctlIdle, 5 * TIMEOUT_MS);
    {
      std::unique_lock<std::mutex> lk(CTL.m);
      CTL.pending = false;
    }
    return (p == "loop.top" && idle) ? "ok" : ("init:" + p + (idle ? "" : ",ctl-not-idle"));
  }
  if (w[0] == "mode" && w.size() == 2) {
    blind = (w[1] == "blind");
    return "ok";
  }
  if (!active)
    return "no-object";
  if (w[0] == "g" || w[0] == "b") {
    if (outOfSync)
      return "skipped";
    std::string r;
    if (w.size() >= 2 && w[1] == "loop") {
      r = grant(LOOP, w[0] == "b");
    } else if (w.size() >= 2 && w[1] == "ctl") {
      int cmd = 0;
      if (w.size() == 3)
        cmd = w[2] == "start" ? 1 : w[2] == "stop" ? 2 : w[2] == "destroy" ? 3 : -1;
      if (cmd < 0)
        return "bad-op";
      if (blind) {
        // tolerate calls while busy / grants while idle
        bool idle = ctlIdle();
        if (cmd && (!idle || destroyedFlag.load()))
          cmd = 0;
        if (!cmd && idle)
          return "idle" + oracleNow();
      }
      r = grant(CTL, false, cmd);
    } else
      return "bad-op";
    if (r == "timeout" && !blind)
      outOfSync = true;
    return r + oracleNow();
  }
  if (w[0] == "end") {
    bool settled = false;
    std::string lp = position(LOOP, settled);
    std::string cp = position(CTL, settled);
    std::string o = oracleNow();
    return "end loop=" + lp + " ctl=" + cp + o + finishCase();
  }
  return "bad-op";
}

int main()
{
  if (const char *e = getenv("C03_TIMEOUT_MS"))
    TIMEOUT_MS = atol(e);
  if (const char *e = getenv("C03_LIVE_MS"))
    LIVE_MS = atol(e);
  rkcommon::tasking::initTaskingSystem(8);  // TASK launch needs worker threads also on small machines
  rkcommon::tasking::verif::schedPointHook() = &hook;
  std::thread ctl(ctlMain);
  int rc = vh::run(reset, step);
  finishCase();
  command(9);
  ctl.join();
  return rc;
}
