// C04 correspondence harness: the wrappers of tr/c04_drv.cpp (float family) and tr/c04i_drv.cpp (integer-only
// operators) called with the same flat arguments as the Lean driver; results compared bit for bit.
#include "drv_common.h"
#include "../tr/c04_drv.cpp"
#include "gen/c04_dispatch.inc"
#include "../tr/c04i_drv.cpp"
#include "gen/c04i_dispatch.inc"

int main()
{
  return vh::run([]() {}, [](const std::vector<std::string> &w) -> std::string {
    std::string out;
    auto emitB = [&](bool b) { if (!out.empty()) out += " "; out += b ? "1" : "0"; };
    if (w[0] == "f") {
      std::vector<float> xs;
      for (size_t i = 2; i < w.size(); i++)
        xs.push_back(vh::f32_of_tok(w[i]));
      auto emitS = [&](float f) { if (!out.empty()) out += " "; out += vh::tok_of_f32(f); };
      if (!vdrv_dispatch_f<float>(w[1], xs, emitS, emitB))
        return "bad-op";
    } else {
      std::vector<int> xs;
      for (size_t i = 2; i < w.size(); i++)
        xs.push_back((int)(uint32_t)std::stoul(w[i], nullptr, 16));
      auto emitS = [&](int v) { if (!out.empty()) out += " "; char b[16]; snprintf(b, sizeof b, "%08x", (unsigned)v); out += b; };
      if (!vdrv_dispatch_i<int>(w[1], xs, emitS, emitB))
        return "bad-op";
    }
    return out.empty() ? "-" : out;
  });
}
