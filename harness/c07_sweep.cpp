// C07 exhaustive sweep over float bit patterns, calling the REAL rkcommon kernels (no sanitizer, -O2).
// Built twice: default (SSE estimate + Newton-Raphson) and -DRKCOMMON_NO_SIMD.
//
//   c07_sweep <stride> <nthreads> [only-kernel]
//
// stride 1 = all 2^32 patterns; stride s>1 = every s-th pattern plus +-64 patterns around every boundary value.
// One canonical line per kernel:   <kernel> ok            or   <kernel> FAIL <first failing bit pattern, 8 hex digits> <what>
// (a second, informational line "# <kernel> ..." carries counts and the worst case seen; it is not compared).
//
// This is the implementation-side validation of the two contracts the Lean theorems assume
// (hardware estimate error <= 1.5*2^-12; libm powf monotone with pow(0)=0, pow(1)=1) and of the end-to-end
// statement of property C07 for the unary float kernels.
#include <cmath>
#include <cstdint>
#include <cstdio>
#include <cstdlib>
#include <cstring>
#include <string>
#include <thread>
#include <vector>
#include <algorithm>

#include "rkcommon/math/rkmath.h"
#include "rkcommon/math/vec.h"

using namespace rkcommon::math;

static inline float f_of(uint32_t u)
{
  float f;
  std::memcpy(&f, &u, 4);
  return f;
}
static inline uint32_t u_of(float f)
{
  uint32_t u;
  std::memcpy(&u, &f, 4);
  return u;
}

static const double EST_BOUND = 1.5 / 4096.0;     // 1.5 * 2^-12
static const double REL_BOUND = 1.0 / 1048576.0;  // 2^-20
static const float LO = 1.17549435e-38f;          // 2^-126
static const float HI = 8.50705917e37f;           // 2^126

struct Result
{
  bool fail{false};
  uint64_t failKey{~0ull};  // position in the sweep order (smallest wins -> deterministic)
  uint32_t failBits{0};
  std::string what;
  uint64_t count{0};
  double worst{0};
  uint32_t worstBits{0};
  void bad(uint64_t key, uint32_t bits, const char *w)
  {
    if (!fail || key < failKey) {
      fail = true;
      failKey = key;
      failBits = bits;
      what = w;
    }
  }
  void see(double v, uint32_t bits)
  {
    if (v > worst) {
      worst = v;
      worstBits = bits;
    }
  }
  void merge(const Result &o)
  {
    count += o.count;
    if (o.fail)
      bad(o.failKey, o.failBits, o.what.c_str());
    if (o.worst > worst || (o.worst == worst && o.worstBits < worstBits)) {
      worst = o.worst;
      worstBits = o.worstBits;
    }
  }
};

static inline bool in_range(float x)
{
  float a = std::fabs(x);
  return a >= LO && a < HI;
}

// ---- kernels: check one bit pattern -------------------------------------------------------------

#ifndef RKCOMMON_NO_SIMD
static inline void k_est_rcp(uint32_t u, Result &r)
{
  float x = f_of(u);
  if (!in_range(x))
    return;
  r.count++;
  float e = _mm_cvtss_f32(_mm_rcp_ss(_mm_set_ss(x)));
  double d = std::fabs((double)e * (double)x - 1.0);  // exact product (24x24 bits)
  r.see(d, u);
  if (!(d <= EST_BOUND))
    r.bad(u, u, "rcpss-estimate-exceeds-1.5*2^-12");
}
static inline void k_est_rsqrt(uint32_t u, Result &r)
{
  float x = f_of(u);
  if (!(x >= LO && x < HI))
    return;
  r.count++;
  float e = _mm_cvtss_f32(_mm_rsqrt_ss(_mm_set_ss(x)));
  double d = std::fabs((double)e * std::sqrt((double)x) - 1.0);
  r.see(d, u);
  if (!(d <= EST_BOUND))
    r.bad(u, u, "rsqrtss-estimate-exceeds-1.5*2^-12");
}
#endif

static inline void k_rcp(uint32_t u, Result &r)
{
  float x = f_of(u);
  if (!in_range(x))
    return;
  r.count++;
  float y = rcp(x);
  double d = std::fabs((double)y * (double)x - 1.0);
  r.see(d, u);
  if (!(d <= REL_BOUND))
    r.bad(u, u, "rcp-relative-error-exceeds-2^-20");
}

static inline void k_rsqrt(uint32_t u, Result &r)
{
  float x = f_of(u);
  if (!(x >= LO && x < HI))
    return;
  r.count++;
  float y = rsqrt(x);
  double d = std::fabs((double)y * std::sqrt((double)x) - 1.0);
  r.see(d, u);
  if (!(d <= REL_BOUND))
    r.bad(u, u, "rsqrt-relative-error-exceeds-2^-20");
}

static inline void k_rcp_safe(uint32_t u, Result &r)
{
  float x = f_of(u);
  if (!std::isfinite(x))
    return;
  r.count++;
  float y = rcp_safe(x);
  if (!std::isfinite(y))
    r.bad(u, u, "rcp_safe-not-finite");
  else if ((x > 0.f && y < 0.f) || (x < 0.f && y > 0.f))
    r.bad(u, u, "rcp_safe-opposite-sign");
  // inside the accuracy range rcp_safe is rcp
  if (in_range(x)) {
    double d = std::fabs((double)y * (double)x - 1.0);
    r.see(d, u);
    if (!(d <= REL_BOUND))
      r.bad(u, u, "rcp_safe-relative-error-exceeds-2^-20");
  }
}

// position on the sorted float line: -inf ... -0 +0 ... +inf  (NaNs excluded by the callers)
static inline uint32_t bits_of_pos(uint64_t p)
{
  // p in [0, 0xFF000002): first the negatives from -inf (0xFF800000) down to -0 (0x80000000), then +0 .. +inf
  if (p <= 0x7F800000ull)
    return (uint32_t)(0xFF800000ull - p);
  return (uint32_t)(p - 0x7F800001ull);
}
static const uint64_t NPOS = 0x7F800001ull * 2;

static inline uint32_t srgb8(float x)
{
  return cvt_uint32(linear_to_srgb(x));
}

// ---- driver ------------------------------------------------------------------------------------

template <typename F>
static Result sweep_bits(uint64_t stride, unsigned nthreads, const std::vector<uint32_t> &boundary, F f)
{
  std::vector<Result> rs(nthreads);
  std::vector<std::thread> ts;
  const uint64_t N = 1ull << 32;
  for (unsigned t = 0; t < nthreads; t++)
    ts.emplace_back([&, t]() {
      Result &r = rs[t];
      uint64_t b = N * t / nthreads, e = N * (t + 1) / nthreads;
      b = (b + stride - 1) / stride * stride;
      for (uint64_t u = b; u < e; u += stride)
        f((uint32_t)u, r);
    });
  for (auto &t : ts)
    t.join();
  Result all;
  for (auto &r : rs)
    all.merge(r);
  if (stride > 1)
    for (uint32_t c : boundary)
      for (int d = -64; d <= 64; d++)
        f(c + (uint32_t)d, all);
  return all;
}

// monotone + saturating along the sorted float line; g : float -> uint32
template <typename G>
static Result sweep_sorted(uint64_t stride, unsigned nthreads, const std::vector<uint32_t> &boundary, G g, const char *nm)
{
  std::vector<Result> rs(nthreads);
  std::vector<uint32_t> first(nthreads, 0), last(nthreads, 0);
  std::vector<char> any(nthreads, 0);
  std::vector<std::thread> ts;
  auto point = [&](uint64_t p, Result &r) -> uint32_t {
    uint32_t u = bits_of_pos(p);
    float x = f_of(u);
    uint32_t v = g(x);
    r.count++;
    if (v > 255u)
      r.bad(p, u, "out-of-0..255");
    else if (x <= 0.f && v != 0u)
      r.bad(p, u, "not-0-for-input<=0");
    else if (x >= 1.f && v != 255u)
      r.bad(p, u, "not-255-for-input>=1");
    return v;
  };
  for (unsigned t = 0; t < nthreads; t++)
    ts.emplace_back([&, t]() {
      Result &r = rs[t];
      uint64_t b = NPOS * t / nthreads, e = NPOS * (t + 1) / nthreads;
      b = (b + stride - 1) / stride * stride;
      bool have = false;
      uint32_t prev = 0;
      for (uint64_t p = b; p < e; p += stride) {
        uint32_t v = point(p, r);
        if (have && v < prev)
          r.bad(p, bits_of_pos(p), "not-monotone(decreases-from-previous-float)");
        if (!have)
          first[t] = v;
        prev = v;
        have = true;
      }
      last[t] = prev;
      any[t] = have;
    });
  for (auto &t : ts)
    t.join();
  Result all;
  bool have = false;
  uint32_t prev = 0;
  for (unsigned t = 0; t < nthreads; t++) {
    all.merge(rs[t]);
    if (!any[t])
      continue;
    if (have && first[t] < prev) {
      uint64_t b = (NPOS * t / nthreads + stride - 1) / stride * stride;
      all.bad(b, bits_of_pos(b), "not-monotone(decreases-from-previous-float)");
    }
    prev = last[t];
    have = true;
  }
  if (stride > 1) {
    // dense neighbourhoods of the boundary values: positions around them on the sorted line
    for (uint32_t c : boundary) {
      uint64_t pc = (c & 0x80000000u) ? (0xFF800000ull - c) : (0x7F800001ull + c);
      bool h2 = false;
      uint32_t pv = 0;
      for (int64_t d = -64; d <= 64; d++) {
        int64_t p = (int64_t)pc + d;
        if (p < 0 || (uint64_t)p >= NPOS)
          continue;
        uint32_t v = point((uint64_t)p, all);
        if (h2 && v < pv)
          all.bad((uint64_t)p, bits_of_pos((uint64_t)p), "not-monotone(decreases-from-previous-float)");
        pv = v;
        h2 = true;
      }
    }
  }
  (void)nm;
  return all;
}

static void report(const char *name, const Result &r)
{
  if (r.fail)
    printf("%s FAIL %08x %s\n", name, r.failBits, r.what.c_str());
  else
    printf("%s ok\n", name);
  printf("# %s count=%llu worst=%.6g at=%08x\n", name, (unsigned long long)r.count, r.worst, r.worstBits);
  fflush(stdout);
}

int main(int argc, char **argv)
{
  uint64_t stride = argc > 1 ? strtoull(argv[1], nullptr, 10) : 1;
  unsigned nth = argc > 2 ? (unsigned)atoi(argv[2]) : 16;
  std::string only = argc > 3 ? argv[3] : "";
  if (stride < 1)
    stride = 1;
  if (nth < 1)
    nth = 1;
  // boundary bit patterns (both signs are added below)
  std::vector<uint32_t> bpos = {
      0x00000000u, 0x00000001u, 0x007fffffu, 0x00800000u, 0x00800001u,  // zero, denormals, flt_min
      0x3f800000u, 0x3f000000u, 0x40000000u,                            // 1, 0.5, 2
      0x7e800000u, 0x7e7fffffu, 0x7f000000u, 0x7f7fffffu, 0x7f800000u,  // 2^126, below, 2^127, flt_max, inf
      0x3b808081u, 0x3b008081u,                                         // ~1/255, ~0.5/255
      0x5f800000u, 0x1f800000u, 0x3eaaaaabu};
  // every power of two and every power of two times sqrt(2)-ish mantissa extremes
  for (uint32_t e = 1; e < 255; e += 1) {
    bpos.push_back(e << 23);
    bpos.push_back((e << 23) | 0x7fffffu);
  }
  std::vector<uint32_t> boundary;
  for (uint32_t b : bpos) {
    boundary.push_back(b);
    boundary.push_back(b | 0x80000000u);
  }
  auto want = [&](const char *k) { return only.empty() || only == k; };

#ifndef RKCOMMON_NO_SIMD
  if (want("est_rcp"))
    report("est_rcp", sweep_bits(stride, nth, boundary, k_est_rcp));
  if (want("est_rsqrt"))
    report("est_rsqrt", sweep_bits(stride, nth, boundary, k_est_rsqrt));
#endif
  if (want("rcp"))
    report("rcp", sweep_bits(stride, nth, boundary, k_rcp));
  if (want("rsqrt"))
    report("rsqrt", sweep_bits(stride, nth, boundary, k_rsqrt));
  if (want("rcp_safe"))
    report("rcp_safe", sweep_bits(stride, nth, boundary, k_rcp_safe));
  if (want("srgb8"))
    report("srgb8", sweep_sorted(stride, nth, boundary, srgb8, "srgb8"));
  if (want("cvt8"))
    report("cvt8", sweep_sorted(stride, nth, boundary, [](float x) { return cvt_uint32(x); }, "cvt8"));
  return 0;
}
