// Harness side of a translator-generated dispatcher: flat float arguments as hex bit patterns.
#pragma once
#include "common.h"
#include <cstring>
#include <cstdint>
#include <tuple>
#include <type_traits>
#include <cmath>

template <int I, typename R, typename... A>
typename std::tuple_element<I, std::tuple<A...>>::type vdrv_param(R (*)(A...));

namespace vh {
inline float f32_of_tok(const std::string &s)
{
  uint32_t u = (uint32_t)std::stoul(s, nullptr, 16);
  float f;
  std::memcpy(&f, &u, 4);
  return f;
}
inline std::string tok_of_f32(float f)
{
  if (std::isnan(f))
    return "nan";
  uint32_t u;
  std::memcpy(&u, &f, 4);
  char buf[16];
  snprintf(buf, sizeof buf, "%08x", u);
  return buf;
}
}  // namespace vh
