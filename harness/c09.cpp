// C09 correspondence harness: rkcommon::utility::Optional<T> (several payload types, chosen by
// the `type` line that opens every case), getEnvVar<T>, and rkcommon::utility::Any,
// driven by the same op lines as the Lean model (lean/Driver/C09.lean).
//
// Optional wrappers live in slots 0..2 (payload T; slot 2 sits behind a `char` member, i.e. at the
// smallest offset the language allows) and 3..4 (payload U, convertible to T).  Every wrapper is
// placement-constructed in a buffer that was filled with 0xA5 first, so that "payload operation on
// storage that holds no object" has a deterministic effect for heap-owning payloads.
// Values are tokens 0..3, printed back as tokens; a payload that was passed as an rvalue prints as
// `?` until it is overwritten (its value is unspecified), tracked by a shadow bit per slot.
// Observation per op: `<result> hv=<has_value of slot 0..4, '.' = no object> live=<#live
// instrumented payload objects | -> err=<lifetime errors seen by the instrumented payload | ->`.
#include "common.h"
#include <cstring>
#include <cstdint>
#include <memory>
#include <set>
#include <new>
#include "rkcommon/utility/Optional.h"
#include "rkcommon/utility/getEnvVar.h"
#include "rkcommon/utility/Any.h"

using rkcommon::utility::Any;
using rkcommon::utility::Optional;

// ---------------------------------------------------------------- lifetime registry
namespace reg {
static std::set<const void *> live;
static std::vector<std::string> errs;
static void born(const void *p) { if (!live.insert(p).second) errs.push_back("constructOnLive"); }
static void died(const void *p) { if (!live.erase(p)) errs.push_back("destroyRaw"); }
static void written(const void *p) { if (!live.count(p)) errs.push_back("assignRaw"); }
static void readfrom(const void *p) { if (!live.count(p)) errs.push_back("readRaw"); }
// the bytes [b, b+n) stop being objects: anything still registered there was never destroyed
static void vanish(const void *b, size_t n)
{
  const char *lo = (const char *)b, *hi = lo + n;
  for (auto it = live.begin(); it != live.end();) {
    const char *q = (const char *)*it;
    if (q >= lo && q < hi) { errs.push_back("leak"); it = live.erase(it); } else ++it;
  }
}
static std::string errString()
{
  if (errs.empty()) return "-";
  std::string s;
  for (auto &e : errs) { if (!s.empty()) s += ","; s += e; }
  return s;
}
}  // namespace reg

// lifetime-instrumented payload; TAG 0 = T, TAG 1 = U (convertible to T)
template <int TAG>
struct Trk
{
  long long v;
  Trk() : v(0) { reg::born(this); }
  Trk(int k) : v(k) { reg::born(this); }
  struct Boom {};                                    // constructing from it throws: nothing is born
  Trk(Boom) : v(0) { throw std::runtime_error("payload constructor"); }
  Trk(const Trk &o) : v((reg::readfrom(&o), o.v)) { reg::born(this); }
  Trk(Trk &&o) : v((reg::readfrom(&o), o.v)) { reg::born(this); o.v = -1; }
  template <int O> Trk(const Trk<O> &o) : v((reg::readfrom(&o), o.v)) { reg::born(this); }
  Trk &operator=(const Trk &o) { reg::written(this); reg::readfrom(&o); v = o.v; return *this; }
  Trk &operator=(Trk &&o) { reg::written(this); reg::readfrom(&o); long long t = o.v; if (&o != this) o.v = -1; v = t; return *this; }
  ~Trk() { reg::died(this); }
};
#define TRK_REL(OP) \
  template <int A, int B> bool operator OP(const Trk<A> &a, const Trk<B> &b) { reg::readfrom(&a); reg::readfrom(&b); return a.v OP b.v; }
TRK_REL(==) TRK_REL(!=) TRK_REL(<) TRK_REL(<=) TRK_REL(>) TRK_REL(>=)

// over-aligned payload
struct alignas(32) Big
{
  int v;
  char pad[40];
  Big() : v(0) { std::memset(pad, 0, sizeof pad); }
  Big(int k) : v(k) { std::memset(pad, k, sizeof pad); }
};
#define BIG_REL(OP) static bool operator OP(const Big &a, const Big &b) { return a.v OP b.v; }
BIG_REL(==) BIG_REL(!=) BIG_REL(<) BIG_REL(<=) BIG_REL(>) BIG_REL(>=)

// trivially destructible payload with user-provided constructors and assignment: a `magic` field set by every
// constructor tells an assignment to / a read of storage that never held a TD (the wrappers' buffers are pre-filled
// with 0xA5) from one on an object; there is no destructor, so nothing else about its lifetime is observable
struct TD
{
  static const unsigned M = 0x7d5a11c3u;
  unsigned magic;
  int v;
  const int *self;    // points at this object's own `v`: a byte-wise copy of a TD (instead of its copy operations) shows
  int chk() const
  {
    if (magic != M) reg::errs.push_back("readRaw");
    else if (self != &v) reg::errs.push_back("bytewiseCopy");
    return v;
  }
  TD() : magic(M), v(0), self(&v) {}
  TD(int k) : magic(M), v(k), self(&v) {}
  TD(const TD &o) : magic(M), v(o.chk()), self(&v) {}
  TD &operator=(const TD &o) { if (magic != M) reg::errs.push_back("assignRaw"); v = o.chk(); return *this; }
};
static_assert(std::is_trivially_destructible<TD>::value, "TD must be trivially destructible");
#define TD_REL(OP) static bool operator OP(const TD &a, const TD &b) { return a.chk() OP b.chk(); }
TD_REL(==) TD_REL(!=) TD_REL(<) TD_REL(<=) TD_REL(>) TD_REL(>=)

// source type convertible to std::vector<int>
static std::vector<int> vecOf(int k) { return std::vector<int>((size_t)k * 5, k); }
struct VecSrc
{
  int k;
  operator std::vector<int>() const { return vecOf(k); }
};
#define VS_REL(OP) static bool operator OP(const std::vector<int> &a, const VecSrc &b) { return a OP vecOf(b.k); }
VS_REL(==) VS_REL(!=) VS_REL(<) VS_REL(<=) VS_REL(>) VS_REL(>=)

// emplace() with arguments for which the payload's constructor throws (only for payload types that have such arguments)
template <typename T> struct ThrowingEmplace { static bool can() { return false; } template <typename O> static void run(O &) {} };
template <> struct ThrowingEmplace<std::string> {
  static bool can() { return true; }
  template <typename O> static void run(O &o) { o.emplace((size_t)-1, 'x'); }   // std::length_error
};
template <int N> struct ThrowingEmplace<Trk<N>> {
  static bool can() { return true; }
  template <typename O> static void run(O &o) { o.emplace(typename Trk<N>::Boom()); }
};

struct NoEq { int v; };  // no operator== : Any::handle<NoEq>::isSame is constant false
// operator== coarser than identity (compares the key only): "equal" payloads need not be identical, so an
// assignment must still install the right-hand side's payload
struct KeyRec { int key; int note; bool operator==(const KeyRec &o) const { return key == o.key; } };

static const char *const STRS[4] = {"", "a", "bbbbbbbbbbbbbbbbbbbbbbbbbbbbbbbbbbbbbbbb", "ccccccccccccccccc"};
static int clampTok(int k) { return k < 0 ? 0 : (k > 3 ? 3 : k); }

// ---------------------------------------------------------------- payload descriptions
template <typename T> struct P;
template <> struct P<int> {
  typedef short U;
  static int make(int k) { return k; }
  static U makeU(int k) { return (short)k; }
  static std::string show(int v) { return std::to_string(v); }
  static std::string showU(short v) { return std::to_string(v); }
};
// float/double payload tokens are k/2 resp. k/4 (exactly representable, not integers, so that an
// integer parse or a narrowing through int is visible); printed back as the token
template <> struct P<float> {
  typedef double U;
  static float make(int k) { return 0.5f * (float)k; }
  static U makeU(int k) { return 0.5 * (double)k; }
  static std::string showU(double v) { double t = v * 2.0; return (t == (double)(int)t && t >= 0 && t <= 3) ? std::to_string((int)t) : "corrupt"; }
  static std::string show(float v) { return showU((double)v); }
};
template <> struct P<double> {
  typedef float U;
  static double make(int k) { return 0.25 * (double)k; }
  static U makeU(int k) { return 0.25f * (float)k; }
  static std::string show(double v) { double t = v * 4.0; return (t == (double)(int)t && t >= 0 && t <= 3) ? std::to_string((int)t) : "corrupt"; }
  static std::string showU(float v) { return show((double)v); }
};
template <> struct P<std::string> {
  typedef const char *U;
  static std::string make(int k) { return STRS[clampTok(k)]; }
  static U makeU(int k) { return STRS[clampTok(k)]; }
  static std::string show(const std::string &v)
  {
    for (int k = 0; k < 4; k++) if (v == STRS[k]) return std::to_string(k);
    return "corrupt";
  }
  static std::string showU(const char *v) { return show(std::string(v)); }
};
template <> struct P<std::vector<int>> {
  typedef VecSrc U;
  static std::vector<int> make(int k) { return vecOf(k); }
  static U makeU(int k) { VecSrc s; s.k = k; return s; }
  static std::string show(const std::vector<int> &v)
  {
    for (int k = 0; k < 4; k++) if (v == vecOf(k)) return std::to_string(k);
    return "corrupt";
  }
  static std::string showU(const VecSrc &v) { return std::to_string(v.k); }
};
template <> struct P<Big> {
  typedef int U;
  static Big make(int k) { return Big(k); }
  static U makeU(int k) { return k; }
  static std::string show(const Big &v)
  {
    for (size_t i = 0; i < sizeof v.pad; i++) if (v.pad[i] != (char)v.v) return "corrupt";
    return std::to_string(v.v);
  }
  static std::string showU(int v) { return std::to_string(v); }
};
template <> struct P<TD> {
  typedef int U;
  static TD make(int k) { return TD(k); }
  static U makeU(int k) { return k; }
  static std::string show(const TD &v) { return std::to_string(v.chk()); }
  static std::string showU(int v) { return std::to_string(v); }
};
template <> struct P<Trk<0>> {
  typedef Trk<1> U;
  static Trk<0> make(int k) { return Trk<0>(k); }
  static U makeU(int k) { return Trk<1>(k); }
  static std::string show(const Trk<0> &v) { reg::readfrom(&v); return std::to_string(v.v); }
  static std::string showU(const Trk<1> &v) { reg::readfrom(&v); return std::to_string(v.v); }
};

// getEnvVar<T> exists for int, float, std::string only
template <typename T> struct Env {
  static const bool ok = false;
  static Optional<T> get(const std::string &) { return Optional<T>(); }
  static std::string str(int) { return ""; }
};
template <> struct Env<int> {
  static const bool ok = true;
  static Optional<int> get(const std::string &n) { return rkcommon::utility::getEnvVar<int>(n); }
  static std::string str(int k) { return std::to_string(k); }
};
template <> struct Env<float> {
  static const bool ok = true;
  static Optional<float> get(const std::string &n) { return rkcommon::utility::getEnvVar<float>(n); }
  static std::string str(int k) { static const char *const v[4] = {"0", "0.5", "1", "1.5"}; return v[clampTok(k)]; }
};
template <> struct Env<std::string> {
  static const bool ok = true;
  static Optional<std::string> get(const std::string &n) { return rkcommon::utility::getEnvVar<std::string>(n); }
  static std::string str(int k) { return STRS[clampTok(k)]; }
};

// ---------------------------------------------------------------- wrapper slots
template <typename X> struct PlainCell {
  Optional<X> o;
  template <typename... A> PlainCell(A &&... a) : o(std::forward<A>(a)...) {}
};
template <typename X> struct OddCell {
  char c;
  Optional<X> o;
  template <typename... A> OddCell(A &&... a) : c(0), o(std::forward<A>(a)...) {}
};

template <typename Cell> struct Slot {
  alignas(64) unsigned char buf[sizeof(Cell) + 64];
  Cell *p = nullptr;
  template <typename... A> void construct(A &&... a)
  {
    destroy();
    std::memset(buf, 0xA5, sizeof buf);
    p = new (buf) Cell(std::forward<A>(a)...);
  }
  void destroy()
  {
    if (!p) return;
    p->~Cell();
    reg::vanish(buf, sizeof buf);
    p = nullptr;
  }
};

template <typename T>
struct OptHarness
{
  typedef typename P<T>::U U;
  Slot<PlainCell<T>> w0, w1;
  Slot<OddCell<T>> w2;
  Slot<PlainCell<U>> u0, u1;
  bool taint[5];
  std::string mode;

  Optional<T> *W(int i) { return i == 0 ? (w0.p ? &w0.p->o : nullptr) : i == 1 ? (w1.p ? &w1.p->o : nullptr) : i == 2 ? (w2.p ? &w2.p->o : nullptr) : nullptr; }
  Optional<U> *Uw(int i) { return i == 3 ? (u0.p ? &u0.p->o : nullptr) : i == 4 ? (u1.p ? &u1.p->o : nullptr) : nullptr; }
  bool present(int s) { return s < 3 ? W(s) != nullptr : Uw(s) != nullptr; }
  bool has(int s) { return s < 3 ? W(s)->has_value() : Uw(s)->has_value(); }

  template <typename... A> void newT(int i, A &&... a)
  {
    if (i == 0) w0.construct(std::forward<A>(a)...);
    else if (i == 1) w1.construct(std::forward<A>(a)...);
    else w2.construct(std::forward<A>(a)...);
  }
  template <typename... A> void newU(int i, A &&... a)
  {
    if (i == 3) u0.construct(std::forward<A>(a)...);
    else u1.construct(std::forward<A>(a)...);
  }
  void del(int s)
  {
    if (s == 0) w0.destroy(); else if (s == 1) w1.destroy(); else if (s == 2) w2.destroy();
    else if (s == 3) u0.destroy(); else u1.destroy();
    taint[s] = false;
  }
  void reset()
  {
    for (int s = 0; s < 5; s++) del(s);
    reg::live.clear();
    reg::errs.clear();
    for (const char *n : {"RKV_a", "RKV_b", "RKV_c"}) unsetenv(n);
  }

  std::string tail()
  {
    std::string hv;
    for (int s = 0; s < 5; s++) hv += !present(s) ? '.' : (has(s) ? '1' : '0');
    return " hv=" + hv + " live=" + (mode == "trk" ? std::to_string(reg::live.size()) : std::string("-")) + " err=" + reg::errString();
  }

  static bool isT(int s) { return s >= 0 && s < 3; }
  static bool isU(int s) { return s == 3 || s == 4; }

  std::string step(const std::vector<std::string> &w)
  {
    const std::string &op = w[0];
    if (op == "type") {
      mode = w[1];
      bool okp = std::stoul(w[2]) == sizeof(T) && (1ul << std::stoul(w[3])) == alignof(T);
      return okp ? "ok" : "bad-layout-params";
    }
    if (op == "layout") {
      Slot<OddCell<T>> tmp;
      tmp.construct(P<T>::make(1));
      uintptr_t a = (uintptr_t) & (tmp.p->o.value());
      std::string r = std::string("aligned=") + vh::bit(a % alignof(T) == 0) + vh::bit(alignof(Optional<T>) % alignof(T) == 0);
      tmp.destroy();
      return r;
    }
    if (op == "end") {
      for (int s = 0; s < 5; s++) del(s);
      return "end" + tail();
    }
    if (op == "env_set") { setenv(("RKV_" + w[1]).c_str(), Env<T>::str(std::stoi(w[2])).c_str(), 1); return "ok" + tail(); }
    if (op == "env_unset") { unsetenv(("RKV_" + w[1]).c_str()); return "ok" + tail(); }
    if (op == "env_get") {
      int i = std::stoi(w[1]);
      if (!Env<T>::ok || !isT(i)) return "bad-op";
      newT(i, Env<T>::get("RKV_" + w[2]));
      taint[i] = false;
      return "ok" + tail();
    }
    if (w.size() < 2) return "bad-op";
    int i = std::stoi(w[1]);
    int j = w.size() > 2 ? std::stoi(w[2]) : 0;
    if (!(isT(i) || isU(i))) return "bad-op";

    // ---- constructors
    if (op == "new") { if (isT(i)) newT(i); else newU(i); taint[i] = false; return "ok" + tail(); }
    if (op == "newv") {
      if (isT(i)) { const T v = P<T>::make(j); newT(i, v); } else { const U v = P<T>::makeU(j); newU(i, v); }
      taint[i] = false; return "ok" + tail();
    }
    if (op == "mk") {
      if (!isT(i)) return "bad-op";
      newT(i, rkcommon::utility::make_optional<T>(P<T>::make(j)));
      taint[i] = false; return "ok" + tail();
    }
    if (op == "newc" || op == "newm" || op == "newcu" || op == "newmu") {
      bool conv = op.size() == 5;
      if (!isT(i) || i == j || (conv ? !isU(j) : !isT(j))) return "bad-op";
      if (!present(j)) return "absent" + tail();
      bool eng = has(j), tj = taint[j];
      if (op == "newc") { const Optional<T> &src = *W(j); newT(i, src); }
      else if (op == "newm") { newT(i, std::move(*W(j))); }
      else if (op == "newcu") { const Optional<U> &src = *Uw(j); newT(i, src); }
      else { newT(i, std::move(*Uw(j))); }
      taint[i] = eng && tj;
      if ((op == "newm" || op == "newmu") && eng) taint[j] = true;
      return "ok" + tail();
    }
    // ---- everything below needs wrapper i
    if (!present(i)) return "absent" + tail();
    if (op == "del") { del(i); return "ok" + tail(); }
    if (op == "rst") { if (isT(i)) W(i)->reset(); else Uw(i)->reset(); taint[i] = false; return "ok" + tail(); }
    if (op == "emp") {
      if (isT(i)) { T &r = W(i)->emplace(P<T>::make(j)); if (&r != &W(i)->value()) return "emplace-ref-mismatch"; }
      else Uw(i)->emplace(P<T>::makeU(j));
      taint[i] = false; return "ok" + tail();
    }
    if (op == "asv") {
      if (isT(i)) { const T v = P<T>::make(j); *W(i) = v; } else { const U v = P<T>::makeU(j); *Uw(i) = v; }
      taint[i] = false; return "ok" + tail();
    }
    if (op == "empx") {
      // emplace whose payload constructor throws: the wrapper must end up empty (the old payload is gone, no new one
      // exists), with nothing constructed twice or destroyed twice
      if (!isT(i) || !ThrowingEmplace<T>::can()) return "bad-op";
      if (!present(i)) return "absent" + tail();
      bool threw = false;
      try { ThrowingEmplace<T>::run(*W(i)); } catch (const std::exception &) { threw = true; }
      taint[i] = false;
      return std::string(threw ? "throw" : "nothrow") + tail();
    }
    if (op == "asown") {
      // o = o.value(): operator=(U&&) with an lvalue that aliases the wrapper's own payload; the value must survive
      if (!isT(i)) return "bad-op";
      if (!present(i)) return "absent" + tail();
      if (!has(i) || taint[i]) return "noval" + tail();
      *W(i) = W(i)->value();
      return "ok" + tail();
    }
    if (op == "asvr") { if (!isT(i)) return "bad-op"; *W(i) = P<T>::make(j); taint[i] = false; return "ok" + tail(); }
    if (op == "asvu") { if (!isT(i)) return "bad-op"; *W(i) = P<T>::makeU(j); taint[i] = false; return "ok" + tail(); }
    if (op == "asc" || op == "asm" || op == "ascu" || op == "asmu") {
      bool conv = op.size() == 4;
      if (!isT(i) || (conv ? !isU(j) : !isT(j))) return "bad-op";
      if ((op == "asm" || op == "asmu") && i == j) return "bad-op";
      if (!present(j)) return "absent" + tail();
      bool eng = has(j), tj = taint[j];
      if (op == "asc") { const Optional<T> &src = *W(j); *W(i) = src; }
      else if (op == "asm") { *W(i) = std::move(*W(j)); }
      else if (op == "ascu") { const Optional<U> &src = *Uw(j); *W(i) = src; }
      else { *W(i) = std::move(*Uw(j)); }
      taint[i] = eng && tj;
      if ((op == "asm" || op == "asmu") && eng) taint[j] = true;
      return "ok" + tail();
    }
    // ---- observers
    if (op == "has") return std::string(vh::bit(isT(i) ? W(i)->has_value() : Uw(i)->has_value())) + tail();
    if (op == "bool") return std::string(vh::bit(isT(i) ? (bool)*W(i) : (bool)*Uw(i))) + tail();
    if (op == "get" || op == "arrow") {
      if (!has(i)) return "-" + tail();
      if (taint[i]) return "?" + tail();
      std::string r;
      if (isT(i)) {
        const Optional<T> &c = *W(i);
        r = op == "get" ? P<T>::show(*c) : P<T>::show(*(c.operator->()));
        if (&c.value() != &W(i)->value() || &*c != W(i)->operator->()) return "accessor-mismatch";
      } else r = P<T>::showU(Uw(i)->value());
      return r + tail();
    }
    if (op == "vor") {
      bool unspec = has(i) && taint[i];
      std::string r;
      if (isT(i)) { const Optional<T> &c = *W(i); r = P<T>::show(c.value_or(P<T>::make(j))); }
      else { const Optional<U> &c = *Uw(i); r = P<T>::showU(c.value_or(P<T>::makeU(j))); }
      return (unspec ? "?" : r) + tail();
    }
    if (op == "tostr") {
      std::string s = isT(i) ? W(i)->toString() : Uw(i)->toString();  // the text is not part of the property
      return (s.size() < (1u << 20) ? "ok" : "huge") + tail();
    }
    if (op == "cmp" || op == "cmpu") {
      bool conv = op == "cmpu";
      if (!isT(i) || (conv ? !isU(j) : !isT(j))) return "bad-op";
      if (!present(j)) return "absent" + tail();
      bool unspec = has(i) && has(j) && (taint[i] || taint[j]);
      std::string r;
      if (!conv) {
        const Optional<T> &a = *W(i), &b = *W(j);
        r = std::string(vh::bit(a == b)) + vh::bit(a != b) + vh::bit(a < b) + vh::bit(a <= b) + vh::bit(a > b) + vh::bit(a >= b);
      } else {
        const Optional<T> &a = *W(i);
        const Optional<U> &b = *Uw(j);
        r = std::string(vh::bit(a == b)) + vh::bit(a != b) + vh::bit(a < b) + vh::bit(a <= b) + vh::bit(a > b) + vh::bit(a >= b);
      }
      return (unspec ? "??????" : r) + tail();
    }
    return "bad-op";
  }
};

// ---------------------------------------------------------------- Any
template <typename X> struct AP;
template <> struct AP<int> { static int make(int k) { return k; } static std::string show(int v) { return std::to_string(v); } };
template <> struct AP<float> { static float make(int k) { return (float)k; } static std::string show(float v) { return std::to_string((int)v); } };
template <> struct AP<long> { static long make(int k) { return k; } static std::string show(long v) { return std::to_string(v); } };
template <> struct AP<std::string> { static std::string make(int k) { return STRS[clampTok(k)]; } static std::string show(const std::string &v) { return P<std::string>::show(v); } };
template <> struct AP<KeyRec> { static KeyRec make(int k) { KeyRec r; r.key = k / 4; r.note = k; return r; } static std::string show(const KeyRec &v) { return std::to_string(v.note); } };
template <> struct AP<NoEq> { static NoEq make(int k) { NoEq n; n.v = k; return n; } static std::string show(const NoEq &v) { return std::to_string(v.v); } };
template <> struct AP<Trk<0>> { static Trk<0> make(int k) { return Trk<0>(k); } static std::string show(const Trk<0> &v) { reg::readfrom(&v); return std::to_string(v.v); } };

struct AnyHarness
{
  struct ASlot {
    alignas(16) unsigned char buf[sizeof(Any)];
    Any *p = nullptr;
    void destroy() { if (p) { p->~Any(); p = nullptr; } }
  } a[3];

  int opCount = 0;
  void reset() { for (auto &s : a) s.destroy(); reg::live.clear(); reg::errs.clear(); opCount = 0; }
  std::string tail()
  {
    std::string v;
    for (auto &s : a) v += !s.p ? '.' : (s.p->valid() ? '1' : '0');
    return " v=" + v + " live=" + std::to_string(reg::live.size()) + " err=" + reg::errString();
  }
  template <typename X> void newv(int i, int k) { a[i].destroy(); std::memset(a[i].buf, 0xA5, sizeof a[i].buf); a[i].p = new (a[i].buf) Any(AP<X>::make(k)); }
  template <typename X> std::string get(int i, bool cst)
  {
    try {
      if (cst) { const Any &c = *a[i].p; return AP<X>::show(c.get<X>()); }
      return AP<X>::show(a[i].p->get<X>());
    } catch (const std::runtime_error &) { return "throw"; }
  }
  template <typename X> std::string mut(int i, int k)
  {
    try { a[i].p->get<X>() = AP<X>::make(k); return "ok"; } catch (const std::runtime_error &) { return "throw"; }
  }
#define BY_TAG(t, EXPR)                                   \
  ((t) == "int" ? EXPR(int) : (t) == "float" ? EXPR(float) : (t) == "long" ? EXPR(long) : (t) == "string" ? EXPR(std::string) \
   : (t) == "noeq" ? EXPR(NoEq) : (t) == "key" ? EXPR(KeyRec) : EXPR(Trk<0>))

  static bool tagOk(const std::string &t) { return t == "int" || t == "float" || t == "long" || t == "string" || t == "noeq" || t == "trk" || t == "key"; }

  std::string step(const std::vector<std::string> &w)
  {
    const std::string &op = w[0];
    opCount++;
    if (op == "type") return "ok";
    if (op == "end") { for (auto &s : a) s.destroy(); return "end" + tail(); }
    if (w.size() < 2) return "bad-op";
    int i = std::stoi(w[1]);
    if (i < 0 || i > 2) return "bad-op";
    if (op == "anew") { a[i].destroy(); std::memset(a[i].buf, 0xA5, sizeof a[i].buf); a[i].p = new (a[i].buf) Any(); return "ok" + tail(); }
    if (op == "anewv") {
      if (w.size() < 4 || !tagOk(w[2])) return "bad-op";
      int k = std::stoi(w[3]);
#define NEWV(X) (newv<X>(i, k), 0)
      BY_TAG(w[2], NEWV);
      return "ok" + tail();
    }
    if (op == "acopy") {
      int j = std::stoi(w[2]);
      if (j < 0 || j > 2 || i == j) return "bad-op";
      if (!a[j].p) return "absent" + tail();
      a[i].destroy();
      std::memset(a[i].buf, 0xA5, sizeof a[i].buf);
      const Any &src = *a[j].p;
      a[i].p = new (a[i].buf) Any(src);
      return "ok" + tail();
    }
    if (!a[i].p) return "absent" + tail();
    if (op == "adel") { a[i].destroy(); return "ok" + tail(); }
    if (op == "avalid") return std::string(vh::bit(a[i].p->valid())) + tail();
    if (op == "astr") {
      const Any &c = *a[i].p;
      std::string s = c.toString();
      if (!c.valid()) return "empty" + tail();
      std::string t = c.is<int>() ? "int" : c.is<float>() ? "float" : c.is<long>() ? "long" : c.is<std::string>() ? "string"
          : c.is<NoEq>() ? "noeq" : c.is<KeyRec>() ? "key" : c.is<Trk<0>>() ? "trk" : "unknown";
      (void)s;  // the text is not part of the property; the stored type is reported through is<T>()
      return "T:" + t + tail();
    }
    if (op == "ais" || op == "aget") {
      if (w.size() < 3 || !tagOk(w[2])) return "bad-op";
      const Any &c = *a[i].p;
      if (op == "ais") {
#define IS(X) c.is<X>()
        return std::string(vh::bit(BY_TAG(w[2], IS))) + tail();
      }
      bool cst = (opCount & 1) != 0;
#define GET(X) get<X>(i, cst)
      return BY_TAG(w[2], GET) + tail();
    }
    if (op == "aasv" || op == "amut") {
      if (w.size() < 4 || !tagOk(w[2])) return "bad-op";
      int k = std::stoi(w[3]);
      if (op == "aasv") {
#define ASV(X) ((*a[i].p = AP<X>::make(k)), 0)
        BY_TAG(w[2], ASV);
        return "ok" + tail();
      }
#define MUT(X) mut<X>(i, k)
      return BY_TAG(w[2], MUT) + tail();
    }
    if (op == "aasg" || op == "aeq") {
      int j = std::stoi(w[2]);
      if (j < 0 || j > 2) return "bad-op";
      if (!a[j].p) return "absent" + tail();
      const Any &rhs = *a[j].p;
      if (op == "aasg") { *a[i].p = rhs; return "ok" + tail(); }
      const Any &lhs = *a[i].p;
      return std::string(vh::bit(lhs == rhs)) + vh::bit(lhs != rhs) + tail();
    }
    return "bad-op";
  }
};

struct Mode {
  std::string name;
  std::function<void()> reset;
  std::function<std::string(const std::vector<std::string> &)> step;
};

template <typename T> Mode optMode(const std::string &name)
{
  std::shared_ptr<OptHarness<T>> h(new OptHarness<T>);
  for (bool &t : h->taint) t = false;
  Mode m;
  m.name = name;
  m.reset = [h]() { h->reset(); };
  m.step = [h](const std::vector<std::string> &w) { return h->step(w); };
  return m;
}

// One process serves every payload type: the `type` line that opens a case selects it.
int main()
{
  std::vector<Mode> modes;
  modes.push_back(optMode<int>("int"));
  modes.push_back(optMode<float>("flt"));
  modes.push_back(optMode<double>("dbl"));
  modes.push_back(optMode<std::string>("str"));
  modes.push_back(optMode<std::vector<int>>("vec"));
  modes.push_back(optMode<Big>("big"));
  modes.push_back(optMode<Trk<0>>("trk"));
  modes.push_back(optMode<TD>("tdp"));
  {
    std::shared_ptr<AnyHarness> h(new AnyHarness);
    Mode m;
    m.name = "any";
    m.reset = [h]() { h->reset(); };
    m.step = [h](const std::vector<std::string> &w) { return h->step(w); };
    modes.push_back(m);
  }
  size_t cur = 0;
  return vh::run(
      [&]() { for (auto &m : modes) m.reset(); cur = 0; },
      [&](const std::vector<std::string> &w) -> std::string {
        if (w[0] == "type") {
          if (w.size() < 4) return "bad-op";
          size_t k = 0;
          while (k < modes.size() && modes[k].name != w[1]) k++;
          if (k == modes.size()) return "bad-op";
          modes[cur].reset();
          cur = k;
        }
        return modes[cur].step(w);
      });
}
