// C18 correspondence harness: string / URL / path / argument helpers, driven by the same op lines
// as the Lean model (lean/Driver/C18.lean).
// String arguments are written "~<chars>" (so "~" is the empty string); the alphabets of the
// generators never contain white space, '<' or '>'.  Lists of strings are printed "<a><b>..." with
// the count in front, so [] and [""] differ.
#include "common.h"
#include <cmath>
#include <cstring>
#include <memory>
#include <sstream>
#include "rkcommon/common.h"
#include "rkcommon/os/FileName.h"
#include "rkcommon/utility/ArgumentList.h"
#include "rkcommon/utility/PseudoURL.h"
#include "rkcommon/utility/StringManip.h"

using namespace rkcommon;

static std::string S(const std::string &tok)
{
  if (tok.empty() || tok[0] != '~')
    throw std::runtime_error("bad string token");
  return tok.substr(1);
}
static std::string q(const std::string &s)
{
  return "<" + s + ">";
}
static std::string showList(const std::vector<std::string> &v)
{
  std::string out = std::to_string(v.size()) + ":";
  for (auto &t : v)
    out += q(t);
  return out;
}

// all observable parts of a FileName, through every accessor the property talks about
static std::string showFile(const FileName &f)
{
  std::string viaConv = f;  // operator std::string
  std::ostringstream os;
  os << f;
  bool same = viaConv == f.str() && os.str() == f.str() && std::string(f.c_str()) == f.str();
  return q(f.str()) + " p" + q(f.path()) + " b" + q(f.base()) + " n" + q(f.name()) + " e" + q(f.ext())
      + " d" + q(f.dropExt().str()) + (same ? "" : " accessors-differ");
}

struct TableParser : public utility::ArgumentsParser
{
  std::vector<std::pair<std::string, int>> table;
  int calls{0};
  int tryConsume(utility::ArgumentList &argList, int argID) override
  {
    calls++;
    const std::string a = argList[argID];
    for (auto &e : table)
      if (e.first == a)
        return e.second;
    return 0;
  }
};

int main()
{
  std::unique_ptr<utility::ArgumentList> al;
  std::vector<std::string> keep;  // storage behind the const char* given to ArgumentList / removeArgs
  return vh::run(
      [&]() { al.reset(); },
      [&](const std::vector<std::string> &w) -> std::string {
        const std::string &op = w[0];
        // ---- StringManip
        if (op == "lbm")
          return q(utility::longestBeginningMatch(S(w[1]), S(w[2])));
        if (op == "bw")
          return vh::bit(utility::beginsWith(S(w[1]), S(w[2])));
        if (op == "split1")
          return showList(utility::split(S(w[1]), S(w[2]).at(0)));
        if (op == "splitset") {
          if (w[3] == "d")  // default argument keepDelim = false
            return showList(utility::split(S(w[1]), S(w[2])));
          return showList(utility::split(S(w[1]), S(w[2]), w[3] == "1"));
        }
        // ---- PseudoURL
        if (op == "tok") {
          std::vector<std::string> t;
          utility::tokenize(S(w[1]), S(w[2]).at(0), t);
          return showList(t);
        }
        if (op == "url") {
          utility::PseudoURL u(S(w[1]));
          std::string out = "t" + q(u.getType()) + " f" + q(u.getFileName());
          for (size_t i = 2; i < w.size(); i++) {
            std::string n = S(w[i]);
            out += std::string(" ") + vh::bit(u.hasParam(n)) + ":";
            try {
              out += q(u.getValue(n));
            } catch (const std::runtime_error &) {
              out += "throw";
            }
          }
          return out;
        }
        // ---- FileName
        if (op == "fn")
          return showFile(FileName(S(w[1])));
        if (op == "fnc")
          return showFile(FileName(S(w[1]).c_str()));
        if (op == "fnset")
          return showFile(FileName(S(w[1])).setExt(S(w[2])));
        if (op == "fnset0")
          return showFile(FileName(S(w[1])).setExt());
        if (op == "fnadd")
          return showFile(FileName(S(w[1])).addExt(S(w[2])));
        if (op == "fnadd0")
          return showFile(FileName(S(w[1])).addExt());
        if (op == "fnplus") {
          FileName a(S(w[1])), b(S(w[2]));
          return showFile(a + b) + " eq" + vh::bit(a == b) + vh::bit(a != b);
        }
        if (op == "fnpluss")
          return showFile(FileName(S(w[1])) + S(w[2]));
        if (op == "fnempty")
          return showFile(FileName());
        // ---- ArgumentList
        if (op == "al_new") {
          keep.clear();
          for (size_t i = 1; i < w.size(); i++)
            keep.push_back(S(w[i]));
          std::vector<const char *> av;
          for (auto &s : keep)
            av.push_back(s.c_str());
          al.reset(new utility::ArgumentList((int)av.size(), av.data()));
          return "ok";
        }
        if (op == "al_size")
          return std::to_string(al->size());
        if (op == "al_empty")
          return vh::bit(al->empty());
        if (op == "al_get") {
          try {
            return q((*al)[std::stoi(w[1])]);
          } catch (const std::out_of_range &) {
            return "throw";
          }
        }
        if (op == "al_rm") {
          if (w.size() > 2)
            al->remove(std::stoi(w[1]), std::stoi(w[2]));
          else
            al->remove(std::stoi(w[1]));
          return "ok";
        }
        if (op == "al_dump") {
          std::vector<std::string> v;
          for (int i = 0; i < al->size(); i++)
            v.push_back((*al)[i]);
          return showList(v);
        }
        if (op == "al_parse") {  // al_parse ~name=count ...
          TableParser p;
          for (size_t i = 1; i < w.size(); i++) {
            std::string e = S(w[i]);
            size_t eq = e.rfind('=');
            p.table.push_back({e.substr(0, eq), std::stoi(e.substr(eq + 1))});
          }
          p.parseAndRemove(*al);
          std::vector<std::string> v;
          for (int i = 0; i < al->size(); i++)
            v.push_back((*al)[i]);
          return showList(v);
        }
        if (op == "rmargs") {  // rmargs where howMany ~a0 ~a1 ...
          std::vector<std::string> store;
          for (size_t i = 3; i < w.size(); i++)
            store.push_back(S(w[i]));
          std::vector<const char *> avv;
          for (auto &s : store)
            avv.push_back(s.c_str());
          int ac = (int)avv.size();
          const char **av = avv.data();
          removeArgs(ac, av, std::stoi(w[1]), std::stoi(w[2]));
          if (av != avv.data() || ac < 0 || ac > (int)avv.size())
            return "bad-ac-av";
          std::vector<std::string> v;
          for (int i = 0; i < ac; i++)
            v.push_back(av[i]);
          return showList(v);
        }
        // ---- prettyNumber / prettyDouble
        if (op == "pn")
          return q(prettyNumber((size_t)std::stoull(w[1])));
        if (op == "pd") {  // pd m e : val = m * 2^e, |m| < 2^53
          double val = std::ldexp((double)std::stoll(w[1]), std::stoi(w[2]));
          return q(prettyDouble(val));
        }
        return "bad-op";
      });
}
