// C15 correspondence harness: rkcommon::networking stream serialization
// (BufferWriter / WriteSizeCalculator / FixedBufferWriter / BufferReader and the typed stream
// operators), driven by the same op lines as the Lean model (lean/Driver/C15.lean).
//
// Tokens (no spaces inside a token):
//   type   i8 u8 b c i16 u16 i32 u32 f32 i64 u64 sz f64 S3 S12 S24 | str | v(<type>) |
//          a(<pod>,<owned|fixed|view|fview>,<abs|conc>)  (write)   a(<pod>)  (read)
//   value  pod: 2*sizeof hex digits (object bytes; floats are bit patterns) | str: s<hex> |
//          vector/array: [e1,e2,...]
// Every byte that leaves or enters a stream is printed in hex; nothing else is observed but
// cursor / end() / available() / capacity() and exceptions (std::runtime_error -> "throw").
#include "common.h"
#include <cstdint>
#include <cstring>
#include <memory>
#include <sys/resource.h>
#include <sys/wait.h>
#include <unistd.h>
#include "rkcommon/networking/DataStreaming.h"

using namespace rkcommon;
using namespace rkcommon::networking;
using namespace rkcommon::utility;

// POD structs without padding bytes (padding would be indeterminate and must not be observed)
struct S3 { uint8_t a, b, c; };
struct S12 { int32_t a; float b; uint16_t c; uint8_t d; uint8_t e; };
struct S24 { double d; int64_t l; int32_t i; int16_t s; int8_t c; uint8_t u; };
static_assert(sizeof(S3) == 3 && sizeof(S12) == 12 && sizeof(S24) == 24, "struct layout");
static_assert(sizeof(size_t) == 8, "64-bit size_t expected");

static const size_t BIG = 1 << 16;  // sizes above this are never backed by real memory

// ---- state -----------------------------------------------------------------------------------
static std::unique_ptr<BufferWriter> bw;
static std::unique_ptr<WriteSizeCalculator> sc;
static std::unique_ptr<FixedBufferWriter> fw;
static std::unique_ptr<BufferReader> rd;

static std::string hex(const uint8_t *p, size_t n)
{
  static const char *d = "0123456789abcdef";
  std::string s;
  s.reserve(2 * n);
  for (size_t i = 0; i < n; ++i) { s += d[p[i] >> 4]; s += d[p[i] & 15]; }
  return s;
}
static std::string hexOrDash(const uint8_t *p, size_t n) { return n ? hex(p, n) : "-"; }

struct Cur { const std::string &s; size_t p; };
static int hv(char c) { return c >= '0' && c <= '9' ? c - '0' : c >= 'a' && c <= 'f' ? c - 'a' + 10 : -1; }
static bool hexByte(Cur &c, uint8_t &b)
{
  if (c.p + 1 >= c.s.size()) return false;
  int x = hv(c.s[c.p]), y = hv(c.s[c.p + 1]);
  if (x < 0 || y < 0) return false;
  b = uint8_t(16 * x + y); c.p += 2; return true;
}
struct BadToken : std::exception {};

// ---- value <-> token, per C++ type -------------------------------------------------------
template <typename T> struct Codec {  // trivially copyable types: the object bytes
  static void parseInto(Cur &c, T &x)
  {
    uint8_t b[sizeof(T)];
    for (size_t i = 0; i < sizeof(T); ++i) if (!hexByte(c, b[i])) throw BadToken();
    std::memcpy(&x, b, sizeof(T));
  }
  static std::string show(const T &x)
  {
    uint8_t b[sizeof(T)];
    std::memcpy(b, &x, sizeof(T));
    return hex(b, sizeof(T));
  }
};
template <> struct Codec<std::string> {
  static void parseInto(Cur &c, std::string &x)
  {
    if (c.p >= c.s.size() || c.s[c.p] != 's') throw BadToken();
    c.p++; x.clear();
    uint8_t b;
    while (hexByte(c, b)) x.push_back(char(b));
  }
  static std::string show(const std::string &x) { return "s" + hex((const uint8_t *)x.data(), x.size()); }
};
template <typename T> struct Codec<std::vector<T>> {
  static void parseInto(Cur &c, std::vector<T> &v)
  {
    if (c.p >= c.s.size() || c.s[c.p] != '[') throw BadToken();
    c.p++; v.clear();
    if (c.p < c.s.size() && c.s[c.p] == ']') { c.p++; return; }
    for (;;) {
      v.emplace_back();
      Codec<T>::parseInto(c, v.back());
      if (c.p >= c.s.size()) throw BadToken();
      char ch = c.s[c.p++];
      if (ch == ']') return;
      if (ch != ',') throw BadToken();
    }
  }
  static std::string show(const std::vector<T> &v)
  {
    std::string s = "[";
    for (size_t i = 0; i < v.size(); ++i) { if (i) s += ","; s += Codec<T>::show(v[i]); }
    return s + "]";
  }
};

// ---- runtime type descriptor -> C++ type ---------------------------------------------------
// (bool only as a scalar: std::vector<bool> is not a container of bool objects)
#define ELEM_TYPES(X) \
  X(i8, int8_t) X(u8, uint8_t) X(c, char) X(i16, int16_t) X(u16, uint16_t) X(i32, int32_t) \
  X(u32, uint32_t) X(f32, float) X(i64, int64_t) X(u64, uint64_t) X(sz, size_t) X(f64, double) \
  X(S3, S3) X(S12, S12) X(S24, S24)
#define POD_TYPES(X) ELEM_TYPES(X) X(b, bool)
#define VEC_OF_POD(n, T) Y(v(n), std::vector<T>)
#define OTHER_TYPES(Y) \
  Y(str, std::string) Y(v(str), std::vector<std::string>) \
  Y(v(v(str)), std::vector<std::vector<std::string>>) \
  Y(v(v(i32)), std::vector<std::vector<int32_t>>) Y(v(v(u8)), std::vector<std::vector<uint8_t>>) \
  Y(v(v(f64)), std::vector<std::vector<double>>) Y(v(v(S12)), std::vector<std::vector<S12>>) \
  Y(v(v(v(u16))), std::vector<std::vector<std::vector<uint16_t>>>) \
  Y(v(v(v(str))), std::vector<std::vector<std::vector<std::string>>>)

template <typename F> static bool withPod(const std::string &n, F &f)
{
#define X(name, T) if (n == #name) { f.template run<T>(); return true; }
  POD_TYPES(X)
#undef X
  return false;
}
template <typename F> static bool withElem(const std::string &n, F &f)
{
#define X(name, T) if (n == #name) { f.template run<T>(); return true; }
  ELEM_TYPES(X)
#undef X
  return false;
}
template <typename F> static bool withType(const std::string &n, F &f)
{
  if (withPod(n, f)) return true;
#define Y(name, T) if (n == #name) { f.template run<T>(); return true; }
#define X(name, T) VEC_OF_POD(name, T)
  ELEM_TYPES(X)
#undef X
  OTHER_TYPES(Y)
#undef Y
  return false;
}

// a(<pod>,<wrapper>,<mode>) / a(<pod>)
struct ArrDesc { bool ok; std::string pod, wrap, mode; };
static ArrDesc arrDesc(const std::string &ty)
{
  ArrDesc d{false, "", "", ""};
  if (ty.size() < 4 || ty.compare(0, 2, "a(") != 0 || ty.back() != ')') return d;
  std::string in = ty.substr(2, ty.size() - 3), part;
  std::vector<std::string> ps;
  for (char ch : in) { if (ch == ',') { ps.push_back(part); part.clear(); } else part += ch; }
  ps.push_back(part);
  d.pod = ps[0];
  d.wrap = ps.size() > 1 ? ps[1] : "";
  d.mode = ps.size() > 2 ? ps[2] : "";
  d.ok = true;
  return d;
}

// ---- typed writes ----------------------------------------------------------------------------
struct WriteOp {
  std::vector<WriteStream *> ws;
  const std::string &val;
  template <typename T> void run()
  {
    T x{};
    Cur c{val, 0};
    Codec<T>::parseInto(c, x);
    if (c.p != val.size()) throw BadToken();
    for (auto *w : ws) *w << x;
    // "WriteSizeCalculator predicts that byte count" also when it is used under its own static type with the value
    // as the first operand (overload resolution then differs from the call through WriteStream&)
    WriteSizeCalculator direct;
    direct << x;
    WriteSizeCalculator viaBase;
    static_cast<WriteStream &>(viaBase) << x;
    if (direct.writtenSize != viaBase.writtenSize) directSizeMismatch = true;
  }
  static bool directSizeMismatch;
};
bool WriteOp::directSizeMismatch = false;

struct ArrWriteOp {
  std::vector<WriteStream *> ws;
  const std::string &val;
  ArrDesc d;
  template <typename A> void put(const A &a, size_t)
  {
    typedef typename std::remove_reference<decltype(a[0])>::type T;
    for (auto *w : ws) {
      if (d.mode == "abs") *w << static_cast<const AbstractArray<T> &>(a);
      else *w << a;  // the concrete wrapper type
    }
  }
  template <typename T> void run()
  {
    std::vector<T> e;
    Cur c{val, 0};
    Codec<std::vector<T>>::parseInto(c, e);
    if (c.p != val.size()) throw BadToken();
    if (d.wrap == "owned") { OwnedArray<T> a(e); put(a, e.size()); }
    else if (d.wrap == "fixed") { FixedArray<T> a(e); put(a, e.size()); }
    else if (d.wrap == "view") { ArrayView<T> a(e); put(a, e.size()); }
    else if (d.wrap == "fview") {
      // view of [1, 1+n) of a FixedArray with one leading element
      std::vector<T> backing(e.size() + 1);
      std::memset((void *)backing.data(), 0xee, sizeof(T));
      if (!e.empty()) std::memcpy((void *)(backing.data() + 1), (const void *)e.data(), e.size() * sizeof(T));
      auto fa = std::make_shared<FixedArray<T>>(backing);
      FixedArrayView<T> a(fa, 1, e.size());
      put(a, e.size());
    } else throw BadToken();
  }
};

static bool typedWrite(const std::string &ty, const std::string &val, std::vector<WriteStream *> ws)
{
  ArrDesc d = arrDesc(ty);
  if (d.ok) { ArrWriteOp op{ws, val, d}; return withElem(d.pod, op); }
  WriteOp op{ws, val};
  return withType(ty, op);
}

// ---- typed reads -----------------------------------------------------------------------------
// "read back ... yields equal values" must not depend on what the destination held before: the same
// read is also made from a copy of the reader into a destination that already holds other data
// (a reused std::string / std::vector in a decode loop); the two results must agree.
template <typename T> struct Dirty {
  static void make(T &x) { std::memset((void *)&x, 0xa5, sizeof(T)); }
};
template <> struct Dirty<std::string> {
  static void make(std::string &x) { x = "previous-content"; }
};
template <typename T> struct Dirty<std::vector<T>> {
  static void make(std::vector<T> &v)
  {
    v.resize(3);
    for (auto &e : v) Dirty<T>::make(e);
  }
};
struct ReadOp {
  BufferReader &r;
  std::string out;
  template <typename T> void run()
  {
    BufferReader r2(r);
    std::string dirtyOut;
    bool dirtyThrew = false;
    try {
      T y{};
      Dirty<T>::make(y);
      r2 >> y;
      dirtyOut = Codec<T>::show(y);
    } catch (const std::exception &) {
      dirtyThrew = true;
    }
    T x{};
    r >> x;
    out = Codec<T>::show(x);
    if (dirtyThrew || dirtyOut != out || r2.cursor != r.cursor)
      out += " reused-destination-differs:" + (dirtyThrew ? std::string("throw") : dirtyOut);
  }
};
struct ArrReadOp {  // arrays have no operator>>: count, then a zero-copy view of count*sizeof(T) bytes
  BufferReader &r;
  std::string out;
  template <typename T> void run()
  {
    size_t n = 0;
    r >> n;
    auto view = r.getView<uint8_t>(n * sizeof(T));
    if (view->size() > BIG) { out = "bad-view"; return; }
    out = "[";
    for (size_t i = 0; i < n; ++i) { if (i) out += ","; out += hex(view->data() + i * sizeof(T), sizeof(T)); }
    out += "]";
  }
};
// returns false for an unknown type; throws what the stream throws
static bool typedRead(const std::string &ty, BufferReader &r, std::string &out)
{
  ArrDesc d = arrDesc(ty);
  if (d.ok) { ArrReadOp op{r, ""}; bool k = withElem(d.pod, op); out = op.out; return k; }
  ReadOp op{r, ""};
  bool k = withType(ty, op);
  out = op.out;
  return k;
}

static void fillPat(uint8_t *p, size_t n, unsigned long long seed)
{
  for (size_t i = 0; i < n; ++i) p[i] = uint8_t((seed + i) % 256);
}
static std::string fwState()
{
  return "cur=" + std::to_string(fw->cursor) + " av=" + std::to_string(fw->available());
}
static std::string rdState()
{
  return std::string("end=") + vh::bit(rd->end()) + " cur=" + std::to_string(rd->cursor);
}
static std::string afterBw(size_t old)
{
  size_t n = bw->buffer->size();
  std::string app = n >= old ? hexOrDash(bw->buffer->data() + old, n - old) : "shrunk";
  return app + " n=" + std::to_string(n) + " sc=" + std::to_string(sc->writtenSize);
}
static std::shared_ptr<FixedArray<uint8_t>> exactCopy(size_t m)
{
  // exact-size heap block: ASan sees any access at index >= m
  return std::make_shared<FixedArray<uint8_t>>(bw->buffer->data(), m);
}

// Calls with a size that is not backed by real memory (> BIG, e.g. near 2^64) are made in a forked
// child: a correct implementation throws and changes nothing, so the parent's state stays valid; a
// sanitizer abort / signal in the child becomes the observation "crash" (report on stderr) instead
// of ending the whole harness run.
static bool inForkedChild = false;
// ASan's documented hook, called when an error is detected, before the report is produced. In the
// forked child the (slow, symbolized) report is of no use: the exit status is the observation.
extern "C" void __asan_on_error()
{
  if (inForkedChild) {
    static const char msg[] = "c15 harness: AddressSanitizer error inside a forked stream call\n";
    ssize_t k = ::write(2, msg, sizeof(msg) - 1);
    (void)k;
    _exit(99);
  }
}

static std::string inChild(const std::function<std::string()> &f)
{
  fflush(stdout);
  fflush(stderr);
  int fd[2];
  if (pipe(fd) != 0) return f();
  pid_t pid = fork();
  if (pid < 0) { close(fd[0]); close(fd[1]); return f(); }
  if (pid == 0) {
    close(fd[0]);
    inForkedChild = true;
    // a call made here is expected to throw at once; one that instead walks gigabytes (a container resized to a
    // garbage length) is ended after 4 s of CPU time and observed as "crash"
    { struct rlimit rl; rl.rlim_cur = 4; rl.rlim_max = 5; setrlimit(RLIMIT_CPU, &rl); }
    std::string s;
    try { s = f(); } catch (...) { s = "uncaught"; }
    ssize_t k = ::write(fd[1], s.data(), s.size());
    (void)k;
    _exit(0);
  }
  close(fd[1]);
  std::string out;
  char buf[4096];
  ssize_t n;
  while ((n = ::read(fd[0], buf, sizeof buf)) > 0) out.append(buf, size_t(n));
  close(fd[0]);
  int st = 0;
  waitpid(pid, &st, 0);
  if (WIFEXITED(st) && WEXITSTATUS(st) == 0) return out;
  return "crash";
}

// A typed read whose leading length prefix exceeds the bytes that are left must throw (every
// element takes at least one byte). It is made in a forked child as well: on a broken tree such a
// length is usually garbage (2^40 elements ...) and the allocation alone would abort the harness.
static bool riskyLength(const std::string &ty)
{
  if (!rd || !(ty == "str" || ty.compare(0, 2, "v(") == 0 || ty.compare(0, 2, "a(") == 0)) return false;
  size_t n = rd->buffer->size(), c = rd->cursor;
  if (c > n || n - c < 8) return false;
  size_t len;
  std::memcpy(&len, rd->buffer->begin() + c, 8);
  return len > n - c - 8;
}

static std::string step(const std::vector<std::string> &w);
static std::string stepMaybeChild(const std::vector<std::string> &w)
{
  const std::string &op = w[0];
  if ((op == "fw_write" || op == "fw_reserve" || op == "rd_read" || op == "rd_view") && w.size() > 1
      && vh::to_ull(w[1]) > BIG)
    return inChild([&]() { return step(w); });
  if (op == "trunc_all")  // changes no state
    return inChild([&]() { return step(w); });
  if (op == "r" && w.size() == 2 && riskyLength(w[1])) {
    std::string out = inChild([&]() { return step(w); });
    rd.reset();  // "throw" is the only correct outcome, after which the reader is not used any more
    return out;
  }
  return step(w);
}

static std::string rle(const std::vector<std::string> &xs)
{
  std::string out;
  size_t i = 0;
  while (i < xs.size()) {
    size_t j = i;
    while (j < xs.size() && xs[j] == xs[i]) ++j;
    if (!out.empty()) out += ",";
    out += xs[i] + "x" + std::to_string(j - i);
    i = j;
  }
  return out;
}

static std::string step(const std::vector<std::string> &w)
{
  const std::string &op = w[0];
  if (op == "w" && w.size() == 3) {
    size_t old = bw->buffer->size();
    WriteOp::directSizeMismatch = false;
    if (!typedWrite(w[1], w[2], {bw.get(), sc.get()})) return "bad-type";
    return afterBw(old) + (WriteOp::directSizeMismatch ? " sizecalc-by-static-type-differs" : "");
  }
  if (op == "wc") {
    std::string s;
    if (w.size() > 1) { std::string tok = "s" + w[1]; Cur c{tok, 0}; Codec<std::string>::parseInto(c, s); }
    size_t old = bw->buffer->size();
    const char *p = s.c_str();
    *bw << p;
    *sc << p;
    return afterBw(old);
  }
  if (op == "wvc") {
    // a std::vector<const char *>: every element goes through operator<<(const char *) (length + characters), like a
    // vector of strings - not as the raw pointer values
    std::vector<std::string> strs;
    for (size_t i = 1; i < w.size(); ++i) {
      std::string t;
      if (w[i] != "-") { std::string tok = "s" + w[i]; Cur c{tok, 0}; Codec<std::string>::parseInto(c, t); }
      strs.push_back(t);
    }
    std::vector<const char *> v;
    for (auto &t : strs) v.push_back(t.c_str());
    size_t old = bw->buffer->size();
    *bw << v;
    *sc << v;
    return afterBw(old);
  }
  if (op == "dump") return afterBw(0);
  if (op == "bw_rewind") {
    // the writer is rewound between messages: its array is resized to 0 and written again
    bw->buffer->resize(0, 0);
    return afterBw(0);
  }
  if (op == "bw_take") {
    // hand the written bytes over without a copy and reuse the writer: move construction / move assignment of the
    // writer's OwnedArray; the receiver must hold exactly the written bytes and the writer's array must be empty
    size_t n = bw->buffer->size();
    std::string out;
    if (w.size() > 1 && w[1] == "assign") {
      OwnedArray<uint8_t> msg;
      msg.resize(3, 0xee);
      msg = std::move(*bw->buffer);
      out = msg.size() == n ? hexOrDash(msg.data(), msg.size()) : "receiver-size=" + std::to_string(msg.size());
    } else {
      OwnedArray<uint8_t> msg(std::move(*bw->buffer));
      out = msg.size() == n ? hexOrDash(msg.data(), msg.size()) : "receiver-size=" + std::to_string(msg.size());
    }
    return out + " n=" + std::to_string(bw->buffer->size());
  }
  if (op == "fw_new") {
    fw.reset(new FixedBufferWriter(vh::to_ull(w[1])));
    return "cap=" + std::to_string(fw->capacity()) + " av=" + std::to_string(fw->available());
  }
  if (op == "fw_w") {
    if (!fw) return "dead";
    try {
      if (!typedWrite(w[1], w[2], {fw.get()})) return "bad-type";
    } catch (const std::runtime_error &) {
      fw.reset();  // how much of the value was written before the exception is not determined
      return "throw";
    }
    return "ok " + fwState();
  }
  if (op == "fw_write") {
    if (!fw) return "dead";
    size_t size = vh::to_ull(w[1]);
    // exact-size heap source for real sizes (an over-read of the source is visible too)
    std::vector<uint8_t> src(size <= BIG ? size : 16);
    fillPat(src.data(), src.size(), vh::to_ull(w[2]));
    try {
      fw->write(src.data(), size);
    } catch (const std::runtime_error &) {
      return "throw " + fwState();
    }
    return "ok " + fwState();
  }
  if (op == "fw_reserve") {
    if (!fw) return "dead";
    size_t size = vh::to_ull(w[1]);
    void *p = nullptr;
    try {
      p = fw->reserve(size);
    } catch (const std::runtime_error &) {
      return "throw " + fwState();
    }
    size_t off = size_t((uint8_t *)p - fw->buffer->begin());
    if (size <= BIG) fillPat((uint8_t *)p, size, vh::to_ull(w[2]));  // the caller fills its reservation
    return "ok off=" + std::to_string(off) + " " + fwState();
  }
  if (op == "fw_view") {
    if (!fw) return "dead";
    auto v = fw->getWrittenView();
    if (v->size() > fw->capacity()) return "bad-view";
    return hexOrDash(v->begin(), v->size()) + " len=" + std::to_string(v->size()) + " cap="
        + std::to_string(fw->capacity()) + " av=" + std::to_string(fw->available());
  }
  if (op == "rd_open") {
    if (w[1] == "bw") rd.reset(new BufferReader(bw->buffer));
    else if (w[1] == "copy") rd.reset(new BufferReader(std::make_shared<OwnedArray<uint8_t>>(*bw->buffer)));   // a copy of the array
    else if (w[1] == "moved") {
      // the array is moved into a new one (the writer's array is empty afterwards)
      auto a = std::make_shared<OwnedArray<uint8_t>>(std::move(*bw->buffer));
      rd.reset(new BufferReader(a));
    }
    else if (w[1] == "fw") {
      if (!fw) return "dead";
      rd.reset(new BufferReader(fw->getWrittenView()));
    } else if (w[1] == "trunc") {
      size_t m = std::min<size_t>(vh::to_ull(w[2]), bw->buffer->size());
      rd.reset(new BufferReader(exactCopy(m)));
    } else return "bad-op";
    return "size=" + std::to_string(rd->buffer->size()) + " " + rdState();
  }
  if (op == "r") {
    if (!rd) return "dead";
    std::string out;
    try {
      if (!typedRead(w[1], *rd, out)) return "bad-type";
    } catch (const std::runtime_error &) {
      rd.reset();  // how far the cursor got before the exception is not determined
      return "throw";
    }
    return out + " " + rdState();
  }
  if (op == "rd_read") {
    if (!rd) return "dead";
    size_t size = vh::to_ull(w[1]);
    std::vector<uint8_t> dst(size <= BIG ? size : 16);  // exact-size heap destination
    try {
      rd->read(dst.data(), size);
    } catch (const std::runtime_error &) {
      return "throw " + rdState();
    }
    return hexOrDash(dst.data(), size <= BIG ? size : 0) + " " + rdState();
  }
  if (op == "rd_view") {
    if (!rd) return "dead";
    std::shared_ptr<ArrayView<uint8_t>> v;
    try {
      v = rd->getView<uint8_t>(vh::to_ull(w[1]));
    } catch (const std::runtime_error &) {
      return "throw " + rdState();
    }
    if (v->size() > BIG) return "bad-view " + rdState();
    return hexOrDash(v->data(), v->size()) + " " + rdState();
  }
  if (op == "rd_end") {
    if (!rd) return "dead";
    return rdState();
  }
  if (op == "trunc_all") {
    // every proper prefix of the written bytes, in an exact-size heap block
    std::vector<std::string> tys(w.begin() + 1, w.end());
    std::vector<std::string> fullVals;
    std::string full;
    {
      BufferReader r(bw->buffer);
      try {
        for (auto &t : tys) { std::string o; if (!typedRead(t, r, o)) return "bad-type"; fullVals.push_back(o); }
        full = std::string("full=ok,") + vh::bit(r.end());
      } catch (const std::runtime_error &) { full = "full=throw"; }
    }
    std::vector<std::string> idx;
    std::string vals = "vals=ok";
    size_t n = bw->buffer->size();
    for (size_t m = 0; m < n; ++m) {
      BufferReader r(exactCopy(m));
      std::string res = "none";
      for (size_t i = 0; i < tys.size(); ++i) {
        std::string o;
        try {
          typedRead(tys[i], r, o);
        } catch (const std::runtime_error &) { res = std::to_string(i); break; }
        if (i >= fullVals.size() || o != fullVals[i]) vals = "vals=bad@" + std::to_string(m);
      }
      idx.push_back(res);
    }
    std::string out = rle(idx);
    if (!out.empty()) out += ",";
    return out + full + "," + vals;
  }
  return "bad-op";
}

int main()
{
  auto reset = [&]() {
    bw.reset(new BufferWriter);
    sc.reset(new WriteSizeCalculator);
    fw.reset();
    rd.reset();
  };
  reset();
  return vh::run(reset, [&](const std::vector<std::string> &w) -> std::string {
    try {
      return stepMaybeChild(w);
    } catch (const BadToken &) { return "bad-value"; }
  });
}
