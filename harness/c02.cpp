// C02 correspondence harness: schedule() / async() / AsyncTask of the backend selected at compile
// time (-DRKCOMMON_TASKING_TBB | _OMP | _INTERNAL | none = Debug), driven by the same op lines as the
// Lean model (lean/Driver/C02.lean).
//
// Ops (one output line each; nothing timing dependent is ever printed):
//   init n                    initTaskingSystem(n)                                       -> ok
//   sched n kind nest         schedule() n closures; kind = plain | heap | slow (heap: the closure owns a
//                             std::shared_ptr<std::vector<int>> and a std::string and checks them when it runs;
//                             slow: it also sleeps); nest = 1: every closure schedule()s a second closure from
//                             inside the task. Every closure has its own execution counter.       -> ok
//   wait_all                  the caller only sleeps (never calls into the tasking system) until every closure
//                             scheduled since the last wait_all has run, or a time limit expires
//                             -> "once=<0|1> dup=<0|1>"  once: every counter == 1; dup: some counter > 1
//   async kind value          future = async(f); future.get() (time limit)  -> "eq=<0|1>" | "timeout"
//   atask kind value us seq d AsyncTask<T>(fcn) constructed in place in storage pre-filled with 0xCD;
//                             fcn sleeps `us` microseconds and returns make<T>(value); kind = int | string |
//                             vector | tracked | slowtracked (lifetime-instrumented type; slowtracked: its default
//                             constructor sleeps, which opens the window between the construction of the
//                             members without any hook); seq = controller calls f(inished) g(et) w(ait)
//                             d(estroy) with pseudo-random pauses derived from d.
//                             -> one token per call: f | f0 (finished()==true before fcn had completed),
//                                g1 | g0 (get() == the value), w1 | w0 (after wait(): fcn completed and finished()),
//                                d1 | d0 (after the destructor: fcn completed, and the released storage – refilled
//                                with 0xDD – is not written afterwards), then n1 | n0 (fcn ran exactly once) and
//                                clean | dirty (lifetime log of the tracked type: assignment to / copy from /
//                                destruction of storage that is not a live object).
//   leave n                   (last line of a case) the workers are parked in closures that spin until a flag is set,
//                             n more heap-owning closures and one async() are issued (the first to run sets the
//                             flag) and the process exits normally while they are still queued or running: static
//                             destructors of the tasking system run with work pending. Printed by the parent after
//                             the child has gone: -> "exit=<status> ran-twice=<number of closures that ran twice>
//                             ran=<all | missing-k | ->" (ran: Internal backend only - every closure, and every
//                             follow-up scheduled by a task that was still running at exit, has run)
// Every case runs in a fresh child process (the tasking system is process-wide and cannot be shut down);
// a case that does not finish within CASE_TIMEOUT_S is killed and reported like a crash (exit code 124).
// A sanitizer report aborts the child; the runner attributes it to the case.
#include "common.h"
#include <atomic>
#include <chrono>
#include <cstring>
#include <future>
#include <memory>
#include <mutex>
#include <new>
#include <thread>
#include <signal.h>
#include <sys/mman.h>
#include <sys/prctl.h>
#include <sys/types.h>
#include <sys/wait.h>
#include <unistd.h>
#include "rkcommon/tasking/AsyncTask.h"
#include "rkcommon/tasking/async.h"
#include "rkcommon/tasking/schedule.h"
#include "rkcommon/tasking/tasking_system_init.h"

using namespace rkcommon;

namespace {

void sleep_us(long us)
{
  if (us > 0)
    std::this_thread::sleep_for(std::chrono::microseconds(us));
}

// ---------------------------------------------------------------------------------------------
// lifetime-instrumented payload

std::mutex g_logMutex;
std::vector<std::string> g_anomalies;
std::atomic<long> g_ctorDelayUs{0};

void anomaly(const char *what)
{
  std::lock_guard<std::mutex> lock(g_logMutex);
  g_anomalies.push_back(what);
  fprintf(stderr, "c02: lifetime anomaly: %s\n", what);
}

struct Tracked
{
  static const uint32_t ALIVE = 0xA11CE5EDu;
  static const uint32_t DEAD = 0xDEADBEEFu;

  Tracked()
  {
    sleep_us(g_ctorDelayUs.load());
    magic = ALIVE;
    value = -1;
    heap = new std::vector<long>(3, -1);
  }
  explicit Tracked(long v)
  {
    magic = ALIVE;
    value = v;
    heap = new std::vector<long>(3, v);
  }
  Tracked(const Tracked &o)
  {
    if (o.magic != ALIVE) {
      anomaly("copy-from-not-alive");
      magic = ALIVE;
      value = -2;
      heap = new std::vector<long>(3, -2);
      return;
    }
    magic = ALIVE;
    value = o.value;
    heap = new std::vector<long>(*o.heap);
  }
  Tracked &operator=(const Tracked &o)
  {
    if (magic != ALIVE) {
      // assignment into storage that holds no object: do not touch `heap` (garbage), make it an object
      anomaly("assign-to-not-alive");
      magic = ALIVE;
      heap = new std::vector<long>();
    }
    if (o.magic != ALIVE) {
      anomaly("assign-from-not-alive");
      return *this;
    }
    value = o.value;
    *heap = *o.heap;
    return *this;
  }
  ~Tracked()
  {
    if (magic != ALIVE) {
      anomaly("destroy-not-alive");
      return;
    }
    delete heap;
    magic = DEAD;
  }
  bool is(long v) const
  {
    return magic == ALIVE && value == v && heap->size() == 3 && (*heap)[0] == v && (*heap)[2] == v;
  }

  uint32_t magic;
  long value;
  std::vector<long> *heap;
};

template <typename T>
struct Kind;
template <>
struct Kind<int>
{
  static int make(long v) { return (int)v; }
  static bool is(const int &x, long v) { return x == (int)v; }
};
template <>
struct Kind<std::string>
{
  static std::string make(long v) { return std::string((size_t)(v % 90) + 24, (char)('a' + v % 26)) + std::to_string(v); }
  static bool is(const std::string &x, long v) { return x == make(v); }
};
template <>
struct Kind<std::vector<int>>
{
  static std::vector<int> make(long v) { return std::vector<int>((size_t)(v % 40) + 1, (int)v); }
  static bool is(const std::vector<int> &x, long v) { return x == make(v); }
};
template <>
struct Kind<Tracked>
{
  static Tracked make(long v) { return Tracked(v); }
  static bool is(const Tracked &x, long v) { return x.is(v); }
};

// ---------------------------------------------------------------------------------------------
// schedule(): batches of closures with one execution counter each

struct Batch
{
  size_t n;
  std::unique_ptr<std::atomic<int>[]> counts;
};
std::vector<Batch> g_batches;

struct HeapState
{
  std::shared_ptr<std::vector<int>> v;
  std::string s;
  bool ok() const { return v && v->size() == 5 && (*v)[0] + (*v)[4] == 7 && s.size() == 40 && s[39] == 'z'; }
};

HeapState makeHeapState()
{
  HeapState h;
  h.v = std::make_shared<std::vector<int>>(5, 0);
  (*h.v)[0] = 3;
  (*h.v)[4] = 4;
  h.s = std::string(40, 'z');
  return h;
}

std::atomic<int> g_stateBad{0};

void scheduleOne(std::atomic<int> *counter, std::atomic<int> *nested, int kind)
{
  // kind 0 plain, 1 heap, 2 slow (heap + sleep)
  if (kind == 0) {
    if (!nested)
      tasking::schedule([=]() { counter->fetch_add(1); });
    else
      tasking::schedule([=]() {
        counter->fetch_add(1);
        tasking::schedule([=]() { nested->fetch_add(1); });
      });
    return;
  }
  HeapState h = makeHeapState();
  long us = kind == 2 ? 150 : 0;
  if (!nested)
    tasking::schedule([=]() {
      if (!h.ok())
        g_stateBad++;
      sleep_us(us);
      counter->fetch_add(1);
    });
  else
    tasking::schedule([=]() {
      if (!h.ok())
        g_stateBad++;
      sleep_us(us);
      counter->fetch_add(1);
      HeapState h2 = h;
      tasking::schedule([=]() {
        if (!h2.ok())
          g_stateBad++;
        nested->fetch_add(1);
      });
    });
}

std::string waitAll()
{
  size_t total = 0;
  for (auto &b : g_batches)
    total += b.n;
  // the caller does nothing but sleep: "eventually, with no further action required from the caller"
  long limit_ms = 5000 + (long)(total / 20);
  auto t0 = std::chrono::steady_clock::now();
  bool all = false;
  for (;;) {
    all = true;
    for (auto &b : g_batches)
      for (size_t i = 0; i < b.n && all; ++i)
        all = b.counts[i].load() >= 1;
    if (all)
      break;
    long ms = (long)std::chrono::duration_cast<std::chrono::milliseconds>(std::chrono::steady_clock::now() - t0).count();
    if (ms >= limit_ms)
      break;
    sleep_us(ms < 50 ? 200 : 2000);
  }
  sleep_us(3000);  // a second execution of some closure would show up now (or at exit, under ASan)
  bool once = true, dup = false;
  for (auto &b : g_batches)
    for (size_t i = 0; i < b.n; ++i) {
      int c = b.counts[i].load();
      once = once && c == 1;
      dup = dup || c > 1;
    }
  if (g_stateBad.load() != 0)
    once = false;
  if (!all)
    fprintf(stderr, "c02: wait_all: not every closure had run after %ld ms\n", limit_ms);
  // the counters stay allocated (a late second execution must not hit freed memory of the harness)
  for (auto &b : g_batches)
    b.counts.release();
  g_batches.clear();
  return std::string("once=") + vh::bit(once) + " dup=" + vh::bit(dup);
}

// ---------------------------------------------------------------------------------------------
// async()

template <typename T>
std::string runAsync(long v)
{
  auto fut = tasking::async([=]() { return Kind<T>::make(v); });
  if (fut.wait_for(std::chrono::seconds(20)) != std::future_status::ready)
    return "timeout";
  T r = fut.get();
  return std::string("eq=") + vh::bit(Kind<T>::is(r, v));
}

// ---------------------------------------------------------------------------------------------
// AsyncTask

struct Lcg
{
  uint64_t s;
  unsigned next()
  {
    s = s * 6364136223846793005ull + 1442695040888963407ull;
    return (unsigned)(s >> 33);
  }
};

template <typename T>
std::string runATask(long v, long us, const std::string &seq, long dseed)
{
  using AT = tasking::AsyncTask<T>;
  std::shared_ptr<std::atomic<int>> runs = std::make_shared<std::atomic<int>>(0);
  std::shared_ptr<std::atomic<bool>> fcnDone = std::make_shared<std::atomic<bool>>(false);
  Lcg rnd{(uint64_t)dseed * 2654435761u + 12345u};
  auto pause = [&]() {
    static const long mult[8] = {0, 0, 0, 1, 2, 4, 8, 16};  // eighths of the task duration
    long p = us * mult[rnd.next() % 8] / 8;
    if (rnd.next() % 4 == 0)
      p += rnd.next() % 60;
    sleep_us(p);
  };

  std::function<T()> fcn = [=]() {
    sleep_us(us);
    runs->fetch_add(1);
    T r = Kind<T>::make(v);
    fcnDone->store(true);
    return r;
  };

  const size_t SZ = sizeof(AT);
  unsigned char *mem = static_cast<unsigned char *>(::operator new(SZ));
  std::memset(mem, 0xCD, SZ);
  AT *p = new (mem) AT(fcn);
  bool alive = true;
  std::string out;
  auto tok = [&](const std::string &t) { out += (out.empty() ? "" : " ") + t; };
  auto destroy = [&]() -> bool {
    p->~AT();
    alive = false;
    bool done = fcnDone->load();
    std::memset(mem, 0xDD, SZ);
    // anything that still writes to the released object shows up in the pattern
    sleep_us(us < 200 ? 400 : 2 * us);
    bool intact = true;
    for (size_t i = 0; i < SZ; ++i)
      intact = intact && mem[i] == 0xDD;
    if (!intact)
      fprintf(stderr, "c02: the released AsyncTask storage was written after the destructor returned\n");
    return done && intact;
  };

  for (char c : seq) {
    if (!alive)
      break;
    pause();
    if (c == 'f') {
      bool fin = p->finished();
      tok(fin && !fcnDone->load() ? "f0" : "f");
    } else if (c == 'g') {
      T r = p->get();
      tok(Kind<T>::is(r, v) ? "g1" : "g0");
    } else if (c == 'w') {
      p->wait();
      tok(fcnDone->load() && p->finished() ? "w1" : "w0");
    } else if (c == 'd') {
      tok(destroy() ? "d1" : "d0");
    } else {
      tok("?");
    }
  }
  if (alive)
    destroy();
  ::operator delete(mem);
  tok(runs->load() == 1 ? "n1" : "n0");
  bool clean;
  {
    std::lock_guard<std::mutex> lock(g_logMutex);
    clean = g_anomalies.empty();
    g_anomalies.clear();
  }
  tok(clean ? "clean" : "dirty");
  return out;
}

static long g_lastInit = 0;   // thread count of the last `init` line of the case (0 = none yet)

// dep n: n times, one after the other: a scheduled task schedules a child and then waits (spinning, at most 3 s) until
// the child has run. With at least two worker threads besides the caller an idle worker must pick the child up while the
// parent is still busy ("eventually, with no further action required": a queued task and an idle worker => it runs).
static std::string doDep(long n)
{
  struct Flags { std::atomic<int> childRan{0}, parentDone{0}, timedOut{0}; };
  long late = 0;
  for (long i = 0; i < n; ++i) {
    std::shared_ptr<Flags> f(new Flags);
    tasking::schedule([f] {
      tasking::schedule([f] { f->childRan = 1; });
      auto t0 = std::chrono::steady_clock::now();
      while (!f->childRan.load()) {
        if (std::chrono::steady_clock::now() - t0 > std::chrono::seconds(3)) { f->timedOut = 1; break; }
        std::this_thread::yield();
      }
      f->parentDone = 1;
    });
    auto t0 = std::chrono::steady_clock::now();
    while (!f->parentDone.load() && std::chrono::steady_clock::now() - t0 < std::chrono::seconds(20))
      std::this_thread::yield();
    if (!f->parentDone.load() || f->timedOut.load())
      ++late;
  }
  return "done=" + std::to_string(n) + " child-not-picked-up=" + std::to_string(late);
}

// shared with the parent process (MAP_SHARED): execution counters of the closures left behind by `leave`
struct LeaveShared {
  std::atomic<int> go;
  std::atomic<int> n;
  std::atomic<int> parked;       // blockers that really parked on a worker thread
  std::atomic<int> followed;     // follow-up closures (scheduled by a released blocker, i.e. from a task that is still
                                 // running while the process exits) that ran
  std::atomic<int> counts[4096];
};
LeaveShared *g_leave = nullptr;

std::string doLeave(long n)
{
  if (!g_leave || n < 1 || n > 4000)
    return "bad-op";
  LeaveShared *L = g_leave;
  L->n = (int)n + 1;
  const std::thread::id caller = std::this_thread::get_id();
  long threads = g_lastInit > 0 ? g_lastInit : (long)std::thread::hardware_concurrency();
  long blockers = std::max(1L, std::min(threads - 1, 32L));
  for (long b = 0; b < blockers; ++b)
    tasking::schedule([=]() {
      if (std::this_thread::get_id() == caller)
        return;   // a backend (or a one-thread scheduler) that runs closures inline: nothing to park
      L->parked++;
      auto t0 = std::chrono::steady_clock::now();
      while (!L->go.load() && std::chrono::steady_clock::now() - t0 < std::chrono::milliseconds(400))
        std::this_thread::yield();
      tasking::schedule([=]() { L->followed++; });   // work handed over by a task that is still running at exit
    });
  for (long i = 0; i < n; ++i) {
    HeapState h = makeHeapState();
    tasking::schedule([=]() {
      L->go = 1;
      if (h.ok())
        L->counts[i].fetch_add(1);
    });
  }
  auto fut = tasking::async([=]() { L->go = 1; L->counts[n].fetch_add(1); return 7; });
  (void)fut;   // the future is dropped without get(): std::future of a packaged task does not block in its destructor
  return "";
}

std::string step(const std::vector<std::string> &w)
{
  const std::string &op = w[0];
  if (op == "leave" && w.size() == 2)
    return doLeave(vh::to_ll(w[1]));
  if (op == "init" && w.size() == 2) {
    tasking::initTaskingSystem((int)vh::to_ll(w[1]));
    g_lastInit = vh::to_ll(w[1]);
    return "ok";
  }
  if (op == "dep" && w.size() == 2) {
    if (g_lastInit < 3)
      return "skip";   // needs two workers besides the caller
    return doDep(vh::to_ll(w[1]));
  }
  if (op == "sched" && w.size() == 4) {
    size_t n = (size_t)vh::to_ll(w[1]);
    int kind = w[2] == "plain" ? 0 : w[2] == "heap" ? 1 : w[2] == "slow" ? 2 : -1;
    bool nest = w[3] != "0";
    if (kind < 0)
      return "bad-op";
    Batch b;
    b.n = n * (nest ? 2 : 1);
    b.counts.reset(new std::atomic<int>[b.n]);
    for (size_t i = 0; i < b.n; ++i)
      b.counts[i] = 0;
    std::atomic<int> *c = b.counts.get();
    g_batches.push_back(std::move(b));
    for (size_t i = 0; i < n; ++i)
      scheduleOne(c + i, nest ? c + n + i : nullptr, kind);
    return "ok";
  }
  if (op == "sched_dtor" && w.size() == 2) {
    // closures that are the last owner of state whose DESTRUCTOR schedules a follow-up closure (run k of ...): the
    // tasking system may destroy a finished closure wherever it likes, but not while holding a lock schedule() needs
    size_t n = (size_t)vh::to_ll(w[1]);
    Batch b;
    b.n = 2 * n;
    b.counts.reset(new std::atomic<int>[b.n]);
    for (size_t i = 0; i < b.n; ++i)
      b.counts[i] = 0;
    std::atomic<int> *c = b.counts.get();
    g_batches.push_back(std::move(b));
    struct DtorSched {
      std::atomic<int> *follow;
      explicit DtorSched(std::atomic<int> *f) : follow(f) {}
      ~DtorSched() { std::atomic<int> *f = follow; tasking::schedule([f]() { f->fetch_add(1); }); }
    };
    for (size_t i = 0; i < n; ++i) {
      auto st = std::make_shared<DtorSched>(c + n + i);
      std::atomic<int> *ci = c + i;
      tasking::schedule([st, ci]() { ci->fetch_add(1); });
      st.reset();   // the closure inside the tasking system is the last owner now
    }
    return "ok";
  }
  if (op == "sched_lv" && w.size() == 2) {
    // a NAMED closure (an lvalue owning heap state) handed to schedule() twice: schedule() takes its argument by value,
    // so the caller's closure is intact for the second call; run k of closure i counts in slot 2*i + k
    size_t n = (size_t)vh::to_ll(w[1]);
    Batch b;
    b.n = 2 * n;
    b.counts.reset(new std::atomic<int>[b.n]);
    for (size_t i = 0; i < b.n; ++i)
      b.counts[i] = 0;
    std::atomic<int> *c = b.counts.get();
    g_batches.push_back(std::move(b));
    std::atomic<int> *seq = new std::atomic<int>[n];   // never freed: a late run must not hit freed harness memory
    for (size_t i = 0; i < n; ++i)
      seq[i] = 0;
    for (size_t i = 0; i < n; ++i) {
      HeapState h = makeHeapState();
      auto f = [=]() {
        if (!h.ok())
          g_stateBad++;
        int k = seq[i].fetch_add(1);
        if (k < 2)
          c[2 * i + k].fetch_add(1);
        else
          c[2 * i].fetch_add(1);   // a third run shows up as a duplicate
      };
      tasking::schedule(f);
      tasking::schedule(f);
      if (!h.ok())
        g_stateBad++;
    }
    return "ok";
  }
  if (op == "wait_all")
    return waitAll();
  if (op == "async" && w.size() == 3) {
    long v = (long)vh::to_ll(w[2]);
    if (w[1] == "int")
      return runAsync<int>(v);
    if (w[1] == "string")
      return runAsync<std::string>(v);
    if (w[1] == "vector")
      return runAsync<std::vector<int>>(v);
    if (w[1] == "tracked") {
      std::string r = runAsync<Tracked>(v);
      std::lock_guard<std::mutex> lock(g_logMutex);
      if (!g_anomalies.empty()) {
        g_anomalies.clear();
        return "eq=0";
      }
      return r;
    }
    return "bad-op";
  }
  if (op == "atask" && w.size() == 6) {
    long v = (long)vh::to_ll(w[2]), us = (long)vh::to_ll(w[3]), dseed = (long)vh::to_ll(w[5]);
    const std::string &seq = w[4];
    g_ctorDelayUs = 0;
    if (w[1] == "int")
      return runATask<int>(v, us, seq, dseed);
    if (w[1] == "string")
      return runATask<std::string>(v, us, seq, dseed);
    if (w[1] == "vector")
      return runATask<std::vector<int>>(v, us, seq, dseed);
    if (w[1] == "tracked")
      return runATask<Tracked>(v, us, seq, dseed);
    if (w[1] == "slowtracked") {
      g_ctorDelayUs = 1500;
      std::string r = runATask<Tracked>(v, us, seq, dseed);
      g_ctorDelayUs = 0;
      return r;
    }
    return "bad-op";
  }
  return "bad-op";
}

const int CASE_TIMEOUT_S = 60;

int runCase(const std::vector<std::string> &lines)
{
  fflush(stdout);
  fflush(stderr);
  const bool leaves = !lines.empty() && lines.back().compare(0, 6, "leave ") == 0;
  if (!g_leave) {
    void *m = mmap(nullptr, sizeof(LeaveShared), PROT_READ | PROT_WRITE, MAP_SHARED | MAP_ANONYMOUS, -1, 0);
    if (m == MAP_FAILED)
      return 3;
    g_leave = new (m) LeaveShared;
  }
  g_leave->go = 0;
  g_leave->n = 0;
  g_leave->parked = 0;
  g_leave->followed = 0;
  for (auto &c : g_leave->counts)
    c = 0;
  pid_t pid = fork();
  if (pid < 0)
    return 3;
  if (pid == 0) {
    prctl(PR_SET_PDEATHSIG, SIGKILL);  // never outlive the harness
    for (auto &l : lines) {
      std::string out;
      try {
        out = step(vh::words(l));
      } catch (const std::exception &e) {
        out = std::string("uncaught:") + typeid(e).name();
      }
      if (leaves && &l == &lines.back() && out.empty())
        break;   // the parent prints this op's line once the process has exited
      vh::emit(out);
    }
    fflush(stdout);
    // normal exit: static destructors run (the internal scheduler shuts down and executes whatever is
    // still queued; the owner list of detached tasks is released), so a defect there is observed too
    exit(0);
  }
  int st = 0;
  auto t0 = std::chrono::steady_clock::now();
  for (;;) {
    pid_t r = waitpid(pid, &st, WNOHANG);
    if (r == pid)
      break;
    if (r < 0)
      return 3;
    long waited_ms = (long)std::chrono::duration_cast<std::chrono::milliseconds>(std::chrono::steady_clock::now() - t0).count();
    if (waited_ms >= CASE_TIMEOUT_S * 1000L) {
      fprintf(stderr, "c02: case did not finish within %d s, killed\n", CASE_TIMEOUT_S);
      kill(pid, SIGKILL);
      waitpid(pid, &st, 0);
      return 124;
    }
    usleep(waited_ms < 200 ? 500 : 5000);
  }
  int rc = WIFEXITED(st) ? WEXITSTATUS(st) : 128 + (WIFSIGNALED(st) ? WTERMSIG(st) : 0);
  if (leaves && g_leave->n.load() > 0) {
    // the process that left work behind has gone (threads that were still running closures went with it)
    int twice = 0;
    for (int i = 0; i < g_leave->n.load(); ++i)
      if (g_leave->counts[i].load() > 1)
        ++twice;
    if (rc != 0)
      fprintf(stderr, "c02: the process that exited with scheduled work pending ended with status %d\n", rc);
    // whether work that is still pending at exit gets run is the backend's business - except for the Internal backend,
    // whose scheduler shuts down by running everything that is queued or still being produced by running tasks
    std::string ran = "-";
#ifdef RKCOMMON_TASKING_INTERNAL
    int missing = 0;
    for (int i = 0; i < g_leave->n.load(); ++i)
      if (g_leave->counts[i].load() < 1)
        ++missing;
    missing += std::max(0, g_leave->parked.load() - g_leave->followed.load());
    ran = missing == 0 ? "all" : "missing-" + std::to_string(missing);
#endif
    vh::emit("exit=" + std::to_string(rc) + " ran-twice=" + std::to_string(twice) + " ran=" + ran);
    fflush(stdout);
    return 0;
  }
  return rc;
}

}  // namespace

int main()
{
  // read everything first: a child must never share unread input with the parent
  std::vector<std::string> input;
  std::string line;
  while (std::getline(std::cin, line))
    input.push_back(line);
  std::vector<std::string> cur;
  bool open = false;
  for (auto &l : input) {
    auto w = vh::words(l);
    if (w.empty())
      continue;
    if (w.size() >= 2 && w[0] == "#" && w[1] == "case") {
      if (open) {
        int rc = runCase(cur);
        if (rc != 0)
          return rc;
      }
      cur.clear();
      open = true;
      vh::emit(l);
      continue;
    }
    cur.push_back(l);
  }
  if (open || !cur.empty()) {
    int rc = runCase(cur);
    if (rc != 0)
      return rc;
  }
  return 0;
}
