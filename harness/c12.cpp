// C12 correspondence harness: rkcommon::containers::TransactionalBuffer<T> and
// rkcommon::utility::TransactionalValue<T>, driven by the same op lines as the Lean model
// (lean/Driver/C12.lean).  Built twice: ASan/UBSan and TSan.
//
// Payload kinds (first argument of tb_new / tv_new / mt_*):
//   i  int                       (trivially copyable)
//   s  std::string, > 15 chars   (heap-owning)
//   v  std::vector<int>          (heap-owning)
//   w  Slow: heap-owning, copy/move assignment yields the CPU in the middle (widens the critical
//      sections in which the containers assign payloads, so that the other thread blocks on the mutex)
// An element is a pair (producer, sequence number) encoded redundantly in the payload; it is printed
// as "p.x" after the redundancy has been checked ("corrupt" otherwise).  Values of a
// TransactionalValue are elements with p = 0, printed as "x".
//
// Single-threaded lines print the observation of that call.  mt_buf / mt_val lines run threads on
// the real code and print a canonical summary computed by the oracle below: schedule-dependent
// quantities (batch boundaries, number of successful updates) are not printed.
#define VH_ALLOC_FAULTS
#include "common.h"
#include <atomic>
#include <chrono>
#include <memory>
#include <thread>
#include <signal.h>
#include <unistd.h>
#include "rkcommon/containers/TransactionalBuffer.h"
#include "rkcommon/utility/TransactionalValue.h"

using namespace rkcommon;

struct Slow
{
  std::vector<int> d;
  bool operator==(const Slow &o) const { return d == o.d; }
  bool operator!=(const Slow &o) const { return d != o.d; }
  Slow() {}
  Slow(const Slow &o) : d(o.d) {}
  Slow(Slow &&o) noexcept : d(std::move(o.d)) {}
  Slow &operator=(const Slow &o)
  {
    std::vector<int> t(o.d);
    std::this_thread::yield();
    d.swap(t);
    std::this_thread::yield();
    return *this;
  }
  Slow &operator=(Slow &&o)
  {
    std::this_thread::yield();
    d = std::move(o.d);
    std::this_thread::yield();
    return *this;
  }
};

struct Elem
{
  int p, x;  // p < 0: not decodable
};

static std::vector<int> vec_of(int p, int x)
{
  std::vector<int> d;
  d.push_back(p);
  d.push_back(x);
  for (int i = 0; i < 2 + x % 3; ++i)
    d.push_back(p * 31 + x + i);
  return d;
}
static Elem vec_dec(const std::vector<int> &d)
{
  if (d.empty())
    return Elem{-2, 0};  // default-constructed / moved-from
  if (d.size() < 4)
    return Elem{-1, 0};
  int p = d[0], x = d[1];
  if (p < 0 || x < 0 || d.size() != size_t(4 + x % 3))
    return Elem{-1, 0};
  for (size_t i = 2; i < d.size(); ++i)
    if (d[i] != p * 31 + x + int(i - 2))
      return Elem{-1, 0};
  return Elem{p, x};
}

template <typename T>
struct Pay;
template <>
struct Pay<int>
{
  static int make(int p, int x) { return p * 1000000 + x; }
  static Elem dec(int v) { return v < 0 ? Elem{-1, 0} : Elem{v / 1000000, v % 1000000}; }
};
template <>
struct Pay<std::string>
{
  static std::string make(int p, int x)
  {
    return "E" + std::to_string(p) + ":" + std::to_string(x) + ":" + std::string(20 + x % 5, char('a' + (p + x) % 26));
  }
  static Elem dec(const std::string &s)
  {
    if (s.empty())
      return Elem{-2, 0};
    int p = -1, x = -1, n = 0;
    if (sscanf(s.c_str(), "E%d:%d:%n", &p, &x, &n) != 2 || p < 0 || x < 0)
      return Elem{-1, 0};
    if (s != make(p, x))
      return Elem{-1, 0};
    return Elem{p, x};
  }
};
template <>
struct Pay<std::vector<int>>
{
  static std::vector<int> make(int p, int x) { return vec_of(p, x); }
  static Elem dec(const std::vector<int> &d) { return vec_dec(d); }
};
template <>
struct Pay<Slow>
{
  static Slow make(int p, int x)
  {
    Slow s;
    s.d = vec_of(p, x);
    return s;
  }
  static Elem dec(const Slow &s) { return vec_dec(s.d); }
};

static std::string show_elem(Elem e)
{
  if (e.p == -2)
    return "unset";
  if (e.p < 0)
    return "corrupt";
  return std::to_string(e.p) + "." + std::to_string(e.x);
}
static std::string show_val(Elem e)
{
  if (e.p == -2)
    return "unset";
  if (e.p != 0)
    return "corrupt";
  return std::to_string(e.x);
}

// ---------------------------------------------------------------------------------------------
// single-threaded histories
// ---------------------------------------------------------------------------------------------

struct IBuf
{
  virtual std::string pushFail(int p, int x) = 0;
  virtual std::string pushLvalue(int p, int x) = 0;
  virtual ~IBuf() {}
  virtual void push(int p, int x, bool rvalue) = 0;
  virtual std::string consume() = 0;
  virtual size_t size() = 0;
  virtual bool empty() = 0;
};
template <typename T>
struct BufImpl : IBuf
{
  containers::TransactionalBuffer<T> b;
  void push(int p, int x, bool rvalue) override
  {
    if (rvalue)
      b.push_back(Pay<T>::make(p, x));
    else {
      const T t = Pay<T>::make(p, x);
      b.push_back(t);
    }
  }
  // push_back of an lvalue while the next allocation (the element's copy or the vector's growth) fails: bad_alloc,
  // and the buffer - including what size()/empty() report - is what it was
  std::string pushFail(int p, int x) override
  {
    if (std::is_same<T, int>::value)
      return "bad-op";   // no allocation is certain to happen for a trivially copyable element
    const T t = Pay<T>::make(p, x);
    bool threw = false;
    vh::failAllocIn = 1;
    try { b.push_back(t); } catch (const std::bad_alloc &) { threw = true; }
    vh::failAllocIn = 0;
    return threw ? "bad_alloc" : "nofail";
  }
  std::string pushLvalue(int p, int x) override
  {
    T t = Pay<T>::make(p, x);
    b.push_back(t);
    Elem e = Pay<T>::dec(t);
    return (e.p == p && e.x == x) ? "ok" : "source-changed";
  }
  std::string consume() override
  {
    std::vector<T> l = b.consume();
    std::string out;
    for (auto &e : l) {
      if (!out.empty())
        out += " ";
      out += show_elem(Pay<T>::dec(e));
    }
    return out.empty() ? "-" : out;
  }
  size_t size() override { return b.size(); }
  bool empty() override { return b.empty(); }
};

struct IVal
{
  virtual ~IVal() {}
  virtual void assign(int x) = 0;
  virtual void assignZero() = 0;
  virtual std::string assignFail(int x) = 0;
  virtual bool update() = 0;
  virtual std::string get(bool byRef) = 0;
};
template <typename T>
struct ValImpl : IVal
{
  std::unique_ptr<utility::TransactionalValue<T>> v;
  bool defined;  // currentValue has a specified content (int: not before the first successful update
                 // of a default-constructed object)
  ValImpl(bool dflt, int c0)
  {
    if (dflt) {
      v.reset(new utility::TransactionalValue<T>());
      defined = !std::is_same<T, int>::value;
    } else {
      v.reset(new utility::TransactionalValue<T>(Pay<T>::make(0, c0)));
      defined = true;
    }
  }
  void assign(int x) override { *v = Pay<T>::make(0, x); }
  // the value-initialised payload (0 / empty string / empty vector): equal to what a moved-from or default-constructed
  // payload looks like, but still an assignment the consumer must receive
  void assignZero() override { *v = T(); }
  // an assignment during which the payload's copy fails (bad_alloc out of the payload's copy assignment): nothing was
  // assigned, so the consumer must neither be told of a new value nor lose the one it has. Only for the payload whose
  // copy assignment is certain to allocate (Slow); strings and vectors may reuse their capacity.
  std::string assignFail(int x) override
  {
    if (!std::is_same<T, Slow>::value)
      return "bad-op";
    const T t = Pay<T>::make(0, x);
    bool threw = false;
    vh::failAllocIn = 1;
    try { *v = t; } catch (const std::bad_alloc &) { threw = true; }
    vh::failAllocIn = 0;
    return threw ? "bad_alloc" : "nofail";
  }
  bool update() override
  {
    bool r = v->update();
    defined = defined || r;
    return r;
  }
  std::string get(bool byRef) override
  {
    if (!defined)
      return "unset";  // reading an uninitialised int is not an observation
    return show_val(Pay<T>::dec(byRef ? v->ref() : v->get()));
  }
};

// ---------------------------------------------------------------------------------------------
// multi-threaded runs
// ---------------------------------------------------------------------------------------------

struct Lcg
{
  unsigned long long s;
  explicit Lcg(unsigned long long seed) : s(seed * 2654435761ull + 12345) {}
  unsigned next()
  {
    s = s * 6364136223846793005ull + 1442695040888963407ull;
    return unsigned(s >> 33);
  }
};

// pacing only diversifies schedules; it never influences what is printed
static void pace(int mode, bool consumer, Lcg &r)
{
  switch (mode) {
  case 0:
    break;
  case 1:
    std::this_thread::yield();
    break;
  case 2:
    if (!consumer && r.next() % 4 == 0)
      std::this_thread::yield();
    break;
  default:
    if (consumer)
      std::this_thread::sleep_for(std::chrono::microseconds(20 + r.next() % 80));
    else if (r.next() % 64 == 0)
      std::this_thread::sleep_for(std::chrono::microseconds(30));
    break;
  }
}

template <typename T>
static std::string mt_buf(int P, int N, int mode, unsigned seed)
{
  containers::TransactionalBuffer<T> buf;
  std::atomic<int> go(0), done(0);
  std::atomic<long> torn(0);
  const size_t total = size_t(P) * size_t(N);
  std::vector<std::thread> th;
  for (int p = 0; p < P; ++p) {
    th.emplace_back([&, p]() {
      Lcg r(seed * 131u + unsigned(p));
      while (!go.load())
        std::this_thread::yield();
      for (int x = 0; x < N; ++x) {
        if (x & 1)
          buf.push_back(Pay<T>::make(p, x));
        else {
          const T t = Pay<T>::make(p, x);
          buf.push_back(t);
        }
        if (x % 16 == 7) {
          size_t s = buf.size();
          bool e = buf.empty();
          (void)e;
          if (s > total)
            torn++;
        }
        pace(mode, false, r);
      }
      done++;
    });
  }
  std::vector<std::vector<T>> batches;
  long tornC = 0;
  size_t got = 0;
  bool overflow = false;  // more elements delivered than were pushed: stop collecting (bounds memory)
  {
    Lcg r(seed * 977u + 5);
    go.store(1);
    for (;;) {
      bool fin = done.load() == P;  // read before the consume: then that consume drains everything
      size_t s = buf.size();
      bool e = buf.empty();
      std::vector<T> b = buf.consume();
      if (b.size() < s)
        tornC++;  // only producers ran in between: the batch starts with what size() counted
      if (s > 0 && e)
        tornC++;
      if (!e && b.empty())
        tornC++;
      if (b.size() > total)
        tornC++;
      got += b.size();
      if (got > total)
        overflow = true;
      if (!b.empty() && !overflow)
        batches.push_back(std::move(b));
      if (fin)
        break;
      pace(mode, true, r);
    }
  }
  for (auto &t : th)
    t.join();
  long leftover = 0;
  if (!buf.empty() || buf.size() != 0)
    leftover++;
  leftover += long(buf.consume().size());

  std::vector<int> seen(total, 0);
  std::vector<int> last(P, -1);
  long corrupt = 0, order = 0, dup = 0, lost = 0, emptyBatch = 0;
  for (auto &b : batches) {
    if (b.empty())
      emptyBatch++;
    for (auto &v : b) {
      Elem e = Pay<T>::dec(v);
      if (e.p < 0 || e.p >= P || e.x >= N) {
        corrupt++;
        continue;
      }
      seen[size_t(e.p) * N + e.x]++;
      if (e.x <= last[e.p])
        order++;
      last[e.p] = e.x;
    }
  }
  for (size_t i = 0; i < total; ++i) {
    if (seen[i] == 0)
      lost++;
    if (seen[i] > 1)
      dup++;
  }
  long t = tornC + torn.load();
  if (!corrupt && !order && !dup && !lost && !t && !leftover && !overflow)
    return "ok total=" + std::to_string(total);
  if (overflow)
    return "FAIL more elements consumed than pushed (duplication)";
  return "FAIL lost=" + std::to_string(lost) + " dup=" + std::to_string(dup) + " order=" + std::to_string(order)
      + " corrupt=" + std::to_string(corrupt) + " torn=" + std::to_string(t) + " leftover=" + std::to_string(leftover);
}

template <typename T>
static std::string mt_val(int N, int mode, unsigned seed)
{
  utility::TransactionalValue<T> tv(Pay<T>::make(0, 0));
  std::atomic<int> go(0), stop(0);
  std::thread prod([&]() {
    Lcg r(seed * 131u + 1);
    while (!go.load())
      std::this_thread::yield();
    for (int x = 1; x <= N; ++x) {
      tv = Pay<T>::make(0, x);
      pace(mode, false, r);
    }
    stop.store(1);
  });
  long corrupt = 0, wrongTrue = 0, wrongFalse = 0, notLast = 0;
  int cur = 0;
  long it = 0;
  auto observe = [&]() {
    bool r = tv.update();
    Elem e = Pay<T>::dec((it++ & 1) ? tv.ref() : tv.get());
    if (e.p != 0 || e.x > N) {
      corrupt++;
      return;
    }
    if (r && !(e.x > cur))
      wrongTrue++;  // update() said "new value" but get() did not move to a newer assignment
    if (!r && e.x != cur)
      wrongFalse++;  // update() said "nothing new" but the value changed
    cur = e.x;
  };
  {
    Lcg r(seed * 977u + 5);
    go.store(1);
    for (;;) {
      bool st = stop.load() != 0;
      observe();
      if (st)
        break;
      pace(mode, true, r);
    }
  }
  prod.join();
  observe();  // the producer has stopped: one more update() must leave the last value
  if (cur != N)
    notLast++;
  if (!corrupt && !wrongTrue && !wrongFalse && !notLast)
    return "ok last=" + std::to_string(N);
  return "FAIL corrupt=" + std::to_string(corrupt) + " true-without-newer=" + std::to_string(wrongTrue)
      + " false-but-changed=" + std::to_string(wrongFalse) + " last=" + std::to_string(cur);
}

// ---------------------------------------------------------------------------------------------

// a deadlock / livelock of the code under test must end the case, not the whole check
static void on_alarm(int)
{
  static const char msg[] = "watchdog: multi-threaded case exceeded 120 s (deadlock or livelock)\n";
  ssize_t r = write(2, msg, sizeof(msg) - 1);
  (void)r;
  _exit(96);
}
struct Watchdog
{
  Watchdog() { alarm(120); }
  ~Watchdog() { alarm(0); }
};

static std::unique_ptr<IBuf> B;
static std::unique_ptr<IVal> V;

int main()
{
  signal(SIGALRM, on_alarm);
  auto reset = []() {
    B.reset();
    V.reset();
  };
  auto step = [](const std::vector<std::string> &w) -> std::string {
    const std::string &op = w[0];
    if (op == "tb_new" && w.size() == 2) {
      if (w[1] == "i") B.reset(new BufImpl<int>());
      else if (w[1] == "s") B.reset(new BufImpl<std::string>());
      else if (w[1] == "v") B.reset(new BufImpl<std::vector<int>>());
      else if (w[1] == "w") B.reset(new BufImpl<Slow>());
      else return "bad-op";
      return "ok";
    }
    if (op == "tv_new" && w.size() == 3) {
      bool dflt = w[2] == "-";
      int c0 = dflt ? 0 : int(vh::to_ll(w[2]));
      if (w[1] == "i") V.reset(new ValImpl<int>(dflt, c0));
      else if (w[1] == "s") V.reset(new ValImpl<std::string>(dflt, c0));
      else if (w[1] == "v") V.reset(new ValImpl<std::vector<int>>(dflt, c0));
      else if (w[1] == "w") V.reset(new ValImpl<Slow>(dflt, c0));
      else return "bad-op";
      return "ok";
    }
    if (op == "mt_buf" && w.size() == 6) {
      int P = int(vh::to_ll(w[2])), N = int(vh::to_ll(w[3])), mode = int(vh::to_ll(w[4]));
      unsigned seed = unsigned(vh::to_ull(w[5]));
      if (P < 1 || P > 64 || N < 0 || N > 999999) return "bad-op";
      Watchdog wd;
      if (w[1] == "i") return mt_buf<int>(P, N, mode, seed);
      if (w[1] == "s") return mt_buf<std::string>(P, N, mode, seed);
      if (w[1] == "v") return mt_buf<std::vector<int>>(P, N, mode, seed);
      if (w[1] == "w") return mt_buf<Slow>(P, N, mode, seed);
      return "bad-op";
    }
    if (op == "mt_val" && w.size() == 5) {
      int N = int(vh::to_ll(w[2])), mode = int(vh::to_ll(w[3]));
      unsigned seed = unsigned(vh::to_ull(w[4]));
      if (N < 0 || N > 999999) return "bad-op";
      Watchdog wd;
      if (w[1] == "i") return mt_val<int>(N, mode, seed);
      if (w[1] == "s") return mt_val<std::string>(N, mode, seed);
      if (w[1] == "v") return mt_val<std::vector<int>>(N, mode, seed);
      if (w[1] == "w") return mt_val<Slow>(N, mode, seed);
      return "bad-op";
    }
    if (op == "push" || op == "pushm") {
      if (!B || w.size() != 3) return "bad-op";
      B->push(int(vh::to_ll(w[1])), int(vh::to_ll(w[2])), op == "pushm");
      return "ok";
    }
    if (op == "pushl") {
      // a NON-const lvalue is pushed (a record the producer keeps and re-uses): it is copied, the producer's object
      // stays what it was
      if (!B || w.size() != 3) return "bad-op";
      return B->pushLvalue(int(vh::to_ll(w[1])), int(vh::to_ll(w[2])));
    }
    if (op == "push_fail") {
      if (!B || w.size() != 3) return "bad-op";
      return B->pushFail(int(vh::to_ll(w[1])), int(vh::to_ll(w[2])));
    }
    if (op == "consume") return B ? B->consume() : "bad-op";
    if (op == "size") return B ? std::to_string(B->size()) : "bad-op";
    if (op == "empty") return B ? vh::bit(B->empty()) : "bad-op";
    if (op == "assign" && w.size() == 2) {
      if (!V) return "bad-op";
      V->assign(int(vh::to_ll(w[1])));
      return "ok";
    }
    if (op == "assign_fail" && w.size() == 2) {
      if (!V) return "bad-op";
      return V->assignFail(int(vh::to_ll(w[1])));
    }
    if (op == "assignz") {
      if (!V) return "bad-op";
      V->assignZero();
      return "ok";
    }
    if (op == "update") return V ? vh::bit(V->update()) : "bad-op";
    if (op == "get") return V ? V->get(false) : "bad-op";
    if (op == "ref") return V ? V->get(true) : "bad-op";
    return "bad-op";
  };
  return vh::run(reset, step);
}
