// C14 correspondence harness: alignedMalloc/alignedFree, isAligned, ALIGN_PTR,
// aligned_allocator<T,A> and AlignedVector<T>, driven by the same op lines as the Lean model
// (lean/Driver/C14.lean).  argv[1] = sizeof(T) of the element type (1, 4, 12, 64).
// Built twice: with -DRKCOMMON_TASKING_TBB (scalable_aligned_malloc) and without (_mm_malloc).
//
// The system allocator is a *contract* in the model; this harness is where the contract is
// observed: every returned pointer is checked for alignment, for being apart from every other
// live block, for being writable/readable over its full extent, and every live block carries a
// pattern that is re-verified after every free (a free that corrupts a neighbour shows up as
// "corrupt:<slot>").  Canonical output only: no addresses, no capacities.
#include "common.h"
#include <new>
#include <cstdint>
#include <cstring>
#include <algorithm>
#include "rkcommon/memory/malloc.h"
#include "rkcommon/containers/aligned_allocator.h"
#include "rkcommon/containers/AlignedVector.h"
#if defined(__SANITIZE_ADDRESS__)
#include <sanitizer/asan_interface.h>
extern "C" int __sanitizer_install_malloc_and_free_hooks(
    void (*malloc_hook)(const volatile void *, size_t), void (*free_hook)(const volatile void *));
#endif
#if defined(RKCOMMON_TASKING_TBB)
#include "tbb/scalable_allocator.h"
#endif

using namespace rkcommon;

// ---------------------------------------------------------------- allocation tracking (ASan build)
// Every block the system allocator hands out while rkcommon code runs (g_track) is recorded; frees
// remove it.  "leak" requires the table to be empty after everything was released.
static const size_t TRK = 8192;
static const volatile void *g_tab[TRK];
static size_t g_tracked = 0;
static bool g_track = false;
static size_t g_last_size = 0;

static void trk_malloc(const volatile void *p, size_t size)
{
  if (!g_track || !p)
    return;
  g_last_size = size;
  size_t h = ((uintptr_t)p >> 4) % TRK;
  for (size_t i = 0; i < TRK; i++, h = (h + 1) % TRK)
    if (!g_tab[h] || g_tab[h] == (const volatile void *)1) {
      g_tab[h] = p;
      g_tracked++;
      return;
    }
}
static void trk_free(const volatile void *p)
{
  if (!p)
    return;
  size_t h = ((uintptr_t)p >> 4) % TRK;
  for (size_t i = 0; i < TRK && g_tab[h]; i++, h = (h + 1) % TRK)
    if (g_tab[h] == p) {
      g_tab[h] = (const volatile void *)1;  // tombstone
      g_tracked--;
      return;
    }
}
struct Track
{
  Track() { g_track = true; }
  ~Track() { g_track = false; }
};

// ---------------------------------------------------------------- raw blocks
static const size_t KEEP_LIMIT = 16777216;
static const int NSLOT = 16;
struct Slot
{
  bool used;
  unsigned char *p;
  size_t size, align;
  unsigned seed;
};
static Slot g_slot[NSLOT];

static inline unsigned char pat(unsigned seed, size_t i)
{
  return (unsigned char)(seed * 131u + i * 7u + (i >> 8));
}
static void fill(Slot &s)
{
  for (size_t i = 0; i < s.size; i++)
    s.p[i] = pat(s.seed, i);
}
static bool intact(const Slot &s)
{
  for (size_t i = 0; i < s.size; i++)
    if (s.p[i] != pat(s.seed, i))
      return false;
  return true;
}
static std::string verifyAll()
{
  for (int k = 0; k < NSLOT; k++)
    if (g_slot[k].used && g_slot[k].p && !intact(g_slot[k]))
      return "corrupt:" + std::to_string(k);
  return "ok";
}
static bool overlapsLive(const unsigned char *p, size_t size, int except)
{
  for (int k = 0; k < NSLOT; k++) {
    const Slot &s = g_slot[k];
    if (k == except || !s.used || !s.p)
      continue;
    if (p == s.p)
      return true;
    if (p < s.p + s.size && s.p < p + size)
      return true;
  }
  return false;
}
static size_t usableSize(void *p, size_t dflt)
{
#if defined(RKCOMMON_TASKING_TBB)
  (void)dflt;
  return scalable_msize(p);
#else
  return dflt;
#endif
}
static void releaseSlot(int k)
{
  Slot &s = g_slot[k];
  if (s.used) {
    Track t;
    memory::alignedFree(s.p);
  }
  s.used = false;
  s.p = nullptr;
}

// Checks on a block just returned for `size` bytes at alignment `align`; registers it in slot k.
static std::string adopt(int k, void *pv, size_t size, size_t align, unsigned seed)
{
  unsigned char *p = (unsigned char *)pv;
  if (size > KEEP_LIMIT) {  // null is expected; a block this large is only checked for alignment
    std::string r = (!p || (uintptr_t)p % align == 0) ? "ok" : "misaligned";
    if (p) {
      Track t;
      memory::alignedFree(p);
    }
    return r;
  }
  if (!p) {
    if (size == 0) {  // alignedMalloc(0) may return null (TBB does)
      g_slot[k] = Slot{true, nullptr, 0, align, seed};
      return "ok";
    }
    return "null";
  }
  if ((uintptr_t)p % align != 0)
    return "misaligned";
  if (overlapsLive(p, size, k))
    return "overlap";
  if (usableSize(p, size) < size)
    return "short";
#if defined(__SANITIZE_ADDRESS__)
  if (size && __asan_region_is_poisoned(p, size))
    return "poisoned";
#endif
  g_slot[k] = Slot{true, p, size, align, seed};
  fill(g_slot[k]);
  if (!intact(g_slot[k]))
    return "readback";
  return "ok";
}

// ---------------------------------------------------------------- element type
// element type that is copyable AND constructible from an initializer_list of itself: `T{t}` and `T(t)` differ for it
struct Nest {
  std::vector<Nest> kids;
  std::string tag;
  Nest() {}
  explicit Nest(const std::string &t) : tag(t) {}
  Nest(std::initializer_list<Nest> l) : kids(l) {}
  bool operator==(const Nest &o) const { return tag == o.tag && kids == o.kids; }
  bool operator!=(const Nest &o) const { return !(*this == o); }
};
template <typename E> struct MakeElem;
template <> struct MakeElem<std::string> { static std::string make(unsigned n, char c) { return std::string(n, c); } };
template <> struct MakeElem<Nest> { static Nest make(unsigned n, char c) { Nest x(std::string(n, c)); if (n % 3 == 0) x.kids.push_back(Nest(std::string(1, c))); return x; } };

template <typename E>
static std::string svcheckRun(unsigned long long seed)
{
  unsigned long long st = seed * 2654435761ull + 12345;
  auto rnd = [&](unsigned m) { st = st * 6364136223846793005ull + 1442695040888963407ull; return (unsigned)((st >> 33) % m); };
  typedef rkcommon::containers::AlignedVector<E> AV;
  typedef std::vector<E> SV;
  AV a, a2;
  SV r, r2;
  auto same = [&]() -> bool {
    if (a.size() != r.size() || a2.size() != r2.size()) return false;
    for (size_t i = 0; i < r.size(); i++) if (a[i] != r[i]) return false;
    for (size_t i = 0; i < r2.size(); i++) if (a2[i] != r2[i]) return false;
    if (!a.empty() && !rkcommon::memory::isAligned(a.data(), 64)) return false;
    if (!a2.empty() && !rkcommon::memory::isAligned(a2.data(), 64)) return false;
    return true;
  };
  for (int step = 0; step < 60; step++) {
    unsigned k = rnd(9);
    E val = MakeElem<E>::make(1 + rnd(40), char('a' + rnd(26)));
    if (k == 0) { a.push_back(val); r.push_back(val); }
    else if (k == 1 && !r.empty()) { size_t i = rnd((unsigned)r.size()); a.emplace_back(a[i]); r.emplace_back(r[i]); }
    else if (k == 2 && !r.empty()) { size_t i = rnd((unsigned)r.size()), j = rnd((unsigned)r.size() + 1);
      E &la = a[i]; E ca = la; a.insert(a.begin() + j, ca); E cr = r[i]; r.insert(r.begin() + j, cr); }
    else if (k == 3) { a2.assign(a.begin(), a.end()); r2.assign(r.begin(), r.end()); }
    else if (k == 4) { AV t(a.begin(), a.end()); SV tr(r.begin(), r.end()); a2.swap(t); r2.swap(tr); }
    else if (k == 5 && !r.empty()) { size_t i = rnd((unsigned)r.size()); a.emplace(a.begin(), a[i]); r.emplace(r.begin(), r[i]); }
    else if (k == 6) { a.resize(rnd(12), val); r.resize(a.size(), val); }
    else if (k == 7 && !r.empty()) { a.pop_back(); r.pop_back(); }
    else if (k == 8) { a2 = a; r2 = r; }
    if (!same()) return "differs-from-std-vector@" + std::to_string(step) + ":op" + std::to_string(k);
  }
  return "ok";
}

template <int N>
struct E
{
  unsigned char b[N];
  static long live;
  E() { memset(b, 0, N); ++live; }
  explicit E(unsigned char x) { memset(b, x, N); ++live; }
  E(const E &o) { memcpy(b, o.b, N); ++live; }
  E &operator=(const E &o) { memcpy(b, o.b, N); return *this; }
  ~E() { --live; }
  std::string show() const
  {
    for (int j = 1; j < N; j++)
      if (b[j] != b[0])
        return "torn";
    return std::to_string((unsigned)b[0]);
  }
};
template <int N>
long E<N>::live = 0;

static size_t vmSizeKiB()
{
  FILE *f = fopen("/proc/self/statm", "r");
  if (!f)
    return 0;
  unsigned long pages = 0;
  if (fscanf(f, "%lu", &pages) != 1)
    pages = 0;
  fclose(f);
  return pages * 4;
}

template <typename T, int A>
static std::string vaCheck(size_t n)
{
  Track t;
  std::vector<T, containers::aligned_allocator<T, A>> v(n);
  std::vector<T, containers::aligned_allocator<T, A>> w;
  for (size_t i = 0; i < n; i++)
    w.push_back(T((unsigned char)i));
  return vh::bit((uintptr_t)v.data() % A == 0 && (uintptr_t)w.data() % A == 0);
}

template <int N>
int runTyped()
{
  using T = E<N>;
  static_assert(sizeof(T) == N, "element size");
  using Alloc = containers::aligned_allocator<T>;
  using Vec = containers::AlignedVector<T>;
  static Vec vec[2];
  static unsigned swapCount = 0;
  Alloc alloc;

  auto releaseAll = [&]() {
    for (int k = 0; k < NSLOT; k++)
      releaseSlot(k);
    for (int k = 0; k < 2; k++) {
      Track t;
      Vec().swap(vec[k]);
    }
  };
  auto alBit = [&](int k) -> std::string {
    const Vec &v = vec[k];
    bool ok = v.data() == nullptr || memory::isAligned((void *)v.data(), 64);
    if ((uintptr_t)v.data() % 64 != 0)
      ok = false;
#if defined(__SANITIZE_ADDRESS__)
    if (v.data() && v.capacity() && __asan_region_is_poisoned((void *)v.data(), v.capacity() * sizeof(T)))
      return "poisoned";
#endif
    return vh::bit(ok);
  };
  // A request no allocator can serve must fail in allocate(); if it "succeeds" (e.g. a truncated
  // byte count) the vector operation would run off the block, so report it instead of running it.
  auto absurd = [&](size_t n) -> bool {
    if ((unsigned __int128)n * sizeof(T) <= (unsigned __int128)KEEP_LIMIT)
      return false;
    try {
      Track t;
      T *p = alloc.allocate(n);
      if (p) {
        alloc.deallocate(p, n);
        return true;
      }
    } catch (const std::exception &) {
    }
    return false;
  };
  // run one mutating vector operation, canonical outcome + alignment of data()
  auto vop = [&](int k, const std::function<void(Vec &)> &f) -> std::string {
    std::string o = "ok";
    try {
      Track t;
      f(vec[k]);
    } catch (const std::length_error &) {
      o = "length_error";
    } catch (const std::bad_alloc &) {
      o = "bad_alloc";
    }
    return o + " al=" + alBit(k);
  };

  return vh::run(
      [&]() { releaseAll(); },
      [&](const std::vector<std::string> &w) -> std::string {
        const std::string &op = w[0];
        auto K = [&](size_t i) { return (int)(vh::to_ull(w.at(i)) % NSLOT); };
        auto VK = [&](size_t i) { return (int)(vh::to_ull(w.at(i)) & 1); };
        auto U = [&](size_t i) { return (size_t)vh::to_ull(w.at(i)); };
        auto X = [&](size_t i) { return T((unsigned char)vh::to_ull(w.at(i))); };

        // ---- alignedMalloc / alignedFree
        if (op == "am") {
          int k = K(1);
          size_t size = U(2), align = U(3);
          releaseSlot(k);
          void *p;
          {
            Track t;
            p = memory::alignedMalloc(size, align);
          }
          return adopt(k, p, size, align, (unsigned)(size * 31 + align + k));
        }
        if (op == "af") {
          releaseSlot(K(1));  // alignedFree(nullptr) for an empty slot
          if (!g_slot[K(1)].used) {
            Track t;
            memory::alignedFree(nullptr);
          }
          return verifyAll();
        }
        if (op == "aw") {
          Slot &s = g_slot[K(1)];
          if (s.used && s.p) {
            s.seed = (unsigned)U(2);
            fill(s);
          }
          return verifyAll();
        }
        if (op == "chk") {
          std::string v = verifyAll();
          if (v != "ok")
            return v;
          size_t n = 0, bytes = 0;
          for (int k = 0; k < NSLOT; k++)
            if (g_slot[k].used) {
              n++;
              bytes += g_slot[k].size;
            }
          return "live=" + std::to_string(n) + " bytes=" + std::to_string(bytes);
        }
        if (op == "ia")
          return vh::bit(memory::isAligned((void *)(uintptr_t)U(1), (int)U(2)));
        if (op == "ias") {
          const Slot &s = g_slot[K(1)];
          size_t a = U(2);
          if (!s.used || a > s.align)
            return "-";
          return vh::bit(memory::isAligned(s.p, (int)a));
        }
        if (op == "ap") {
          size_t ptr = U(1), alignment = U(2);
          return std::to_string((size_t)ALIGN_PTR(ptr, alignment));
        }
        // ---- aligned_allocator<T,64>
        if (op == "ms")
          return std::to_string(alloc.max_size());
        if (op == "al" || op == "alh" || op == "alnh") {
          int k = K(1);
          size_t n = U(2);
          releaseSlot(k);
          T *p = nullptr;
          g_last_size = (size_t)-1;
          // alnh: the same request while a std::new_handler that simply returns is installed (an application-level
          // "free some caches and try again" hook): the outcome must be the same - a block or an exception, never null
          struct HandlerGuard {
            std::new_handler old;
            bool on;
            explicit HandlerGuard(bool o) : old(nullptr), on(o) { if (on) old = std::set_new_handler([]() {}); }
            ~HandlerGuard() { if (on) std::set_new_handler(old); }
          } hg(op == "alnh");
          try {
            Track t;
            p = (op == "alh") ? alloc.allocate(n, (const int *)nullptr) : alloc.allocate(n);
          } catch (const std::length_error &) {
            return "length_error";
          } catch (const std::bad_alloc &) {
            // acceptable only for requests no allocator can serve
            unsigned __int128 want = (unsigned __int128)n * sizeof(T);
            if (want > (unsigned __int128)KEEP_LIMIT)
              return "req " + std::to_string((size_t)want) + " 64";
            return "bad_alloc";
          }
          if (!p)
            return "null";
          size_t bytes = n * sizeof(T);
#if defined(__SANITIZE_ADDRESS__) && !defined(RKCOMMON_TASKING_TBB)
          if (g_last_size != (size_t)-1)
            bytes = g_last_size;  // the size alignedMalloc was really asked for
#endif
          std::string r = adopt(k, p, bytes, 64, (unsigned)(n * 17 + k));
          return r == "ok" ? "req " + std::to_string(bytes) + " 64" : r;
        }
        if (op == "de") {
          Slot &s = g_slot[K(1)];
          {
            Track t;
            alloc.deallocate(s.used ? (T *)s.p : nullptr, s.used ? s.size / sizeof(T) : 0);
          }
          s.used = false;
          s.p = nullptr;
          return verifyAll();
        }
        if (op == "eq") {
          Alloc other;
          return std::string(vh::bit(alloc == other)) + " " + vh::bit(alloc != other);
        }
        if (op == "va") {
          size_t a = U(1), n = U(2) % 64 + 1;
          if (a == 16) return vaCheck<T, 16>(n);
          if (a == 64) return vaCheck<T, 64>(n);
          if (a == 128) return vaCheck<T, 128>(n);
          if (a == 512) return vaCheck<T, 512>(n);
          if (a == 4096) return vaCheck<T, 4096>(n);
          return "bad-op";
        }
        // ---- AlignedVector<T>
        if (op == "push") { T x = X(2); return vop(VK(1), [&](Vec &v) { v.push_back(x); }); }
        if (op == "pop") return vop(VK(1), [&](Vec &v) { if (!v.empty()) v.pop_back(); });
        if ((op == "resize" || op == "resize0" || op == "reserve" || op == "assign") && absurd(U(2)))
          return "huge-request-succeeded";
        if (op == "resize") { size_t n = U(2); T x = X(3); return vop(VK(1), [&](Vec &v) { v.resize(n, x); }); }
        if (op == "resize0") { size_t n = U(2); return vop(VK(1), [&](Vec &v) { v.resize(n); }); }
        if (op == "reserve") { size_t n = U(2); return vop(VK(1), [&](Vec &v) { v.reserve(n); }); }
        if (op == "shrink") return vop(VK(1), [&](Vec &v) { v.shrink_to_fit(); });
        if (op == "assign") { size_t n = U(2); T x = X(3); return vop(VK(1), [&](Vec &v) { v.assign(n, x); }); }
        if (op == "clear") return vop(VK(1), [&](Vec &v) { v.clear(); });
        if (op == "insert") {
          size_t i = U(2); T x = X(3);
          return vop(VK(1), [&](Vec &v) { if (i <= v.size()) v.insert(v.begin() + i, x); });
        }
        if (op == "erase") { size_t i = U(2); return vop(VK(1), [&](Vec &v) { if (i < v.size()) v.erase(v.begin() + i); }); }
        if (op == "set") { size_t i = U(2); T x = X(3); return vop(VK(1), [&](Vec &v) { if (i < v.size()) v[i] = x; }); }
        if (op == "release") return vop(VK(1), [&](Vec &v) { Vec().swap(v); });
        if (op == "copy") { int k = VK(1); return vop(k, [&](Vec &v) { v = vec[1 - k]; }); }
        if (op == "swap") {
          {
            Track t;
            if (swapCount++ & 1)
              std::swap(vec[0], vec[1]);
            else
              vec[0].swap(vec[1]);
          }
          return "ok al=" + alBit(0) + alBit(1);
        }
        if (op == "get") {
          try {
            return vec[VK(1)].at(U(2)).show();
          } catch (const std::out_of_range &) {
            return "throw";
          }
        }
        if (op == "dump") {
          const Vec &v = vec[VK(1)];
          std::string out = "n=" + std::to_string(v.size()) + " e=" + vh::bit(v.empty()) + " al=" + alBit(VK(1)) + " [";
          for (size_t i = 0; i < v.size(); i++) {
            if (i) out += ",";
            out += v[i].show();
          }
          return out + "]";
        }
        if (op == "objs")
          return std::to_string(T::live);
        if (op == "leak") {
          releaseAll();
          if (T::live != 0)
            return "objects:" + std::to_string(T::live);
#if defined(__SANITIZE_ADDRESS__) && !defined(RKCOMMON_TASKING_TBB)
          if (g_tracked != 0)
            return "leak:" + std::to_string(g_tracked);
#endif
          return "ok";
        }
        if (op == "svcheck") {
          // element types with an observable moved-from state / constructor choice: AlignedVector<E> must behave exactly
          // like std::vector<E> (same template, other allocator) on a history that passes non-const lvalues to
          // emplace_back / insert / assign / range construction; data() stays aligned.  E = std::string, and E = a
          // tree node that also has an initializer_list constructor (a brace-initialised copy would nest it)
          unsigned long long seed = vh::to_ull(w.at(1));
          std::string r1 = svcheckRun<std::string>(seed);
          if (r1 != "ok") return r1;
          std::string r2 = svcheckRun<Nest>(seed + 1);
          return r2 == "ok" ? "ok" : "nest:" + r2;
        }
        if (op == "churn") {
#if defined(RKCOMMON_TASKING_TBB)
          // a free that does not release shows up as unbounded growth of the address space
          size_t before = vmSizeKiB();
          for (int i = 0; i < 256; i++) {
            unsigned char *p = (unsigned char *)memory::alignedMalloc(1u << 20, 64);
            if (!p)
              return "null";
            p[0] = 1;
            p[(1u << 20) - 1] = 2;
            memory::alignedFree(p);
          }
          size_t after = vmSizeKiB();
          if (after > before + 128 * 1024)
            return "grows";
#endif
          return "ok";
        }
        return "bad-op";
      });
}

int main(int argc, char **argv)
{
#if defined(__SANITIZE_ADDRESS__)
  __sanitizer_install_malloc_and_free_hooks(trk_malloc, trk_free);
#endif
  std::string mode = argc > 1 ? argv[1] : "4";
  if (mode == "1") return runTyped<1>();
  if (mode == "4") return runTyped<4>();
  if (mode == "12") return runTyped<12>();
  if (mode == "64") return runTyped<64>();
  return 2;
}
