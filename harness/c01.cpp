// C01 correspondence harness: parallel_for / parallel_in_blocks_of / parallel_foreach / serial_for of
// the backend selected at compile time (-DRKCOMMON_TASKING_TBB | _OMP | _INTERNAL | none = Debug),
// driven by the same op lines as the Lean model (lean/Driver/C01.lean).
//
// Index type names: u8 i16 i32 u32 i64 ll ull sz  (unsigned char, short, int, unsigned, long,
// long long, unsigned long long, size_t — the 8 types traits::is_valid_index accepts).
//
// Ops (one output line each; only predicates the property determines are printed):
//   init T                      initTaskingSystem(T)                                          -> ok
//   pfor TYPE N KIND            parallel_for<TYPE>(N, body); KIND = plain | uneven            -> once= extra= complete=
//   sfor TYPE N                 serial_for<TYPE>(N, body)                                     -> once= extra= complete=
//   pnest TYPE N TYPE2 M        parallel_for<TYPE>(N, [parallel_for<TYPE2>(M, body)]) (TYPE2: i32|sz)
//                                                                                             -> once= extra= complete=
//   pblocks TYPE BS N           parallel_in_blocks_of<BS>(TYPE(N), fcn), BS from a fixed set   -> partition= maxblock= extra=
//   pforeach CONT N             parallel_foreach over a vec | deq | ptr range of N elements   -> once= extra= complete=
//   pforbig TYPE N              parallel_for<TYPE>(N, body) for huge N: per-thread count / index sum -> count= sum= extra=
//   fillpipe K                  Internal backend: occupy every worker with a blocked task set and queue K
//                               more 1-index task sets in the calling thread's pipe (256 = full)  -> ok
//   release                     release the blocked workers, wait for all filler sets           -> fill_once=
//   pipe R N                    LockLessMultiReadPipe<3,_> directly: one writer (also reading from the
//                               front), R reader threads, N unique items                       -> claimed_once= all= intact=
//     once      every index of [0,N) (element of the range) was handed to the body exactly once
//     extra     the body was called with an index outside [0,N) (guard-zoned counters: recorded, not a crash)
//     complete  after the call returned the caller finds every plain (non-atomic) cell written by the bodies
//     partition the blocks are non-empty, start at 0, are consecutive and end at N (none for N <= 0)
//     maxblock  no block is longer than BS
// A body that is called more than RUNAWAY times with out-of-range indices ends the case: the line
// is printed with runaway=1 and the child exits.
// Every case runs in a fresh child process (the tasking system is process-wide state); a case that does
// not finish within CASE_TIMEOUT_S is killed and reported like a crash (exit code 124).
//
// Trace mode (`c01 trace`, Internal backend only): ops `enki T S MINR FILL NEST M` drive an
// enki::TaskScheduler directly with observing task sets and print the event list
//   A id size minr | X id th s e i|r | F id th s e | W id
// (AddTaskSetToPipe about to be called / ExecuteRange entered / ExecuteRange about to return /
// WaitforTask returned), which props/c01.py replays through the Lean model's `step`.
#include "common.h"
#include <algorithm>
#include <atomic>
#include <chrono>
#include <climits>
#include <deque>
#include <memory>
#include <mutex>
#include <thread>
#include <type_traits>
#include <unordered_set>
#include <signal.h>
#include <sys/prctl.h>
#include <sys/types.h>
#include <sys/wait.h>
#include <unistd.h>
#include "rkcommon/tasking/parallel_for.h"
#include "rkcommon/tasking/parallel_foreach.h"
#include "rkcommon/tasking/tasking_system_init.h"
#include "rkcommon/tasking/detail/enkiTS/LockLessMultiReadPipe.h"
#ifdef RKCOMMON_TASKING_INTERNAL
#include "rkcommon/tasking/detail/TaskSys.h"
#endif

using namespace rkcommon;
typedef __int128 wide;

namespace {

const long GUARD = 512;          // guard zone on both sides of the counters
const long RUNAWAY = 100000;     // out-of-range calls after which the case is ended

void spin_us(long us)
{
  auto t0 = std::chrono::steady_clock::now();
  while (std::chrono::duration_cast<std::chrono::microseconds>(std::chrono::steady_clock::now() - t0).count() < us) {
  }
}

std::atomic<int> g_runaway{0};
[[noreturn]] void runaway_exit(const std::string &line)
{
  if (g_runaway++ != 0)  // another thread is already reporting
    for (;;)
      pause();
  vh::emit(line + " runaway=1");
  fflush(stdout);
  _exit(0);
}

// per-index atomic counters with guard zones; an index outside even those is only counted
struct Obs
{
  long long n;  // the range is [0,n) (n <= 0: empty)
  std::vector<std::atomic<int>> cnt;
  std::vector<long long> plain;  // written non-atomically by the bodies, read by the caller after the join
  std::atomic<long> far{0}, guardHits{0};
  const char *what;
  explicit Obs(long long n_, const char *w) : n(n_ > 0 ? n_ : 0), cnt((size_t)(n + 2 * GUARD)), plain((size_t)n, 0), what(w)
  {
    for (auto &c : cnt)
      c = 0;
  }
  inline void hit(wide idx)
  {
    if (idx >= 0 && idx < (wide)n) {
      cnt[(size_t)(idx + GUARD)]++;
      plain[(size_t)idx] = (long long)idx + 1;
      return;
    }
    long bad;
    if (idx >= -(wide)GUARD && idx < (wide)n + GUARD) {
      cnt[(size_t)(idx + GUARD)]++;
      bad = ++guardHits + far.load();
    } else
      bad = ++far + guardHits.load();
    if (bad > RUNAWAY)
      runaway_exit(std::string(what) + "once=0 extra=1 complete=0");
  }
  bool once() const
  {
    for (long long i = 0; i < n; ++i)
      if (cnt[(size_t)(i + GUARD)].load() != 1)
        return false;
    return true;
  }
  bool extra() const { return far.load() != 0 || guardHits.load() != 0; }
  bool complete() const
  {
    for (long long i = 0; i < n; ++i)
      if (plain[(size_t)i] != i + 1)
        return false;
    return true;
  }
  std::string line() const
  {
    return std::string("once=") + vh::bit(once()) + " extra=" + vh::bit(extra()) + " complete=" + vh::bit(complete());
  }
};

inline void uneven(wide i)
{
  unsigned h = (unsigned)((unsigned long long)i * 2654435761u);
  if ((h >> 7) % 64 == 0)
    spin_us(20 + (h % 40));
}

static long long g_throwAt = -1;   // index at which the body of `pfor` throws (-1: never)

template <typename T>
std::string do_pfor(long long n, const std::string &kind)
{
  Obs obs(n, "");
  bool un = kind == "uneven";
  tasking::parallel_for((T)n, [&](T i) {
    if (g_throwAt >= 0 && (long long)(wide)i == g_throwAt)
      throw std::runtime_error("loop body");
    obs.hit((wide)i);
    if (un)
      uneven((wide)i);
  });
  return obs.line();
}

// a loop whose body throws at index k (same call site, i.e. the same template instantiation, as `pfor`): on the
// backends that hand a body's exception to the caller (TBB, Debug) it arrives there, and every later loop is an
// ordinary loop again
template <typename T>
std::string do_pforthrow(long long n, long long k)
{
  g_throwAt = k;
  std::string r;
  try {
    r = "nothrow " + do_pfor<T>(n, "even");
  } catch (const std::runtime_error &) {
    r = "caught";
  }
  g_throwAt = -1;
  return r;
}

template <typename T>
std::string do_sfor(long long n)
{
  Obs obs(n, "");
  tasking::serial_for((T)n, [&](T i) { obs.hit((wide)i); });
  return obs.line();
}

template <typename T, typename T2>
std::string do_pnest(long long n, long long m)
{
  long long nn = n > 0 ? n : 0, mm = m > 0 ? m : 0;
  Obs outer(n, ""), inner(nn * mm, "");
  std::atomic<int> innerIncomplete{0};
  tasking::parallel_for((T)n, [&](T i) {
    outer.hit((wide)i);
    bool inRange = (wide)i >= 0 && (wide)i < (wide)nn;
    long long row = inRange ? (long long)i : 0;
    tasking::parallel_for((T2)m, [&](T2 j) {
      if (inRange && (wide)j >= 0 && (wide)j < (wide)mm) {
        inner.hit((wide)row * mm + (wide)j);
        uneven((wide)j + row);
      } else
        inner.hit((wide)-1 - GUARD - 1);  // counted as far out of range
    });
    // the nested call has returned: its effects must be visible to this body
    if (inRange)
      for (long long j = 0; j < mm; ++j)
        if (inner.plain[(size_t)(row * mm + j)] != row * mm + j + 1)
          innerIncomplete = 1;
  });
  bool once = outer.once() && inner.once();
  bool extra = outer.extra() || inner.extra();
  bool complete = outer.complete() && inner.complete() && !innerIncomplete.load();
  return std::string("once=") + vh::bit(once) + " extra=" + vh::bit(extra) + " complete=" + vh::bit(complete);
}

// ---------------------------------------------------------------- parallel_in_blocks_of

struct BlockLog
{
  std::mutex m;
  std::vector<std::pair<wide, wide>> blocks;
  void add(wide b, wide e)
  {
    std::lock_guard<std::mutex> g(m);
    blocks.emplace_back(b, e);
    if (blocks.size() > 3000000)
      runaway_exit("partition=0 maxblock=0 extra=1");
  }
  std::string verdict(long long n, long long bs)
  {
    std::sort(blocks.begin(), blocks.end());
    bool partition = true, maxblock = true, extra = false;
    wide at = 0;
    for (auto &b : blocks) {
      if (b.first < 0 || b.second > (wide)(n > 0 ? n : 0))
        extra = true;
      if (b.second - b.first > (wide)bs)
        maxblock = false;
      if (!(b.first < b.second) || b.first != at)
        partition = false;
      at = b.second;
    }
    if (n <= 0)
      partition = blocks.empty();
    else if (at != (wide)n)
      partition = false;
    return std::string("partition=") + vh::bit(partition) + " maxblock=" + vh::bit(maxblock) + " extra=" + vh::bit(extra);
  }
};

template <int BS, typename T>
std::string do_pblocks_bs(long long n)
{
  BlockLog log;
  tasking::parallel_in_blocks_of<BS>((T)n, [&](T b, T e) { log.add((wide)b, (wide)e); });
  return log.verdict(n, BS);
}

template <typename T>
std::string do_pblocks(long long bs, long long n)
{
#define C01_BS(B) \
  if (bs == B)    \
    return do_pblocks_bs<B, T>(n);
  C01_BS(1) C01_BS(2) C01_BS(3) C01_BS(7) C01_BS(16) C01_BS(100) C01_BS(255) C01_BS(256) C01_BS(4096) C01_BS(32767) C01_BS(65536)
  C01_BS(1073741824)
#undef C01_BS
  return "bad-bs";
}

// ---------------------------------------------------------------- parallel_foreach

struct Elem
{
  std::atomic<int> hits;
  long long plain;
  Elem() : hits(0), plain(0) {}
};

template <typename IT>
std::string do_foreach_range(IT begin, IT end, long long n)
{
  // addresses of the range's elements (what the body may legitimately receive)
  std::unordered_set<const Elem *> valid;
  std::vector<const Elem *> order;
  for (IT it = begin; it != end; ++it) {
    valid.insert(&*it);
    order.push_back(&*it);
  }
  std::atomic<long> extra{0};
  tasking::parallel_foreach(begin, end, [&](Elem &x) {
    if (!valid.count(&x)) {  // not an element of the range: record, do not touch
      if (++extra > RUNAWAY)
        runaway_exit("once=0 extra=1 complete=0");
      return;
    }
    x.hits++;
    x.plain = 7;
  });
  bool once = true, complete = true;
  for (auto *e : order) {
    once = once && e->hits.load() == 1;
    complete = complete && e->plain == 7;
  }
  (void)n;
  return std::string("once=") + vh::bit(once) + " extra=" + vh::bit(extra.load() != 0) + " complete=" + vh::bit(complete);
}

std::string do_pforeach(const std::string &cont, long long n)
{
  size_t sz = (size_t)(n > 0 ? n : 0);
  if (cont == "vec") {
    std::vector<Elem> v(sz);
    // the container overload
    std::unordered_set<const Elem *> valid;
    for (auto &e : v)
      valid.insert(&e);
    std::atomic<long> extra{0};
    tasking::parallel_foreach(v, [&](Elem &x) {
      if (!valid.count(&x)) {
        if (++extra > RUNAWAY)
          runaway_exit("once=0 extra=1 complete=0");
        return;
      }
      x.hits++;
      x.plain = 7;
    });
    bool once = true, complete = true;
    for (auto &e : v) {
      once = once && e.hits.load() == 1;
      complete = complete && e.plain == 7;
    }
    return std::string("once=") + vh::bit(once) + " extra=" + vh::bit(extra.load() != 0) + " complete=" + vh::bit(complete);
  }
  if (cont == "deq") {
    std::deque<Elem> d(sz);
    return do_foreach_range(d.begin(), d.end(), n);
  }
  if (cont == "ptr") {
    std::unique_ptr<Elem[]> a(new Elem[sz + 1]);
    return do_foreach_range(a.get(), a.get() + sz, n);
  }
  return "bad-container";
}

// ---------------------------------------------------------------- huge counts

struct BigAcc
{
  unsigned long long count = 0, sum = 0;
  bool extra = false;
};
std::mutex g_bigM;
std::vector<std::shared_ptr<BigAcc>> g_bigAll;
thread_local BigAcc *tl_big = nullptr;
inline BigAcc &big()
{
  if (!tl_big) {
    std::lock_guard<std::mutex> g(g_bigM);
    g_bigAll.push_back(std::make_shared<BigAcc>());
    tl_big = g_bigAll.back().get();
  }
  return *tl_big;
}

template <typename T>
std::string do_pforbig(unsigned long long n)
{
  {
    std::lock_guard<std::mutex> g(g_bigM);
    for (auto &a : g_bigAll)
      *a = BigAcc();
  }
  tasking::parallel_for((T)n, [&](T i) {
    BigAcc &a = big();
    a.count++;
    a.sum += (unsigned long long)i;
    if ((wide)i < 0 || (wide)i >= (wide)n)
      a.extra = true;
  });
  unsigned long long count = 0, sum = 0;
  bool extra = false;
  for (auto &a : g_bigAll) {
    count += a->count;
    sum += a->sum;
    extra = extra || a->extra;
  }
  wide want = (wide)n * ((wide)n - 1) / 2;
  return std::string("count=") + vh::bit(count == n) + " sum=" + vh::bit(sum == (unsigned long long)want) + " extra=" + vh::bit(extra);
}

// ---------------------------------------------------------------- pipe occupancy (Internal backend)

#ifdef RKCOMMON_TASKING_INTERNAL
struct BlockTask : public tasking::detail::Task
{
  std::atomic<bool> *release;
  std::atomic<int> *started;
  std::atomic<int> runs{0};
  BlockTask(std::atomic<bool> *r, std::atomic<int> *s) : enki::ITaskSet(1), release(r), started(s) {}
  void ExecuteRange(enki::TaskSetPartition tp, uint32_t) override
  {
    runs += (int)(tp.end - tp.start);
    (*started)++;
    while (!release->load())
      std::this_thread::yield();
  }
};
struct FillTask : public tasking::detail::Task
{
  std::atomic<int> runs{0};
  FillTask() : enki::ITaskSet(1) {}
  void ExecuteRange(enki::TaskSetPartition tp, uint32_t) override
  {
    runs += (int)(tp.end - tp.start);
  }
};
std::atomic<bool> g_release{false};
std::atomic<int> g_started{0};
std::vector<std::unique_ptr<BlockTask>> g_blockers;
std::vector<std::unique_ptr<FillTask>> g_fillers;
bool g_filled = false;

std::string do_fillpipe(long k)
{
  int T = tasking::numTaskingThreads();
  if (T <= 0) {
    tasking::initTaskingSystem(-1);
    T = tasking::numTaskingThreads();
  }
  g_filled = true;
  for (int i = 1; i < T; ++i) {
    g_blockers.emplace_back(new BlockTask(&g_release, &g_started));
    tasking::detail::scheduleTaskInternal(g_blockers.back().get());
    // one at a time: the worker that takes it is then busy for good.  A worker can miss the wake-up
    // (enkiTS checks m_NumThreadsWaiting without a store-load fence; harmless for parallel_for, whose
    // caller runs the partitions itself) - queue one more 1-index set every 20 ms to wake it again.
    auto t0 = std::chrono::steady_clock::now();
    auto last = t0;
    while (g_started.load() < i) {
      std::this_thread::yield();
      auto now = std::chrono::steady_clock::now();
      if (now - last > std::chrono::milliseconds(20)) {
        last = now;
        g_fillers.emplace_back(new FillTask());
        tasking::detail::scheduleTaskInternal(g_fillers.back().get());
      }
      if (now - t0 > std::chrono::seconds(30))
        return "fill-timeout";
    }
  }
  for (long i = 0; i < k; ++i) {
    g_fillers.emplace_back(new FillTask());
    tasking::detail::scheduleTaskInternal(g_fillers.back().get());
  }
  return "ok";
}

std::string do_release()
{
  g_release = true;
  bool once = true;
  for (auto &b : g_blockers) {
    tasking::detail::waitInternal(b.get());
    once = once && b->runs.load() == 1;
  }
  for (auto &f : g_fillers) {
    tasking::detail::waitInternal(f.get());
    once = once && f->runs.load() == 1;
  }
  g_blockers.clear();
  g_fillers.clear();
  g_started = 0;
  g_release = false;
  g_filled = false;
  return std::string("fill_once=") + vh::bit(once);
}
#else
bool g_filled = false;
std::string do_fillpipe(long) { return "ok"; }
std::string do_release() { return "fill_once=1"; }
#endif

// ---------------------------------------------------------------- the pipe itself

struct PItem
{
  uint32_t id;
  uint32_t check;
};

std::string do_pipe(int readers, long n)
{
  typedef enki::LockLessMultiReadPipe<3, PItem> Pipe;
  std::unique_ptr<Pipe> pipe(new Pipe());
  std::vector<std::atomic<int>> claims((size_t)n);
  for (auto &c : claims)
    c = 0;
  std::atomic<long> consumed{0};
  std::atomic<int> torn{0}, spurious{0};
  std::atomic<bool> stop{false};
  auto take = [&](const PItem &it) {
    if (it.check != (it.id * 2654435761u ^ 0x5bd1e995u))
      torn = 1;
    else if (it.id >= (uint32_t)n)
      spurious = 1;
    else
      claims[it.id]++;
    consumed++;
  };
  std::vector<std::thread> ts;
  for (int r = 0; r < readers; ++r)
    ts.emplace_back([&]() {
      PItem it;
      while (!stop.load()) {
        if (pipe->ReaderTryReadBack(&it))
          take(it);
        else
          std::this_thread::yield();
      }
    });
  auto t0 = std::chrono::steady_clock::now();
  bool timeout = false;
  {
    // the writer: this thread
    uint32_t next = 0;
    PItem it;
    while (consumed.load() < n) {
      if (next < (uint32_t)n) {
        PItem w{next, next * 2654435761u ^ 0x5bd1e995u};
        if (pipe->WriterTryWriteFront(w))
          ++next;
        else if (pipe->WriterTryReadFront(&it))
          take(it);
        if ((next & 7) == 3 && pipe->WriterTryReadFront(&it))
          take(it);
      } else if (pipe->WriterTryReadFront(&it))
        take(it);
      if (std::chrono::steady_clock::now() - t0 > std::chrono::seconds(10)) {
        timeout = true;
        break;
      }
    }
  }
  stop = true;
  for (auto &t : ts)
    t.join();
  if (timeout)
    return "pipe-timeout";
  bool once = true, all = true;
  for (auto &c : claims) {
    once = once && c.load() <= 1;
    all = all && c.load() >= 1;
  }
  return std::string("claimed_once=") + vh::bit(once) + " all=" + vh::bit(all) + " intact=" + vh::bit(!torn.load() && !spurious.load());
}

#define C01_DISPATCH_WIDE(ty, CALL)              \
  do {                                           \
    if (ty == "i32") {                           \
      typedef int TT;                            \
      return CALL;                               \
    }                                            \
    if (ty == "u32") {                           \
      typedef unsigned TT;                       \
      return CALL;                               \
    }                                            \
    if (ty == "i64") {                           \
      typedef long TT;                           \
      return CALL;                               \
    }                                            \
    if (ty == "ll") {                            \
      typedef long long TT;                      \
      return CALL;                               \
    }                                            \
    if (ty == "ull") {                           \
      typedef unsigned long long TT;             \
      return CALL;                               \
    }                                            \
    if (ty == "sz") {                            \
      typedef size_t TT;                         \
      return CALL;                               \
    }                                            \
  } while (0)

#define C01_DISPATCH(ty, CALL)                   \
  do {                                           \
    if (ty == "u8") {                            \
      typedef unsigned char TT;                  \
      return CALL;                               \
    }                                            \
    if (ty == "i16") {                           \
      typedef short TT;                          \
      return CALL;                               \
    }                                            \
    C01_DISPATCH_WIDE(ty, CALL);                 \
  } while (0)

std::string step(const std::vector<std::string> &w)
{
  const std::string &op = w[0];
  if (op == "init") {
    tasking::initTaskingSystem((int)vh::to_ll(w[1]));
    return "ok";
  }
  if (op == "pfor") {
    long long n = vh::to_ll(w[2]);
    C01_DISPATCH(w[1], do_pfor<TT>(n, w[3]));
    return "bad-type";
  }
  if (op == "pforthrow") {
    long long n = vh::to_ll(w[2]), k = vh::to_ll(w[3]);
    C01_DISPATCH(w[1], do_pforthrow<TT>(n, k));
    return "bad-type";
  }
  if (op == "sfor") {
    long long n = vh::to_ll(w[2]);
    C01_DISPATCH(w[1], do_sfor<TT>(n));
    return "bad-type";
  }
  if (op == "pnest") {
    long long n = vh::to_ll(w[2]), m = vh::to_ll(w[4]);
    if (w[3] == "i32")
      C01_DISPATCH(w[1], (do_pnest<TT, int>(n, m)));
    if (w[3] == "sz")
      C01_DISPATCH(w[1], (do_pnest<TT, size_t>(n, m)));
    return "bad-type";
  }
  if (op == "pblocks") {
    long long bs = vh::to_ll(w[2]), n = vh::to_ll(w[3]);
#ifdef C01_NO_SMALL_BLOCKS
    // parallel_in_blocks_of does not compile for the 8/16-bit index types on this tree
    if (w[1] == "u8" || w[1] == "i16")
      return "compile-error";
    C01_DISPATCH_WIDE(w[1], do_pblocks<TT>(bs, n));
#else
    C01_DISPATCH(w[1], do_pblocks<TT>(bs, n));
#endif
    return "bad-type";
  }
  if (op == "pforeach")
    return do_pforeach(w[1], vh::to_ll(w[2]));
  if (op == "pforbig") {
    unsigned long long n = vh::to_ull(w[2]);
    if (w[1] == "ll")
      return do_pforbig<long long>(n);
    if (w[1] == "ull")
      return do_pforbig<unsigned long long>(n);
    if (w[1] == "sz")
      return do_pforbig<size_t>(n);
    if (w[1] == "i64")
      return do_pforbig<long>(n);
    return "bad-type";
  }
  if (op == "fillpipe")
    return do_fillpipe((long)vh::to_ll(w[1]));
  if (op == "release")
    return do_release();
  if (op == "pipe")
    return do_pipe((int)vh::to_ll(w[1]), (long)vh::to_ll(w[2]));
  return "bad-op";
}

int g_caseTimeout = 60;

int runCase(const std::vector<std::string> &lines)
{
  fflush(stdout);
  fflush(stderr);
  pid_t pid = fork();
  if (pid < 0)
    return 3;
  if (pid == 0) {
    prctl(PR_SET_PDEATHSIG, SIGKILL);
    for (auto &l : lines) {
      std::string out;
      try {
        out = step(vh::words(l));
      } catch (const std::exception &e) {
        out = std::string("uncaught:") + typeid(e).name();
      }
      vh::emit(out);
    }
    if (g_filled)
      do_release();  // never leave blocked workers behind: the scheduler's shutdown waits for them
    fflush(stdout);
    exit(0);  // normal exit: static destructors (scheduler shutdown) run and are observed too
  }
  int st = 0;
  auto t0 = std::chrono::steady_clock::now();
  for (;;) {
    pid_t r = waitpid(pid, &st, WNOHANG);
    if (r == pid)
      break;
    if (r < 0)
      return 3;
    long waited_ms =
        (long)std::chrono::duration_cast<std::chrono::milliseconds>(std::chrono::steady_clock::now() - t0).count();
    if (waited_ms >= g_caseTimeout * 1000L) {
      fprintf(stderr, "c01: case did not finish within %d s, killed\n", g_caseTimeout);
      kill(pid, SIGKILL);
      waitpid(pid, &st, 0);
      return 124;
    }
    usleep(waited_ms < 200 ? 500 : 5000);
  }
  if (WIFEXITED(st))
    return WEXITSTATUS(st);
  return 128 + (WIFSIGNALED(st) ? WTERMSIG(st) : 0);
}

// ---------------------------------------------------------------- trace mode

#ifdef RKCOMMON_TASKING_INTERNAL
struct TraceLog
{
  std::mutex m;
  std::vector<std::string> ev;
  int nextId = 0;
  int add(uint32_t size, uint32_t minr)
  {
    std::lock_guard<std::mutex> g(m);
    int id = nextId++;
    ev.push_back("A " + std::to_string(id) + " " + std::to_string(size) + " " + std::to_string(minr));
    return id;
  }
  void range(const char *k, int id, uint32_t th, uint32_t s, uint32_t e, const char *mode)
  {
    std::lock_guard<std::mutex> g(m);
    ev.push_back(std::string(k) + " " + std::to_string(id) + " " + std::to_string(th) + " " + std::to_string(s) + " " +
        std::to_string(e) + mode);
    if (ev.size() > 300000) {  // runaway: print what was observed so far and end the process
      printf("# trace %d\ntinit %u\n", traceNo, threads);
      for (size_t i = 0; i < 5000 && i < ev.size(); ++i)
        printf("%s\n", ev[i].c_str());
      printf("runaway\n");
      fflush(stdout);
      _exit(0);
    }
  }
  int traceNo = 0;
  unsigned threads = 0;
  void waited(int id)
  {
    std::lock_guard<std::mutex> g(m);
    ev.push_back("W " + std::to_string(id));
  }
};

thread_local int tl_adding = -1;  // id of the set whose AddTaskSetToPipe this thread is (directly) inside

struct TraceSet : public enki::ITaskSet
{
  TraceLog *log;
  enki::TaskScheduler *ts;
  int id = -1;
  uint32_t nestEvery, nestSize;
  std::atomic<bool> *blockUntil;
  std::atomic<int> *started;
  TraceSet(TraceLog *l, enki::TaskScheduler *t, uint32_t size, uint32_t minr, uint32_t ne, uint32_t ns,
      std::atomic<bool> *b = nullptr, std::atomic<int> *st = nullptr)
      : ITaskSet(size, minr), log(l), ts(t), nestEvery(ne), nestSize(ns), blockUntil(b), started(st)
  {
  }
  void launch()
  {
    id = log->add(m_SetSize, m_MinRange);
    int saved = tl_adding;
    tl_adding = id;
    ts->AddTaskSetToPipe(this);
    tl_adding = saved;
  }
  void wait()
  {
    ts->WaitforTask(this);
    log->waited(id);
  }
  void ExecuteRange(enki::TaskSetPartition tp, uint32_t th) override
  {
    // mode i: called from inside this thread's own AddTaskSetToPipe(this) (pipe-full branch of the
    // initial split); r: through TryRunTask
    int saved = tl_adding;
    log->range("X", id, th, tp.start, tp.end, saved == id ? " i" : " r");
    tl_adding = -1;
    if (blockUntil) {
      (*started)++;
      while (!blockUntil->load())
        std::this_thread::yield();
    }
    for (uint32_t i = tp.start; i < tp.end; ++i) {
      if (nestEvery && i % nestEvery == 0) {
        TraceSet inner(log, ts, nestSize, 1, 0, 0);
        inner.launch();
        inner.wait();
      } else if ((i * 2654435761u >> 9) % 128 == 0)
        spin_us(15);
    }
    log->range("F", id, th, tp.start, tp.end, "");
    tl_adding = saved;
  }
};

int traceMain()
{
  std::string line;
  int k = 0;
  while (std::getline(std::cin, line)) {
    auto w = vh::words(line);
    if (w.empty() || w[0] == "#")
      continue;
    if (w[0] != "enki" || w.size() < 7) {
      printf("# trace %d\nbad-op\n", k++);
      continue;
    }
    uint32_t T = (uint32_t)vh::to_ll(w[1]), S = (uint32_t)vh::to_ll(w[2]), MINR = (uint32_t)vh::to_ll(w[3]);
    long FILL = (long)vh::to_ll(w[4]);
    uint32_t NEST = (uint32_t)vh::to_ll(w[5]), M = (uint32_t)vh::to_ll(w[6]);
    TraceLog log;
    log.traceNo = k;
    log.threads = T;
    {
      enki::TaskScheduler ts;
      ts.Initialize(T);
      std::atomic<bool> release{false};
      std::atomic<int> started{0};
      std::vector<std::unique_ptr<TraceSet>> blockers, fillers;
      bool ok = true;
      if (FILL > 0) {
        for (uint32_t i = 1; i < T && ok; ++i) {
          blockers.emplace_back(new TraceSet(&log, &ts, 1, 1, 0, 0, &release, &started));
          blockers.back()->launch();
          auto t0 = std::chrono::steady_clock::now();
          auto last = t0;
          while (started.load() < (int)i) {
            std::this_thread::yield();
            auto now = std::chrono::steady_clock::now();
            if (now - last > std::chrono::milliseconds(20)) {  // see do_fillpipe: wake a worker that missed the signal
              last = now;
              fillers.emplace_back(new TraceSet(&log, &ts, 1, 1, 0, 0));
              fillers.back()->launch();
            }
            if (now - t0 > std::chrono::seconds(30)) {
              ok = false;
              break;
            }
          }
        }
        for (long i = 0; i < FILL && ok; ++i) {
          fillers.emplace_back(new TraceSet(&log, &ts, 1, 1, 0, 0));
          fillers.back()->launch();
        }
      }
      TraceSet mainSet(&log, &ts, S, MINR, NEST, M);
      if (ok) {
        mainSet.launch();
        mainSet.wait();
      }
      release = true;
      for (auto &b : blockers)
        b->wait();
      for (auto &f : fillers)
        f->wait();
      if (!ok)
        log.ev.push_back("fill-timeout");
    }
    printf("# trace %d\n", k++);
    printf("tinit %u\n", T);
    for (auto &e : log.ev)
      printf("%s\n", e.c_str());
    printf("tend\n");
    fflush(stdout);
  }
  return 0;
}
#endif

}  // namespace

int main(int argc, char **argv)
{
  if (argc > 1 && std::string(argv[1]) == "trace") {
#ifdef RKCOMMON_TASKING_INTERNAL
    return traceMain();
#else
    return 2;
#endif
  }
  if (argc > 1)
    g_caseTimeout = atoi(argv[1]);
  std::vector<std::string> input;
  std::string line;
  while (std::getline(std::cin, line))
    input.push_back(line);
  std::vector<std::string> cur;
  bool open = false;
  for (auto &l : input) {
    auto w = vh::words(l);
    if (w.empty())
      continue;
    if (w.size() >= 2 && w[0] == "#" && w[1] == "case") {
      if (open) {
        int rc = runCase(cur);
        if (rc != 0)
          return rc;
      }
      cur.clear();
      open = true;
      vh::emit(l);
      continue;
    }
    cur.push_back(l);
  }
  if (open || !cur.empty()) {
    int rc = runCase(cur);
    if (rc != 0)
      return rc;
  }
  return 0;
}
