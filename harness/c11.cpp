// C11 correspondence harness: ArrayView / OwnedArray / FixedArray / FixedArrayView / DataView of the
// real rkcommon headers, driven by the same op lines as the Lean model (lean/Driver/C11.lean).
// argv[1] in {u8, u32, r24} selects the element type (1 / 4 / 24 bytes). Elements carry a value
// 0..255 (the token), encoded redundantly so that a torn / uninitialised element prints as "?".
//
// Canonicalisation: no addresses are printed. data() is reported as (a) liveness of
// [data(), data()+size()) asked from ASan (__asan_region_is_poisoned, no crash), (b) the set of other
// wrapper slots / source buffer slots whose live range overlaps it, (c) the contents.
// A non-owning ArrayView made from an OwnedArray's storage is reported "dead" as soon as that
// OwnedArray had any structural operation (whether std::vector really reallocated is unspecified and
// not determined by the property); everything else about liveness is exact.
#define VH_ALLOC_FAULTS
#include "common.h"
#include <array>
#include <cstdint>
#include <cstring>
#include <memory>
#include <sanitizer/asan_interface.h>
#include "rkcommon/utility/AbstractArray.h"
#include "rkcommon/utility/ArrayView.h"
#include "rkcommon/utility/OwnedArray.h"
#include "rkcommon/utility/FixedArray.h"
#include "rkcommon/utility/FixedArrayView.h"
#include "rkcommon/utility/DataView.h"

using namespace rkcommon::utility;

struct R24 {
  uint64_t a, b, c;
};

template <typename T> struct Enc;
template <> struct Enc<uint8_t> {
  static uint8_t enc(unsigned v) { return (uint8_t)v; }
  static int dec(const uint8_t &x) { return x; }
};
template <> struct Enc<uint32_t> {
  static uint32_t enc(unsigned v) { v &= 255; return v | ((v ^ 0x5au) << 8) | (((v + 1) & 255u) << 16) | (0xa5u << 24); }
  static int dec(const uint32_t &x) { unsigned v = x & 255; return enc(v) == x ? (int)v : -1; }
};
template <> struct Enc<R24> {
  static R24 enc(unsigned v) { v &= 255; R24 r; r.a = v; r.b = (uint64_t)v * 1000003u + 7u; r.c = ~(uint64_t)v; return r; }
  static int dec(const R24 &x) { unsigned v = (unsigned)(x.a & 255); R24 e = enc(v); return (e.a == x.a && e.b == x.b && e.c == x.c) ? (int)v : -1; }
};

// element type whose k-th copy (construction or assignment) from now on throws (0 = never); moves never throw
struct TC {
  uint32_t v, chk;
  static int countdown;
  static void tick() { if (countdown > 0 && --countdown == 0) throw std::runtime_error("element copy"); }
  TC() : v(0), chk(0) {}
  TC(const TC &o) : v(o.v), chk(o.chk) { tick(); }
  TC(TC &&o) noexcept : v(o.v), chk(o.chk) {}
  TC &operator=(const TC &o) { tick(); v = o.v; chk = o.chk; return *this; }
  TC &operator=(TC &&o) noexcept { v = o.v; chk = o.chk; return *this; }
  // a destroyed element is recognisably dead: a copy made FROM it afterwards decodes as corrupt (-1)
  ~TC() { v = 0xdeadbeefu; chk = 0; }
};
int TC::countdown = 0;
template <> struct Enc<TC> {
  static TC enc(unsigned v) { v &= 255; TC r; r.v = v; r.chk = v * 2654435761u + 11u; return r; }
  static int dec(const TC &x) { unsigned v = x.v & 255; return (x.v == v && x.chk == v * 2654435761u + 11u) ? (int)v : -1; }
};
template <typename T> struct CopyArm { static bool can() { return false; } static void set(int) {} };
template <> struct CopyArm<TC> { static bool can() { return true; } static void set(int k) { TC::countdown = k; } };

static std::vector<unsigned> parseList(const std::string &s)
{
  std::vector<unsigned> out;
  if (s == "-") return out;
  size_t p = 0;
  while (p <= s.size()) {
    size_t q = s.find(',', p);
    if (q == std::string::npos) q = s.size();
    out.push_back((unsigned)std::stoul(s.substr(p, q - p)));
    p = q + 1;
  }
  return out;
}

static const int NW = 6, NB = 4, ND = 3;

template <typename T>
struct H {
  using AV = ArrayView<T>;
  using OA = OwnedArray<T>;
  using FA = FixedArray<T>;
  using FAV = FixedArrayView<T>;
  using AA = AbstractArray<T>;
  enum Kind { NONE, KAV, KOA, KFA, KFAV };

  struct Buf {
    std::unique_ptr<std::vector<T>> vec;
    std::unique_ptr<std::array<T, 3>> arr;
    bool live() const { return vec || arr; }
    T *data() { return vec ? vec->data() : arr->data(); }
    size_t size() const { return vec ? vec->size() : 3; }
    void clear() { vec.reset(); arr.reset(); }
  };
  struct Slot {
    Kind kind = NONE;
    std::unique_ptr<AV> av;
    std::unique_ptr<OA> oa;
    std::shared_ptr<FA> fa;
    std::unique_ptr<FAV> fav;
    int provOA = -1;  // AV only: made from the storage of OwnedArray slot provOA ...
    long provEpoch = 0;  // ... when that slot's epoch was provEpoch
    AA *base() const
    {
      switch (kind) {
      case KAV: return av.get();
      case KOA: return oa.get();
      case KFA: return fa.get();
      case KFAV: return fav.get();
      default: return nullptr;
      }
    }
  };
  struct Src {
    bool ok = false;
    T *ptr = nullptr;
    size_t cnt = 0;
    Buf *buf = nullptr;  // whole-buffer source (vec / arr constructors usable)
    bool whole = false;
    int provOA = -1;
    long provEpoch = 0;
  };
  struct DV {
    bool live = false;
    DataView<T> v;
    int bb = -1;
    long bbEpoch = 0;
    size_t base = 0, stride = 1;
    bool null = true;
  };

  Buf bufs[NB];
  Slot ws[NW];
  long epoch[NW];
  long clock = 0;
  std::unique_ptr<std::vector<uint8_t>> bbs[NB];
  long bbEpoch[NB];
  DV dvs[ND];

  void reset()
  {
    for (auto &s : ws) s = Slot();
    for (auto &b : bufs) b.clear();
    for (auto &e : epoch) e = ++clock;
    for (auto &b : bbs) b.reset();
    for (auto &e : bbEpoch) e = ++clock;
    for (auto &d : dvs) d = DV();
  }

  bool readable(const Slot &s) const
  {
    AA *a = s.base();
    if (!a) return false;
    size_t n = a->size();
    if (n == 0) return true;
    if (s.kind == KAV && s.provOA >= 0 && epoch[s.provOA] != s.provEpoch) return false;
    if (a->data() == nullptr) return false;
    return __asan_region_is_poisoned(a->data(), n * sizeof(T)) == nullptr;
  }

  static bool idx(const std::string &s, int lim, int &out)
  {
    try { out = std::stoi(s); } catch (...) { return false; }
    return out >= 0 && out < lim;
  }

  Src resolve(const std::string &tok)
  {
    Src r;
    if (tok == "null") { r.ok = true; return r; }
    if (tok.size() < 2) return r;
    char k = tok[0];
    size_t c1 = tok.find(':'), c2 = tok.find(':', c1 + 1);
    if (c1 == std::string::npos || c2 == std::string::npos) return r;
    int slot; size_t off, cnt;
    try { slot = std::stoi(tok.substr(1, c1 - 1)); off = std::stoul(tok.substr(c1 + 1, c2 - c1 - 1)); cnt = std::stoul(tok.substr(c2 + 1)); } catch (...) { return r; }
    if (k == 'b') {
      if (slot < 0 || slot >= NB || !bufs[slot].live()) return r;
      Buf &b = bufs[slot];
      if (off + cnt > b.size()) return r;
      r.ok = true; r.ptr = b.data() + off; r.cnt = cnt; r.buf = &b; r.whole = (off == 0 && cnt == b.size());
      return r;
    }
    if (k == 'w') {
      if (slot < 0 || slot >= NW) return r;
      Slot &s = ws[slot];
      if (!s.base() || !readable(s)) return r;
      if (off + cnt > s.base()->size()) return r;
      r.ok = true; r.ptr = s.base()->data() + off; r.cnt = cnt;
      if (s.kind == KOA) { r.provOA = slot; r.provEpoch = epoch[slot]; }
      else if (s.kind == KAV) { r.provOA = s.provOA; r.provEpoch = s.provEpoch; }
      return r;
    }
    return r;
  }

  void install(int i, Slot &&n)
  {
    Slot old = std::move(ws[i]);
    ws[i] = std::move(n);
    epoch[i] = ++clock;
    // 'old' is destroyed here, after the new object was built (it may have been its source)
  }

  static std::string showVal(const T &x)
  {
    int v = Enc<T>::dec(x);
    return v < 0 ? std::string("?") : std::to_string(v);
  }

  std::string obs(int i)
  {
    Slot &s = ws[i];
    AA *a = s.base();
    if (!a) return "none";
    static const char *names[] = {"none", "av", "oa", "fa", "fav"};
    size_t n = a->size();
    std::string out = std::string(names[s.kind]) + " n=" + std::to_string(n) + " b=" + vh::bit(bool(*a));
    if (!readable(s)) return out + " dead";
    // iteration: begin..end
    std::string vals;
    size_t it = 0;
    bool bad = false;
    for (T *p = a->begin(); p != a->end() && it < 100000; ++p, ++it) {
      if (it) vals += ",";
      vals += showVal(*p);
    }
    if (a->begin() != a->data() || a->cbegin() != a->begin() || a->cend() != a->end() || (T *)(*a) != a->data())
      bad = true;
    for (size_t k = 0; k < n; k++)
      if (&(*a)[k] != a->data() + k) bad = true;
    out += " [" + vals + "] it=" + std::to_string(it) + (bad ? "!" : "");
    // at(k) around size
    std::string at;
    for (size_t k = 0; k <= n + 2; k++) {
      size_t q = (k == n + 2) ? (size_t)1 << 63 : k;
      try { T &r = a->at(q); at += (&r == a->data() + q) ? 'o' : 'x'; } catch (const std::runtime_error &) { at += 't'; }
    }
    out += " at=" + at;
    // overlap classes
    std::string sh, src;
    if (n > 0) {
      const char *lo = (const char *)a->data(), *hi = lo + n * sizeof(T);
      for (int k = 0; k < NW; k++) {
        if (k == i) continue;
        AA *o = ws[k].base();
        if (!o || o->size() == 0 || !readable(ws[k])) continue;
        const char *l2 = (const char *)o->data(), *h2 = l2 + o->size() * sizeof(T);
        if (lo < h2 && l2 < hi) sh += std::to_string(k);
      }
      for (int k = 0; k < NB; k++) {
        if (!bufs[k].live() || bufs[k].size() == 0) continue;
        const char *l2 = (const char *)bufs[k].data(), *h2 = l2 + bufs[k].size() * sizeof(T);
        if (lo < h2 && l2 < hi) src += std::to_string(k);
      }
    }
    out += " sh=" + (sh.empty() ? "-" : sh) + " src=" + (src.empty() ? "-" : src);
    return out;
  }

  std::string step(const std::vector<std::string> &w)
  {
    const std::string &op = w[0];
    auto arg = [&](size_t k) -> const std::string & { static std::string e; return k < w.size() ? w[k] : e; };
    int i = 0, j = 0;
    // ---------------- source buffers
    if (op == "buf_new") {
      if (!idx(arg(1), NB, i)) return "bad-op";
      auto vals = parseList(arg(3));
      Buf nb;
      if (arg(2) == "arr" && vals.size() == 3) {
        nb.arr.reset(new std::array<T, 3>());
        for (int k = 0; k < 3; k++) (*nb.arr)[k] = Enc<T>::enc(vals[k]);
      } else {
        nb.vec.reset(new std::vector<T>());
        for (auto v : vals) nb.vec->push_back(Enc<T>::enc(v));
        nb.vec->shrink_to_fit();
      }
      bufs[i] = std::move(nb);
      return "ok";
    }
    if (op == "buf_free") {
      if (!idx(arg(1), NB, i)) return "bad-op";
      if (!bufs[i].live()) return "pre";
      bufs[i].clear();
      return "ok";
    }
    if (op == "buf_set") {
      if (!idx(arg(1), NB, i)) return "bad-op";
      size_t k = std::stoul(arg(2));
      if (!bufs[i].live() || k >= bufs[i].size()) return "pre";
      bufs[i].data()[k] = Enc<T>::enc((unsigned)std::stoul(arg(3)));
      return "ok";
    }
    // ---------------- DataView over byte buffers
    if (op == "bb_new") {
      if (!idx(arg(1), NB, i)) return "bad-op";
      auto vals = parseList(arg(2));
      std::unique_ptr<std::vector<uint8_t>> nb(new std::vector<uint8_t>());
      for (auto v : vals) nb->push_back((uint8_t)v);
      bbs[i] = std::move(nb);
      bbEpoch[i] = ++clock;
      return "ok";
    }
    if (op == "bb_free") {
      if (!idx(arg(1), NB, i)) return "bad-op";
      if (!bbs[i]) return "pre";
      bbs[i].reset();
      bbEpoch[i] = ++clock;
      return "ok";
    }
    if (op == "dv_default") {
      if (!idx(arg(1), ND, i)) return "bad-op";
      dvs[i] = DV();
      dvs[i].live = true;
      dvs[i].v = DataView<T>();
      return "ok";
    }
    if (op == "dv_new" || op == "dv_reset") {
      if (!idx(arg(1), ND, i) || !idx(arg(2), NB, j)) return "bad-op";
      size_t base = std::stoul(arg(3)), stride = std::stoul(arg(4));
      if (!bbs[j] || base > bbs[j]->size()) return "pre";
      if (op == "dv_reset" && !dvs[i].live) return "pre";
      const void *p = bbs[j]->data() + base;
      bool dflt = (stride == sizeof(T)) && arg(5) == "d";  // use the defaulted stride argument
      if (op == "dv_new") {
        dvs[i] = DV();
        dvs[i].live = true;
        dvs[i].v = dflt ? DataView<T>(p) : DataView<T>(p, stride);
      } else {
        if (dflt) dvs[i].v.reset(p); else dvs[i].v.reset(p, stride);
      }
      dvs[i].null = false; dvs[i].bb = j; dvs[i].bbEpoch = bbEpoch[j]; dvs[i].base = base; dvs[i].stride = stride;
      return "ok";
    }
    if (op == "dv_copy") {
      if (!idx(arg(1), ND, i) || !idx(arg(2), ND, j)) return "bad-op";
      if (!dvs[j].live) return "pre";
      DV n = dvs[j];
      n.v = DataView<T>(dvs[j].v);
      dvs[i] = n;
      return "ok";
    }
    if (op == "dv_read") {
      if (!idx(arg(1), ND, i)) return "bad-op";
      size_t k = std::stoul(arg(2));
      DV &d = dvs[i];
      if (std::stoul(arg(3)) != sizeof(T)) return "bad-op";
      if (!d.live || d.null || !bbs[d.bb] || bbEpoch[d.bb] != d.bbEpoch) return "pre";
      if (d.base + k * d.stride + sizeof(T) > bbs[d.bb]->size()) return "pre";
      const T &r = d.v[k];
      if ((const uint8_t *)&r != bbs[d.bb]->data() + d.base + k * d.stride) return "wrong-address";
      uint8_t raw[sizeof(T)];
      std::memcpy(raw, &r, sizeof(T));
      std::string out;
      for (size_t b = 0; b < sizeof(T); b++) { if (b) out += ","; out += std::to_string(raw[b]); }
      return out;
    }
    // ---------------- wrappers
    if (op == "obs") {
      if (!idx(arg(1), NW, i)) return "bad-op";
      return obs(i);
    }
    if (op == "destroy") {
      if (!idx(arg(1), NW, i)) return "bad-op";
      if (!ws[i].base()) return "pre";
      install(i, Slot());
      return "ok";
    }
    if (op == "wset") {
      if (!idx(arg(1), NW, i)) return "bad-op";
      size_t k = std::stoul(arg(2));
      Slot &s = ws[i];
      if (!s.base() || !readable(s) || k >= s.base()->size()) return "pre";
      if (arg(4) == "at") s.base()->at(k) = Enc<T>::enc((unsigned)std::stoul(arg(3)));
      else (*s.base())[k] = Enc<T>::enc((unsigned)std::stoul(arg(3)));
      return "ok";
    }
    if (op == "av_default" || op == "oa_default" || op == "fa_default" || op == "fav_default") {
      if (!idx(arg(1), NW, i)) return "bad-op";
      Slot n;
      if (op[0] == 'a') { n.kind = KAV; n.av.reset(new AV()); }
      else if (op[0] == 'o') { n.kind = KOA; n.oa.reset(new OA()); }
      else if (op == "fa_default") { n.kind = KFA; n.fa = std::make_shared<FA>(); }
      else { n.kind = KFAV; n.fav.reset(new FAV()); }
      install(i, std::move(n));
      return "ok";
    }
    if (op == "av_new" || op == "oa_new" || op == "fa_new") {
      if (!idx(arg(1), NW, i)) return "bad-op";
      Src s = resolve(arg(2));
      if (!s.ok) return "pre";
      const std::string &via = arg(3);
      bool useVec = via == "vec" && s.whole && s.buf->vec;
      bool useArr = via == "arr" && s.whole && s.buf->arr;
      Slot n;
      if (op == "av_new") {
        n.kind = KAV;
        n.av.reset(useVec ? new AV(*s.buf->vec) : useArr ? new AV(*s.buf->arr) : new AV(s.ptr, s.cnt));
        if (via == "mk" && !useVec && !useArr) *n.av = make_ArrayView(s.ptr, s.cnt);
        n.provOA = s.provOA; n.provEpoch = s.provEpoch;
      } else if (op == "oa_new") {
        n.kind = KOA;
        n.oa.reset(useVec ? new OA(*s.buf->vec) : useArr ? new OA(*s.buf->arr) : new OA(s.ptr, s.cnt));
      } else {
        n.kind = KFA;
        n.fa = useVec ? std::make_shared<FA>(*s.buf->vec) : useArr ? std::make_shared<FA>(*s.buf->arr) : std::make_shared<FA>(s.ptr, s.cnt);
      }
      install(i, std::move(n));
      return "ok";
    }
    if (op == "fa_size") {
      if (!idx(arg(1), NW, i)) return "bad-op";
      auto vals = parseList(arg(2));
      Slot n;
      n.kind = KFA;
      n.fa = std::make_shared<FA>(vals.size());
      if (n.fa->size() != vals.size()) return "size-mismatch";
      for (size_t k = 0; k < vals.size(); k++) n.fa->at(k) = Enc<T>::enc(vals[k]);
      install(i, std::move(n));
      return "ok";
    }
    if (op == "fav_new") {
      if (!idx(arg(1), NW, i) || !idx(arg(2), NW, j)) return "bad-op";
      size_t off = std::stoul(arg(3)), cnt = std::stoul(arg(4));
      if (ws[j].kind != KFA || off + cnt > ws[j].fa->size()) return "pre";
      Slot n;
      n.kind = KFAV;
      n.fav.reset(new FAV(ws[j].fa, off, cnt));
      install(i, std::move(n));
      return "ok";
    }
    if (op == "av_reset" || op == "oa_reset") {
      if (!idx(arg(1), NW, i)) return "bad-op";
      if (op[0] == 'a') { if (ws[i].kind != KAV) return "pre"; ws[i].av->reset(); ws[i].provOA = -1; }
      else { if (ws[i].kind != KOA) return "pre"; ws[i].oa->reset(); epoch[i] = ++clock; }
      return "ok";
    }
    if (op == "av_set" || op == "oa_assign" || op == "fa_assign") {
      if (!idx(arg(1), NW, i)) return "bad-op";
      Kind want = op[0] == 'a' ? KAV : op[0] == 'o' ? KOA : KFA;
      if (ws[i].kind != want) return "pre";
      Src s = resolve(arg(2));
      if (!s.ok) return "pre";
      const std::string &via = arg(3);
      bool useVec = via == "vec" && s.whole && s.buf->vec;
      bool useArr = via == "arr" && s.whole && s.buf->arr;
      if (want == KAV) {
        if (useVec) *ws[i].av = *s.buf->vec; else if (useArr) *ws[i].av = *s.buf->arr; else ws[i].av->reset(s.ptr, s.cnt);
        ws[i].provOA = s.provOA; ws[i].provEpoch = s.provEpoch;
      } else if (want == KOA) {
        if (useVec) *ws[i].oa = *s.buf->vec; else if (useArr) *ws[i].oa = *s.buf->arr; else ws[i].oa->reset(s.ptr, s.cnt);
        epoch[i] = ++clock;
      } else {
        if (useVec) *ws[i].fa = *s.buf->vec;
        else if (useArr) *ws[i].fa = *s.buf->arr;
        else if (s.cnt == 3 && via == "arr") { std::array<T, 3> tmp; std::memcpy(tmp.data(), s.ptr, 3 * sizeof(T)); *ws[i].fa = tmp; }
        else { std::vector<T> tmp(s.ptr, s.ptr + s.cnt); *ws[i].fa = tmp; }
        epoch[i] = ++clock;
      }
      return "ok";
    }
    if (op == "fa_assign_fail1" || op == "fa_assign_fail2") {
      // FixedArray assignment during which the first (the element block) or the second (the shared_ptr control block)
      // allocation fails: std::bad_alloc, and the array is still the valid array it was
      if (!idx(arg(1), NW, i)) return "bad-op";
      if (ws[i].kind != KFA) return "pre";
      Src s = resolve(arg(2));
      if (!s.ok) return "pre";
      std::vector<T> tmp(s.ptr, s.ptr + s.cnt);
      bool threw = false;
      vh::failAllocIn = op.back() == '1' ? 1 : 2;
      try { *ws[i].fa = tmp; } catch (const std::bad_alloc &) { threw = true; }
      vh::failAllocIn = 0;
      if (!threw) { epoch[i] = ++clock; return "nofail"; }
      return "bad_alloc";
    }
    if (op == "oa_resize") {
      if (!idx(arg(1), NW, i)) return "bad-op";
      if (ws[i].kind != KOA) return "pre";
      size_t n = std::stoul(arg(2));
      ws[i].oa->resize(n, Enc<T>::enc((unsigned)std::stoul(arg(3))));
      epoch[i] = ++clock;
      return "ok";
    }
    if (op == "oa_reset_throw") {
      // reset(ptr, n) (assignment from a range) while the k-th element copy throws, k = 1, 2, ... until it goes through:
      // every failed attempt must leave the array as it was
      if (!idx(arg(1), NW, i)) return "bad-op";
      if (ws[i].kind != KOA) return "pre";
      Src s = resolve(arg(2));
      if (!s.ok) return "pre";
      if (CopyArm<T>::can()) {
        for (int k = 1; k <= 64; k++) {
          std::string before = obs(i);
          bool threw = false;
          CopyArm<T>::set(k);
          try { ws[i].oa->reset(s.ptr, s.cnt); } catch (const std::runtime_error &) { threw = true; }
          CopyArm<T>::set(0);
          if (!threw) { epoch[i] = ++clock; return "ok"; }
          std::string after = obs(i);
          if (after != before) return "changed by the reset that threw at copy " + std::to_string(k) + ": " + after;
        }
        return "still throwing";
      }
      ws[i].oa->reset(s.ptr, s.cnt);
      epoch[i] = ++clock;
      return "ok";
    }
    if (op == "oa_resize_self") {
      // the fill value is a reference to an element of the array being resized (legal: val is taken by const reference)
      if (!idx(arg(1), NW, i)) return "bad-op";
      if (ws[i].kind != KOA) return "pre";
      size_t n = std::stoul(arg(2)), k = std::stoul(arg(3));
      if (k >= ws[i].oa->size()) return "pre";
      ws[i].oa->resize(n, (*ws[i].oa)[k]);
      epoch[i] = ++clock;
      return "ok";
    }
    if (op == "oa_resize_throw") {
      // resize while the k-th element copy throws, k = 1, 2, ... until the resize goes through: every failed attempt
      // must leave the array as it was (size, contents, and data() still the live storage)
      if (!idx(arg(1), NW, i)) return "bad-op";
      if (ws[i].kind != KOA) return "pre";
      size_t n = std::stoul(arg(2));
      const T val = Enc<T>::enc((unsigned)std::stoul(arg(3)));
      if (CopyArm<T>::can()) {
        for (int k = 1; k <= 64; k++) {
          std::string before = obs(i);
          bool threw = false;
          CopyArm<T>::set(k);
          try { ws[i].oa->resize(n, val); } catch (const std::runtime_error &) { threw = true; }
          CopyArm<T>::set(0);
          if (!threw) { epoch[i] = ++clock; return "ok"; }
          std::string after = obs(i);
          if (after != before) return "changed by the resize that threw at copy " + std::to_string(k) + ": " + after;
        }
        return "still throwing";
      }
      ws[i].oa->resize(n, val);
      epoch[i] = ++clock;
      return "ok";
    }
    if (op == "copy") {  // construct slot i as a copy of / by moving from slot j
      if (!idx(arg(1), NW, i) || !idx(arg(2), NW, j)) return "bad-op";
      Slot &s = ws[j];
      if (!s.base()) return "pre";
      bool mv = arg(3) == "move";
      Slot n;
      n.kind = s.kind;
      switch (s.kind) {
      case KAV: n.av.reset(mv ? new AV(std::move(*s.av)) : new AV(*s.av)); n.provOA = s.provOA; n.provEpoch = s.provEpoch; break;
      case KOA: n.oa.reset(mv ? new OA(std::move(*s.oa)) : new OA(*s.oa)); if (mv) epoch[j] = ++clock; break;
      case KFA: n.fa = mv ? std::make_shared<FA>(std::move(*s.fa)) : std::make_shared<FA>(*s.fa); break;
      case KFAV: n.fav.reset(mv ? new FAV(std::move(*s.fav)) : new FAV(*s.fav)); break;
      default: break;
      }
      install(i, std::move(n));
      return "ok";
    }
    if (op == "assign") {  // *slot i = *slot j  (copy or move assignment)
      if (!idx(arg(1), NW, i) || !idx(arg(2), NW, j)) return "bad-op";
      Slot &d = ws[i], &s = ws[j];
      if (!s.base() || d.kind != s.kind) return "pre";
      bool mv = arg(3) == "move";
      switch (s.kind) {
      case KAV: if (mv) *d.av = std::move(*s.av); else *d.av = *s.av; d.provOA = s.provOA; d.provEpoch = s.provEpoch; break;
      case KOA:
        if (mv) *d.oa = std::move(*s.oa); else *d.oa = *s.oa;
        if (i != j) { epoch[i] = ++clock; if (mv) epoch[j] = ++clock; }
        break;
      case KFA: if (mv) *d.fa = std::move(*s.fa); else *d.fa = *s.fa; break;
      case KFAV: if (mv) *d.fav = std::move(*s.fav); else *d.fav = *s.fav; break;
      default: break;
      }
      return "ok";
    }
    return "bad-op";
  }
};

template <typename T>
int runTyped()
{
  std::unique_ptr<H<T>> h(new H<T>());
  h->reset();
  return vh::run([&]() { h->reset(); }, [&](const std::vector<std::string> &w) { return h->step(w); });
}

int main(int argc, char **argv)
{
  std::string mode = argc > 1 ? argv[1] : "u8";
  if (mode == "u8") return runTyped<uint8_t>();
  if (mode == "u32") return runTyped<uint32_t>();
  if (mode == "r24") return runTyped<R24>();
  if (mode == "tc") return runTyped<TC>();
  return 2;
}
