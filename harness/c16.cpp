// C16 correspondence harness: rkcommon::xml::readXML on a file whose bytes are given in hex,
// driven by the same op lines as the Lean model (lean/Driver/C16.lean).
//   parse <hex | ->   ->  "ok[<tree>;...]"  |  "err:runtime_error"  |  "err:other:<type>"
// <tree> = N<name>{<key>=<value>,...}C<content>[<tree>;...]   (all strings in hex; properties in the
// std::map's (sorted) order; children in document order).
// argv[1] = directory for the temporary input file (under /verif/.cache); a sub-directory per process.
// A sanitizer report / signal / the per-op CPU-time limit kills the process: the runner attributes that to the case.
#include "common.h"
#include <dirent.h>
#include <signal.h>
#include <sys/stat.h>
#include <sys/time.h>
#include <sys/types.h>
#include <unistd.h>
#include <typeinfo>
#include "rkcommon/xml/XML.h"

using namespace rkcommon;

static std::string hexOf(const std::string &s)
{
  static const char *d = "0123456789abcdef";
  std::string o;
  for (unsigned char c : s) {
    o += d[c >> 4];
    o += d[c & 15];
  }
  return o;
}

static bool unhex(const std::string &h, std::string &out)
{
  if (h == "-")
    return true;
  if (h.size() % 2)
    return false;
  auto v = [](char c) -> int {
    if (c >= '0' && c <= '9') return c - '0';
    if (c >= 'a' && c <= 'f') return c - 'a' + 10;
    return -1;
  };
  for (size_t i = 0; i < h.size(); i += 2) {
    int a = v(h[i]), b = v(h[i + 1]);
    if (a < 0 || b < 0)
      return false;
    out += (char)(a * 16 + b);
  }
  return true;
}

static void showNode(const xml::Node &n, std::string &o)
{
  o += "N" + hexOf(n.name) + "{";
  bool first = true;
  for (auto &kv : n.properties) {
    if (!first) o += ",";
    first = false;
    o += hexOf(kv.first) + "=" + hexOf(kv.second);
  }
  o += "}C" + hexOf(n.content) + "[";
  first = true;
  for (auto &c : n.child) {
    if (!first) o += ";";
    first = false;
    showNode(c, o);
  }
  o += "]";
}

static std::string g_dir, g_file;

static void cleanStale(const std::string &root)
{
  DIR *d = opendir(root.c_str());
  if (!d) return;
  while (dirent *e = readdir(d)) {
    std::string n = e->d_name;
    if (n.size() < 2 || n[0] != 'p') continue;
    long pid = atol(n.c_str() + 1);
    if (pid <= 0 || kill((pid_t)pid, 0) == 0) continue;  // still alive (or not ours to judge)
    std::string sub = root + "/" + n;
    unlink((sub + "/in.xml").c_str());
    rmdir(sub.c_str());
  }
  closedir(d);
}

struct NullBuf : std::streambuf {
  int overflow(int c) override { return c; }
};

int main(int argc, char **argv)
{
  std::string root = argc > 1 ? argv[1] : ".";
  mkdir(root.c_str(), 0777);
  cleanStale(root);
  g_dir = root + "/p" + std::to_string((long)getpid());
  mkdir(g_dir.c_str(), 0777);
  g_file = g_dir + "/in.xml";

  int rc = vh::run(
      []() {},
      [&](const std::vector<std::string> &w) -> std::string {
        // "gen <hex> <expected>": the expected tree is checked on the model side only
        if (!((w.size() == 2 && w[0] == "parse") || (w.size() == 3 && w[0] == "gen")))
          return "bad-op";
        std::string bytes;
        if (!unhex(w[1], bytes))
          return "bad-op";
        FILE *f = fopen(g_file.c_str(), "wb");
        if (!f)
          return "harness-io-error";
        if (!bytes.empty() && fwrite(bytes.data(), 1, bytes.size(), f) != bytes.size()) {
          fclose(f);
          return "harness-io-error";
        }
        fclose(f);
        // parseNode prints a warning on std::cout for a file that ends inside an open node
        NullBuf nb;
        std::streambuf *old = std::cout.rdbuf(&nb);
        std::string out;
        // "never hangs": a parse of a few hundred bytes that burns 4 s of CPU is a hang; the timer counts
        // this process's CPU time (not wall time), so machine load cannot trigger it; SIGPROF kills us
        struct itimerval tv = {{0, 0}, {4, 0}}, off = {{0, 0}, {0, 0}};
        setitimer(ITIMER_PROF, &tv, nullptr);
        try {
          xml::XMLDoc doc = xml::readXML(g_file);
          out = "ok[";
          bool first = true;
          for (auto &c : doc.child) {
            if (!first) out += ";";
            first = false;
            showNode(c, out);
          }
          out += "]";
          if (!doc.name.empty() || !doc.content.empty() || !doc.properties.empty())
            out += " doc-node-not-empty";
        } catch (const std::runtime_error &) {
          out = "err:runtime_error";
        } catch (const std::exception &e) {
          out = std::string("err:other:") + typeid(e).name();
        } catch (...) {
          out = "err:other:unknown";
        }
        setitimer(ITIMER_PROF, &off, nullptr);
        std::cout.rdbuf(old);
        return out;
      });
  unlink(g_file.c_str());
  rmdir(g_dir.c_str());
  return rc;
}
