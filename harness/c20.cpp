// C20 correspondence harness: image writers (rkcommon/utility/SaveImage.h) and the trace
// recorder (rkcommon/tracing/Tracing.{h,cpp}), driven by the same op lines as the Lean model
// (lean/Driver/C20.lean).  argv[1] = directory for scratch files (a pid-unique sub-directory
// is created there and removed at exit).
//
// Image ops    img <fmt> <w> <h> <hex word>*      fmt in ppm pgm pf pf3 pf3a pf4
//   The words are the 32-bit words of the pixel array in memory order (uint32_t pixels for
//   ppm/pgm, float bit patterns for the PFM variants: w*h*{1,1,1,3,4,4} words).  They are copied
//   into an *exact-size* malloc'ed buffer (ASan sees every read outside it), the real writer is
//   called, the file is decoded by the reader below (written from the Netpbm/PFM format
//   descriptions, shares nothing with SaveImage.h) and the observation is
//       <magic> <w> <h> <maxval | le | be> : <decoded samples in file order, hex>
//   Floats are never printed as text, only as bit patterns.
//
// Trace ops    thr <k> <program>      buffered, prints "ok"
//              save <procname|->      runs the buffered programs on one std::thread per k
//                                     (all alive until every one has finished, so ids are distinct),
//                                     joins, saveLog(file, procname), parses the file with the strict
//                                     JSON parser below, prints the canonical per-thread event lists
//   program tokens: B.<name>.<cat|->  E  M.<name>.<cat|->  C.<name>.<value>  N.<threadname>
//                   Z                 the thread sleeps 150 us (not an API call; makes begin/end
//                                     intervals long enough for the derived cpuUtilization counters)
//                   *<n>[ ... ]       repeat group (not nested)
//   The tracing state is global (static recorder, thread_local list pointers, no reset), so every
//   `save` runs in a forked child; the parent only relays the child's observation line.
//   Timestamps, pid, tid numbering and the derived "cpuUtilization" counters depend on the run
//   and are canonicalised away after being checked (ts monotone per thread, builtin counter
//   carries the ts of the matching begin, pid = getpid()).
#include "common.h"
#include <pthread.h>
#include <functional>

#include <cctype>
#include <chrono>
#include <condition_variable>
#include <cstdint>
#include <cstring>
#include <fstream>
#include <map>
#include <memory>
#include <mutex>
#include <sstream>
#include <atomic>
#include <thread>

#include <dirent.h>
#include <sys/stat.h>
#include <sys/types.h>
#include <sys/wait.h>
#include <unistd.h>

#include "rkcommon/utility/SaveImage.h"
#include "rkcommon/tracing/Tracing.h"

using namespace rkcommon;

static std::string g_dir;

static std::string hex(uint64_t v, int digits)
{
  static const char *d = "0123456789abcdef";
  std::string s(digits, '0');
  for (int i = digits - 1; i >= 0; --i) {
    s[i] = d[v & 15];
    v >>= 4;
  }
  return s;
}

static bool readFile(const std::string &fn, std::string &out)
{
  std::ifstream f(fn.c_str(), std::ios::binary);
  if (!f.is_open())
    return false;
  out.assign(std::istreambuf_iterator<char>(f), std::istreambuf_iterator<char>());
  return true;
}

// ---------------------------------------------------------------------------------------------
// independent Netpbm / PFM reader

static bool isWs(unsigned char c) { return c == ' ' || c == '\t' || c == '\n' || c == '\r'; }

static bool headerToken(const std::string &b, size_t &pos, std::string &tok)
{
  while (pos < b.size() && isWs(b[pos]))
    ++pos;
  size_t s = pos;
  while (pos < b.size() && !isWs(b[pos]))
    ++pos;
  tok = b.substr(s, pos - s);
  return !tok.empty();
}

static bool strictDec(const std::string &t, unsigned long long &v)
{
  if (t.empty() || t.size() > 12)
    return false;
  v = 0;
  for (char c : t) {
    if (c < '0' || c > '9')
      return false;
    v = v * 10 + (c - '0');
  }
  return true;
}

static std::string decodeImage(const std::string &b)
{
  size_t pos = 0;
  std::string magic, tw, th, third;
  if (!headerToken(b, pos, magic) || !headerToken(b, pos, tw) || !headerToken(b, pos, th)
      || !headerToken(b, pos, third))
    return "malformed:header";
  if (pos >= b.size() || !isWs(b[pos]))
    return "malformed:header-end";
  ++pos;  // exactly one white-space character ends the header
  int ncomp = 0, bytes = 0;
  if (magic == "P6") { ncomp = 3; bytes = 1; }
  else if (magic == "P5") { ncomp = 1; bytes = 1; }
  else if (magic == "Pf") { ncomp = 1; bytes = 4; }
  else if (magic == "PF") { ncomp = 3; bytes = 4; }
  else if (magic == "PF4") { ncomp = 4; bytes = 4; }
  else return "malformed:magic";
  unsigned long long w, h;
  if (!strictDec(tw, w) || !strictDec(th, h))
    return "malformed:size";
  std::string thirdCanon;
  bool le = true;
  if (bytes == 1) {
    unsigned long long mv;
    if (!strictDec(third, mv) || mv < 1 || mv > 255)
      return "malformed:maxval";
    thirdCanon = std::to_string(mv);
  } else {
    // scale factor: sign gives the byte order, magnitude must be a plain decimal number
    size_t i = 0;
    if (third[0] == '-') { le = true; i = 1; } else { le = false; }
    bool digit = false;
    for (; i < third.size(); ++i) {
      if (third[i] >= '0' && third[i] <= '9') digit = true;
      else if (third[i] != '.') return "malformed:scale";
    }
    if (!digit)
      return "malformed:scale";
    thirdCanon = le ? "le" : "be";
  }
  unsigned long long need = w * h * ncomp * bytes;
  if (b.size() - pos < need)
    return "malformed:short";
  std::string out = magic + " " + std::to_string(w) + " " + std::to_string(h) + " " + thirdCanon + " :";
  const unsigned char *p = (const unsigned char *)b.data() + pos;
  for (unsigned long long i = 0; i < w * h * ncomp; ++i) {
    out += ' ';
    if (bytes == 1) {
      out += hex(p[i], 2);
    } else {
      uint32_t v = 0;
      for (int k = 0; k < 4; ++k)
        v |= (uint32_t)p[4 * i + k] << (le ? 8 * k : 8 * (3 - k));
      out += hex(v, 8);
    }
  }
  return out;
}

// The writers run on a thread with a 1 MiB stack: their stack use must not grow with the image (a row buffer is
// fine, a whole image is not), and "all sizes" includes images larger than a thread's stack.
struct SmallStackJob { std::function<void()> f; };
static void *smallStackMain(void *p) { ((SmallStackJob *)p)->f(); return nullptr; }
static void runOnSmallStack(std::function<void()> f)
{
  SmallStackJob job{std::move(f)};
  pthread_attr_t at;
  pthread_attr_init(&at);
  pthread_attr_setstacksize(&at, 1u << 20);
  pthread_t th;
  if (pthread_create(&th, &at, smallStackMain, &job) != 0) { job.f(); pthread_attr_destroy(&at); return; }
  pthread_join(th, nullptr);
  pthread_attr_destroy(&at);
}

static std::string writeAndDecode(const std::string &fmt, long sx, long sy, uint32_t *buf, const std::string &suffix = "")
{
  std::string fn = g_dir + "/img" + suffix;
  remove(fn.c_str());
  // (the size of the padded vec3fa is deliberately not asserted here: the PFM writer for it takes 4 words per pixel,
  // which is what the harness supplies; a layout that disagrees with the writer shows up in the decoded pixels)
  static_assert(sizeof(math::vec3f) == 12 && sizeof(math::vec4f) == 16, "pixel struct layout");
  std::string res;
  runOnSmallStack([&] {
    try {
      if (fmt == "ppm") utility::writePPM(fn, (int)sx, (int)sy, buf);
      else if (fmt == "pgm") utility::writePGM(fn, (int)sx, (int)sy, buf);
      else if (fmt == "pf") utility::writePFM<float>(fn, (int)sx, (int)sy, (const float *)buf);
      else if (fmt == "pf3") utility::writePFM<math::vec3f>(fn, (int)sx, (int)sy, (const math::vec3f *)buf);
      else if (fmt == "pf3a") utility::writePFM<math::vec3fa>(fn, (int)sx, (int)sy, (const math::vec3fa *)buf);
      else if (fmt == "pf4") utility::writePFM<math::vec4f>(fn, (int)sx, (int)sy, (const math::vec4f *)buf);
      else res = "bad-op";
    } catch (const std::exception &) {
      res = "throw";
    }
  });
  free(buf);
  if (!res.empty())
    return res;
  std::string bytes;
  if (!readFile(fn, bytes))
    return "malformed:no-file";
  return decodeImage(bytes);
}

static std::string opImage(const std::vector<std::string> &w)
{
  if (w.size() < 4)
    return "bad-op";
  const std::string &fmt = w[1];
  long sx = vh::to_ll(w[2]), sy = vh::to_ll(w[3]);
  int wordsPerPixel = (fmt == "pf3") ? 3 : (fmt == "pf3a" || fmt == "pf4") ? 4 : 1;
  size_t n = (size_t)sx * sy * wordsPerPixel;
  if (sx < 1 || sy < 1 || w.size() != 4 + n)
    return "bad-op";
  // exact-size heap buffer
  uint32_t *buf = (uint32_t *)malloc(n * 4);
  for (size_t i = 0; i < n; ++i)
    buf[i] = (uint32_t)std::stoul(w[4 + i], nullptr, 16);
  return writeAndDecode(fmt, sx, sy, buf);
}

// imgpat <fmt> <w> <h> <seed>: a large image whose words follow a formula known to both sides,
// word i = ((seed + i) * 2654435761) mod 2^32; observed: FNV-1a digest and length of the decoded text
static std::string opImagePattern(const std::vector<std::string> &w)
{
  if (w.size() != 5)
    return "bad-op";
  const std::string &fmt = w[1];
  long sx = vh::to_ll(w[2]), sy = vh::to_ll(w[3]);
  unsigned long long seed = vh::to_ull(w[4]);
  int wordsPerPixel = (fmt == "pf3") ? 3 : (fmt == "pf3a" || fmt == "pf4") ? 4 : 1;
  size_t n = (size_t)sx * sy * wordsPerPixel;
  if (sx < 1 || sy < 1 || n > (64u << 20))
    return "bad-op";
  uint32_t *buf = (uint32_t *)malloc(n * 4);
  for (size_t i = 0; i < n; ++i)
    buf[i] = (uint32_t)(((seed + i) * 2654435761ull) & 0xffffffffull);
  std::string d = writeAndDecode(fmt, sx, sy, buf);
  unsigned long long h = 14695981039346656037ull;
  for (unsigned char ch : d) { h ^= ch; h *= 1099511628211ull; }
  char hb[32];
  snprintf(hb, sizeof hb, "%016llx", h);
  return std::string("digest=") + hb + " len=" + std::to_string(d.size()) + " head=" + d.substr(0, 24);
}

// imgmt <fmt> <w> <h> <seed> <T> <R>: T threads write T different pattern images (seed + t, width w + 37 t) of the same
// format to T different files at the same time, R times each without pausing. First every image is written once on
// its own (decoded text digest: compared with the model; raw file digest: the reference for the concurrent phase);
// observed: those T digests and the number of concurrent writes whose file differs from the thread's reference.
static uint32_t *patternWords(const std::string &fmt, long sx, long sy, unsigned long long seed, size_t &n)
{
  int wordsPerPixel = (fmt == "pf3") ? 3 : (fmt == "pf3a" || fmt == "pf4") ? 4 : 1;
  n = (size_t)sx * sy * wordsPerPixel;
  uint32_t *buf = (uint32_t *)malloc(n * 4);
  for (size_t i = 0; i < n; ++i)
    buf[i] = (uint32_t)(((seed + i) * 2654435761ull) & 0xffffffffull);
  return buf;
}
static unsigned long long fnv(const std::string &d)
{
  unsigned long long h = 14695981039346656037ull;
  for (unsigned char ch : d) { h ^= ch; h *= 1099511628211ull; }
  return h;
}
static void writeRaw(const std::string &fmt, const std::string &fn, long sx, long sy, const uint32_t *buf)
{
  if (fmt == "ppm") utility::writePPM(fn, (int)sx, (int)sy, buf);
  else if (fmt == "pgm") utility::writePGM(fn, (int)sx, (int)sy, buf);
  else if (fmt == "pf") utility::writePFM<float>(fn, (int)sx, (int)sy, (const float *)buf);
  else if (fmt == "pf3") utility::writePFM<math::vec3f>(fn, (int)sx, (int)sy, (const math::vec3f *)buf);
  else if (fmt == "pf3a") utility::writePFM<math::vec3fa>(fn, (int)sx, (int)sy, (const math::vec3fa *)buf);
  else utility::writePFM<math::vec4f>(fn, (int)sx, (int)sy, (const math::vec4f *)buf);
}
static std::string opImageThreads(const std::vector<std::string> &w)
{
  if (w.size() != 7)
    return "bad-op";
  const std::string &fmt = w[1];
  long sx = vh::to_ll(w[2]), sy = vh::to_ll(w[3]);
  unsigned long long seed = vh::to_ull(w[4]);
  int T = (int)vh::to_ll(w[5]), R = (int)vh::to_ll(w[6]);
  if (sx < 1 || sy < 1 || T < 1 || T > 8 || R < 1 || R > 256 || (size_t)(sx + 37 * 8) * sy > (1u << 20)
      || !(fmt == "ppm" || fmt == "pgm" || fmt == "pf" || fmt == "pf3" || fmt == "pf3a" || fmt == "pf4"))
    return "bad-op";
  std::vector<uint32_t *> img(T);
  std::vector<unsigned long long> ref(T);
  std::string out;
  for (int t = 0; t < T; ++t) {
    size_t n;
    long wt = sx + 37 * t;
    img[t] = patternWords(fmt, wt, sy, seed + (unsigned long long)t, n);
    uint32_t *copy = (uint32_t *)malloc(n * 4);
    memcpy(copy, img[t], n * 4);
    std::string d = writeAndDecode(fmt, wt, sy, copy, "_t" + std::to_string(t));   // frees copy
    char hb[32];
    snprintf(hb, sizeof hb, "%016llx", fnv(d));
    out += (t ? "|" : "") + std::string(hb);
    std::string bytes;
    readFile(g_dir + "/img_t" + std::to_string(t), bytes);
    ref[t] = fnv(bytes);
  }
  std::atomic<int> ready{0}, bad{0};
  std::vector<std::thread> th;
  for (int t = 0; t < T; ++t)
    th.emplace_back([&, t] {
      const std::string fn = g_dir + "/img_t" + std::to_string(t);
      ready++;
      while (ready.load() < T) {}
      for (int r = 0; r < R; ++r) {
        writeRaw(fmt, fn, sx + 37 * t, sy, img[t]);
        std::string bytes;
        if (!readFile(fn, bytes) || fnv(bytes) != ref[t]) bad++;
      }
    });
  for (auto &x : th) x.join();
  for (int t = 0; t < T; ++t) free(img[t]);
  return out + " differing-concurrent-writes=" + std::to_string(bad.load());
}

// ---------------------------------------------------------------------------------------------
// strict JSON (RFC 8259) parser

struct JV
{
  enum Kind { NUL, BOOL, NUM, STR, ARR, OBJ } kind = NUL;
  std::string text;  // NUM: literal text, STR: decoded value
  std::vector<JV> items;
  std::vector<std::pair<std::string, JV>> members;
  const JV *get(const std::string &k) const
  {
    const JV *r = nullptr;
    for (auto &m : members)
      if (m.first == k) {
        if (r) return nullptr;  // duplicate keys are not accepted
        r = &m.second;
      }
    return r;
  }
};

struct JParser
{
  const std::string &s;
  size_t p = 0;
  std::string err;
  explicit JParser(const std::string &str) : s(str) {}
  void ws()
  {
    while (p < s.size() && (s[p] == ' ' || s[p] == '\t' || s[p] == '\n' || s[p] == '\r'))
      ++p;
  }
  bool fail(const std::string &e)
  {
    if (err.empty())
      err = e + "@" + std::to_string(p);
    return false;
  }
  bool lit(const char *l)
  {
    size_t n = strlen(l);
    if (s.compare(p, n, l) != 0)
      return fail("literal");
    p += n;
    return true;
  }
  bool string(std::string &out)
  {
    if (p >= s.size() || s[p] != '"')
      return fail("string");
    ++p;
    out.clear();
    while (true) {
      if (p >= s.size())
        return fail("unterminated-string");
      unsigned char c = s[p++];
      if (c == '"')
        return true;
      if (c < 0x20)
        return fail("control-char-in-string");
      if (c == '\\') {
        if (p >= s.size())
          return fail("escape");
        char e = s[p++];
        switch (e) {
        case '"': out += '"'; break;
        case '\\': out += '\\'; break;
        case '/': out += '/'; break;
        case 'b': out += '\b'; break;
        case 'f': out += '\f'; break;
        case 'n': out += '\n'; break;
        case 'r': out += '\r'; break;
        case 't': out += '\t'; break;
        case 'u':
          for (int i = 0; i < 4; ++i) {
            if (p >= s.size() || !isxdigit((unsigned char)s[p]))
              return fail("unicode-escape");
            ++p;
          }
          out += '?';
          break;
        default: return fail("escape");
        }
      } else {
        out += (char)c;
      }
    }
  }
  bool number(std::string &out)
  {
    size_t b = p;
    if (p < s.size() && s[p] == '-')
      ++p;
    if (p >= s.size() || !isdigit((unsigned char)s[p]))
      return fail("number");
    if (s[p] == '0')
      ++p;
    else
      while (p < s.size() && isdigit((unsigned char)s[p]))
        ++p;
    if (p < s.size() && s[p] == '.') {
      ++p;
      if (p >= s.size() || !isdigit((unsigned char)s[p]))
        return fail("number-frac");
      while (p < s.size() && isdigit((unsigned char)s[p]))
        ++p;
    }
    if (p < s.size() && (s[p] == 'e' || s[p] == 'E')) {
      ++p;
      if (p < s.size() && (s[p] == '+' || s[p] == '-'))
        ++p;
      if (p >= s.size() || !isdigit((unsigned char)s[p]))
        return fail("number-exp");
      while (p < s.size() && isdigit((unsigned char)s[p]))
        ++p;
    }
    out = s.substr(b, p - b);
    return true;
  }
  bool value(JV &v, int depth)
  {
    if (depth > 64)
      return fail("depth");
    ws();
    if (p >= s.size())
      return fail("eof");
    char c = s[p];
    if (c == '{') {
      v.kind = JV::OBJ;
      ++p;
      ws();
      if (p < s.size() && s[p] == '}') { ++p; return true; }
      while (true) {
        ws();
        std::string k;
        if (!string(k)) return false;
        ws();
        if (p >= s.size() || s[p] != ':') return fail("colon");
        ++p;
        JV m;
        if (!value(m, depth + 1)) return false;
        v.members.emplace_back(k, std::move(m));
        ws();
        if (p < s.size() && s[p] == ',') { ++p; continue; }
        if (p < s.size() && s[p] == '}') { ++p; return true; }
        return fail("object");
      }
    }
    if (c == '[') {
      v.kind = JV::ARR;
      ++p;
      ws();
      if (p < s.size() && s[p] == ']') { ++p; return true; }
      while (true) {
        JV e;
        if (!value(e, depth + 1)) return false;
        v.items.push_back(std::move(e));
        ws();
        if (p < s.size() && s[p] == ',') { ++p; continue; }
        if (p < s.size() && s[p] == ']') { ++p; return true; }
        return fail("array");
      }
    }
    if (c == '"') { v.kind = JV::STR; return string(v.text); }
    if (c == 't') { v.kind = JV::BOOL; return lit("true"); }
    if (c == 'f') { v.kind = JV::BOOL; return lit("false"); }
    if (c == 'n') {
      if (s.compare(p, 3, "nan") == 0) return fail("nan");
      v.kind = JV::NUL;
      return lit("null");
    }
    if (c == 'i' || s.compare(p, 4, "-nan") == 0 || s.compare(p, 4, "-inf") == 0)
      return fail("nan");
    v.kind = JV::NUM;
    return number(v.text);
  }
  bool document(JV &v)
  {
    if (!value(v, 0)) return false;
    ws();
    if (p != s.size()) return fail("trailing");
    return true;
  }
};

static bool isUInt(const JV *v, unsigned long long &out)
{
  if (!v || v->kind != JV::NUM || v->text.empty() || v->text.size() > 19)
    return false;
  out = 0;
  for (char c : v->text) {
    if (c < '0' || c > '9')
      return false;
    out = out * 10 + (c - '0');
  }
  return true;
}

// ---------------------------------------------------------------------------------------------
// trace programs

struct Ev
{
  char kind;  // B E M C N
  const char *name;
  const char *cat;
  uint64_t value;
};

// stable, content-unique storage for names (the recorder caches strings by pointer)
static const char *intern(const std::string &s)
{
  static std::map<std::string, std::unique_ptr<std::string>> table;
  auto it = table.find(s);
  if (it == table.end())
    it = table.emplace(s, std::unique_ptr<std::string>(new std::string(s))).first;
  return it->second->c_str();
}

static bool parseEvent(const std::string &t, Ev &e)
{
  std::vector<std::string> f;
  size_t b = 0;
  while (true) {
    size_t d = t.find('.', b);
    f.push_back(t.substr(b, d == std::string::npos ? std::string::npos : d - b));
    if (d == std::string::npos) break;
    b = d + 1;
  }
  e = Ev{0, nullptr, nullptr, 0};
  if (f.size() == 1 && f[0] == "E") { e.kind = 'E'; return true; }
  if (f.size() == 1 && f[0] == "Z") { e.kind = 'Z'; return true; }
  if (f.size() == 3 && (f[0] == "B" || f[0] == "M")) {
    e.kind = f[0][0];
    e.name = intern(f[1]);
    e.cat = f[2] == "-" ? nullptr : intern(f[2]);
    return true;
  }
  if (f.size() == 3 && f[0] == "C") {
    e.kind = 'C';
    e.name = intern(f[1]);
    e.value = vh::to_ull(f[2]);
    return true;
  }
  if (f.size() == 2 && f[0] == "N") { e.kind = 'N'; e.name = intern(f[1]); return true; }
  return false;
}

static bool parseProgram(const std::vector<std::string> &w, size_t from, std::vector<Ev> &out)
{
  for (size_t i = from; i < w.size(); ++i) {
    const std::string &t = w[i];
    if (t[0] == '#') {
      // #N[ body ]: the body N times, every '%' in a token replaced by the repetition number (N distinct names)
      if (t.back() != '[') return false;
      unsigned long long n = vh::to_ull(t.substr(1, t.size() - 2));
      size_t j = i + 1;
      for (; j < w.size() && w[j] != "]"; ++j) {}
      if (j >= w.size()) return false;
      for (unsigned long long r = 0; r < n; ++r)
        for (size_t k = i + 1; k < j; ++k) {
          std::string tok = w[k];
          for (size_t p = tok.find('%'); p != std::string::npos; p = tok.find('%', p))
            tok.replace(p, 1, std::to_string(r));
          Ev e;
          if (!parseEvent(tok, e)) return false;
          out.push_back(e);
        }
      i = j;
    } else if (t[0] == '*') {
      if (t.back() != '[') return false;
      unsigned long long n = vh::to_ull(t.substr(1, t.size() - 2));
      std::vector<Ev> body;
      size_t j = i + 1;
      for (; j < w.size() && w[j] != "]"; ++j) {
        Ev e;
        if (!parseEvent(w[j], e)) return false;
        body.push_back(e);
      }
      if (j >= w.size()) return false;
      for (unsigned long long r = 0; r < n; ++r)
        out.insert(out.end(), body.begin(), body.end());
      i = j;
    } else {
      Ev e;
      if (!parseEvent(t, e)) return false;
      out.push_back(e);
    }
  }
  return true;
}

static std::map<int, std::vector<Ev>> g_progs;

struct Barrier
{
  std::mutex m;
  std::condition_variable cv;
  int waiting = 0, total = 0, generation = 0;
  void wait()
  {
    std::unique_lock<std::mutex> l(m);
    int g = generation;
    if (++waiting == total) {
      waiting = 0;
      ++generation;
      cv.notify_all();
    } else {
      cv.wait(l, [&] { return g != generation; });
    }
  }
};

static std::string canonEvent(const std::string &ph, const JV &o, bool &flagOk)
{
  const JV *name = o.get("name"), *cat = o.get("cat"), *args = o.get("args");
  std::string nm = (name && name->kind == JV::STR) ? name->text : "!noname";
  std::string ct = cat ? (cat->kind == JV::STR ? cat->text : "!cat") : "-";
  if (ph == "B") return "B." + nm + "." + ct;
  if (ph == "i") return "M." + nm + "." + ct;
  if (ph == "E") {
    std::string r = "E";
    if (!nm.empty()) r += "!name=" + nm;
    if (cat) r += "!cat";
    const JV *u = (args && args->kind == JV::OBJ) ? args->get("cpuUtilization") : nullptr;
    if (!u || u->kind != JV::NUM) r += "!args";
    return r;
  }
  if (ph == "C") {
    unsigned long long v = 0;
    const JV *val = (args && args->kind == JV::OBJ) ? args->get("value") : nullptr;
    if (!isUInt(val, v)) return "C." + nm + ".!value";
    std::string r = "C." + nm + "." + std::to_string(v);
    if (cat) r += "!cat=" + ct;
    return r;
  }
  flagOk = false;
  return "?" + ph;
}

static uint64_t fnv(uint64_t h, const std::string &s)
{
  for (unsigned char c : s) {
    h ^= c;
    h *= 1099511628211ULL;
  }
  return h;
}

struct ThreadObs
{
  std::string name;
  std::vector<std::string> evs;
  bool mono = true, nest = true;
  unsigned long long lastTs = 0;
  std::vector<unsigned long long> beginTs;  // stack
  bool lastWasEnd = false;
  unsigned long long lastEndBeginTs = 0;
};

// returns the observation line; `retry` is set when the only problem is a non-finite
// cpuUtilization (clock resolution artefact, see DESIGN residue) so that the caller may re-run
static bool g_saveTwice = false;
static std::string runTraceChild(const std::string &proc, bool &retry)
{
  retry = false;
  std::vector<int> ks;
  for (auto &kv : g_progs)
    ks.push_back(kv.first);
  const int T = (int)ks.size();
  std::vector<std::string> idText(T);
  Barrier bar;
  bar.total = T;
  std::vector<std::thread> threads;
  for (int i = 0; i < T; ++i) {
    threads.emplace_back([&, i] {
      std::ostringstream os;
      os << std::this_thread::get_id();
      idText[i] = os.str();
      bar.wait();
      for (const Ev &e : g_progs[ks[i]]) {
        switch (e.kind) {
        case 'B': tracing::beginEvent(e.name, e.cat); break;
        case 'E': tracing::endEvent(); break;
        case 'M': tracing::setMarker(e.name, e.cat); break;
        case 'C': tracing::setCounter(e.name, e.value); break;
        case 'N': tracing::setThreadName(e.name); break;
        case 'Z': std::this_thread::sleep_for(std::chrono::microseconds(150)); break;
        }
      }
      bar.wait();  // nobody exits (and frees its thread id) before everybody is done
    });
  }
  for (auto &t : threads)
    t.join();
  std::string fn = g_dir + "/trace.json";
  remove(fn.c_str());
  tracing::saveLog(fn.c_str(), proc == "-" ? nullptr : proc.c_str());
  if (g_saveTwice) {
    // a second saveLog in the same process (nothing recorded in between) must describe the same events again
    remove(fn.c_str());
    tracing::saveLog(fn.c_str(), proc == "-" ? nullptr : proc.c_str());
  }
  std::string text;
  if (!readFile(fn, text))
    return "malformed:no-file";
  JV doc;
  JParser jp(text);
  if (!jp.document(doc)) {
    if (jp.err.compare(0, 3, "nan") == 0)
      retry = true;
    std::string ctx = text.substr(jp.p > 20 ? jp.p - 20 : 0, 40);
    for (char &c : ctx)
      if (isWs(c)) c = '_';
    return "malformed:" + jp.err + ":" + ctx;
  }
  if (doc.kind != JV::ARR)
    return "malformed:not-an-array";

  // pass 1: metadata
  std::string procSeen = "-";
  int nproc = 0;
  std::map<unsigned long long, ThreadObs> obs;  // by json tid
  bool shapeOk = true, pidOk = true;
  const unsigned long long mypid = (unsigned long long)getpid();
  for (const JV &o : doc.items) {
    if (o.kind != JV::OBJ) { shapeOk = false; continue; }
    const JV *ph = o.get("ph");
    unsigned long long pid = 0, tid = 0;
    if (!ph || ph->kind != JV::STR || !isUInt(o.get("pid"), pid) || !isUInt(o.get("tid"), tid)) {
      shapeOk = false;
      continue;
    }
    if (pid != mypid) pidOk = false;
    if (ph->text != "M") continue;
    const JV *name = o.get("name"), *args = o.get("args");
    const JV *an = (args && args->kind == JV::OBJ) ? args->get("name") : nullptr;
    if (!name || name->kind != JV::STR || !an || an->kind != JV::STR) { shapeOk = false; continue; }
    if (name->text == "process_name") { procSeen = an->text; ++nproc; }
    else if (name->text == "thread_name") {
      if (obs.count(tid)) shapeOk = false;  // two threads with one tid
      obs[tid].name = an->text;
    } else shapeOk = false;
  }
  // pass 2: events in array order
  for (const JV &o : doc.items) {
    if (o.kind != JV::OBJ) continue;
    const JV *ph = o.get("ph");
    unsigned long long tid = 0, ts = 0;
    if (!ph || ph->kind != JV::STR || ph->text == "M" || !isUInt(o.get("tid"), tid)) continue;
    if (!obs.count(tid) || !isUInt(o.get("ts"), ts)) { shapeOk = false; continue; }
    ThreadObs &t = obs[tid];
    const JV *name = o.get("name"), *cat = o.get("cat");
    bool builtin = ph->text == "C" && cat && cat->kind == JV::STR && cat->text == "builtin" && name
        && name->kind == JV::STR && name->text == "cpuUtilization";
    if (builtin) {
      // derived counter: must directly follow an end event and carry the time of its begin
      const JV *args = o.get("args");
      const JV *val = (args && args->kind == JV::OBJ) ? args->get("value") : nullptr;
      if (!t.lastWasEnd || ts != t.lastEndBeginTs || !val || val->kind != JV::NUM) t.nest = false;
      t.lastWasEnd = false;
      continue;
    }
    t.lastWasEnd = false;
    if (ts < t.lastTs) t.mono = false;
    t.lastTs = ts;
    if (ph->text == "B") t.beginTs.push_back(ts);
    if (ph->text == "E") {
      if (t.beginTs.empty()) t.nest = false;
      else {
        t.lastWasEnd = true;
        t.lastEndBeginTs = t.beginTs.back();
        t.beginTs.pop_back();
      }
    }
    t.evs.push_back(canonEvent(ph->text, o, shapeOk));
  }
  // map json threads to harness thread indices through the thread name / printed id
  std::ostringstream out;
  out << "ok proc=" << procSeen << (nproc > 1 ? "!dup" : "") << " shape=" << vh::bit(shapeOk)
      << " pid=" << vh::bit(pidOk) << " nthreads=" << obs.size();
  std::map<int, const ThreadObs *> byK;
  std::map<int, bool> named;
  for (auto &kv : obs) {
    int found = -1;
    bool nm = false;
    for (int i = 0; i < T; ++i) {
      std::string setName;
      for (const Ev &e : g_progs[ks[i]])
        if (e.kind == 'N') setName = e.name;
      if (!setName.empty() ? kv.second.name == setName : kv.second.name == idText[i]) {
        if (found >= 0) found = -2;
        else { found = i; nm = !setName.empty(); }
      }
    }
    if (found < 0 || byK.count(ks[found])) {
      out << " || unknown-thread name=" << kv.second.name;
      continue;
    }
    byK[ks[found]] = &kv.second;
    named[ks[found]] = nm;
  }
  for (auto &kv : byK) {
    const ThreadObs &t = *kv.second;
    out << " || k=" << kv.first << " name=" << (named[kv.first] ? t.name : std::string("id")) << " n=" << t.evs.size()
        << " mono=" << vh::bit(t.mono) << " nest=" << vh::bit(t.nest) << " open=" << t.beginTs.size() << " :";
    if (t.evs.size() <= 48) {
      for (auto &e : t.evs)
        out << " " << e;
    } else {
      uint64_t h = 14695981039346656037ULL;
      for (auto &e : t.evs)
        h = fnv(fnv(h, e), " ");
      out << " h=" << hex(h, 16) << " head";
      for (size_t i = 0; i < 8; ++i)
        out << " " << t.evs[i];
      out << " tail";
      for (size_t i = t.evs.size() - 8; i < t.evs.size(); ++i)
        out << " " << t.evs[i];
    }
  }
  return out.str();
}

// saveseq: the recording threads run strictly one after the other (each is joined before the next starts), so a later
// thread may get the std::thread::id of an earlier one. What the property still determines: the file is a well-formed
// array and every recorded event is in it (events are counted by their canonical text, regardless of the tid they
// are filed under).
static std::string runTraceSeqChild(const std::string &proc, bool &retry)
{
  retry = false;
  for (auto &kv : g_progs) {
    std::thread th([&kv] {
      for (const Ev &e : kv.second) {
        switch (e.kind) {
        case 'B': tracing::beginEvent(e.name, e.cat); break;
        case 'E': tracing::endEvent(); break;
        case 'M': tracing::setMarker(e.name, e.cat); break;
        case 'C': tracing::setCounter(e.name, e.value); break;
        case 'N': tracing::setThreadName(e.name); break;
        case 'Z': std::this_thread::sleep_for(std::chrono::microseconds(150)); break;
        }
      }
    });
    th.join();
  }
  std::string fn = g_dir + "/trace.json";
  remove(fn.c_str());
  tracing::saveLog(fn.c_str(), proc == "-" ? nullptr : proc.c_str());
  std::string text;
  if (!readFile(fn, text))
    return "malformed:no-file";
  JV doc;
  JParser jp(text);
  if (!jp.document(doc)) {
    if (jp.err.compare(0, 3, "nan") == 0)
      retry = true;
    return "malformed:" + jp.err;
  }
  if (doc.kind != JV::ARR)
    return "malformed:not-an-array";
  std::map<std::string, long> count;
  long total = 0;
  bool shapeOk = true;
  for (const JV &o : doc.items) {
    if (o.kind != JV::OBJ) { shapeOk = false; continue; }
    const JV *ph = o.get("ph");
    if (!ph || ph->kind != JV::STR) { shapeOk = false; continue; }
    if (ph->text == "M") continue;
    const JV *name = o.get("name"), *cat = o.get("cat");
    if (ph->text == "C" && cat && cat->kind == JV::STR && cat->text == "builtin" && name && name->kind == JV::STR
        && name->text == "cpuUtilization")
      continue;
    count[canonEvent(ph->text, o, shapeOk)]++;
    ++total;
  }
  std::ostringstream out;
  out << "seq shape=" << vh::bit(shapeOk) << " n=" << total;
  for (auto &kv : count)
    out << " " << kv.first << "x" << kv.second;
  return out.str();
}

static std::string opSave(const std::string &proc, bool sequential = false)
{
  for (int attempt = 0; attempt < 4; ++attempt) {
    int fds[2];
    if (pipe(fds) != 0)
      return "harness-error:pipe";
    fflush(stdout);
    fflush(stderr);
    pid_t pid = fork();
    if (pid < 0)
      return "harness-error:fork";
    if (pid == 0) {
      close(fds[0]);
      bool retry = false;
      std::string r;
      try {
        r = sequential ? runTraceSeqChild(proc, retry) : runTraceChild(proc, retry);
      } catch (const std::exception &e) {
        r = std::string("uncaught:") + typeid(e).name();
      }
      r = (retry ? "R" : "F") + r;
      size_t off = 0;
      while (off < r.size()) {
        ssize_t k = write(fds[1], r.data() + off, r.size() - off);
        if (k <= 0) break;
        off += k;
      }
      close(fds[1]);
      _exit(0);
    }
    close(fds[1]);
    std::string r;
    char buf[65536];
    ssize_t k;
    while ((k = read(fds[0], buf, sizeof buf)) > 0)
      r.append(buf, k);
    close(fds[0]);
    int status = 0;
    waitpid(pid, &status, 0);
    if (!WIFEXITED(status) || WEXITSTATUS(status) != 0 || r.empty()) {
      // the child died (sanitizer report, signal): die the same way so that the runner
      // records a crash for this case
      fprintf(stderr, "c20 harness: trace child terminated abnormally (status %d)\n", status);
      fflush(stderr);
      _exit(WIFEXITED(status) && WEXITSTATUS(status) ? WEXITSTATUS(status) : 96);
    }
    if (r[0] == 'R' && attempt < 3)
      continue;  // non-finite cpuUtilization: timing artefact, run the case again
    return r.substr(1);
  }
  return "harness-error:retry";
}

static void rmDir()
{
  if (g_dir.empty())
    return;
  remove((g_dir + "/img").c_str());
  remove((g_dir + "/trace.json").c_str());
  rmdir(g_dir.c_str());
}

int main(int argc, char **argv)
{
  std::string base = argc > 1 ? argv[1] : "/verif/.cache";
  mkdir(base.c_str(), 0777);
  g_dir = base + "/c20_" + std::to_string((long)getpid());
  mkdir(g_dir.c_str(), 0777);
  atexit(rmDir);
  auto reset = [] { g_progs.clear(); };
  auto step = [](const std::vector<std::string> &w) -> std::string {
    if (w[0] == "img")
      return opImage(w);
    if (w[0] == "imgmt")
      return opImageThreads(w);
    if (w[0] == "imgpat")
      return opImagePattern(w);
    if (w[0] == "thr" && w.size() >= 2) {
      std::vector<Ev> evs;
      if (!parseProgram(w, 2, evs))
        return "bad-op";
      auto &p = g_progs[(int)vh::to_ll(w[1])];
      p.insert(p.end(), evs.begin(), evs.end());
      return "ok";
    }
    if (w[0] == "save" && w.size() == 2)
      return opSave(w[1]);
    if (w[0] == "saveseq" && w.size() == 2)
      return opSave(w[1], true);
    if (w[0] == "save2" && w.size() == 2) {
      g_saveTwice = true;
      std::string r = opSave(w[1]);
      g_saveTwice = false;
      return r;
    }
    return "bad-op";
  };
  int rc = vh::run(reset, step);
  return rc;
}
