// C06 correspondence harness: the wrappers of tr/c06_drv.cpp (real rkcommon code) called with the
// same flat float arguments as the Lean driver; results compared bit for bit.
#include "drv_common.h"
#include "../tr/c06_drv.cpp"
#include "gen/c06_dispatch.inc"

// ---- harness-only wrappers (not translated), instantiated for double (`d_*`: the same templates, plus the
// mixed-precision overloads that only exist for them, e.g. float * QuaternionT<double> inside slerp's near-parallel
// fallback) and for float (`f_*`: the compound assignments, which mutate through a reference and are outside the
// translator's subset). Flat double arguments / results as 16-digit hex bit patterns (for `f_*` the arguments are
// floats widened to double); judged by the reference oracle of props/c06.py only.
template <typename S>
struct HO {
typedef rkcommon::math::vec_t<S, 3> V3;
typedef rkcommon::math::LinearSpace3<V3> L3;
typedef rkcommon::math::AffineSpaceT<L3> A3;
typedef rkcommon::math::QuaternionT<S> Q;
typedef rkcommon::math::vec_t<S, 2> V2;
typedef rkcommon::math::LinearSpace2<V2> L2;
struct In {
  const std::vector<double> &x;
  size_t p;
  S s() { return p < x.size() ? (S)x[p++] : (S)0; }
  V3 v() { S a = s(), b = s(), c = s(); return V3(a, b, c); }
  L3 l() { V3 a = v(), b = v(), c = v(); return L3(a, b, c); }
  L2 l2() { S a = s(), b = s(), c = s(), d = s(); return L2(V2(a, b), V2(c, d)); }
  A3 a() { L3 m = l(); V3 t = v(); return A3(m, t); }
  Q q() { S i = s(), j = s(), k = s(), r = s(); return Q(r, i, j, k); }   // field order i, j, k, r
};
struct Out {
  std::vector<double> y;
  void s(S d) { y.push_back((double)d); }
  void v(const V3 &a) { s(a.x); s(a.y); s(a.z); }
  void l(const L3 &m) { v(m.vx); v(m.vy); v(m.vz); }
  void l2(const L2 &m) { s(m.vx.x); s(m.vx.y); s(m.vy.x); s(m.vy.y); }
  void a(const A3 &m) { l(m.l); v(m.p); }
  void q(const Q &a) { s(a.i); s(a.j); s(a.k); s(a.r); }
};
static bool dispatch(const std::string &n, In in, Out &o)
{
  using namespace rkcommon::math;
  if (n == "q_mul") { Q a = in.q(), b = in.q(); o.q(a * b); }
  else if (n == "q_slerp") { float f = (float)in.s(); Q a = in.q(), b = in.q(); o.q(slerp(f, a, b)); }
  else if (n == "q_rotate_vec") { Q a = in.q(); V3 v = in.v(); o.v(a * v); }
  else if (n == "q_from_matrix") { V3 a = in.v(), b = in.v(), c = in.v(); o.q(Q(a, b, c)); }
  else if (n == "q_rotate") { V3 u = in.v(); S r = in.s(); o.q(Q::rotate(u, r)); }
  else if (n == "q_smul") { float f = (float)in.s(); Q a = in.q(); o.q(f * a); }          // mixed precision for double
  else if (n == "q_muls") { Q a = in.q(); float f = (float)in.s(); o.q(a * f); }          // mixed precision for double
  else if (n == "q_normalize") { Q a = in.q(); o.q(normalize(a)); }
  else if (n == "q_rcp") { Q a = in.q(); o.q(rcp(a)); }
  else if (n == "q_from_ypr") { S y = in.s(), p = in.s(), r = in.s(); o.q(Q(y, p, r)); }
  else if (n == "l2_orthogonal") {   // Newton iteration with a loop: outside the translator's subset
    L2 m = in.l2();
    o.l2(m.orthogonal());
  }
  else if (n == "l3_inverse") { L3 m = in.l(); o.l(m.inverse()); }
  else if (n == "l3_det") { L3 m = in.l(); o.s(m.det()); }
  else if (n == "l3_mul") { L3 a = in.l(), b = in.l(); o.l(a * b); }
  else if (n == "l3_ldiv") { L3 a = in.l(), b = in.l(); o.l(a / b); }
  else if (n == "l3_apply") { L3 m = in.l(); V3 v = in.v(); o.v(m * v); }
  else if (n == "l3_xfmPoint") { L3 m = in.l(); V3 v = in.v(); o.v(xfmPoint(m, v)); }
  else if (n == "l3_xfmVector") { L3 m = in.l(); V3 v = in.v(); o.v(xfmVector(m, v)); }
  else if (n == "l3_rotate") { V3 u = in.v(); S r = in.s(); o.l(L3::rotate(u, r)); }
  else if (n == "l3_from_quat") { Q a = in.q(); o.l(L3(a)); }
  else if (n == "l3_frame") { V3 u = in.v(); o.l(frame(u)); }
  else if (n == "l3_xfmNormal") { L3 m = in.l(); V3 v = in.v(); o.v(xfmNormal(m, v)); }
  else if (n == "a3_rcp") { A3 a = in.a(); o.a(rcp(a)); }
  else if (n == "a3_mul") { A3 a = in.a(), b = in.a(); o.a(a * b); }
  else if (n == "a3_div") { A3 a = in.a(), b = in.a(); o.a(a / b); }
  else if (n == "a3_xfmPoint") { A3 a = in.a(); V3 v = in.v(); o.v(xfmPoint(a, v)); }
  else if (n == "a3_xfmVector") { A3 a = in.a(); V3 v = in.v(); o.v(xfmVector(a, v)); }
  else if (n == "a3_xfmNormal") { A3 a = in.a(); V3 v = in.v(); o.v(xfmNormal(a, v)); }
  else if (n == "a3_lookat") { V3 e = in.v(), p = in.v(), u = in.v(); o.a(A3::lookat(e, p, u)); }
  else if (n == "a3_rotate_about") { V3 p = in.v(), u = in.v(); S r = in.s(); o.a(A3::rotate(p, u, r)); }
  // compound assignments: the result is what is left in the object assigned to, and the reference returned must be it
  else if (n == "a3_imul") { A3 a = in.a(), b = in.a(); A3 &r = (a *= b); if (&r != &a) return false; o.a(a); }
  else if (n == "a3_idiv") { A3 a = in.a(), b = in.a(); A3 &r = (a /= b); if (&r != &a) return false; o.a(a); }
  // (AffineSpaceT *= scalar and /= scalar are declared but cannot be instantiated: no AffineSpaceT * scalar exists)
  else if (n == "a3_imul_self") { A3 a = in.a(); a *= a; o.a(a); }
  else if (n == "l3_imul") { L3 a = in.l(), b = in.l(); L3 &r = (a *= b); if (&r != &a) return false; o.l(a); }
  else if (n == "l3_idiv") { L3 a = in.l(), b = in.l(); L3 &r = (a /= b); if (&r != &a) return false; o.l(a); }
  else if (n == "l3_imul_self") { L3 a = in.l(); a *= a; o.l(a); }
  else if (n == "l2_imul") { L2 a = in.l2(), b = in.l2(); L2 &r = (a *= b); if (&r != &a) return false; o.l2(a); }
  else if (n == "l2_idiv") { L2 a = in.l2(), b = in.l2(); L2 &r = (a /= b); if (&r != &a) return false; o.l2(a); }
  else if (n == "q_imul") { Q a = in.q(), b = in.q(); Q &r = (a *= b); if (&r != &a) return false; o.q(a); }
  else if (n == "q_idiv") { Q a = in.q(), b = in.q(); Q &r = (a /= b); if (&r != &a) return false; o.q(a); }
  else if (n == "q_iadd") { Q a = in.q(), b = in.q(); Q &r = (a += b); if (&r != &a) return false; o.q(a); }
  else if (n == "q_isub") { Q a = in.q(), b = in.q(); Q &r = (a -= b); if (&r != &a) return false; o.q(a); }
  else if (n == "q_imuls") { Q a = in.q(); S f = in.s(); Q &r = (a *= f); if (&r != &a) return false; o.q(a); }
  else if (n == "q_idivs") { Q a = in.q(); S f = in.s(); Q &r = (a /= f); if (&r != &a) return false; o.q(a); }
  else if (n == "q_imul_self") { Q a = in.q(); a *= a; o.q(a); }
  else return false;
  return true;
}
static std::string run(const std::vector<std::string> &w)
{
  std::vector<double> xs;
  for (size_t i = 1; i < w.size(); i++) {
    uint64_t u = std::stoull(w[i], nullptr, 16);
    double d;
    std::memcpy(&d, &u, 8);
    xs.push_back(d);
  }
  Out o;
  if (!dispatch(w[0].substr(2), In{xs, 0}, o))
    return "bad-op";
  std::string out;
  for (double d : o.y) {
    char buf[24];
    if (std::isnan(d)) snprintf(buf, sizeof buf, "nan");
    else { uint64_t u; std::memcpy(&u, &d, 8); snprintf(buf, sizeof buf, "%016llx", (unsigned long long)u); }
    if (!out.empty()) out += " ";
    out += buf;
  }
  return out.empty() ? "-" : out;
}
};

int main()
{
  return vh::run([]() {}, [](const std::vector<std::string> &w) -> std::string {
    if (w[0].compare(0, 2, "d_") == 0)
      return HO<double>::run(w);
    if (w[0].compare(0, 2, "f_") == 0)
      return HO<float>::run(w);
    std::vector<float> xs;
    for (size_t i = 1; i < w.size(); i++)
      xs.push_back(vh::f32_of_tok(w[i]));
    std::string out;
    auto emitS = [&](float f) { if (!out.empty()) out += " "; out += vh::tok_of_f32(f); };
    auto emitB = [&](bool b) { if (!out.empty()) out += " "; out += b ? "1" : "0"; };
    if (!vdrv_dispatch<float>(w[0], xs, emitS, emitB))
      return "bad-op";
    return out.empty() ? "-" : out;
  });
}
