// C06 correspondence harness: the wrappers of tr/c06_drv.cpp (real rkcommon code) called with the
// same flat float arguments as the Lean driver; results compared bit for bit.
#include "drv_common.h"
#include "../tr/c06_drv.cpp"
#include "gen/c06_dispatch.inc"

int main()
{
  return vh::run([]() {}, [](const std::vector<std::string> &w) -> std::string {
    std::vector<float> xs;
    for (size_t i = 1; i < w.size(); i++)
      xs.push_back(vh::f32_of_tok(w[i]));
    std::string out;
    auto emitS = [&](float f) { if (!out.empty()) out += " "; out += vh::tok_of_f32(f); };
    auto emitB = [&](bool b) { if (!out.empty()) out += " "; out += b ? "1" : "0"; };
    if (!vdrv_dispatch<float>(w[0], xs, emitS, emitB))
      return "bad-op";
    return out.empty() ? "-" : out;
  });
}
