// C06 correspondence harness: the wrappers of tr/c06_drv.cpp (real rkcommon code) called with the
// same flat float arguments as the Lean driver; results compared bit for bit.
#include "drv_common.h"
#include "../tr/c06_drv.cpp"
#include "gen/c06_dispatch.inc"

// ---- double-precision instantiations (not translated: the same templates, plus the mixed-precision overloads
// that only exist for them, e.g. float * QuaternionT<double> inside slerp's near-parallel fallback). Flat double
// arguments / results as 16-digit hex bit patterns; judged by the reference oracle of props/c06.py only.
namespace dd {
using namespace rkcommon::math;
typedef vec_t<double, 3> V3;
typedef LinearSpace3<V3> L3;
typedef AffineSpaceT<L3> A3;
typedef QuaternionT<double> Q;
typedef vec_t<double, 2> V2;
typedef LinearSpace2<V2> L2;
struct In {
  const std::vector<double> &x;
  size_t p;
  double s() { return p < x.size() ? x[p++] : 0.0; }
  V3 v() { double a = s(), b = s(), c = s(); return V3(a, b, c); }
  L3 l() { V3 a = v(), b = v(), c = v(); return L3(a, b, c); }
  A3 a() { L3 m = l(); V3 t = v(); return A3(m, t); }
  Q q() { double i = s(), j = s(), k = s(), r = s(); return Q(r, i, j, k); }   // field order i, j, k, r
};
struct Out {
  std::vector<double> y;
  void s(double d) { y.push_back(d); }
  void v(const V3 &a) { s(a.x); s(a.y); s(a.z); }
  void l(const L3 &m) { v(m.vx); v(m.vy); v(m.vz); }
  void a(const A3 &m) { l(m.l); v(m.p); }
  void q(const Q &a) { s(a.i); s(a.j); s(a.k); s(a.r); }
};
static bool dispatch(const std::string &n, In in, Out &o)
{
  if (n == "d_q_mul") { Q a = in.q(), b = in.q(); o.q(a * b); }
  else if (n == "d_q_slerp") { float f = (float)in.s(); Q a = in.q(), b = in.q(); o.q(slerp(f, a, b)); }
  else if (n == "d_q_rotate_vec") { Q a = in.q(); V3 v = in.v(); o.v(a * v); }
  else if (n == "d_q_from_matrix") { V3 a = in.v(), b = in.v(), c = in.v(); o.q(Q(a, b, c)); }
  else if (n == "d_q_rotate") { V3 u = in.v(); double r = in.s(); o.q(Q::rotate(u, r)); }
  else if (n == "d_q_smul") { float f = (float)in.s(); Q a = in.q(); o.q(f * a); }          // mixed precision
  else if (n == "d_q_muls") { Q a = in.q(); float f = (float)in.s(); o.q(a * f); }          // mixed precision
  else if (n == "d_q_normalize") { Q a = in.q(); o.q(normalize(a)); }
  else if (n == "d_q_rcp") { Q a = in.q(); o.q(rcp(a)); }
  else if (n == "d_q_from_ypr") { double y = in.s(), p = in.s(), r = in.s(); o.q(Q(y, p, r)); }
  else if (n == "d_l2_orthogonal") {   // Newton iteration with a loop: outside the translator's subset
    double a = in.s(), b = in.s(), c = in.s(), d = in.s();
    L2 m(V2(a, b), V2(c, d));
    L2 r = m.orthogonal();
    o.s(r.vx.x); o.s(r.vx.y); o.s(r.vy.x); o.s(r.vy.y);
  }
  else if (n == "d_l3_inverse") { L3 m = in.l(); o.l(m.inverse()); }
  else if (n == "d_l3_det") { L3 m = in.l(); o.s(m.det()); }
  else if (n == "d_l3_mul") { L3 a = in.l(), b = in.l(); o.l(a * b); }
  else if (n == "d_l3_rotate") { V3 u = in.v(); double r = in.s(); o.l(L3::rotate(u, r)); }
  else if (n == "d_l3_from_quat") { Q a = in.q(); o.l(L3(a)); }
  else if (n == "d_l3_frame") { V3 u = in.v(); o.l(frame(u)); }
  else if (n == "d_l3_xfmNormal") { L3 m = in.l(); V3 v = in.v(); o.v(xfmNormal(m, v)); }
  else if (n == "d_a3_rcp") { A3 a = in.a(); o.a(rcp(a)); }
  else if (n == "d_a3_mul") { A3 a = in.a(), b = in.a(); o.a(a * b); }
  else if (n == "d_a3_xfmPoint") { A3 a = in.a(); V3 v = in.v(); o.v(xfmPoint(a, v)); }
  else if (n == "d_a3_lookat") { V3 e = in.v(), p = in.v(), u = in.v(); o.a(A3::lookat(e, p, u)); }
  else return false;
  return true;
}
static std::string run(const std::vector<std::string> &w)
{
  std::vector<double> xs;
  for (size_t i = 1; i < w.size(); i++) {
    uint64_t u = std::stoull(w[i], nullptr, 16);
    double d;
    std::memcpy(&d, &u, 8);
    xs.push_back(d);
  }
  Out o;
  if (!dispatch(w[0], In{xs, 0}, o))
    return "bad-op";
  std::string out;
  for (double d : o.y) {
    char buf[24];
    if (std::isnan(d)) snprintf(buf, sizeof buf, "nan");
    else { uint64_t u; std::memcpy(&u, &d, 8); snprintf(buf, sizeof buf, "%016llx", (unsigned long long)u); }
    if (!out.empty()) out += " ";
    out += buf;
  }
  return out.empty() ? "-" : out;
}
}  // namespace dd

int main()
{
  return vh::run([]() {}, [](const std::vector<std::string> &w) -> std::string {
    if (w[0].compare(0, 2, "d_") == 0)
      return dd::run(w);
    std::vector<float> xs;
    for (size_t i = 1; i < w.size(); i++)
      xs.push_back(vh::f32_of_tok(w[i]));
    std::string out;
    auto emitS = [&](float f) { if (!out.empty()) out += " "; out += vh::tok_of_f32(f); };
    auto emitB = [&](bool b) { if (!out.empty()) out += " "; out += b ? "1" : "0"; };
    if (!vdrv_dispatch<float>(w[0], xs, emitS, emitB))
      return "bad-op";
    return out.empty() ? "-" : out;
  });
}
