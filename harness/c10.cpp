// C10 correspondence harness: FlatMap<K,V> for several K/V types and ParameterizedObject,
// driven by the same op lines as the Lean model (lean/Driver/C10.lean).
// Tokens: the harness is started with argv[1] in {ii, ss, si, is} selecting the key/value C++
// types (int or std::string); tokens are printed canonically so that token equality is value
// equality. String tokens are "s<letters>" (the empty string is "s"); ints are decimal.
#include "common.h"
#include <memory>
#include "rkcommon/containers/FlatMap.h"
#include "rkcommon/utility/ParameterizedObject.h"
#include "rkcommon/math/vec.h"

using namespace rkcommon;

template <typename T> struct Tok;
template <> struct Tok<int> {
  static int parse(const std::string &s) { return std::stoi(s); }
  static std::string show(int v) { return std::to_string(v); }
};
template <> struct Tok<std::string> {
  static std::string parse(const std::string &s) { return s.substr(1); }
  static std::string show(const std::string &v) { return "s" + v; }
};

// parameter payload whose operator== is coarser than identity (compares the key only): a second set with an
// "equal" but different value must still store the new value
struct KeyRec { int key; int note; bool operator==(const KeyRec &o) const { return key == o.key; } };
static KeyRec mkKey(int v) { KeyRec r; r.key = v / 4; r.note = v; return r; }

// key type whose copies can be made to throw (FlatMap must not be left with a phantom entry by a failed insertion)
struct TKey {
  int v;
  static bool armed;
  TKey() : v(0) {}
  explicit TKey(int x) : v(x) {}
  TKey(const TKey &o) : v(o.v) { if (armed) throw std::runtime_error("key copy"); }
  TKey(TKey &&o) noexcept : v(o.v) {}
  TKey &operator=(const TKey &o) { if (armed) throw std::runtime_error("key copy"); v = o.v; return *this; }
  TKey &operator=(TKey &&o) noexcept { v = o.v; return *this; }
  bool operator==(const TKey &o) const { return v == o.v; }
  bool operator!=(const TKey &o) const { return v != o.v; }
};
bool TKey::armed = false;
template <> struct Tok<TKey> {
  static TKey parse(const std::string &s) { return TKey(std::stoi(s)); }
  static std::string show(const TKey &k) { return std::to_string(k.v); }
};
template <typename K> struct Arm { static void set(bool) {} static bool can() { return false; } };
template <> struct Arm<TKey> { static void set(bool b) { TKey::armed = b; } static bool can() { return true; } };

// parameter payload whose k-th copy (construction or assignment) from now on throws (0 = never)
struct ThrowVal {
  int v;
  static int countdown;
  static void tick() { if (countdown > 0 && --countdown == 0) throw std::runtime_error("value copy"); }
  ThrowVal() : v(0) {}
  explicit ThrowVal(int x) : v(x) {}
  ThrowVal(const ThrowVal &o) : v(o.v) { tick(); }
  ThrowVal(ThrowVal &&o) noexcept : v(o.v) {}
  ThrowVal &operator=(const ThrowVal &o) { tick(); v = o.v; return *this; }
  ThrowVal &operator=(ThrowVal &&o) noexcept { v = o.v; return *this; }
  bool operator==(const ThrowVal &o) const { return v == o.v; }
};
int ThrowVal::countdown = 0;

struct PO : public utility::ParameterizedObject {
  std::string dump()
  {
    std::string out;
    for (auto p = params_begin(); p != params_end(); ++p) {
      auto &prm = **p;
      std::string t = "?", v = "?";
      if (prm.data.is<int>()) { t = "int"; v = std::to_string(prm.data.get<int>()); }
      else if (prm.data.is<float>()) { t = "float"; v = std::to_string((long long)prm.data.get<float>()); }
      else if (prm.data.is<std::string>()) { t = "string"; v = prm.data.get<std::string>(); }
      else if (prm.data.is<bool>()) { t = "bool"; v = prm.data.get<bool>() ? "1" : "0"; }
      else if (prm.data.is<long>()) { t = "long"; v = std::to_string(prm.data.get<long>()); }
      else if (prm.data.is<math::vec3f>()) { t = "vec3f"; v = std::to_string((long long)prm.data.get<math::vec3f>().y); }
      else if (prm.data.is<KeyRec>()) { t = "key"; v = std::to_string(prm.data.get<KeyRec>().note); }
      else if (prm.data.is<ThrowVal>()) { t = "thr"; v = std::to_string(prm.data.get<ThrowVal>().v); }
      if (!out.empty()) out += ",";
      out += prm.name + ":" + t + ":" + v + ":" + (prm.query ? "1" : "0");
    }
    return out.empty() ? "-" : out;
  }
};

// values are small integers in every type (token = decimal integer), strings are the token itself
static void pset(PO &po, const std::string &n, const std::string &t, const std::string &v)
{
  if (t == "int") po.setParam<int>(n, std::stoi(v));
  else if (t == "float") po.setParam<float>(n, (float)std::stoi(v));
  else if (t == "string") po.setParam<std::string>(n, v);
  else if (t == "bool") po.setParam<bool>(n, v != "0");
  else if (t == "long") po.setParam<long>(n, std::stol(v));
  else if (t == "vec3f") po.setParam<math::vec3f>(n, math::vec3f(0.f, (float)std::stoi(v), 1.f));
  else if (t == "key") po.setParam<KeyRec>(n, mkKey(std::stoi(v)));
  else if (t == "thr") po.setParam<ThrowVal>(n, ThrowVal(std::stoi(v)));
  else throw std::runtime_error("bad type");
}
static std::string pget(PO &po, const std::string &n, const std::string &t, const std::string &d)
{
  if (t == "int") return std::to_string(po.getParam<int>(n, std::stoi(d)));
  if (t == "float") return std::to_string((long long)po.getParam<float>(n, (float)std::stoi(d)));
  if (t == "string") return po.getParam<std::string>(n, d);
  if (t == "bool") return po.getParam<bool>(n, d != "0") ? "1" : "0";
  if (t == "long") return std::to_string(po.getParam<long>(n, std::stol(d)));
  if (t == "vec3f") return std::to_string((long long)po.getParam<math::vec3f>(n, math::vec3f(0.f, (float)std::stoi(d), 1.f)).y);
  if (t == "key") return std::to_string(po.getParam<KeyRec>(n, mkKey(std::stoi(d))).note);
  if (t == "thr") return std::to_string(po.getParam<ThrowVal>(n, ThrowVal(std::stoi(d))).v);
  throw std::runtime_error("bad type");
}

template <typename K, typename V>
int runTyped()
{
  using FM = containers::FlatMap<K, V>;
  std::unique_ptr<FM> fm(new FM);
  std::unique_ptr<PO> po(new PO);
  auto showItem = [](const typename FM::item_t &i) { return Tok<K>::show(i.first) + "=" + Tok<V>::show(i.second); };
  return vh::run(
      [&]() { fm.reset(new FM); po.reset(new PO); },
      [&](const std::vector<std::string> &w) -> std::string {
        const std::string &op = w[0];
        const FM &cfm = *fm;
        if (op == "fm_new") { fm.reset(new FM); return "ok"; }
        if (op == "set") { (*fm)[Tok<K>::parse(w[1])] = Tok<V>::parse(w[2]); return "ok"; }
        if (op == "idx") { return Tok<V>::show((*fm)[Tok<K>::parse(w[1])]); }
        if (op == "set_throw") {
          // insertion of a new key while every copy of a key throws: the exception must leave the map as it was
          if (!Arm<K>::can()) return "bad-op";
          K key = Tok<K>::parse(w[1]);
          if (cfm.contains(key)) return "present";
          std::string before;
          for (auto it = cfm.begin(); it != cfm.end(); ++it) before += showItem(*it) + ",";
          bool threw = false;
          Arm<K>::set(true);
          try { (*fm)[key] = Tok<V>::parse(w[2]); } catch (const std::runtime_error &) { threw = true; }
          Arm<K>::set(false);
          std::string after;
          for (auto it = cfm.begin(); it != cfm.end(); ++it) after += showItem(*it) + ",";
          if (!threw) return "nothrow " + after;
          return after == before ? "throw unchanged" : "throw changed " + after;
        }
        if (op == "at") {
          try { return Tok<V>::show(cfm.at(Tok<K>::parse(w[1]))); } catch (const std::out_of_range &) { return "throw"; }
        }
        if (op == "at_set") {
          try { fm->at(Tok<K>::parse(w[1])) = Tok<V>::parse(w[2]); return "ok"; } catch (const std::out_of_range &) { return "throw"; }
        }
        if (op == "has") return vh::bit(cfm.contains(Tok<K>::parse(w[1])));
        if (op == "erase") { fm->erase(Tok<K>::parse(w[1])); return "ok"; }
        if (op == "clear") { fm->clear(); return "ok"; }
        if (op == "size") return std::to_string(cfm.size());
        if (op == "empty") return vh::bit(cfm.empty() != 0);
        if (op == "at_index") {
          try { return showItem(cfm.at_index(std::stoull(w[1]))); } catch (const std::out_of_range &) { return "throw"; }
        }
        if (op == "items") {
          std::string out;
          for (auto it = cfm.begin(); it != cfm.end(); ++it) { if (!out.empty()) out += ","; out += showItem(*it); }
          // the mutable and the c* iterators must describe the same sequence
          size_t n = 0; for (auto it = fm->begin(); it != fm->end(); ++it) n++;
          size_t n2 = 0; for (auto it = cfm.cbegin(); it != cfm.cend(); ++it) n2++;
          if (n != cfm.size() || n2 != n) return "iter-size-mismatch";
          return out.empty() ? "-" : out;
        }
        if (op == "ritems") {
          std::string out;
          for (auto it = cfm.rbegin(); it != cfm.rend(); ++it) { if (!out.empty()) out += ","; out += showItem(*it); }
          return out.empty() ? "-" : out;
        }
        if (op == "po_new") { po.reset(new PO); return "ok"; }
        if (op == "pset") { pset(*po, w[1], w[2], w[3]); return "ok"; }
        if (op == "pset_throw") {
          // overwrite of an existing parameter while the k-th copy of the value throws, for k = 1, 2, ... until the
          // write goes through: every failed attempt must leave all parameters (value, type, query flag, order) as
          // they were; the final attempt stores the value. For a name that is absent only the plain write is done.
          ThrowVal val(std::stoi(w[2]));
          if (po->hasParam(w[1])) {
            for (int k = 1; k <= 16; k++) {
              std::string before = po->dump();
              bool threw = false;
              ThrowVal::countdown = k;
              try { po->setParam<ThrowVal>(w[1], val); } catch (const std::runtime_error &) { threw = true; }
              ThrowVal::countdown = 0;
              if (!threw) return "ok";
              std::string after = po->dump();
              if (after != before) return "changed by the write that threw at copy " + std::to_string(k) + ": " + after;
            }
            return "still throwing";
          }
          po->setParam<ThrowVal>(w[1], val);
          return "ok";
        }
        if (op == "pget") return pget(*po, w[1], w[2], w[3]);
        if (op == "phas") return vh::bit(po->hasParam(w[1]));
        if (op == "prem") { po->removeParam(w[1]); return "ok"; }
        if (op == "preset") { po->resetAllParamQueryStatus(); return "ok"; }
        if (op == "pdump") return po->dump();
        return "bad-op";
      });
}

int main(int argc, char **argv)
{
  std::string mode = argc > 1 ? argv[1] : "ii";
#ifndef C10_ONLY
#define C10_ONLY -1
#endif
#if C10_ONLY == -1 || C10_ONLY == 0
  if (mode == "ii") return runTyped<int, int>();
#endif
#if C10_ONLY == -1 || C10_ONLY == 1
  if (mode == "ss") return runTyped<std::string, std::string>();
#endif
#if C10_ONLY == -1 || C10_ONLY == 2
  if (mode == "si") return runTyped<std::string, int>();
#endif
#if C10_ONLY == -1 || C10_ONLY == 3
  if (mode == "is") return runTyped<int, std::string>();
#endif
#if C10_ONLY == -1 || C10_ONLY == 4
  if (mode == "ti") return runTyped<TKey, int>();
#endif
  return 2;
}
