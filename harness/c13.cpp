// C13 correspondence harness: initTaskingSystem / numTaskingThreads / parallel_for of the
// backend selected at compile time (-DRKCOMMON_TASKING_TBB | _OMP | _INTERNAL | none = Debug),
// driven by the same op lines as the Lean model (lean/Driver/C13.lean).
//
// Ops (one output line each):
//   init n [f]         initTaskingSystem(n) (one-argument call) / initTaskingSystem(n, f != 0)   -> ok
//   num                numTaskingThreads(): "0" before any init; the number after init n > 0;
//                      after init n <= 0 only the predicate the property determines: pos | nonpos
//   pfor size us       parallel_for(size, body); body sleeps `us` microseconds
//   nest a b us        parallel_for(a, [parallel_for(b, body)])
//                      -> "le=<0|1> all=<0|1>":
//                         le  = the maximum number of distinct threads that were inside bodies at
//                               the same time is <= the limit (configured n if the last init had
//                               n > 0, else the reported numTaskingThreads(); no limit before init);
//                         all = every (innermost) index was executed exactly once.
//                      The measured maximum itself is schedule dependent and never printed.
//   tnum / tpfor size us   the same as num / pfor, but called on a freshly created std::thread (joined
//                      before the op returns); output prefixed with the backend name, e.g. "omp 3"
// Except for tnum/tpfor everything is called from the one main thread (the model's single external
// caller); during tnum/tpfor the main thread only waits in join().
// Every case runs in a fresh child process (see runCase); a case that does not finish within
// CASE_TIMEOUT_S is killed and reported like a crash (exit code 124).
#include "common.h"
#include <atomic>
#include <chrono>
#include <memory>
#include <thread>
#include <signal.h>
#include <sys/prctl.h>
#include <sys/types.h>
#include <sys/wait.h>
#include <unistd.h>
#include "rkcommon/tasking/parallel_for.h"
#include "rkcommon/tasking/tasking_system_init.h"

using namespace rkcommon;

#if defined(RKCOMMON_TASKING_TBB)
#define C13_BACKEND "tbb"
#elif defined(RKCOMMON_TASKING_OMP)
#define C13_BACKEND "omp"
#elif defined(RKCOMMON_TASKING_INTERNAL)
#define C13_BACKEND "internal"
#else
#define C13_BACKEND "debug"
#endif

namespace {

std::atomic<int> g_active{0};  // threads currently inside at least one body
std::atomic<int> g_max{0};
thread_local int tl_depth = 0;

struct InBody
{
  InBody()
  {
    if (tl_depth++ == 0) {
      int a = ++g_active;
      int m = g_max.load();
      while (a > m && !g_max.compare_exchange_weak(m, a)) {
      }
    }
  }
  ~InBody()
  {
    if (--tl_depth == 0)
      --g_active;
  }
};

void work(long us)
{
  if (us > 0)
    std::this_thread::sleep_for(std::chrono::microseconds(us));
}

bool g_inited = false;
long g_lastN = 0;

std::string verdict(const std::vector<std::atomic<int>> &hits)
{
  bool all = true;
  for (auto &h : hits)
    all = all && h.load() == 1;
  bool le = true;
  if (g_inited) {
    long limit = g_lastN > 0 ? g_lastN : (long)tasking::numTaskingThreads();
    le = g_max.load() <= limit;
    if (getenv("C13_DEBUG"))  // diagnostics only (stderr is not part of the observation)
      fprintf(stderr, "c13: max=%d limit=%ld\n", g_max.load(), limit);
  }
  return std::string("le=") + vh::bit(le) + " all=" + vh::bit(all);
}

}  // namespace

// One fresh process per case: g_tasking_handle is process-wide and cannot be un-initialised, and
// "before initialisation" / "first initialisation" are part of the property. The parent never
// calls the library (no threads exist at fork time); a child that dies (sanitizer abort, signal)
// ends the run with a non-zero exit code so that the runner attributes the crash to that case.
static std::string step(const std::vector<std::string> &w)
{
  const std::string &op = w[0];
  if (op == "init") {
    long n = vh::to_ll(w[1]);
    if (w.size() > 2)
      tasking::initTaskingSystem((int)n, w[2] != "0");
    else
      tasking::initTaskingSystem((int)n);
    g_inited = true;
    g_lastN = n;
    return "ok";
  }
  if (op == "num") {
    int v = tasking::numTaskingThreads();
    if (g_inited && g_lastN <= 0)
      return v > 0 ? "pos" : "nonpos";
    return std::to_string(v);
  }
  if (op == "tnum" || op == "tpfor") {
    std::vector<std::string> w2(w);
    w2[0] = op.substr(1);
    std::string r;
    std::thread t([&]() { r = step(w2); });
    t.join();
    return std::string(C13_BACKEND) + " " + r;
  }
  if (op == "pfor") {
    int size = (int)vh::to_ll(w[1]);
    long us = vh::to_ll(w[2]);
    std::vector<std::atomic<int>> hits(size);
    for (auto &h : hits)
      h = 0;
    g_max = 0;
    tasking::parallel_for(size, [&](int i) {
      InBody in;
      hits[i]++;
      work(us);
    });
    return verdict(hits);
  }
  if (op == "nest") {
    int a = (int)vh::to_ll(w[1]), b = (int)vh::to_ll(w[2]);
    long us = vh::to_ll(w[3]);
    std::vector<std::atomic<int>> hits((size_t)a * b);
    for (auto &h : hits)
      h = 0;
    g_max = 0;
    tasking::parallel_for(a, [&](int i) {
      InBody out;
      tasking::parallel_for(b, [&](int j) {
        InBody in;
        hits[(size_t)i * b + j]++;
        work(us);
      });
    });
    return verdict(hits);
  }
  return "bad-op";
}

static const int CASE_TIMEOUT_S = 20;  // a case normally takes well under a second

static int runCase(const std::vector<std::string> &lines)
{
  fflush(stdout);
  fflush(stderr);
  pid_t pid = fork();
  if (pid < 0)
    return 3;
  if (pid == 0) {
    prctl(PR_SET_PDEATHSIG, SIGKILL);  // never outlive the harness (e.g. when the runner times out)
    for (auto &l : lines) {
      std::string out;
      try {
        out = step(vh::words(l));
      } catch (const std::exception &e) {
        out = std::string("uncaught:") + typeid(e).name();
      }
      vh::emit(out);
    }
    fflush(stdout);
    // normal exit: runs the static destructors (g_tasking_handle, the internal scheduler's
    // shutdown) so that a defect there is observed too
    exit(0);
  }
  // a case that does not finish (deadlocked scheduler, loop that never joins) is an observation:
  // kill it and report like a crash
  int st = 0;
  auto t0 = std::chrono::steady_clock::now();
  for (;;) {
    pid_t r = waitpid(pid, &st, WNOHANG);
    if (r == pid)
      break;
    if (r < 0)
      return 3;
    long waited_ms = (long)std::chrono::duration_cast<std::chrono::milliseconds>(std::chrono::steady_clock::now() - t0).count();
    if (waited_ms >= CASE_TIMEOUT_S * 1000L) {
      fprintf(stderr, "c13: case did not finish within %d s, killed\n", CASE_TIMEOUT_S);
      kill(pid, SIGKILL);
      waitpid(pid, &st, 0);
      return 124;
    }
    usleep(waited_ms < 200 ? 1000 : 5000);
  }
  if (WIFEXITED(st))
    return WEXITSTATUS(st);
  return 128 + (WIFSIGNALED(st) ? WTERMSIG(st) : 0);
}

int main()
{
  // read everything first: a child must never share unread, seekable input with the parent
  std::vector<std::string> input;
  std::string line;
  while (std::getline(std::cin, line))
    input.push_back(line);
  std::vector<std::string> cur;
  bool open = false;
  for (auto &l : input) {
    auto w = vh::words(l);
    if (w.empty())
      continue;
    if (w.size() >= 2 && w[0] == "#" && w[1] == "case") {
      if (open) {
        int rc = runCase(cur);
        if (rc != 0)
          return rc;
      }
      cur.clear();
      open = true;
      vh::emit(l);
      continue;
    }
    cur.push_back(l);
  }
  if (open || !cur.empty()) {
    int rc = runCase(cur);
    if (rc != 0)
      return rc;
  }
  return 0;
}
