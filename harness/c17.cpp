// C17 correspondence harness: multidim_index_sequence, array3D::{longProduct,longIndex,coordsOf,for_each},
// ActualArray3D and the IndexShifted / Accessor / SubBox / MultiSlice adaptors, getValueRange.
// Same op lines as lean/Driver/C17.lean; every observation is an integer (or a list of integers).
#include "common.h"
#include <memory>
#include <vector>
#include <sys/mman.h>
#include <sys/time.h>
#include "rkcommon/utility/multidim_index_sequence.h"
#include "rkcommon/array3D/for_each.h"
#include "rkcommon/array3D/Array3D.h"

using namespace rkcommon;
using namespace rkcommon::array3D;
typedef unsigned long long ull;
typedef long long ll;

static std::string S(ull v) { return std::to_string(v); }
static std::string SI(ll v) { return std::to_string(v); }
static std::string show(const vec_t<size_t, 2> &c) { return S(c.x) + "," + S(c.y); }
static std::string show(const vec_t<size_t, 3> &c) { return S(c.x) + "," + S(c.y) + "," + S(c.z); }
static std::string show(const vec3i &c) { return SI(c.x) + "," + SI(c.y) + "," + SI(c.z); }

struct Overrun {};  // thrown when a loop visits more elements than the region can hold (keeps a broken loop finite)

struct Joiner {
  std::string out;
  ull count = 0, cap = ~0ull;
  Joiner() {}
  explicit Joiner(ull cap_) : cap(cap_) {}
  void add(const std::string &s)
  {
    if (++count > cap) throw Overrun();
    if (!out.empty()) out += ";";
    out += s;
  }
  std::string str() const { return out.empty() ? "-" : out; }
};

static ull span(ll lo, ll hi) { return hi > lo ? (ull)(hi - lo) : 0; }

// a stateful callable passed to for_each as an lvalue and inspected afterwards: the caller's own object must have
// been called (not a copy of it)
struct Collect {
  Joiner j;
  explicit Collect(ull cap) : j(cap) {}
  void operator()(const vec3i &c) { j.add(show(c)); }
};

// value pattern of a freshly created array: cell i holds (i*37+11) mod 101 - 50
static int pattern(ull i) { return (int)((i * 37 + 11) % 101) - 50; }

struct Pool {
  std::vector<std::shared_ptr<Array3D<int>>> arr;
  std::vector<ActualArray3D<int> *> actual;  // non-null for ActualArray3D entries
  std::vector<std::unique_ptr<std::vector<int>>> ext;  // externally owned cell memory
};

// Address space (not memory) for the cells of arrays with more than 2^31 / 2^32 cells: a NORESERVE mapping,
// only the pages actually written get backed.  Lets get()/set() of huge arrays run for real.
static const size_t BIGMEM_BYTES = ((size_t)1 << 36) + 4096;   // 2^35 two-byte cells (short: an element type for which range_t<T> is well-formed)
static short *bigmem()
{
  static short *p = nullptr;
  static bool tried = false;
  if (!tried) {
    tried = true;
    void *m = mmap(nullptr, BIGMEM_BYTES, PROT_READ | PROT_WRITE, MAP_PRIVATE | MAP_ANONYMOUS | MAP_NORESERVE, -1, 0);
    if (m != MAP_FAILED) p = (short *)m;
  }
  return p;
}

// An operation on the huge mapping touches a handful of cells. One that instead walks the mapping would commit tens of
// GiB: it is stopped after 3 s of CPU time (user + kernel: the page faults are most of it) (SIGPROF ends the process; the runner reports the case as a crash).
struct CpuGuard {
  explicit CpuGuard(int seconds) { itimerval t{}; t.it_value.tv_sec = seconds; setitimer(ITIMER_PROF, &t, nullptr); }
  ~CpuGuard() { itimerval t{}; setitimer(ITIMER_PROF, &t, nullptr); }
};

template <typename SEQ, typename VEC>
static std::string iterProtocol(const SEQ &seq, const SEQ &other, const VEC &dims, const VEC &odims, ull st)
{
  typedef decltype(seq.begin()) IT;
  IT it(dims, (size_t)st);
  IT r = ++it;  // pre-increment returns a copy
  ull c1 = it.current();
  IT &r2 = it++;  // post-increment returns *this
  ull c2 = it.current(), c3 = r2.current();
  IT e = seq.end(), b = seq.begin();
  IT o(odims, it.current());
  (void)other;
  std::string out = S(c1) + " " + S(r.current()) + " " + S(c2) + " " + S(c3) + " " + vh::bit(it == e) + " " +
      vh::bit(it != e) + " " + vh::bit(it != b) + " " + vh::bit(it == o) + " " + vh::bit(it == it) + " " + show(*it);
  IT it2 = it;
  IT r3 = --it2;
  out += " " + S(it2.current()) + " " + S(r3.current());
  it2.jump_to((size_t)st);
  out += " " + S(it2.current());
  return out;
}

// every way of moving an iterator, each followed by a dereference of the moved iterator (and of what the operator
// returned); printed as <current()>:<*it>
template <typename SEQ, typename VEC>
static std::string iterMoves(const SEQ &, const VEC &dims, ull st, ull n)
{
  typedef decltype(std::declval<SEQ>().begin()) IT;
  auto sh = [](const IT &i) { return S(i.current()) + ":" + show(*i); };
  std::string out;
  IT it(dims, (size_t)st);
  { IT r = --it; out += sh(it) + " " + sh(r); }
  { IT r = ++it; out += " " + sh(it) + " " + sh(r); }
  { IT &r = it--; out += " " + sh(it) + " " + sh(r); }
  { IT &r = it++; out += " " + sh(it) + " " + sh(r); }
  { IT &r = it + (size_t)n; out += " " + sh(r); }
  { IT &r = it - (size_t)n; out += " " + sh(r); }
  { IT o(dims, (size_t)n); IT &r = it + o; out += " " + sh(r); }
  { IT o(dims, (size_t)n); IT &r = it - o; out += " " + sh(it); (void)r; }
  it.jump_to((size_t)n);
  out += " " + sh(it);
  return out;
}

int main()
{
  std::unique_ptr<Pool> pool(new Pool);
  auto I = [](const std::string &s) { return (int)vh::to_ll(s); };
  auto U = [](const std::string &s) { return (size_t)vh::to_ull(s); };
  return vh::run(
      [&]() { pool.reset(new Pool); },
      [&](const std::vector<std::string> &w) -> std::string {
        const std::string &op = w[0];
        Pool &P = *pool;
        // ---- multidim_index_sequence
        if (op == "tot2") return S(index_sequence_2D(vec_t<size_t, 2>(U(w[1]), U(w[2]))).total_indices());
        if (op == "tot3") return S(index_sequence_3D(vec_t<size_t, 3>(U(w[1]), U(w[2]), U(w[3]))).total_indices());
        if (op == "fl2")
          return S(index_sequence_2D(vec_t<size_t, 2>(U(w[1]), U(w[2]))).flatten(vec_t<size_t, 2>(U(w[3]), U(w[4]))));
        if (op == "fl3")
          return S(index_sequence_3D(vec_t<size_t, 3>(U(w[1]), U(w[2]), U(w[3])))
                       .flatten(vec_t<size_t, 3>(U(w[4]), U(w[5]), U(w[6]))));
        if (op == "rs2") return show(index_sequence_2D(vec_t<size_t, 2>(U(w[1]), U(w[2]))).reshape(U(w[3])));
        if (op == "rs3") return show(index_sequence_3D(vec_t<size_t, 3>(U(w[1]), U(w[2]), U(w[3]))).reshape(U(w[4])));
        if (op == "it2") {
          index_sequence_2D seq(vec_t<size_t, 2>(U(w[1]), U(w[2])));
          Joiner j((ull)U(w[1]) * U(w[2]) + 2);
          try { for (auto c : seq) j.add(show(c)); } catch (const Overrun &) { return "overrun " + j.str(); }
          return j.str();
        }
        if (op == "it3") {
          index_sequence_3D seq(vec_t<size_t, 3>(U(w[1]), U(w[2]), U(w[3])));
          Joiner j((ull)U(w[1]) * U(w[2]) * U(w[3]) + 2);
          try { for (auto c : seq) j.add(show(c)); } catch (const Overrun &) { return "overrun " + j.str(); }
          return j.str();
        }
        if (op == "itb2" || op == "itb3") {
          // the backward walk: for (it = end(); it != begin(); ) { --it; visit(*it); }
          std::string out;
          if (op == "itb2") {
            index_sequence_2D seq(vec_t<size_t, 2>(U(w[1]), U(w[2])));
            Joiner j((ull)U(w[1]) * U(w[2]) + 2);
            try { for (auto it = seq.end(); it != seq.begin();) { --it; j.add(show(*it)); } } catch (const Overrun &) { return "overrun " + j.str(); }
            return j.str();
          }
          index_sequence_3D seq(vec_t<size_t, 3>(U(w[1]), U(w[2]), U(w[3])));
          Joiner j((ull)U(w[1]) * U(w[2]) * U(w[3]) + 2);
          try { for (auto it = seq.end(); it != seq.begin();) { --it; j.add(show(*it)); } } catch (const Overrun &) { return "overrun " + j.str(); }
          return j.str();
        }
        if (op == "itp2") {
          vec_t<size_t, 2> d(U(w[1]), U(w[2])), o(U(w[2]), U(w[1]));
          return iterProtocol(index_sequence_2D(d), index_sequence_2D(o), d, o, U(w[3]));
        }
        if (op == "itq2") {
          vec_t<size_t, 2> d(U(w[1]), U(w[2]));
          return iterMoves(index_sequence_2D(d), d, U(w[3]), U(w[4]));
        }
        if (op == "itq3") {
          vec_t<size_t, 3> d(U(w[1]), U(w[2]), U(w[3]));
          return iterMoves(index_sequence_3D(d), d, U(w[4]), U(w[5]));
        }
        if (op == "itp3") {
          vec_t<size_t, 3> d(U(w[1]), U(w[2]), U(w[3])), o(U(w[2]), U(w[1]), U(w[3]));
          return iterProtocol(index_sequence_3D(d), index_sequence_3D(o), d, o, U(w[4]));
        }
        // ---- array3D/for_each.h
        if (op == "lp") return S(longProduct(vec3i(I(w[1]), I(w[2]), I(w[3]))));
        if (op == "li") return S(longIndex(vec3i(I(w[1]), I(w[2]), I(w[3])), vec3i(I(w[4]), I(w[5]), I(w[6]))));
        if (op == "co") return show(coordsOf(U(w[1]), vec3i(I(w[2]), I(w[3]), I(w[4]))));
        if (op == "fe" || op == "feb") {
          vec3i lo(I(w[1]), I(w[2]), I(w[3])), hi(I(w[4]), I(w[5]), I(w[6]));
          Joiner j((span(lo.x, hi.x) + 2) * (span(lo.y, hi.y) + 2) * (span(lo.z, hi.z) + 2));
          Collect f(j.cap);
          try {
            if (op == "fe") { for_each(lo, hi, [&](const vec3i &c) { j.add(show(c)); }); for_each(lo, hi, f); }
            else { for_each(box3i(lo, hi), [&](const vec3i &c) { j.add(show(c)); }); for_each(box3i(lo, hi), f); }
          } catch (const Overrun &) { return "overrun " + j.str(); }
          return j.str() + (f.j.str() != j.str() ? " lvalue-functor-saw:" + f.j.str() : "");
        }
        if (op == "fes") {
          vec3i hi(I(w[1]), I(w[2]), I(w[3]));
          Joiner j((span(0, hi.x) + 2) * (span(0, hi.y) + 2) * (span(0, hi.z) + 2));
          Collect f(j.cap);
          try { for_each(hi, [&](const vec3i &c) { j.add(show(c)); }); for_each(hi, f); } catch (const Overrun &) { return "overrun " + j.str(); }
          return j.str() + (f.j.str() != j.str() ? " lvalue-functor-saw:" + f.j.str() : "");
        }
        // ---- ActualArray3D
        if (op == "bigidx") {
          // index arithmetic only: the array is given a 1-cell external buffer that is never accessed
          int cell = 0;
          ActualArray3D<int> a(vec3i(I(w[1]), I(w[2]), I(w[3])), &cell);
          return S(a.numElements()) + " " + S(a.indexOf(vec3i(I(w[4]), I(w[5]), I(w[6])))) + " " + show(a.size());
        }
        if (op == "bigrw") {
          // bigrw dx dy dz  x y z  v  idx  wx wy wz : set(c,v) on an array of dx*dy*dz (<= 2^35) two-byte cells, then
          // get(c), the raw cell at the linear index given in the op line, and get(w) (w possibly outside)
          short *mem = bigmem();
          if (!mem) return "nomem";
          vec3i d(I(w[1]), I(w[2]), I(w[3])), c(I(w[4]), I(w[5]), I(w[6])), q(I(w[9]), I(w[10]), I(w[11]));
          ull n = (ull)d.x * (ull)d.y * (ull)d.z, idx = U(w[8]);
          if (n > (BIGMEM_BYTES - 4096) / sizeof(short) || idx >= n) return "bad-op";
          CpuGuard guard(3);
          ActualArray3D<short> a(d, mem);
          a.set(c, (short)I(w[7]));
          int r1 = a.get(c), r2 = mem[idx], r3 = a.get(q);
          a.set(c, 0);
          mem[idx] = 0;
          return SI(r1) + " " + SI(r2) + " " + SI(r3);
        }
        if (op == "new" || op == "ext") {
          vec3i d(I(w[1]), I(w[2]), I(w[3]));
          ull n = (ull)d.x * (ull)d.y * (ull)d.z;  // the harness' own count (extents are small and >= 0 here)
          std::shared_ptr<ActualArray3D<int>> a;
          if (op == "ext") {
            P.ext.emplace_back(new std::vector<int>((size_t)n + 1));
            a = std::make_shared<ActualArray3D<int>>(d, P.ext.back()->data());
          } else {
            a = std::make_shared<ActualArray3D<int>>(d);
          }
          for (ull i = 0; i < n; i++) a->value[i] = pattern(i);
          P.arr.push_back(a);
          P.actual.push_back(a.get());
          return S(P.arr.size() - 1) + " " + S(a->numElements());
        }
        auto act = [&](const std::string &k) -> ActualArray3D<int> * {
          size_t i = U(k);
          return i < P.actual.size() ? P.actual[i] : nullptr;
        };
        auto any = [&](const std::string &k) -> std::shared_ptr<Array3D<int>> {
          size_t i = U(k);
          return i < P.arr.size() ? P.arr[i] : nullptr;
        };
        if (op == "set") { auto a = act(w[1]); if (!a) return "bad-op"; a->set(vec3i(I(w[2]), I(w[3]), I(w[4])), I(w[5])); return "ok"; }
        if (op == "clear") { auto a = act(w[1]); if (!a) return "bad-op"; a->clear(I(w[2])); return "ok"; }
        if (op == "idx") { auto a = act(w[1]); if (!a) return "bad-op"; return S(a->indexOf(vec3i(I(w[2]), I(w[3]), I(w[4])))); }
        if (op == "num") { auto a = act(w[1]); if (!a) return "bad-op"; return S(a->numElements()); }
        if (op == "raw") { auto a = act(w[1]); if (!a) return "bad-op"; return SI(a->value[U(w[2])]); }
        // ---- adaptors
        if (op == "shift") {
          auto a = any(w[1]); if (!a) return "bad-op";
          P.arr.push_back(std::make_shared<IndexShiftedArray3D<int>>(a, vec3i(I(w[2]), I(w[3]), I(w[4]))));
          P.actual.push_back(nullptr);
          return S(P.arr.size() - 1);
        }
        if (op == "acc") {
          auto a = any(w[1]); if (!a) return "bad-op";
          P.arr.push_back(std::make_shared<Array3DAccessor<int, int>>(a));
          P.actual.push_back(nullptr);
          return S(P.arr.size() - 1);
        }
        if (op == "sub") {
          auto a = any(w[1]); if (!a) return "bad-op";
          P.arr.push_back(std::make_shared<SubBoxArray3D<int>>(
              a, box3i(vec3i(I(w[2]), I(w[3]), I(w[4])), vec3i(I(w[5]), I(w[6]), I(w[7])))));
          P.actual.push_back(nullptr);
          return S(P.arr.size() - 1);
        }
        if (op == "ms") {
          std::vector<std::shared_ptr<Array3D<int>>> sl;
          for (size_t i = 1; i < w.size(); i++) { auto a = any(w[i]); if (!a) return "bad-op"; sl.push_back(a); }
          if (sl.empty()) return "bad-op";
          P.arr.push_back(std::make_shared<MultiSliceArray3D<int>>(sl));
          P.actual.push_back(nullptr);
          return S(P.arr.size() - 1);
        }
        // ---- the Array3D interface on any pool entry
        if (op == "size") { auto a = any(w[1]); if (!a) return "bad-op"; return show(a->size()); }
        if (op == "get") { auto a = any(w[1]); if (!a) return "bad-op"; return SI(a->get(vec3i(I(w[2]), I(w[3]), I(w[4])))); }
        if (op == "get8") {
          auto a = any(w[1]); if (!a) return "bad-op";
          Array3DAccessor<int, unsigned char> acc(a);
          return SI(acc.get(vec3i(I(w[2]), I(w[3]), I(w[4]))));
        }
        if (op == "get64") {
          auto a = any(w[1]); if (!a) return "bad-op";
          Array3DAccessor<int, long long> acc(a);
          return SI(acc.get(vec3i(I(w[2]), I(w[3]), I(w[4]))));
        }
        if (op == "dump") {
          auto a = any(w[1]); if (!a) return "bad-op";
          // enumerate with the harness' own loops (not for_each) so the two are checked independently
          Joiner j;
          for (int z = I(w[4]); z < I(w[7]); z++)
            for (int y = I(w[3]); y < I(w[6]); y++)
              for (int x = I(w[2]); x < I(w[5]); x++)
                j.add(SI(a->get(vec3i(x, y, z))));
          return j.str();
        }
        if (op == "vr") {
          auto a = any(w[1]); if (!a) return "bad-op";
          vec3i b(I(w[2]), I(w[3]), I(w[4])), e(I(w[5]), I(w[6]), I(w[7]));
          auto r = a->getValueRange(b, e);
          // an empty region has no values: the property leaves the returned range open
          if (e.x <= b.x || e.y <= b.y || e.z <= b.z) return "empty";
          return SI(r.lower) + " " + SI(r.upper);
        }
        if (op == "vra") {
          auto a = any(w[1]); if (!a) return "bad-op";
          vec3i e = a->size();
          if (e.x <= 0 || e.y <= 0 || e.z <= 0) return "empty";  // get() on an array without cells is not defined
          auto r = a->getValueRange();
          return SI(r.lower) + " " + SI(r.upper);
        }
        return "bad-op";
      });
}
