// C05 correspondence harness: the wrappers of tr/c05_drv.cpp (real rkcommon code) called with the
// same flat float arguments as the Lean driver; results compared bit for bit.
#include "drv_common.h"
#include "../tr/c05_drv.cpp"
#include "gen/c05_dispatch.inc"

// ---- integer instantiations (not translated: the same templates with T = int32_t, whose "infinities" are the type's
// extremes from constants.h). Decimal int arguments; judged by the integer oracle of props/c05.py only.
namespace ii {
using namespace rkcommon::math;
struct In {
  const std::vector<long long> &x;
  size_t p;
  int s() { return p < x.size() ? (int)x[p++] : 0; }
  vec3i v() { int a = s(), b = s(), c = s(); return vec3i(a, b, c); }
  range1i r() { int a = s(), b = s(); return range1i(a, b); }
  box3i b() { vec3i a = v(), c = v(); return box3i(a, c); }
};
static std::string show(int v) { return std::to_string(v); }
static std::string show(const vec3i &v) { return show(v.x) + " " + show(v.y) + " " + show(v.z); }
static std::string show(const range1i &r) { return show(r.lower) + " " + show(r.upper); }
static std::string show(const box3i &b) { return show(b.lower) + " " + show(b.upper); }
static std::string run(const std::vector<std::string> &w)
{
  std::vector<long long> xs;
  for (size_t i = 1; i < w.size(); i++) xs.push_back(std::stoll(w[i]));
  In in{xs, 0};
  const std::string &n = w[0];
  if (n == "i_r1_default") { range1i r; return show(r) + " " + (r.empty() ? "1" : "0"); }
  if (n == "i_b3_default") { box3i b; return show(b) + " " + (b.empty() ? "1" : "0"); }
  if (n == "i_r1_extend_s") { range1i r = in.r(); int t = in.s(); r.extend(t); return show(r); }
  if (n == "i_r1_extend_r") { range1i r = in.r(), t = in.r(); r.extend(t); return show(r); }
  if (n == "i_r1_def_extend_s") { range1i r; int t = in.s(); r.extend(t); return show(r); }
  if (n == "i_r1_extend_def") { range1i r = in.r(); r.extend(range1i()); return show(r); }
  if (n == "i_r1_contains") { range1i r = in.r(); int t = in.s(); return r.contains(t) ? "1" : "0"; }
  if (n == "i_r1_empty") { range1i r = in.r(); return r.empty() ? "1" : "0"; }
  if (n == "i_b3_extend_p") { box3i b = in.b(); vec3i p = in.v(); b.extend(p); return show(b); }
  if (n == "i_b3_extend_b") { box3i b = in.b(), c = in.b(); b.extend(c); return show(b); }
  if (n == "i_b3_def_extend_p") { box3i b; vec3i p = in.v(); b.extend(p); return show(b); }
  if (n == "i_b3_extend_def") { box3i b = in.b(); b.extend(box3i()); return show(b); }
  if (n == "i_b3_contains") { box3i b = in.b(); vec3i p = in.v(); return b.contains(p) ? "1" : "0"; }
  if (n == "i_b3_empty") { box3i b = in.b(); return b.empty() ? "1" : "0"; }
  if (n == "i_b3_inter") { box3i b = in.b(), c = in.b(); return show(intersectionOf(b, c)); }
  if (n == "i_b3_disjoint") { box3i b = in.b(), c = in.b(); return disjoint(b, c) ? "1" : "0"; }
  if (n == "i_b3_touch") { box3i b = in.b(), c = in.b(); return touchingOrOverlapping(b, c) ? "1" : "0"; }
  return "bad-op";
}
}  // namespace ii

int main()
{
  return vh::run([]() {}, [](const std::vector<std::string> &w) -> std::string {
    if (w[0].compare(0, 2, "i_") == 0)
      return ii::run(w);
    std::vector<float> xs;
    for (size_t i = 1; i < w.size(); i++)
      xs.push_back(vh::f32_of_tok(w[i]));
    std::string out;
    auto emitS = [&](float f) { if (!out.empty()) out += " "; out += vh::tok_of_f32(f); };
    auto emitB = [&](bool b) { if (!out.empty()) out += " "; out += b ? "1" : "0"; };
    if (!vdrv_dispatch<float>(w[0], xs, emitS, emitB))
      return "bad-op";
    return out.empty() ? "-" : out;
  });
}
