// C08 correspondence harness: rkcommon::memory::IntrusivePtr / RefCountedObject driven by the
// same op lines as the Lean model (lean/Driver/C08.lean).
//
// Handle variables ("cells"): b0..b3 = Ref<Base> (index 0..3), d0 d1 = Ref<Node> (4, 5),
// t<i>s<j> = Ref<Base> owned by thread i (7 + 4*(i-1) + j), m<k> = the member handle
// `Ref<Base> next` of object k.  Cells are raw storage; handles are constructed / destroyed by
// explicit ops, so every constructor and the destructor of IntrusivePtr is exercised by name.
// All objects are `Node`s (derived from Base, derived from RefCountedObject); the pointee
// destructor logs the object id.
//
// After every op one line: use counts of the objects that are still alive (harness-side
// liveness = destructor not yet run), destructor counts, target of every cell (object id, "-"
// null, "x" no handle), targets of the member handles, operator== of handle pairs.
// `tp <tid> <op,arg,..> ...` stores a thread program, `mtrun` runs all stored programs
// concurrently (real threads, common start barrier) and prints the same state line.
#include "common.h"
#include <atomic>
#include <memory>
#include <new>
#include <thread>
#include <unistd.h>
#include "rkcommon/memory/IntrusivePtr.h"
#include "rkcommon/memory/RefCount.h"

using rkcommon::memory::Ref;
using rkcommon::memory::RefCount;

static const int NS = 23;
static const int MAXOBJ = 16;

static std::atomic<int> g_destroyed[MAXOBJ];
static std::atomic<int> g_live[MAXOBJ];

static void inspectHandles();

struct Base : public RefCount
{
  int id;
  Base(int i) : id(i) { g_live[i] = 1; }
  ~Base() override
  {
    g_destroyed[id]++;
    g_live[id] = 0;
    inspectHandles();
  }
};

// Node's counted base is NOT its first base: a polymorphic first base makes the Base sub-object start at a non-zero
// offset, so every Ref<Node> -> Ref<Base> conversion has to adjust the pointer.
struct Tagged
{
  long tag[2];
  Tagged() : tag{0x1111111111111111L, 0x2222222222222222L} {}
  virtual ~Tagged() {}
};

struct Node : public Tagged, public Base
{
  Ref<Base> next;
  Node(int i) : Base(i) {}
};

static_assert(sizeof(Ref<Base>) == sizeof(Ref<Node>), "handle sizes");

struct Cells
{
  alignas(16) unsigned char store[NS][sizeof(Ref<Base>)];
  bool made[NS];
  Node *objs[MAXOBJ];
  int nobj;
};

static Cells *g;

static bool isD(int x) { return x == 4 || x == 5; }

// a handle location: a cell index, or (index = -1) the member of an object
struct Loc
{
  int cell;
  int obj;
  bool d;
  void *p;
};

static Loc parseLoc(const std::string &w)
{
  Loc l{-1, -1, false, nullptr};
  int n = std::stoi(w.substr(1));
  if (w[0] == 'b') l.cell = n;
  else if (w[0] == 'd') l.cell = 4 + n;
  else if (w[0] == 't') {
    size_t s = w.find('s');
    int i = std::stoi(w.substr(1, s - 1)), j = std::stoi(w.substr(s + 1));
    l.cell = 7 + 4 * (i - 1) + j;
  } else if (w[0] == 'm') {
    if (n < 0 || n >= g->nobj) throw std::runtime_error("bad loc");
    l.obj = n;
    l.p = &g->objs[n]->next;
    return l;
  } else throw std::runtime_error("bad loc");
  if (l.cell < 0 || l.cell >= NS) throw std::runtime_error("bad loc");
  l.d = isD(l.cell);
  l.p = g->store[l.cell];
  return l;
}

#define RB(l) (*reinterpret_cast<Ref<Base> *>((l).p))
#define RD(l) (*reinterpret_cast<Ref<Node> *>((l).p))

// `watchall on`: while an object is being destroyed its destructor looks at every handle variable that exists at that
// moment (copies it and drops the copy, as an owner callback would: `Ref<Base> cur = current;`). Legal - the handles are
// live objects - and without effect on any count, provided no live handle still designates the object being destroyed.
static bool g_watch = false;
static void inspectHandles()
{
  if (!g_watch || !g) return;
  // a handle that still designates the dying object revives it and destroys it again, without end: report instead of
  // overflowing the stack (which ThreadSanitizer's signal handling turns into a hang)
  static thread_local int depth = 0;
  struct Depth { Depth() { ++depth; } ~Depth() { --depth; } } scope;
  if (depth > 64) {
    static const char msg[] = "c08 harness: an object under destruction was revived through a live handle and destroyed again (unbounded)\n";
    if (write(2, msg, sizeof msg - 1)) {}
    _exit(86);
  }
  for (int x = 0; x < 7; x++) {
    if (!g->made[x]) continue;
    if (isD(x)) { Ref<Node> cur(*reinterpret_cast<Ref<Node> *>(g->store[x])); (void)cur; }
    else { Ref<Base> cur(*reinterpret_cast<Ref<Base> *>(g->store[x])); (void)cur; }
  }
}

struct POp
{
  int code;
  Loc x, y;
  int k;
};

enum { NEW, CTOR_DEF, CTOR_COPY, CTOR_CONV, CTOR_MOVE, CTOR_RAW, CTOR_RAWNULL, DTOR, COPY, MOVE, SELFMOVE, CONV, RAW, NUL, INC, DEC, CTOR_CONVMOVE, CONVMOVE, BAD };

static POp parseOp(const std::vector<std::string> &w)
{
  POp o{BAD, {}, {}, -1};
  const std::string &op = w[0];
  auto L = [&](size_t i) { return parseLoc(w.at(i)); };
  if (op == "new") o.code = NEW;
  else if (op == "ctor_def") { o.code = CTOR_DEF; o.x = L(1); }
  else if (op == "ctor_copy") { o.code = CTOR_COPY; o.x = L(1); o.y = L(2); }
  else if (op == "ctor_conv") { o.code = CTOR_CONV; o.x = L(1); o.y = L(2); }
  else if (op == "ctor_move") { o.code = CTOR_MOVE; o.x = L(1); o.y = L(2); }
  else if (op == "ctor_raw") { o.code = CTOR_RAW; o.x = L(1); o.k = std::stoi(w.at(2)); }
  else if (op == "ctor_rawnull") { o.code = CTOR_RAWNULL; o.x = L(1); }
  else if (op == "dtor") { o.code = DTOR; o.x = L(1); }
  else if (op == "copy") { o.code = COPY; o.x = L(1); o.y = L(2); }
  else if (op == "move") { o.code = MOVE; o.x = L(1); o.y = L(2); }
  else if (op == "selfmove") { o.code = SELFMOVE; o.x = L(1); }
  else if (op == "conv") { o.code = CONV; o.x = L(1); o.y = L(2); }
  else if (op == "ctor_convmove") { o.code = CTOR_CONVMOVE; o.x = L(1); o.y = L(2); }
  else if (op == "convmove") { o.code = CONVMOVE; o.x = L(1); o.y = L(2); }
  else if (op == "raw") { o.code = RAW; o.x = L(1); o.k = std::stoi(w.at(2)); }
  else if (op == "null") { o.code = NUL; o.x = L(1); }
  else if (op == "inc") { o.code = INC; o.k = std::stoi(w.at(1)); }
  else if (op == "dec") { o.code = DEC; o.k = std::stoi(w.at(1)); }
  return o;
}

// Executes one operation on the real classes.  Thread-safe as long as the program respects
// the usage discipline (a thread names its own cells only; objs[] is read-only while threads run).
static void doOp(const POp &o)
{
  switch (o.code) {
  case NEW: {
    int id = g->nobj;
    g->objs[id] = new Node(id);
    g->nobj = id + 1;
    break;
  }
  case CTOR_DEF:
    if (o.x.d) new (o.x.p) Ref<Node>(); else new (o.x.p) Ref<Base>();
    g->made[o.x.cell] = true;
    break;
  case CTOR_COPY:
    if (o.x.d) new (o.x.p) Ref<Node>(static_cast<const Ref<Node> &>(RD(o.y)));
    else new (o.x.p) Ref<Base>(static_cast<const Ref<Base> &>(RB(o.y)));
    g->made[o.x.cell] = true;
    break;
  case CTOR_CONV:  // Ref<Base>(const Ref<Node>&): the converting constructor
    new (o.x.p) Ref<Base>(static_cast<const Ref<Node> &>(RD(o.y)));
    g->made[o.x.cell] = true;
    break;
  case CTOR_CONVMOVE:
    // Ref<Base>(std::move(derived handle)); whether the source is left as it was (converting copy) or emptied (a
    // converting move) is not determined by the property, so the source is then assigned nullptr and only that state
    // is observed: the object must end up with exactly one more reference (the new base handle) than before minus
    // the one the source gave up
    new (o.x.p) Ref<Base>(std::move(RD(o.y)));
    g->made[o.x.cell] = true;
    RD(o.y) = static_cast<Node *>(nullptr);
    break;
  case CONVMOVE:
    RB(o.x) = std::move(RD(o.y));
    RD(o.y) = static_cast<Node *>(nullptr);
    break;
  case CTOR_MOVE:
    if (o.x.d) new (o.x.p) Ref<Node>(std::move(RD(o.y)));
    else new (o.x.p) Ref<Base>(std::move(RB(o.y)));
    g->made[o.x.cell] = true;
    break;
  case CTOR_RAW:
    if (o.x.d) new (o.x.p) Ref<Node>(g->objs[o.k]);
    else new (o.x.p) Ref<Base>(static_cast<Base *>(g->objs[o.k]));
    g->made[o.x.cell] = true;
    break;
  case CTOR_RAWNULL:
    if (o.x.d) new (o.x.p) Ref<Node>(static_cast<Node *>(nullptr));
    else new (o.x.p) Ref<Base>(static_cast<Base *>(nullptr));
    g->made[o.x.cell] = true;
    break;
  case DTOR:
    g->made[o.x.cell] = false;   // from here on the variable is not a live handle any more (not inspected by destructors)
    if (o.x.d) RD(o.x).~Ref<Node>(); else RB(o.x).~Ref<Base>();
    break;
  case COPY:
    if (o.x.d) RD(o.x) = static_cast<const Ref<Node> &>(RD(o.y));
    else RB(o.x) = static_cast<const Ref<Base> &>(RB(o.y));
    break;
  case MOVE:
    if (o.x.d) RD(o.x) = std::move(RD(o.y));
    else RB(o.x) = std::move(RB(o.y));
    break;
  case SELFMOVE: {
    // x = std::move(x); the property does not determine what x holds afterwards (null or unchanged
    // are both consistent), so x is then assigned nullptr and only that state is observed
    if (o.x.d) { Ref<Node> &r = RD(o.x); r = std::move(RD(o.x)); r = static_cast<Node *>(nullptr); }
    else { Ref<Base> &r = RB(o.x); r = std::move(RB(o.x)); r = static_cast<Base *>(nullptr); }
    break;
  }
  case CONV:  // Ref<Base> = Ref<Node>: temporary through the converting constructor, move-assigned
    RB(o.x) = RD(o.y);
    break;
  case RAW:
    if (o.x.d) RD(o.x) = g->objs[o.k];
    else RB(o.x) = static_cast<Base *>(g->objs[o.k]);
    break;
  case NUL:
    if (o.x.d) RD(o.x) = static_cast<Node *>(nullptr);
    else RB(o.x) = static_cast<Base *>(nullptr);
    break;
  case INC: g->objs[o.k]->refInc(); break;
  case DEC: g->objs[o.k]->refDec(); break;
  default: throw std::runtime_error("bad op");
  }
}

static std::string target(const Base *p) { return p ? std::to_string(p->id) : std::string("-"); }

static std::string showCell(int x)
{
  if (!g->made[x]) return "x";
  Loc l{x, -1, isD(x), g->store[x]};
  return l.d ? target(RD(l).ptr) : target(RB(l).ptr);
}

static std::string showState()
{
  std::string c, d, h, m, e;
  for (int o = 0; o < g->nobj; o++) {
    if (o) { c += ","; d += ","; m += ","; }
    bool live = g_live[o] != 0;
    c += live ? std::to_string(g->objs[o]->useCount()) : std::string("-");
    d += std::to_string(g_destroyed[o].load());
    m += live ? target(g->objs[o]->next.ptr) : std::string("x");
  }
  for (int x = 0; x < NS; x++) {
    if (x) h += ",";
    h += showCell(x);
  }
  static const int pairs[7][2] = {{0, 1}, {0, 2}, {0, 3}, {1, 2}, {1, 3}, {2, 3}, {4, 5}};
  for (auto &pr : pairs) {
    int x = pr[0], y = pr[1];
    if (!g->made[x] || !g->made[y]) { e += "x"; continue; }
    Loc lx{x, -1, isD(x), g->store[x]}, ly{y, -1, isD(y), g->store[y]};
    bool eq, ne, bx, by;
    // both through const access paths and through non-const ones: the answer must be the same
    bool ceq, cne;
    if (lx.d) {
      const Ref<Node> &cx = RD(lx), &cy = RD(ly);
      ceq = cx == cy; cne = cx != cy;
      eq = RD(lx) == RD(ly); ne = RD(lx) != RD(ly); bx = bool(RD(lx)); by = bool(RD(ly));
    } else {
      const Ref<Base> &cx = RB(lx), &cy = RB(ly);
      ceq = cx == cy; cne = cx != cy;
      eq = RB(lx) == RB(ly); ne = RB(lx) != RB(ly); bx = bool(RB(lx)); by = bool(RB(ly));
    }
    if (ceq != eq || cne != ne) { e += "c"; continue; }  // const and non-const comparison disagree
    bool px = lx.d ? RD(lx).ptr != nullptr : RB(lx).ptr != nullptr;
    bool py = ly.d ? RD(ly).ptr != nullptr : RB(ly).ptr != nullptr;
    if (eq == ne || bx != px || by != py) e += "!";  // operator!= / operator bool inconsistent
    else e += vh::bit(eq);
  }
  return "c=" + c + " d=" + d + " h=" + h + " m=" + m + " e=" + e;
}

static std::vector<std::pair<int, std::vector<POp>>> g_progs;

static std::string runThreads()
{
  std::atomic<int> ready{0};
  std::atomic<bool> go{false};
  std::vector<std::thread> ts;
  const int n = (int)g_progs.size();
  for (auto &pr : g_progs) {
    const std::vector<POp> *ops = &pr.second;
    ts.emplace_back([ops, &ready, &go]() {
      ready++;
      while (!go.load()) {}
      for (const POp &o : *ops) doOp(o);
    });
  }
  while (ready.load() < n) {}
  go = true;
  for (auto &t : ts) t.join();
  g_progs.clear();
  return showState();
}

// acq_race k rounds: object k is referenced exactly once (its creator); in every round three threads each construct a
// handle from the raw pointer at the same moment (common spin barrier) - legal, the creator keeps the object alive -
// and the main thread then checks useCount() == 1 + 3 before the handles are dropped again.
static std::string acqRace(int k, int rounds)
{
  Node *obj = g->objs[k];
  const long base = obj->useCount();
  int lost = 0;
  std::atomic<int> ready{0}, round{0}, done{0};
  std::atomic<bool> stop{false};
  const int T = 3;
  Ref<Base> held[T];
  std::vector<std::thread> ts;
  for (int t = 0; t < T; t++)
    ts.emplace_back([&, t]() {
      for (int r = 1;; r++) {
        ready++;
        while (round.load() < r && !stop.load()) {}
        if (stop.load()) return;
        held[t] = Ref<Base>(obj);   // refInc from the raw pointer
        done++;
      }
    });
  for (int r = 1; r <= rounds; r++) {
    while (ready.load() < T * r) {}
    done = 0;
    round = r;
    while (done.load() < T) {}
    long c = obj->useCount();
    if (c != base + T) {
      ++lost;
      for (long i = c; i < base + T; i++) obj->refInc();   // repair the count so that the handles can be dropped
    }
    for (int t = 0; t < T; t++) held[t] = nullptr;
    if (lost) break;
  }
  while (ready.load() < T * (round.load() + 1)) {}
  stop = true;
  for (auto &t : ts) t.join();
  return "lost=" + std::to_string(lost);
}

int main()
{
  auto reset = [&]() {
    // abandon everything of the previous case (never run library code on possibly broken state)
    g = new Cells();
    for (int i = 0; i < MAXOBJ; i++) { g_destroyed[i] = 0; g_live[i] = 0; }
    g_progs.clear();
    g_watch = false;
  };
  reset();
  return vh::run(reset, [&](const std::vector<std::string> &w) -> std::string {
    if (w[0] == "tp") {
      std::vector<POp> ops;
      for (size_t i = 2; i < w.size(); i++) {
        std::vector<std::string> f;
        std::string cur;
        for (char ch : w[i]) { if (ch == ',') { f.push_back(cur); cur.clear(); } else cur += ch; }
        f.push_back(cur);
        POp o = parseOp(f);
        if (o.code == BAD || o.code == NEW) return "bad-op";
        ops.push_back(o);
      }
      g_progs.emplace_back(std::stoi(w[1]), std::move(ops));
      return "ok";
    }
    if ((w[0] == "incmany" || w[0] == "decmany") && w.size() == 3) {
      int k = std::stoi(w[1]);
      unsigned long long n = std::stoull(w[2]);
      if (k < 0 || k >= g->nobj || !g_live[k]) return "bad-op";
      if (w[0] == "incmany") { for (unsigned long long i = 0; i < n; ++i) g->objs[k]->refInc(); }
      else {
        if ((unsigned long long)g->objs[k]->useCount() <= n && g->objs[k]->useCount() > 0) return "bad-op";
        for (unsigned long long i = 0; i < n; ++i) g->objs[k]->refDec();
      }
      return showState();
    }
    if (w[0] == "watchall" && w.size() == 2) { g_watch = w[1] == "on"; return showState(); }
    if (w[0] == "mtrun") { g_watch = false; return runThreads(); }
    if (w[0] == "acq_race" && w.size() == 3) {
      int k = std::stoi(w[1]);
      if (k < 0 || k >= g->nobj || !g_live[k]) return "bad-op";
      return acqRace(k, std::stoi(w[2]));
    }
    POp o = parseOp(w);
    if (o.code == BAD) return "bad-op";
    if ((o.code == CTOR_RAW || o.code == RAW || o.code == INC || o.code == DEC) && (o.k < 0 || o.k >= g->nobj))
      return "bad-op";
    if (o.code == NEW && g->nobj >= MAXOBJ) return "bad-op";
    doOp(o);
    return showState();
  });
}
