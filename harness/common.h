// Shared plumbing of the correspondence harnesses (DESIGN 3.3).
// Reads op lines from stdin; "# case k" starts a new case (echoed, state reset);
// every other non-empty line is one operation and must print exactly one line.
#pragma once
#include <cstdio>
#include <cstdlib>
#include <iostream>
#include <sstream>
#include <string>
#include <vector>
#include <functional>
#include <stdexcept>

namespace vh {

inline std::vector<std::string> words(const std::string &line)
{
  std::vector<std::string> w;
  std::istringstream is(line);
  std::string t;
  while (is >> t)
    w.push_back(t);
  return w;
}

inline void emit(const std::string &s)
{
  fputs(s.c_str(), stdout);
  fputc('\n', stdout);
  fflush(stdout);  // a sanitizer abort must not lose earlier observations
}

inline long long to_ll(const std::string &s) { return std::stoll(s); }
inline unsigned long long to_ull(const std::string &s) { return std::stoull(s); }

// reset(): new case; step(words) -> one output line
inline int run(const std::function<void()> &reset,
    const std::function<std::string(const std::vector<std::string> &)> &step)
{
  std::string line;
  while (std::getline(std::cin, line)) {
    auto w = words(line);
    if (w.empty())
      continue;
    if (w.size() >= 2 && w[0] == "#" && w[1] == "case") {
      emit(line);
      reset();
      continue;
    }
    std::string out;
    try {
      out = step(w);
    } catch (const std::exception &e) {
      out = std::string("uncaught:") + typeid(e).name();
    }
    emit(out);
  }
  return 0;
}

inline const char *bit(bool b) { return b ? "1" : "0"; }

}  // namespace vh


// ---- allocation faults (opt in with #define VH_ALLOC_FAULTS before including this header, in ONE translation unit):
// global operator new / new[] are replaced by malloc-based ones (ASan still sees every block through malloc/free) that
// throw std::bad_alloc when the armed countdown reaches zero: vh::failAllocIn = n makes the n-th allocation from now
// fail (on the calling thread); 0 = disarmed. vh::allocFaultsFired counts how often a fault fired.
#ifdef VH_ALLOC_FAULTS
#include <new>
#include <cstdlib>
namespace vh {
static thread_local long failAllocIn = 0;
static long allocFaultsFired = 0;
inline void *faultyAlloc(std::size_t n)
{
  if (failAllocIn > 0 && --failAllocIn == 0) { ++allocFaultsFired; throw std::bad_alloc(); }
  void *p = std::malloc(n ? n : 1);
  if (!p) throw std::bad_alloc();
  return p;
}
}  // namespace vh
void *operator new(std::size_t n) { return vh::faultyAlloc(n); }
void *operator new[](std::size_t n) { return vh::faultyAlloc(n); }
void operator delete(void *p) noexcept { std::free(p); }
void operator delete[](void *p) noexcept { std::free(p); }
void operator delete(void *p, std::size_t) noexcept { std::free(p); }
void operator delete[](void *p, std::size_t) noexcept { std::free(p); }
#endif
