// C19 correspondence harness: the real rkcommon::utility::Observable / Observer / TimeStamp,
// driven by the same op lines as the Lean model (lean/Driver/C19.lean).
//
// Slots: b<n> observables, o<n> observers, t<n> time stamps; every object lives alone on the heap
// so that ASan sees any access to a destroyed one.  An operation that does not apply (slot
// occupied / empty) prints "skip" and does nothing, exactly like the model.
//
// Observations: wasNotified() results (0/1); for stamp operations the *rank* of the resulting
// value among the values seen so far in the case ("+r" new value with r smaller ones seen,
// "=r" equal to the r-th smallest seen) - the absolute numbers are not determined by the property;
// for the threaded operation a summary line computed from all values collected on all threads.
#include "common.h"
#include <functional>
#include <condition_variable>
#include <mutex>
#include <algorithm>
#include <atomic>
#include <memory>
#include <set>
#include <thread>
#include <vector>
#include "rkcommon/common.h"
// harness-only access to the private static counter TimeStamp::global, so that `tjump <n>` can put 2^31 / 2^32 / 2^40
// draws between two stamps without making them one by one (the class layout is unchanged by the access specifier)
#define private public
#include "rkcommon/utility/TimeStamp.h"
#undef private
#include "rkcommon/utility/Observer.h"

using namespace rkcommon::utility;

static const int NB = 8, NO = 12, NT = 12;
static std::unique_ptr<Observable> B[NB];
static std::unique_ptr<Observer> O[NO];
static std::unique_ptr<TimeStamp> T[NT];
static std::set<size_t> seen;

static int slot(const std::string &tok, int n)
{
  if (tok.size() < 2)
    throw std::runtime_error("bad slot");
  int k = std::stoi(tok.substr(1));
  if (k < 0 || k >= n)
    throw std::runtime_error("slot out of range");
  return k;
}

static std::string canon(size_t v)
{
  size_t r = std::distance(seen.begin(), seen.lower_bound(v));
  if (seen.count(v))
    return "=" + std::to_string(r);
  seen.insert(v);
  return "+" + std::to_string(r);
}

static std::string mt(int nthreads, int n)
{
  std::vector<std::vector<size_t>> vals(nthreads);
  std::vector<int> copiesOk(nthreads, 1);
  std::atomic<int> ready{0};
  std::atomic<bool> go{false};
  std::vector<std::thread> th;
  for (int t = 0; t < nthreads; t++) {
    th.emplace_back([&, t]() {
      std::vector<size_t> &mine = vals[t];
      mine.reserve(n > 0 ? n : 1);
      int ok = 1;
      ready++;
      while (!go.load())
        std::this_thread::yield();
      TimeStamp cur;
      mine.push_back(cur);
      for (int i = 1; i < n; i++) {
        if (i % 4 == 3) {
          TimeStamp fresh;
          mine.push_back(fresh);
          if (i % 8 == 7) {
            TimeStamp keep(fresh);
            TimeStamp cp(std::move(keep));
            if ((size_t)cp != (size_t)fresh)
              ok = 0;
            cur = std::move(cp);
          } else {
            TimeStamp cp(fresh);
            if ((size_t)cp != (size_t)fresh)
              ok = 0;
            cur = cp;
          }
          if ((size_t)cur != (size_t)fresh)
            ok = 0;
        } else {
          cur.renew();
          mine.push_back(cur);
        }
      }
      copiesOk[t] = ok;
    });
  }
  while (ready.load() < nthreads)
    std::this_thread::yield();
  go = true;
  for (auto &x : th)
    x.join();
  bool monotone = true, copies = true;
  std::vector<size_t> all;
  for (int t = 0; t < nthreads; t++) {
    copies = copies && copiesOk[t];
    for (size_t i = 0; i < vals[t].size(); i++) {
      if (i > 0 && !(vals[t][i - 1] < vals[t][i]))
        monotone = false;
      all.push_back(vals[t][i]);
    }
  }
  std::sort(all.begin(), all.end());
  bool unique = std::adjacent_find(all.begin(), all.end()) == all.end();
  return std::string("unique=") + vh::bit(unique) + " monotone=" + vh::bit(monotone) + " copies=" + vh::bit(copies)
      + " n=" + std::to_string(all.size());
}

// "on <k> <op...>": the operation is executed on persistent worker thread k (the caller waits for it), so a history
// can be spread over several threads while staying strictly sequential: what an observer sees must not depend on
// which thread notified and which one polls
struct Worker {
  std::thread th;
  std::mutex m;
  std::condition_variable cv;
  std::function<std::string()> job;
  std::string result;
  bool has = false, done = false, quit = false;
  void loop()
  {
    std::unique_lock<std::mutex> lk(m);
    for (;;) {
      cv.wait(lk, [&] { return has || quit; });
      if (quit) return;
      std::function<std::string()> j = std::move(job);
      has = false;
      lk.unlock();
      std::string r = j();
      lk.lock();
      result = std::move(r);
      done = true;
      cv.notify_all();
    }
  }
  std::string run(std::function<std::string()> j)
  {
    std::unique_lock<std::mutex> lk(m);
    if (!th.joinable()) th = std::thread([this] { loop(); });
    job = std::move(j);
    has = true;
    done = false;
    cv.notify_all();
    cv.wait(lk, [&] { return done; });
    return result;
  }
  ~Worker()
  {
    { std::lock_guard<std::mutex> lk(m); quit = true; }
    cv.notify_all();
    if (th.joinable()) th.join();
  }
};
static Worker g_workers[3];
static std::string stepOp(const std::vector<std::string> &w);

int main()
{
  return vh::run(
      []() {
        // leftovers of the previous case (generated cases destroy everything themselves)
        for (auto &o : O) o.reset();
        for (auto &b : B) b.reset();
        for (auto &t : T) t.reset();
        seen.clear();
      },
      [](const std::vector<std::string> &w) -> std::string {
        if (w[0] == "on" && w.size() >= 3) {
          int k = std::stoi(w[1]) % 3;
          std::vector<std::string> inner(w.begin() + 2, w.end());
          return g_workers[k].run([inner] { return stepOp(inner); });
        }
        return stepOp(w);
      });
}

static std::string stepOp(const std::vector<std::string> &w)
{
  {
      {
        const std::string &op = w[0];
        if (op == "bnew") {
          int b = slot(w.at(1), NB);
          if (B[b]) return "skip";
          B[b].reset(new Observable);
          return "ok";
        }
        if (op == "bdel") {
          int b = slot(w.at(1), NB);
          if (!B[b]) return "skip";
          B[b].reset();
          return "ok";
        }
        if (op == "bcopy" || op == "bmove") {   // bmove: the source is an rvalue (an observable has no move of its own)
          int b = slot(w.at(1), NB), s = slot(w.at(2), NB);
          if (B[b] || !B[s]) return "skip";
          if (op == "bcopy") B[b].reset(new Observable(*B[s])); else B[b].reset(new Observable(std::move(*B[s])));
          return "ok";
        }
        if (op == "bassign" || op == "bmassign") {
          int b = slot(w.at(1), NB), s = slot(w.at(2), NB);
          if (!B[b] || !B[s]) return "skip";
          if (op == "bassign") *B[b] = *B[s]; else *B[b] = std::move(*B[s]);
          return "ok";
        }
        if (op == "onew") {
          int o = slot(w.at(1), NO), b = slot(w.at(2), NB);
          if (O[o] || !B[b]) return "skip";
          O[o].reset(new Observer(*B[b]));
          return "ok";
        }
        if (op == "odel") {
          int o = slot(w.at(1), NO);
          if (!O[o]) return "skip";
          O[o].reset();
          return "ok";
        }
        if (op == "ocopy" || op == "omove") {
          int o = slot(w.at(1), NO), s = slot(w.at(2), NO);
          if (O[o] || !O[s]) return "skip";
          if (op == "ocopy")
            O[o].reset(new Observer(*O[s]));
          else
            O[o].reset(new Observer(std::move(*O[s])));
          return "ok";
        }
        if (op == "oassign" || op == "omassign") {
          int o = slot(w.at(1), NO), s = slot(w.at(2), NO);
          if (!O[o] || !O[s]) return "skip";
          if (op == "oassign")
            *O[o] = *O[s];
          else
            *O[o] = std::move(*O[s]);
          return "ok";
        }
        if (op == "notify") {
          int b = slot(w.at(1), NB);
          if (!B[b]) return "skip";
          B[b]->notifyObservers();
          return "ok";
        }
        if (op == "poll") {
          int o = slot(w.at(1), NO);
          if (!O[o]) return "skip";
          return vh::bit(O[o]->wasNotified());
        }
        if (op == "tnew") {
          int k = slot(w.at(1), NT);
          if (T[k]) return "skip";
          T[k].reset(new TimeStamp);
          return canon(*T[k]);
        }
        if (op == "trenew") {
          int k = slot(w.at(1), NT);
          if (!T[k]) return "skip";
          T[k]->renew();
          return canon(*T[k]);
        }
        if (op == "tcopy" || op == "tmove") {
          int k = slot(w.at(1), NT), s = slot(w.at(2), NT);
          if (T[k] || !T[s]) return "skip";
          if (op == "tcopy")
            T[k].reset(new TimeStamp(*T[s]));
          else
            T[k].reset(new TimeStamp(std::move(*T[s])));
          return canon(*T[k]);
        }
        if (op == "tassign" || op == "tmassign") {
          int k = slot(w.at(1), NT), s = slot(w.at(2), NT);
          if (!T[k] || !T[s]) return "skip";
          if (op == "tassign")
            *T[k] = *T[s];
          else
            *T[k] = std::move(*T[s]);
          return canon(*T[k]);
        }
        if (op == "tdel") {
          int k = slot(w.at(1), NT);
          if (!T[k]) return "skip";
          T[k].reset();
          return "ok";
        }
        if (op == "tval") {
          int k = slot(w.at(1), NT);
          if (!T[k]) return "skip";
          return canon(*T[k]);
        }
        if (op == "tjump") {
          TimeStamp::global.fetch_add((size_t)std::stoull(w.at(1)));
          return "ok";
        }
        if (op == "mt")
          return mt(std::stoi(w.at(1)), std::stoi(w.at(2)));
        return "bad-op";
      }
  }
}
