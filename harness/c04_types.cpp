// C04 implementation-side oracle over ALL element types and shapes: every vec_t overload family is compared with
// the scalar operation applied to the corresponding components (computed here, in the same element type, so the
// comparison is exact — bit patterns for floats). Covers what the translator does not reach: the 10 element types,
// mixed element types, indexing / pointer view, arg_max, std::less, conversions, streaming.
// usage: c04_types <seed> <rounds>      prints "FAIL ..." lines and a final "checked=<n> failed=<k>"
#include <cstdint>
#include <cstdio>
#include <cstring>
#include <cmath>
#include <limits>
#include <sstream>
#include <iomanip>
#include <string>
#include <type_traits>
#include <functional>
#include "rkcommon/math/vec.h"

using namespace rkcommon::math;

static uint64_t rng_state = 1;
static uint64_t next_u64()
{
  uint64_t z = (rng_state += 0x9e3779b97f4a7c15ull);
  z = (z ^ (z >> 30)) * 0xbf58476d1ce4e5b9ull;
  z = (z ^ (z >> 27)) * 0x94d049bb133111ebull;
  return z ^ (z >> 31);
}
static long checked = 0, failed = 0;

template <typename T> const char *tname();
#define TN(T, s) template <> const char *tname<T>() { return s; }
TN(uint8_t, "uc") TN(int8_t, "c") TN(uint16_t, "us") TN(int16_t, "s") TN(uint32_t, "ui") TN(int32_t, "i")
TN(uint64_t, "ul") TN(int64_t, "l") TN(float, "f") TN(double, "d")

template <typename T> std::string show(T v)
{
  std::ostringstream o;
  if (std::is_floating_point<T>::value) {
    o.precision(17);
    o << (double)v;
  } else if (std::is_signed<T>::value)
    o << (long long)v;
  else
    o << (unsigned long long)v;
  return o.str();
}
template <typename T> bool same(T a, T b)
{
  if (std::is_floating_point<T>::value && a != a && b != b)
    return true;
  if (std::is_floating_point<T>::value)
    return std::memcmp(&a, &b, sizeof(T)) == 0;   // +0.0 and -0.0 are different results of the scalar operator
  return std::memcmp(&a, &b, sizeof(T)) == 0 || a == b;
}

// operand generator: pairwise distinct, small magnitude for signed types (no signed overflow), any value for
// unsigned (wrap-around is defined), occasional infinities for floats; never zero (used as divisor too)
template <typename T> T gen(int k)
{
  static const int primes[] = {2, 3, 5, 7, 11, 13, 17, 19, 23, 29, 31, 37};
  uint64_t r = next_u64();
  if (std::is_floating_point<T>::value) {
    if (r % 53 == 0)
      return (r & 64) ? std::numeric_limits<T>::infinity() : -std::numeric_limits<T>::infinity();
    T v = (T)(primes[(r >> 8) % 12]) + (T)((r >> 16) % 7) / (T)8 + (T)k * (T)0.125;
    return (r & 32) ? -v : v;
  }
  if (std::is_signed<T>::value) {
    int v = primes[(r >> 8) % 4] + k;  // 2..7+k : products of 4 stay < 127
    return (T)((r & 32) ? -v : v);
  }
  // 8/16-bit unsigned types are promoted to (signed) int: keep products of four below 2^31; their sums and
  // products still wrap when converted back to T
  if (sizeof(T) < 4)
    return (T)(30 + (primes[(r >> 8) % 12] + 40 * (k + 1)) % 180);
  if (r & 3)
    return (T)(primes[(r >> 8) % 12] + 40 * (k + 1));
  return (T)(std::numeric_limits<T>::max() - (T)(primes[(r >> 8) % 12] + k));         // near the maximum: wrap-around
}

template <typename V> struct comps;
template <typename T, bool A> struct comps<vec_t<T, 2, A>> { enum { N = 2 }; };
template <typename T, bool A> struct comps<vec_t<T, 3, A>> { enum { N = 3 }; };
template <typename T, bool A> struct comps<vec_t<T, 4, A>> { enum { N = 4 }; };

template <typename T> T get(const vec_t<T, 2> &v, int i) { return i == 0 ? v.x : v.y; }
template <typename T, bool A> T get(const vec_t<T, 3, A> &v, int i) { return i == 0 ? v.x : i == 1 ? v.y : v.z; }
template <typename T> T get(const vec_t<T, 4> &v, int i) { return i == 0 ? v.x : i == 1 ? v.y : i == 2 ? v.z : v.w; }
template <typename T> void set(vec_t<T, 2> &v, int i, T s) { (i == 0 ? v.x : v.y) = s; }
template <typename T, bool A> void set(vec_t<T, 3, A> &v, int i, T s) { (i == 0 ? v.x : i == 1 ? v.y : v.z) = s; }
template <typename T> void set(vec_t<T, 4> &v, int i, T s) { (i == 0 ? v.x : i == 1 ? v.y : i == 2 ? v.z : v.w) = s; }

template <typename V> std::string showv(const V &v)
{
  std::string s = "(";
  for (int i = 0; i < comps<V>::N; i++)
    s += (i ? "," : "") + show(get(v, i));
  return s + ")";
}

// the padded 3-component shape carries a fourth lane that is not a component: leave something in it (as after a
// memcpy from a float4 buffer) so that an operation that lets the padding lane into a result is visible
template <typename V> void dirtyPadding(V &, int) {}
template <typename T> void dirtyPadding(vec_t<T, 3, true> &v, int base) { v.padding_ = gen<T>(base + 5); }

template <typename V> V genv(int base)
{
  V v;
  for (int i = 0; i < comps<V>::N; i++)
    set(v, i, gen<typename V::scalar_t>(base + i));
  dirtyPadding(v, base);
  return v;
}

#define CHECK_COMP(opname, R, expr_expected, operands)                                                      \
  for (int i_ = 0; i_ < comps<decltype(R)>::N; i_++) {                                                      \
    int i = i_;                                                                                             \
    auto e_ = (expr_expected);                                                                              \
    auto g_ = get(R, i);                                                                                    \
    checked++;                                                                                              \
    if (!same<decltype(g_)>(g_, (decltype(g_))e_)) {                                                        \
      failed++;                                                                                             \
      printf("FAIL type=%s n=%d op=%s comp=%d operands=%s got=%s expected=%s\n", tname<T>(),               \
          comps<V>::N, opname, i, (operands).c_str(), show(g_).c_str(), show((decltype(g_))e_).c_str());    \
    }                                                                                                       \
  }
#define CHECK_SCALAR(opname, got, expected, operands)                                                       \
  {                                                                                                         \
    auto g_ = (got);                                                                                        \
    auto e_ = (decltype(g_))(expected);                                                                     \
    checked++;                                                                                              \
    if (!same<decltype(g_)>(g_, e_)) {                                                                      \
      failed++;                                                                                             \
      printf("FAIL type=%s n=%d op=%s operands=%s got=%s expected=%s\n", tname<T>(), comps<V>::N, opname,   \
          (operands).c_str(), show(g_).c_str(), show(e_).c_str());                                          \
    }                                                                                                       \
  }

template <typename T> struct promoted { using type = decltype(T() + T()); };

template <typename V, bool IS_FLOAT = std::is_floating_point<typename V::scalar_t>::value,
    bool IS_SIGNED = std::is_signed<typename V::scalar_t>::value>
struct extra {
  static void run(const V &, const V &) {}
};

template <typename V> void family()
{
  using T = typename V::scalar_t;
  const int N = comps<V>::N;
  V a = genv<V>(0), b = genv<V>(3);
  T s = gen<T>(7);
  std::string ab = showv(a) + " " + showv(b), as = showv(a) + " " + show(s);
  // vec-vec, vec-scalar, scalar-vec; results are converted back to T exactly as the code's constructor does
  { auto r = a + b; CHECK_COMP("add", r, (T)(get(a, i) + get(b, i)), ab) }
  { auto r = a - b; CHECK_COMP("sub", r, (T)(get(a, i) - get(b, i)), ab) }
  { auto r = a * b; CHECK_COMP("mul", r, (T)(get(a, i) * get(b, i)), ab) }
  { auto r = a / b; CHECK_COMP("div", r, (T)(get(a, i) / get(b, i)), ab) }
  { auto r = a + s; CHECK_COMP("add_vs", r, (T)(get(a, i) + s), as) }
  { auto r = a - s; CHECK_COMP("sub_vs", r, (T)(get(a, i) - s), as) }
  { auto r = a * s; CHECK_COMP("mul_vs", r, (T)(get(a, i) * s), as) }
  { auto r = a / s; CHECK_COMP("div_vs", r, (T)(get(a, i) / s), as) }
  { auto r = s + a; CHECK_COMP("add_sv", r, (T)(s + get(a, i)), as) }
  { auto r = s - a; CHECK_COMP("sub_sv", r, (T)(s - get(a, i)), as) }
  { auto r = s * a; CHECK_COMP("mul_sv", r, (T)(s * get(a, i)), as) }
  { auto r = s / a; CHECK_COMP("div_sv", r, (T)(s / get(a, i)), as) }
  { V r = a; r += b; CHECK_COMP("add_assign", r, (T)(get(a, i) + get(b, i)), ab) }
  { V r = a; r -= b; CHECK_COMP("sub_assign", r, (T)(get(a, i) - get(b, i)), ab) }
  { V r = a; r *= b; CHECK_COMP("mul_assign", r, (T)(get(a, i) * get(b, i)), ab) }
  { V r = a; r /= b; CHECK_COMP("div_assign", r, (T)(get(a, i) / get(b, i)), ab) }
  { V r = a; r += s; CHECK_COMP("add_assign_s", r, (T)(get(a, i) + s), as) }
  { V r = a; r *= s; CHECK_COMP("mul_assign_s", r, (T)(get(a, i) * s), as) }
  { auto r = +a; CHECK_COMP("pos", r, (T)(+get(a, i)), showv(a)) }
  { auto r = min(a, b); CHECK_COMP("min", r, std::min(get(a, i), get(b, i)), ab) }
  { auto r = max(a, b); CHECK_COMP("max", r, std::max(get(a, i), get(b, i)), ab) }
  // comparisons: every tie pattern — the first p components equal, the rest independently below / above
  for (int p = 0; p <= N; p++)
    for (int rep = 0; rep < 3; rep++) {
      V c = a;
      for (int i = p; i < N; i++) {
        T d = (T)(1 + (next_u64() % 3));
        set(c, i, (next_u64() & 1) ? (T)(get(a, i) + d) : (T)(get(a, i) - d));
      }
      std::string ac = showv(a) + " " + showv(c);
      bool eq = true, lt = false;
      for (int i = 0; i < N; i++) { eq = eq && (get(a, i) == get(c, i)); lt = lt || (get(a, i) < get(c, i)); }
      CHECK_SCALAR("eq", (a == c), eq, ac)
      CHECK_SCALAR("ne", (a != c), !eq, ac)
      CHECK_SCALAR("anyLessThan", anyLessThan(a, c), lt, ac)
      bool lex = false;
      for (int i = N - 1; i >= 0; i--) lex = (get(a, i) < get(c, i)) || ((get(a, i) == get(c, i)) && lex);
      CHECK_SCALAR("std_less", std::less<V>()(a, c), lex, ac)
      bool lexr = false;
      for (int i = N - 1; i >= 0; i--) lexr = (get(c, i) < get(a, i)) || ((get(c, i) == get(a, i)) && lexr);
      CHECK_SCALAR("std_less_rev", std::less<V>()(c, a), lexr, ac)
    }
  // reductions / dot / sum / product (left-to-right in T's promoted arithmetic, as the scalar expressions do)
  {
    typename promoted<T>::type d = get(a, 0) * get(b, 0), su = get(a, 0), pr = get(a, 0);
    unsigned long long lp = (size_t)get(a, 0);
    T mn = get(a, 0), mx = get(a, 0);
    if (N == 4) {
      d = get(a, 0) * get(b, 0) + get(a, 1) * get(b, 1) + get(a, 2) * get(b, 2) + get(a, 3) * get(b, 3);
      su = get(a, 0) + get(a, 1) + get(a, 2) + get(a, 3);
      pr = get(a, 0) * get(a, 1) * get(a, 2) * get(a, 3);
      mn = std::min(std::min(get(a, 0), get(a, 1)), std::min(get(a, 2), get(a, 3)));
      mx = std::max(std::max(get(a, 0), get(a, 1)), std::max(get(a, 2), get(a, 3)));
    } else if (N == 3) {
      d = get(a, 0) * get(b, 0) + get(a, 1) * get(b, 1) + get(a, 2) * get(b, 2);
      su = get(a, 0) + get(a, 1) + get(a, 2);
      pr = get(a, 0) * get(a, 1) * get(a, 2);
      mn = std::min(std::min(get(a, 0), get(a, 1)), get(a, 2));
      mx = std::max(std::max(get(a, 0), get(a, 1)), get(a, 2));
    } else {
      d = get(a, 0) * get(b, 0) + get(a, 1) * get(b, 1);
      su = get(a, 0) + get(a, 1);
      pr = get(a, 0) * get(a, 1);
      mn = std::min(get(a, 0), get(a, 1));
      mx = std::max(get(a, 0), get(a, 1));
    }
    for (int i = 1; i < N; i++) lp *= (size_t)get(a, i);
    CHECK_SCALAR("dot", dot(a, b), (T)d, ab)
    CHECK_SCALAR("sum", a.sum(), (T)su, showv(a))
    CHECK_SCALAR("product", a.product(), (T)pr, showv(a))
    CHECK_SCALAR("reduce_add", reduce_add(a), (T)su, showv(a))
    CHECK_SCALAR("reduce_mul", reduce_mul(a), (T)pr, showv(a))
    CHECK_SCALAR("reduce_min", reduce_min(a), mn, showv(a))
    CHECK_SCALAR("reduce_max", reduce_max(a), mx, showv(a))
    if (!std::is_floating_point<T>::value && !std::is_signed<T>::value)
      CHECK_SCALAR("long_product", a.long_product(), (size_t)lp, showv(a))
    size_t am = 0;
    for (int i = 1; i < N; i++) if (get(a, i) > get(a, (int)am)) am = i;
    CHECK_SCALAR("arg_max", arg_max(a), am, showv(a))
  }
  // indexing, pointer view, construction: x,y,z,w order
  {
    const V &ca = a;
    const T *p = ca;
    for (int i = 0; i < N; i++) {
      CHECK_SCALAR("index", ca[i], get(a, i), showv(a))
      CHECK_SCALAR("pointer_view", p[i], get(a, i), showv(a))
    }
    V m = a; m[N - 1] = s;
    CHECK_SCALAR("index_write", get(m, N - 1), s, as)
    T arr[4] = {get(a, 0), get(a, 1), N > 2 ? get(a, 2) : T(0), N > 3 ? get(a, 3) : T(0)};
    V fp(arr);
    CHECK_COMP("from_pointer", fp, get(a, i), showv(a))
    V bc(s);
    CHECK_COMP("broadcast", bc, s, show(s))
    std::ostringstream o, e;
    o << a;
    e << "(";
    for (int i = 0; i < N; i++) e << (i ? "," : "") << get(a, i);
    e << ")";
    checked++;
    if (o.str() != e.str()) { failed++; printf("FAIL type=%s n=%d op=stream got=%s expected=%s\n", tname<T>(), N, o.str().c_str(), e.str().c_str()); }
    // the same with formatting state left on the stream by earlier output: the components are streamed on that stream
    std::ostringstream o2, e2;
    o2 << std::hex << std::showpos << std::setprecision(3) << std::scientific;
    e2 << std::hex << std::showpos << std::setprecision(3) << std::scientific;
    o2 << a;
    e2 << "(";
    for (int i = 0; i < N; i++) e2 << (i ? "," : "") << get(a, i);
    e2 << ")";
    checked++;
    if (o2.str() != e2.str()) { failed++; printf("FAIL type=%s n=%d op=stream_fmt got=%s expected=%s\n", tname<T>(), N, o2.str().c_str(), e2.str().c_str()); }
  }
  // length(): the square root of dot(v,v) taken in double precision (no narrower), converted to T - for every element
  // type, not only float
  {
    T dd = dot(a, a);
    CHECK_SCALAR("length", length(a), (T)::sqrt((double)dd), showv(a))
    V big = a;
    set(big, 0, (T)(std::is_floating_point<T>::value ? (sizeof(T) == 8 ? 1e20 : 1e10) : (sizeof(T) >= 8 ? 1000000007 : 11)));
    T db = dot(big, big);
    CHECK_SCALAR("length_big", length(big), (T)::sqrt((double)db), showv(big))
  }
  // lerp(f, a, b) on vectors = (1 - f) * a + f * b per component, in the type float * T promotes to, for every element
  // type (ascending and descending components: an unsigned b - a would wrap)
  {
    using R = decltype(float() * T());
    V la, lb;
    for (int i = 0; i < N; i++) { set(la, i, (T)(3 + 4 * i)); set(lb, i, (T)(i % 2 ? 1 + i : 21 + i)); }
    const float f = 0.25f;
    auto r = lerp(f, la, lb);
    CHECK_COMP("lerp", r, (T)((R)(1.f - f) * (R)get(la, i) + (R)f * (R)get(lb, i)), showv(la) + " " + showv(lb))
  }
  extra<V>::run(a, b);
}

// signed / floating extras: unary minus, abs
template <typename V, bool F> struct extra<V, F, true> {
  static void run(const V &a, const V &b)
  {
    using T = typename V::scalar_t;
    { auto r = -a; CHECK_COMP("neg", r, (T)(-get(a, i)), showv(a)) }
    { auto r = abs(a); CHECK_COMP("abs", r, (T)std::abs(get(a, i)), showv(a)) }
    // zeros of either sign: the scalar unary minus flips the sign bit of a floating-point zero
    V z = a;
    set(z, 0, (T)0);
    set(z, 1, (T)(-(T)0));
    { auto r = -z; CHECK_COMP("neg_zero", r, (T)(-get(z, i)), showv(z)) }
    { auto r = +z; CHECK_COMP("pos_zero", r, (T)(+get(z, i)), showv(z)) }
    { auto r = abs(z); CHECK_COMP("abs_zero", r, (T)std::abs(get(z, i)), showv(z)) }
    { auto r = z * b; CHECK_COMP("mul_zero", r, (T)(get(z, i) * get(b, i)), showv(z) + " " + showv(b)) }
    { auto r = z - z; CHECK_COMP("sub_zero", r, (T)(get(z, i) - get(z, i)), showv(z)) }
  }
};

template <typename T> void modfamily()
{
  using V = vec_t<T, 3>;
  V a = genv<V>(0), b = genv<V>(3);
  T s = gen<T>(7);
  std::string ab = showv(a) + " " + showv(b);
  { auto r = a % b; CHECK_COMP("mod", r, (T)(get(a, i) % get(b, i)), ab) }
  { auto r = a % s; CHECK_COMP("mod_vs", r, (T)(get(a, i) % s), ab) }
  { V r = a; r %= b; CHECK_COMP("mod_assign", r, (T)(get(a, i) % get(b, i)), ab) }
  { auto r = divRoundUp(a, b); CHECK_COMP("divRoundUp", r, (T)((get(a, i) + get(b, i) - 1) / get(b, i)), ab) }
  using V4 = vec_t<T, 4>;
  V4 c = genv<V4>(1), d = genv<V4>(2);
  { using V = V4; auto r = c % d; CHECK_COMP("mod4", r, (T)(get(c, i) % get(d, i)), showv(c) + " " + showv(d)) }
}

// mixed element types and conversions
template <typename T, typename U, int NN> void mixed()
{
  using V = vec_t<T, NN>;
  using W = vec_t<U, NN>;
  using R = decltype(T() + U());
  V a = genv<V>(0);
  W b = genv<W>(2);
  std::string ab = showv(a) + " " + showv(b);
  { auto r = a + b; CHECK_COMP("mixed_add", r, (R)((R)get(a, i) + (R)get(b, i)), ab) }
  { auto r = a - b; CHECK_COMP("mixed_sub", r, (R)((R)get(a, i) - (R)get(b, i)), ab) }
  { auto r = a * b; CHECK_COMP("mixed_mul", r, (R)((R)get(a, i) * (R)get(b, i)), ab) }
  { auto r = a / b; CHECK_COMP("mixed_div", r, (R)((R)get(a, i) / (R)get(b, i)), ab) }
  U s = gen<U>(5);
  { auto r = a * s; CHECK_COMP("mixed_mul_vs", r, (R)((R)get(a, i) * (R)s), ab + " " + show(s)) }
  { auto r = s + a; CHECK_COMP("mixed_add_sv", r, (R)((R)s + (R)get(a, i)), ab + " " + show(s)) }
  // every operator in both positions (the non-commutative ones tell `s op v` from `v op s`)
  { auto r = a + s; CHECK_COMP("mixed_add_vs", r, (R)((R)get(a, i) + (R)s), ab + " " + show(s)) }
  { auto r = a - s; CHECK_COMP("mixed_sub_vs", r, (R)((R)get(a, i) - (R)s), ab + " " + show(s)) }
  { auto r = a / s; CHECK_COMP("mixed_div_vs", r, (R)((R)get(a, i) / (R)s), ab + " " + show(s)) }
  { auto r = s - a; CHECK_COMP("mixed_sub_sv", r, (R)((R)s - (R)get(a, i)), ab + " " + show(s)) }
  { auto r = s * a; CHECK_COMP("mixed_mul_sv", r, (R)((R)s * (R)get(a, i)), ab + " " + show(s)) }
  { auto r = s / a; CHECK_COMP("mixed_div_sv", r, (R)((R)s / (R)get(a, i)), ab + " " + show(s)) }
  // compound assignment with a different element / scalar type: the scalar compound assignment per component
  { V r = a; r *= s; CHECK_COMP("mixed_mul_assign_s", r, ([&] { T t = get(a, i); t *= s; return t; }()), ab + " " + show(s)) }
  { V r = a; r += s; CHECK_COMP("mixed_add_assign_s", r, ([&] { T t = get(a, i); t += s; return t; }()), ab + " " + show(s)) }
  { V r = a; r -= s; CHECK_COMP("mixed_sub_assign_s", r, ([&] { T t = get(a, i); t -= s; return t; }()), ab + " " + show(s)) }
  { V r = a; r /= s; CHECK_COMP("mixed_div_assign_s", r, ([&] { T t = get(a, i); t /= s; return t; }()), ab + " " + show(s)) }
  { V r = a; r += b; CHECK_COMP("mixed_add_assign", r, ([&] { T t = get(a, i); t += get(b, i); return t; }()), ab) }
  { V r = a; r *= b; CHECK_COMP("mixed_mul_assign", r, ([&] { T t = get(a, i); t *= get(b, i); return t; }()), ab) }
  { V r = a; r /= b; CHECK_COMP("mixed_div_assign", r, ([&] { T t = get(a, i); t /= get(b, i); return t; }()), ab) }
  { W c(a); CHECK_COMP("convert", c, (U)get(a, i), showv(a)) }
  { W c = static_cast<W>(a); CHECK_COMP("static_cast", c, (U)get(a, i), showv(a)) }
}

template <typename T> void shapes()
{
  family<vec_t<T, 2>>();
  family<vec_t<T, 3>>();
  family<vec_t<T, 4>>();
  // shape conversions: x,y,z,w order
  using V = vec_t<T, 4>;
  vec_t<T, 2> p = genv<vec_t<T, 2>>(0), q = genv<vec_t<T, 2>>(5);
  vec_t<T, 3> t = genv<vec_t<T, 3>>(2);
  T s = gen<T>(9);
  { vec_t<T, 3> r(p, s); T e[3] = {p.x, p.y, s}; CHECK_COMP("v3_from_v2", r, e[i], showv(p) + " " + show(s)) }
  { vec_t<T, 4> r(t, s); T e[4] = {t.x, t.y, t.z, s}; CHECK_COMP("v4_from_v3", r, e[i], showv(t) + " " + show(s)) }
  { vec_t<T, 4> r(p, q); T e[4] = {p.x, p.y, q.x, q.y}; CHECK_COMP("v4_from_v2v2", r, e[i], showv(p) + " " + showv(q)) }
  { vec_t<T, 3, true> r(t); T e[3] = {t.x, t.y, t.z}; CHECK_COMP("v3a_from_v3", r, e[i], showv(t)) }
  { vec_t<T, 3, true> pa(t); vec_t<T, 3> r = pa; T e[3] = {t.x, t.y, t.z}; CHECK_COMP("v3_from_v3a", r, e[i], showv(t)) }
  { vec_t<T, 3, true> pa(t), pb(genv<vec_t<T, 3>>(4)); auto r = pa + pb; CHECK_COMP("v3a_add", r, (T)(get(pa, i) + get(pb, i)), showv(pa) + " " + showv(pb)) }
  { vec_t<T, 3, true> pa(t); auto r = pa * s; CHECK_COMP("v3a_mul_vs", r, (T)(get(pa, i) * s), showv(pa) + " " + show(s)) }
  { vec_t<T, 3, true> pa(t), pb(genv<vec_t<T, 3>>(4)); auto r = min(pa, pb); CHECK_COMP("v3a_min", r, std::min(get(pa, i), get(pb, i)), showv(pa) + " " + showv(pb)) }
  {
    // the padded 3-component shape with something left in its padding lane: reductions, dot, comparisons and the
    // unary operators see the three components only
    using V = vec_t<T, 3, true>;
    V pa = genv<V>(1), pb = genv<V>(3);
    std::string ab = showv(pa) + " " + showv(pb);
    CHECK_SCALAR("v3a_dot", dot(pa, pb), (T)(get(pa, 0) * get(pb, 0) + get(pa, 1) * get(pb, 1) + get(pa, 2) * get(pb, 2)), ab)
    CHECK_SCALAR("v3a_sum", pa.sum(), (T)(get(pa, 0) + get(pa, 1) + get(pa, 2)), showv(pa))
    CHECK_SCALAR("v3a_product", pa.product(), (T)(get(pa, 0) * get(pa, 1) * get(pa, 2)), showv(pa))
    CHECK_SCALAR("v3a_reduce_add", reduce_add(pa), (T)(get(pa, 0) + get(pa, 1) + get(pa, 2)), showv(pa))
    CHECK_SCALAR("v3a_reduce_mul", reduce_mul(pa), (T)(get(pa, 0) * get(pa, 1) * get(pa, 2)), showv(pa))
    CHECK_SCALAR("v3a_reduce_min", reduce_min(pa), std::min(std::min(get(pa, 0), get(pa, 1)), get(pa, 2)), showv(pa))
    CHECK_SCALAR("v3a_reduce_max", reduce_max(pa), std::max(std::max(get(pa, 0), get(pa, 1)), get(pa, 2)), showv(pa))
    V pc = pa;
    pc.padding_ = gen<T>(11);          // same components, another padding
    CHECK_SCALAR("v3a_eq_ignores_padding", (pa == pc), true, showv(pa))
    CHECK_SCALAR("v3a_ne_ignores_padding", (pa != pc), false, showv(pa))
    CHECK_SCALAR("v3a_anyLessThan", anyLessThan(pa, pc), false, showv(pa))
    { auto r = pa - pb; CHECK_COMP("v3a_sub", r, (T)(get(pa, i) - get(pb, i)), ab) }
    { auto r = pa * pb; CHECK_COMP("v3a_mul", r, (T)(get(pa, i) * get(pb, i)), ab) }
    { auto r = max(pa, pb); CHECK_COMP("v3a_max", r, std::max(get(pa, i), get(pb, i)), ab) }
  }
  { vec_t<T, 3> u = genv<vec_t<T, 3>>(6); auto r = cross(t, u);
    T e[3] = {(T)(t.y * u.z - t.z * u.y), (T)(t.z * u.x - t.x * u.z), (T)(t.x * u.y - t.y * u.x)};
    CHECK_COMP("cross", r, e[i], showv(t) + " " + showv(u)) }
}

int main(int argc, char **argv)
{
  rng_state = argc > 1 ? std::strtoull(argv[1], nullptr, 10) : 1;
  int rounds = argc > 2 ? atoi(argv[2]) : 50;
  for (int r = 0; r < rounds; r++) {
    shapes<uint8_t>(); shapes<int8_t>(); shapes<uint16_t>(); shapes<int16_t>(); shapes<uint32_t>();
    shapes<int32_t>(); shapes<uint64_t>(); shapes<int64_t>(); shapes<float>(); shapes<double>();
    modfamily<uint8_t>(); modfamily<int16_t>(); modfamily<int32_t>(); modfamily<uint32_t>(); modfamily<int64_t>(); modfamily<uint64_t>();
    mixed<int, float, 3>(); mixed<float, double, 2>(); mixed<uint8_t, int, 4>(); mixed<int16_t, int64_t, 3>();
    mixed<float, int, 4>(); mixed<uint32_t, float, 2>(); mixed<double, float, 3>(); mixed<int8_t, int, 3>(); mixed<int, double, 2>();
    {
      using T = float; using V = vec3f;
      vec3f a = genv<vec3f>(0), b = genv<vec3f>(2), c = genv<vec3f>(5);
      auto r = madd(a, b, c);
      CHECK_COMP("madd", r, (float)(get(a, i) * get(b, i) + get(c, i)), showv(a) + " " + showv(b) + " " + showv(c))
      vec3f f = genv<vec3f>(1);
      auto u = interpolate_uv(f, a, b, c);
      CHECK_COMP("interpolate_uv", u, (float)((f.x * get(a, i) + f.y * get(b, i)) + f.z * get(c, i)), showv(f) + " " + showv(a))
      auto sn = sin(a); CHECK_COMP("sin", sn, std::sin(get(a, i)), showv(a))
      auto cs = cos(a); CHECK_COMP("cos", cs, std::cos(get(a, i)), showv(a))
      auto rc = rcp(a); CHECK_COMP("rcp", rc, rcp(get(a, i)), showv(a))
      auto rs = rcp_safe(a); CHECK_COMP("rcp_safe", rs, rcp_safe(get(a, i)), showv(a))
      {
        using V = vec3fa;
        vec3fa pa = genv<vec3fa>(1), pb = genv<vec3fa>(4);
        float dd = get(pa, 0) * get(pa, 0) + get(pa, 1) * get(pa, 1) + get(pa, 2) * get(pa, 2);
        CHECK_SCALAR("v3fa_length", length(pa), std::sqrt(dd), showv(pa))
        auto nm = normalize(pa); CHECK_COMP("v3fa_normalize", nm, (float)(get(pa, i) * rsqrt(dd)), showv(pa))
        auto cr = cross(pa, pb);
        float e[3] = {get(pa, 1) * get(pb, 2) - get(pa, 2) * get(pb, 1), get(pa, 2) * get(pb, 0) - get(pa, 0) * get(pb, 2),
            get(pa, 0) * get(pb, 1) - get(pa, 1) * get(pb, 0)};
        CHECK_COMP("v3fa_cross", cr, e[i], showv(pa) + " " + showv(pb))
      }
      CHECK_SCALAR("length", length(a), std::sqrt(dot(a, a)), showv(a))
      auto nm = normalize(a); CHECK_COMP("normalize", nm, (float)(get(a, i) * rsqrt(dot(a, a))), showv(a))
    }
  }
  printf("checked=%ld failed=%ld\n", checked, failed);
  return 0;
}
