/-
Helper lemmas for C19: the loop of ~Observable, the simulation relation between the concrete
observer model (time stamps, registration lists, pointers) and the `pending`-bit specification,
and the invariants of the stamp counter.
-/
import RkVerif.Model.C19

namespace RkVerif.C19

@[simp] theorem upd_same {α : Type} (f : Nat → α) (k : Nat) (v : α) : upd f k v k = v := by simp [upd]
theorem upd_other {α : Type} (f : Nat → α) (k : Nat) (v : α) (x : Nat) (h : x ≠ k) : upd f k v x = f x := by
  simp [upd, h]

/-! ### the loop of `~Observable` -/

@[simp] theorem orphanAll_obl (s : St) (l : List Nat) : (orphanAll s l).obl = s.obl := by
  induction l generalizing s with
  | nil => rfl
  | cons o rest ih => simp only [orphanAll]; split <;> simp [ih]

@[simp] theorem orphanAll_counter (s : St) (l : List Nat) : (orphanAll s l).counter = s.counter := by
  induction l generalizing s with
  | nil => rfl
  | cons o rest ih => simp only [orphanAll]; split <;> simp [ih]

theorem orphanAll_fault (s : St) (l : List Nat) (h : ∀ o ∈ l, (s.obr o).isSome) :
    (orphanAll s l).fault = s.fault := by
  induction l generalizing s with
  | nil => rfl
  | cons o rest ih =>
    simp only [orphanAll]
    cases hc : s.obr o with
    | none => have := h o (by simp); simp [hc] at this
    | some c =>
      simp only
      rw [ih]
      intro o' ho'
      have := h o' (by simp [ho'])
      by_cases e : o' = o <;> simp_all [upd]

theorem orphanAll_obr (s : St) (l : List Nat) (h : ∀ o ∈ l, (s.obr o).isSome) (o : Nat) :
    (orphanAll s l).obr o =
      if o ∈ l then (s.obr o).map (fun c => { c with observee := none }) else s.obr o := by
  induction l generalizing s with
  | nil => simp [orphanAll]
  | cons p rest ih =>
    simp only [orphanAll]
    cases hc : s.obr p with
    | none => have := h p (by simp); simp [hc] at this
    | some c =>
      simp only
      rw [ih]
      · by_cases e : o = p
        · subst e; by_cases m : o ∈ rest <;> simp [m, hc, upd]
        · by_cases m : o ∈ rest <;> simp [m, e, upd]
      · intro o' ho'
        have := h o' (by simp [ho'])
        by_cases e : o' = p <;> simp_all [upd]

/-! ### simulation relation -/

structure Rel (s : St) (a : ASt) : Prop where
  nofault : s.fault = false
  alive : ∀ b, a.alive b = (s.obl b).isSome
  shape_none : ∀ o, a.obs o = none ↔ s.obr o = none
  shape_tgt : ∀ o x c, a.obs o = some x → s.obr o = some c → x.target = c.observee
  /-- no dangling `observee` pointer -/
  live_target : ∀ o c b, s.obr o = some c → c.observee = some b → (s.obl b).isSome = true
  /-- the registration list of a live observable holds exactly the live observers pointing at it
      (so no dangling `Observer*` either) -/
  reg : ∀ b B o, s.obl b = some B → (o ∈ B.observers ↔ ∃ c, s.obr o = some c ∧ c.observee = some b)
  pend_none : ∀ o x, a.obs o = some x → x.target = none → x.pending = false
  pend : ∀ o x c b B, a.obs o = some x → s.obr o = some c → c.observee = some b → s.obl b = some B →
    (x.pending = true ↔ c.lastObserved < B.lastNotified)
  lo_lt : ∀ o c, s.obr o = some c → c.lastObserved < s.counter
  ln_lt : ∀ b B, s.obl b = some B → B.lastNotified < s.counter

theorem Rel.init : Rel {} {} := by
  constructor <;> simp

/-! ### one step of every operation preserves the relation and produces the same output -/

theorem sim_bnew {s a} (h : Rel s a) (b : Nat) :
    Rel (stepC s (.bnew b)).1 (stepA a (.bnew b)).1 ∧ (stepC s (.bnew b)).2 = (stepA a (.bnew b)).2 := by
  obtain ⟨h1, h2, h3, h3', h4, h5, h6, h7, h8, h9⟩ := h
  have hal := h2 b
  simp only [stepC, stepA]
  cases hb : s.obl b with
  | some B => simp [hal, hb]; constructor <;> assumption
  | none =>
    simp [hal, hb]
    constructor <;> grind [upd]

theorem sim_notify {s a} (h : Rel s a) (b : Nat) :
    Rel (stepC s (.notify b)).1 (stepA a (.notify b)).1 ∧ (stepC s (.notify b)).2 = (stepA a (.notify b)).2 := by
  obtain ⟨h1, h2, h3, h3', h4, h5, h6, h7, h8, h9⟩ := h
  have hal := h2 b
  simp only [stepC, stepA]
  cases hb : s.obl b with
  | none => simp [hal, hb]; constructor <;> assumption
  | some B =>
    simp [hal, hb]
    constructor <;> grind [upd, mapTarget]

theorem sim_bcopy {s a} (h : Rel s a) (b src : Nat) :
    Rel (stepC s (.bcopy b src)).1 (stepA a (.bcopy b src)).1 ∧ (stepC s (.bcopy b src)).2 = (stepA a (.bcopy b src)).2 := by
  obtain ⟨h1, h2, h3, h3', h4, h5, h6, h7, h8, h9⟩ := h
  have hal := h2 b
  have hal' := h2 src
  simp only [stepC, stepA]
  cases hb : s.obl b <;> cases hs : s.obl src <;> simp [hal, hal', hb, hs] <;> constructor <;> grind [upd]

theorem sim_bassign {s a} (h : Rel s a) (b src : Nat) :
    Rel (stepC s (.bassign b src)).1 (stepA a (.bassign b src)).1 ∧ (stepC s (.bassign b src)).2 = (stepA a (.bassign b src)).2 := by
  obtain ⟨h1, h2, h3, h3', h4, h5, h6, h7, h8, h9⟩ := h
  have hal := h2 b
  have hal' := h2 src
  simp only [stepC, stepA]
  cases hb : s.obl b <;> cases hs : s.obl src <;> simp [hal, hal', hb, hs] <;> constructor <;> assumption

theorem sim_bdel {s a} (h : Rel s a) (b : Nat) :
    Rel (stepC s (.bdel b)).1 (stepA a (.bdel b)).1 ∧ (stepC s (.bdel b)).2 = (stepA a (.bdel b)).2 := by
  obtain ⟨h1, h2, h3, h3', h4, h5, h6, h7, h8, h9⟩ := h
  have hal := h2 b
  simp only [stepC, stepA]
  cases hb : s.obl b with
  | none => simp [hal, hb]; constructor <;> assumption
  | some B =>
    have hlive : ∀ o ∈ B.observers, (s.obr o).isSome := by
      intro o ho; obtain ⟨c, hc, _⟩ := (h5 b B o hb).mp ho; simp [hc]
    have hobr := orphanAll_obr s B.observers hlive
    have hf := orphanAll_fault s B.observers hlive
    simp [hal, hb]
    constructor <;> simp only [hobr, mapTarget] <;> grind [upd]

theorem sim_onew {s a} (h : Rel s a) (o b : Nat) :
    Rel (stepC s (.onew o b)).1 (stepA a (.onew o b)).1 ∧ (stepC s (.onew o b)).2 = (stepA a (.onew o b)).2 := by
  obtain ⟨h1, h2, h3, h3', h4, h5, h6, h7, h8, h9⟩ := h
  have hal := h2 b
  have hn := h3 o
  simp only [stepC, stepA]
  cases ho : s.obr o <;> cases hb : s.obl b <;> cases hx : a.obs o <;> simp_all
  all_goals first
    | (constructor <;> assumption)
    | skip
  rename_i B
  simp only [register, hb]
  constructor
  case reg =>
    intro b' B' o' hB'
    simp only [upd] at hB' ⊢
    have hr := h5 b' B' o'
    have hr2 := h5 b B o' hb
    by_cases eb : b' = b <;> by_cases eo : o' = o <;> simp_all <;> grind
  all_goals grind [upd]

theorem sim_odel {s a} (h : Rel s a) (o : Nat) :
    Rel (stepC s (.odel o)).1 (stepA a (.odel o)).1 ∧ (stepC s (.odel o)).2 = (stepA a (.odel o)).2 := by
  obtain ⟨h1, h2, h3, h3', h4, h5, h6, h7, h8, h9⟩ := h
  have hn := h3 o
  simp only [stepC, stepA]
  cases ho : s.obr o <;> cases hx : a.obs o <;> simp_all
  · constructor <;> assumption
  · rename_i c x
    cases hoe : c.observee with
    | none => simp only [unregisterOpt]; constructor <;> grind [upd]
    | some b =>
      have := h4 o c b ho hoe
      cases hb : s.obl b with
      | none => simp [hb] at this
      | some B =>
        simp only [unregisterOpt, unregister, hb]
        constructor
        case reg =>
          intro b' B' o' hB'
          simp only [upd] at hB' ⊢
          have hr := h5 b' B' o'
          have hr2 := h5 b B o' hb
          by_cases eb : b' = b <;> by_cases eo : o' = o <;> simp_all <;> grind
        all_goals grind [upd]

theorem sim_poll {s a} (h : Rel s a) (o : Nat) :
    Rel (stepC s (.poll o)).1 (stepA a (.poll o)).1 ∧ (stepC s (.poll o)).2 = (stepA a (.poll o)).2 := by
  obtain ⟨h1, h2, h3, h3', h4, h5, h6, h7, h8, h9⟩ := h
  have hn := h3 o
  simp only [stepC, stepA]
  cases ho : s.obr o <;> cases hx : a.obs o <;> simp_all
  · constructor <;> assumption
  · rename_i c x
    have ht := h3' o x c hx ho
    simp only [wasNotified]
    cases hoe : c.observee with
    | none =>
      have := h6 o x hx (by simp [ht, hoe])
      simp only [this]
      refine ⟨?_, trivial⟩
      constructor <;> grind [upd]
    | some b =>
      have := h4 o c b ho hoe
      cases hb : s.obl b with
      | none => simp [hb] at this
      | some B =>
        have hp := h7 o x c b B hx ho hoe hb
        simp only [hb]
        by_cases hlt : c.lastObserved < B.lastNotified
        · have hpt : x.pending = true := hp.mpr hlt
          simp only [hlt, hpt, if_true]
          refine ⟨?_, trivial⟩
          constructor <;> grind [upd]
        · have hpf : x.pending = false := by
            cases hpp : x.pending with
            | false => rfl
            | true => exact absurd (hp.mp hpp) hlt
          simp only [hlt, hpf, if_false]
          refine ⟨?_, trivial⟩
          constructor <;> grind [upd]

theorem sim_ocopy {s a} (h : Rel s a) (o src : Nat) :
    Rel (stepC s (.ocopy o src)).1 (stepA a (.ocopy o src)).1 ∧ (stepC s (.ocopy o src)).2 = (stepA a (.ocopy o src)).2 := by
  obtain ⟨h1, h2, h3, h3', h4, h5, h6, h7, h8, h9⟩ := h
  have hn := h3 o
  have hn' := h3 src
  simp only [stepC, stepA]
  cases ho : s.obr o <;> cases hs : s.obr src <;> cases hx : a.obs o <;> cases hy : a.obs src <;> simp_all
  all_goals first
    | (constructor <;> assumption)
    | skip
  rename_i c x
  have ht := h3' src x c hy hs
  have hne : src ≠ o := by intro e; subst e; simp_all
  cases hoe : c.observee with
  | none => simp only [registerOpt]; constructor <;> grind [upd]
  | some b =>
    have := h4 src c b hs hoe
    cases hb : s.obl b with
    | none => simp [hb] at this
    | some B =>
      simp only [registerOpt, register, hb]
      constructor
      case reg =>
        intro b' B' o' hB'
        simp only [upd] at hB' ⊢
        have hr := h5 b' B' o'
        have hr2 := h5 b B o' hb
        by_cases eb : b' = b <;> by_cases eo : o' = o <;> simp_all <;> grind
      all_goals grind [upd]

theorem sim_oassign {s a} (h : Rel s a) (o src : Nat) :
    Rel (stepC s (.oassign o src)).1 (stepA a (.oassign o src)).1 ∧ (stepC s (.oassign o src)).2 = (stepA a (.oassign o src)).2 := by
  obtain ⟨h1, h2, h3, h3', h4, h5, h6, h7, h8, h9⟩ := h
  have hn := h3 o
  have hn' := h3 src
  simp only [stepC, stepA]
  cases ho : s.obr o <;> cases hs : s.obr src <;> cases hx : a.obs o <;> cases hy : a.obs src <;> simp_all
  all_goals first
    | (constructor <;> assumption)
    | skip
  rename_i c x cx y
  have ht := h3' src y x hy hs
  have ht0 := h3' o cx c hx ho
  cases hce : c.observee with
  | none =>
    simp only [unregisterOpt]
    cases hxe : x.observee with
    | none => simp only [registerOpt]; constructor <;> grind [upd]
    | some b2 =>
      have := h4 src x b2 hs hxe
      cases hb2 : s.obl b2 with
      | none => simp [hb2] at this
      | some B2 =>
        simp only [registerOpt, register, hb2]
        constructor
        case reg =>
          intro b' B' o' hB'
          simp only [upd] at hB' ⊢
          have hr := h5 b' B' o'
          have hr2 := h5 b2 B2 o' hb2
          by_cases eb : b' = b2 <;> by_cases eo : o' = o <;> simp_all <;> grind
        all_goals grind [upd]
  | some b1 =>
    have := h4 o c b1 ho hce
    cases hb1 : s.obl b1 with
    | none => simp [hb1] at this
    | some B1 =>
      simp only [unregisterOpt, unregister, hb1]
      cases hxe : x.observee with
      | none =>
        simp only [registerOpt]
        constructor
        case reg =>
          intro b' B' o' hB'
          simp only [upd] at hB' ⊢
          have hr := h5 b' B' o'
          have hr2 := h5 b1 B1 o' hb1
          by_cases eb : b' = b1 <;> by_cases eo : o' = o <;> simp_all <;> grind
        all_goals grind [upd]
      | some b2 =>
        have := h4 src x b2 hs hxe
        cases hb2 : s.obl b2 with
        | none => simp [hb2] at this
        | some B2 =>
          by_cases e12 : b2 = b1
          · subst e12
            simp only [registerOpt, register, upd_same]
            constructor
            case reg =>
              intro b' B' o' hB'
              simp only [upd] at hB' ⊢
              have hr := h5 b' B' o'
              have hr2 := h5 b2 B1 o' hb1
              by_cases eb : b' = b2 <;> by_cases eo : o' = o <;> simp_all <;> grind
            all_goals grind [upd]
          · simp only [registerOpt, register, upd_other _ _ _ _ e12, hb2]
            constructor
            case reg =>
              intro b' B' o' hB'
              simp only [upd] at hB' ⊢
              have hr := h5 b' B' o'
              have hr1 := h5 b1 B1 o' hb1
              have hr2 := h5 b2 B2 o' hb2
              by_cases eb : b' = b2 <;> by_cases eb1 : b' = b1 <;> by_cases eo : o' = o <;> simp_all <;> grind
            all_goals grind [upd]

theorem sim_step {s a} (h : Rel s a) (op : Op) :
    Rel (stepC s op).1 (stepA a op).1 ∧ (stepC s op).2 = (stepA a op).2 := by
  cases op with
  | bnew b => exact sim_bnew h b
  | bdel b => exact sim_bdel h b
  | bcopy b src => exact sim_bcopy h b src
  | bassign b src => exact sim_bassign h b src
  | onew o b => exact sim_onew h o b
  | odel o => exact sim_odel h o
  | ocopy o src => exact sim_ocopy h o src
  | oassign o src => exact sim_oassign h o src
  | notify b => exact sim_notify h b
  | poll o => exact sim_poll h o

theorem run_rel (hist : List Op) : Rel (runC hist).1 (runA hist).1 ∧ (runC hist).2 = (runA hist).2 := by
  induction hist with
  | nil => exact ⟨Rel.init, rfl⟩
  | cons op earlier ih =>
    obtain ⟨hr, ho⟩ := ih
    have := sim_step hr op
    simp only [runC, runA]
    exact ⟨this.1, by rw [this.2, ho]⟩

@[simp] theorem runC_cons (op : Op) (earlier : List Op) :
    runC (op :: earlier) = ((stepC (runC earlier).1 op).1, (stepC (runC earlier).1 op).2 :: (runC earlier).2) := rfl

@[simp] theorem runA_cons (op : Op) (earlier : List Op) :
    runA (op :: earlier) = ((stepA (runA earlier).1 op).1, (stepA (runA earlier).1 op).2 :: (runA earlier).2) := rfl

/-! ### observers' and observables' stamps never coincide -/

@[simp] theorem register_obr (s : St) (b o : Nat) : (register s b o).obr = s.obr := by
  simp only [register]; split <;> rfl
@[simp] theorem unregister_obr (s : St) (b o : Nat) : (unregister s b o).obr = s.obr := by
  simp only [unregister]; split <;> rfl
@[simp] theorem registerOpt_obr (s : St) (ob : Option Nat) (o : Nat) : (registerOpt s ob o).obr = s.obr := by
  cases ob <;> simp [registerOpt]
@[simp] theorem unregisterOpt_obr (s : St) (ob : Option Nat) (o : Nat) : (unregisterOpt s ob o).obr = s.obr := by
  cases ob <;> simp [unregisterOpt]

theorem register_ln (s : St) (b o b' : Nat) (B' : Obl) (h : (register s b o).obl b' = some B') :
    ∃ B, s.obl b' = some B ∧ B.lastNotified = B'.lastNotified := by
  simp only [register] at h; split at h <;> grind [upd]
theorem unregister_ln (s : St) (b o b' : Nat) (B' : Obl) (h : (unregister s b o).obl b' = some B') :
    ∃ B, s.obl b' = some B ∧ B.lastNotified = B'.lastNotified := by
  simp only [unregister] at h; split at h <;> grind [upd]
theorem registerOpt_ln (s : St) (ob : Option Nat) (o b' : Nat) (B' : Obl) (h : (registerOpt s ob o).obl b' = some B') :
    ∃ B, s.obl b' = some B ∧ B.lastNotified = B'.lastNotified := by
  cases ob with
  | none => exact ⟨B', h, rfl⟩
  | some b => exact register_ln s b o b' B' h
theorem unregisterOpt_ln (s : St) (ob : Option Nat) (o b' : Nat) (B' : Obl) (h : (unregisterOpt s ob o).obl b' = some B') :
    ∃ B, s.obl b' = some B ∧ B.lastNotified = B'.lastNotified := by
  cases ob with
  | none => exact ⟨B', h, rfl⟩
  | some b => exact unregister_ln s b o b' B' h

/-- a stamp held by an observer is never equal to a stamp held by an observable -/
def Disj (s : St) : Prop := ∀ o c b B, s.obr o = some c → s.obl b = some B → c.lastObserved ≠ B.lastNotified

theorem disj_step {s a} (h : Rel s a) (d : Disj s) (op : Op) : Disj (stepC s op).1 := by
  obtain ⟨h1, h2, h3, h3', h4, h5, h6, h7, h8, h9⟩ := h
  unfold Disj at d ⊢
  cases op with
  | bnew b => simp only [stepC]; split <;> grind [upd]
  | bcopy b src => simp only [stepC]; split <;> grind [upd]
  | bassign b src => simp only [stepC]; split <;> grind [upd]
  | notify b => simp only [stepC]; split <;> grind [upd]
  | bdel b =>
    simp only [stepC]
    cases hb : s.obl b with
    | none => simpa using d
    | some B =>
      have hlive : ∀ o ∈ B.observers, (s.obr o).isSome := by
        intro o ho; obtain ⟨c, hc, _⟩ := (h5 b B o hb).mp ho; simp [hc]
      have hobr := orphanAll_obr s B.observers hlive
      simp only [hobr, orphanAll_obl]
      grind [upd]
  | onew o b =>
    simp only [stepC]; split
    · intro o' c' b' B' ho' hb'
      obtain ⟨B, hB, hln⟩ := register_ln _ _ _ _ _ hb'
      simp only [register_obr] at ho'
      grind [upd]
    · exact d
  | ocopy o src =>
    simp only [stepC]; split
    · intro o' c' b' B' ho' hb'
      obtain ⟨B, hB, hln⟩ := registerOpt_ln _ _ _ _ _ hb'
      simp only [registerOpt_obr] at ho'
      grind [upd]
    · exact d
  | oassign o src =>
    simp only [stepC]; split
    · intro o' c' b' B' ho' hb'
      obtain ⟨B1, hB1, hln1⟩ := registerOpt_ln _ _ _ _ _ hb'
      obtain ⟨B, hB, hln⟩ := unregisterOpt_ln _ _ _ _ _ hB1
      simp only [registerOpt_obr, unregisterOpt_obr] at ho'
      grind [upd]
    · exact d
  | odel o =>
    simp only [stepC]; split
    · exact d
    · intro o' c' b' B' ho' hb'
      obtain ⟨B, hB, hln⟩ := unregisterOpt_ln _ _ _ _ _ hb'
      simp only [unregisterOpt_obr] at ho'
      grind [upd]
  | poll o =>
    simp only [stepC]; split
    · exact d
    · simp only [wasNotified]; (repeat' split) <;> grind [upd]

theorem run_disj (hist : List Op) : Disj (runC hist).1 := by
  induction hist with
  | nil => intro o c b B ho; simp [runC] at ho
  | cons op earlier ih => exact disj_step (run_rel earlier).1 ih op

/-! ### StampM -/

/-- the counter is above every value it has handed out, and the log is strictly decreasing
    (most recent first), i.e. strictly increasing in the order of issue. -/
structure SInv (s : SSt) : Prop where
  below : ∀ e ∈ s.log, e.2 < s.counter
  sorted : s.log.Pairwise (fun e1 e2 => e2.2 < e1.2)

theorem SInv.step {s : SSt} (h : SInv s) (st : SStep) : SInv (sstep s st) := by
  obtain ⟨hb, hs⟩ := h
  cases st with
  | fetchInc t =>
    constructor
    · intro e he
      simp only [sstep, List.mem_cons] at he ⊢
      rcases he with rfl | he
      · simp
      · have := hb e he; omega
    · simp only [sstep, List.pairwise_cons]
      exact ⟨fun e he => hb e he, hs⟩
  | store t k => exact ⟨hb, hs⟩
  | load t k => exact ⟨hb, hs⟩

theorem SInv.run {s0 : SSt} (h : SInv s0) (sched : List SStep) : SInv (srun s0 sched) := by
  induction sched with
  | nil => exact h
  | cons st earlier ih => exact ih.step st

/-- all values stored anywhere are below the counter. -/
structure SBelow (s : SSt) : Prop where
  reg : ∀ t, s.reg t < s.counter
  stamp : ∀ k, s.stamp k < s.counter

theorem SBelow.step {s : SSt} (h : SBelow s) (st : SStep) : SBelow (sstep s st) := by
  obtain ⟨hr, hs⟩ := h
  cases st with
  | fetchInc t =>
    constructor
    · intro t'; simp only [sstep, upd]; split
      · omega
      · have := hr t'; omega
    · intro k; have := hs k; simp only [sstep]; omega
  | store t k =>
    constructor
    · exact hr
    · intro k'; simp only [sstep, upd]; split
      · exact hr t
      · exact hs k'
  | load t k =>
    constructor
    · intro t'; simp only [sstep, upd]; split
      · exact hs k
      · exact hr t'
    · exact hs

theorem SBelow.run {s0 : SSt} (h : SBelow s0) (sched : List SStep) : SBelow (srun s0 sched) := by
  induction sched with
  | nil => exact h
  | cons st earlier ih => exact ih.step st

/-- steps of other threads do not touch thread `t`'s register. -/
theorem srun_reg_frame (s0 : SSt) (t : Nat) (mid : List SStep) (h : ∀ st ∈ mid, st.thread ≠ t) :
    (srun s0 mid).reg t = s0.reg t := by
  induction mid with
  | nil => rfl
  | cons st earlier ih =>
    have h1 := h st (by simp)
    have h2 := ih (fun st' hst' => h st' (by simp [hst']))
    cases st with
    | fetchInc t' => simp only [srun, sstep, upd]; simp only [SStep.thread] at h1; rw [if_neg (Ne.symm h1)]; exact h2
    | store t' k => simpa [srun, sstep] using h2
    | load t' k => simp only [srun, sstep, upd]; simp only [SStep.thread] at h1; rw [if_neg (Ne.symm h1)]; exact h2

/-- a stamp nobody stores to keeps its value. -/
theorem srun_stamp_frame (s0 : SSt) (k : Nat) (mid : List SStep) (h : ∀ t, SStep.store t k ∉ mid) :
    (srun s0 mid).stamp k = s0.stamp k := by
  induction mid with
  | nil => rfl
  | cons st earlier ih =>
    have h2 := ih (fun t ht => h t (by simp [ht]))
    cases st with
    | fetchInc t' => simpa [srun, sstep] using h2
    | load t' k' => simpa [srun, sstep] using h2
    | store t' k' =>
      have : k ≠ k' := by intro e; subst e; exact h t' (by simp)
      simp only [srun, sstep, upd]; rw [if_neg this]; exact h2

theorem sexec_eq_srun (s0 : SSt) (steps : List SStep) : sexec s0 steps = srun s0 steps.reverse := by
  induction steps generalizing s0 with
  | nil => rfl
  | cons st rest ih =>
    simp only [sexec, List.foldl_cons, List.reverse_cons]
    have : ∀ (l : List SStep) (s : SSt), srun s (l ++ [st]) = srun (sstep s st) l := by
      intro l; induction l with
      | nil => intro s; rfl
      | cons x xs ihx => intro s; simp only [List.cons_append, srun, ihx]
    rw [this]; exact ih (sstep s0 st)

end RkVerif.C19
