/-
Helper lemmas for property C18 (model: Model/C18.lean).  Core Lean only.
`runs p s` — the maximal non-empty runs of characters not satisfying `p` — is the common
specification of `split`, `tokenize` and the delimiter-set `split`.
-/
import RkVerif.Model.C18
set_option linter.unusedSectionVars false
set_option linter.unusedVariables false

namespace RkVerif.C18

/-! ## specification functions -/

theorem length_dropWhile_le' (q : Char → Bool) (l : Str) : (l.dropWhile q).length ≤ l.length := by
  induction l with
  | nil => simp
  | cons a l ih => rw [List.dropWhile_cons]; split <;> simp <;> omega

/-- Maximal non-empty runs of non-delimiter characters (`p` = "is a delimiter"). -/
def runs (p : Char → Bool) (s : Str) : List Str :=
  match s with
  | [] => []
  | c :: cs =>
      if p c then runs p cs
      else (c :: cs.takeWhile (fun x => !p x)) :: runs p (cs.dropWhile (fun x => !p x))
termination_by s.length
decreasing_by
  · simp
  · have := length_dropWhile_le' (fun x => !p x) cs
    simp; omega

/-- `t₀ d t₁ d … tₙ` -/
def joinWith (d : Char) : List Str → Str
  | [] => []
  | [t] => t
  | t :: ts => t ++ d :: joinWith d ts

theorem runs_nil (p : Char → Bool) : runs p [] = [] := by simp [runs]

theorem runs_cons_delim (p : Char → Bool) (c : Char) (cs : Str) (h : p c = true) :
    runs p (c :: cs) = runs p cs := by
  rw [runs]; simp [h]

theorem runs_cons_tok (p : Char → Bool) (c : Char) (cs : Str) (h : p c = false) :
    runs p (c :: cs) = (c :: cs.takeWhile (fun x => !p x)) :: runs p (cs.dropWhile (fun x => !p x)) := by
  rw [runs]; simp [h]

theorem takeWhile_free_append (p : Char → Bool) (t rest : Str) (d : Char)
    (ht : ∀ x ∈ t, p x = false) (hd : p d = true) :
    (t ++ d :: rest).takeWhile (fun x => !p x) = t := by
  induction t with
  | nil => simp [hd]
  | cons a t ih =>
    have ha : p a = false := ht a (by simp)
    simp [ha]
    exact ih (fun x hx => ht x (by simp [hx]))

theorem dropWhile_free_append (p : Char → Bool) (t rest : Str) (d : Char)
    (ht : ∀ x ∈ t, p x = false) (hd : p d = true) :
    (t ++ d :: rest).dropWhile (fun x => !p x) = d :: rest := by
  induction t with
  | nil => simp [hd]
  | cons a t ih =>
    have ha : p a = false := ht a (by simp)
    simp [ha]
    exact ih (fun x hx => ht x (by simp [hx]))

theorem takeWhile_free (p : Char → Bool) (t : Str) (ht : ∀ x ∈ t, p x = false) :
    t.takeWhile (fun x => !p x) = t := by
  induction t with
  | nil => simp
  | cons a t ih =>
    have ha : p a = false := ht a (by simp)
    simp [ha]
    exact ih (fun x hx => ht x (by simp [hx]))

theorem dropWhile_free (p : Char → Bool) (t : Str) (ht : ∀ x ∈ t, p x = false) :
    t.dropWhile (fun x => !p x) = [] := by
  induction t with
  | nil => simp
  | cons a t ih =>
    have ha : p a = false := ht a (by simp)
    simp [ha]
    exact ih (fun x hx => ht x (by simp [hx]))

/-- a non-empty delimiter-free token followed by a delimiter is one run -/
theorem runs_tok_delim (p : Char → Bool) (t rest : Str) (d : Char) (hne : t ≠ [])
    (ht : ∀ x ∈ t, p x = false) (hd : p d = true) :
    runs p (t ++ d :: rest) = t :: runs p rest := by
  cases t with
  | nil => exact absurd rfl hne
  | cons a t =>
    have ha : p a = false := ht a (by simp)
    have ht' : ∀ x ∈ t, p x = false := fun x hx => ht x (by simp [hx])
    rw [List.cons_append, runs_cons_tok p a _ ha, takeWhile_free_append p t rest d ht' hd,
      dropWhile_free_append p t rest d ht' hd, runs_cons_delim p d rest hd]

theorem runs_tok_end (p : Char → Bool) (t : Str) (hne : t ≠ []) (ht : ∀ x ∈ t, p x = false) :
    runs p t = [t] := by
  cases t with
  | nil => exact absurd rfl hne
  | cons a t =>
    have ha : p a = false := ht a (by simp)
    have ht' : ∀ x ∈ t, p x = false := fun x hx => ht x (by simp [hx])
    rw [runs_cons_tok p a _ ha, takeWhile_free p t ht', dropWhile_free p t ht', runs_nil]

/-- leading delimiters are skipped -/
theorem runs_skip (p : Char → Bool) (sep rest : Str) (hs : ∀ x ∈ sep, p x = true) :
    runs p (sep ++ rest) = runs p rest := by
  induction sep with
  | nil => simp
  | cons a sep ih =>
    rw [List.cons_append, runs_cons_delim p a _ (hs a (by simp))]
    exact ih (fun x hx => hs x (by simp [hx]))

/-! ## properties of `runs` -/

theorem takeWhile_append_dropWhile' (q : Char → Bool) (l : Str) : l.takeWhile q ++ l.dropWhile q = l := by
  induction l with
  | nil => simp
  | cons a l ih => rw [List.takeWhile_cons, List.dropWhile_cons]; split <;> simp [ih]

theorem filter_takeWhile_self (q : Char → Bool) (l : Str) : (l.takeWhile q).filter q = l.takeWhile q := by
  induction l with
  | nil => simp
  | cons a l ih =>
    rw [List.takeWhile_cons]; split
    · rename_i h; simp [h, ih]
    · simp

/-- re-joining the runs gives the non-delimiter content in order -/
theorem runs_flatten (p : Char → Bool) (s : Str) : (runs p s).flatten = s.filter (fun x => !p x) := by
  generalize hn : s.length = n
  induction n using Nat.strongRecOn generalizing s with
  | _ n ih =>
    cases s with
    | nil => simp [runs_nil]
    | cons c cs =>
      cases hc : p c with
      | true =>
        rw [runs_cons_delim p c cs hc, ih cs.length (by simp at hn; omega) cs rfl]
        simp [hc]
      | false =>
        have hl := length_dropWhile_le' (fun x => !p x) cs
        rw [runs_cons_tok p c cs hc, List.flatten_cons,
          ih _ (by simp at hn; omega) (cs.dropWhile (fun x => !p x)) rfl]
        have e : cs.filter (fun x => !p x) = (cs.takeWhile (fun x => !p x)).filter (fun x => !p x)
            ++ (cs.dropWhile (fun x => !p x)).filter (fun x => !p x) := by
          rw [← List.filter_append, takeWhile_append_dropWhile']
        simp [hc]
        rw [e, filter_takeWhile_self]

theorem mem_takeWhile_imp (q : Char → Bool) (l : Str) (x : Char) (h : x ∈ l.takeWhile q) : q x = true := by
  induction l with
  | nil => simp at h
  | cons a l ih =>
    rw [List.takeWhile_cons] at h; split at h
    · rename_i ha
      rcases List.mem_cons.mp h with rfl | h'
      · exact ha
      · exact ih h'
    · simp at h

/-- every run is non-empty and delimiter-free -/
theorem runs_mem (p : Char → Bool) (s : Str) : ∀ t ∈ runs p s, t ≠ [] ∧ ∀ x ∈ t, p x = false := by
  generalize hn : s.length = n
  induction n using Nat.strongRecOn generalizing s with
  | _ n ih =>
    cases s with
    | nil => simp [runs_nil]
    | cons c cs =>
      cases hc : p c with
      | true =>
        rw [runs_cons_delim p c cs hc]
        exact ih cs.length (by simp at hn; omega) cs rfl
      | false =>
        have hl := length_dropWhile_le' (fun x => !p x) cs
        rw [runs_cons_tok p c cs hc]
        intro t ht
        rcases List.mem_cons.mp ht with rfl | ht'
        · refine ⟨by simp, ?_⟩
          intro x hx
          rcases List.mem_cons.mp hx with rfl | hx'
          · exact hc
          · have := mem_takeWhile_imp _ _ _ hx'
            simpa using this
        · exact ih _ (by simp at hn; omega) _ rfl t ht'

/-- joining delimiter-free tokens with one delimiter and taking the runs gives back the non-empty tokens -/
theorem runs_joinWith (p : Char → Bool) (d : Char) (hd : p d = true) (ts : List Str)
    (hts : ∀ t ∈ ts, ∀ x ∈ t, p x = false) :
    runs p (joinWith d ts) = ts.filter (· ≠ []) := by
  induction ts with
  | nil => simp [joinWith, runs_nil]
  | cons t ts ih =>
    have ht : ∀ x ∈ t, p x = false := hts t (by simp)
    have hts' : ∀ t ∈ ts, ∀ x ∈ t, p x = false := fun t' h => hts t' (by simp [h])
    cases ts with
    | nil =>
      by_cases hne : t = []
      · subst hne; simp [joinWith, runs_nil]
      · simp [joinWith, hne, runs_tok_end p t hne ht]
    | cons t2 ts2 =>
      have ih' := ih hts'
      by_cases hne : t = []
      · subst hne
        simp only [joinWith, List.nil_append] at ih' ⊢
        rw [runs_cons_delim p d _ hd]
        simpa [joinWith] using ih'
      · simp only [joinWith] at ih' ⊢
        rw [runs_tok_delim p t _ d hne ht hd]
        simp [hne]
        simpa [joinWith] using ih'

/-- general separators: `sep₀ t₀ sep₁ t₁ … sepₙ tₙ tail` with delimiter-only separators (non-empty
    except possibly the first) and non-empty delimiter-free tokens has exactly the runs `t₀ … tₙ`. -/
def weave : List (Str × Str) → Str
  | [] => []
  | (sep, t) :: rest => sep ++ t ++ weave rest

theorem runs_weave (p : Char → Bool) (first : Str × Str) (pairs : List (Str × Str)) (tail : Str)
    (hseps : ∀ pr ∈ first :: pairs, ∀ x ∈ pr.1, p x = true)
    (hne : ∀ pr ∈ pairs, pr.1 ≠ [])
    (htoks : ∀ pr ∈ first :: pairs, pr.2 ≠ [] ∧ ∀ x ∈ pr.2, p x = false)
    (htail : ∀ x ∈ tail, p x = true) :
    runs p (weave (first :: pairs) ++ tail) = (first :: pairs).map (·.2) := by
  induction pairs generalizing first with
  | nil =>
    obtain ⟨sep, t⟩ := first
    have h1 := hseps (sep, t) (by simp)
    have h2 := htoks (sep, t) (by simp)
    simp only [weave, List.append_nil, List.map_cons, List.map_nil, List.append_assoc]
    rw [runs_skip p sep _ h1]
    cases tail with
    | nil => simpa using runs_tok_end p t h2.1 h2.2
    | cons d tl =>
      rw [runs_tok_delim p t tl d h2.1 h2.2 (htail d (by simp))]
      have := runs_skip p tl [] (fun x hx => htail x (by simp [hx]))
      simp only [List.append_nil] at this
      rw [this, runs_nil]
  | cons second pairs ih =>
    obtain ⟨sep, t⟩ := first
    have h1 := hseps (sep, t) (by simp)
    have h2 := htoks (sep, t) (by simp)
    have ih' := ih second (fun pr h => hseps pr (List.mem_cons_of_mem _ h))
      (fun pr h => hne pr (by simp [h]))
      (fun pr h => htoks pr (List.mem_cons_of_mem _ h))
    obtain ⟨sep2, t2⟩ := second
    have hs2 : sep2 ≠ [] := hne (sep2, t2) (by simp)
    have hs2d := hseps (sep2, t2) (by simp)
    cases sep2 with
    | nil => exact absurd rfl hs2
    | cons d sep2' =>
      simp only [weave, List.map_cons, List.append_assoc, List.cons_append] at ih' ⊢
      rw [runs_skip p sep _ h1, runs_tok_delim p t _ d h2.1 h2.2 (hs2d d (by simp))]
      rw [runs_cons_delim p d _ (hs2d d (by simp))] at ih'
      rw [ih']

/-! ## `tokenize`, `split` (char) and `split` (delimiter set) against `runs` -/

def isD (d : Char) : Char → Bool := fun x => x == d
def inD (ds : Str) : Char → Bool := fun x => decide (x ∈ ds)

theorem tokenizeAux_eq_filter (d : Char) (s cur : Str) :
    tokenizeAux 0 d s cur = (split1Aux d s cur).filter (· ≠ []) := by
  induction s generalizing cur with
  | nil => cases cur <;> simp [tokenizeAux, split1Aux]
  | cons c cs ih =>
    by_cases hc : c = d
    · cases cur <;> simp [tokenizeAux, split1Aux, hc, ih]
    · simp [tokenizeAux, split1Aux, hc, ih]

theorem tokenizeAux_eq_runs (d : Char) (s cur : Str) (hcur : ∀ x ∈ cur, x ≠ d) :
    tokenizeAux 0 d s cur = runs (isD d) (cur ++ s) := by
  induction s generalizing cur with
  | nil =>
    cases cur with
    | nil => simp [tokenizeAux, runs_nil]
    | cons a cur =>
      rw [List.append_nil, runs_tok_end (isD d) (a :: cur) (by simp) (by simpa [isD] using hcur)]
      simp [tokenizeAux]
  | cons c cs ih =>
    by_cases hc : c = d
    · subst hc
      cases cur with
      | nil =>
        simp only [tokenizeAux, List.length_nil, Nat.lt_irrefl, ↓reduceIte, List.nil_append]
        rw [runs_cons_delim (isD c) c cs (by simp [isD]), ih [] (by simp)]; simp
      | cons a cur =>
        rw [runs_tok_delim (isD c) (a :: cur) cs c (by simp) (by simpa [isD] using hcur) (by simp [isD])]
        simp [tokenizeAux, ih [] (by simp)]
    · have := ih (cur ++ [c]) (by
        intro x hx; rcases List.mem_append.mp hx with h | h
        · exact hcur x h
        · simp at h; subst h; exact hc)
      simp only [tokenizeAux, hc, ↓reduceIte, this, List.append_assoc, List.cons_append, List.nil_append]

theorem splitSetAux_false_eq_runs (ds : Str) (s : Str) (prev : Option Char) (cur : Option Str)
    (hcur : ∀ t, cur = some t → t ≠ [] ∧ ∀ x ∈ t, x ∉ ds) :
    splitSetAux ds false s prev cur = runs (inD ds) ((cur.getD []) ++ s) := by
  induction s generalizing prev cur with
  | nil =>
    cases cur with
    | none => simp [splitSetAux, runs_nil]
    | some t =>
      have h := hcur t rfl
      simp only [splitSetAux, Option.getD_some, List.append_nil]
      rw [runs_tok_end (inD ds) t h.1 (by simpa [inD] using h.2)]
  | cons c cs ih =>
    cases cur with
    | none =>
      by_cases hc : c ∈ ds
      · simp only [splitSetAux, hc, ↓reduceIte, Option.getD_none, List.nil_append]
        rw [runs_cons_delim (inD ds) c cs (by simp [inD, hc]), ih _ none (by simp)]; simp
      · have := ih (some c) (some [c]) (by simp [hc])
        simpa [splitSetAux, hc] using this
    | some t =>
      have h := hcur t rfl
      by_cases hc : c ∈ ds
      · simp only [splitSetAux, hc, ↓reduceIte, Option.getD_some]
        rw [runs_tok_delim (inD ds) t cs c h.1 (by simpa [inD] using h.2) (by simp [inD, hc]),
          ih _ none (by simp)]; simp
      · simp only [splitSetAux, hc, ↓reduceIte, Option.getD_some]
        rw [ih _ (some (t ++ [c])) (by
          intro t' ht'; cases ht'
          refine ⟨by simp, ?_⟩
          intro x hx; rcases List.mem_append.mp hx with h' | h'
          · exact h.2 x h'
          · simp at h'; subst h'; exact hc)]
        simp

/-- last character of `sep`, or `prev` when `sep` is empty -/
def lastOr (prev : Option Char) : Str → Option Char
  | [] => prev
  | c :: cs => lastOr (some c) cs

theorem lastOr_eq (prev : Option Char) (s : Str) : lastOr prev s = s.getLast?.or prev := by
  induction s generalizing prev with
  | nil => simp [lastOr]
  | cons c cs ih =>
    rw [lastOr, ih]
    cases cs with
    | nil => simp
    | cons c2 cs2 =>
      cases h : (c2 :: cs2).getLast? with
      | none => simp at h
      | some y => simp [List.getLast?_cons_cons, h]

theorem ss_skip (ds : Str) (k : Bool) (sep rest : Str) (prev : Option Char) (hs : ∀ x ∈ sep, x ∈ ds) :
    splitSetAux ds k (sep ++ rest) prev none = splitSetAux ds k rest (lastOr prev sep) none := by
  induction sep generalizing prev with
  | nil => simp [lastOr]
  | cons a sep ih =>
    have ha : a ∈ ds := hs a (by simp)
    simp only [List.cons_append, splitSetAux, ha, ↓reduceIte, lastOr]
    exact ih _ (fun x hx => hs x (by simp [hx]))

theorem ss_tok_acc (ds : Str) (k : Bool) (t rest cur : Str) (prev : Option Char) (ht : ∀ x ∈ t, x ∉ ds) :
    splitSetAux ds k (t ++ rest) prev (some cur) = splitSetAux ds k rest (lastOr prev t) (some (cur ++ t)) := by
  induction t generalizing prev cur with
  | nil => simp [lastOr]
  | cons a t ih =>
    have ha : a ∉ ds := ht a (by simp)
    simp only [List.cons_append, splitSetAux, ha, ↓reduceIte, lastOr]
    rw [ih _ _ (fun x hx => ht x (by simp [hx]))]; simp

def keptPrefix (k : Bool) (prev : Option Char) : Str := if k then prev.toList else []

theorem ss_tok_end (ds : Str) (k : Bool) (t : Str) (prev : Option Char) (hne : t ≠ []) (ht : ∀ x ∈ t, x ∉ ds) :
    splitSetAux ds k t prev none = [keptPrefix k prev ++ t] := by
  cases t with
  | nil => exact absurd rfl hne
  | cons a t =>
    have ha : a ∉ ds := ht a (by simp)
    have := ss_tok_acc ds k t [] (keptPrefix k prev ++ [a]) (some a) (fun x hx => ht x (by simp [hx]))
    simp only [List.append_nil] at this
    simp only [splitSetAux, ha, ↓reduceIte]
    simp only [keptPrefix] at this ⊢
    rw [this]; simp [splitSetAux]

theorem ss_tok_delim (ds : Str) (k : Bool) (t rest : Str) (d : Char) (prev : Option Char) (hne : t ≠ [])
    (ht : ∀ x ∈ t, x ∉ ds) (hd : d ∈ ds) :
    splitSetAux ds k (t ++ d :: rest) prev none = (keptPrefix k prev ++ t) :: splitSetAux ds k rest (some d) none := by
  cases t with
  | nil => exact absurd rfl hne
  | cons a t =>
    have ha : a ∉ ds := ht a (by simp)
    have := ss_tok_acc ds k t (d :: rest) (keptPrefix k prev ++ [a]) (some a) (fun x hx => ht x (by simp [hx]))
    simp only [List.cons_append, splitSetAux, ha, ↓reduceIte]
    simp only [keptPrefix] at this ⊢
    rw [this]; simp [splitSetAux, hd]

theorem ss_weave (ds : Str) (k : Bool) (first : Str × Str) (pairs : List (Str × Str)) (tail : Str)
    (prev : Option Char)
    (hseps : ∀ pr ∈ first :: pairs, ∀ x ∈ pr.1, x ∈ ds)
    (hne : ∀ pr ∈ pairs, pr.1 ≠ [])
    (htoks : ∀ pr ∈ first :: pairs, pr.2 ≠ [] ∧ ∀ x ∈ pr.2, x ∉ ds)
    (htail : ∀ x ∈ tail, x ∈ ds) :
    splitSetAux ds k (weave (first :: pairs) ++ tail) prev none =
      (keptPrefix k (lastOr prev first.1) ++ first.2) ::
        pairs.map (fun pr => keptPrefix k pr.1.getLast? ++ pr.2) := by
  induction pairs generalizing first prev with
  | nil =>
    obtain ⟨sep, t⟩ := first
    have h1 := hseps (sep, t) (by simp)
    have h2 := htoks (sep, t) (by simp)
    simp only [weave, List.append_nil, List.map_nil, List.append_assoc]
    rw [ss_skip ds k sep _ prev h1]
    cases tail with
    | nil => simpa using ss_tok_end ds k t _ h2.1 h2.2
    | cons d tl =>
      rw [ss_tok_delim ds k t tl d _ h2.1 h2.2 (htail d (by simp))]
      have := ss_skip ds k tl [] (some d) (fun x hx => htail x (by simp [hx]))
      simp only [List.append_nil] at this
      rw [this]; simp [splitSetAux]
  | cons second pairs ih =>
    obtain ⟨sep, t⟩ := first
    have h1 := hseps (sep, t) (by simp)
    have h2 := htoks (sep, t) (by simp)
    obtain ⟨sep2, t2⟩ := second
    have hs2 : sep2 ≠ [] := hne (sep2, t2) (by simp)
    have hs2d := hseps (sep2, t2) (by simp)
    cases sep2 with
    | nil => exact absurd rfl hs2
    | cons d sep2' =>
      have ih' := ih (sep2', t2) (some d)
        (by
          intro pr h x hx
          rcases List.mem_cons.mp h with h0 | h'
          · rw [h0] at hx; exact hs2d x (by simp at hx ⊢; exact Or.inr hx)
          · exact hseps pr (by simp [h']) x hx)
        (fun pr h => hne pr (by simp [h]))
        (by
          intro pr h
          rcases List.mem_cons.mp h with h0 | h'
          · rw [h0]; exact htoks (d :: sep2', t2) (by simp)
          · exact htoks pr (by simp [h']))
      simp only [weave, List.map_cons, List.append_assoc, List.cons_append] at ih' ⊢
      rw [ss_skip ds k sep _ prev h1, ss_tok_delim ds k t _ d _ h2.1 h2.2 (hs2d d (by simp)), ih']
      have e : lastOr (some d) sep2' = (d :: sep2').getLast? := by
        rw [lastOr_eq]
        cases sep2' with
        | nil => simp
        | cons y ys =>
          cases h : (y :: ys).getLast? with
          | none => simp at h
          | some z => simp [List.getLast?_cons_cons, h]
      simp [e]

/-! ## `split(input, char)` : join / split round trips -/

theorem split1Aux_eq_nil (d : Char) (s cur : Str) : split1Aux d s cur = [] ↔ s = [] ∧ cur = [] := by
  induction s generalizing cur with
  | nil => cases cur <;> simp [split1Aux]
  | cons c cs ih =>
    by_cases hc : c = d
    · simp [split1Aux, hc]
    · simp [split1Aux, hc, ih]

theorem joinWith_cons_ne (d : Char) (t : Str) (ts : List Str) (h : ts ≠ []) :
    joinWith d (t :: ts) = t ++ d :: joinWith d ts := by
  cases ts with
  | nil => exact absurd rfl h
  | cons a b => simp [joinWith]

def endFix (d : Char) (s : Str) : Str := if s.getLast? = some d then [d] else []

theorem split1Aux_join (d : Char) (s cur : Str) :
    joinWith d (split1Aux d s cur) ++ endFix d s = cur ++ s := by
  induction s generalizing cur with
  | nil => cases cur <;> simp [split1Aux, joinWith, endFix]
  | cons c cs ih =>
    by_cases hc : c = d
    · subst hc
      simp only [split1Aux, ↓reduceIte]
      by_cases hx : split1Aux c cs [] = []
      · have := (split1Aux_eq_nil c cs []).mp hx
        rw [hx, this.1]; simp [joinWith, endFix]
      · rw [joinWith_cons_ne c cur _ hx]
        have hcs : cs ≠ [] := by
          intro h; apply hx; rw [h]; simp [split1Aux]
        have e : endFix c (c :: cs) = endFix c cs := by
          cases cs with
          | nil => exact absurd rfl hcs
          | cons a b => simp [endFix, List.getLast?_cons_cons]
        have := ih []
        simp only [List.nil_append] at this
        rw [e, List.append_assoc, List.cons_append, this]
    · simp only [split1Aux, hc, ↓reduceIte]
      have e : endFix d (c :: cs) = endFix d cs := by
        cases cs with
        | nil => simp [endFix]; exact hc
        | cons a b => simp [endFix, List.getLast?_cons_cons]
      rw [e, ih]; simp

theorem split1Aux_free_append (d : Char) (t rest cur : Str) (ht : ∀ x ∈ t, x ≠ d) :
    split1Aux d (t ++ rest) cur = split1Aux d rest (cur ++ t) := by
  induction t generalizing cur with
  | nil => simp
  | cons a t ih =>
    have ha : a ≠ d := ht a (by simp)
    simp only [List.cons_append, split1Aux, ha, ↓reduceIte]
    rw [ih _ (fun x hx => ht x (by simp [hx]))]; simp

theorem split1Aux_no_delim (d : Char) (s cur : Str) (hcur : ∀ x ∈ cur, x ≠ d) :
    ∀ t ∈ split1Aux d s cur, ∀ x ∈ t, x ≠ d := by
  induction s generalizing cur with
  | nil =>
    cases cur with
    | nil => simp [split1Aux]
    | cons a b => simp only [split1Aux]; intro t ht; simp at ht; subst ht; exact hcur
  | cons c cs ih =>
    by_cases hc : c = d
    · simp only [split1Aux, hc, ↓reduceIte]
      intro t ht
      rcases List.mem_cons.mp ht with rfl | h
      · exact hcur
      · exact ih [] (by simp) t h
    · simp only [split1Aux, hc, ↓reduceIte]
      exact ih (cur ++ [c]) (by
        intro x hx; rcases List.mem_append.mp hx with h | h
        · exact hcur x h
        · simp at h; subst h; exact hc)

/-! ## PseudoURL -/

theorem findSep_type (t rest : Str) (ht : ∀ x ∈ t, x ≠ ':') :
    findSep (t ++ ':' :: '/' :: '/' :: rest) = some (t, rest) := by
  induction t with
  | nil => simp [findSep]
  | cons a t ih =>
    have ha : a ≠ ':' := ht a (by simp)
    have ih' := ih (fun x hx => ht x (by simp [hx]))
    rw [List.cons_append]
    unfold findSep
    split
    · rename_i h1 h2; exact absurd rfl ha
    · rw [ih']; simp

/-- no `:` is directly followed by `/` -/
def noSepIn : Str → Prop
  | [] => True
  | [_] => True
  | c :: c2 :: cs => ¬(c = ':' ∧ c2 = '/') ∧ noSepIn (c2 :: cs)

theorem findSep_none (s : Str) (h : noSepIn s) : findSep s = none := by
  induction s with
  | nil => simp [findSep]
  | cons c cs ih =>
    unfold findSep
    split
    · rename_i rest; simp [noSepIn] at h
    · cases cs with
      | nil => simp [findSep]
      | cons c2 cs2 =>
        simp only [noSepIn] at h
        rw [ih h.2]; simp

theorem splitEq_name (n v : Str) (hn : ∀ x ∈ n, x ≠ '=') : splitEq (n ++ '=' :: v) = (n, v) := by
  induction n with
  | nil => simp [splitEq]
  | cons a n ih =>
    have ha : a ≠ '=' := hn a (by simp)
    simp [splitEq, ha, ih (fun x hx => hn x (by simp [hx]))]

theorem splitEq_noeq (s : Str) (hs : ∀ x ∈ s, x ≠ '=') : splitEq s = (s, []) := by
  induction s with
  | nil => simp [splitEq]
  | cons a n ih =>
    have ha : a ≠ '=' := hs a (by simp)
    simp [splitEq, ha, ih (fun x hx => hs x (by simp [hx]))]

theorem runs_prefixed (p : Char → Bool) (d : Char) (hd : p d = true) (tok : Str) (toks : List Str)
    (h0 : tok ≠ [] ∧ ∀ x ∈ tok, p x = false) (hts : ∀ t ∈ toks, t ≠ [] ∧ ∀ x ∈ t, p x = false) :
    runs p (tok ++ (toks.map (d :: ·)).flatten) = tok :: toks := by
  induction toks generalizing tok with
  | nil => simpa using runs_tok_end p tok h0.1 h0.2
  | cons t2 toks ih =>
    simp only [List.map_cons, List.flatten_cons, List.cons_append]
    rw [runs_tok_delim p tok _ d h0.1 h0.2 hd, ih t2 (hts t2 (by simp)) (fun t h => hts t (by simp [h]))]

theorem getValue_append_same (ps : List (Str × Str)) (n v : Str) : getValue (ps ++ [(n, v)]) n = some v := by
  induction ps with
  | nil => simp [getValue]
  | cons p ps ih => obtain ⟨a, b⟩ := p; simp [getValue, ih]

theorem getValue_append_other (ps : List (Str × Str)) (m n v : Str) (h : m ≠ n) :
    getValue (ps ++ [(m, v)]) n = getValue ps n := by
  induction ps with
  | nil => simp [getValue, h]
  | cons p ps ih => obtain ⟨a, b⟩ := p; simp [getValue, ih]

theorem getValue_none_iff (ps : List (Str × Str)) (n : Str) : getValue ps n = none ↔ ∀ p ∈ ps, p.1 ≠ n := by
  induction ps with
  | nil => simp [getValue]
  | cons p ps ih =>
    obtain ⟨a, b⟩ := p
    simp only [getValue, List.mem_cons, forall_eq_or_imp]
    cases h : getValue ps n with
    | none =>
      have := ih.mp h
      by_cases ha : a = n
      · simp [ha]
      · simp only [ha, ↓reduceIte, ne_eq, not_false_eq_true, true_and, true_iff]
        exact this
    | some v =>
      simp only [reduceCtorEq, false_iff, not_and]
      intro _ hall
      exact absurd (ih.mpr hall) (by simp [h])

/-- `getValue` is the value of the last entry with that name -/
theorem getValue_eq_last (ps : List (Str × Str)) (n : Str) :
    getValue ps n = ((ps.filter (·.1 = n)).getLast?).map (·.2) := by
  induction ps with
  | nil => simp [getValue]
  | cons p ps ih =>
    obtain ⟨a, b⟩ := p
    simp only [getValue, List.filter_cons]
    cases h : getValue ps n with
    | some v' =>
      rw [h] at ih
      by_cases ha : a = n
      · simp only [ha, decide_true, ↓reduceIte]
        cases hf : ps.filter (·.1 = n) with
        | nil => rw [hf] at ih; simp at ih
        | cons x xs => rw [hf] at ih; rw [List.getLast?_cons_cons]; exact ih
      · simp only [ha, decide_false, Bool.false_eq_true, ↓reduceIte]; exact ih
    | none =>
      rw [h] at ih
      have hnone : ps.filter (·.1 = n) = [] := by
        have := (getValue_none_iff ps n).mp h
        simp only [List.filter_eq_nil_iff, decide_eq_true_eq]
        exact this
      by_cases ha : a = n
      · simp [ha, hnone]
      · simp [ha, hnone]

/-! ## FileName -/

theorem splitLast_none_iff (c : Char) (s : Str) : splitLast c s = none ↔ c ∉ s := by
  induction s with
  | nil => simp [splitLast]
  | cons x xs ih =>
    simp only [splitLast, List.mem_cons, not_or]
    cases h : splitLast c xs with
    | none =>
      have := ih.mp h
      by_cases hx : x = c
      · simp [hx]
      · simp [hx, this]; exact fun e => hx e.symm
    | some p =>
      obtain ⟨b, a⟩ := p
      simp only [reduceCtorEq, false_iff, not_and, Decidable.not_not]
      intro _
      exact Classical.byContradiction fun hn => absurd (ih.mpr hn) (by simp [h])

theorem splitLast_some (c : Char) (s b a : Str) (h : splitLast c s = some (b, a)) :
    s = b ++ c :: a ∧ c ∉ a := by
  induction s generalizing b a with
  | nil => simp [splitLast] at h
  | cons x xs ih =>
    simp only [splitLast] at h
    cases h' : splitLast c xs with
    | none =>
      rw [h'] at h
      by_cases hx : x = c
      · simp [hx] at h
        obtain ⟨rfl, rfl⟩ := h
        exact ⟨by simp [hx], (splitLast_none_iff c xs).mp h'⟩
      · simp [hx] at h
    | some p =>
      obtain ⟨b', a'⟩ := p
      rw [h'] at h
      simp at h
      obtain ⟨rfl, rfl⟩ := h
      have := ih b' a' h'
      exact ⟨by simp [this.1], this.2⟩

theorem splitLast_append (c : Char) (b a : Str) (ha : c ∉ a) : splitLast c (b ++ c :: a) = some (b, a) := by
  induction b with
  | nil => simp [splitLast, (splitLast_none_iff c a).mpr ha]
  | cons x xs ih => simp [splitLast, ih]

/-- the directory part is empty or ends with the separator -/
def ValidPath (pf : Str) : Prop := pf = [] ∨ ∃ p, pf = p ++ ['/']

theorem path_base_of_parts (pf b : Str) (hp : ValidPath pf) (hb : '/' ∉ b) :
    path (pf ++ b) = pf ∧ base (pf ++ b) = b := by
  rcases hp with rfl | ⟨p, rfl⟩
  · simp [path, base, (splitLast_none_iff '/' b).mpr hb]
  · have : (p ++ ['/']) ++ b = p ++ '/' :: b := by simp
    rw [this]
    simp [path, base, splitLast_append '/' p b hb]

theorem exists_path_base (f : Str) : ∃ pf b, ValidPath pf ∧ '/' ∉ b ∧ f = pf ++ b ∧ path f = pf ∧ base f = b := by
  cases h : splitLast '/' f with
  | none =>
    exact ⟨[], f, Or.inl rfl, (splitLast_none_iff '/' f).mp h, by simp, by simp [path, h], by simp [base, h]⟩
  | some p =>
    obtain ⟨b, a⟩ := p
    have := splitLast_some '/' f b a h
    exact ⟨b ++ ['/'], a, Or.inr ⟨b, rfl⟩, this.2, by simp [this.1], by simp [path, h], by simp [base, h]⟩

theorem mem_of_getLast? {α : Type} (l : List α) (x : α) (h : l.getLast? = some x) : x ∈ l :=
  List.mem_of_getLast? h

/-- file names whose last component has no dot -/
theorem parts_nodot (pf b : Str) (hp : ValidPath pf) (hb : '/' ∉ b) (hd : '.' ∉ b) :
    path (pf ++ b) = pf ∧ base (pf ++ b) = b ∧ name (pf ++ b) = b ∧ ext (pf ++ b) = [] ∧
    dropExt (pf ++ b) = mkFile (pf ++ b) ∧ ∀ e, setExt (pf ++ b) e = mkFile (pf ++ b ++ e) := by
  have hpb := path_base_of_parts pf b hp hb
  have hext : ext (pf ++ b) = [] := by simp [ext, hpb.2, (splitLast_none_iff '.' b).mpr hd]
  refine ⟨hpb.1, hpb.2, ?_, hext, ?_, ?_⟩
  all_goals
    cases h : splitLast '.' (pf ++ b) with
    | none => simp [name, dropExt, setExt, h, hpb.2]
    | some q =>
      obtain ⟨x, a⟩ := q
      have hs := splitLast_some '.' _ x a h
      -- the dot lies in the directory part, so a separator follows it
      have hsep : '/' ∈ a := by
        rcases hp with rfl | ⟨p, rfl⟩
        · exfalso
          have : '.' ∈ ([] : Str) ++ b := by rw [hs.1]; simp
          simp at this; exact hd this
        · cases hq : splitLast '.' p with
          | none =>
            exfalso
            have h1 := (splitLast_none_iff '.' p).mp hq
            have : '.' ∈ (p ++ ['/']) ++ b := by rw [hs.1]; simp
            simp at this
            rcases this with h2 | h2
            · exact h1 h2
            · exact hd h2
          | some q2 =>
            obtain ⟨x2, y2⟩ := q2
            have hs2 := splitLast_some '.' p x2 y2 hq
            have e : (p ++ ['/']) ++ b = x2 ++ '.' :: (y2 ++ '/' :: b) := by rw [hs2.1]; simp
            have hnd : '.' ∉ y2 ++ '/' :: b := by
              simp only [List.mem_append, List.mem_cons, not_or]
              exact ⟨hs2.2, by decide, hd⟩
            rw [e, splitLast_append '.' x2 _ hnd] at h
            simp at h
            rw [← h.2]; simp
      simp [name, dropExt, setExt, h, hsep, hpb.2]

/-- file names whose last component is `n.x` with `x` the text after its last dot -/
theorem parts_dot (pf n x : Str) (hp : ValidPath pf) (hn : '/' ∉ n) (hx : '/' ∉ x) (hd : '.' ∉ x) :
    let g := pf ++ n ++ '.' :: x
    path g = pf ∧ base g = n ++ '.' :: x ∧ name g = n ∧ ext g = x ∧
    dropExt g = mkFile (pf ++ n) ∧ ∀ e, setExt g e = mkFile (pf ++ n ++ e) := by
  intro g
  have hb : '/' ∉ n ++ '.' :: x := by
    simp only [List.mem_append, List.mem_cons, not_or]; exact ⟨hn, by decide, hx⟩
  have hg : g = pf ++ (n ++ '.' :: x) := by simp [g]
  have hpb := path_base_of_parts pf (n ++ '.' :: x) hp hb
  rw [← hg] at hpb
  have hsl : splitLast '.' g = some (pf ++ n, x) := splitLast_append '.' (pf ++ n) x hd
  have hbn := (path_base_of_parts pf n hp hn).2
  refine ⟨hpb.1, hpb.2, ?_, ?_, ?_, ?_⟩
  · simp [name, hsl, hx, hbn]
  · simp [ext, hpb.2, splitLast_append '.' n x hd]
  · simp [dropExt, hsl, hx]
  · intro e; simp [setExt, hsl, hx]

/-- every string is of one of the two forms -/
theorem exists_parts (f : Str) :
    (∃ pf b, ValidPath pf ∧ '/' ∉ b ∧ '.' ∉ b ∧ f = pf ++ b) ∨
    (∃ pf n x, ValidPath pf ∧ '/' ∉ n ∧ '/' ∉ x ∧ '.' ∉ x ∧ f = pf ++ n ++ '.' :: x) := by
  obtain ⟨pf, b, hp, hb, hf, _, _⟩ := exists_path_base f
  cases h : splitLast '.' b with
  | none => exact Or.inl ⟨pf, b, hp, hb, (splitLast_none_iff '.' b).mp h, hf⟩
  | some q =>
    obtain ⟨n, x⟩ := q
    have hs := splitLast_some '.' b n x h
    have hb' : '/' ∉ n ++ '.' :: x := by rw [← hs.1]; exact hb
    simp only [List.mem_append, List.mem_cons, not_or] at hb'
    exact Or.inr ⟨pf, n, x, hp, hb'.1, hb'.2.2, hs.2, by rw [hf, hs.1]; simp⟩

/-! ## constructor normalisation -/

/-- what the constructors establish: no backslash, no trailing separator -/
def Normal (f : Str) : Prop := (∀ x ∈ f, x ≠ '\\') ∧ f.getLast? ≠ some '/'

theorem rstripSep_id (s : Str) (h : s.getLast? ≠ some '/') : rstripSep s = s := by
  unfold rstripSep
  cases hr : s.reverse with
  | nil => simp at hr; simp [hr]
  | cons a l =>
    have hs : s = l.reverse ++ [a] := by
      have := congrArg List.reverse hr; simpa using this
    have ha : a ≠ '/' := by
      intro e; apply h; rw [hs, e]; simp
    simp [ha, hs]

theorem rstripSep_last (s : Str) : (rstripSep s).getLast? ≠ some '/' := by
  unfold rstripSep
  rw [List.getLast?_reverse]
  have := List.head?_dropWhile_not (fun x => decide (x = '/')) s.reverse
  intro h
  rw [h] at this
  simp at this

theorem mem_rstripSep (s : Str) (x : Char) (h : x ∈ rstripSep s) : x ∈ s := by
  unfold rstripSep at h
  have h1 := List.mem_reverse.mp h
  have := (List.dropWhile_sublist (fun x => decide (x = '/')) (l := s.reverse)).subset h1
  exact List.mem_reverse.mp this

theorem mkFile_normal (s : Str) : Normal (mkFile s) := by
  refine ⟨?_, rstripSep_last _⟩
  intro x hx
  have := mem_rstripSep _ _ hx
  simp only [List.mem_map] at this
  obtain ⟨c, _, hc⟩ := this
  by_cases h : c = '\\' ∨ c = '/'
  · simp [h] at hc; rw [← hc]; decide
  · simp [h] at hc; rw [← hc]; exact fun e => h (Or.inl e)

theorem map_slash_id (f : Str) (h : ∀ x ∈ f, x ≠ '\\') :
    f.map (fun c => if c = '\\' ∨ c = '/' then '/' else c) = f := by
  induction f with
  | nil => simp
  | cons a f ih =>
    have ha : a ≠ '\\' := h a (by simp)
    simp only [List.map_cons, ih (fun x hx => h x (by simp [hx]))]
    by_cases h2 : a = '/' <;> simp [ha, h2]

theorem mkFile_id (f : Str) (h : Normal f) : mkFile f = f := by
  unfold mkFile
  rw [map_slash_id f h.1, rstripSep_id f h.2]

theorem mkFile_idem (s : Str) : mkFile (mkFile s) = mkFile s := mkFile_id _ (mkFile_normal s)

theorem rstripSep_snoc_sep (s : Str) : rstripSep (s ++ ['/']) = rstripSep s := by
  simp [rstripSep]

/-! ## ArgumentList / removeArgs -/

variable {α : Type}

theorem remove_eq (args : List α) (w n : Nat) : remove args w n = args.take w ++ args.drop (w + n) := by
  induction n generalizing args with
  | zero => simp [remove]
  | succ n ih =>
    rw [remove, ih]
    apply List.ext_getElem?
    intro i
    simp only [List.getElem?_append, List.getElem?_take, List.getElem?_drop, List.getElem?_eraseIdx,
      List.length_take, List.length_eraseIdx]
    grind

/-- Specification of `parseAndRemove`: walk the arguments once; an argument on which the parser
    answers `k > 0` is dropped together with the `k-1` arguments after it, every other one is kept. -/
def keepUnconsumed (f : α → Nat) (args : List α) : List α :=
  match args with
  | [] => []
  | a :: rest => if f a = 0 then a :: keepUnconsumed f rest else keepUnconsumed f (rest.drop (f a - 1))
termination_by args.length
decreasing_by
  · simp
  · simp; omega

theorem keepUnconsumed_nil (f : α → Nat) : keepUnconsumed f [] = [] := by simp [keepUnconsumed]

theorem keepUnconsumed_cons (f : α → Nat) (a : α) (rest : List α) :
    keepUnconsumed f (a :: rest) =
      if f a = 0 then a :: keepUnconsumed f rest else keepUnconsumed f (rest.drop (f a - 1)) := by
  rw [keepUnconsumed]

theorem parseLoop_eq (f : α → Nat) (fuel : Nat) (args : List α) (i : Nat) (h : args.length - i < fuel) :
    parseLoop f fuel args i = args.take i ++ keepUnconsumed f (args.drop i) := by
  induction fuel generalizing args i with
  | zero => omega
  | succ fuel ih =>
    rw [parseLoop]
    cases hi : args[i]? with
    | none =>
      have : args.length ≤ i := by simpa using hi
      simp [List.drop_eq_nil_of_le this, List.take_of_length_le this, keepUnconsumed_nil]
    | some a =>
      have hlt : i < args.length := by
        have := List.getElem?_eq_some_iff.mp hi; exact this.1
      have hd : args.drop i = a :: args.drop (i + 1) := by
        have := List.getElem?_eq_some_iff.mp hi
        rw [List.drop_eq_getElem_cons hlt, this.2]
      simp only []
      rw [hd, keepUnconsumed_cons]
      by_cases h0 : f a = 0
      · simp only [h0, ↓reduceIte]
        rw [ih args (i + 1) (by omega), List.take_add_one, hi]; simp
      · simp only [h0, ↓reduceIte]
        have hlen : (remove args i (f a)).length - i < fuel := by
          rw [remove_eq]; simp only [List.length_append, List.length_take, List.length_drop]; omega
        rw [ih _ i hlen, remove_eq]
        have hl : (args.take i).length = i := by simp; omega
        have ht : (args.take i ++ args.drop (i + f a)).take i = args.take i := by
          rw [List.take_append_of_le_length (by omega), List.take_take]; simp
        have hdr : (args.take i ++ args.drop (i + f a)).drop i = args.drop (i + f a) := by
          rw [List.drop_append_of_le_length (by omega), List.drop_eq_nil_of_le (by omega)]; simp
        rw [ht, hdr, List.drop_drop]
        have e : i + 1 + (f a - 1) = i + f a := by omega
        rw [e]

/-- every position of the array after the shifting loop -/
theorem shiftLoop_get (h todo i : Nat) (av : List α) (hi : h ≤ i) (j : Nat) :
    (shiftLoop h todo i av)[j]? =
      if i - h ≤ j ∧ j < i - h + todo ∧ j + h < av.length then av[j + h]? else av[j]? := by
  induction todo generalizing i av with
  | zero => rw [shiftLoop, if_neg (by omega)]
  | succ todo ih =>
    rw [shiftLoop]
    cases hx : av[i]? with
    | none =>
      have : av.length ≤ i := by simpa using hx
      rw [if_neg (by omega)]
    | some x =>
      have hlt : i < av.length := (List.getElem?_eq_some_iff.mp hx).1
      simp only []
      rw [ih (i + 1) (av.set (i - h) x) (by omega)]
      simp only [List.length_set]
      by_cases hj : j = i - h
      · subst hj
        have e : i - h + h = i := by omega
        rw [if_neg (by omega), if_pos (by omega), e, hx, List.getElem?_set_self (by omega)]
      · by_cases c : i + 1 - h ≤ j ∧ j < i + 1 - h + todo ∧ j + h < av.length
        · rw [if_pos c, if_pos (by omega), List.getElem?_set_ne (by omega)]
        · rw [if_neg c, if_neg (by omega), List.getElem?_set_ne (by omega)]

theorem shiftLoop_length (h todo i : Nat) (av : List α) : (shiftLoop h todo i av).length = av.length := by
  induction todo generalizing i av with
  | zero => simp [shiftLoop]
  | succ todo ih =>
    rw [shiftLoop]
    cases hx : av[i]? with
    | none => simp
    | some x => simp [ih]

/-! ## helpers for the FileName laws -/

/-- A well-formed extension argument: `.` followed by characters other than `.`, `/`, `\`. -/
def ExtOk (x : Str) : Prop := '.' ∉ x ∧ '/' ∉ x ∧ '\\' ∉ x

theorem getLast?_append_ne (l m : Str) (h : m ≠ []) : (l ++ m).getLast? = m.getLast? := by
  induction l with
  | nil => simp
  | cons a l ih =>
    cases hlm : l ++ m with
    | nil => simp at hlm; exact absurd hlm.2 h
    | cons b r => rw [List.cons_append, hlm, List.getLast?_cons_cons, ← hlm, ih]

theorem normal_append_ext (g x : Str) (hg : ∀ c ∈ g, c ≠ '\\') (hx : ExtOk x) : Normal (g ++ '.' :: x) := by
  refine ⟨?_, ?_⟩
  · intro c hc
    simp only [List.mem_append, List.mem_cons] at hc
    rcases hc with h | h | h
    · exact hg c h
    · subst h; decide
    · intro e; subst e; exact hx.2.2 h
  · intro h
    have hm := List.mem_of_getLast? h
    have : (g ++ '.' :: x).getLast? = ('.' :: x).getLast? := getLast?_append_ne g _ (by simp)
    rw [this] at h
    have hm := List.mem_of_getLast? h
    simp only [List.mem_cons] at hm
    rcases hm with h1 | h1
    · exact absurd h1 (by decide)
    · exact hx.2.1 h1

theorem mem_path_name (f : Str) (c : Char) (h : c ∈ path f ++ name f) : c ∈ f := by
  rcases exists_parts f with ⟨pf, b, hp, hb, hd, rfl⟩ | ⟨pf, n, x, hp, hn, hx, hd, rfl⟩
  · obtain ⟨h1, _, h3, _, _, _⟩ := parts_nodot pf b hp hb hd
    rw [h1, h3] at h; exact h
  · obtain ⟨h1, _, h3, _, _, _⟩ := parts_dot pf n x hp hn hx hd
    rw [h1, h3] at h; simp at h ⊢; rcases h with h | h <;> simp [h]

end RkVerif.C18
