/-
Helper lemmas for C09 (Any part): the ownership invariant `AInv` of the holder heap (held holders
are allocated, no holder is shared, every allocated holder is owned, fresh ids are unallocated),
its preservation by every operation (`astep_inv`), the abstraction `absA`, the value-level
reference semantics `ARef.step` and the commutation `astep_abs`.
-/
import RkVerif.Lemmas.C09
set_option linter.unusedSectionVars false
namespace RkVerif.C09

/-! ## Any -/

/-- Ownership invariant of the holder heap. -/
structure AInv (σ : AWorld) : Prop where
  noerr : σ.errs = []
  /-- every holder an Any points to is allocated -/
  alloc : ∀ i h, σ.a i = some (some h) → (σ.heap h).isSome = true
  /-- no two Any objects point to the same holder -/
  inj : ∀ i j h, σ.a i = some (some h) → σ.a j = some (some h) → i = j
  /-- every allocated holder is owned by some Any (nothing leaks) -/
  owned : ∀ h, (σ.heap h).isSome = true → ∃ i, σ.a i = some (some h)
  /-- allocation ids not yet handed out are unallocated -/
  fresh : ∀ h, (σ.heap h).isSome = true → h < σ.next

abbrev ARef := Nat → Option (Option (Tag × Nat))

/-- what an Any object holds: no object / empty / (type tag, value) -/
def absA (σ : AWorld) (i : Nat) : Option (Option (Tag × Nat)) := (σ.a i).map (fun p => p.bind σ.heap)

/-- Reference semantics of the Any operations on values. -/
def ARef.step (r : ARef) : AOp → ARef
  | .ctorDefault i => upd r i (some none)
  | .ctorValue i t x => upd r i (some (some (t, x)))
  | .ctorCopy i j => if i ≠ j ∧ (r j).isSome then upd r i (r j) else r
  | .dtor i => upd r i none
  | .assign i j => if (r i).isSome ∧ (r j).isSome then upd r i (r j) else r
  | .assignValue i t x => if (r i).isSome then upd r i (some (some (t, x))) else r
  | .mutate i t x =>
    match r i with
    | some (some (t', _)) => if t' = t then upd r i (some (some (t, x))) else r
    | _ => r

def ARef.runR : List AOp → ARef
  | [] => fun _ => none
  | op :: earlier => ARef.step (ARef.runR earlier) op

theorem ainv_init : AInv ({} : AWorld) := by
  constructor <;> simp

theorem any_shapes {σ : AWorld} (h : AInv σ) (i : Nat) :
    σ.a i = none ∨ σ.a i = some none ∨
      ∃ hd c, σ.a i = some (some hd) ∧ σ.heap hd = some c ∧ ¬ hd = σ.next := by
  cases hi : σ.a i with
  | none => simp
  | some p =>
    cases p with
    | none => simp
    | some hd =>
      have := h.alloc i hd hi
      cases hc : σ.heap hd with
      | none => simp [hc] at this
      | some c => right; right; exact ⟨hd, c, rfl, hc, Nat.ne_of_lt (h.fresh hd (by simp [hc]))⟩

macro "c09_aeval" : tactic => `(tactic|
  simp (config := { decide := true }) [astep, aclear, apresent, adtor, free, clone, alloc, AWorld.err, upd_other, *])

macro "c09_g" : tactic => `(tactic| all_goals ((try simp only [upd]) <;> (first | done | grind)))

/-- closes `AInv` of a closed-form world, given the old invariant `h` -/
macro "c09_ainv" h:ident : tactic => `(tactic|
  (have hA := AInv.alloc $h
   have hI := AInv.inj $h
   have hO := AInv.owned $h
   have hF := AInv.fresh $h
   have hE := AInv.noerr $h
   constructor
   · first | assumption | simp [*]
   · intro k hh; c09_g
   · intro k l hh; c09_g
   · intro hh; (try simp only [upd]); intro hc'
     by_cases hfr : hh = AWorld.next ‹AWorld›
     · c09_g
     · obtain ⟨k, hk⟩ := hO hh (by c09_g); refine ⟨k, ?_⟩; c09_g
   · intro hh; c09_g))

macro "c09_ashapes2" h:ident i:ident j:ident hij:ident : tactic => `(tactic|
  (rcases any_shapes $h $i with h1 | h1 | ⟨hd, c, h1, hc, hn⟩ <;>
   rcases any_shapes $h $j with g1 | g1 | ⟨gd, d, g1, gc, gn⟩ <;>
   try (have hgh : ¬ gd = hd := fun e => $hij (AInv.inj $h $i $j hd h1 (e ▸ g1))
        have hhg : ¬ hd = gd := fun e => hgh e.symm)))

/-- Every Any operation keeps the ownership invariant. -/
theorem astep_inv {σ : AWorld} (op : AOp) (h : AInv σ) : AInv (astep σ op) := by
  cases op with
  | ctorDefault i => rcases any_shapes h i with h1 | h1 | ⟨hd, c, h1, hc, hn⟩ <;> c09_aeval <;> c09_ainv h
  | ctorValue i t x => rcases any_shapes h i with h1 | h1 | ⟨hd, c, h1, hc, hn⟩ <;> c09_aeval <;> c09_ainv h
  | dtor i => rcases any_shapes h i with h1 | h1 | ⟨hd, c, h1, hc, hn⟩ <;> c09_aeval <;> c09_ainv h
  | assignValue i t x => rcases any_shapes h i with h1 | h1 | ⟨hd, c, h1, hc, hn⟩ <;> c09_aeval <;> c09_ainv h
  | mutate i t x =>
    rcases any_shapes h i with h1 | h1 | ⟨hd, c, h1, hc, hn⟩
    · simpa [astep, h1] using h
    · simpa [astep, h1] using h
    · simp only [astep, h1, hc]
      split
      · c09_ainv h
      · exact h
  | ctorCopy i j =>
    by_cases hij : i = j
    · subst hij; simpa [astep] using h
    · have hji : ¬ j = i := fun e => hij e.symm
      c09_ashapes2 h i j hij <;> c09_aeval <;> (try exact h) <;> c09_ainv h
  | assign i j =>
    by_cases hij : i = j
    · subst hij
      rcases any_shapes h i with h1 | h1 | ⟨hd, c, h1, hc, hn⟩ <;> c09_aeval <;> (try exact h) <;> c09_ainv h
    · have hji : ¬ j = i := fun e => hij e.symm
      c09_ashapes2 h i j hij <;> c09_aeval <;> (try exact h) <;> c09_ainv h

theorem ainv_runR (hist : List AOp) : AInv (arunR hist) := by
  induction hist with
  | nil => exact ainv_init
  | cons op earlier ih => exact astep_inv op ih


/-- evaluates both sides of `absA (astep σ op) k = ARef.step (absA σ) op k` at a slot `k` -/
macro "c09_aabs" h:ident i:ident j:ident : tactic => `(tactic|
  (have hI := AInv.inj $h
   have hF := AInv.fresh $h
   funext k
   by_cases hki : k = $i
   · subst hki
     simp (config := { decide := true }) [absA, ARef.step, astep, aclear, apresent, adtor, free, clone, alloc, AWorld.err, upd, *] <;>
     (first | done | grind)
   · by_cases hkj : k = $j
     · subst hkj
       simp (config := { decide := true }) [absA, ARef.step, astep, aclear, apresent, adtor, free, clone, alloc, AWorld.err, upd, *] <;>
       (first | done | grind)
     · rcases any_shapes $h k with k1 | k1 | ⟨kd, kc, k1, kcc, kn⟩ <;>
       simp (config := { decide := true }) [absA, ARef.step, astep, aclear, apresent, adtor, free, clone, alloc, AWorld.err, upd, *] <;>
       (first | done | grind)))

/-- Every Any operation acts on the held values as the value-level reference semantics says. -/
theorem astep_abs {σ : AWorld} (op : AOp) (h : AInv σ) : absA (astep σ op) = ARef.step (absA σ) op := by
  cases op with
  | ctorDefault i => rcases any_shapes h i with h1 | h1 | ⟨hd, c, h1, hc, hn⟩ <;> c09_aabs h i i
  | ctorValue i t x => rcases any_shapes h i with h1 | h1 | ⟨hd, c, h1, hc, hn⟩ <;> c09_aabs h i i
  | dtor i => rcases any_shapes h i with h1 | h1 | ⟨hd, c, h1, hc, hn⟩ <;> c09_aabs h i i
  | assignValue i t x => rcases any_shapes h i with h1 | h1 | ⟨hd, c, h1, hc, hn⟩ <;> c09_aabs h i i
  | mutate i t x =>
    rcases any_shapes h i with h1 | h1 | ⟨hd, c, h1, hc, hn⟩
    · c09_aabs h i i
    · c09_aabs h i i
    · obtain ⟨t', v⟩ := c
      by_cases ht : t' = t <;> c09_aabs h i i
  | ctorCopy i j =>
    by_cases hij : i = j
    · subst hij; simp [astep, ARef.step]
    · have hji : ¬ j = i := fun e => hij e.symm
      c09_ashapes2 h i j hij <;> c09_aabs h i j
  | assign i j =>
    by_cases hij : i = j
    · subst hij
      rcases any_shapes h i with h1 | h1 | ⟨hd, c, h1, hc, hn⟩ <;> c09_aabs h i i
    · have hji : ¬ j = i := fun e => hij e.symm
      c09_ashapes2 h i j hij <;> c09_aabs h i j

end RkVerif.C09
