/-
Helper lemmas for property C15 (model: Model/C15.lean).
-/
import RkVerif.Model.C15
set_option linter.unusedVariables false

namespace RkVerif.C15

theorem sub64_of_le {a b : Nat} (h : b ≤ a) (ha : a < W) : sub64 a b = a - b := by
  unfold sub64 W at *; omega

theorem add64_of_lt {a b : Nat} (h : a + b < W) : add64 a b = a + b := by
  unfold add64 W at *; omega

theorem leBytes_length (k n : Nat) : (leBytes k n).length = k := by
  induction k generalizing n with
  | zero => simp [leBytes]
  | succ k ih => simp [leBytes, ih]

theorem leVal_leBytes (k n : Nat) (h : n < 256 ^ k) : leVal (leBytes k n) = n := by
  induction k generalizing n with
  | zero => simp [leBytes, leVal]; omega
  | succ k ih =>
    have h2 : n / 256 < 256 ^ k := by
      rw [Nat.pow_succ] at h; omega
    simp only [leBytes, leVal, ih _ h2]
    have : (UInt8.ofNat (n % 256)).toNat = n % 256 := by
      simp [UInt8.toNat_ofNat']
    omega

theorem le64_length (n : Nat) : (le64 n).length = 8 := leBytes_length 8 n
theorem leVal_le64 (n : Nat) (h : n < W) : leVal (le64 n) = n := leVal_leBytes 8 n (by simpa using h)
theorem leVal_lt (bs : List UInt8) : leVal bs < 256 ^ bs.length := by
  induction bs with
  | nil => simp [leVal]
  | cons b bs ih =>
    simp only [leVal, List.length_cons, Nat.pow_succ]
    have := b.toNat_lt
    omega

/-! ### Res -/

@[simp] theorem Res.bind_ok {α β : Type} (a : α) (f : α → Res β) : (Res.ok a).bind f = f a := rfl
@[simp] theorem Res.bind_throw {α β : Type} (f : α → Res β) : (Res.throw : Res α).bind f = .throw := rfl
@[simp] theorem Res.bind_fault {α β : Type} (f : α → Res β) : (Res.fault : Res α).bind f = .fault := rfl
@[simp] theorem Res.map_ok {α β : Type} (a : α) (f : α → β) : (Res.ok a).map f = .ok (f a) := rfl
@[simp] theorem Res.map_throw {α β : Type} (f : α → β) : (Res.throw : Res α).map f = .throw := rfl
@[simp] theorem Res.map_fault {α β : Type} (f : α → β) : (Res.fault : Res α).map f = .fault := rfl

/-- two outcomes agree up to a relation on the results; neither is a fault -/
def RelRes {α β : Type} (R : α → β → Prop) : Res α → Res β → Prop
  | .ok a, .ok b => R a b
  | .throw, .throw => True
  | _, _ => False

theorem RelRes.bind {α β α' β' : Type} {R : α → β → Prop} {R' : α' → β' → Prop}
    {x : Res α} {y : Res β} {f : α → Res α'} {g : β → Res β'}
    (h : RelRes R x y) (hf : ∀ a b, R a b → RelRes R' (f a) (g b)) : RelRes R' (x.bind f) (y.bind g) := by
  cases x <;> cases y <;> simp_all [RelRes]

theorem RelRes.map {α β α' β' : Type} {R : α → β → Prop} {R' : α' → β' → Prop}
    {x : Res α} {y : Res β} {f : α → α'} {g : β → β'}
    (h : RelRes R x y) (hf : ∀ a b, R a b → R' (f a) (g b)) : RelRes R' (x.map f) (y.map g) := by
  cases x <;> cases y <;> simp_all [RelRes]

theorem repeatN_sim {σ τ α : Type} {S : σ → τ → Prop} {f : σ → Res (α × σ)} {g : τ → Res (α × τ)}
    (hfg : ∀ s t, S s t → RelRes (fun x y => x.1 = y.1 ∧ S x.2 y.2) (f s) (g t))
    (n : Nat) (s : σ) (t : τ) (h : S s t) :
    RelRes (fun x y => x.1 = y.1 ∧ S x.2 y.2) (repeatN f n s) (repeatN g n t) := by
  induction n generalizing s t with
  | zero => simp [repeatN, RelRes, h]
  | succ n ih =>
    have h1 := hfg s t h
    simp only [repeatN]
    cases hf : f s with
    | ok p =>
      cases hg : g t with
      | ok q =>
        rw [hf, hg] at h1
        obtain ⟨a, s1⟩ := p
        obtain ⟨b, t1⟩ := q
        simp only [RelRes] at h1
        have h2 := ih s1 t1 h1.2
        simp only
        cases hr : repeatN f n s1 <;> cases hr' : repeatN g n t1 <;> rw [hr, hr'] at h2 <;>
          simp_all [RelRes]
      | throw => rw [hf, hg] at h1; simp [RelRes] at h1
      | fault => rw [hf, hg] at h1; simp [RelRes] at h1
    | throw => cases hg : g t <;> rw [hf, hg] at h1 <;> simp_all [RelRes]
    | fault => cases hg : g t <;> rw [hf, hg] at h1 <;> simp_all [RelRes]

/-! ### BufferReader: the guards in 64-bit arithmetic decide exactly "fits" -/

/-- cursor inside the buffer, buffer size representable as size_t -/
def Reader.Inv (r : Reader) : Prop := r.buf.length < W ∧ r.cursor ≤ r.buf.length

theorem Reader.rejects_iff (r : Reader) (h : r.Inv) (size : Nat) :
    r.rejects size = true ↔ ¬ (r.cursor + size ≤ r.buf.length) := by
  obtain ⟨h1, h2⟩ := h
  simp only [Reader.rejects, Reader.size, Bool.or_eq_true, decide_eq_true_eq, sub64_of_le h2 h1]
  omega

theorem Reader.read_spec (r : Reader) (h : r.Inv) (size : Nat) :
    r.read size =
      if r.cursor + size ≤ r.buf.length then
        .ok ((r.buf.drop r.cursor).take size, ⟨r.buf, r.cursor + size⟩)
      else .throw := by
  have hr := Reader.rejects_iff r h size
  obtain ⟨h1, h2⟩ := h
  unfold Reader.read
  by_cases hfit : r.cursor + size ≤ r.buf.length
  · have : r.rejects size = false := by
      cases hx : r.rejects size
      · rfl
      · exact absurd hfit (hr.mp hx)
    simp only [this, hfit, if_true, Bool.false_eq_true, if_false]
    have ha : add64 r.cursor size = r.cursor + size := add64_of_lt (by unfold W at *; omega)
    unfold slice?
    by_cases hz : size = 0
    · subst hz; simp [ha]
    · simp [hz, hfit, ha]
  · have : r.rejects size = true := hr.mpr hfit
    simp [this, hfit]

theorem Reader.rejectsView_iff (r : Reader) (h : r.Inv) (count k : Nat) (hk : 0 < k) :
    r.rejectsView count k = true ↔ ¬ (r.cursor + count * k ≤ r.buf.length) := by
  obtain ⟨h1, h2⟩ := h
  have hdiv : count > (r.buf.length - r.cursor) / k ↔ ¬ (count * k ≤ r.buf.length - r.cursor) := by
    rw [← Nat.le_div_iff_mul_le hk]; omega
  simp only [Reader.rejectsView, Reader.size, Bool.or_eq_true, decide_eq_true_eq, sub64_of_le h2 h1, hdiv]
  omega

theorem Reader.getView_spec (r : Reader) (h : r.Inv) (count k : Nat) (hk : 0 < k) :
    r.getView count k =
      if r.cursor + count * k ≤ r.buf.length then
        .ok ((r.buf.drop r.cursor).take (count * k), ⟨r.buf, r.cursor + count * k⟩)
      else .throw := by
  have hr := Reader.rejectsView_iff r h count k hk
  obtain ⟨h1, h2⟩ := h
  unfold Reader.getView
  by_cases hfit : r.cursor + count * k ≤ r.buf.length
  · have : r.rejectsView count k = false := by
      cases hx : r.rejectsView count k
      · rfl
      · exact absurd hfit (hr.mp hx)
    simp only [this, hfit, if_true, Bool.false_eq_true, if_false]
    have hm : mul64 count k = count * k := by unfold mul64 W at *; omega
    have ha : add64 r.cursor (count * k) = r.cursor + count * k := add64_of_lt (by unfold W at *; omega)
    unfold slice?
    by_cases hz : count * k = 0
    · rw [hz] at ha; simp [hm, hz, ha]
    · simp [hm, hz, hfit, ha]
  · have : r.rejectsView count k = true := hr.mpr hfit
    simp [this, hfit]

/-! ### the reader with cursor simulates the cursor-free decoder -/

/-- reader `r` over the fixed buffer `B` has exactly `bs` left to read -/
def SimB (B : List UInt8) (r : Reader) (bs : List UInt8) : Prop :=
  r.Inv ∧ r.buf = B ∧ r.buf.drop r.cursor = bs

theorem Res.bind_map {α β γ : Type} (x : Res α) (f : α → β) (g : β → Res γ) :
    (x.map f).bind g = x.bind (fun a => g (f a)) := by cases x <;> rfl

theorem read_sim {B : List UInt8} {r : Reader} {bs : List UInt8} (h : SimB B r bs) (n : Nat) :
    RelRes (fun x y => x.1 = y.1 ∧ SimB B x.2 y.2) (r.read n) (takeN n bs) := by
  obtain ⟨hi, hB, hd⟩ := h
  have hlen : bs.length = r.buf.length - r.cursor := by rw [← hd]; simp
  rw [Reader.read_spec r hi n]
  unfold takeN
  obtain ⟨h1, h2⟩ := hi
  by_cases hfit : r.cursor + n ≤ r.buf.length
  · have : n ≤ bs.length := by omega
    simp only [hfit, this, if_true, RelRes, hd, true_and]
    refine ⟨⟨h1, hfit⟩, hB, ?_⟩
    simp only [← hd, List.drop_drop]
  · have : ¬ n ≤ bs.length := by omega
    simp [hfit, this, RelRes]

theorem getView_sim {B : List UInt8} {r : Reader} {bs : List UInt8} (h : SimB B r bs) (n : Nat) :
    RelRes (fun x y => x.1 = y.1 ∧ SimB B x.2 y.2) (r.getView n 1) (takeN n bs) := by
  obtain ⟨hi, hB, hd⟩ := h
  have hlen : bs.length = r.buf.length - r.cursor := by rw [← hd]; simp
  rw [Reader.getView_spec r hi n 1 (by omega)]
  unfold takeN
  obtain ⟨h1, h2⟩ := hi
  simp only [Nat.mul_one]
  by_cases hfit : r.cursor + n ≤ r.buf.length
  · have : n ≤ bs.length := by omega
    simp only [hfit, this, if_true, RelRes, hd, true_and]
    refine ⟨⟨h1, hfit⟩, hB, ?_⟩
    simp only [← hd, List.drop_drop]
  · have : ¬ n ≤ bs.length := by omega
    simp [hfit, this, RelRes]

/-- `readVal` (cursor, 64-bit guards, memory accesses) and `decode` (plain lists) agree on every
    buffer content, well-formed or not; in particular `readVal` never faults. -/
theorem readVal_sim (t : Ty) {B : List UInt8} {r : Reader} {bs : List UInt8} (h : SimB B r bs) :
    RelRes (fun x y => x.1 = y.1 ∧ SimB B x.2 y.2) (readVal t r) (decode t bs) := by
  induction t generalizing r bs with
  | pod k =>
    simp only [readVal, decode]
    exact (read_sim h k).map (fun a b hab => ⟨by simp [hab.1], hab.2⟩)
  | str =>
    simp only [readVal, decode, Reader.readLen, Res.bind_map]
    refine (read_sim h 8).bind (fun a b hab => ?_)
    rw [hab.1]
    exact (read_sim hab.2 _).map (fun a b hab => ⟨by simp [hab.1], hab.2⟩)
  | vec t ih =>
    simp only [readVal, decode, Reader.readLen, Res.bind_map]
    refine (read_sim h 8).bind (fun a b hab => ?_)
    rw [hab.1]
    exact (repeatN_sim (fun s u hs => ih hs) _ _ _ hab.2).map (fun a b hab => ⟨by simp [hab.1], hab.2⟩)
  | arr k =>
    simp only [readVal, decode, Reader.readLen, Res.bind_map]
    refine (read_sim h 8).bind (fun a b hab => ?_)
    rw [hab.1]
    exact (getView_sim hab.2 _).map (fun a b hab => ⟨by simp [hab.1], hab.2⟩)

theorem readAll_sim (ts : List Ty) {B : List UInt8} {r : Reader} {bs : List UInt8} (h : SimB B r bs) :
    RelRes (fun x y => x.1 = y.1 ∧ SimB B x.2 y.2) (readAll ts r) (decodeAll ts bs) := by
  induction ts generalizing r bs with
  | nil => simp [readAll, decodeAll, RelRes, h]
  | cons t ts ih =>
    simp only [readAll, decodeAll]
    refine (readVal_sim t h).bind (fun a b hab => ?_)
    exact (ih hab.2).map (fun x y hxy => ⟨by simp [hab.1, hxy.1], hxy.2⟩)

/-! ### the format: cursor-free round trip and truncation -/

@[simp] theorem encode_pod (bs : List UInt8) : encode (.pod bs) = bs := by simp [encode, chunks]
@[simp] theorem encode_str (bs : List UInt8) : encode (.str bs) = le64 bs.length ++ bs := by
  simp [encode, chunks]
@[simp] theorem encode_arr (n : Nat) (bs : List UInt8) : encode (.arr n bs) = le64 n ++ bs := by
  simp [encode, chunks]
@[simp] theorem encode_vec (vs : List Val) : encode (.vec vs) = le64 vs.length ++ encodeL vs := by
  simp [encode, encodeL, chunks]
@[simp] theorem encodeL_nil : encodeL [] = [] := by simp [encodeL, chunksL]
@[simp] theorem encodeL_cons (v : Val) (vs : List Val) : encodeL (v :: vs) = encode v ++ encodeL vs := by
  simp [encodeL, encode, chunksL]

theorem takeN_append (a rest : List UInt8) : takeN a.length (a ++ rest) = .ok (a, rest) := by
  simp [takeN]

theorem takeN_append' (a rest : List UInt8) (n : Nat) (h : n = a.length) :
    takeN n (a ++ rest) = .ok (a, rest) := by subst h; exact takeN_append a rest

theorem takeN_short (n : Nat) (bs : List UInt8) (h : bs.length < n) : takeN n bs = .throw := by
  simp [takeN]; omega

theorem repeatN_decode_encodeL (t : Ty)
    (ih : ∀ v rest, WT t v → decode t (encode v ++ rest) = .ok (v, rest))
    (vs : List Val) (hv : ∀ v ∈ vs, WT t v) (rest : List UInt8) :
    repeatN (decode t) vs.length (encodeL vs ++ rest) = .ok (vs, rest) := by
  induction vs with
  | nil => simp [repeatN]
  | cons v vs ihv =>
    have h1 := ih v (encodeL vs ++ rest) (hv v (by simp))
    have h2 := ihv (fun x hx => hv x (by simp [hx]))
    simp only [List.length_cons, repeatN, encodeL_cons, List.append_assoc, h1, h2]

theorem decode_encode' (t : Ty) : ∀ (v : Val) (rest : List UInt8), WT t v →
    decode t (encode v ++ rest) = .ok (v, rest) := by
  induction t with
  | pod k =>
    intro v rest h
    cases v <;> simp only [WT] at h
    subst h
    simp [decode, takeN_append]
  | str =>
    intro v rest h
    cases v <;> simp only [WT] at h
    rename_i bs
    simp only [decode, encode_str, List.append_assoc]
    rw [takeN_append' (le64 bs.length) _ 8 (le64_length _).symm]
    simp only [Res.bind_ok, leVal_le64 _ h, takeN_append, Res.map_ok]
  | vec t ih =>
    intro v rest h
    cases v <;> simp only [WT] at h
    rename_i vs
    simp only [decode, encode_vec, List.append_assoc]
    rw [takeN_append' (le64 vs.length) _ 8 (le64_length _).symm]
    simp only [Res.bind_ok, leVal_le64 _ h.1, repeatN_decode_encodeL t ih vs h.2, Res.map_ok]
  | arr k =>
    intro v rest h
    cases v <;> simp only [WT] at h
    rename_i n bs
    obtain ⟨hn, hl, hm⟩ := h
    simp only [decode, encode_arr, List.append_assoc]
    rw [takeN_append' (le64 n) _ 8 (le64_length _).symm]
    have : mul64 n k = bs.length := by rw [hl]; unfold mul64; exact Nat.mod_eq_of_lt hm
    simp only [Res.bind_ok, leVal_le64 _ hn, this, takeN_append, Res.map_ok]

theorem repeatN_decode_truncated (t : Ty)
    (ihT : ∀ v m, WT t v → m < (encode v).length → decode t ((encode v).take m) = .throw)
    (vs : List Val) (hv : ∀ v ∈ vs, WT t v) (m : Nat) (hm : m < (encodeL vs).length) :
    repeatN (decode t) vs.length ((encodeL vs).take m) = .throw := by
  induction vs generalizing m with
  | nil => simp at hm
  | cons v vs ihv =>
    have hwt := hv v (by simp)
    simp only [List.length_cons, repeatN, encodeL_cons, List.take_append]
    by_cases hlt : m < (encode v).length
    · have h0 : m - (encode v).length = 0 := by omega
      simp [h0, ihT v m hwt hlt]
    · have h1 : (encode v).take m = encode v := List.take_of_length_le (by omega)
      rw [h1, decode_encode' t v _ hwt]
      simp only [encodeL_cons, List.length_append] at hm
      have h2 := ihv (fun x hx => hv x (by simp [hx])) (m - (encode v).length) (by omega)
      simp [h2]

theorem decode_truncated' (t : Ty) : ∀ (v : Val) (m : Nat), WT t v → m < (encode v).length →
    decode t ((encode v).take m) = .throw := by
  induction t with
  | pod k =>
    intro v m h hm
    cases v <;> simp only [WT] at h
    subst h
    simp only [encode_pod] at hm
    simp only [decode, encode_pod]
    rw [takeN_short _ _ (by simp; omega)]; rfl
  | str =>
    intro v m h hm
    cases v <;> simp only [WT] at h
    rename_i bs
    simp only [encode_str, List.length_append, le64_length] at hm
    simp only [decode, encode_str, List.take_append, le64_length]
    by_cases h8 : m < 8
    · rw [takeN_short 8 _ (by simp [le64_length]; omega)]; rfl
    · have h1 : (le64 bs.length).take m = le64 bs.length :=
        List.take_of_length_le (by simp [le64_length]; omega)
      rw [h1, takeN_append' (le64 bs.length) _ 8 (le64_length _).symm]
      simp only [Res.bind_ok, leVal_le64 _ h]
      rw [takeN_short _ _ (by simp; omega)]; rfl
  | vec t ih =>
    intro v m h hm
    cases v <;> simp only [WT] at h
    rename_i vs
    simp only [encode_vec, List.length_append, le64_length] at hm
    simp only [decode, encode_vec, List.take_append, le64_length]
    by_cases h8 : m < 8
    · rw [takeN_short 8 _ (by simp [le64_length]; omega)]; rfl
    · have h1 : (le64 vs.length).take m = le64 vs.length :=
        List.take_of_length_le (by simp [le64_length]; omega)
      rw [h1, takeN_append' (le64 vs.length) _ 8 (le64_length _).symm]
      simp only [Res.bind_ok, leVal_le64 _ h.1]
      rw [repeatN_decode_truncated t ih vs h.2 (m - 8) (by omega)]; rfl
  | arr k =>
    intro v m h hm
    cases v <;> simp only [WT] at h
    rename_i n bs
    obtain ⟨hn, hl, hmul⟩ := h
    simp only [encode_arr, List.length_append, le64_length] at hm
    simp only [decode, encode_arr, List.take_append, le64_length]
    by_cases h8 : m < 8
    · rw [takeN_short 8 _ (by simp [le64_length]; omega)]; rfl
    · have h1 : (le64 n).take m = le64 n :=
        List.take_of_length_le (by simp [le64_length]; omega)
      rw [h1, takeN_append' (le64 n) _ 8 (le64_length _).symm]
      have : mul64 n k = bs.length := by rw [hl]; unfold mul64; exact Nat.mod_eq_of_lt hmul
      simp only [Res.bind_ok, leVal_le64 _ hn, this]
      rw [takeN_short _ _ (by simp; omega)]; rfl

/-! ### sequences of values -/

theorem encodeL_append (a b : List Val) : encodeL (a ++ b) = encodeL a ++ encodeL b := by
  induction a with
  | nil => simp
  | cons v vs ih => simp [ih]

theorem decodeAll_encodeL' (ts : List Ty) (vs : List Val) (h : WTL ts vs) (rest : List UInt8) :
    decodeAll ts (encodeL vs ++ rest) = .ok (vs, rest) := by
  induction ts generalizing vs with
  | nil => cases vs <;> simp_all [WTL, decodeAll]
  | cons t ts ih =>
    cases vs with
    | nil => simp [WTL] at h
    | cons v vs =>
      simp only [WTL] at h
      simp only [decodeAll, encodeL_cons, List.append_assoc, decode_encode' _ _ _ h.1, Res.bind_ok,
        ih vs h.2, Res.map_ok]

theorem decodeAll_truncated' (ts : List Ty) (vs : List Val) (h : WTL ts vs) (m : Nat)
    (hm : m < (encodeL vs).length) : decodeAll ts ((encodeL vs).take m) = .throw := by
  induction ts generalizing vs m with
  | nil => cases vs <;> simp_all [WTL]
  | cons t ts ih =>
    cases vs with
    | nil => simp [WTL] at h
    | cons v vs =>
      simp only [WTL] at h
      obtain ⟨hv, hvs⟩ := h
      simp only [decodeAll, encodeL_cons, List.take_append]
      by_cases hlt : m < (encode v).length
      · have h0 : m - (encode v).length = 0 := by omega
        simp [h0, decode_truncated' t v m hv hlt]
      · have h1 : (encode v).take m = encode v := List.take_of_length_le (by omega)
        rw [h1, decode_encode' t v _ hv]
        simp only [encodeL_cons, List.length_append] at hm
        simp [ih vs hvs (m - (encode v).length) (by omega)]

/-! ### BufferWriter, WriteSizeCalculator -/

theorem BufW.write_eq (w : BufW) (bs : List UInt8) : w.write bs = .ok ⟨w.buf ++ bs⟩ := by
  unfold BufW.write store?
  by_cases hz : bs.length = 0
  · have : bs = [] := List.eq_nil_of_length_eq_zero hz
    subst this; simp
  · simp [hz]

theorem BufW.writeChunks_eq (w : BufW) (cs : List (List UInt8)) :
    w.writeChunks cs = .ok ⟨w.buf ++ cs.flatten⟩ := by
  induction cs generalizing w with
  | nil => simp [BufW.writeChunks]
  | cons c cs ih => simp [BufW.writeChunks, BufW.write_eq, ih]

theorem SizeCalc.writeChunks_written (c : SizeCalc) (hc : c.written < W) (cs : List (List UInt8)) :
    (c.writeChunks cs).written = (c.written + cs.flatten.length) % W := by
  induction cs generalizing c with
  | nil =>
    simp only [SizeCalc.writeChunks, List.foldl_nil, List.flatten_nil, List.length_nil, Nat.add_zero]
    exact (Nat.mod_eq_of_lt hc).symm
  | cons b cs ih =>
    simp only [SizeCalc.writeChunks, List.foldl_cons] at ih ⊢
    rw [ih _ (by simp only [SizeCalc.write, add64]; exact Nat.mod_lt _ (by decide))]
    simp only [SizeCalc.write, add64, List.flatten_cons, List.length_append]
    unfold W; omega

/-! ### FixedBufferWriter -/

def FixedW.Inv (w : FixedW) : Prop := w.mem.length < W ∧ w.cursor ≤ w.mem.length

theorem srcBytes_length (n : Nat) (f : Nat → UInt8) : (srcBytes n f).length = n := by simp [srcBytes]

theorem srcBytes_listSrc (b : List UInt8) : srcBytes b.length (listSrc b) = b := by
  apply List.ext_getElem
  · simp [srcBytes]
  · intro i h1 h2
    simp [srcBytes, listSrc] at *
    simp [h2]

theorem FixedW.rejects_iff (w : FixedW) (h : w.Inv) (size : Nat) :
    w.rejects size = true ↔ ¬ (w.cursor + size ≤ w.mem.length) := by
  obtain ⟨h1, h2⟩ := h
  simp only [FixedW.rejects, FixedW.capacity, Bool.or_eq_true, decide_eq_true_eq, sub64_of_le h2 h1]
  omega

/-- the state after an accepted write of `bs` at the cursor -/
def FixedW.put (w : FixedW) (bs : List UInt8) : FixedW :=
  ⟨w.mem.take w.cursor ++ bs ++ w.mem.drop (w.cursor + bs.length), w.cursor + bs.length⟩

theorem FixedW.put_nil (w : FixedW) : w.put [] = w := by
  simp [FixedW.put]

theorem FixedW.write_spec (w : FixedW) (h : w.Inv) (size : Nat) (src : Nat → UInt8) :
    w.write size src =
      if w.cursor + size ≤ w.mem.length then .ok (w.put (srcBytes size src)) else .throw := by
  have hr := FixedW.rejects_iff w h size
  obtain ⟨h1, h2⟩ := h
  unfold FixedW.write
  by_cases hfit : w.cursor + size ≤ w.mem.length
  · have : w.rejects size = false := by
      cases hx : w.rejects size
      · rfl
      · exact absurd hfit (hr.mp hx)
    have ha : add64 w.cursor size = w.cursor + size := add64_of_lt (by unfold W at *; omega)
    simp only [this, hfit, if_true, Bool.false_eq_true, if_false, ha]
    by_cases hz : size = 0
    · subst hz; simp [srcBytes, FixedW.put]
    · simp [hz, FixedW.put, srcBytes_length]
  · have : w.rejects size = true := hr.mpr hfit
    simp [this, hfit]

theorem FixedW.reserveFill_spec (w : FixedW) (h : w.Inv) (size : Nat) (src : Nat → UInt8) :
    w.reserveFill size src =
      if w.cursor + size ≤ w.mem.length then .ok (w.put (srcBytes size src)) else .throw := by
  have hr := FixedW.rejects_iff w h size
  obtain ⟨h1, h2⟩ := h
  unfold FixedW.reserveFill FixedW.reserve
  by_cases hfit : w.cursor + size ≤ w.mem.length
  · have : w.rejects size = false := by
      cases hx : w.rejects size
      · rfl
      · exact absurd hfit (hr.mp hx)
    have ha : add64 w.cursor size = w.cursor + size := add64_of_lt (by unfold W at *; omega)
    simp only [this, hfit, if_true, Bool.false_eq_true, if_false, ha, Res.bind_ok, FixedW.fill]
    by_cases hz : size = 0
    · subst hz; simp [srcBytes, FixedW.put]
    · simp [hz, FixedW.put, srcBytes_length]
  · have : w.rejects size = true := hr.mpr hfit
    simp [this, hfit]

theorem FixedW.put_inv (w : FixedW) (h : w.Inv) (bs : List UInt8) (hfit : w.cursor + bs.length ≤ w.mem.length) :
    (w.put bs).Inv ∧ (w.put bs).mem.length = w.mem.length := by
  obtain ⟨h1, h2⟩ := h
  have : (w.put bs).mem.length = w.mem.length := by
    simp [FixedW.put]; omega
  exact ⟨⟨by rw [this]; exact h1, by rw [this]; simpa [FixedW.put] using hfit⟩, this⟩

theorem FixedW.put_put (w : FixedW) (a b : List UInt8) (hfit : w.cursor + a.length ≤ w.mem.length) :
    (w.put a).put b = w.put (a ++ b) := by
  have hc : w.cursor ≤ w.mem.length := by omega
  have hl : (w.mem.take w.cursor).length = w.cursor := by simp [hc]
  simp only [FixedW.put, List.length_append, FixedW.mk.injEq]
  refine ⟨?_, by omega⟩
  have e1 : (List.take w.cursor w.mem ++ a ++ List.drop (w.cursor + a.length) w.mem).take (w.cursor + a.length)
      = List.take w.cursor w.mem ++ a := by
    rw [List.take_append_of_le_length (by simp [hl])]
    exact List.take_of_length_le (by simp [hl])
  have e2 : (List.take w.cursor w.mem ++ a ++ List.drop (w.cursor + a.length) w.mem).drop (w.cursor + a.length + b.length)
      = List.drop (w.cursor + (a.length + b.length)) w.mem := by
    rw [List.drop_append]
    have : (List.take w.cursor w.mem ++ a).length = w.cursor + a.length := by simp [hl]
    rw [List.drop_of_length_le (by omega), this, List.drop_drop]
    simp only [List.nil_append]
    congr 1; omega
  rw [e1, e2]
  simp [List.append_assoc]

theorem FixedW.writeChunks_spec (w : FixedW) (h : w.Inv) (cs : List (List UInt8)) :
    w.writeChunks cs =
      if w.cursor + cs.flatten.length ≤ w.mem.length then .ok (w.put cs.flatten) else .throw := by
  induction cs generalizing w with
  | nil => simp [FixedW.writeChunks, FixedW.put_nil, h.2]
  | cons b cs ih =>
    simp only [FixedW.writeChunks, FixedW.write_spec w h, srcBytes_listSrc, List.flatten_cons,
      List.length_append]
    by_cases hb : w.cursor + b.length ≤ w.mem.length
    · obtain ⟨hi, hlen⟩ := FixedW.put_inv w h b hb
      simp only [hb, if_true, Res.bind_ok, ih _ hi, hlen, FixedW.put_put w b _ hb]
      have : (w.put b).cursor = w.cursor + b.length := rfl
      rw [this]
      simp only [Nat.add_assoc]
    · have : ¬ (w.cursor + (b.length + cs.flatten.length) ≤ w.mem.length) := by omega
      simp only [hb, this, if_false, Res.bind_throw]

end RkVerif.C15
