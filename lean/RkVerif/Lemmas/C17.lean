/- Helper lemmas for C17: Nat index arithmetic, transfer UInt64 → Nat, loops as ranges.
   Property theorems live in Props/C17.lean. -/
import RkVerif.Model.C17
set_option linter.unusedVariables false
namespace RkVerif.C17

/-! ## Nat index arithmetic -/

/-- the mathematical (unbounded) flattened index of `(x,y,z)` in an extent with x-size `dx`, y-size `dy` -/
def flatN (dx dy x y z : Nat) : Nat := x + dx * (y + dy * z)

theorem flat2_lt {x dx y n : Nat} (hx : x < dx) (hy : y < n) : x + dx * y < dx * n := by
  have h : dx * (y + 1) ≤ dx * n := Nat.mul_le_mul_left dx hy
  rw [Nat.mul_succ] at h; omega

theorem flatN_lt {dx dy dz x y z : Nat} (hx : x < dx) (hy : y < dy) (hz : z < dz) :
    flatN dx dy x y z < dx * dy * dz := by
  unfold flatN
  have h1 : y + dy * z < dy * dz := flat2_lt hy hz
  have h2 := flat2_lt hx h1
  rwa [← Nat.mul_assoc] at h2

theorem flat2_mod {x dx y : Nat} (hx : x < dx) : (x + dx * y) % dx = x := by
  rw [Nat.add_mul_mod_self_left, Nat.mod_eq_of_lt hx]

theorem flat2_div {x dx y : Nat} (hx : x < dx) : (x + dx * y) / dx = y := by
  rw [Nat.add_mul_div_left _ _ (by omega), Nat.div_eq_of_lt hx]; omega

theorem flatN_x {dx dy x y z : Nat} (hx : x < dx) : flatN dx dy x y z % dx = x := flat2_mod hx
theorem flatN_y {dx dy x y z : Nat} (hx : x < dx) (hy : y < dy) : flatN dx dy x y z / dx % dy = y := by
  unfold flatN; rw [flat2_div hx, flat2_mod hy]
theorem flatN_z {dx dy x y z : Nat} (hx : x < dx) (hy : y < dy) : flatN dx dy x y z / dx / dy = z := by
  unfold flatN; rw [flat2_div hx, flat2_div hy]

/-- the three coordinates of index `i` recombine to `i` -/
theorem flatN_coords (dx dy i : Nat) : flatN dx dy (i % dx) (i / dx % dy) (i / dx / dy) = i := by
  unfold flatN; rw [Nat.mod_add_div, Nat.mod_add_div]

theorem coords_lt {dx dy dz i : Nat} (hi : i < dx * dy * dz) :
    i % dx < dx ∧ i / dx % dy < dy ∧ i / dx / dy < dz := by
  have hdx : 0 < dx := by
    rcases Nat.eq_zero_or_pos dx with h | h
    · subst h; simp at hi
    · exact h
  have hdy : 0 < dy := by
    rcases Nat.eq_zero_or_pos dy with h | h
    · subst h; simp at hi
    · exact h
  refine ⟨Nat.mod_lt _ hdx, Nat.mod_lt _ hdy, ?_⟩
  rw [Nat.div_div_eq_div_mul]
  exact Nat.div_lt_of_lt_mul hi

theorem flatN_inj {dx dy x y z x' y' z' : Nat} (hx : x < dx) (hy : y < dy) (hx' : x' < dx) (hy' : y' < dy)
    (h : flatN dx dy x y z = flatN dx dy x' y' z') : x = x' ∧ y = y' ∧ z = z' := by
  refine ⟨?_, ?_, ?_⟩
  · rw [← flatN_x (dy := dy) (y := y) (z := z) hx, h, flatN_x hx']
  · rw [← flatN_y (z := z) hx hy, h, flatN_y hx' hy']
  · rw [← flatN_z (z := z) hx hy, h, flatN_z hx' hy']

/-- the way `index_sequence_3D::reshape` computes the coordinates agrees with div/mod by axis -/
theorem reshape_via_rem (dx dy i : Nat) :
    let z := i / (dx * dy)
    let r := i - z * dx * dy
    r % dx = i % dx ∧ r / dx = i / dx % dy ∧ z = i / dx / dy := by
  intro z r
  have hr : r = i % (dx * dy) := by
    show i - i / (dx * dy) * dx * dy = _
    rw [Nat.mul_assoc, Nat.mod_eq_sub_div_mul]
  refine ⟨?_, ?_, ?_⟩
  · rw [hr, Nat.mod_mul_right_mod]
  · rw [hr, Nat.mod_mul_right_div_self]
  · show i / (dx * dy) = _; rw [Nat.div_div_eq_div_mul]

/-! ## UInt64 → Nat transfer -/

theorem u_add {a b : U64} (h : a.toNat + b.toNat < 2 ^ 64) : (a + b).toNat = a.toNat + b.toNat := by
  rw [UInt64.toNat_add, Nat.mod_eq_of_lt h]

theorem u_mul {a b : U64} (h : a.toNat * b.toNat < 2 ^ 64) : (a * b).toNat = a.toNat * b.toNat := by
  rw [UInt64.toNat_mul, Nat.mod_eq_of_lt h]

theorem u_ext {a b : U64} (h : a.toNat = b.toNat) : a = b := UInt64.toNat_inj.mp h

theorem toU_toNat {i : Int} (h0 : 0 ≤ i) (h1 : i < 2 ^ 64) : (toU i).toNat = i.toNat := by
  unfold toU
  rw [UInt64.toNat_ofNat']
  have : (i % 18446744073709551616).toNat = i.toNat := by omega
  rw [this]; omega

theorem toI32_small {u : U64} (h : u.toNat < 2 ^ 31) : toI32 u = (u.toNat : Int) := by
  unfold toI32
  have : u.toNat % 4294967296 = u.toNat := by omega
  simp only [this]
  split
  · rfl
  · omega


/-- `x + dx * (y + dy * z)` evaluated in 64-bit arithmetic equals the mathematical value as soon as the
    final value fits (and `dx > 0`): then every intermediate is bounded by the final value. -/
theorem flat_machine {x dx y dy z : U64} (hdx : 0 < dx.toNat)
    (hb : flatN dx.toNat dy.toNat x.toNat y.toNat z.toNat < 2 ^ 64) :
    (x + dx * (y + dy * z)).toNat = flatN dx.toNat dy.toNat x.toNat y.toNat z.toNat := by
  unfold flatN at *
  have h0 : y.toNat + dy.toNat * z.toNat ≤ dx.toNat * (y.toNat + dy.toNat * z.toNat) :=
    Nat.le_mul_of_pos_left _ hdx
  have h1 : (dy * z).toNat = dy.toNat * z.toNat := u_mul (by omega)
  have h2 : (y + dy * z).toNat = y.toNat + dy.toNat * z.toNat := by rw [u_add (by omega), h1]
  have h3 : (dx * (y + dy * z)).toNat = dx.toNat * (y.toNat + dy.toNat * z.toNat) := by
    rw [u_mul (by rw [h2]; omega), h2]
  rw [u_add (by rw [h3]; omega), h3]

theorem flat2_machine {x dx y : U64} (hb : x.toNat + dx.toNat * y.toNat < 2 ^ 64) :
    (x + dx * y).toNat = x.toNat + dx.toNat * y.toNat := by
  have h1 : (dx * y).toNat = dx.toNat * y.toNat := u_mul (by omega)
  rw [u_add (by omega), h1]

/-! ### extents / membership as naturals -/

def tot2N (d : V2 U64) : Nat := d.x.toNat * d.y.toNat
def tot3N (d : V3 U64) : Nat := d.x.toNat * d.y.toNat * d.z.toNat
/-- coordinate `c` lies inside the extent `d` -/
def In2 (d c : V2 U64) : Prop := c.x < d.x ∧ c.y < d.y
def In3 (d c : V3 U64) : Prop := c.x < d.x ∧ c.y < d.y ∧ c.z < d.z

instance (d c : V2 U64) : Decidable (In2 d c) := by unfold In2; infer_instance
instance (d c : V3 U64) : Decidable (In3 d c) := by unfold In3; infer_instance

theorem total2_toNat {d : V2 U64} (h : tot2N d < 2 ^ 64) : (total2 d).toNat = tot2N d := u_mul h

theorem total3_toNat {d : V3 U64} (h : tot3N d < 2 ^ 64) (hz : 0 < d.z.toNat) : (total3 d).toNat = tot3N d := by
  unfold total3 tot3N at *
  have h0 : d.x.toNat * d.y.toNat ≤ d.x.toNat * d.y.toNat * d.z.toNat := Nat.le_mul_of_pos_right _ hz
  have h1 : (d.x * d.y).toNat = d.x.toNat * d.y.toNat := u_mul (by omega)
  rw [u_mul (by rw [h1]; exact h), h1]

theorem flatten2_toNat {d c : V2 U64} (hc : In2 d c) (ht : tot2N d < 2 ^ 64) :
    (flatten2 d c).toNat = c.x.toNat + d.x.toNat * c.y.toNat ∧ (flatten2 d c).toNat < tot2N d := by
  obtain ⟨hx, hy⟩ := hc
  rw [UInt64.lt_iff_toNat_lt] at hx hy
  have hlt := flat2_lt hx hy
  unfold tot2N at *
  have := flat2_machine (x := c.x) (dx := d.x) (y := c.y) (by omega)
  unfold flatten2
  omega

theorem flatten3_toNat {d c : V3 U64} (hc : In3 d c) (ht : tot3N d < 2 ^ 64) :
    (flatten3 d c).toNat = flatN d.x.toNat d.y.toNat c.x.toNat c.y.toNat c.z.toNat ∧
      (flatten3 d c).toNat < tot3N d := by
  obtain ⟨hx, hy, hz⟩ := hc
  rw [UInt64.lt_iff_toNat_lt] at hx hy hz
  have hlt := flatN_lt hx hy hz
  unfold tot3N at *
  have := flat_machine (x := c.x) (dx := d.x) (y := c.y) (dy := d.y) (z := c.z) (by omega) (by omega)
  unfold flatten3
  omega

theorem reshape2_toNat (d : V2 U64) (i : U64) :
    (reshape2 d i).x.toNat = i.toNat % d.x.toNat ∧ (reshape2 d i).y.toNat = i.toNat / d.x.toNat := by
  simp [reshape2, UInt64.toNat_mod, UInt64.toNat_div]

theorem reshape3_toNat {d : V3 U64} {i : U64} (hi : i.toNat < tot3N d) (ht : tot3N d < 2 ^ 64) :
    (reshape3 d i).x.toNat = i.toNat % d.x.toNat ∧
    (reshape3 d i).y.toNat = i.toNat / d.x.toNat % d.y.toNat ∧
    (reshape3 d i).z.toNat = i.toNat / d.x.toNat / d.y.toNat := by
  unfold tot3N at *
  have hz : 0 < d.z.toNat := by
    rcases Nat.eq_zero_or_pos d.z.toNat with h | h
    · rw [h] at hi; simp at hi
    · exact h
  have hy : 0 < d.y.toNat := by
    rcases Nat.eq_zero_or_pos d.y.toNat with h | h
    · rw [h] at hi; simp at hi
    · exact h
  have hP : d.x.toNat * d.y.toNat ≤ d.x.toNat * d.y.toNat * d.z.toNat := Nat.le_mul_of_pos_right _ hz
  have h1 : (d.x * d.y).toNat = d.x.toNat * d.y.toNat := u_mul (by omega)
  have hzv : (i / (d.x * d.y)).toNat = i.toNat / (d.x.toNat * d.y.toNat) := by rw [UInt64.toNat_div, h1]
  have hle : i.toNat / (d.x.toNat * d.y.toNat) * d.x.toNat * d.y.toNat ≤ i.toNat := by
    rw [Nat.mul_assoc]; exact Nat.div_mul_le_self _ _
  have hle0 : i.toNat / (d.x.toNat * d.y.toNat) * d.x.toNat ≤
      i.toNat / (d.x.toNat * d.y.toNat) * d.x.toNat * d.y.toNat := Nat.le_mul_of_pos_right _ hy
  have h2 : (i / (d.x * d.y) * d.x).toNat = i.toNat / (d.x.toNat * d.y.toNat) * d.x.toNat := by
    rw [u_mul (by rw [hzv]; omega), hzv]
  have h3 : (i / (d.x * d.y) * d.x * d.y).toNat = i.toNat / (d.x.toNat * d.y.toNat) * d.x.toNat * d.y.toNat := by
    rw [u_mul (by rw [h2]; omega), h2]
  have h4 : (i - i / (d.x * d.y) * d.x * d.y).toNat =
      i.toNat - i.toNat / (d.x.toNat * d.y.toNat) * d.x.toNat * d.y.toNat := by
    rw [UInt64.toNat_sub_of_le _ _ (by rw [UInt64.le_iff_toNat_le, h3]; exact hle), h3]
  obtain ⟨r1, r2, r3⟩ := reshape_via_rem d.x.toNat d.y.toNat i.toNat
  refine ⟨?_, ?_, ?_⟩
  · show ((i - i / (d.x * d.y) * d.x * d.y) % d.x).toNat = _
    rw [UInt64.toNat_mod, h4]; exact r1
  · show ((i - i / (d.x * d.y) * d.x * d.y) / d.x).toNat = _
    rw [UInt64.toNat_div, h4]; exact r2
  · show (i / (d.x * d.y)).toNat = _
    rw [hzv]; exact r3

/-! ### array3D (int components) -/

/-- every extent component is a non-negative `int` -/
def Dims31 (d : V3i) : Prop := (0 ≤ d.x ∧ d.x < 2 ^ 31) ∧ (0 ≤ d.y ∧ d.y < 2 ^ 31) ∧ (0 ≤ d.z ∧ d.z < 2 ^ 31)
/-- coordinate `c` lies inside the extent `d` -/
def In3i (d c : V3i) : Prop := (0 ≤ c.x ∧ c.x < d.x) ∧ (0 ≤ c.y ∧ c.y < d.y) ∧ (0 ≤ c.z ∧ c.z < d.z)
def tot3i (d : V3i) : Nat := d.x.toNat * d.y.toNat * d.z.toNat
/-- mathematical index of `c` in extent `d` -/
def idxN (d c : V3i) : Nat := flatN d.x.toNat d.y.toNat c.x.toNat c.y.toNat c.z.toNat

instance (d : V3i) : Decidable (Dims31 d) := by unfold Dims31; infer_instance
instance (d c : V3i) : Decidable (In3i d c) := by unfold In3i; infer_instance

theorem idxN_lt {d c : V3i} (hc : In3i d c) : idxN d c < tot3i d := by
  obtain ⟨⟨_, _⟩, ⟨_, _⟩, ⟨_, _⟩⟩ := hc
  exact flatN_lt (by omega) (by omega) (by omega)

theorem idxN_inj {d c c' : V3i} (hc : In3i d c) (hc' : In3i d c') (h : idxN d c = idxN d c') : c = c' := by
  obtain ⟨⟨_, _⟩, ⟨_, _⟩, ⟨_, _⟩⟩ := hc
  obtain ⟨⟨_, _⟩, ⟨_, _⟩, ⟨_, _⟩⟩ := hc'
  obtain ⟨h1, h2, h3⟩ := flatN_inj (by omega) (by omega) (by omega) (by omega) h
  cases c; cases c'; simp at *; omega

theorem longProduct_toNat {d : V3i} (hd : Dims31 d) (ht : tot3i d < 2 ^ 64) :
    (longProduct d).toNat = tot3i d := by
  obtain ⟨⟨_, _⟩, ⟨_, _⟩, ⟨_, _⟩⟩ := hd
  unfold longProduct tot3i at *
  have hx := toU_toNat (i := d.x) (by omega) (by omega)
  have hy := toU_toNat (i := d.y) (by omega) (by omega)
  have hz := toU_toNat (i := d.z) (by omega) (by omega)
  have hxy : d.x.toNat * d.y.toNat < 2 ^ 64 := by
    have : d.x.toNat * d.y.toNat ≤ 2 ^ 31 * 2 ^ 31 := Nat.mul_le_mul (by omega) (by omega)
    omega
  have h1 : (toU d.x * toU d.y).toNat = d.x.toNat * d.y.toNat := by rw [u_mul (by rw [hx, hy]; exact hxy), hx, hy]
  rw [u_mul (by rw [h1, hz]; exact ht), h1, hz]

theorem longIndex_toNat {d c : V3i} (hd : Dims31 d) (hc : In3i d c) (ht : tot3i d < 2 ^ 64) :
    (longIndex c d).toNat = idxN d c := by
  have hlt := idxN_lt hc
  obtain ⟨⟨_, _⟩, ⟨_, _⟩, ⟨_, _⟩⟩ := hd
  obtain ⟨⟨_, _⟩, ⟨_, _⟩, ⟨_, _⟩⟩ := hc
  unfold longIndex idxN at *
  have hx := toU_toNat (i := d.x) (by omega) (by omega)
  have hy := toU_toNat (i := d.y) (by omega) (by omega)
  have cx := toU_toNat (i := c.x) (by omega) (by omega)
  have cy := toU_toNat (i := c.y) (by omega) (by omega)
  have cz := toU_toNat (i := c.z) (by omega) (by omega)
  have := flat_machine (x := toU c.x) (dx := toU d.x) (y := toU c.y) (dy := toU d.y) (z := toU c.z)
    (by rw [hx]; omega) (by rw [hx, hy, cx, cy, cz]; omega)
  rw [this, hx, hy, cx, cy, cz]

theorem coordsOf_eq {d : V3i} {i : U64} (hd : Dims31 d) (hi : i.toNat < tot3i d) :
    coordsOf i d = ⟨((i.toNat % d.x.toNat : Nat) : Int), ((i.toNat / d.x.toNat % d.y.toNat : Nat) : Int),
      ((i.toNat / d.x.toNat / d.y.toNat : Nat) : Int)⟩ := by
  obtain ⟨h1, h2, h3⟩ := coords_lt hi
  obtain ⟨⟨_, _⟩, ⟨_, _⟩, ⟨_, _⟩⟩ := hd
  have hx := toU_toNat (i := d.x) (by omega) (by omega)
  have hy := toU_toNat (i := d.y) (by omega) (by omega)
  unfold coordsOf
  congr 1
  · rw [toI32_small (by rw [UInt64.toNat_mod, hx]; omega), UInt64.toNat_mod, hx]
  · rw [toI32_small (by rw [UInt64.toNat_mod, UInt64.toNat_div, hx, hy]; omega), UInt64.toNat_mod,
      UInt64.toNat_div, hx, hy]
  · rw [toI32_small (by rw [UInt64.toNat_div, UInt64.toNat_div, hx, hy]; omega), UInt64.toNat_div,
      UInt64.toNat_div, hx, hy]


/-! ## loops as ranges -/

theorem iterLoop_unfold {C : Type} [DecidableEq C] (rs : C → U64 → C) (d : C) (e cur : U64) :
    iterLoop rs d e cur = if cur ≠ e then rs d cur :: iterLoop rs d e (cur + 1) else [] := by
  rw [iterLoop]
  by_cases h : cur = e
  · simp [Iter.ne, Iter.eq, h]
  · simp [Iter.ne, Iter.eq, h, Iter.preInc]

theorem iterLoop_eq {C : Type} [DecidableEq C] (rs : C → U64 → C) (d : C) (e : U64) :
    ∀ (n : Nat) (cur : U64), cur.toNat + n = e.toNat →
      iterLoop rs d e cur = (List.range' cur.toNat n).map (fun i => rs d (UInt64.ofNat i)) := by
  intro n
  induction n with
  | zero =>
    intro cur h
    have : cur = e := u_ext (by omega)
    rw [iterLoop_unfold]; simp [this]
  | succ n ih =>
    intro cur h
    have hne : cur ≠ e := by intro hc; rw [hc] at h; omega
    have hlt := e.toNat_lt
    have h1 : (cur + 1).toNat = cur.toNat + 1 := by rw [u_add (by simp; omega)]; simp
    rw [iterLoop_unfold, if_pos hne, ih (cur + 1) (by omega), List.range'_succ, List.map_cons, h1]
    simp

/-- the integers `lo, lo+1, …, hi-1` -/
def rangeI (lo hi : Int) : List Int := (List.range (hi - lo).toNat).map (fun (k : Nat) => lo + (k : Int))

theorem mem_rangeI {lo hi i : Int} : i ∈ rangeI lo hi ↔ lo ≤ i ∧ i < hi := by
  unfold rangeI
  simp only [List.mem_map, List.mem_range]
  constructor
  · rintro ⟨k, hk, rfl⟩; omega
  · intro h; exact ⟨(i - lo).toNat, by omega, by omega⟩

theorem rangeI_empty {lo hi : Int} (h : hi ≤ lo) : rangeI lo hi = [] := by
  unfold rangeI
  have : (hi - lo).toNat = 0 := by omega
  rw [this]; rfl

theorem rangeI_cons {lo hi : Int} (h : lo < hi) : rangeI lo hi = lo :: rangeI (lo + 1) hi := by
  unfold rangeI
  have : (hi - lo).toNat = (hi - (lo + 1)).toNat + 1 := by omega
  rw [this, List.range_succ_eq_map]
  simp only [List.map_cons, List.map_map]
  congr 1
  · simp
  · apply List.map_congr_left; intro k _; simp; omega

theorem loopI_unfold {α : Type} (lo hi : Int) (body : Int → List α) :
    loopI lo hi body = if lo < hi then body lo ++ loopI (lo + 1) hi body else [] := by
  rw [loopI]

theorem loopI_eq {α : Type} (body : Int → List α) (hi : Int) :
    ∀ (n : Nat) (lo : Int), (hi - lo).toNat = n → loopI lo hi body = (rangeI lo hi).flatMap body := by
  intro n
  induction n with
  | zero =>
    intro lo h
    rw [loopI_unfold, if_neg (by omega), rangeI_empty (by omega)]; rfl
  | succ n ih =>
    intro lo h
    rw [loopI_unfold, if_pos (by omega), ih (lo + 1) (by omega), rangeI_cons (lo := lo) (hi := hi) (by omega)]
    simp

theorem loopI_flatMap {α : Type} (lo hi : Int) (body : Int → List α) :
    loopI lo hi body = (rangeI lo hi).flatMap body := loopI_eq body hi _ lo rfl

theorem rangeI_pairwise (lo hi : Int) : (rangeI lo hi).Pairwise (· < ·) := by
  unfold rangeI
  rw [List.pairwise_map]
  have : (List.range (hi - lo).toNat).Pairwise (· < ·) := by
    rw [List.range_eq_range']; exact List.pairwise_lt_range'
  exact this.imp (by intro a b h; omega)

/-- for_each as three nested ranges -/
theorem forEach_eq (l u : V3i) :
    forEach l u = (rangeI l.z u.z).flatMap fun z => (rangeI l.y u.y).flatMap fun y =>
      (rangeI l.x u.x).map fun x => (⟨x, y, z⟩ : V3i) := by
  unfold forEach
  rw [loopI_flatMap]
  congr 1; funext z
  rw [loopI_flatMap]
  congr 1; funext y
  rw [loopI_flatMap]
  generalize rangeI l.x u.x = xs
  induction xs with
  | nil => rfl
  | cons a t ih => simp [List.flatMap_cons, ih]

/-- the box `[l, u)` -/
def InBox (l u c : V3i) : Prop := (l.x ≤ c.x ∧ c.x < u.x) ∧ (l.y ≤ c.y ∧ c.y < u.y) ∧ (l.z ≤ c.z ∧ c.z < u.z)

/-- flattened (x fastest, then y, then z) order of coordinates -/
def lexLt (a b : V3i) : Prop := a.z < b.z ∨ (a.z = b.z ∧ (a.y < b.y ∨ (a.y = b.y ∧ a.x < b.x)))

theorem mem_forEach {l u c : V3i} : c ∈ forEach l u ↔ InBox l u c := by
  rw [forEach_eq]
  simp only [List.mem_flatMap, List.mem_map, mem_rangeI, InBox]
  constructor
  · rintro ⟨z, hz, y, hy, x, hx, rfl⟩; exact ⟨hx, hy, hz⟩
  · rintro ⟨hx, hy, hz⟩; exact ⟨c.z, hz, c.y, hy, c.x, hx, rfl⟩

theorem forEach_pairwise (l u : V3i) : (forEach l u).Pairwise lexLt := by
  rw [forEach_eq, List.pairwise_flatMap]
  refine ⟨?_, ?_⟩
  · intro z _
    rw [List.pairwise_flatMap]
    refine ⟨?_, ?_⟩
    · intro y _
      rw [List.pairwise_map]
      exact (rangeI_pairwise _ _).imp (by intro a b h; right; exact ⟨rfl, Or.inr ⟨rfl, h⟩⟩)
    · refine (rangeI_pairwise _ _).imp ?_
      intro a b h p hp q hq
      simp only [List.mem_map] at hp hq
      obtain ⟨_, _, rfl⟩ := hp; obtain ⟨_, _, rfl⟩ := hq
      right; exact ⟨rfl, Or.inl h⟩
  · refine (rangeI_pairwise _ _).imp ?_
    intro a b h p hp q hq
    simp only [List.mem_flatMap, List.mem_map] at hp hq
    obtain ⟨_, _, _, _, rfl⟩ := hp; obtain ⟨_, _, _, _, rfl⟩ := hq
    left; exact h


/-! ## full-extent for_each enumerates the indices 0,1,2,… -/

theorem flatMap_range_mul {β : Type} (g : Nat → β) (m : Nat) : ∀ n : Nat,
    (List.range n).flatMap (fun b => (List.range m).map (fun a => g (a + m * b))) = (List.range (m * n)).map g := by
  intro n
  induction n with
  | zero => simp
  | succ n ih =>
    rw [List.range_succ, List.flatMap_append, ih, Nat.mul_succ, List.range_add, List.map_append, List.map_map]
    simp only [List.flatMap_cons, List.flatMap_nil, List.append_nil]
    congr 1
    apply List.map_congr_left; intro a _; simp [Nat.add_comm]

theorem rangeI_zero (n : Int) : rangeI 0 n = (List.range n.toNat).map (fun (k : Nat) => (k : Int)) := by
  unfold rangeI; simp

theorem forEachSize_idxN (s : V3i) :
    (forEachSize s).map (idxN s) = List.range (tot3i s) := by
  unfold forEachSize tot3i
  rw [forEach_eq]
  simp only [rangeI_zero, List.map_flatMap, List.flatMap_map, List.map_map]
  have hin : ∀ z : Nat, (List.range s.y.toNat).flatMap (fun y : Nat => (List.range s.x.toNat).map
        ((idxN s) ∘ (fun x : Nat => (⟨(x : Int), (y : Int), (z : Int)⟩ : V3i)))) =
      (List.range (s.x.toNat * s.y.toNat)).map (fun k => k + (s.x.toNat * s.y.toNat) * z) := by
    intro z
    rw [← flatMap_range_mul (fun k => k + (s.x.toNat * s.y.toNat) * z) s.x.toNat s.y.toNat]
    congr 1; funext y
    apply List.map_congr_left; intro x _
    simp [idxN, flatN, Nat.mul_add, Nat.mul_assoc, Nat.add_assoc]
  have : ∀ z : Nat, (List.range s.y.toNat).flatMap ((fun y : Int => (List.range s.x.toNat).map
        ((idxN s) ∘ ((fun x : Int => (⟨x, y, (z : Int)⟩ : V3i)) ∘ (fun (k : Nat) => (k : Int))))) ∘ (fun (k : Nat) => (k : Int))) =
      (List.range (s.x.toNat * s.y.toNat)).map (fun k => k + (s.x.toNat * s.y.toNat) * z) := hin
  have h2 := flatMap_range_mul (fun k => k) (s.x.toNat * s.y.toNat) s.z.toNat
  simp only [List.map_id'] at h2
  rw [← h2]
  congr 1; funext z
  exact this z


/-! ## ActualArray3D -/

/-- well-formed array: int extents, cell count fits 64 bits, `value[]` has exactly that many cells -/
def Actual.WF (a : Actual) : Prop := Dims31 a.dims ∧ tot3i a.dims < 2 ^ 64 ∧ a.vals.length = tot3i a.dims

/-- every axis has at least one cell -/
def NonEmpty (d : V3i) : Prop := 0 < d.x ∧ 0 < d.y ∧ 0 < d.z

theorem clampWhere_in {a : Actual} (h : NonEmpty a.dims) (w : V3i) : In3i a.dims (a.clampWhere w) := by
  obtain ⟨_, _, _⟩ := h
  simp only [Actual.clampWhere, V3i.max, V3i.min, V3i.sub, V3i.splat, In3i]
  omega

theorem clampWhere_id {a : Actual} {c : V3i} (h : In3i a.dims c) : a.clampWhere c = c := by
  obtain ⟨⟨_, _⟩, ⟨_, _⟩, ⟨_, _⟩⟩ := h
  cases c
  simp only [Actual.clampWhere, V3i.max, V3i.min, V3i.sub, V3i.splat, V3.mk.injEq] at *
  omega

theorem Actual.get_eq {a : Actual} (hw : a.WF) {c : V3i} (hc : In3i a.dims c) :
    a.get c = a.vals.getD (idxN a.dims c) 0 := by
  obtain ⟨hd, ht, _⟩ := hw
  unfold Actual.get Actual.getIndex
  rw [clampWhere_id hc]
  have := longIndex_toNat hd hc ht
  unfold longIndex at this
  simp only [this]

theorem Actual.get_clamp (a : Actual) (w : V3i) : a.get w = a.get (a.clampWhere w) := by
  unfold Actual.get Actual.getIndex
  have : a.clampWhere (a.clampWhere w) = a.clampWhere w := by
    simp only [Actual.clampWhere, V3i.max, V3i.min, V3i.sub, V3i.splat, V3.mk.injEq]
    omega
  rw [this]

theorem Actual.set_vals {a : Actual} (hw : a.WF) {c : V3i} (hc : In3i a.dims c) (v : Int) :
    (a.set c v).vals = a.vals.set (idxN a.dims c) v ∧ (a.set c v).dims = a.dims := by
  obtain ⟨hd, ht, _⟩ := hw
  unfold Actual.set Actual.size
  simp only [longIndex_toNat hd hc ht, and_self]

theorem Actual.set_WF {a : Actual} (hw : a.WF) {c : V3i} (hc : In3i a.dims c) (v : Int) : (a.set c v).WF := by
  obtain ⟨h1, h2⟩ := Actual.set_vals hw hc v
  obtain ⟨hd, ht, hl⟩ := hw
  unfold Actual.WF
  rw [h2, h1, List.length_set]
  exact ⟨hd, ht, hl⟩

theorem Actual.get_set {a : Actual} (hw : a.WF) {c c' : V3i} (hc : In3i a.dims c) (hc' : In3i a.dims c') (v : Int) :
    (a.set c v).get c' = if c' = c then v else a.get c' := by
  obtain ⟨h1, h2⟩ := Actual.set_vals hw hc v
  have hw' := Actual.set_WF hw hc v
  rw [Actual.get_eq hw' (by rw [h2]; exact hc'), h1, h2, Actual.get_eq hw hc']
  have hlt : idxN a.dims c < a.vals.length := by rw [hw.2.2]; exact idxN_lt hc
  simp only [List.getD_eq_getElem?_getD, List.getElem?_set]
  by_cases h : c' = c
  · subst h; simp [hlt]
  · have : idxN a.dims c ≠ idxN a.dims c' := fun he => h (idxN_inj hc hc' he).symm
    simp [h, this]

/-- writing the same value at every coordinate of a list -/
theorem foldl_set_get {t : Int} : ∀ (l : List V3i) (a : Actual), a.WF → (∀ c ∈ l, In3i a.dims c) →
    ((l.foldl (fun a idx => a.set idx t) a).WF ∧ (l.foldl (fun a idx => a.set idx t) a).dims = a.dims ∧
      ∀ c, In3i a.dims c → (l.foldl (fun a idx => a.set idx t) a).get c = if c ∈ l then t else a.get c) := by
  intro l
  induction l with
  | nil => intro a hw _; simp [hw]
  | cons x rest ih =>
    intro a hw hl
    have hx : In3i a.dims x := hl x (by simp)
    have hw' := Actual.set_WF hw hx t
    have hd' := (Actual.set_vals hw hx t).2
    obtain ⟨r1, r2, r3⟩ := ih (a.set x t) hw' (by intro c hc; rw [hd']; exact hl c (by simp [hc]))
    simp only [List.foldl_cons]
    refine ⟨r1, by rw [r2, hd'], ?_⟩
    intro c hc
    rw [r3 c (by rw [hd']; exact hc), Actual.get_set hw hx hc]
    by_cases h1 : c ∈ rest
    · simp [h1]
    · by_cases h2 : c = x
      · simp [h2]
      · simp [h1, h2]

theorem mem_forEachSize {s c : V3i} : c ∈ forEachSize s ↔ In3i s c := by
  unfold forEachSize; rw [mem_forEach]; rfl

theorem Actual.clear_spec {a : Actual} (hw : a.WF) (t : Int) :
    (a.clear t).WF ∧ (a.clear t).dims = a.dims ∧ ∀ c, In3i a.dims c → (a.clear t).get c = t := by
  unfold Actual.clear Actual.size
  obtain ⟨r1, r2, r3⟩ := foldl_set_get (t := t) (forEachSize a.dims) a hw (fun c hc => mem_forEachSize.mp hc)
  refine ⟨r1, r2, ?_⟩
  intro c hc
  rw [r3 c hc, if_pos (mem_forEachSize.mpr hc)]

/-! ## value range -/

theorem foldl_extend_inv : ∀ (vs seen : List Int) (r : Int × Int),
    ((∀ v ∈ seen, r.1 ≤ v ∧ v ≤ r.2) ∧ r.1 ∈ seen ∧ r.2 ∈ seen) →
    ((∀ v ∈ seen ++ vs, (vs.foldl extend r).1 ≤ v ∧ v ≤ (vs.foldl extend r).2) ∧
      (vs.foldl extend r).1 ∈ seen ++ vs ∧ (vs.foldl extend r).2 ∈ seen ++ vs) := by
  intro vs
  induction vs with
  | nil => intro seen r h; simpa using h
  | cons x rest ih =>
    intro seen r ⟨hb, hlo, hhi⟩
    have := ih (seen ++ [x]) (extend r x) (by
      refine ⟨?_, ?_, ?_⟩
      · intro v hv
        simp only [List.mem_append, List.mem_singleton] at hv
        simp only [extend]
        rcases hv with hv | hv
        · have := hb v hv; omega
        · subst hv; omega
      · simp only [extend, List.mem_append, List.mem_singleton]
        by_cases h : r.1 ≤ x
        · left; rw [Int.min_eq_left h]; exact hlo
        · right; omega
      · simp only [extend, List.mem_append, List.mem_singleton]
        by_cases h : x ≤ r.2
        · left; rw [Int.max_eq_left h]; exact hhi
        · right; omega)
    simpa [List.append_assoc] using this

theorem lexLt_idxN {d a b : V3i} (ha : In3i d a) (hb : In3i d b) (h : lexLt a b) : idxN d a < idxN d b := by
  obtain ⟨⟨_, _⟩, ⟨_, _⟩, ⟨_, _⟩⟩ := ha
  obtain ⟨⟨_, _⟩, ⟨_, _⟩, ⟨_, _⟩⟩ := hb
  have key : ∀ {x x' n y y' : Nat}, x < n → y < y' → x + n * y < x' + n * y' := by
    intro x x' n y y' hx hy
    have : n * (y + 1) ≤ n * y' := Nat.mul_le_mul_left n hy
    rw [Nat.mul_succ] at this; omega
  unfold idxN flatN
  rcases h with h | ⟨hz, h | ⟨hy, hx⟩⟩
  · exact key (by omega) (key (by omega) (by omega))
  · have : a.z.toNat = b.z.toNat := by omega
    rw [this]
    exact key (by omega) (by omega)
  · have h1 : a.z.toNat = b.z.toNat := by omega
    have h2 : a.y.toNat = b.y.toNat := by omega
    rw [h1, h2]; omega


end RkVerif.C17
