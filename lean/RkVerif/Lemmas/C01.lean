/-
Helper lemmas for C01 §2 (Sched): the inductive invariant of the enkiTS task-set path.
-/
import RkVerif.Model.C01
namespace RkVerif.C01

/-! ### pick / sumBy -/

theorem pick_sum {α : Type} (f : α → Nat) : ∀ (l : List α) (k : Nat) (a : α) (r : List α),
    pick l k = some (a, r) → sumBy f l = f a + sumBy f r
  | [], _, _, _, h => by simp [pick] at h
  | x :: l, 0, a, r, h => by
    simp [pick] at h; obtain ⟨rfl, rfl⟩ := h; simp [sumBy]
  | x :: l, k + 1, a, r, h => by
    simp only [pick] at h
    cases hp : pick l k with
    | none => simp [hp] at h
    | some br =>
      obtain ⟨b, r'⟩ := br
      simp [hp] at h; obtain ⟨rfl, rfl⟩ := h
      have := pick_sum f l k b r' hp
      simp [sumBy]; omega

theorem pick_mem {α : Type} : ∀ (l : List α) (k : Nat) (a : α) (r : List α),
    pick l k = some (a, r) → a ∈ l ∧ ∀ x ∈ r, x ∈ l
  | [], _, _, _, h => by simp [pick] at h
  | x :: l, 0, a, r, h => by
    simp [pick] at h; obtain ⟨rfl, rfl⟩ := h
    exact ⟨by simp, fun y hy => List.mem_cons_of_mem _ hy⟩
  | x :: l, k + 1, a, r, h => by
    simp only [pick] at h
    cases hp : pick l k with
    | none => simp [hp] at h
    | some br =>
      obtain ⟨b, r'⟩ := br
      simp [hp] at h; obtain ⟨rfl, rfl⟩ := h
      have ih := pick_mem l k b r' hp
      refine ⟨List.mem_cons_of_mem _ ih.1, ?_⟩
      intro y hy
      rcases List.mem_cons.mp hy with rfl | hy
      · simp
      · exact List.mem_cons_of_mem _ (ih.2 y hy)

theorem pick_some_of_lt {α : Type} : ∀ (l : List α) (k : Nat), k < l.length → ∃ a r, pick l k = some (a, r)
  | [], _, h => by simp at h
  | x :: l, 0, _ => ⟨x, l, rfl⟩
  | x :: l, k + 1, h => by
    obtain ⟨a, r, hp⟩ := pick_some_of_lt l k (by simpa using h)
    exact ⟨a, x :: r, by simp [pick, hp]⟩

theorem sumBy_zero {α : Type} (f : α → Nat) (l : List α) (h : ∀ x ∈ l, f x = 0) : sumBy f l = 0 := by
  induction l with
  | nil => rfl
  | cons a l ih =>
    simp only [sumBy]
    rw [h a (by simp), ih (fun x hx => h x (List.mem_cons_of_mem _ hx))]

theorem sumBy_eq_zero {α : Type} (f : α → Nat) (l : List α) (h : sumBy f l = 0) : ∀ x ∈ l, f x = 0 := by
  induction l with
  | nil => simp
  | cons a l ih =>
    simp only [sumBy] at h
    intro x hx
    rcases List.mem_cons.mp hx with rfl | hx
    · omega
    · exact ih (by omega) x hx

/-! ### the invariant -/

def Part.Wf (s : State) (p : Part) : Prop := p.tid < s.nsets ∧ p.s ≤ p.e ∧ p.e ≤ s.size p.tid

def Job.Wf (s : State) (j : Job) : Prop :=
  j.tid < s.nsets ∧ j.s ≤ j.e ∧ j.e ≤ s.size j.tid ∧
  (∀ p, j.pend = some p → p.tid = j.tid ∧ p.s ≤ p.e ∧ p.e = j.s) ∧
  (∀ c, j.cont = some c → c.tid = j.tid ∧ c.s ≤ c.e ∧ c.e ≤ s.size j.tid)

structure Inv (s : State) : Prop where
  cov : ∀ t i, cover s t i = if i < s.size t then 1 else 0
  cnt : ∀ t, s.count t = (pending s t : Int)
  fresh : ∀ t, s.nsets ≤ t → s.size t = 0 ∧ s.count t = 0
  wfJ : ∀ j ∈ s.jobs, j.Wf s
  wfQ : ∀ p ∈ s.queued, p.Wf s
  wfI : ∀ p ∈ s.inflight, p.Wf s

theorem inv_init : Inv init := by
  constructor <;> simp [init, cover, pending, sumBy]

set_option linter.unusedSimpArgs false

theorem inv_take (s s' : State) (k : Nat) (h : Inv s) (hs : step false s (.take k) = some s') : Inv s' := by
  simp only [step] at hs
  cases hp : pick s.jobs k with
  | none => simp [hp] at hs
  | some jr =>
    obtain ⟨j, rest⟩ := jr
    simp only [hp] at hs
    split at hs
    · rename_i hc
      simp only [splitTask, Option.some.injEq] at hs
      subst hs
      have hsum := fun f => pick_sum f s.jobs k j rest hp
      have hmem := pick_mem _ _ _ _ hp
      have hj := h.wfJ j hmem.1
      obtain ⟨hj1, hj2, hj3, hj4, hj5⟩ := hj
      have hpn : j.pend = none := by
        cases hjp : j.pend <;> simp_all
      constructor
      · intro t i
        have := h.cov t i
        simp only [cover, hsum] at this ⊢
        simp only [sumBy, Job.cnt, Part.cnt, optCnt, hpn] at this ⊢
        grind
      · intro t
        have := h.cnt t
        simp only [pending, hsum] at this ⊢
        simp only [sumBy, optTidIs, tidIs, hpn, upd] at this ⊢
        grind
      · intro t ht
        have := h.fresh t ht
        simp only [upd]
        grind
      · intro j' hj'
        simp only [List.mem_cons] at hj'
        rcases hj' with rfl | hj'
        · simp only [Job.Wf]
          grind
        · exact h.wfJ j' (hmem.2 j' hj')
      · exact h.wfQ
      · exact h.wfI
    · simp at hs

theorem inv_add (s s' : State) (sz mr np ni : Nat) (h : Inv s) (hs : step false s (.add sz mr np ni) = some s') : Inv s' := by
  simp only [step, Option.some.injEq] at hs
  subst hs
  have hf := h.fresh s.nsets (Nat.le_refl _)
  constructor
  · intro t i
    have := h.cov t i
    have h0 := h.cov s.nsets i
    simp only [cover] at this h0 ⊢
    simp only [sumBy, Job.cnt, Part.cnt, optCnt, upd] at this h0 ⊢
    grind
  · intro t
    have := h.cnt t
    simp only [pending] at this ⊢
    simp only [sumBy, optTidIs, upd] at this ⊢
    grind
  · intro t ht
    have := h.fresh t (by simp at ht; omega)
    simp only [upd]
    grind
  · intro j' hj'
    simp only [List.mem_cons] at hj'
    rcases hj' with rfl | hj'
    · simp [Job.Wf, upd]
    · have := h.wfJ j' hj'
      simp only [Job.Wf, upd] at this ⊢
      grind
  · intro p hp
    have := h.wfQ p hp
    simp only [Part.Wf, upd] at this ⊢
    grind
  · intro p hp
    have := h.wfI p hp
    simp only [Part.Wf, upd] at this ⊢
    grind

theorem inv_push (s s' : State) (k : Nat) (h : Inv s) (hs : step false s (.push k) = some s') : Inv s' := by
  simp only [step] at hs
  cases hp : pick s.jobs k with
  | none => simp [hp] at hs
  | some jr =>
    obtain ⟨j, rest⟩ := jr
    simp only [hp] at hs
    cases hpe : j.pend with
    | none => simp [hpe] at hs
    | some p =>
      simp only [hpe, Option.some.injEq] at hs
      subst hs
      have hsum := fun f => pick_sum f s.jobs k j rest hp
      have hmem := pick_mem _ _ _ _ hp
      obtain ⟨hj1, hj2, hj3, hj4, hj5⟩ := h.wfJ j hmem.1
      have hp4 := hj4 p hpe
      constructor
      · intro t i
        have := h.cov t i
        simp only [cover, hsum] at this ⊢
        simp only [sumBy, Job.cnt, Part.cnt, optCnt, hpe] at this ⊢
        grind
      · intro t
        have := h.cnt t
        simp only [pending, hsum] at this ⊢
        simp only [sumBy, optTidIs, tidIs, hpe] at this ⊢
        grind
      · exact h.fresh
      · intro j' hj'
        simp only [List.mem_cons] at hj'
        rcases hj' with rfl | hj'
        · simp only [Job.Wf]
          grind
        · exact h.wfJ j' (hmem.2 j' hj')
      · intro q hq
        simp only [List.mem_cons] at hq
        rcases hq with rfl | hq
        · simp only [Part.Wf]; grind
        · exact h.wfQ q hq
      · exact h.wfI

theorem inv_inline (s s' : State) (k : Nat) (h : Inv s) (hs : step false s (.inline k) = some s') : Inv s' := by
  simp only [step] at hs
  cases hp : pick s.jobs k with
  | none => simp [hp] at hs
  | some jr =>
    obtain ⟨j, rest⟩ := jr
    simp only [hp] at hs
    cases hpe : j.pend with
    | none => simp [hpe] at hs
    | some p =>
      simp only [hpe, inlineAdjust, Option.some.injEq] at hs
      have hsum := fun f => pick_sum f s.jobs k j rest hp
      have hmem := pick_mem _ _ _ _ hp
      obtain ⟨hj1, hj2, hj3, hj4, hj5⟩ := h.wfJ j hmem.1
      have hp4 := hj4 p hpe
      by_cases hc : s.rtr j.tid < p.e - p.s
      · simp [hc] at hs
        subst hs
        constructor
        · intro t i
          have := h.cov t i
          simp only [cover, hsum] at this ⊢
          simp only [sumBy, Job.cnt, Part.cnt, optCnt, hpe] at this ⊢
          grind
        · intro t
          have := h.cnt t
          simp only [pending, hsum] at this ⊢
          simp only [sumBy, optTidIs, tidIs, hpe] at this ⊢
          grind
        · exact h.fresh
        · intro j' hj'
          simp only [List.mem_cons] at hj'
          rcases hj' with rfl | hj'
          · simp only [Job.Wf]
            grind
          · exact h.wfJ j' (hmem.2 j' hj')
        · exact h.wfQ
        · intro q hq
          simp only [List.mem_cons] at hq
          rcases hq with rfl | hq
          · simp only [Part.Wf]; grind
          · exact h.wfI q hq
      · simp [hc] at hs
        subst hs
        constructor
        · intro t i
          have := h.cov t i
          simp only [cover, hsum] at this ⊢
          simp only [sumBy, Job.cnt, Part.cnt, optCnt, hpe] at this ⊢
          grind
        · intro t
          have := h.cnt t
          simp only [pending, hsum] at this ⊢
          simp only [sumBy, optTidIs, tidIs, hpe] at this ⊢
          grind
        · exact h.fresh
        · intro j' hj'
          simp only [List.mem_cons] at hj'
          rcases hj' with rfl | hj'
          · simp only [Job.Wf]
            grind
          · exact h.wfJ j' (hmem.2 j' hj')
        · exact h.wfQ
        · intro q hq
          simp only [List.mem_cons] at hq
          rcases hq with rfl | hq
          · simp only [Part.Wf]; grind
          · exact h.wfI q hq

theorem inv_jobDone (s s' : State) (k : Nat) (h : Inv s) (hs : step false s (.jobDone k) = some s') : Inv s' := by
  simp only [step] at hs
  cases hp : pick s.jobs k with
  | none => simp [hp] at hs
  | some jr =>
    obtain ⟨j, rest⟩ := jr
    simp only [hp] at hs
    have hsum := fun f => pick_sum f s.jobs k j rest hp
    have hmem := pick_mem _ _ _ _ hp
    obtain ⟨hj1, hj2, hj3, hj4, hj5⟩ := h.wfJ j hmem.1
    split at hs
    · rename_i hc
      have hpn : j.pend = none := by
        cases hjp : j.pend <;> simp_all
      cases hco : j.cont with
      | none =>
        simp only [hco, Option.some.injEq] at hs
        subst hs
        constructor
        · intro t i
          have := h.cov t i
          simp only [cover, hsum] at this ⊢
          simp only [sumBy, Job.cnt, Part.cnt, optCnt, hpn, hco] at this ⊢
          grind
        · intro t
          have := h.cnt t
          simp only [pending, hsum] at this ⊢
          simp only [sumBy, optTidIs, tidIs, hpn, hco] at this ⊢
          grind
        · exact h.fresh
        · intro j' hj'
          exact h.wfJ j' (hmem.2 j' hj')
        · exact h.wfQ
        · exact h.wfI
      | some c =>
        simp only [hco, Option.some.injEq] at hs
        subst hs
        have hc5 := hj5 c hco
        constructor
        · intro t i
          have := h.cov t i
          simp only [cover, hsum] at this ⊢
          simp only [sumBy, Job.cnt, Part.cnt, optCnt, hpn, hco] at this ⊢
          grind
        · intro t
          have := h.cnt t
          simp only [pending, hsum] at this ⊢
          simp only [sumBy, optTidIs, tidIs, hpn, hco] at this ⊢
          grind
        · exact h.fresh
        · intro j' hj'
          exact h.wfJ j' (hmem.2 j' hj')
        · exact h.wfQ
        · intro q hq
          simp only [List.mem_cons] at hq
          rcases hq with rfl | hq
          · simp only [Part.Wf]; grind
          · exact h.wfI q hq
    · simp at hs

theorem inv_pop (s s' : State) (k : Nat) (h : Inv s) (hs : step false s (.pop k) = some s') : Inv s' := by
  simp only [step] at hs
  cases hp : pick s.queued k with
  | none => simp [hp] at hs
  | some jr =>
    obtain ⟨q, rest⟩ := jr
    simp only [hp] at hs
    have hsum := fun f => pick_sum f s.queued k q rest hp
    have hmem := pick_mem _ _ _ _ hp
    obtain ⟨hq1, hq2, hq3⟩ := h.wfQ q hmem.1
    split at hs
    · rename_i hc
      simp only [splitTask, Option.some.injEq] at hs
      subst hs
      constructor
      · intro t i
        have := h.cov t i
        simp only [cover, hsum] at this ⊢
        simp only [sumBy, Job.cnt, Part.cnt, optCnt] at this ⊢
        grind
      · intro t
        have := h.cnt t
        simp only [pending, hsum] at this ⊢
        simp only [sumBy, optTidIs, tidIs] at this ⊢
        grind
      · exact h.fresh
      · intro j' hj'
        simp only [List.mem_cons] at hj'
        rcases hj' with rfl | hj'
        · simp only [Job.Wf]
          grind
        · exact h.wfJ j' hj'
      · intro p hp'
        exact h.wfQ p (hmem.2 p hp')
      · exact h.wfI
    · simp only [Option.some.injEq] at hs
      subst hs
      constructor
      · intro t i
        have := h.cov t i
        simp only [cover, hsum] at this ⊢
        simp only [sumBy] at this ⊢
        grind
      · intro t
        have := h.cnt t
        simp only [pending, hsum] at this ⊢
        simp only [sumBy] at this ⊢
        grind
      · exact h.fresh
      · exact h.wfJ
      · intro p hp'
        exact h.wfQ p (hmem.2 p hp')
      · intro p hp'
        simp only [List.mem_cons] at hp'
        rcases hp' with rfl | hp'
        · exact ⟨hq1, hq2, hq3⟩
        · exact h.wfI p hp'

theorem inv_exec (s s' : State) (k : Nat) (h : Inv s) (hs : step false s (.exec k) = some s') : Inv s' := by
  simp only [step] at hs
  cases hp : pick s.inflight k with
  | none => simp [hp] at hs
  | some jr =>
    obtain ⟨p, rest⟩ := jr
    simp only [hp] at hs
    have hsum := fun f => pick_sum f s.inflight k p rest hp
    have hmem := pick_mem _ _ _ _ hp
    obtain ⟨hq1, hq2, hq3⟩ := h.wfI p hmem.1
    split at hs
    · rename_i hc
      simp only [Option.some.injEq] at hs
      subst hs
      constructor
      · intro t i
        have := h.cov t i
        simp only [cover, hsum] at this ⊢
        simp only [sumBy, Part.cnt] at this ⊢
        grind
      · intro t
        have := h.cnt t
        simp only [pending, hsum] at this ⊢
        simp only [sumBy, tidIs] at this ⊢
        grind
      · exact h.fresh
      · exact h.wfJ
      · exact h.wfQ
      · intro q hq
        simp only [List.mem_cons] at hq
        rcases hq with rfl | hq
        · simp only [Part.Wf]; grind
        · exact h.wfI q (hmem.2 q hq)
    · simp at hs

theorem inv_finish (s s' : State) (k : Nat) (h : Inv s) (hs : step false s (.finish k) = some s') : Inv s' := by
  simp only [step] at hs
  cases hp : pick s.inflight k with
  | none => simp [hp] at hs
  | some jr =>
    obtain ⟨p, rest⟩ := jr
    simp only [hp] at hs
    have hsum := fun f => pick_sum f s.inflight k p rest hp
    have hmem := pick_mem _ _ _ _ hp
    obtain ⟨hq1, hq2, hq3⟩ := h.wfI p hmem.1
    split at hs
    · simp at hs
    · rename_i hc
      simp only [Option.some.injEq] at hs
      subst hs
      constructor
      · intro t i
        have := h.cov t i
        simp only [cover, hsum] at this ⊢
        simp only [sumBy, Part.cnt] at this ⊢
        grind
      · intro t
        have := h.cnt t
        simp only [pending, hsum] at this ⊢
        simp only [sumBy, tidIs, upd] at this ⊢
        grind
      · intro t ht
        have := h.fresh t ht
        simp only [upd]
        grind
      · exact h.wfJ
      · exact h.wfQ
      · intro q hq
        exact h.wfI q (hmem.2 q hq)

theorem inv_step (s s' : State) (a : Act) (h : Inv s) (hs : step false s a = some s') : Inv s' := by
  cases a with
  | add sz mr np ni => exact inv_add s s' sz mr np ni h hs
  | take k => exact inv_take s s' k h hs
  | push k => exact inv_push s s' k h hs
  | inline k => exact inv_inline s s' k h hs
  | jobDone k => exact inv_jobDone s s' k h hs
  | pop k => exact inv_pop s s' k h hs
  | exec k => exact inv_exec s s' k h hs
  | finish k => exact inv_finish s s' k h hs

theorem inv_reachable (s : State) (h : Reachable s) : Inv s := by
  induction h with
  | init => exact inv_init
  | step a _ hs ih => exact inv_step _ _ a ih hs

/-- What a waiter that sees `m_RunningCount == 0` after its `AddTaskSetToPipe` returned can rely on. -/
theorem inv_wait (s : State) (t : Nat) (h : Inv s) (hw : waitMayReturn s t) :
    (∀ i, sumBy (fun e => if e = (t, i) then 1 else 0) s.executed = if i < s.size t then 1 else 0) ∧
    (∀ p ∈ s.queued, p.tid ≠ t) ∧ (∀ p ∈ s.inflight, p.tid ≠ t) ∧ (∀ j ∈ s.jobs, j.tid ≠ t) := by
  obtain ⟨⟨hlt, hadd⟩, hc0⟩ := hw
  have hp : pending s t = 0 := by
    have := h.cnt t
    omega
  simp only [pending] at hp
  have hq := sumBy_eq_zero _ _ (show sumBy (tidIs · t) s.queued = 0 by omega)
  have hi := sumBy_eq_zero _ _ (show sumBy (tidIs · t) s.inflight = 0 by omega)
  have hj := sumBy_eq_zero _ _ (show sumBy (fun j => optTidIs j.pend t + optTidIs j.cont t) s.jobs = 0 by omega)
  have hq' : ∀ p ∈ s.queued, p.tid ≠ t := by
    intro p hp'
    have := hq p hp'
    simp only [tidIs] at this
    grind
  have hi' : ∀ p ∈ s.inflight, p.tid ≠ t := by
    intro p hp'
    have := hi p hp'
    simp only [tidIs] at this
    grind
  have hj' : ∀ j ∈ s.jobs, j.tid ≠ t := by
    intro j hjm hjt
    have h0 := hj j hjm
    have hne := hadd j hjm hjt
    obtain ⟨_, _, _, _, h5⟩ := h.wfJ j hjm
    cases hco : j.cont with
    | none => exact hne hco
    | some c =>
      have := h5 c hco
      simp only [hco, optTidIs, tidIs] at h0
      grind
  refine ⟨?_, hq', hi', hj'⟩
  intro i
  have hcov := h.cov t i
  simp only [cover] at hcov
  have z1 : sumBy (·.cnt t i) s.queued = 0 := by
    apply sumBy_zero
    intro p hp'
    have := hq' p hp'
    simp only [Part.cnt]
    grind
  have z2 : sumBy (·.cnt t i) s.inflight = 0 := by
    apply sumBy_zero
    intro p hp'
    have := hi' p hp'
    simp only [Part.cnt]
    grind
  have z3 : sumBy (·.cnt t i) s.jobs = 0 := by
    apply sumBy_zero
    intro j hjm
    have := hj' j hjm
    obtain ⟨_, _, _, h4, h5⟩ := h.wfJ j hjm
    simp only [Job.cnt, Part.cnt, optCnt]
    cases hpe : j.pend <;> cases hco : j.cont <;> simp only [Part.cnt] <;> grind
  omega

theorem sumBy_indicator_count (x : Nat × Nat) (l : List (Nat × Nat)) :
    sumBy (fun e => if e = x then 1 else 0) l = l.count x := by
  induction l with
  | nil => rfl
  | cons a l ih =>
    simp only [sumBy, ih, List.count_cons]
    by_cases h : a = x
    · simp [h]; omega
    · simp [h]

end RkVerif.C01
