/-
Helper lemmas for C03 (AsyncLoop): injectivity of the state code, the closed-set lemma
(`reach_sub`: a list containing `init` and closed under `step` contains every reachable state),
the generic fair-termination argument from a rank certificate (`fair_term`) and reachability
along an explicit path (`reach_of_path`).
-/
import RkVerif.Gen.C03Reach
namespace RkVerif.C03

theorem LPc.n_lt (a : LPc) : a.n < 17 := by cases a <;> decide
theorem CPc.n_lt (a : CPc) : a.n < 17 := by cases a <;> decide
theorem Owner.n_lt (a : Owner) : a.n < 3 := by cases a <;> decide
theorem bn_lt (b : Bool) : bn b < 2 := by cases b <;> decide
theorem LPc.n_inj {a b : LPc} (h : a.n = b.n) : a = b := by
  cases a <;> cases b <;> first | rfl | (simp [LPc.n] at h)
theorem CPc.n_inj {a b : CPc} (h : a.n = b.n) : a = b := by
  cases a <;> cases b <;> first | rfl | (simp [CPc.n] at h)
theorem Owner.n_inj {a b : Owner} (h : a.n = b.n) : a = b := by
  cases a <;> cases b <;> first | rfl | (simp [Owner.n] at h)
theorem bn_inj {a b : Bool} (h : bn a = bn b) : a = b := by
  cases a <;> cases b <;> first | rfl | (simp [bn] at h)

theorem code_inj {s t : State} (h : code s = code t) : s = t := by
  obtain ⟨l1, c1, a1, r1, i1, m1, p1, q1⟩ := s
  obtain ⟨l2, c2, a2, r2, i2, m2, p2, q2⟩ := t
  have h1 := l1.n_lt; have h2 := c1.n_lt; have h3 := bn_lt a1; have h4 := bn_lt r1
  have h5 := bn_lt i1; have h6 := m1.n_lt; have h7 := bn_lt p1; have h8 := bn_lt q1
  have g1 := l2.n_lt; have g2 := c2.n_lt; have g3 := bn_lt a2; have g4 := bn_lt r2
  have g5 := bn_lt i2; have g6 := m2.n_lt; have g7 := bn_lt p2; have g8 := bn_lt q2
  simp only [code] at h
  have e1 : l1.n = l2.n := by omega
  have e2 : c1.n = c2.n := by omega
  have e3 : bn a1 = bn a2 := by omega
  have e4 : bn r1 = bn r2 := by omega
  have e5 : bn i1 = bn i2 := by omega
  have e6 : m1.n = m2.n := by omega
  have e7 : bn p1 = bn p2 := by omega
  have e8 : bn q1 = bn q2 := by omega
  rw [LPc.n_inj e1, CPc.n_inj e2, bn_inj e3, bn_inj e4, bn_inj e5, Owner.n_inj e6, bn_inj e7, bn_inj e8]

theorem testBit_maskOf (r : List State) (n : Nat) (h : (maskOf r).testBit n = true) : ∃ s ∈ r, code s = n := by
  induction r with
  | nil => simp [maskOf] at h
  | cons x xs ih =>
    simp only [maskOf, Nat.testBit_or, Bool.or_eq_true] at h
    rcases h with h | h
    · refine ⟨x, List.mem_cons_self, ?_⟩
      rw [Nat.one_shiftLeft, Nat.testBit_two_pow] at h
      simpa using h
    · obtain ⟨s, hs, hc⟩ := ih h
      exact ⟨s, List.mem_cons_of_mem _ hs, hc⟩

/-- membership through the mask implies membership in the list -/
theorem mem_of_mask (r : List State) (s : State) (h : (maskOf r).testBit (code s) = true) : s ∈ r := by
  obtain ⟨t, ht, hc⟩ := testBit_maskOf r _ h
  rw [← code_inj hc]; exact ht

/-- `r` is closed under `step` (checked through the mask) -/
def closedM (c : Cfg) (r : List State) (m : Nat) : Bool :=
  r.all (fun s => (step c s).all (fun t => Nat.testBit m (code t)))

/-- The closed-set lemma: a list that contains `init` and is closed under `step` contains every
    reachable state — executions of any length, every interleaving, every call sequence. -/
theorem reach_sub (c : Cfg) (r : List State) (m : Nat) (hm : m = maskOf r)
    (h0 : Nat.testBit m (code init) = true) (hc : closedM c r m = true) :
    ∀ s, Reachable c s → s ∈ r := by
  intro s hs
  induction hs with
  | init => exact mem_of_mask r _ (hm ▸ h0)
  | step hs' ht ih =>
    simp only [closedM, List.all_eq_true] at hc
    exact mem_of_mask r _ (hm ▸ hc _ ih _ ht)

theorem inv_of_all (c : Cfg) (r : List State) (m : Nat) (hm : m = maskOf r)
    (h0 : Nat.testBit m (code init) = true) (hc : closedM c r m = true)
    (P : State → Bool) (hP : r.all P = true) : ∀ s, Reachable c s → P s = true := by
  intro s hs
  exact (List.all_eq_true.mp hP) s (reach_sub c r m hm h0 hc s hs)

def rankOf (tab : List (Nat × Nat)) (s : State) : Nat := lookupN (code s) tab / 2
def helpOf (tab : List (Nat × Nat)) (s : State) : Thread := if lookupN (code s) tab % 2 == 1 then .loop else .ctl

/-- fair-termination certificate check over the list `r` -/
def termCert (c : Cfg) (r : List State) (tab : List (Nat × Nat)) (region target : CPc → Bool) : Bool :=
  r.all (fun s => !region s.cpc ||
    (enabled c (helpOf tab s) s &&
     (stepNS c s).all (fun p =>
        (region p.2.cpc || target p.2.cpc) &&
        (if p.1 == helpOf tab s then Nat.blt (rankOf tab p.2) (rankOf tab s)
         else (Nat.blt (rankOf tab p.2) (rankOf tab s) ||
               (Nat.beq (rankOf tab p.2) (rankOf tab s) && helpOf tab p.2 == helpOf tab s))))))

theorem stepNS_sub_step (c : Cfg) (s : State) (p : Thread × State) (h : p ∈ stepNS c s) : p.2 ∈ step c s := by
  simp only [stepNS, List.mem_append, List.mem_map] at h
  simp only [step, List.mem_append]
  rcases h with ⟨t, ht, rfl⟩ | ⟨t, ht, rfl⟩
  · exact Or.inl (Or.inl ht)
  · exact Or.inr ht

theorem fair_term (c : Cfg) (r : List State) (tab : List (Nat × Nat))
    (region target : CPc → Bool)
    (hsub : ∀ s, Reachable c s → s ∈ r) (hcert : termCert c r tab region target = true)
    (σ : Nat → State) (τ : Nat → Thread)
    (h0 : Reachable c (σ 0)) (hd : region (σ 0).cpc = true)
    (hstep : ∀ i, target (σ i).cpc = true ∨ (τ i, σ (i + 1)) ∈ stepNS c (σ i))
    (hfair : ∀ i t, ∃ j, i ≤ j ∧ (τ j = t ∨ enabled c t (σ j) = false ∨ target (σ j).cpc = true)) :
    ∃ n, target (σ n).cpc = true := by
  have cert : ∀ s, Reachable c s → region s.cpc = true →
      enabled c (helpOf tab s) s = true ∧ ∀ p ∈ stepNS c s,
        (region p.2.cpc = true ∨ target p.2.cpc = true) ∧
        (if p.1 = helpOf tab s then rankOf tab p.2 < rankOf tab s
         else (rankOf tab p.2 < rankOf tab s ∨ (rankOf tab p.2 = rankOf tab s ∧ helpOf tab p.2 = helpOf tab s))) := by
    intro s hs hds
    have := (List.all_eq_true.mp hcert) s (hsub s hs)
    simp only [hds, Bool.not_true, Bool.false_or, Bool.and_eq_true, List.all_eq_true] at this
    refine ⟨this.1, fun p hp => ?_⟩
    have hp' := this.2 p hp
    refine ⟨by simpa using hp'.1, ?_⟩
    have h2 := hp'.2
    by_cases hh : p.1 = helpOf tab s
    · simp only [hh, if_true] ; simp only [hh, beq_self_eq_true, if_true] at h2
      simpa [Nat.blt_eq] using h2
    · simp only [hh, if_false]
      have : (p.1 == helpOf tab s) = false := by simpa using hh
      simp only [this] at h2
      simpa [Nat.blt_eq] using h2
  have main : ∀ k i, Reachable c (σ i) → region (σ i).cpc = true → rankOf tab (σ i) ≤ k →
      ∃ n, target (σ n).cpc = true := by
    intro k
    induction k with
    | zero =>
      intro i hr hdi hk
      -- rank 0 is impossible inside the destructor: the helpful step would have to decrease it
      obtain ⟨hen, hall⟩ := cert _ hr hdi
      simp only [enabled, List.any_eq_true] at hen
      obtain ⟨p, hp, hpt⟩ := hen
      have := (hall p hp).2
      have hpt' : p.1 = helpOf tab (σ i) := by simpa using hpt
      simp only [hpt', if_true] at this
      omega
    | succ k ih =>
      intro i hr hdi hk
      obtain ⟨j, hij, hj⟩ := hfair i (helpOf tab (σ i))
      -- inner induction on the distance to the fair point j
      have inner : ∀ d i, i + d = j → Reachable c (σ i) → region (σ i).cpc = true →
          rankOf tab (σ i) ≤ k + 1 →
          (τ j = helpOf tab (σ i) ∨ enabled c (helpOf tab (σ i)) (σ j) = false ∨ target (σ j).cpc = true) →
          ∃ n, target (σ n).cpc = true := by
        intro d
        induction d with
        | zero =>
          intro i hij hr hdi hk hj
          have hij' : i = j := by omega
          subst hij'
          obtain ⟨hen, hall⟩ := cert _ hr hdi
          rcases hj with hj | hj | hj
          · rcases hstep i with hdead | hs
            · exact ⟨i, hdead⟩
            · have hp := hall _ hs
              simp only [hj, if_true] at hp
              rcases hp.1 with hd' | hd'
              · exact ih (i + 1) (Reachable.step hr (stepNS_sub_step c _ _ hs)) hd' (by omega)
              · exact ⟨i + 1, hd'⟩
          · rw [hen] at hj; cases hj
          · exact ⟨i, hj⟩
        | succ d ihd =>
          intro i hij hr hdi hk hj
          obtain ⟨hen, hall⟩ := cert _ hr hdi
          rcases hstep i with hdead | hs
          · exact ⟨i, hdead⟩
          · have hp := hall _ hs
            have hr' := Reachable.step hr (stepNS_sub_step c _ _ hs)
            rcases hp.1 with hd' | hd'
            · by_cases hh : τ i = helpOf tab (σ i)
              · simp only [hh, if_true] at hp
                exact ih (i + 1) hr' hd' (by omega)
              · simp only [hh, if_false] at hp
                rcases hp.2 with hlt | ⟨heq, hhelp⟩
                · exact ih (i + 1) hr' hd' (by omega)
                · exact ihd (i + 1) (by omega) hr' hd' (by omega) (by rw [hhelp]; exact hj)
            · exact ⟨i + 1, hd'⟩
      exact inner (j - i) i (by omega) hr hdi hk hj
  exact main _ 0 h0 hd (Nat.le_refl _)

/-- a concrete execution: consecutive states related by `step`, starting at `init` -/
def pathOK (c : Cfg) : State → List State → Bool
  | _, [] => true
  | s, t :: rest => mem t (step c s) && pathOK c t rest

theorem reach_of_path (c : Cfg) (s : State) (hs : Reachable c s) (p : List State) (h : pathOK c s p = true) :
    ∀ t ∈ p, Reachable c t := by
  induction p generalizing s with
  | nil => intro t ht; cases ht
  | cons x xs ih =>
    simp only [pathOK, Bool.and_eq_true] at h
    have hx : Reachable c x := Reachable.step hs ((mem_iff _ _).mp h.1)
    intro t ht
    rcases List.mem_cons.mp ht with rfl | ht
    · exact hx
    · exact ih x hx h.2 t ht

/-! ### Explicit executions (computed by breadth-first search; checked by `pathOK` where used) -/

def witnessOrig : List State := [
  ⟨.alive1,.idle,true,false,false,.free,false,false⟩,
  ⟨.alive2,.idle,true,false,false,.free,false,false⟩,
  ⟨.alive2,.st0,true,false,false,.free,false,false⟩,
  ⟨.alive2,.st1,true,false,false,.free,false,false⟩,
  ⟨.alive2,.st2,true,false,false,.ctl,false,false⟩,
  ⟨.alive2,.st3,true,true,false,.ctl,false,false⟩,
  ⟨.run,.st3,true,true,false,.ctl,false,false⟩,
  ⟨.run,.st4,true,true,false,.free,false,false⟩,
  ⟨.run,.idle,true,true,false,.free,false,true⟩,
  ⟨.run,.sp0,true,true,false,.free,false,false⟩,
  ⟨.run,.sp1,true,true,false,.free,false,false⟩,
  ⟨.run,.sp2,true,false,false,.free,false,false⟩,
  ⟨.run,.idle,true,false,false,.free,true,false⟩,
  ⟨.pub,.idle,true,false,true,.free,true,false⟩,
  ⟨.body,.idle,true,false,true,.free,true,false⟩
]
def pathStoppedBodyDone : List State := [
  ⟨.alive1,.idle,true,false,false,.free,false,false⟩,
  ⟨.alive2,.idle,true,false,false,.free,false,false⟩,
  ⟨.pub,.idle,true,false,true,.free,false,false⟩,
  ⟨.norun,.idle,true,false,true,.free,false,false⟩,
  ⟨.prelock,.idle,true,false,false,.free,false,false⟩,
  ⟨.pred,.idle,true,false,false,.loop,false,false⟩,
  ⟨.pred2,.idle,true,false,false,.loop,false,false⟩,
  ⟨.pdF,.idle,true,false,false,.loop,false,false⟩,
  ⟨.waiting,.idle,true,false,false,.free,false,false⟩,
  ⟨.waiting,.sp0,true,false,false,.free,false,false⟩,
  ⟨.waiting,.idle,true,false,false,.free,true,false⟩
]
def pathStartedBody : List State := [
  ⟨.alive1,.idle,true,false,false,.free,false,false⟩,
  ⟨.alive2,.idle,true,false,false,.free,false,false⟩,
  ⟨.pub,.idle,true,false,true,.free,false,false⟩,
  ⟨.pub,.st0,true,false,true,.free,false,false⟩,
  ⟨.pub,.st1,true,false,true,.free,false,false⟩,
  ⟨.pub,.st2,true,false,true,.ctl,false,false⟩,
  ⟨.pub,.st3,true,true,true,.ctl,false,false⟩,
  ⟨.run,.st3,true,true,true,.ctl,false,false⟩,
  ⟨.body,.st3,true,true,true,.ctl,false,false⟩,
  ⟨.body,.st4,true,true,true,.free,false,false⟩,
  ⟨.body,.idle,true,true,true,.free,false,true⟩
]
def pathDeadThread : List State := [
  ⟨.top,.d0,true,false,false,.free,false,false⟩,
  ⟨.top,.d1,true,false,false,.ctl,false,false⟩,
  ⟨.top,.d2,false,false,false,.ctl,false,false⟩,
  ⟨.exited,.d2,false,false,false,.ctl,false,false⟩,
  ⟨.exited,.d3,false,false,false,.ctl,false,false⟩,
  ⟨.exited,.d4,false,false,false,.free,false,false⟩,
  ⟨.exited,.d5,false,false,false,.free,false,false⟩,
  ⟨.exited,.dead,false,false,false,.free,false,false⟩
]
def pathDeadTaskBody : List State := [
  ⟨.alive1,.idle,true,false,false,.free,false,false⟩,
  ⟨.alive2,.idle,true,false,false,.free,false,false⟩,
  ⟨.pub,.idle,true,false,true,.free,false,false⟩,
  ⟨.pub,.st0,true,false,true,.free,false,false⟩,
  ⟨.pub,.st1,true,false,true,.free,false,false⟩,
  ⟨.pub,.st2,true,false,true,.ctl,false,false⟩,
  ⟨.pub,.st3,true,true,true,.ctl,false,false⟩,
  ⟨.run,.st3,true,true,true,.ctl,false,false⟩,
  ⟨.body,.st3,true,true,true,.ctl,false,false⟩,
  ⟨.body,.st4,true,true,true,.free,false,false⟩,
  ⟨.body,.idle,true,true,true,.free,false,true⟩,
  ⟨.body,.d0,true,true,true,.free,false,false⟩,
  ⟨.body,.d1,true,true,true,.ctl,false,false⟩,
  ⟨.body,.d2,false,true,true,.ctl,false,false⟩,
  ⟨.body,.d3,false,false,true,.ctl,false,false⟩,
  ⟨.body,.d4,false,false,true,.free,false,false⟩,
  ⟨.body,.d5,false,false,true,.free,false,false⟩,
  ⟨.body,.dead,false,false,true,.free,false,false⟩
]
def pathRestart : List State := [
  ⟨.alive1,.idle,true,false,false,.free,false,false⟩,
  ⟨.alive2,.idle,true,false,false,.free,false,false⟩,
  ⟨.pub,.idle,true,false,true,.free,false,false⟩,
  ⟨.norun,.idle,true,false,true,.free,false,false⟩,
  ⟨.prelock,.idle,true,false,false,.free,false,false⟩,
  ⟨.pred,.idle,true,false,false,.loop,false,false⟩,
  ⟨.pred2,.idle,true,false,false,.loop,false,false⟩,
  ⟨.pdF,.idle,true,false,false,.loop,false,false⟩,
  ⟨.waiting,.idle,true,false,false,.free,false,false⟩,
  ⟨.waiting,.st0,true,false,false,.free,false,false⟩,
  ⟨.waiting,.st1,true,false,false,.free,false,false⟩,
  ⟨.waiting,.st2,true,false,false,.ctl,false,false⟩,
  ⟨.waiting,.st3,true,true,false,.ctl,false,false⟩,
  ⟨.waiting,.st4,true,true,false,.free,false,false⟩,
  ⟨.woken,.idle,true,true,false,.free,false,true⟩
]

end RkVerif.C03
