/-
Helper lemmas for C01 §3 (Pipe): inductive invariant of the flag protocol.
-/
import RkVerif.Model.C01
namespace RkVerif.C01

structure PInv (s : PState) : Prop where
  clm : ∀ r k c, s.rpc r = .claimed k c → s.flags k = .invalid ∧ s.buf k = c ∧ c ∈ s.claimed
  cpd : ∀ r k, s.rpc r = .copied k → s.flags k = .invalid
  held : ∀ r k, (s.rpc r).slot = some k → s.flags k = .invalid
  excl : ∀ r r' k, r ≠ r' → (s.rpc r).slot = some k → (s.rpc r').slot ≠ some k
  wr : ∀ k, s.wpc = some k → s.flags k = .canWrite ∧ s.buf k < s.next ∧ s.buf k ∉ s.claimed ∧
        ∀ k', k' ≠ k → s.flags k' = .canRead → s.buf k' ≠ s.buf k
  rd : ∀ k, s.flags k = .canRead → s.buf k < s.next ∧ s.buf k ∉ s.claimed
  uniq : ∀ k k', k ≠ k' → s.flags k = .canRead → s.flags k' = .canRead → s.buf k ≠ s.buf k'
  nodup : s.claimed.Nodup
  old : ∀ c ∈ s.claimed, c < s.next
  outOk : ∀ cv ∈ s.out, cv.1 = cv.2 ∧ cv.1 ∈ s.claimed

theorem pinv_init : PInv pinit := by
  constructor <;> simp [pinit, RPc.slot]

theorem pinv_step (s s' : PState) (a : PAct) (h : PInv s) (hs : pstep s a = some s') : PInv s' := by
  obtain ⟨clm, cpd, held, excl, wr, rd, uniq, nodup, old, outOk⟩ := h
  cases a with
  | wBuf k =>
    simp only [pstep] at hs
    split at hs
    · rename_i hc
      simp only [Option.some.injEq] at hs; subst hs
      constructor <;> simp only [upd] <;> grind
    · simp at hs
  | wFlag =>
    simp only [pstep] at hs
    cases hw : s.wpc with
    | none => simp [hw] at hs
    | some k =>
      simp only [hw, Option.some.injEq] at hs; subst hs
      have := wr k hw
      constructor <;> simp only [upd] <;> grind
  | cas r k =>
    simp only [pstep] at hs
    split at hs
    · rename_i hidle
      split at hs
      · rename_i hcr
        simp only [Option.some.injEq] at hs; subst hs
        have := rd k hcr
        constructor <;> simp only [upd] <;> grind [RPc.slot]
      · simp only [Option.some.injEq] at hs; subst hs
        exact ⟨clm, cpd, held, excl, wr, rd, uniq, nodup, old, outOk⟩
    · simp at hs
  | copy r =>
    simp only [pstep] at hs
    split at hs
    · rename_i k c hr
      simp only [Option.some.injEq] at hs; subst hs
      have := clm r k c hr
      constructor <;> simp only [upd] <;> grind [RPc.slot]
    · simp at hs
  | release r =>
    simp only [pstep] at hs
    split at hs
    · rename_i k hr
      simp only [Option.some.injEq] at hs; subst hs
      have := cpd r k hr
      constructor <;> simp only [upd] <;> grind [RPc.slot]
    · simp at hs

theorem pinv_reachable (s : PState) (h : PReachable s) : PInv s := by
  induction h with
  | init => exact pinv_init
  | step a _ hs ih => exact pinv_step _ _ a ih hs

end RkVerif.C01
