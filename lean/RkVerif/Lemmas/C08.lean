/-
Helper lemmas for C08: how each primitive state transformer of Model/C08.lean changes the
observables `countOf / aliveOf / destroyedOf / manualOf` and the three components of `refsTo`.
-/
import RkVerif.Model.C08
set_option linter.unusedVariables false

namespace RkVerif.C08

/-! ## sumBy -/

theorem sumBy_append {α : Type} (f : α → Nat) (l₁ l₂ : List α) :
    sumBy f (l₁ ++ l₂) = sumBy f l₁ + sumBy f l₂ := by
  induction l₁ with
  | nil => simp [sumBy]
  | cons a l ih => simp [sumBy, ih]; omega

theorem sumBy_set {α : Type} (f : α → Nat) (l : List α) (i : Nat) (a b : α) (h : l[i]? = some b) :
    sumBy f (l.set i a) + f b = sumBy f l + f a := by
  induction l generalizing i with
  | nil => simp at h
  | cons c l ih =>
    cases i with
    | zero => simp at h; subst h; simp [sumBy]; omega
    | succ i => simp at h; have := ih i h; simp [sumBy]; omega

theorem sumBy_set_none {α : Type} (f : α → Nat) (l : List α) (i : Nat) (a : α) (h : l[i]? = none) :
    sumBy f (l.set i a) = sumBy f l := by
  have : l.length ≤ i := by simpa using h
  rw [List.set_eq_of_length_le this]

theorem sumBy_replicate_zero {α : Type} (f : α → Nat) (n : Nat) (a : α) (h : f a = 0) :
    sumBy f (List.replicate n a) = 0 := by
  induction n with
  | zero => simp [sumBy]
  | succ n ih => simp [List.replicate_succ, sumBy, ih, h]

theorem sumBy_pos_of_mem {α : Type} (f : α → Nat) (l : List α) (a : α) (h : a ∈ l) (hp : 0 < f a) :
    0 < sumBy f l := by
  induction l with
  | nil => simp at h
  | cons c l ih =>
    simp at h
    rcases h with h | h
    · subst h; simp [sumBy]; omega
    · have := ih h; simp [sumBy]; omega

theorem sumBy_zero_of_forall {α : Type} (f : α → Nat) (l : List α) (h : sumBy f l = 0) :
    ∀ a ∈ l, f a = 0 := by
  induction l with
  | nil => simp
  | cons c l ih =>
    simp [sumBy] at h
    intro a ha
    simp at ha
    rcases ha with ha | ha
    · subst ha; omega
    · exact ih (by omega) a ha

/-! ## components of refsTo -/

def hrefs (s : State) (o : Nat) : Nat := sumBy (ccnt o) s.cells
def trefs (o : Nat) (th : Thread) : Nat := sumBy (rcnt o) th.regs
def rrefs (s : State) (o : Nat) : Nat := sumBy (trefs o) s.thr

theorem refsTo_eq (s : State) (o : Nat) : refsTo s o = hrefs s o + rrefs s o + manualOf s o := rfl

/-! ## setCell -/

@[simp] theorem setCell_objs (s : State) (x : Nat) (h : Option H) : (setCell s x h).objs = s.objs := rfl
@[simp] theorem setCell_thr (s : State) (x : Nat) (h : Option H) : (setCell s x h).thr = s.thr := rfl
@[simp] theorem countOf_setCell (s : State) (x h o) : countOf (setCell s x h) o = countOf s o := rfl
@[simp] theorem aliveOf_setCell (s : State) (x h o) : aliveOf (setCell s x h) o = aliveOf s o := rfl
@[simp] theorem destroyedOf_setCell (s : State) (x h o) : destroyedOf (setCell s x h) o = destroyedOf s o := rfl
@[simp] theorem manualOf_setCell (s : State) (x h o) : manualOf (setCell s x h) o = manualOf s o := rfl
@[simp] theorem rrefs_setCell (s : State) (x h o) : rrefs (setCell s x h) o = rrefs s o := rfl
@[simp] theorem getThr_setCell (s : State) (x h t) : getThr (setCell s x h) t = getThr s t := rfl
@[simp] theorem topReg_setCell (s : State) (x h t) : topReg (setCell s x h) t = topReg s t := rfl

theorem hrefs_setCell (s : State) (x : Nat) (h c : Option H) (o : Nat) (hc : s.cells[x]? = some c) :
    hrefs (setCell s x h) o + ccnt o c = hrefs s o + ccnt o h := by
  simp only [hrefs, setCell]; exact sumBy_set _ _ _ _ _ hc

theorem cell_setCell (s : State) (x y : Nat) (h : Option H) :
    cell (setCell s x h) y = if x = y ∧ x < s.cells.length then h else cell s y := by
  simp only [cell, setCell, List.getElem?_set]
  by_cases hxy : x = y
  · subst hxy
    by_cases hl : x < s.cells.length
    · simp [hl]
    · simp [hl]
  · simp [hxy]

theorem cells_get_of_cell {s : State} {x : Nat} {h : H} (hc : cell s x = some h) :
    s.cells[x]? = some (some h) := by
  unfold cell at hc
  cases hx : s.cells[x]? with
  | none => simp [hx] at hc
  | some c => simp [hx] at hc; simp [hc]

/-! ## setThr and the register stack -/

@[simp] theorem setThr_objs (s : State) (t th) : (setThr s t th).objs = s.objs := rfl
@[simp] theorem setThr_cells (s : State) (t th) : (setThr s t th).cells = s.cells := rfl
@[simp] theorem countOf_setThr (s : State) (t th o) : countOf (setThr s t th) o = countOf s o := rfl
@[simp] theorem aliveOf_setThr (s : State) (t th o) : aliveOf (setThr s t th) o = aliveOf s o := rfl
@[simp] theorem destroyedOf_setThr (s : State) (t th o) : destroyedOf (setThr s t th) o = destroyedOf s o := rfl
@[simp] theorem manualOf_setThr (s : State) (t th o) : manualOf (setThr s t th) o = manualOf s o := rfl
@[simp] theorem hrefs_setThr (s : State) (t th o) : hrefs (setThr s t th) o = hrefs s o := rfl
@[simp] theorem cell_setThr (s : State) (t th x) : cell (setThr s t th) x = cell s x := rfl
@[simp] theorem setThr_length (s : State) (t th) : (setThr s t th).thr.length = s.thr.length := by
  simp [setThr]

theorem getThr_of_lt {s : State} {t : Nat} (h : t < s.thr.length) : s.thr[t]? = some (getThr s t) := by
  simp [getThr, h]

theorem rrefs_setThr (s : State) (t : Nat) (th : Thread) (o : Nat) (h : t < s.thr.length) :
    rrefs (setThr s t th) o + trefs o (getThr s t) = rrefs s o + trefs o th := by
  simp only [rrefs, setThr]; exact sumBy_set _ _ _ _ _ (getThr_of_lt h)

theorem getThr_setThr (s : State) (t t' : Nat) (th : Thread) (h : t < s.thr.length) :
    getThr (setThr s t th) t' = if t = t' then th else getThr s t' := by
  simp only [getThr, setThr, List.getElem?_set]
  by_cases htt : t = t'
  · subst htt; simp [h]
  · simp [htt]

theorem rrefs_pushReg (s : State) (t : Nat) (r : Option Nat) (o : Nat) (h : t < s.thr.length) :
    rrefs (pushReg s t r) o = rrefs s o + rcnt o r := by
  have := rrefs_setThr s t { getThr s t with regs := r :: (getThr s t).regs } o h
  simp only [pushReg]
  simp only [trefs, sumBy] at this ⊢
  omega

theorem rrefs_popReg (s : State) (t : Nat) (o : Nat) (h : t < s.thr.length) :
    rrefs (popReg s t) o + rcnt o (topReg s t) = rrefs s o := by
  have := rrefs_setThr s t { getThr s t with regs := (getThr s t).regs.tail } o h
  simp only [popReg, topReg]
  simp only [trefs] at this ⊢
  cases hr : (getThr s t).regs with
  | nil => simp [hr, sumBy, rcnt] at this ⊢; omega
  | cons a l => simp [hr, sumBy] at this ⊢; omega

theorem rrefs_pushCont (s : State) (t : Nat) (ms : List MStep) (o : Nat) :
    rrefs (pushCont s t ms) o = rrefs s o := by
  by_cases h : t < s.thr.length
  · have := rrefs_setThr s t { getThr s t with cont := ms ++ (getThr s t).cont } o h
    simp only [pushCont]
    simp only [trefs] at this ⊢
    omega
  · simp only [pushCont, rrefs, setThr]
    rw [List.set_eq_of_length_le (by omega)]

@[simp] theorem pushReg_objs (s : State) (t r) : (pushReg s t r).objs = s.objs := rfl
@[simp] theorem pushReg_cells (s : State) (t r) : (pushReg s t r).cells = s.cells := rfl
@[simp] theorem popReg_objs (s : State) (t) : (popReg s t).objs = s.objs := rfl
@[simp] theorem popReg_cells (s : State) (t) : (popReg s t).cells = s.cells := rfl
@[simp] theorem pushCont_objs (s : State) (t ms) : (pushCont s t ms).objs = s.objs := rfl
@[simp] theorem pushCont_cells (s : State) (t ms) : (pushCont s t ms).cells = s.cells := rfl
@[simp] theorem pushReg_length (s : State) (t r) : (pushReg s t r).thr.length = s.thr.length := by simp [pushReg]
@[simp] theorem popReg_length (s : State) (t) : (popReg s t).thr.length = s.thr.length := by simp [popReg]
@[simp] theorem pushCont_length (s : State) (t ms) : (pushCont s t ms).thr.length = s.thr.length := by simp [pushCont]

@[simp] theorem manualOf_pushReg (s : State) (t r o) : manualOf (pushReg s t r) o = manualOf s o := rfl
@[simp] theorem manualOf_popReg (s : State) (t o) : manualOf (popReg s t) o = manualOf s o := rfl
@[simp] theorem manualOf_pushCont (s : State) (t ms o) : manualOf (pushCont s t ms) o = manualOf s o := rfl
@[simp] theorem hrefs_pushReg (s : State) (t r o) : hrefs (pushReg s t r) o = hrefs s o := rfl
@[simp] theorem hrefs_popReg (s : State) (t o) : hrefs (popReg s t) o = hrefs s o := rfl
@[simp] theorem hrefs_pushCont (s : State) (t ms o) : hrefs (pushCont s t ms) o = hrefs s o := rfl
@[simp] theorem cell_pushReg (s : State) (t r x) : cell (pushReg s t r) x = cell s x := rfl
@[simp] theorem cell_popReg (s : State) (t x) : cell (popReg s t) x = cell s x := rfl
@[simp] theorem cell_pushCont (s : State) (t ms x) : cell (pushCont s t ms) x = cell s x := rfl

@[simp] theorem countOf_pushReg (s : State) (t r o) : countOf (pushReg s t r) o = countOf s o := rfl
@[simp] theorem countOf_popReg (s : State) (t o) : countOf (popReg s t) o = countOf s o := rfl
@[simp] theorem countOf_pushCont (s : State) (t ms o) : countOf (pushCont s t ms) o = countOf s o := rfl
@[simp] theorem aliveOf_pushReg (s : State) (t r o) : aliveOf (pushReg s t r) o = aliveOf s o := rfl
@[simp] theorem aliveOf_popReg (s : State) (t o) : aliveOf (popReg s t) o = aliveOf s o := rfl
@[simp] theorem aliveOf_pushCont (s : State) (t ms o) : aliveOf (pushCont s t ms) o = aliveOf s o := rfl
@[simp] theorem destroyedOf_pushReg (s : State) (t r o) : destroyedOf (pushReg s t r) o = destroyedOf s o := rfl
@[simp] theorem destroyedOf_popReg (s : State) (t o) : destroyedOf (popReg s t) o = destroyedOf s o := rfl
@[simp] theorem destroyedOf_pushCont (s : State) (t ms o) : destroyedOf (pushCont s t ms) o = destroyedOf s o := rfl

/-! ## setObj -/

@[simp] theorem setObj_cells (s : State) (i ob) : (setObj s i ob).cells = s.cells := rfl
@[simp] theorem setObj_thr (s : State) (i ob) : (setObj s i ob).thr = s.thr := rfl
@[simp] theorem hrefs_setObj (s : State) (i ob o) : hrefs (setObj s i ob) o = hrefs s o := rfl
@[simp] theorem rrefs_setObj (s : State) (i ob o) : rrefs (setObj s i ob) o = rrefs s o := rfl
@[simp] theorem cell_setObj (s : State) (i ob x) : cell (setObj s i ob) x = cell s x := rfl
@[simp] theorem setObj_length (s : State) (i ob) : (setObj s i ob).objs.length = s.objs.length := by
  simp [setObj]

theorem objs_setObj (s : State) (i : Nat) (ob : Obj) (o : Nat) :
    (setObj s i ob).objs[o]? = if i = o ∧ i < s.objs.length then some ob else s.objs[o]? := by
  simp only [setObj, List.getElem?_set]
  by_cases hio : i = o
  · subst hio
    by_cases hl : i < s.objs.length
    · simp [hl]
    · simp [hl]
  · simp [hio]

theorem countOf_setObj (s : State) (i : Nat) (ob ob0 : Obj) (o : Nat) (h : s.objs[i]? = some ob0) :
    countOf (setObj s i ob) o = if i = o then ob.count else countOf s o := by
  have hl : i < s.objs.length := by
    rcases Nat.lt_or_ge i s.objs.length with h1 | h1
    · exact h1
    · simp [List.getElem?_eq_none h1] at h
  simp only [countOf, objs_setObj]
  by_cases hio : i = o
  · subst hio; simp [hl]
  · simp [hio]

theorem aliveOf_setObj (s : State) (i : Nat) (ob ob0 : Obj) (o : Nat) (h : s.objs[i]? = some ob0) :
    aliveOf (setObj s i ob) o = if i = o then ob.alive else aliveOf s o := by
  have hl : i < s.objs.length := by
    rcases Nat.lt_or_ge i s.objs.length with h1 | h1
    · exact h1
    · simp [List.getElem?_eq_none h1] at h
  simp only [aliveOf, objs_setObj]
  by_cases hio : i = o
  · subst hio; simp [hl]
  · simp [hio]

theorem destroyedOf_setObj (s : State) (i : Nat) (ob ob0 : Obj) (o : Nat) (h : s.objs[i]? = some ob0) :
    destroyedOf (setObj s i ob) o = if i = o then ob.destroyed else destroyedOf s o := by
  have hl : i < s.objs.length := by
    rcases Nat.lt_or_ge i s.objs.length with h1 | h1
    · exact h1
    · simp [List.getElem?_eq_none h1] at h
  simp only [destroyedOf, objs_setObj]
  by_cases hio : i = o
  · subst hio; simp [hl]
  · simp [hio]

theorem manualOf_setObj (s : State) (i : Nat) (ob ob0 : Obj) (o : Nat) (h : s.objs[i]? = some ob0) :
    manualOf (setObj s i ob) o = if i = o then ob.manual else manualOf s o := by
  have hl : i < s.objs.length := by
    rcases Nat.lt_or_ge i s.objs.length with h1 | h1
    · exact h1
    · simp [List.getElem?_eq_none h1] at h
  simp only [manualOf, objs_setObj]
  by_cases hio : i = o
  · subst hio; simp [hl]
  · simp [hio]

theorem countOf_of_get {s : State} {o : Nat} {ob : Obj} (h : s.objs[o]? = some ob) : countOf s o = ob.count := by
  simp [countOf, h]
theorem aliveOf_of_get {s : State} {o : Nat} {ob : Obj} (h : s.objs[o]? = some ob) : aliveOf s o = ob.alive := by
  simp [aliveOf, h]
theorem destroyedOf_of_get {s : State} {o : Nat} {ob : Obj} (h : s.objs[o]? = some ob) : destroyedOf s o = ob.destroyed := by
  simp [destroyedOf, h]
theorem manualOf_of_get {s : State} {o : Nat} {ob : Obj} (h : s.objs[o]? = some ob) : manualOf s o = ob.manual := by
  simp [manualOf, h]
theorem countOf_of_none {s : State} {o : Nat} (h : s.objs[o]? = none) : countOf s o = 0 := by
  simp [countOf, h]
theorem aliveOf_of_none {s : State} {o : Nat} (h : s.objs[o]? = none) : aliveOf s o = false := by
  simp [aliveOf, h]
theorem manualOf_of_none {s : State} {o : Nat} (h : s.objs[o]? = none) : manualOf s o = 0 := by
  simp [manualOf, h]
theorem destroyedOf_of_none {s : State} {o : Nat} (h : s.objs[o]? = none) : destroyedOf s o = 0 := by
  simp [destroyedOf, h]

/-! ## counter primitives -/

theorem lt_of_get {s : State} {o : Nat} {ob : Obj} (h : s.objs[o]? = some ob) : o < s.objs.length := by
  rcases Nat.lt_or_ge o s.objs.length with h1 | h1
  · exact h1
  · simp [List.getElem?_eq_none h1] at h

section incCount
variable (s : State) (k o : Nat)

@[simp] theorem incCount_cells : (incCount s k).cells = s.cells := by
  unfold incCount; split <;> rfl
@[simp] theorem incCount_thr : (incCount s k).thr = s.thr := by
  unfold incCount; split <;> rfl
@[simp] theorem incCount_length : (incCount s k).objs.length = s.objs.length := by
  unfold incCount; split <;> simp
@[simp] theorem hrefs_incCount : hrefs (incCount s k) o = hrefs s o := by simp [hrefs]
@[simp] theorem rrefs_incCount : rrefs (incCount s k) o = rrefs s o := by simp [rrefs]
@[simp] theorem cell_incCount (x : Nat) : cell (incCount s k) x = cell s x := by simp [cell]
@[simp] theorem getThr_incCount (t : Nat) : getThr (incCount s k) t = getThr s t := by simp [getThr]

theorem countOf_incCount :
    countOf (incCount s k) o = countOf s o + (if k = o ∧ o < s.objs.length then 1 else 0) := by
  unfold incCount
  cases hk : s.objs[k]? with
  | none =>
    have : ¬ k < s.objs.length := by intro h; simp [List.getElem?_eq_getElem h] at hk
    simp only []
    by_cases hko : k = o
    · subst hko; simp [this]
    · simp [hko]
  | some ob =>
    have hl := lt_of_get hk
    simp only [countOf_setObj s k _ ob o hk]
    by_cases hko : k = o
    · subst hko; simp [hl, countOf_of_get hk]
    · simp [hko]

@[simp] theorem aliveOf_incCount : aliveOf (incCount s k) o = aliveOf s o := by
  unfold incCount
  cases hk : s.objs[k]? with
  | none => rfl
  | some ob =>
    simp only [aliveOf_setObj s k _ ob o hk]
    by_cases hko : k = o
    · subst hko; simp [aliveOf_of_get hk]
    · simp [hko]

@[simp] theorem destroyedOf_incCount : destroyedOf (incCount s k) o = destroyedOf s o := by
  unfold incCount
  cases hk : s.objs[k]? with
  | none => rfl
  | some ob =>
    simp only [destroyedOf_setObj s k _ ob o hk]
    by_cases hko : k = o
    · subst hko; simp [destroyedOf_of_get hk]
    · simp [hko]

@[simp] theorem manualOf_incCount : manualOf (incCount s k) o = manualOf s o := by
  unfold incCount
  cases hk : s.objs[k]? with
  | none => rfl
  | some ob =>
    simp only [manualOf_setObj s k _ ob o hk]
    by_cases hko : k = o
    · subst hko; simp [manualOf_of_get hk]
    · simp [hko]
end incCount

section manual
variable (s : State) (k o : Nat)

@[simp] theorem addManual_cells : (addManual s k).cells = s.cells := by
  unfold addManual; split <;> rfl
@[simp] theorem addManual_thr : (addManual s k).thr = s.thr := by
  unfold addManual; split <;> rfl
@[simp] theorem addManual_length : (addManual s k).objs.length = s.objs.length := by
  unfold addManual; split <;> simp
@[simp] theorem hrefs_addManual : hrefs (addManual s k) o = hrefs s o := by simp [hrefs]
@[simp] theorem rrefs_addManual : rrefs (addManual s k) o = rrefs s o := by simp [rrefs]
@[simp] theorem subManual_cells : (subManual s k).cells = s.cells := by
  unfold subManual; split <;> rfl
@[simp] theorem subManual_thr : (subManual s k).thr = s.thr := by
  unfold subManual; split <;> rfl
@[simp] theorem subManual_length : (subManual s k).objs.length = s.objs.length := by
  unfold subManual; split <;> simp
@[simp] theorem hrefs_subManual : hrefs (subManual s k) o = hrefs s o := by simp [hrefs]
@[simp] theorem rrefs_subManual : rrefs (subManual s k) o = rrefs s o := by simp [rrefs]

theorem manualOf_addManual :
    manualOf (addManual s k) o = manualOf s o + (if k = o ∧ o < s.objs.length then 1 else 0) := by
  unfold addManual
  cases hk : s.objs[k]? with
  | none =>
    have : ¬ k < s.objs.length := by intro h; simp [List.getElem?_eq_getElem h] at hk
    simp only []
    by_cases hko : k = o
    · subst hko; simp [this]
    · simp [hko]
  | some ob =>
    have hl := lt_of_get hk
    simp only [manualOf_setObj s k _ ob o hk]
    by_cases hko : k = o
    · subst hko; simp [hl, manualOf_of_get hk]
    · simp [hko]

theorem manualOf_subManual :
    manualOf (subManual s k) o = manualOf s o - (if k = o then 1 else 0) := by
  unfold subManual
  cases hk : s.objs[k]? with
  | none =>
    simp only []
    by_cases hko : k = o
    · subst hko; simp [manualOf_of_none hk]
    · simp [hko]
  | some ob =>
    simp only [manualOf_setObj s k _ ob o hk]
    by_cases hko : k = o
    · subst hko; simp [manualOf_of_get hk]
    · simp [hko]

@[simp] theorem countOf_addManual : countOf (addManual s k) o = countOf s o := by
  unfold addManual
  cases hk : s.objs[k]? with
  | none => rfl
  | some ob =>
    simp only [countOf_setObj s k _ ob o hk]
    by_cases hko : k = o
    · subst hko; simp [countOf_of_get hk]
    · simp [hko]
@[simp] theorem aliveOf_addManual : aliveOf (addManual s k) o = aliveOf s o := by
  unfold addManual
  cases hk : s.objs[k]? with
  | none => rfl
  | some ob =>
    simp only [aliveOf_setObj s k _ ob o hk]
    by_cases hko : k = o
    · subst hko; simp [aliveOf_of_get hk]
    · simp [hko]
@[simp] theorem destroyedOf_addManual : destroyedOf (addManual s k) o = destroyedOf s o := by
  unfold addManual
  cases hk : s.objs[k]? with
  | none => rfl
  | some ob =>
    simp only [destroyedOf_setObj s k _ ob o hk]
    by_cases hko : k = o
    · subst hko; simp [destroyedOf_of_get hk]
    · simp [hko]
@[simp] theorem countOf_subManual : countOf (subManual s k) o = countOf s o := by
  unfold subManual
  cases hk : s.objs[k]? with
  | none => rfl
  | some ob =>
    simp only [countOf_setObj s k _ ob o hk]
    by_cases hko : k = o
    · subst hko; simp [countOf_of_get hk]
    · simp [hko]
@[simp] theorem aliveOf_subManual : aliveOf (subManual s k) o = aliveOf s o := by
  unfold subManual
  cases hk : s.objs[k]? with
  | none => rfl
  | some ob =>
    simp only [aliveOf_setObj s k _ ob o hk]
    by_cases hko : k = o
    · subst hko; simp [aliveOf_of_get hk]
    · simp [hko]
@[simp] theorem destroyedOf_subManual : destroyedOf (subManual s k) o = destroyedOf s o := by
  unfold subManual
  cases hk : s.objs[k]? with
  | none => rfl
  | some ob =>
    simp only [destroyedOf_setObj s k _ ob o hk]
    by_cases hko : k = o
    · subst hko; simp [destroyedOf_of_get hk]
    · simp [hko]
end manual

section release
variable (s : State) (t k o : Nat)

@[simp] theorem release_cells : (release s t k).cells = s.cells := by
  unfold release; split
  · rfl
  · split <;> rfl
@[simp] theorem release_length : (release s t k).objs.length = s.objs.length := by
  unfold release; split
  · rfl
  · split <;> simp
@[simp] theorem release_thr_length : (release s t k).thr.length = s.thr.length := by
  unfold release; split
  · rfl
  · split <;> simp
@[simp] theorem hrefs_release : hrefs (release s t k) o = hrefs s o := by simp [hrefs]
@[simp] theorem cell_release (x : Nat) : cell (release s t k) x = cell s x := by simp [cell]

@[simp] theorem rrefs_release : rrefs (release s t k) o = rrefs s o := by
  unfold release; split
  · rfl
  · split
    · rw [rrefs_pushCont]; rfl
    · rfl

theorem countOf_release :
    countOf (release s t k) o = countOf s o - (if k = o ∧ o < s.objs.length then 1 else 0) := by
  unfold release
  cases hk : s.objs[k]? with
  | none =>
    have : ¬ k < s.objs.length := by intro h; simp [List.getElem?_eq_getElem h] at hk
    simp only []
    by_cases hko : k = o
    · subst hko; simp [this]
    · simp [hko]
  | some ob =>
    have hl := lt_of_get hk
    simp only []
    split
    · show countOf (setObj s k _) o = _
      rw [countOf_setObj s k _ ob o hk]
      by_cases hko : k = o
      · subst hko; simp [hl, countOf_of_get hk]
      · simp [hko]
    · rw [countOf_setObj s k _ ob o hk]
      by_cases hko : k = o
      · subst hko; simp [hl, countOf_of_get hk]
      · simp [hko]

theorem aliveOf_release :
    aliveOf (release s t k) o = if k = o ∧ o < s.objs.length ∧ countOf s o = 1 then false else aliveOf s o := by
  unfold release
  cases hk : s.objs[k]? with
  | none =>
    have : ¬ k < s.objs.length := by intro h; simp [List.getElem?_eq_getElem h] at hk
    simp only []
    by_cases hko : k = o
    · subst hko; simp [this]
    · simp [hko]
  | some ob =>
    have hl := lt_of_get hk
    simp only []
    split
    · rename_i hz
      show aliveOf (setObj s k _) o = _
      rw [aliveOf_setObj s k _ ob o hk]
      by_cases hko : k = o
      · subst hko
        have : ob.count = 1 := by omega
        simp [hl, countOf_of_get hk, this]
      · simp [hko]
    · rename_i hz
      rw [aliveOf_setObj s k _ ob o hk]
      by_cases hko : k = o
      · subst hko
        have : ¬ ob.count = 1 := by omega
        simp [countOf_of_get hk, this, aliveOf_of_get hk]
      · simp [hko]

theorem destroyedOf_release :
    destroyedOf (release s t k) o =
      destroyedOf s o + (if k = o ∧ o < s.objs.length ∧ countOf s o = 1 then 1 else 0) := by
  unfold release
  cases hk : s.objs[k]? with
  | none =>
    have : ¬ k < s.objs.length := by intro h; simp [List.getElem?_eq_getElem h] at hk
    simp only []
    by_cases hko : k = o
    · subst hko; simp [this]
    · simp [hko]
  | some ob =>
    have hl := lt_of_get hk
    simp only []
    split
    · rename_i hz
      show destroyedOf (setObj s k _) o = _
      rw [destroyedOf_setObj s k _ ob o hk]
      by_cases hko : k = o
      · subst hko
        have : ob.count = 1 := by omega
        simp [hl, countOf_of_get hk, this, destroyedOf_of_get hk]
      · simp [hko]
    · rename_i hz
      rw [destroyedOf_setObj s k _ ob o hk]
      by_cases hko : k = o
      · subst hko
        have : ¬ ob.count = 1 := by omega
        simp [countOf_of_get hk, this, destroyedOf_of_get hk]
      · simp [hko]

@[simp] theorem manualOf_release : manualOf (release s t k) o = manualOf s o := by
  unfold release
  cases hk : s.objs[k]? with
  | none => rfl
  | some ob =>
    simp only []
    split
    · show manualOf (setObj s k _) o = _
      rw [manualOf_setObj s k _ ob o hk]
      by_cases hko : k = o
      · subst hko; simp [manualOf_of_get hk]
      · simp [hko]
    · rw [manualOf_setObj s k _ ob o hk]
      by_cases hko : k = o
      · subst hko; simp [manualOf_of_get hk]
      · simp [hko]
end release

/-! ## The per-object invariant -/

structure ObjOK (s : State) (o : Nat) : Prop where
  cnt : countOf s o = (refsTo s o : Int)
  alive_iff : aliveOf s o = true ↔ 0 < countOf s o
  alive_nd : aliveOf s o = true → destroyedOf s o = 0
  dead_d : o < s.objs.length → aliveOf s o = false → destroyedOf s o = 1

def Inv (s : State) : Prop := ∀ o, ObjOK s o

theorem lt_of_countOf_pos {s : State} {o : Nat} (h : 0 < countOf s o) : o < s.objs.length := by
  rcases Nat.lt_or_ge o s.objs.length with h1 | h1
  · exact h1
  · simp [countOf, List.getElem?_eq_none h1] at h

theorem Inv.lt_of_refs {s : State} (hI : Inv s) {v : Nat} (hv : 0 < refsTo s v) : v < s.objs.length := by
  apply lt_of_countOf_pos; rw [(hI v).cnt]; omega

theorem Inv.alive_of_refs {s : State} (hI : Inv s) {v : Nat} (hv : 0 < refsTo s v) : aliveOf s v = true := by
  rw [(hI v).alive_iff, (hI v).cnt]; omega

theorem objOK_same' {s s' : State} {o : Nat} (h : ObjOK s o)
    (hc : countOf s' o = countOf s o) (hr : refsTo s' o = refsTo s o)
    (ha : aliveOf s' o = aliveOf s o) (hd : destroyedOf s' o = destroyedOf s o)
    (hl : o < s'.objs.length → o < s.objs.length) : ObjOK s' o := by
  constructor
  · rw [hc, hr]; exact h.cnt
  · rw [ha, hc]; exact h.alive_iff
  · rw [ha, hd]; exact h.alive_nd
  · rw [ha, hd]; exact fun h1 => h.dead_d (hl h1)

theorem objOK_same {s s' : State} {o : Nat} (h : ObjOK s o)
    (hc : countOf s' o = countOf s o) (hr : refsTo s' o = refsTo s o)
    (ha : aliveOf s' o = aliveOf s o) (hd : destroyedOf s' o = destroyedOf s o)
    (hl : s'.objs.length = s.objs.length) : ObjOK s' o :=
  objOK_same' h hc hr ha hd (by rw [hl]; exact id)

theorem objOK_inc {s s' : State} {o v : Nat} (hI : Inv s) (hv : 0 < refsTo s v)
    (hc : countOf s' o = countOf s o + (if v = o ∧ o < s.objs.length then 1 else 0))
    (hr : refsTo s' o = refsTo s o + (if v = o then 1 else 0))
    (ha : aliveOf s' o = aliveOf s o) (hd : destroyedOf s' o = destroyedOf s o)
    (hl : s'.objs.length = s.objs.length) : ObjOK s' o := by
  have h := hI o
  have hvl := hI.lt_of_refs hv
  by_cases hvo : v = o
  · subst hvo
    have h1 := h.cnt; have h2 := h.alive_iff; have h3 := h.alive_nd; have h4 := h.dead_d
    simp only [hvl, and_self, if_true] at hc hr
    constructor
    · rw [hc, hr]; omega
    · rw [ha, hc]; constructor
      · intro _; omega
      · intro _; apply h2.mpr; omega
    · rw [ha, hd]; exact h3
    · rw [ha, hd, hl]; exact h4
  · simp only [hvo, false_and, if_false] at hc hr
    exact objOK_same h (by omega) (by omega) ha hd hl

theorem objOK_dec {s s' : State} {o v : Nat} (hI : Inv s) (hv : 0 < refsTo s v)
    (hc : countOf s' o = countOf s o - (if v = o ∧ o < s.objs.length then 1 else 0))
    (hr : refsTo s' o + (if v = o then 1 else 0) = refsTo s o)
    (ha : aliveOf s' o = if v = o ∧ o < s.objs.length ∧ countOf s o = 1 then false else aliveOf s o)
    (hd : destroyedOf s' o = destroyedOf s o + (if v = o ∧ o < s.objs.length ∧ countOf s o = 1 then 1 else 0))
    (hl : s'.objs.length = s.objs.length) : ObjOK s' o := by
  have h := hI o
  have hvl := hI.lt_of_refs hv
  by_cases hvo : v = o
  · subst hvo
    have h1 := h.cnt; have h2 := h.alive_iff; have h3 := h.alive_nd; have h4 := h.dead_d
    have hal := hI.alive_of_refs hv
    simp only [hvl, true_and, if_true] at hc hr ha hd
    by_cases hone : countOf s v = 1
    · simp only [hone, if_true] at ha hd
      constructor
      · rw [hc]; omega
      · rw [ha, hc]; simp; omega
      · rw [ha]; simp
      · rw [hd, h3 hal]; intros; rfl
    · simp only [hone, if_false] at ha hd
      constructor
      · rw [hc]; omega
      · rw [ha, hc]; constructor
        · intro _; omega
        · intro _; exact hal
      · rw [ha, hd]; simpa using h3
      · rw [ha, hal]; simp
  · simp only [hvo, false_and, if_false] at hc hr ha hd
    exact objOK_same h (by omega) (by omega) ha (by omega) hl

/-! ## Every atomic step re-establishes the invariant (`exec_good`) -/

theorem usable_cell {s : State} {x : Nat} (h : usable s x = true) :
    ∃ hx, cell s x = some hx ∧ hx.isStale = false := by
  unfold usable at h
  cases hc : cell s x with
  | none => simp [hc] at h
  | some hx => simp [hc] at h; exact ⟨hx, rfl, h⟩

theorem hrefs_pos_of_cell {s : State} {x v : Nat} (h : cell s x = some (.own v)) : 0 < hrefs s v := by
  have := cells_get_of_cell h
  exact sumBy_pos_of_mem _ _ _ (List.mem_of_getElem? this) (by simp [ccnt])

theorem refsTo_pos_of_cell {s : State} {x v : Nat} (h : cell s x = some (.own v)) : 0 < refsTo s v := by
  have := hrefs_pos_of_cell h; rw [refsTo_eq]; omega

/-- `s1` has the same counters / liveness / destructor log as `s` -/
structure SameObs (s1 s : State) : Prop where
  c : ∀ o, countOf s1 o = countOf s o
  a : ∀ o, aliveOf s1 o = aliveOf s o
  d : ∀ o, destroyedOf s1 o = destroyedOf s o
  l : s1.objs.length = s.objs.length

theorem SameObs.of_objs {s1 s : State} (h : s1.objs = s.objs) : SameObs s1 s :=
  ⟨fun o => by simp [countOf, h], fun o => by simp [aliveOf, h], fun o => by simp [destroyedOf, h], by rw [h]⟩

/-- What one step may do to the counter of `o`: it changes it only if `o` was alive before the
    step; objects are never removed; a newly created object starts with a positive counter. -/
structure Rel (s s' : State) (o : Nat) : Prop where
  touch_alive : countOf s' o ≠ countOf s o → o < s.objs.length → 0 < countOf s o
  len : s.objs.length ≤ s'.objs.length
  fresh : s.objs.length ≤ o → o < s'.objs.length → 0 < countOf s' o

/-- the step `s → s'` re-establishes the invariant and respects `Rel` -/
def Good (s s' : State) : Prop := Inv s' ∧ ∀ o, Rel s s' o

theorem Good.refl {s : State} (hI : Inv s) : Good s s :=
  ⟨hI, fun _ => ⟨fun h => absurd rfl h, Nat.le_refl _, fun h1 h2 => by omega⟩⟩

theorem rel_of_same_len {s s' : State} {o : Nat} (hl : s'.objs.length = s.objs.length)
    (h : countOf s' o ≠ countOf s o → 0 < countOf s o) : Rel s s' o :=
  ⟨fun h1 _ => h h1, by omega, fun h1 h2 => by omega⟩

theorem inv_same {s s1 : State} (hI : Inv s) (ho : SameObs s1 s) (hr : ∀ o, refsTo s1 o = refsTo s o) : Good s s1 :=
  ⟨fun o => objOK_same (hI o) (ho.c o) (hr o) (ho.a o) (ho.d o) ho.l,
   fun o => rel_of_same_len ho.l (fun h => absurd (ho.c o) h)⟩

theorem inv_inc {s s1 : State} {v : Nat} (hI : Inv s) (hv : 0 < refsTo s v) (ho : SameObs s1 s)
    (hr : ∀ o, refsTo s1 o = refsTo s o + (if v = o then 1 else 0)) : Good s (incCount s1 v) := by
  refine ⟨?_, fun o => rel_of_same_len (by simp [ho.l]) (fun h => ?_)⟩
  rotate_left
  · rw [countOf_incCount, ho.c] at h
    by_cases hvo : v = o
    · subst hvo; rw [(hI v).cnt]; omega
    · simp [hvo] at h
  intro o
  apply objOK_inc hI hv
  · rw [countOf_incCount, ho.c, ho.l]
  · simp only [refsTo_eq, hrefs_incCount, rrefs_incCount, manualOf_incCount]; rw [← refsTo_eq]; exact hr o
  · simp [ho.a]
  · simp [ho.d]
  · simp [ho.l]

theorem inv_release {s s1 : State} {t v : Nat} (hI : Inv s) (hv : 0 < refsTo s v) (ho : SameObs s1 s)
    (hr : ∀ o, refsTo s1 o + (if v = o then 1 else 0) = refsTo s o) : Good s (release s1 t v) := by
  refine ⟨?_, fun o => rel_of_same_len (by simp [ho.l]) (fun h => ?_)⟩
  rotate_left
  · rw [countOf_release, ho.c] at h
    by_cases hvo : v = o
    · subst hvo; rw [(hI v).cnt]; omega
    · simp [hvo] at h
  intro o
  apply objOK_dec hI hv
  · rw [countOf_release, ho.c, ho.l]
  · simp only [refsTo_eq, hrefs_release, rrefs_release, manualOf_release]; rw [← refsTo_eq]; exact hr o
  · rw [aliveOf_release, ho.c, ho.l, ho.a]
  · rw [destroyedOf_release, ho.c, ho.l, ho.d]
  · simp [ho.l]

theorem inv_releaseH {s s1 : State} {t : Nat} {hx : H} {x : Nat} (hI : Inv s) (hcx : cell s x = some hx)
    (ho : SameObs s1 s)
    (hr : ∀ o, refsTo s1 o + ccnt o (some hx) = refsTo s o) : Good s (releaseH s1 t hx) := by
  cases hx with
  | null => exact inv_same hI ho (fun o => by have := hr o; simp [ccnt] at this; exact this)
  | stale v => exact inv_same hI ho (fun o => by have := hr o; simp [ccnt] at this; exact this)
  | own v =>
    exact inv_release hI (refsTo_pos_of_cell hcx) ho (fun o => by have := hr o; simpa [ccnt] using this)

theorem ccnt_ofPtr (o : Nat) (r : Option Nat) : ccnt o (some (H.ofPtr r)) = rcnt o r := by
  cases r <;> simp [H.ofPtr, ccnt, rcnt]


theorem exec_good (s : State) (t : Nat) (ms : MStep) (hI : Inv s) (ht : t < s.thr.length)
    (hg : guard s t ms = true) : Good s (exec s t ms) := by
  cases ms with
  | alloc a =>
    simp only [exec]
    refine ⟨?_, fun o => ⟨fun hne hlt => ?_, by simp, fun h1 h2 => ?_⟩⟩
    rotate_left
    · exfalso; apply hne
      simp [countOf, List.getElem?_append_left hlt]
    · have : o = s.objs.length := by simp at h2; omega
      subst this; simp [countOf]
    intro o
    have hn : refsTo s s.objs.length = 0 := by
      have := (hI s.objs.length).cnt
      simp [countOf] at this; omega
    by_cases ho : o = s.objs.length
    · subst ho
      have h0 := sumBy_append (ccnt s.objs.length) s.cells [some H.null]
      constructor <;> simp_all [countOf, aliveOf, destroyedOf, refsTo, manualOf, sumBy, ccnt]
    · have hget : (s.objs ++ [({ count := 1, alive := true, destroyed := 0, manual := 1, addr := a, mcell := s.cells.length } : Obj)])[o]? = s.objs[o]? := by
        rw [List.getElem?_append]
        split
        · rfl
        · rename_i h
          have : s.objs.length < o := by omega
          simp [List.getElem?_eq_none (Nat.le_of_lt this)]
          omega
      have h0 := sumBy_append (ccnt o) s.cells [some H.null]
      have h := hI o
      refine objOK_same' h ?_ ?_ ?_ ?_ ?_
      · simp [countOf, hget]
      · simp [refsTo, manualOf, hget, h0, sumBy, ccnt]
      · simp [aliveOf, hget]
      · simp [destroyedOf, hget]
      · simp; omega
  | ctorNull x =>
    simp only [guard, decide_eq_true_eq] at hg
    simp only [exec]
    refine inv_same hI (SameObs.of_objs rfl) (fun o => ?_)
    have := hrefs_setCell s x (some .null) none o hg
    simp [refsTo_eq, ccnt] at this ⊢; omega
  | copyInit x y =>
    simp only [guard, Bool.and_eq_true, decide_eq_true_eq] at hg
    obtain ⟨hx, hy⟩ := hg
    obtain ⟨h, hcy, hst⟩ := usable_cell hy
    simp only [exec, hcy]
    cases h with
    | null =>
      simp only [H.copy, H.ptr, H.ofPtr, incOpt]
      refine inv_same hI (SameObs.of_objs rfl) (fun o => ?_)
      have := hrefs_setCell s x (some .null) none o hx
      simp [refsTo_eq, ccnt] at this ⊢; omega
    | stale v => simp [H.isStale] at hst
    | own v =>
      simp only [H.copy, H.ptr, H.ofPtr, incOpt]
      refine inv_inc hI (refsTo_pos_of_cell hcy) (SameObs.of_objs rfl) (fun o => ?_)
      have := hrefs_setCell s x (some (.own v)) none o hx
      simp [refsTo_eq, ccnt] at this ⊢; omega
  | moveInit x y =>
    simp only [guard, Bool.and_eq_true, decide_eq_true_eq] at hg
    obtain ⟨hx, hy⟩ := hg
    obtain ⟨h, hcy, hst⟩ := usable_cell hy
    simp only [exec, hcy]
    refine inv_same hI (SameObs.of_objs rfl) (fun o => ?_)
    have hxy : x ≠ y := by
      intro e; subst e; have := cells_get_of_cell hcy; rw [hx] at this; simp at this
    have h1 := hrefs_setCell s x (some h) none o hx
    have hy2 : (setCell s x (some h)).cells[y]? = some (some h) := by
      have := cells_get_of_cell hcy
      simp [setCell, hxy, this]
    have h2 := hrefs_setCell (setCell s x (some h)) y (some .null) (some h) o hy2
    simp [refsTo_eq, ccnt] at h1 h2 ⊢; omega
  | rawInit x k =>
    simp only [guard, Bool.and_eq_true, decide_eq_true_eq] at hg
    obtain ⟨hx, hk⟩ := hg
    simp only [exec]
    refine inv_inc hI hk (SameObs.of_objs rfl) (fun o => ?_)
    have := hrefs_setCell s x (some (.own k)) none o hx
    simp [refsTo_eq, ccnt] at this ⊢; omega
  | dtorH x =>
    simp only [guard] at hg
    obtain ⟨h, hcx, hst⟩ := usable_cell hg
    simp only [exec, hcx]
    refine inv_releaseH hI hcx (SameObs.of_objs rfl) (fun o => ?_)
    have := hrefs_setCell s x none (some h) o (cells_get_of_cell hcx)
    simp [refsTo_eq, ccnt] at this ⊢; omega
  | incFrom y =>
    simp only [guard] at hg
    obtain ⟨h, hcy, hst⟩ := usable_cell hg
    simp only [exec, hcy]
    cases h with
    | null =>
      simp only [H.ptr, incOpt]
      refine inv_same hI (SameObs.of_objs rfl) (fun o => ?_)
      have := rrefs_pushReg s t none o ht
      simp [refsTo_eq, rcnt] at this ⊢; omega
    | stale v => simp [H.isStale] at hst
    | own v =>
      simp only [H.ptr, incOpt]
      refine inv_inc hI (refsTo_pos_of_cell hcy) (SameObs.of_objs rfl) (fun o => ?_)
      have := rrefs_pushReg s t (some v) o ht
      simp [refsTo_eq, rcnt] at this ⊢; omega
  | swapDec x =>
    simp only [guard] at hg
    obtain ⟨h, hcx, hst⟩ := usable_cell hg
    simp only [exec, hcx]
    refine inv_releaseH hI hcx (SameObs.of_objs rfl) (fun o => ?_)
    have h1 := rrefs_popReg s t o ht
    have h2 := hrefs_setCell (popReg s t) x (some (H.ofPtr (topReg s t))) (some h) o
      (by simpa using cells_get_of_cell hcx)
    rw [ccnt_ofPtr] at h2
    simp [refsTo_eq] at h1 h2 ⊢; omega
  | moveDec x y =>
    simp only [guard, Bool.and_eq_true] at hg
    obtain ⟨hgx, hgy⟩ := hg
    obtain ⟨hy, hcy, hsty⟩ := usable_cell hgy
    obtain ⟨hx, hcx, hstx⟩ := usable_cell hgx
    have hyl := cells_get_of_cell hcy
    have hxl := cells_get_of_cell hcx
    have hylt : y < s.cells.length := by
      rcases Nat.lt_or_ge y s.cells.length with h1 | h1
      · exact h1
      · simp [List.getElem?_eq_none h1] at hyl
    simp only [exec, hcy]
    by_cases hxy : y = x
    · subst hxy
      have hc1 : cell (setCell s y (some H.null)) y = some H.null := by simp [cell_setCell, hylt]
      simp only [hc1, releaseH]
      refine inv_same hI (SameObs.of_objs rfl) (fun o => ?_)
      have h1 := hrefs_setCell s y (some H.null) (some hy) o hyl
      have h2 := hrefs_setCell (setCell s y (some H.null)) y (some hy) (some H.null) o
        (by simp [setCell, hylt])
      simp [refsTo_eq, ccnt] at h1 h2 ⊢; omega
    · have hc1 : cell (setCell s y (some H.null)) x = some hx := by simp [cell_setCell, hxy, hcx]
      simp only [hc1]
      refine inv_releaseH hI hcx (SameObs.of_objs rfl) (fun o => ?_)
      have h1 := hrefs_setCell s y (some H.null) (some hy) o hyl
      have h2 := hrefs_setCell (setCell s y (some H.null)) x (some hy) (some hx) o
        (by simp [setCell, hxy, hxl])
      simp [refsTo_eq, ccnt] at h1 h2 ⊢; omega
  | incRaw k =>
    simp only [exec]
    cases k with
    | none =>
      simp only [incOpt]
      refine inv_same hI (SameObs.of_objs rfl) (fun o => ?_)
      have := rrefs_pushReg s t none o ht
      simp [refsTo_eq, rcnt] at this ⊢; omega
    | some v =>
      simp only [guard, decide_eq_true_eq] at hg
      simp only [incOpt]
      refine inv_inc hI hg (SameObs.of_objs rfl) (fun o => ?_)
      have := rrefs_pushReg s t (some v) o ht
      simp [refsTo_eq, rcnt] at this ⊢; omega
  | decH x =>
    simp only [guard] at hg
    obtain ⟨h, hcx, hst⟩ := usable_cell hg
    simp only [exec, hcx]
    cases h with
    | null => exact Good.refl hI
    | stale v => exact Good.refl hI
    | own v =>
      simp only []
      refine inv_release hI (refsTo_pos_of_cell hcx) (SameObs.of_objs rfl) (fun o => ?_)
      have := hrefs_setCell s x (some (.stale v)) (some (.own v)) o (cells_get_of_cell hcx)
      simp [refsTo_eq, ccnt] at this ⊢; omega
  | storeTop x =>
    simp only [guard] at hg
    simp only [exec]
    cases hcx : cell s x with
    | none => simp [hcx] at hg
    | some h =>
      simp only [hcx, Bool.not_eq_true'] at hg
      refine inv_same hI (SameObs.of_objs rfl) (fun o => ?_)
      have h1 := rrefs_popReg s t o ht
      have h2 := hrefs_setCell (popReg s t) x (some (H.ofPtr (topReg s t))) (some h) o
        (by simpa using cells_get_of_cell hcx)
      rw [ccnt_ofPtr] at h2
      have h3 : ccnt o (some h) = 0 := by cases h <;> simp_all [ccnt, H.isOwn]
      simp [refsTo_eq] at h1 h2 ⊢; omega
  | incM k =>
    simp only [guard, decide_eq_true_eq] at hg
    simp only [exec]
    have hkl := hI.lt_of_refs hg
    refine ⟨?_, fun o => rel_of_same_len (by simp) (fun h => ?_)⟩
    rotate_left
    · rw [countOf_addManual, countOf_incCount] at h
      by_cases hvo : k = o
      · subst hvo; rw [(hI k).cnt]; omega
      · simp [hvo] at h
    intro o
    apply objOK_inc hI hg
    · rw [countOf_addManual, countOf_incCount]
    · simp only [refsTo_eq, hrefs_addManual, rrefs_addManual, hrefs_incCount, rrefs_incCount,
        manualOf_addManual, manualOf_incCount, incCount_length]
      by_cases hko : k = o
      · subst hko; simp [hkl]; omega
      · simp [hko]
    · simp
    · simp
    · simp
  | decM k =>
    simp only [guard, decide_eq_true_eq] at hg
    simp only [exec]
    have hk : 0 < refsTo s k := by rw [refsTo_eq]; omega
    refine inv_release hI hk ⟨by simp, by simp, by simp, by simp⟩ (fun o => ?_)
    simp only [refsTo_eq, hrefs_subManual, rrefs_subManual, manualOf_subManual]
    by_cases hko : k = o
    · subst hko; simp; omega
    · simp [hko]
  | dtorMem o' =>
    simp only [exec]
    cases hob : s.objs[o']? with
    | none => exact Good.refl hI
    | some ob =>
      simp only []
      cases hcx : cell s ob.mcell with
      | none => exact Good.refl hI
      | some h =>
        simp only []
        refine inv_releaseH hI hcx (SameObs.of_objs rfl) (fun o => ?_)
        have := hrefs_setCell s ob.mcell none (some h) o (cells_get_of_cell hcx)
        simp [refsTo_eq, ccnt] at this ⊢; omega

/-! ## Addresses -/

def addrO (s : State) (o : Nat) : Nat := (s.objs[o]?.map (·.addr)).getD 0

theorem addrO_setObj (s : State) (i : Nat) (ob ob0 : Obj) (o : Nat) (h : s.objs[i]? = some ob0)
    (ha : ob.addr = ob0.addr) : addrO (setObj s i ob) o = addrO s o := by
  have hl := lt_of_get h
  simp only [addrO, objs_setObj]
  by_cases hio : i = o
  · subst hio
    have : s.objs[i] = ob0 := by simpa [List.getElem?_eq_getElem hl] using h
    simp [hl, ha, this]
  · simp [hio]

@[simp] theorem addrO_setCell (s : State) (x h o) : addrO (setCell s x h) o = addrO s o := rfl
@[simp] theorem addrO_setThr (s : State) (t th o) : addrO (setThr s t th) o = addrO s o := rfl
@[simp] theorem addrO_pushReg (s : State) (t r o) : addrO (pushReg s t r) o = addrO s o := rfl
@[simp] theorem addrO_popReg (s : State) (t o) : addrO (popReg s t) o = addrO s o := rfl
@[simp] theorem addrO_pushCont (s : State) (t ms o) : addrO (pushCont s t ms) o = addrO s o := rfl

@[simp] theorem addrO_incCount (s : State) (k o : Nat) : addrO (incCount s k) o = addrO s o := by
  unfold incCount
  cases hk : s.objs[k]? with
  | none => rfl
  | some ob => exact addrO_setObj s k _ ob o hk rfl
@[simp] theorem addrO_addManual (s : State) (k o : Nat) : addrO (addManual s k) o = addrO s o := by
  unfold addManual
  cases hk : s.objs[k]? with
  | none => rfl
  | some ob => exact addrO_setObj s k _ ob o hk rfl
@[simp] theorem addrO_subManual (s : State) (k o : Nat) : addrO (subManual s k) o = addrO s o := by
  unfold subManual
  cases hk : s.objs[k]? with
  | none => rfl
  | some ob => exact addrO_setObj s k _ ob o hk rfl
@[simp] theorem addrO_release (s : State) (t k o : Nat) : addrO (release s t k) o = addrO s o := by
  unfold release
  cases hk : s.objs[k]? with
  | none => rfl
  | some ob =>
    simp only []
    split
    · show addrO (setObj s k _) o = _
      exact addrO_setObj s k _ ob o hk rfl
    · exact addrO_setObj s k _ ob o hk rfl
@[simp] theorem addrO_releaseH (s : State) (t : Nat) (h : H) (o : Nat) : addrO (releaseH s t h) o = addrO s o := by
  cases h <;> simp [releaseH]
@[simp] theorem addrO_incOpt (s : State) (k : Option Nat) (o : Nat) : addrO (incOpt s k) o = addrO s o := by
  cases k <;> simp [incOpt]

theorem addrO_exec (s : State) (t : Nat) (ms : MStep) (o : Nat) (ho : o < s.objs.length) :
    addrO (exec s t ms) o = addrO s o := by
  cases ms <;> simp only [exec] <;> (repeat' split) <;> (try simp) <;> (try rfl)
  · simp [addrO, List.getElem?_append_left ho]

/-! ## Shape of the per-thread continuation and locals stack -/

def pops : MStep → Nat
  | .swapDec _ => 1
  | .storeTop _ => 1
  | _ => 0

def pushes : MStep → Nat
  | .incFrom _ => 1
  | .incRaw _ => 1
  | _ => 0

/-- the locals stack has exactly the depth the remaining steps expect and ends empty -/
def depthOK : Nat → List MStep → Prop
  | d, [] => d = 0
  | d, ms :: k => pops ms ≤ d ∧ depthOK (d - pops ms + pushes ms) k

def ThrOK (th : Thread) : Prop := depthOK th.regs.length th.cont

def dying (s : State) (v : Nat) : Bool :=
  match s.objs[v]? with
  | some ob => ob.count - 1 == 0
  | none => false

theorem getThr_congr {s1 s : State} (h : s1.thr = s.thr) (t : Nat) : getThr s1 t = getThr s t := by
  simp [getThr, h]

@[simp] theorem getThr_setObj (s : State) (i ob t) : getThr (setObj s i ob) t = getThr s t := rfl
@[simp] theorem getThr_addManual (s : State) (k t) : getThr (addManual s k) t = getThr s t :=
  getThr_congr (by simp) t
@[simp] theorem getThr_subManual (s : State) (k t) : getThr (subManual s k) t = getThr s t :=
  getThr_congr (by simp) t

theorem getThr_pushReg (s : State) (t t' : Nat) (r : Option Nat) (h : t < s.thr.length) :
    getThr (pushReg s t r) t' =
      if t = t' then { getThr s t with regs := r :: (getThr s t).regs } else getThr s t' := by
  simp only [pushReg]; exact getThr_setThr s t t' _ h

theorem getThr_popReg (s : State) (t t' : Nat) (h : t < s.thr.length) :
    getThr (popReg s t) t' =
      if t = t' then { getThr s t with regs := (getThr s t).regs.tail } else getThr s t' := by
  simp only [popReg]; exact getThr_setThr s t t' _ h

theorem getThr_pushCont (s : State) (t t' : Nat) (ms : List MStep) (h : t < s.thr.length) :
    getThr (pushCont s t ms) t' =
      if t = t' then { getThr s t with cont := ms ++ (getThr s t).cont } else getThr s t' := by
  simp only [pushCont]; exact getThr_setThr s t t' _ h

theorem getThr_release (s : State) (t t' v : Nat) (h : t < s.thr.length) :
    getThr (release s t v) t' =
      if t = t' ∧ dying s v = true then { getThr s t with cont := .dtorMem v :: (getThr s t).cont }
      else getThr s t' := by
  unfold release dying
  cases hv : s.objs[v]? with
  | none => simp
  | some ob =>
    simp only []
    split
    · rename_i hz
      rw [getThr_pushCont _ _ _ _ (by simpa using h)]
      simp [hz]
    · rename_i hz
      simp [hz]

theorem getThr_releaseH (s : State) (t t' : Nat) (hx : H) (h : t < s.thr.length) :
    getThr (releaseH s t hx) t' =
      match hx with
      | .own v => if t = t' ∧ dying s v = true then { getThr s t with cont := .dtorMem v :: (getThr s t).cont }
                  else getThr s t'
      | _ => getThr s t' := by
  cases hx <;> simp [releaseH, getThr_release, h]

@[simp] theorem getThr_incOpt (s : State) (k : Option Nat) (t : Nat) : getThr (incOpt s k) t = getThr s t := by
  cases k <;> simp [incOpt]

@[simp] theorem incOpt_thr_length (s : State) (k : Option Nat) : (incOpt s k).thr.length = s.thr.length := by
  cases k <;> simp [incOpt]

theorem getThr_setThr_ne (s : State) (t t' : Nat) (th : Thread) (hne : t ≠ t') :
    getThr (setThr s t th) t' = getThr s t' := by
  simp [getThr, setThr, hne]

theorem getThr_release_ne (s : State) (t t' v : Nat) (hne : t ≠ t') :
    getThr (release s t v) t' = getThr s t' := by
  unfold release
  split
  · rfl
  · split
    · simp only [pushCont]; rw [getThr_setThr_ne _ _ _ _ hne]; rfl
    · rfl

theorem getThr_releaseH_ne (s : State) (t t' : Nat) (hx : H) (hne : t ≠ t') :
    getThr (releaseH s t hx) t' = getThr s t' := by
  cases hx <;> simp [releaseH, getThr_release_ne, hne]

theorem exec_other (s : State) (t t' : Nat) (ms : MStep) (hne : t ≠ t') :
    getThr (exec s t ms) t' = getThr s t' := by
  cases ms <;> simp only [exec] <;> (repeat' split) <;>
    (try simp [getThr_releaseH_ne, getThr_release_ne, pushReg, popReg, getThr_setThr_ne, hne]) <;> (try rfl)

@[simp] theorem releaseH_thr_length (s : State) (t : Nat) (h : H) : (releaseH s t h).thr.length = s.thr.length := by
  cases h <;> simp [releaseH]

theorem exec_thr_length (s : State) (t : Nat) (ms : MStep) : (exec s t ms).thr.length = s.thr.length := by
  cases ms <;> simp only [exec] <;> (repeat' split) <;> (try simp) <;> (try rfl)

theorem depthOK_dtorMem (d : Nat) (v : Nat) (k : List MStep) : depthOK d (.dtorMem v :: k) ↔ depthOK d k := by
  simp [depthOK, pops, pushes]

theorem thrOK_release (s : State) (t v : Nat) (ht : t < s.thr.length) (h : ThrOK (getThr s t)) :
    ThrOK (getThr (release s t v) t) := by
  rw [getThr_release _ _ _ _ ht]
  split
  · simpa [ThrOK, depthOK_dtorMem] using h
  · exact h

theorem thrOK_releaseH (s : State) (t : Nat) (hx : H) (ht : t < s.thr.length) (h : ThrOK (getThr s t)) :
    ThrOK (getThr (releaseH s t hx) t) := by
  cases hx
  · exact h
  · exact thrOK_release s t _ ht h
  · exact h

theorem exec_self (s : State) (t : Nat) (ms : MStep) (ht : t < s.thr.length)
    (hg : guard s t ms = true)
    (h : depthOK (getThr s t).regs.length (ms :: (getThr s t).cont)) :
    ThrOK (getThr (exec s t ms) t) := by
  have hpush : ∀ r, ThrOK (getThr (pushReg s t r) t) ↔ depthOK ((getThr s t).regs.length + 1) (getThr s t).cont := by
    intro r; simp [ThrOK, getThr_pushReg, ht]
  have hpop : ThrOK (getThr (popReg s t) t) ↔ depthOK ((getThr s t).regs.length - 1) (getThr s t).cont := by
    simp [ThrOK, getThr_popReg, ht]
  cases ms <;> simp only [exec] <;> simp only [depthOK, pops, pushes] at h
  case alloc => exact h.2
  case ctorNull => exact h.2
  case copyInit x y =>
    split
    · simpa [ThrOK] using h.2
    · exact h.2
  case moveInit x y =>
    split
    · exact h.2
    · exact h.2
  case rawInit x k => simpa [ThrOK] using h.2
  case dtorH x =>
    split
    · apply thrOK_releaseH _ _ _ (by simpa using ht); simpa [ThrOK] using h.2
    · exact h.2
  case incFrom y =>
    simp only [guard] at hg
    obtain ⟨hy, hcy, _⟩ := usable_cell hg
    simp only [hcy, getThr_incOpt]
    exact (hpush _).mpr (by simpa using h.2)
  case swapDec x =>
    simp only [guard] at hg
    obtain ⟨hx, hcx, _⟩ := usable_cell hg
    simp only [hcx]
    apply thrOK_releaseH _ _ _ (by simpa using ht)
    rw [getThr_setCell]
    exact hpop.mpr (by simpa using h.2)
  case moveDec x y =>
    split
    · split
      · apply thrOK_releaseH _ _ _ (by simpa using ht); simpa [ThrOK] using h.2
      · exact h.2
    · exact h.2
  case incRaw k =>
    simp only [getThr_incOpt]
    exact (hpush _).mpr (by simpa using h.2)
  case decH x =>
    split
    · apply thrOK_release _ _ _ (by simpa using ht); simpa [ThrOK] using h.2
    · exact h.2
  case storeTop x =>
    rw [getThr_setCell]
    exact hpop.mpr (by simpa using h.2)
  case incM k => simpa [ThrOK] using h.2
  case decM k =>
    apply thrOK_release _ _ _ (by simpa using ht); simpa [ThrOK] using h.2
  case dtorMem o =>
    split
    · split
      · apply thrOK_releaseH _ _ _ (by simpa using ht); simpa [ThrOK] using h.2
      · exact h.2
    · exact h.2

/-! ## The global invariant and its preservation by both kinds of transition -/

/-- live objects have pairwise distinct, non-null addresses -/
structure AddrInv (s : State) : Prop where
  inj : ∀ i j, aliveOf s i = true → aliveOf s j = true → addrO s i = addrO s j → i = j
  nz : ∀ i, aliveOf s i = true → addrO s i ≠ 0

/-- the inductive invariant of the transition system -/
structure GInv (s : State) : Prop where
  inv : Inv s
  thr : ∀ t, ThrOK (getThr s t)
  addr : AddrInv s

theorem aliveOf_lt {s : State} {o : Nat} (h : aliveOf s o = true) : o < s.objs.length := by
  rcases Nat.lt_or_ge o s.objs.length with h1 | h1
  · exact h1
  · simp [aliveOf, List.getElem?_eq_none h1] at h

theorem alive_mono {s s' : State} (hI : Inv s) (hG : Good s s') {o : Nat} (ho : o < s.objs.length)
    (h : aliveOf s' o = true) : aliveOf s o = true := by
  have h1 := (hG.1 o).alive_iff.mp h
  rw [(hI o).alive_iff]
  by_cases hc : countOf s' o = countOf s o
  · omega
  · exact (hG.2 o).touch_alive hc ho

theorem guard_congr {s0 s : State} (t : Nat) (ms : MStep) (hc : s0.cells = s.cells) (ho : s0.objs = s.objs)
    (hr : ∀ o, refsTo s0 o = refsTo s o) : guard s0 t ms = guard s t ms := by
  cases ms <;> simp [guard, usable, cell, manualOf, hc, ho, hr]
  case decM k => rfl

theorem refsTo_setThr_regs (s : State) (t : Nat) (th : Thread) (o : Nat) (ht : t < s.thr.length)
    (hregs : th.regs = (getThr s t).regs) : refsTo (setThr s t th) o = refsTo s o := by
  have := rrefs_setThr s t th o ht
  simp only [refsTo_eq, hrefs_setThr, manualOf_setThr]
  simp only [trefs, hregs] at this
  omega

theorem addrInv_congr {s0 s : State} (ho : s0.objs = s.objs) (h : AddrInv s) : AddrInv s0 := by
  constructor
  · intro i j; simpa [aliveOf, addrO, ho] using h.inj i j
  · intro i; simpa [aliveOf, addrO, ho] using h.nz i

theorem depthOK_compile (op : Op) : depthOK 0 (compile op) := by
  cases op <;> simp [compile, depthOK, pops, pushes]
  case ctorRaw x k => cases k <;> simp [depthOK, pops, pushes]

theorem start_good {s : State} {t : Nat} {op : Op} (hG : GInv s) (he : enabled s (.start t op) = true) :
    GInv (start s t op) ∧ Good s (start s t op) := by
  simp only [enabled] at he
  cases hth : s.thr[t]? with
  | none => simp [hth] at he
  | some th =>
    simp only [hth, List.isEmpty_iff] at he
    have ht : t < s.thr.length := by
      rcases Nat.lt_or_ge t s.thr.length with h1 | h1
      · exact h1
      · simp [List.getElem?_eq_none h1] at hth
    have hget : getThr s t = th := by simp [getThr, hth]
    have hgood : Good s (start s t op) :=
      inv_same hG.inv (SameObs.of_objs rfl) (fun o => refsTo_setThr_regs s t _ o ht rfl)
    refine ⟨⟨hgood.1, fun t' => ?_, addrInv_congr (s := s) rfl hG.addr⟩, hgood⟩
    simp only [start]
    rw [getThr_setThr _ _ _ _ ht]
    split
    · have h0 := hG.thr t
      rw [hget] at h0
      simp only [ThrOK, he, depthOK] at h0
      simp only [ThrOK, hget, h0]
      exact depthOK_compile op
    · exact hG.thr t'


def isAlloc : MStep → Bool
  | .alloc _ => true
  | _ => false

@[simp] theorem releaseH_objs_length (s : State) (t : Nat) (h : H) :
    (releaseH s t h).objs.length = s.objs.length := by
  cases h <;> simp [releaseH]
@[simp] theorem incOpt_objs_length (s : State) (k : Option Nat) :
    (incOpt s k).objs.length = s.objs.length := by
  cases k <;> simp [incOpt]

theorem exec_objs_length (s : State) (t : Nat) (ms : MStep) (h : isAlloc ms = false) :
    (exec s t ms).objs.length = s.objs.length := by
  cases ms <;> simp only [exec] <;> (repeat' split) <;> (try simp) <;> (try rfl)
  simp [isAlloc] at h

theorem addr_exec {s : State} {t : Nat} {ms : MStep} (hI : Inv s) (hA : AddrInv s)
    (hG : Good s (exec s t ms)) (hg : guard s t ms = true) : AddrInv (exec s t ms) := by
  by_cases hal : isAlloc ms = true
  · cases ms <;> simp [isAlloc] at hal
    rename_i a
    simp only [guard, Bool.and_eq_true, bne_iff_ne, ne_eq, List.all_eq_true, Bool.or_eq_true,
      Bool.not_eq_true'] at hg
    obtain ⟨ha0, hall⟩ := hg
    have hfree : ∀ i, aliveOf s i = true → addrO s i ≠ a := by
      intro i hi
      have hil := aliveOf_lt hi
      have hm : s.objs[i] ∈ s.objs := List.getElem_mem hil
      have := hall _ hm
      simp only [aliveOf, addrO, List.getElem?_eq_getElem hil] at hi ⊢
      simp at hi ⊢
      rcases this with h1 | h1
      · simp [hi] at h1
      · exact h1
    have hlen : (exec s t (.alloc a)).objs.length = s.objs.length + 1 := by simp [exec]
    have hold : ∀ i, i < s.objs.length → aliveOf (exec s t (.alloc a)) i = aliveOf s i ∧
        addrO (exec s t (.alloc a)) i = addrO s i := by
      intro i hi
      simp [exec, aliveOf, addrO, List.getElem?_append_left hi]
    have hnew : addrO (exec s t (.alloc a)) s.objs.length = a := by simp [exec, addrO]
    constructor
    · intro i j hi hj hij
      have hil := aliveOf_lt hi
      have hjl := aliveOf_lt hj
      rw [hlen] at hil hjl
      by_cases hi2 : i < s.objs.length
      · by_cases hj2 : j < s.objs.length
        · rw [(hold i hi2).1] at hi; rw [(hold j hj2).1] at hj
          rw [(hold i hi2).2, (hold j hj2).2] at hij
          exact hA.inj i j hi hj hij
        · have : j = s.objs.length := by omega
          subst this
          rw [(hold i hi2).1] at hi
          rw [(hold i hi2).2, hnew] at hij
          exact absurd hij (hfree i hi)
      · have : i = s.objs.length := by omega
        subst this
        by_cases hj2 : j < s.objs.length
        · rw [(hold j hj2).1] at hj
          rw [(hold j hj2).2, hnew] at hij
          exact absurd hij.symm (hfree j hj)
        · omega
    · intro i hi
      have hil := aliveOf_lt hi
      rw [hlen] at hil
      by_cases hi2 : i < s.objs.length
      · rw [(hold i hi2).1] at hi; rw [(hold i hi2).2]; exact hA.nz i hi
      · have : i = s.objs.length := by omega
        subst this; rw [hnew]; exact ha0
  · have hal' : isAlloc ms = false := by simpa using hal
    have hlen := exec_objs_length s t ms hal'
    constructor
    · intro i j hi hj hij
      have hil := aliveOf_lt hi; have hjl := aliveOf_lt hj
      rw [hlen] at hil hjl
      rw [addrO_exec s t ms i hil, addrO_exec s t ms j hjl] at hij
      exact hA.inj i j (alive_mono hI hG hil hi) (alive_mono hI hG hjl hj) hij
    · intro i hi
      have hil := aliveOf_lt hi
      rw [hlen] at hil
      rw [addrO_exec s t ms i hil]
      exact hA.nz i (alive_mono hI hG hil hi)

theorem nextStep_some {s : State} {t : Nat} {ms : MStep} (h : nextStep s t = some ms) :
    ∃ th rest, s.thr[t]? = some th ∧ th.cont = ms :: rest := by
  unfold nextStep at h
  cases hth : s.thr[t]? with
  | none => simp [hth] at h
  | some th =>
    simp only [hth] at h
    cases hc : th.cont with
    | nil => simp [hc] at h
    | cons m rest => simp [hc] at h; subst h; exact ⟨th, rest, rfl, hc⟩

theorem micro_good {s : State} {t : Nat} (hG : GInv s) (he : enabled s (.step t) = true) :
    GInv (micro s t) ∧ Good s (micro s t) := by
  simp only [enabled] at he
  cases hns : nextStep s t with
  | none => simp [hns] at he
  | some ms =>
    simp only [hns] at he
    obtain ⟨th, rest, hth, hcont⟩ := nextStep_some hns
    have ht : t < s.thr.length := by
      rcases Nat.lt_or_ge t s.thr.length with h1 | h1
      · exact h1
      · simp [List.getElem?_eq_none h1] at hth
    have hget : getThr s t = th := by simp [getThr, hth]
    have hmicro : micro s t = exec (setThr s t { th with cont := rest }) t ms := by
      simp [micro, hth, hcont]
    rw [hmicro]
    generalize hs0 : setThr s t { th with cont := rest } = s0
    have hrefs : ∀ o, refsTo s0 o = refsTo s o := by
      intro o; rw [← hs0]; exact refsTo_setThr_regs s t _ o ht (by simp [hget])
    have hgood0 : Good s s0 := by
      rw [← hs0]; exact inv_same hG.inv (SameObs.of_objs rfl) (by rw [hs0]; exact hrefs)
    have hg0 : guard s0 t ms = true := by
      rw [guard_congr t ms (by rw [← hs0]; rfl) (by rw [← hs0]; rfl) hrefs]; exact he
    have ht0 : t < s0.thr.length := by rw [← hs0]; simpa using ht
    have hgood := exec_good s0 t ms hgood0.1 ht0 hg0
    have hobjs : s0.objs = s.objs := by rw [← hs0]; rfl
    have hgoodS : Good s (exec s0 t ms) := by
      refine ⟨hgood.1, fun o => ?_⟩
      have r := hgood.2 o
      have hc : countOf s0 o = countOf s o := by simp [countOf, hobjs]
      exact ⟨by simpa [hc, hobjs] using r.touch_alive, by simpa [hobjs] using r.len,
        by simpa [hobjs] using r.fresh⟩
    have hA0 : AddrInv s0 := addrInv_congr hobjs hG.addr
    refine ⟨⟨hgood.1, fun t' => ?_, addr_exec hgood0.1 hA0 hgood hg0⟩, hgoodS⟩
    have hget0 : ∀ t', getThr s0 t' = if t = t' then { th with cont := rest } else getThr s t' := by
      intro t'; rw [← hs0]; exact getThr_setThr s t t' _ ht
    by_cases htt : t = t'
    · subst htt
      apply exec_self s0 t ms ht0 hg0
      have h0 := hG.thr t
      rw [hget] at h0
      simp only [ThrOK, hcont] at h0
      simpa [hget0] using h0
    · rw [exec_other s0 t t' ms htt, hget0 t']
      simp only [htt, if_false]
      exact hG.thr t'

/-! ## Stale handles exist only in the middle of `operator=(T*)` -/

/-- the continuation of the executing thread only grows by destructor steps -/
def ContGrow (k k' : List MStep) : Prop := k' = k ∨ ∃ v, k' = .dtorMem v :: k

theorem contGrow_release (s : State) (t v : Nat) (ht : t < s.thr.length) :
    ContGrow (getThr s t).cont (getThr (release s t v) t).cont := by
  rw [getThr_release _ _ _ _ ht]
  split
  · exact Or.inr ⟨v, rfl⟩
  · exact Or.inl rfl

theorem contGrow_releaseH (s : State) (t : Nat) (hx : H) (ht : t < s.thr.length) :
    ContGrow (getThr s t).cont (getThr (releaseH s t hx) t).cont := by
  cases hx
  · exact Or.inl rfl
  · exact contGrow_release s t _ ht
  · exact Or.inl rfl

theorem exec_contGrow (s : State) (t : Nat) (ms : MStep) (ht : t < s.thr.length) :
    ContGrow (getThr s t).cont (getThr (exec s t ms) t).cont := by
  have hpush : ∀ r, (getThr (pushReg s t r) t).cont = (getThr s t).cont := by
    intro r; simp [getThr_pushReg, ht]
  have hpop : (getThr (popReg s t) t).cont = (getThr s t).cont := by
    simp [getThr_popReg, ht]
  cases ms <;> simp only [exec]
  case alloc => exact Or.inl rfl
  case ctorNull => exact Or.inl rfl
  case copyInit x y =>
    split
    · simp; exact Or.inl rfl
    · exact Or.inl rfl
  case moveInit x y =>
    split <;> exact Or.inl rfl
  case rawInit x k => simp; exact Or.inl rfl
  case dtorH x =>
    split
    · have := contGrow_releaseH (setCell s x none) t ‹_› (by simpa using ht)
      simpa using this
    · exact Or.inl rfl
  case incFrom y =>
    split
    · simp only [getThr_incOpt, hpush]; exact Or.inl rfl
    · exact Or.inl rfl
  case swapDec x =>
    split
    · have := contGrow_releaseH (setCell (popReg s t) x (some (H.ofPtr (topReg s t)))) t ‹_› (by simpa using ht)
      rw [getThr_setCell, hpop] at this
      exact this
    · exact Or.inl rfl
  case moveDec x y =>
    split
    · rename_i hy _
      split
      · rename_i hx _
        have := contGrow_releaseH (setCell (setCell s y (some H.null)) x (some hy)) t hx (by simpa using ht)
        simpa using this
      · exact Or.inl rfl
    · exact Or.inl rfl
  case incRaw k => simp only [getThr_incOpt, hpush]; exact Or.inl rfl
  case decH x =>
    split
    · have := contGrow_release (setCell s x (some (H.stale ‹Nat›))) t ‹_› (by simpa using ht)
      simpa using this
    · exact Or.inl rfl
  case storeTop x => rw [getThr_setCell, hpop]; exact Or.inl rfl
  case incM k => simp; exact Or.inl rfl
  case decM k =>
    have := contGrow_release (subManual s k) t k (by simpa using ht)
    simpa using this
  case dtorMem o =>
    split
    · split
      · have := contGrow_releaseH (setCell s ‹Obj›.mcell none) t ‹_› (by simpa using ht)
        simpa using this
      · exact Or.inl rfl
    · exact Or.inl rfl


@[simp] theorem cell_releaseH (s : State) (t : Nat) (h : H) (x : Nat) : cell (releaseH s t h) x = cell s x := by
  cases h <;> simp [releaseH]
@[simp] theorem cell_incOpt (s : State) (k : Option Nat) (x : Nat) : cell (incOpt s k) x = cell s x := by
  cases k <;> simp [incOpt]
@[simp] theorem cell_addManual (s : State) (k x : Nat) : cell (addManual s k) x = cell s x := by simp [cell]
@[simp] theorem cell_subManual (s : State) (k x : Nat) : cell (subManual s k) x = cell s x := by simp [cell]

theorem ofPtr_not_stale (r : Option Nat) (v : Nat) : H.ofPtr r ≠ .stale v := by
  cases r <;> simp [H.ofPtr]

theorem setCell_stale {s : State} {x y v : Nat} {h : Option H}
    (hc : cell (setCell s x h) y = some (.stale v)) (hne : h ≠ some (.stale v)) :
    cell s y = some (.stale v) ∧ ¬ (x = y ∧ x < s.cells.length) := by
  rw [cell_setCell] at hc
  split at hc
  · exact absurd hc hne
  · exact ⟨hc, ‹_›⟩

/-- a handle that is stale after a step was stale before (and the step was not the `ptr = input`
    that ends its assignment), or the step is the `ptr->refDec()` of an assignment to it -/
theorem exec_stale (s : State) (t : Nat) (ms : MStep) (hg : guard s t ms = true) (y v : Nat)
    (h : cell (exec s t ms) y = some (.stale v)) :
    (cell s y = some (.stale v) ∧ ms ≠ .storeTop y) ∨ ms = .decH y := by
  cases ms <;> simp only [exec] at h
  case alloc a =>
    left
    simp only [cell, List.getElem?_append] at h ⊢
    split at h
    · exact ⟨h, by simp⟩
    · rename_i hh
      by_cases hy : y - s.cells.length = 0
      · simp [hy] at h
      · have : ([some H.null] : List (Option H))[y - s.cells.length]? = none := by
          cases hyy : y - s.cells.length with
          | zero => exact absurd hyy hy
          | succ n => simp
        simp [this] at h
  case ctorNull x => exact Or.inl ⟨(setCell_stale h (by simp)).1, by simp⟩
  case copyInit x y' =>
    split at h
    · rw [cell_incOpt] at h
      exact Or.inl ⟨(setCell_stale h (by simp [H.copy, ofPtr_not_stale])).1, by simp⟩
    · exact Or.inl ⟨h, by simp⟩
  case moveInit x y' =>
    simp only [guard, Bool.and_eq_true, decide_eq_true_eq] at hg
    obtain ⟨hy, hcy, hst⟩ := usable_cell hg.2
    simp only [hcy] at h
    have h1 := setCell_stale h (by simp)
    have h2 := setCell_stale h1.1 (by intro e; simp at e; subst e; simp [H.isStale] at hst)
    exact Or.inl ⟨h2.1, by simp⟩
  case rawInit x k =>
    rw [cell_incCount] at h
    exact Or.inl ⟨(setCell_stale h (by simp)).1, by simp⟩
  case dtorH x =>
    split at h
    · rw [cell_releaseH] at h
      exact Or.inl ⟨(setCell_stale h (by simp)).1, by simp⟩
    · exact Or.inl ⟨h, by simp⟩
  case incFrom y' =>
    split at h
    · simp at h; exact Or.inl ⟨h, by simp⟩
    · exact Or.inl ⟨h, by simp⟩
  case swapDec x =>
    split at h
    · rw [cell_releaseH] at h
      have := (setCell_stale h (by simp [ofPtr_not_stale])).1
      exact Or.inl ⟨by simpa using this, by simp⟩
    · exact Or.inl ⟨h, by simp⟩
  case moveDec x y' =>
    simp only [guard, Bool.and_eq_true] at hg
    obtain ⟨hy, hcy, hst⟩ := usable_cell hg.2
    simp only [hcy] at h
    split at h
    · rw [cell_releaseH] at h
      have h1 := setCell_stale h (by intro e; simp at e; subst e; simp [H.isStale] at hst)
      have h2 := setCell_stale h1.1 (by simp)
      exact Or.inl ⟨h2.1, by simp⟩
    · exact Or.inl ⟨h, by simp⟩
  case incRaw k => simp at h; exact Or.inl ⟨h, by simp⟩
  case decH x =>
    by_cases hxy : x = y
    · right; rw [hxy]
    · left
      refine ⟨?_, by simp⟩
      split at h
      · rw [cell_release, cell_setCell] at h
        simpa [hxy] using h
      · exact h
  case storeTop x =>
    have := setCell_stale h (by simp [ofPtr_not_stale])
    refine Or.inl ⟨by simpa using this.1, ?_⟩
    intro e
    simp only [MStep.storeTop.injEq] at e
    subst e
    simp only [guard] at hg
    have h1 : cell s x = some (.stale v) := by simpa using this.1
    have hl := cells_get_of_cell h1
    have hxl : x < s.cells.length := by
      rcases Nat.lt_or_ge x s.cells.length with h2 | h2
      · exact h2
      · simp [List.getElem?_eq_none h2] at hl
    exact this.2 ⟨rfl, by simpa using hxl⟩
  case incM k => simp at h; exact Or.inl ⟨h, by simp⟩
  case decM k => simp at h; exact Or.inl ⟨h, by simp⟩
  case dtorMem o =>
    split at h
    · split at h
      · rw [cell_releaseH] at h
        exact Or.inl ⟨(setCell_stale h (by simp)).1, by simp⟩
      · exact Or.inl ⟨h, by simp⟩
    · exact Or.inl ⟨h, by simp⟩


/-- every pending `ptr->refDec()` of an `operator=(T*)` is followed by its `ptr = input` -/
def contWF : List MStep → Prop
  | [] => True
  | m :: k => (∀ x, m = .decH x → .storeTop x ∈ k) ∧ contWF k

/-- stale handles are exactly handles in the middle of an `operator=(T*)` -/
structure SInv (s : State) : Prop where
  wf : ∀ t, contWF (getThr s t).cont
  stale : ∀ y v, cell s y = some (.stale v) → ∃ t, .storeTop y ∈ (getThr s t).cont

theorem contWF_compile (op : Op) : contWF (compile op) := by
  cases op <;> simp [compile, contWF]
  case ctorRaw x k => cases k <;> simp [contWF]

theorem contWF_grow {k k' : List MStep} (hg : ContGrow k k') (h : contWF k) : contWF k' := by
  rcases hg with rfl | ⟨v, rfl⟩
  · exact h
  · exact ⟨by simp, h⟩

theorem mem_grow {k k' : List MStep} (hg : ContGrow k k') {m : MStep} (h : m ∈ k) : m ∈ k' := by
  rcases hg with rfl | ⟨v, rfl⟩
  · exact h
  · exact List.mem_cons_of_mem _ h

theorem start_sinv {s : State} {t : Nat} {op : Op} (hS : SInv s) (he : enabled s (.start t op) = true) :
    SInv (start s t op) := by
  simp only [enabled] at he
  cases hth : s.thr[t]? with
  | none => simp [hth] at he
  | some th =>
    simp only [hth, List.isEmpty_iff] at he
    have ht : t < s.thr.length := by
      rcases Nat.lt_or_ge t s.thr.length with h1 | h1
      · exact h1
      · simp [List.getElem?_eq_none h1] at hth
    have hget : getThr s t = th := by simp [getThr, hth]
    have hg' : ∀ t', getThr (start s t op) t' =
        if t = t' then { getThr s t with cont := compile op } else getThr s t' := by
      intro t'; simp only [start]; exact getThr_setThr s t t' _ ht
    constructor
    · intro t'
      rw [hg']
      split
      · exact contWF_compile op
      · exact hS.wf t'
    · intro y v hy
      have hy' : cell s y = some (.stale v) := by simpa [start] using hy
      obtain ⟨t0, h0⟩ := hS.stale y v hy'
      refine ⟨t0, ?_⟩
      rw [hg']
      split
      · rename_i htt; subst htt; rw [hget, he] at h0; simp at h0
      · exact h0

theorem micro_sinv {s : State} {t : Nat} (hS : SInv s) (he : enabled s (.step t) = true) :
    SInv (micro s t) := by
  simp only [enabled] at he
  cases hns : nextStep s t with
  | none => simp [hns] at he
  | some ms =>
    simp only [hns] at he
    obtain ⟨th, rest, hth, hcont⟩ := nextStep_some hns
    have ht : t < s.thr.length := by
      rcases Nat.lt_or_ge t s.thr.length with h1 | h1
      · exact h1
      · simp [List.getElem?_eq_none h1] at hth
    have hget : getThr s t = th := by simp [getThr, hth]
    have hmicro : micro s t = exec (setThr s t { th with cont := rest }) t ms := by
      simp [micro, hth, hcont]
    rw [hmicro]
    generalize hs0 : setThr s t { th with cont := rest } = s0
    have hrefs : ∀ o, refsTo s0 o = refsTo s o := by
      intro o; rw [← hs0]; exact refsTo_setThr_regs s t _ o ht (by simp [hget])
    have hg0 : guard s0 t ms = true := by
      rw [guard_congr t ms (by rw [← hs0]; rfl) (by rw [← hs0]; rfl) hrefs]; exact he
    have ht0 : t < s0.thr.length := by rw [← hs0]; simpa using ht
    have hcell : ∀ y, cell s0 y = cell s y := by intro y; rw [← hs0]; rfl
    have hget0 : ∀ t', getThr s0 t' = if t = t' then { th with cont := rest } else getThr s t' := by
      intro t'; rw [← hs0]; exact getThr_setThr s t t' _ ht
    have hc0 : (getThr s0 t).cont = rest := by simp [hget0]
    have hgrow := exec_contGrow s0 t ms ht0
    rw [hc0] at hgrow
    have hwf : contWF (ms :: rest) := by have := hS.wf t; rwa [hget, hcont] at this
    constructor
    · intro t'
      by_cases htt : t = t'
      · subst htt; exact contWF_grow hgrow hwf.2
      · rw [exec_other s0 t t' ms htt, hget0 t']
        simp only [htt, if_false]
        exact hS.wf t'
    · intro y v hy
      have other : ∀ t0, t ≠ t0 → getThr (exec s0 t ms) t0 = getThr s t0 := by
        intro t0 h0; rw [exec_other s0 t t0 ms h0, hget0 t0]; simp [h0]
      rcases exec_stale s0 t ms hg0 y v hy with ⟨h1, hne⟩ | hdec
      · rw [hcell] at h1
        obtain ⟨t0, h0⟩ := hS.stale y v h1
        by_cases htt : t = t0
        · subst htt
          rw [hget, hcont] at h0
          simp only [List.mem_cons] at h0
          rcases h0 with h0 | h0
          · exact absurd h0.symm hne
          · exact ⟨t, mem_grow hgrow h0⟩
        · exact ⟨t0, by rw [other t0 htt]; exact h0⟩
      · exact ⟨t, mem_grow hgrow (hwf.1 y hdec)⟩

/-! ## Consequences of the invariant used by several property theorems -/

theorem idle_no_regs {s : State} (hG : GInv s) (hidle : ∀ t, (getThr s t).cont = []) (o : Nat) :
    rrefs s o = 0 := by
  have hall : ∀ th ∈ s.thr, trefs o th = 0 := by
    intro th hth
    obtain ⟨i, hi, rfl⟩ := List.getElem_of_mem hth
    have h1 := hG.thr i
    have h2 := hidle i
    have hg : getThr s i = s.thr[i] := by simp [getThr, hi]
    rw [hg] at h1 h2
    simp only [ThrOK, h2, depthOK] at h1
    have : s.thr[i].regs = [] := List.eq_nil_of_length_eq_zero h1
    simp [trefs, this, sumBy]
  unfold rrefs
  generalize s.thr = l at hall
  induction l with
  | nil => simp [sumBy]
  | cons a l ih =>
    simp only [sumBy]
    rw [hall a (by simp), ih (fun th hth => hall th (by simp [hth]))]

theorem destroyedOf_ge {s : State} {o : Nat} (h : s.objs.length ≤ o) : destroyedOf s o = 0 := by
  simp [destroyedOf, List.getElem?_eq_none h]
theorem countOf_ge {s : State} {o : Nat} (h : s.objs.length ≤ o) : countOf s o = 0 := by
  simp [countOf, List.getElem?_eq_none h]
theorem aliveOf_ge {s : State} {o : Nat} (h : s.objs.length ≤ o) : aliveOf s o = false := by
  simp [aliveOf, List.getElem?_eq_none h]

theorem inv_destroyed_eq {s : State} (hI : Inv s) (o : Nat) :
    destroyedOf s o = if o < s.objs.length ∧ countOf s o = 0 then 1 else 0 := by
  have h := hI o
  have hc := h.cnt
  by_cases hl : o < s.objs.length
  · cases ha : aliveOf s o with
    | true =>
      have := h.alive_iff.mp ha
      have hz : ¬ countOf s o = 0 := by omega
      simp [hz, h.alive_nd ha]
    | false =>
      have hz : countOf s o = 0 := by
        have : ¬ 0 < countOf s o := fun hp => by simp [h.alive_iff.mpr hp] at ha
        omega
      simp [hl, hz, h.dead_d hl ha]
  · simp [hl, destroyedOf_ge (Nat.le_of_not_lt hl)]

end RkVerif.C08
