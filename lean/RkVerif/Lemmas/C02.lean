/-
Helper lemmas for C02: the inductive invariant of AsyncTaskM for every well-formed class table,
list lemmas for the task list of ScheduleM, its per-task invariant and the termination measure.
-/
import RkVerif.Model.C02
namespace RkVerif.C02

/-! ## generic -/

theorem reach_of_runActs {σ α : Type} (next : σ → α → Option σ) (init : σ) :
    ∀ (acts : List α) (s : σ), runActs next init acts = some s → Reach next init s := by
  intro acts
  induction acts with
  | nil => intro s h; simp [runActs] at h; subst h; exact .init
  | cons a earlier ih =>
    intro s h
    simp only [runActs] at h
    split at h
    · next s0 h0 => exact .step a (ih s0 h0) h
    · simp at h

theorem reach_inv {σ α : Type} {next : σ → α → Option σ} {init : σ} (P : σ → Prop)
    (h0 : P init) (hstep : ∀ s a s', P s → next s a = some s' → P s') :
    ∀ s, Reach next init s → P s := by
  intro s h
  induction h with
  | init => exact h0
  | step a _ hn ih => exact hstep _ a _ ih hn

/-! ## AsyncTaskM -/

/-- what the controller's position implies -/
def CtlInv (s : ASt) : Prop :=
  match s.ctl with
  | .ctor rest => okOrder rest s.finBuilt (!s.ret.isRaw) s.started = true
  | .idle => s.started = true
  | .getWait => s.started = true
  | .inWait => s.started = true
  | .dtorWait => s.started = true
  | .getRead => s.started = true ∧ (s.fin = true ∨ s.completed = true)
  | .dtorMembers => s.started = true ∧ s.completed = true
  | .gone => s.started = true ∧ s.completed = true

/-- the inductive invariant (for a well-formed table) -/
structure AInv (s : ASt) : Prop where
  err : s.err = false
  late : s.lateWrite = false
  bad : s.badGet = false
  lied : s.finishedLied = false
  prog : okProg s.trest s.ret.isRes s.fin = true
  notStarted : s.started = false → s.completed = false ∧ s.fin = false ∧ s.ret ≠ .res
  compl : s.completed = true → s.trest = []
  built : s.started = true → s.finBuilt = true ∧ s.ret ≠ .raw
  ctl : CtlInv s

theorem okProg_fin {l : List TaskOp} {a : Bool} (h : okProg l a true = true) : a = true := by
  cases l with
  | nil => simp [okProg] at h; exact h
  | cons op rest => cases op <;> simp [okProg] at h; exact h.1

theorem okProg_nil {a f : Bool} (h : okProg [] a f = true) : a = true ∧ f = true := by
  simpa [okProg] using h

theorem ainv_fin_res {s : ASt} (h : AInv s) (hf : s.fin = true) : s.ret = .res := by
  have := h.prog
  rw [hf] at this
  have := okProg_fin this
  cases hr : s.ret <;> simp_all [Slot.isRes]

theorem ainv_completed_res {s : ASt} (h : AInv s) (hc : s.completed = true) : s.ret = .res ∧ s.fin = true := by
  have := h.prog
  rw [h.compl hc] at this
  have := okProg_nil this
  cases hr : s.ret <;> simp_all [Slot.isRes]

theorem ainv_init (t : Table) (hwf : t.wf = true) : AInv (aInit t) := by
  simp only [Table.wf, Bool.and_eq_true] at hwf
  obtain ⟨⟨⟨⟨ho, hfi⟩, hp⟩, _⟩, _⟩ := hwf
  constructor
  case prog =>
    show okProg t.taskProg Slot.raw.isRes (!t.flagInit) = true
    rw [hfi]; exact hp
  all_goals simp_all [aInit, CtlInv, Slot.isRaw]

theorem ainv_step (t : Table) (hwf : t.wf = true) (s : ASt) (a : AAct) (s' : ASt)
    (h : AInv s) (hn : aNext t s a = some s') : AInv s' := by
  simp only [Table.wf, Bool.and_eq_true] at hwf
  obtain ⟨⟨⟨⟨_, hfi⟩, _⟩, hdw⟩, hgk⟩ := hwf
  obtain ⟨herr, hlate, hbad, hlied, hprog, hns, hcompl, hbuilt, hctl⟩ := h
  obtain ⟨ctl, ret, finBuilt, fin, started, trest, completed, err, lateWrite, badGet, finishedLied⟩ := s
  simp only at herr hlate hbad hlied hprog hns hcompl hbuilt
  subst herr hlate hbad hlied
  cases a with
  | task =>
    simp only [aNext] at hn
    split at hn
    · next hen =>
      simp only [Bool.and_eq_true, Bool.not_eq_true'] at hen
      obtain ⟨hst, hnc⟩ := hen
      subst hst hnc
      obtain ⟨hfb, hraw⟩ := hbuilt rfl
      subst hfb
      have hrb : ret = .dflt ∨ ret = .res := by cases ret <;> simp_all
      clear hraw
      split at hn
      · next op rest =>
        cases hn
        cases op
        · simp only [okProg, Bool.and_eq_true, Bool.not_eq_true'] at hprog
          obtain ⟨hf, hp⟩ := hprog
          subst hf
          rcases hrb with rfl | rfl <;> constructor <;> cases ctl <;> simp_all [taskOp, CtlInv, Ctl.isGone, Slot.isRaw, Slot.isRes]
        · simp only [okProg, Bool.and_eq_true] at hprog
          obtain ⟨hr, hp⟩ := hprog
          rcases hrb with rfl | rfl <;> constructor <;> cases ctl <;> simp_all [taskOp, CtlInv, Ctl.isGone, Slot.isRaw, Slot.isRes]
      · cases hn
        have := okProg_nil hprog
        rcases hrb with rfl | rfl <;> constructor <;> cases ctl <;> simp_all [CtlInv, Ctl.isGone, Slot.isRaw, Slot.isRes]
    · simp at hn
  | ctl =>
    cases ctl with
    | ctor rest =>
      cases rest with
      | nil =>
        simp only [aNext, Option.some.injEq] at hn
        subst hn
        constructor <;> simp_all [CtlInv, okOrder]
      | cons m rest =>
        simp only [aNext, Option.some.injEq] at hn
        subst hn
        simp only [CtlInv] at hctl
        cases m <;> simp only [okOrder, Bool.and_eq_true, Bool.not_eq_true'] at hctl
        · obtain ⟨⟨hs, hf⟩, ho⟩ := hctl
          subst hs hf
          have := hns rfl
          constructor <;> simp_all [construct, CtlInv]
        · obtain ⟨⟨hs, hr⟩, ho⟩ := hctl
          subst hs
          have := hns rfl
          constructor <;> simp_all [construct, CtlInv, Slot.isRaw, Slot.isRes]
        · obtain ⟨⟨⟨hf, hr⟩, hs⟩, ho⟩ := hctl
          subst hs hf
          have := hns rfl
          cases ret <;> constructor <;> simp_all [construct, CtlInv, Slot.isRaw, Slot.isRes]
    | idle => simp [aNext] at hn
    | gone => simp [aNext] at hn
    | getWait =>
      simp only [aNext] at hn
      split at hn
      · cases hn
        constructor <;> simp_all [CtlInv]
      · simp at hn
    | inWait =>
      simp only [aNext] at hn
      split at hn
      · cases hn
        constructor <;> simp_all [CtlInv]
      · simp at hn
    | dtorWait =>
      simp only [aNext] at hn
      split at hn
      · cases hn
        constructor <;> simp_all [CtlInv]
      · simp at hn
    | dtorMembers =>
      simp only [aNext, Option.some.injEq] at hn
      subst hn
      constructor <;> simp_all [CtlInv]
    | getRead =>
      simp only [aNext, Option.some.injEq] at hn
      subst hn
      simp only [CtlInv] at hctl
      obtain ⟨hst, hfc⟩ := hctl
      have hres : ret = .res := by
        rcases hfc with hf | hc
        · exact ainv_fin_res (s := ⟨.getRead, ret, finBuilt, fin, started, trest, completed, false, false, false, false⟩)
            ⟨rfl, rfl, rfl, rfl, hprog, hns, hcompl, hbuilt, ⟨hst, .inl hf⟩⟩ hf
        · exact (ainv_completed_res (s := ⟨.getRead, ret, finBuilt, fin, started, trest, completed, false, false, false, false⟩)
            ⟨rfl, rfl, rfl, rfl, hprog, hns, hcompl, hbuilt, ⟨hst, .inr hc⟩⟩ hc).1
      subst hres
      constructor <;> simp_all [CtlInv, Slot.isRaw, Slot.isRes]
  | callFinished =>
    cases ctl <;> simp only [aNext, Option.some.injEq, reduceCtorEq] at hn
    subst hn
    have hres : fin = true → ret = .res := fun hf =>
      ainv_fin_res (s := ⟨.idle, ret, finBuilt, fin, started, trest, completed, false, false, false, false⟩)
        ⟨rfl, rfl, rfl, rfl, hprog, hns, hcompl, hbuilt, hctl⟩ hf
    cases fin
    · constructor <;> simp_all [CtlInv]
    · have := hres rfl
      subst this
      constructor <;> simp_all [CtlInv, Slot.isRes]
  | callGet =>
    cases ctl <;> simp only [aNext, Option.some.injEq, reduceCtorEq] at hn
    subst hn
    simp only [CtlInv] at hctl
    have hk : t.getKind = .checkThenWait ∨ t.getKind = .alwaysWait := by
      cases hk : t.getKind <;> simp_all
    rcases hk with hk | hk
    · cases fin <;> constructor <;> simp_all [CtlInv, getEntry]
    · constructor <;> simp_all [CtlInv, getEntry]
  | callWait =>
    cases ctl <;> simp only [aNext, Option.some.injEq, reduceCtorEq] at hn
    subst hn
    constructor <;> simp_all [CtlInv]
  | callDtor =>
    cases ctl <;> simp only [aNext, Option.some.injEq, reduceCtorEq] at hn
    subst hn
    constructor <;> simp_all [CtlInv]

/-! ## ScheduleM: list lemmas -/

theorem mem_updAt {l : List Task} {i : Nat} {f : Task → Task} {x : Task} (h : x ∈ updAt l i f) :
    x ∈ l ∨ ∃ t, l[i]? = some t ∧ x = f t := by
  induction l generalizing i with
  | nil => simp [updAt] at h
  | cons t rest ih =>
    cases i with
    | zero =>
      simp only [updAt, List.mem_cons] at h
      rcases h with h | h
      · exact .inr ⟨t, by simp, h⟩
      · exact .inl (List.mem_cons_of_mem _ h)
    | succ i =>
      simp only [updAt, List.mem_cons] at h
      rcases h with h | h
      · exact .inl (by simp [h])
      · rcases ih h with h | ⟨t', ht', hx⟩
        · exact .inl (List.mem_cons_of_mem _ h)
        · exact .inr ⟨t', by simpa using ht', hx⟩

theorem getElem?_updAt_self {l : List Task} {i : Nat} {f : Task → Task} {t : Task} (h : l[i]? = some t) :
    (updAt l i f)[i]? = some (f t) := by
  induction l generalizing i with
  | nil => simp at h
  | cons t0 rest ih =>
    cases i with
    | zero => simp at h; simp [updAt, h]
    | succ i => simp at h; simp [updAt, ih h]

theorem length_updAt (l : List Task) (i : Nat) (f : Task → Task) : (updAt l i f).length = l.length := by
  induction l generalizing i with
  | nil => simp [updAt]
  | cons t rest ih => cases i <;> simp [updAt, ih]

theorem total_updAt {l : List Task} {i : Nat} {f : Task → Task} {t : Task} (h : l[i]? = some t) :
    total (updAt l i f) + t.w = total l + (f t).w := by
  induction l generalizing i with
  | nil => simp at h
  | cons t0 rest ih =>
    cases i with
    | zero => simp at h; subst h; simp [updAt, total]; omega
    | succ i => simp at h; have := ih h; simp [updAt, total]; omega

theorem mem_of_getElem? {l : List Task} {i : Nat} {t : Task} (h : l[i]? = some t) : t ∈ l :=
  List.mem_of_getElem? h

theorem exists_getElem?_of_mem {l : List Task} {t : Task} (h : t ∈ l) : ∃ i : Nat, l[i]? = some t := by
  obtain ⟨i, hi, he⟩ := List.getElem_of_mem h
  exact ⟨i, by simp [List.getElem?_eq_getElem hi, he]⟩

/-! ## ScheduleM: invariant -/

/-- per-task invariant of the repaired life cycle -/
structure TInv (c : SCfg) (t : Task) : Prop where
  dead : t.live = false → t.phase = .done ∧ t.cstage = .released ∧ t.recorded = true
  recd : t.recorded = true → t.cstage = .released
  count : t.count = (if t.phase = .fresh ∨ t.phase = .done then 0 else 1)
  runs : t.runs = (if t.phase = .ran ∨ t.phase = .done then 1 else 0)
  toAdd : t.cstage = .toAdd ↔ t.phase = .fresh
  adding : t.cstage = .adding → t.byCaller = true ∧ (t.phase = .running ∨ t.phase = .ran)
  awaited : (c.inlineNoWorkers && c.workers == 0) = true → t.phase ≠ .done → t.phase ≠ .fresh →
      t.cstage = .adding ∨ t.cstage = .waiting

structure SInv (c : SCfg) (s : SSt) : Prop where
  uaf : s.uaf = false
  tasks : ∀ t ∈ s.tasks, TInv c t

theorem sinv_onTask (c : SCfg) (s s' : SSt) (i : Nat) (guard : Task → Bool) (f : Task → Task) (touches : Bool)
    (h : SInv c s) (hn : onTask s i guard f touches = some s')
    (hlive : ∀ t, TInv c t → guard t = true → touches = true → t.live = true)
    (hf : ∀ t, TInv c t → guard t = true → TInv c (f t)) : SInv c s' := by
  simp only [onTask] at hn
  split at hn
  · simp at hn
  · next t ht =>
    split at hn
    · next hg =>
      cases hn
      have hti := h.tasks t (mem_of_getElem? ht)
      constructor
      · simp only [h.uaf, Bool.false_or, Bool.and_eq_false_imp, Bool.not_eq_false']
        intro htc
        simpa using hlive t hti hg htc
      · intro x hx
        rcases mem_updAt hx with hx | ⟨t', ht', rfl⟩
        · exact h.tasks x hx
        · rw [ht] at ht'; cases ht'
          exact hf t hti hg
    · simp at hn

theorem sinv_init (c : SCfg) : SInv c sInit := ⟨rfl, by simp [sInit]⟩

theorem tinv_new (c : SCfg) (h : c.wfMem = true) : TInv c (newTask c) := by
  simp only [SCfg.wfMem, Bool.and_eq_true, Bool.not_eq_true'] at h
  obtain ⟨⟨⟨h1, h2⟩, h3⟩, h4⟩ := h
  constructor <;> simp_all [newTask]

theorem afterAdd_cases (c : SCfg) :
    (afterAdd c = .waiting ∧ (c.inlineNoWorkers && c.workers == 0) = true) ∨
      (afterAdd c = .recording ∧ (c.inlineNoWorkers && c.workers == 0) = false) := by
  simp only [afterAdd]; split <;> simp_all

set_option hygiene false in
local macro "tlive" : tactic =>
  `(tactic| (intro t ht hg _
             rcases t with ⟨ph, bc, cs, lv, cnt, rc, rn⟩
             rcases ht with ⟨h1, h2, h3, h4, h5, h6, h7⟩
             cases ph <;> (try (simp at hg; done)) <;> cases lv <;> simp_all))

set_option hygiene false in
local macro "tstep" : tactic =>
  `(tactic| (intro t ht hg
             rcases t with ⟨ph, bc, cs, lv, cnt, rc, rn⟩
             rcases ht with ⟨h1, h2, h3, h4, h5, h6, h7⟩
             cases ph <;> (try (simp at hg; done)) <;> cases cs <;> (try (simp_all; done)) <;>
               rcases haa with ⟨ha, hb⟩ | ⟨ha, hb⟩ <;> constructor <;> simp_all))

theorem sinv_step (c : SCfg) (hwf : c.wfMem = true) (s : SSt) (a : SAct) (s' : SSt)
    (h : SInv c s) (hn : sNext c s a = some s') : SInv c s' := by
  have hnew := tinv_new c hwf
  simp only [SCfg.wfMem, Bool.and_eq_true, Bool.not_eq_true'] at hwf
  obtain ⟨⟨⟨hsd, hdet⟩, hra⟩, hrg⟩ := hwf
  have haa := afterAdd_cases c
  cases a with
  | sched =>
    simp only [sNext, Option.some.injEq] at hn
    subst hn
    exact ⟨h.uaf, by
      intro t ht
      simp only [List.mem_cons] at ht
      rcases ht with rfl | ht
      · exact hnew
      · exact h.tasks t ht⟩
  | add i inl =>
    simp only [sNext] at hn
    refine sinv_onTask c s s' i _ _ _ h hn ?_ ?_
    · tlive
    · cases inl <;> tstep
  | popW i =>
    simp only [sNext] at hn
    split at hn
    · refine sinv_onTask c s s' i _ _ _ h hn ?_ ?_
      · tlive
      · tstep
    · simp at hn
  | popC i =>
    simp only [sNext] at hn
    split at hn
    · refine sinv_onTask c s s' i _ _ _ h hn ?_ ?_
      · tlive
      · tstep
    · simp at hn
  | run i =>
    simp only [sNext] at hn
    refine sinv_onTask c s s' i _ _ _ h hn ?_ ?_
    · tlive
    · tstep
  | dec i =>
    simp only [sNext] at hn
    refine sinv_onTask c s s' i _ _ _ h hn ?_ ?_
    · tlive
    · tstep
  | waitRet i =>
    simp only [sNext] at hn
    refine sinv_onTask c s s' i _ _ _ h hn ?_ ?_
    · tlive
    · tstep
  | record i =>
    simp only [sNext] at hn
    refine sinv_onTask c s s' i _ _ _ h hn ?_ ?_
    · tlive
    · tstep
  | reap i =>
    simp only [sNext] at hn
    refine sinv_onTask c s s' i _ _ _ h hn ?_ ?_
    · tlive
    · tstep

/-! ## ScheduleM: termination measure and absence of stuck states -/

theorem onTask_some {s : SSt} {i : Nat} {guard : Task → Bool} {f : Task → Task} {touches : Bool} {t : Task}
    (ht : s.tasks[i]? = some t) (hg : guard t = true) : (onTask s i guard f touches).isSome = true := by
  simp [onTask, ht, hg]

theorem total_onTask {s s' : SSt} {i : Nat} {guard : Task → Bool} {f : Task → Task} {touches : Bool}
    (hn : onTask s i guard f touches = some s') (hdec : ∀ t, guard t = true → (f t).w < t.w) :
    total s'.tasks < total s.tasks := by
  simp only [onTask] at hn
  split at hn
  · simp at hn
  · next t ht =>
    split at hn
    · next hg =>
      cases hn
      have := total_updAt (f := f) ht
      have := hdec t hg
      simp only
      omega
    · simp at hn

set_option hygiene false in
local macro "wdec" : tactic =>
  `(tactic| (intro t hg
             rcases t with ⟨ph, bc, cs, lv, cnt, rc, rn⟩
             cases ph <;> (try (simp at hg; done)) <;> cases cs <;> (try (simp at hg; done)) <;> cases lv <;>
               simp_all [Task.w, Phase.w, CStage.w] <;> (try split) <;> (try omega)))

theorem measure_decreases (c : SCfg) (s : SSt) (a : SAct) (s' : SSt) (hint : a.internal = true)
    (hn : sNext c s a = some s') : total s'.tasks < total s.tasks := by
  rcases afterAdd_cases c with ⟨ha, _⟩ | ⟨ha, _⟩ <;> cases a with
  | sched => simp [SAct.internal] at hint
  | add i inl =>
    simp only [sNext] at hn
    refine total_onTask hn ?_
    cases inl <;> wdec
  | popW i =>
    simp only [sNext] at hn
    split at hn
    · refine total_onTask hn ?_
      wdec
    · simp at hn
  | popC i =>
    simp only [sNext] at hn
    split at hn
    · refine total_onTask hn ?_
      wdec
    · simp at hn
  | run i => simp only [sNext] at hn; refine total_onTask hn ?_; wdec
  | dec i => simp only [sNext] at hn; refine total_onTask hn ?_; wdec
  | waitRet i => simp only [sNext] at hn; refine total_onTask hn ?_; wdec
  | record i => simp only [sNext] at hn; refine total_onTask hn ?_; wdec
  | reap i => simp only [sNext] at hn; refine total_onTask hn ?_; wdec

theorem busyW_zero {s : SSt} (h : ∀ t ∈ s.tasks, t.phase ≠ .running ∧ t.phase ≠ .ran) : busyW s = 0 := by
  simp only [busyW, List.countP_eq_zero]
  intro t ht
  have := h t ht
  simp [Task.executing, this.1, this.2]

/-- a well-formed configuration has no stuck state: while some task has not completed its life cycle,
    some internal step is enabled -/
theorem not_stuck (c : SCfg) (hl : c.wfLive = true) (s : SSt) (h : SInv c s) (t : Task)
    (ht : t ∈ s.tasks) (hnd : t.phase ≠ .done) :
    ∃ a : SAct, a.internal = true ∧ (sNext c s a).isSome = true := by
  by_cases hex : ∃ t' ∈ s.tasks, t'.phase = .fresh ∨ t'.phase = .running ∨ t'.phase = .ran
  · obtain ⟨t', ht', hp⟩ := hex
    obtain ⟨i, hi⟩ := exists_getElem?_of_mem ht'
    have hinv := h.tasks t' ht'
    rcases hp with hp | hp | hp
    · refine ⟨.add i false, rfl, ?_⟩
      simp only [sNext]
      exact onTask_some hi (by simp [hp, hinv.toAdd.mpr hp])
    · refine ⟨.run i, rfl, ?_⟩
      simp only [sNext]
      exact onTask_some hi (by simp [hp])
    · refine ⟨.dec i, rfl, ?_⟩
      simp only [sNext]
      exact onTask_some hi (by simp [hp])
  · have hall : ∀ t' ∈ s.tasks, t'.phase ≠ .fresh ∧ t'.phase ≠ .running ∧ t'.phase ≠ .ran := by
      intro t' ht'
      refine ⟨?_, ?_, ?_⟩ <;> intro hp <;> exact hex ⟨t', ht', by simp [hp]⟩
    have hq : t.phase = .queued := by
      have := hall t ht
      cases hp : t.phase <;> simp_all
    obtain ⟨i, hi⟩ := exists_getElem?_of_mem ht
    by_cases hw : 1 ≤ c.workers
    · refine ⟨.popW i, rfl, ?_⟩
      have hb : busyW s = 0 := busyW_zero (fun t' ht' => ⟨(hall t' ht').2.1, (hall t' ht').2.2⟩)
      simp only [sNext, hb]
      rw [if_pos (by omega)]
      exact onTask_some hi (by simp [hq])
    · have hin : (c.inlineNoWorkers && c.workers == 0) = true := by
        simp only [SCfg.wfLive, Bool.or_eq_true, decide_eq_true_eq] at hl
        rcases hl with hl | hl
        · omega
        · simp [hl]; omega
      have hinv := h.tasks t ht
      have hcs := hinv.awaited hin hnd (by simp [hq])
      have hwt : t.cstage = .waiting := by
        rcases hcs with hcs | hcs
        · have := (hinv.adding hcs).2
          simp [hq] at this
        · exact hcs
      refine ⟨.popC i, rfl, ?_⟩
      have hcw : callerWaiting s = true := by
        simp only [callerWaiting, List.any_eq_true]
        exact ⟨t, ht, by simp [hwt]⟩
      simp only [sNext, hcw, if_true]
      exact onTask_some hi (by simp [hq])

end RkVerif.C02
