/-
Helper lemmas for C02: the inductive invariant of AsyncTaskM for every well-formed class table,
list lemmas for the task list of ScheduleM, its per-task invariant and the termination measure.
-/
import RkVerif.Model.C02
namespace RkVerif.C02

/-! ## generic -/

theorem reach_of_runActs {σ α : Type} (next : σ → α → Option σ) (init : σ) :
    ∀ (acts : List α) (s : σ), runActs next init acts = some s → Reach next init s := by
  intro acts
  induction acts with
  | nil => intro s h; simp [runActs] at h; subst h; exact .init
  | cons a earlier ih =>
    intro s h
    simp only [runActs] at h
    split at h
    · next s0 h0 => exact .step a (ih s0 h0) h
    · simp at h

theorem reach_inv {σ α : Type} {next : σ → α → Option σ} {init : σ} (P : σ → Prop)
    (h0 : P init) (hstep : ∀ s a s', P s → next s a = some s' → P s') :
    ∀ s, Reach next init s → P s := by
  intro s h
  induction h with
  | init => exact h0
  | step a _ hn ih => exact hstep _ a _ ih hn

/-! ## AsyncTaskM -/

/-- what the controller's position implies -/
def CtlInv (s : ASt) : Prop :=
  match s.ctl with
  | .ctor rest => okOrder rest s.finBuilt (!s.ret.isRaw) s.started = true
  | .idle => s.started = true
  | .getWait => s.started = true
  | .inWait => s.started = true
  | .dtorWait => s.started = true
  | .getRead => s.started = true ∧ (s.fin = true ∨ s.completed = true)
  | .dtorMembers => s.started = true ∧ s.completed = true
  | .gone => s.started = true ∧ s.completed = true

/-- the inductive invariant (for a well-formed table) -/
structure AInv (s : ASt) : Prop where
  err : s.err = false
  late : s.lateWrite = false
  bad : s.badGet = false
  lied : s.finishedLied = false
  prog : okProg s.trest s.ret.isRes s.fin = true
  notStarted : s.started = false → s.completed = false ∧ s.fin = false ∧ s.ret ≠ .res
  compl : s.completed = true → s.trest = []
  built : s.started = true → s.finBuilt = true ∧ s.ret ≠ .raw
  ctl : CtlInv s

theorem okProg_fin {l : List TaskOp} {a : Bool} (h : okProg l a true = true) : a = true := by
  cases l with
  | nil => simp [okProg] at h; exact h
  | cons op rest => cases op <;> simp [okProg] at h; exact h.1

theorem okProg_nil {a f : Bool} (h : okProg [] a f = true) : a = true ∧ f = true := by
  simpa [okProg] using h

theorem ainv_fin_res {s : ASt} (h : AInv s) (hf : s.fin = true) : s.ret = .res := by
  have := h.prog
  rw [hf] at this
  have := okProg_fin this
  cases hr : s.ret <;> simp_all [Slot.isRes]

theorem ainv_completed_res {s : ASt} (h : AInv s) (hc : s.completed = true) : s.ret = .res ∧ s.fin = true := by
  have := h.prog
  rw [h.compl hc] at this
  have := okProg_nil this
  cases hr : s.ret <;> simp_all [Slot.isRes]

theorem ainv_init (t : Table) (hwf : t.wf = true) : AInv (aInit t) := by
  simp only [Table.wf, Bool.and_eq_true] at hwf
  obtain ⟨⟨⟨⟨ho, hfi⟩, hp⟩, _⟩, _⟩ := hwf
  constructor
  case prog =>
    show okProg t.taskProg Slot.raw.isRes (!t.flagInit) = true
    rw [hfi]; exact hp
  all_goals simp_all [aInit, CtlInv, Slot.isRaw]

theorem ainv_step (t : Table) (hwf : t.wf = true) (s : ASt) (a : AAct) (s' : ASt)
    (h : AInv s) (hn : aNext t s a = some s') : AInv s' := by
  simp only [Table.wf, Bool.and_eq_true] at hwf
  obtain ⟨⟨⟨⟨_, hfi⟩, _⟩, hdw⟩, hgk⟩ := hwf
  obtain ⟨herr, hlate, hbad, hlied, hprog, hns, hcompl, hbuilt, hctl⟩ := h
  obtain ⟨ctl, ret, finBuilt, fin, started, trest, completed, err, lateWrite, badGet, finishedLied⟩ := s
  simp only at herr hlate hbad hlied hprog hns hcompl hbuilt
  subst herr hlate hbad hlied
  cases a with
  | task =>
    simp only [aNext] at hn
    split at hn
    · next hen =>
      simp only [Bool.and_eq_true, Bool.not_eq_true'] at hen
      obtain ⟨hst, hnc⟩ := hen
      subst hst hnc
      obtain ⟨hfb, hraw⟩ := hbuilt rfl
      subst hfb
      have hrb : ret = .dflt ∨ ret = .res := by cases ret <;> simp_all
      clear hraw
      split at hn
      · next op rest =>
        cases hn
        cases op
        · simp only [okProg, Bool.and_eq_true, Bool.not_eq_true'] at hprog
          obtain ⟨hf, hp⟩ := hprog
          subst hf
          rcases hrb with rfl | rfl <;> constructor <;> cases ctl <;> simp_all [taskOp, CtlInv, Ctl.isGone, Slot.isRaw, Slot.isRes]
        · simp only [okProg, Bool.and_eq_true] at hprog
          obtain ⟨hr, hp⟩ := hprog
          rcases hrb with rfl | rfl <;> constructor <;> cases ctl <;> simp_all [taskOp, CtlInv, Ctl.isGone, Slot.isRaw, Slot.isRes]
      · cases hn
        have := okProg_nil hprog
        rcases hrb with rfl | rfl <;> constructor <;> cases ctl <;> simp_all [CtlInv, Ctl.isGone, Slot.isRaw, Slot.isRes]
    · simp at hn
  | ctl =>
    cases ctl with
    | ctor rest =>
      cases rest with
      | nil =>
        simp only [aNext, Option.some.injEq] at hn
        subst hn
        constructor <;> simp_all [CtlInv, okOrder]
      | cons m rest =>
        simp only [aNext, Option.some.injEq] at hn
        subst hn
        simp only [CtlInv] at hctl
        cases m <;> simp only [okOrder, Bool.and_eq_true, Bool.not_eq_true'] at hctl
        · obtain ⟨⟨hs, hf⟩, ho⟩ := hctl
          subst hs hf
          have := hns rfl
          constructor <;> simp_all [construct, CtlInv]
        · obtain ⟨⟨hs, hr⟩, ho⟩ := hctl
          subst hs
          have := hns rfl
          constructor <;> simp_all [construct, CtlInv, Slot.isRaw, Slot.isRes]
        · obtain ⟨⟨⟨hf, hr⟩, hs⟩, ho⟩ := hctl
          subst hs hf
          have := hns rfl
          cases ret <;> constructor <;> simp_all [construct, CtlInv, Slot.isRaw, Slot.isRes]
    | idle => simp [aNext] at hn
    | gone => simp [aNext] at hn
    | getWait =>
      simp only [aNext] at hn
      split at hn
      · cases hn
        constructor <;> simp_all [CtlInv]
      · simp at hn
    | inWait =>
      simp only [aNext] at hn
      split at hn
      · cases hn
        constructor <;> simp_all [CtlInv]
      · simp at hn
    | dtorWait =>
      simp only [aNext] at hn
      split at hn
      · cases hn
        constructor <;> simp_all [CtlInv]
      · simp at hn
    | dtorMembers =>
      simp only [aNext, Option.some.injEq] at hn
      subst hn
      constructor <;> simp_all [CtlInv]
    | getRead =>
      simp only [aNext, Option.some.injEq] at hn
      subst hn
      simp only [CtlInv] at hctl
      obtain ⟨hst, hfc⟩ := hctl
      have hres : ret = .res := by
        rcases hfc with hf | hc
        · exact ainv_fin_res (s := ⟨.getRead, ret, finBuilt, fin, started, trest, completed, false, false, false, false⟩)
            ⟨rfl, rfl, rfl, rfl, hprog, hns, hcompl, hbuilt, ⟨hst, .inl hf⟩⟩ hf
        · exact (ainv_completed_res (s := ⟨.getRead, ret, finBuilt, fin, started, trest, completed, false, false, false, false⟩)
            ⟨rfl, rfl, rfl, rfl, hprog, hns, hcompl, hbuilt, ⟨hst, .inr hc⟩⟩ hc).1
      subst hres
      constructor <;> simp_all [CtlInv, Slot.isRaw, Slot.isRes]
  | callFinished =>
    cases ctl <;> simp only [aNext, Option.some.injEq, reduceCtorEq] at hn
    subst hn
    have hres : fin = true → ret = .res := fun hf =>
      ainv_fin_res (s := ⟨.idle, ret, finBuilt, fin, started, trest, completed, false, false, false, false⟩)
        ⟨rfl, rfl, rfl, rfl, hprog, hns, hcompl, hbuilt, hctl⟩ hf
    cases fin
    · constructor <;> simp_all [CtlInv]
    · have := hres rfl
      subst this
      constructor <;> simp_all [CtlInv, Slot.isRes]
  | callGet =>
    cases ctl <;> simp only [aNext, Option.some.injEq, reduceCtorEq] at hn
    subst hn
    simp only [CtlInv] at hctl
    have hk : t.getKind = .checkThenWait ∨ t.getKind = .alwaysWait := by
      cases hk : t.getKind <;> simp_all
    rcases hk with hk | hk
    · cases fin <;> constructor <;> simp_all [CtlInv, getEntry]
    · constructor <;> simp_all [CtlInv, getEntry]
  | callWait =>
    cases ctl <;> simp only [aNext, Option.some.injEq, reduceCtorEq] at hn
    subst hn
    constructor <;> simp_all [CtlInv]
  | callDtor =>
    cases ctl <;> simp only [aNext, Option.some.injEq, reduceCtorEq] at hn
    subst hn
    constructor <;> simp_all [CtlInv]

/-! ## ScheduleM: list lemmas -/

theorem mem_updAt {l : List Task} {i : Nat} {f : Task → Task} {x : Task} (h : x ∈ updAt l i f) :
    x ∈ l ∨ ∃ t, l[i]? = some t ∧ x = f t := by
  induction l generalizing i with
  | nil => simp [updAt] at h
  | cons t rest ih =>
    cases i with
    | zero =>
      simp only [updAt, List.mem_cons] at h
      rcases h with h | h
      · exact .inr ⟨t, by simp, h⟩
      · exact .inl (List.mem_cons_of_mem _ h)
    | succ i =>
      simp only [updAt, List.mem_cons] at h
      rcases h with h | h
      · exact .inl (by simp [h])
      · rcases ih h with h | ⟨t', ht', hx⟩
        · exact .inl (List.mem_cons_of_mem _ h)
        · exact .inr ⟨t', by simpa using ht', hx⟩

theorem getElem?_updAt_self {l : List Task} {i : Nat} {f : Task → Task} {t : Task} (h : l[i]? = some t) :
    (updAt l i f)[i]? = some (f t) := by
  induction l generalizing i with
  | nil => simp at h
  | cons t0 rest ih =>
    cases i with
    | zero => simp at h; simp [updAt, h]
    | succ i => simp at h; simp [updAt, ih h]

theorem length_updAt (l : List Task) (i : Nat) (f : Task → Task) : (updAt l i f).length = l.length := by
  induction l generalizing i with
  | nil => simp [updAt]
  | cons t rest ih => cases i <;> simp [updAt, ih]

theorem total_updAt {l : List Task} {i : Nat} {f : Task → Task} {t : Task} (h : l[i]? = some t) :
    total (updAt l i f) + t.w = total l + (f t).w := by
  induction l generalizing i with
  | nil => simp at h
  | cons t0 rest ih =>
    cases i with
    | zero => simp at h; subst h; simp [updAt, total]; omega
    | succ i => simp at h; have := ih h; simp [updAt, total]; omega

theorem mem_of_getElem? {l : List Task} {i : Nat} {t : Task} (h : l[i]? = some t) : t ∈ l :=
  List.mem_of_getElem? h

theorem exists_getElem?_of_mem {l : List Task} {t : Task} (h : t ∈ l) : ∃ i, l[i]? = some t := by
  obtain ⟨i, hi, he⟩ := List.getElem_of_mem h
  exact ⟨i, by simp [List.getElem?_eq_getElem hi, he]⟩

/-! ## ScheduleM: invariant -/

/-- per-task invariant of the repaired life cycle -/
structure TInv (c : SCfg) (t : Task) : Prop where
  dead : t.live = false → t.phase = .done ∧ t.cstage = .released ∧ t.recorded = true
  recd : t.recorded = true → t.cstage = .released
  count : t.count = (if t.phase = .fresh ∨ t.phase = .done then 0 else 1)
  runs : t.runs = (if t.phase = .ran ∨ t.phase = .done then 1 else 0)
  toAdd : t.cstage = .toAdd ↔ t.phase = .fresh
  adding : t.cstage = .adding → t.byCaller = true ∧ (t.phase = .running ∨ t.phase = .ran)
  awaited : (c.inlineNoWorkers && c.workers == 0) = true → t.phase ≠ .done → t.phase ≠ .fresh →
      t.cstage = .adding ∨ t.cstage = .waiting

structure SInv (c : SCfg) (s : SSt) : Prop where
  uaf : s.uaf = false
  tasks : ∀ t ∈ s.tasks, TInv c t

theorem sinv_onTask (c : SCfg) (s s' : SSt) (i : Nat) (guard : Task → Bool) (f : Task → Task) (touches : Bool)
    (h : SInv c s) (hn : onTask s i guard f touches = some s')
    (hlive : ∀ t, TInv c t → guard t = true → touches = true → t.live = true)
    (hf : ∀ t, TInv c t → guard t = true → TInv c (f t)) : SInv c s' := by
  simp only [onTask] at hn
  split at hn
  · simp at hn
  · next t ht =>
    split at hn
    · next hg =>
      cases hn
      have hti := h.tasks t (mem_of_getElem? ht)
      constructor
      · simp only [h.uaf, Bool.false_or, Bool.and_eq_false_imp, Bool.not_eq_false']
        intro htc
        simpa using hlive t hti hg htc
      · intro x hx
        rcases mem_updAt hx with hx | ⟨t', ht', rfl⟩
        · exact h.tasks x hx
        · rw [ht] at ht'; cases ht'
          exact hf t hti hg
    · simp at hn

end RkVerif.C02
