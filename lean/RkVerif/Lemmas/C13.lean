/-
Helper lemmas for C13: closed form of the state after a history, the thread-creation loop,
pigeonhole for duplicate-free lists.
-/
import RkVerif.Model.C13

namespace RkVerif.C13

/-! ### StartThreads loop -/

theorem startThreadsLoop_eq (n : Nat) : ∀ (fuel t : Nat), n - t ≤ fuel →
    startThreadsLoop n fuel t = List.range' t (n - t) := by
  intro fuel
  induction fuel with
  | zero =>
    intro t h
    have : n - t = 0 := by omega
    simp [startThreadsLoop, this]
  | succ f ih =>
    intro t h
    simp only [startThreadsLoop]
    split
    · have e : n - t = (n - (t + 1)) + 1 := by omega
      rw [ih (t + 1) (by omega), e, List.range'_succ]
    · have : n - t = 0 := by omega
      simp [this]

theorem startThreads_eq (n : Nat) : startThreads n = List.range' 1 (n - 1) := by
  simp [startThreads, startThreadsLoop_eq n n 1 (by omega)]

theorem startThreads_length (n : Nat) : (startThreads n).length = n - 1 := by
  simp [startThreads_eq]

theorem mem_startThreads (n i : Nat) : i ∈ startThreads n ↔ 1 ≤ i ∧ i < n := by
  rw [startThreads_eq, List.mem_range'_1]
  omega

theorem startThreads_nodup (n : Nat) : (startThreads n).Nodup := by
  simp [startThreads_eq, List.nodup_range']

/-! ### Closed form of the state after a history -/

/-- most recent `init` with `n > 0` -/
def lastPos : List Op → Option Nat
  | [] => none
  | .init n :: earlier => if n > 0 then some n.toNat else lastPos earlier
  | _ :: earlier => lastPos earlier

def handleOf (b : Backend) (n : Int) : Handle :=
  { numThreads := n, gc := if b = .tbb ∧ n > 0 then some n.toNat else none }

def schedOf (hw : Nat) : List Op → Option Sched
  | [] => none
  | .init n :: _ => some (initTaskSystemInternal hw (if n ≤ 0 then -1 else n))
  | .pfor :: earlier => match schedOf hw earlier with
    | some sc => some sc
    | none => some (initTaskSystemInternal hw (-1))
  | .num :: earlier => schedOf hw earlier

def closed (b : Backend) (hw : Nat) (hist : List Op) : St :=
  { handle := (lastInit hist).map (handleOf b)
    gcs := match lastInit hist with
      | some n => if b = .tbb ∧ n > 0 then [n.toNat] else []
      | none => []
    ompN := if b = .omp then lastPos hist else none
    sched := if b = .internal then schedOf hw hist else none }

def isInit : Op → Bool
  | .init _ => true
  | _ => false

theorem lastInit_none_of_noInit (hist : List Op) (h : ∀ op ∈ hist, isInit op = false) : lastInit hist = none := by
  induction hist with
  | nil => rfl
  | cons op earlier ih =>
    cases op with
    | init n => simp [isInit] at h
    | pfor => simpa [lastInit] using ih (fun o ho => h o (List.mem_cons_of_mem _ ho))
    | num => simpa [lastInit] using ih (fun o ho => h o (List.mem_cons_of_mem _ ho))

theorem lastPos_none_of_noInit (hist : List Op) (h : ∀ op ∈ hist, isInit op = false) : lastPos hist = none := by
  induction hist with
  | nil => rfl
  | cons op earlier ih =>
    cases op with
    | init n => simp [isInit] at h
    | pfor => simpa [lastPos] using ih (fun o ho => h o (List.mem_cons_of_mem _ ho))
    | num => simpa [lastPos] using ih (fun o ho => h o (List.mem_cons_of_mem _ ho))

theorem lastInit_append_noInit (later : List Op) (n : Int) (hist : List Op)
    (hl : ∀ op ∈ later, isInit op = false) : lastInit (later ++ .init n :: hist) = some n := by
  induction later with
  | nil => rfl
  | cons op rest ih =>
    have hr := ih (fun o ho => hl o (List.mem_cons_of_mem _ ho))
    cases op with
    | init m => simp [isInit] at hl
    | pfor => simpa [lastInit] using hr
    | num => simpa [lastInit] using hr

theorem lastPos_of_lastInit_pos (hist : List Op) (n : Int) :
    lastInit hist = some n → n > 0 → lastPos hist = some n.toNat := by
  induction hist with
  | nil => simp [lastInit]
  | cons op earlier ih =>
    intro hl hn
    cases op with
    | init m =>
      simp only [lastInit, Option.some.injEq] at hl
      subst hl
      simp [lastPos, hn]
    | pfor => simpa [lastPos] using ih (by simpa [lastInit] using hl) hn
    | num => simpa [lastPos] using ih (by simpa [lastInit] using hl) hn

theorem schedOf_of_lastInit (hw : Nat) (hist : List Op) (n : Int) :
    lastInit hist = some n → schedOf hw hist = some (initTaskSystemInternal hw (if n ≤ 0 then -1 else n)) := by
  induction hist with
  | nil => simp [lastInit]
  | cons op earlier ih =>
    intro hl
    cases op with
    | init m =>
      simp only [lastInit, Option.some.injEq] at hl
      subst hl
      simp [schedOf]
    | pfor =>
      have := ih (by simpa [lastInit] using hl)
      simp [schedOf, this]
    | num => simpa [schedOf] using ih (by simpa [lastInit] using hl)

theorem lastPos_pos (hist : List Op) (k : Nat) (h : lastPos hist = some k) : k > 0 := by
  induction hist with
  | nil => simp [lastPos] at h
  | cons op earlier ih =>
    cases op with
    | init n =>
      simp only [lastPos] at h
      split at h
      · simp only [Option.some.injEq] at h; omega
      · exact ih h
    | pfor => exact ih (by simpa [lastPos] using h)
    | num => exact ih (by simpa [lastPos] using h)

theorem erase_pair (a b : Nat) : [a, b].erase b = [a] := by
  by_cases h : a = b
  · subst h; simp
  · have : (a == b) = false := by simpa using h
    simp [this]

theorem step_closed (b : Backend) (hw : Nat) (hist : List Op) (op : Op) :
    step b hw (closed b hw hist) op = closed b hw (op :: hist) := by
  cases op with
  | num => simp [step, closed, lastInit, lastPos, schedOf]
  | pfor =>
    cases b <;> simp [step, closed, parallelFor, lastInit, lastPos, schedOf]
    cases schedOf hw hist <;> simp
  | init n =>
    cases b <;> cases hl : lastInit hist <;> by_cases hn : n > 0 <;>
      simp [step, closed, initTaskingSystem, initMid, construct, destroy, handleOf, lastInit, lastPos,
        schedOf, hl, hn]
    all_goals
      rename_i m
      by_cases hm : 0 < m <;> simp [hm, erase_pair]

theorem runR_eq_closed (b : Backend) (hw : Nat) (hist : List Op) : runR b hw hist = closed b hw hist := by
  induction hist with
  | nil => simp [runR, closed, lastInit, lastPos, schedOf]
  | cons op earlier ih => rw [runR, ih, step_closed]

/-! ### Pigeonhole: a duplicate-free list inside `A` is no longer than `A` -/

theorem nodup_subset_length {α : Type} [DecidableEq α] :
    ∀ (L A : List α), L.Nodup → (∀ x ∈ L, x ∈ A) → L.length ≤ A.length := by
  intro L
  induction L with
  | nil => intro A _ _; simp
  | cons x L ih =>
    intro A hnd hsub
    have hx : x ∈ A := hsub x (by simp)
    have hnd' := List.nodup_cons.mp hnd
    have hsub' : ∀ y ∈ L, y ∈ A.erase x := by
      intro y hy
      have hne : y ≠ x := by
        intro h; subst h; exact hnd'.1 hy
      exact (List.mem_erase_of_ne hne).mpr (hsub y (by simp [hy]))
    have := ih (A.erase x) hnd'.2 hsub'
    rw [List.length_erase_of_mem hx] at this
    have hpos : 0 < A.length := List.length_pos_of_mem hx
    simp only [List.length_cons]
    omega

theorem dedup_nodup (l : List Thread) : (dedup l).Nodup := by
  induction l with
  | nil => simp [dedup]
  | cons t ts ih =>
    simp only [dedup]
    split
    · exact ih
    · rename_i h
      exact List.nodup_cons.mpr ⟨by simpa using h, ih⟩

theorem mem_dedup (l : List Thread) (t : Thread) : t ∈ dedup l ↔ t ∈ l := by
  induction l with
  | nil => simp [dedup]
  | cons x xs ih =>
    simp only [dedup]
    split
    · rename_i h
      have hx : x ∈ dedup xs := by simpa using h
      constructor
      · intro h'; exact List.mem_cons_of_mem _ (ih.mp h')
      · intro h'
        rcases List.mem_cons.mp h' with h' | h'
        · subst h'; exact hx
        · exact ih.mpr h'
    · simp [ih]

/-! ### The scheduler's thread set -/

def membersList (numThreads externals : Nat) : List Thread :=
  (List.range externals).map Thread.ext ++ (startThreads numThreads).map Thread.worker

theorem membersList_length (n e : Nat) : (membersList n e).length = e + (n - 1) := by
  simp [membersList, startThreads_length]

theorem member_mem (s : Sys) (t : Thread) (h : s.member t = true) :
    t ∈ membersList 0 s.externals ++ s.workers.map Thread.worker := by
  cases t with
  | ext e => simp [Sys.member] at h; simp [membersList, startThreads_eq, h]
  | worker i => simp [Sys.member] at h; simp [h]

theorem mem_popFrame (t : Thread) (fs : List Frame) (f : Frame) (h : f ∈ popFrame t fs) : f ∈ fs := by
  induction fs with
  | nil => simp [popFrame] at h
  | cons g gs ih =>
    simp only [popFrame] at h
    split at h
    · exact List.mem_cons_of_mem _ h
    · rcases List.mem_cons.mp h with h | h
      · subst h; simp
      · exact List.mem_cons_of_mem _ (ih h)

/-! ### Reported value after the last init -/

/-- The value `numTaskingThreads()` must report after `initTaskingSystem(n)`, `n > 0`. -/
def expected (b : Backend) (n : Int) : Int := if b = .debug then 1 else n

/-- Reported value as a function of the history, while the last `init` had `n > 0`:
    later loops and queries do not change it. -/
theorem backendThreads_of_lastInit_pos (b : Backend) (hw : Nat) (hist : List Op) (n : Int)
    (hl : lastInit hist = some n) (hn : n > 0) :
    (backendThreads b hw (runR b hw hist) : Int) = expected b n := by
  rw [runR_eq_closed]
  have hpos := lastPos_of_lastInit_pos hist n hl hn
  have hsch : schedOf hw hist = some (initTaskSystemInternal hw n) := by
    have := schedOf_of_lastInit hw hist n hl
    have h0 : ¬ n ≤ 0 := by omega
    simpa [h0] using this
  have h1 : ¬ n < 1 := by omega
  cases b <;>
    simp [backendThreads, closed, hl, hn, hpos, hsch, expected, tbbActive, listMin, initTaskSystemInternal, h1] <;>
    omega

/-! ### Reachability and the inductive invariant of the scheduler -/

/-- States reachable from a freshly initialised scheduler by any sequence of enabled actions
    of any threads (every interleaving, any length). -/
inductive Reachable (n e : Nat) : Sys → Prop where
  | boot : Reachable n e (Sys.boot n e)
  | step {s s' : Sys} {a : Act} : Reachable n e s → s.step a = some s' → Reachable n e s'

/-- Inductive invariant: the thread set is fixed and every activation is on one of its threads. -/
def SysInv (n e : Nat) (s : Sys) : Prop :=
  s.workers = startThreads n ∧ s.externals = e ∧ ∀ f ∈ s.frames, s.member f.thread = true

theorem sysInv_boot (n e : Nat) : SysInv n e (Sys.boot n e) := by
  simp [SysInv, Sys.boot]

theorem sysInv_step (n e : Nat) (s s' : Sys) (a : Act) (hi : SysInv n e s) (hs : s.step a = some s') :
    SysInv n e s' := by
  obtain ⟨hw, he, hf⟩ := hi
  cases a with
  | add t k =>
    simp only [Sys.step] at hs
    split at hs
    · simp only [Option.some.injEq] at hs; subst hs
      exact ⟨hw, he, hf⟩
    · simp at hs
  | run t =>
    simp only [Sys.step] at hs
    split at hs
    · rename_i hc
      simp only [Option.some.injEq] at hs; subst hs
      refine ⟨hw, he, ?_⟩
      intro f hfm
      rcases List.mem_cons.mp hfm with h | h
      · subst h
        have : s.member t = true := by
          simp only [Bool.and_eq_true] at hc; exact hc.1
        simpa [Sys.member] using this
      · simpa [Sys.member] using hf f h
    · simp at hs
  | inline t =>
    simp only [Sys.step] at hs
    split at hs
    · rename_i hc
      simp only [Option.some.injEq] at hs; subst hs
      refine ⟨hw, he, ?_⟩
      intro f hfm
      rcases List.mem_cons.mp hfm with h | h
      · subst h
        have : s.member t = true := by
          simp only [Sys.mayAdd, Bool.and_eq_true] at hc; exact hc.1
        simpa [Sys.member] using this
      · simpa [Sys.member] using hf f h
    · simp at hs
  | ret t =>
    simp only [Sys.step] at hs
    split at hs
    · simp only [Option.some.injEq] at hs; subst hs
      refine ⟨hw, he, ?_⟩
      intro f hfm
      simpa [Sys.member] using hf f (mem_popFrame t s.frames f hfm)
    · simp at hs

theorem sysInv_reachable (n e : Nat) (s : Sys) (h : Reachable n e s) : SysInv n e s := by
  induction h with
  | boot => exact sysInv_boot n e
  | step _ hs ih => exact sysInv_step n e _ _ _ ih hs

theorem inBody_member (n e : Nat) (s : Sys) (hi : SysInv n e s) (t : Thread) (h : s.inBody t = true) :
    t ∈ membersList n e := by
  obtain ⟨hw, he, hf⟩ := hi
  simp only [Sys.inBody, List.any_eq_true] at h
  obtain ⟨f, hfm, hft⟩ := h
  have hft' : f.thread = t := by simpa using hft
  have hm := hf f hfm
  rw [hft'] at hm
  cases t with
  | ext x =>
    simp only [Sys.member, decide_eq_true_eq] at hm
    simp [membersList, ← he, hm]
  | worker i =>
    simp only [Sys.member, List.contains_eq_mem, decide_eq_true_eq] at hm
    simp [membersList, ← hw, hm]

theorem reachable_exec (n e : Nat) (s : Sys) (h : Reachable n e s) (acts : List Act) (s' : Sys)
    (hx : s.exec acts = some s') : Reachable n e s' := by
  induction acts generalizing s with
  | nil => simp only [Sys.exec, Option.some.injEq] at hx; subst hx; exact h
  | cons a rest ih =>
    simp only [Sys.exec] at hx
    split at hx
    · rename_i s1 hs1
      exact ih s1 (Reachable.step h hs1) hx
    · simp at hx

end RkVerif.C13
