/-
Helper lemmas for C01 §2 (Sched), liveness: a lexicographic progress measure that every internal step of the
enkiTS task-set path strictly decreases, and the absence of stuck states.
-/
import RkVerif.Lemmas.C01
namespace RkVerif.C01

/-! ### progress measure of the task-set path (liveness under fairness) -/

def lt3 (a b : Nat × Nat × Nat) : Prop :=
  a.1 < b.1 ∨ (a.1 = b.1 ∧ (a.2.1 < b.2.1 ∨ (a.2.1 = b.2.1 ∧ a.2.2 < b.2.2)))

theorem lt3_wf : WellFounded lt3 := by
  have hw : WellFounded (Prod.Lex (fun a b : Nat => a < b) (Prod.Lex (fun a b : Nat => a < b) (fun a b : Nat => a < b))) :=
    (Prod.lex Nat.lt_wfRel (Prod.lex Nat.lt_wfRel Nat.lt_wfRel)).wf
  refine Subrelation.wf ?_ hw
  intro a b h
  obtain ⟨a1, a2, a3⟩ := a
  obtain ⟨b1, b2, b3⟩ := b
  rcases h with h | ⟨h1, h | ⟨h2, h3⟩⟩
  · exact Prod.Lex.left _ _ h
  · simp only at h1 h; subst h1; exact Prod.Lex.right _ (Prod.Lex.left _ _ h)
  · simp only at h1 h2 h3; subst h1; subst h2; exact Prod.Lex.right _ (Prod.Lex.right _ h3)

def optLen : Option Part → Nat
  | some p => p.e - p.s
  | none => 0

def jobPot (j : Job) : Nat :=
  (if j.cont.isNone then 6 else 4) * ((j.e - j.s) + optLen j.pend) + 2 * optLen j.cont

def qPot (rtr : Nat → Nat) (p : Part) : Nat := (if rtr p.tid < p.e - p.s then 5 else 3) * (p.e - p.s)

def iPot (p : Part) : Nat := p.e - p.s

def phi1 (s : State) : Nat := sumBy jobPot s.jobs + sumBy (qPot s.rtr) s.queued + sumBy iPot s.inflight
def phi2 (s : State) : Nat := sumBy (fun j => j.e - j.s) s.jobs
def phi3 (s : State) : Nat := 2 * s.jobs.length + s.inflight.length
def mu (s : State) : Nat × Nat × Nat := (phi1 s, phi2 s, phi3 s)

/-- the actions a scheduler thread takes on its own (everything except handing over a new task set) -/
def Act.internal : Act → Bool
  | .add .. => false
  | _ => true

/-- task sets are added with a minimum range of at least 1 (`ITaskSet::m_MinRange` defaults to 1 and
    `parallel_for_internal` never changes it) -/
def Act.ok : Act → Prop
  | .add _ mr _ _ => 1 ≤ mr
  | _ => True

structure LInv (s : State) : Prop where
  rtrPos : ∀ t, t < s.nsets → 1 ≤ s.rtr t
  jobs : ∀ j ∈ s.jobs, 1 ≤ j.rts ∧
    (∀ p, j.pend = some p → p.s < p.e ∧ (j.cont ≠ none → p.e - p.s ≤ s.rtr j.tid)) ∧
    (∀ c, j.cont = some c → c.s < c.e) ∧ (j.cont ≠ none → j.rts = s.rtr j.tid)
  queued : ∀ q ∈ s.queued, q.s < q.e

theorem linv_init : LInv init := by
  constructor <;> simp [init]

theorem pick_length {α : Type} : ∀ (l : List α) (k : Nat) (a : α) (r : List α),
    pick l k = some (a, r) → l.length = r.length + 1
  | [], _, _, _, h => by simp [pick] at h
  | x :: l, 0, a, r, h => by simp [pick] at h; obtain ⟨rfl, rfl⟩ := h; simp
  | x :: l, k + 1, a, r, h => by
    simp only [pick] at h
    cases hp : pick l k with
    | none => simp [hp] at h
    | some br =>
      obtain ⟨b, r'⟩ := br
      simp [hp] at h; obtain ⟨rfl, rfl⟩ := h
      have := pick_length l k b r' hp
      simp; omega

set_option linter.unusedSimpArgs false

theorem live_take (s s' : State) (k : Nat) (h : Inv s) (hl : LInv s) (hs : step false s (.take k) = some s') :
    LInv s' ∧ lt3 (mu s') (mu s) := by
  simp only [step] at hs
  cases hp : pick s.jobs k with
  | none => simp [hp] at hs
  | some jr =>
    obtain ⟨j, rest⟩ := jr
    simp only [hp] at hs
    split at hs
    · rename_i hc
      simp only [splitTask, Option.some.injEq] at hs
      subst hs
      have hsum := fun f => pick_sum f s.jobs k j rest hp
      have hlen := pick_length s.jobs k j rest hp
      have hmem := pick_mem _ _ _ _ hp
      obtain ⟨hj1, hj2, hj3, hj4, hj5⟩ := h.wfJ j hmem.1
      obtain ⟨lj1, lj2, lj3, lj4⟩ := hl.jobs j hmem.1
      have hpn : j.pend = none := by cases hjp : j.pend <;> simp_all
      have hne : j.s ≠ j.e := hc.2
      refine ⟨⟨hl.rtrPos, ?_, hl.queued⟩, ?_⟩
      · intro j' hj'
        simp only [List.mem_cons] at hj'
        rcases hj' with rfl | hj'
        · refine ⟨lj1, ?_, lj3, lj4⟩
          intro p hp'
          simp only [Option.some.injEq] at hp'
          subst hp'
          simp only
          constructor
          · split <;> omega
          · intro hcn
            have := lj4 hcn
            split <;> omega
        · exact hl.jobs j' (hmem.2 j' hj')
      · right
        refine ⟨?_, Or.inl ?_⟩
        · simp only [mu, phi1, hsum jobPot, sumBy, jobPot, optLen, hpn]
          split <;> split <;> omega
        · simp only [mu, phi2, hsum (fun j => j.e - j.s), sumBy]
          split <;> omega
    · simp at hs

theorem live_push (s s' : State) (k : Nat) (h : Inv s) (hl : LInv s) (hs : step false s (.push k) = some s') :
    LInv s' ∧ lt3 (mu s') (mu s) := by
  simp only [step] at hs
  cases hp : pick s.jobs k with
  | none => simp [hp] at hs
  | some jr =>
    obtain ⟨j, rest⟩ := jr
    simp only [hp] at hs
    cases hpd : j.pend with
    | none => simp [hpd] at hs
    | some p =>
      simp only [hpd, Option.some.injEq] at hs
      subst hs
      have hsum := fun f => pick_sum f s.jobs k j rest hp
      have hmem := pick_mem _ _ _ _ hp
      obtain ⟨hj1, hj2, hj3, hj4, hj5⟩ := h.wfJ j hmem.1
      obtain ⟨lj1, lj2, lj3, lj4⟩ := hl.jobs j hmem.1
      obtain ⟨p1, p2⟩ := lj2 p hpd
      obtain ⟨q1, q2, q3⟩ := hj4 p hpd
      refine ⟨⟨hl.rtrPos, ?_, ?_⟩, ?_⟩
      · intro j' hj'
        simp only [List.mem_cons] at hj'
        rcases hj' with rfl | hj'
        · exact ⟨lj1, by simp, lj3, lj4⟩
        · exact hl.jobs j' (hmem.2 j' hj')
      · intro q hq
        simp only [List.mem_cons] at hq
        rcases hq with rfl | hq
        · exact p1
        · exact hl.queued q hq
      · left
        simp only [mu, phi1, hsum jobPot, sumBy, jobPot, optLen, hpd, qPot]
        cases hcn : j.cont with
        | none => simp only [Option.isNone_none, ↓reduceIte]; split <;> omega
        | some c =>
          have := p2 (by simp [hcn])
          rw [q1] at *
          simp only [Option.isNone_some, Bool.false_eq_true, ↓reduceIte]
          split <;> omega

theorem live_inline (s s' : State) (k : Nat) (h : Inv s) (hl : LInv s) (hs : step false s (.inline k) = some s') :
    LInv s' ∧ lt3 (mu s') (mu s) := by
  simp only [step] at hs
  cases hp : pick s.jobs k with
  | none => simp [hp] at hs
  | some jr =>
    obtain ⟨j, rest⟩ := jr
    simp only [hp] at hs
    cases hpd : j.pend with
    | none => simp [hpd] at hs
    | some p =>
      simp only [hpd, inlineAdjust, Bool.false_eq_true, ↓reduceIte] at hs
      have hsum := fun f => pick_sum f s.jobs k j rest hp
      have hmem := pick_mem _ _ _ _ hp
      obtain ⟨hj1, hj2, hj3, hj4, hj5⟩ := h.wfJ j hmem.1
      obtain ⟨lj1, lj2, lj3, lj4⟩ := hl.jobs j hmem.1
      obtain ⟨p1, p2⟩ := lj2 p hpd
      obtain ⟨q1, q2, q3⟩ := hj4 p hpd
      have hr := hl.rtrPos j.tid hj1
      by_cases hc : s.rtr j.tid < p.e - p.s
      · simp only [hc, ↓reduceIte, Option.some.injEq] at hs
        subst hs
        refine ⟨⟨hl.rtrPos, ?_, hl.queued⟩, ?_⟩
        · intro j' hj'
          simp only [List.mem_cons] at hj'
          rcases hj' with rfl | hj'
          · exact ⟨lj1, by simp, lj3, lj4⟩
          · exact hl.jobs j' (hmem.2 j' hj')
        · left
          simp only [mu, phi1, hsum jobPot, sumBy, jobPot, optLen, hpd, iPot]
          split <;> omega
      · simp only [hc, ↓reduceIte, Option.some.injEq] at hs
        subst hs
        refine ⟨⟨hl.rtrPos, ?_, hl.queued⟩, ?_⟩
        · intro j' hj'
          simp only [List.mem_cons] at hj'
          rcases hj' with rfl | hj'
          · exact ⟨lj1, by simp, lj3, lj4⟩
          · exact hl.jobs j' (hmem.2 j' hj')
        · left
          simp only [mu, phi1, hsum jobPot, sumBy, jobPot, optLen, hpd, iPot]
          split <;> omega

theorem live_jobDone (s s' : State) (k : Nat) (_h : Inv s) (hl : LInv s) (hs : step false s (.jobDone k) = some s') :
    LInv s' ∧ lt3 (mu s') (mu s) := by
  simp only [step] at hs
  cases hp : pick s.jobs k with
  | none => simp [hp] at hs
  | some jr =>
    obtain ⟨j, rest⟩ := jr
    simp only [hp] at hs
    have hsum := fun f => pick_sum f s.jobs k j rest hp
    have hlen := pick_length s.jobs k j rest hp
    have hmem := pick_mem _ _ _ _ hp
    obtain ⟨lj1, lj2, lj3, lj4⟩ := hl.jobs j hmem.1
    split at hs
    · rename_i hc
      have hpn : j.pend = none := by cases hjp : j.pend <;> simp_all
      cases hcn : j.cont with
      | none =>
        simp only [hcn, Option.some.injEq] at hs
        subst hs
        refine ⟨⟨hl.rtrPos, fun j' hj' => hl.jobs j' (hmem.2 j' hj'), hl.queued⟩, ?_⟩
        right
        refine ⟨?_, Or.inr ⟨?_, ?_⟩⟩
        · simp only [mu, phi1, hsum jobPot, sumBy, jobPot, optLen, hpn, hcn]
          have := hc.2
          simp; omega
        · simp only [mu, phi2, hsum (fun j => j.e - j.s), sumBy]
          have := hc.2
          omega
        · simp only [mu, phi3, hlen]; omega
      | some c =>
        simp only [hcn, Option.some.injEq] at hs
        subst hs
        have hcl := lj3 c hcn
        refine ⟨⟨hl.rtrPos, fun j' hj' => hl.jobs j' (hmem.2 j' hj'), hl.queued⟩, ?_⟩
        left
        simp only [mu, phi1, hsum jobPot, sumBy, jobPot, optLen, hpn, hcn, iPot]
        have := hc.2
        simp; omega
    · simp at hs

theorem live_pop (s s' : State) (k : Nat) (h : Inv s) (hl : LInv s) (hs : step false s (.pop k) = some s') :
    LInv s' ∧ lt3 (mu s') (mu s) := by
  simp only [step] at hs
  cases hp : pick s.queued k with
  | none => simp [hp] at hs
  | some qr =>
    obtain ⟨q, rest⟩ := qr
    simp only [hp] at hs
    have hsum := fun f => pick_sum f s.queued k q rest hp
    have hmem := pick_mem _ _ _ _ hp
    obtain ⟨w1, w2, w3⟩ := h.wfQ q hmem.1
    have hq := hl.queued q hmem.1
    have hr := hl.rtrPos q.tid w1
    by_cases hc : s.rtr q.tid < q.e - q.s
    · simp only [hc, ↓reduceIte, splitTask, Option.some.injEq] at hs
      subst hs
      have hng : ¬ (s.rtr q.tid > q.e - q.s) := by omega
      refine ⟨⟨hl.rtrPos, ?_, fun x hx => hl.queued x (hmem.2 x hx)⟩, ?_⟩
      · intro j' hj'
        simp only [List.mem_cons] at hj'
        rcases hj' with rfl | hj'
        · refine ⟨hr, by simp, ?_, by simp⟩
          intro c hc'
          simp only [Option.some.injEq] at hc'
          subst hc'
          simp only [hng, ↓reduceIte]; omega
        · exact hl.jobs j' hj'
      · left
        simp only [mu, phi1, hsum (qPot s.rtr), sumBy, jobPot, optLen, qPot, hc, hng, ↓reduceIte,
          Option.isNone_some, Bool.false_eq_true]
        omega
    · simp only [hc, ↓reduceIte, Option.some.injEq] at hs
      subst hs
      refine ⟨⟨hl.rtrPos, hl.jobs, fun x hx => hl.queued x (hmem.2 x hx)⟩, ?_⟩
      left
      simp only [mu, phi1, hsum (qPot s.rtr), sumBy, qPot, hc, ↓reduceIte, iPot]
      omega

theorem live_exec (s s' : State) (k : Nat) (hl : LInv s) (hs : step false s (.exec k) = some s') :
    LInv s' ∧ lt3 (mu s') (mu s) := by
  simp only [step] at hs
  cases hp : pick s.inflight k with
  | none => simp [hp] at hs
  | some pr =>
    obtain ⟨p, rest⟩ := pr
    simp only [hp] at hs
    have hsum := fun f => pick_sum f s.inflight k p rest hp
    split at hs
    · rename_i hc
      simp only [Option.some.injEq] at hs
      subst hs
      refine ⟨⟨hl.rtrPos, hl.jobs, hl.queued⟩, ?_⟩
      left
      simp only [mu, phi1, hsum iPot, sumBy, iPot]
      omega
    · simp at hs

theorem live_finish (s s' : State) (k : Nat) (hl : LInv s) (hs : step false s (.finish k) = some s') :
    LInv s' ∧ lt3 (mu s') (mu s) := by
  simp only [step] at hs
  cases hp : pick s.inflight k with
  | none => simp [hp] at hs
  | some pr =>
    obtain ⟨p, rest⟩ := pr
    simp only [hp] at hs
    have hsum := fun f => pick_sum f s.inflight k p rest hp
    have hlen := pick_length s.inflight k p rest hp
    split at hs
    · simp at hs
    · rename_i hc
      simp only [Option.some.injEq] at hs
      subst hs
      refine ⟨⟨hl.rtrPos, hl.jobs, hl.queued⟩, ?_⟩
      right
      refine ⟨?_, Or.inr ⟨rfl, ?_⟩⟩
      · simp only [mu, phi1, hsum iPot, sumBy, iPot]
        omega
      · simp only [mu, phi3, hlen]; omega

theorem live_add (s s' : State) (sz mr np ni : Nat) (h : Inv s) (hl : LInv s) (hmr : 1 ≤ mr)
    (hs : step false s (.add sz mr np ni) = some s') : LInv s' := by
  simp only [step, Option.some.injEq] at hs
  subst hs
  refine ⟨?_, ?_, hl.queued⟩
  · intro t ht
    simp only at ht
    simp only [upd]
    by_cases e : t = s.nsets
    · simp only [e, ↓reduceIte]; split <;> omega
    · simp only [e, ↓reduceIte]; exact hl.rtrPos t (by omega)
  · intro j hj
    simp only [List.mem_cons] at hj
    rcases hj with rfl | hj
    · refine ⟨?_, by simp, by simp, by simp⟩
      simp only; split <;> omega
    · obtain ⟨a, b, c, d⟩ := hl.jobs j hj
      have hjt := (h.wfJ j hj).1
      have hne : j.tid ≠ s.nsets := by omega
      refine ⟨a, ?_, c, ?_⟩
      · intro p hp
        obtain ⟨b1, b2⟩ := b p hp
        exact ⟨b1, fun hcn => by simp only [upd, hne, ↓reduceIte]; exact b2 hcn⟩
      · intro hcn
        simp only [upd, hne, ↓reduceIte]; exact d hcn

/-- reachable states when every task set is handed over with `m_MinRange ≥ 1` -/
inductive ReachableOk : State → Prop where
  | init : ReachableOk init
  | step {s s' : State} (a : Act) : ReachableOk s → a.ok → step false s a = some s' → ReachableOk s'

theorem reachable_of_ok (s : State) (h : ReachableOk s) : Reachable s := by
  induction h with
  | init => exact Reachable.init
  | step a _ _ hs ih => exact Reachable.step a ih hs

theorem live_step (s s' : State) (a : Act) (h : Inv s) (hl : LInv s) (hok : a.ok) (hs : step false s a = some s') :
    LInv s' ∧ (a.internal = true → lt3 (mu s') (mu s)) := by
  cases a with
  | add sz mr np ni => exact ⟨live_add s s' sz mr np ni h hl hok hs, by simp [Act.internal]⟩
  | take k => exact ⟨(live_take s s' k h hl hs).1, fun _ => (live_take s s' k h hl hs).2⟩
  | push k => exact ⟨(live_push s s' k h hl hs).1, fun _ => (live_push s s' k h hl hs).2⟩
  | inline k => exact ⟨(live_inline s s' k h hl hs).1, fun _ => (live_inline s s' k h hl hs).2⟩
  | jobDone k => exact ⟨(live_jobDone s s' k h hl hs).1, fun _ => (live_jobDone s s' k h hl hs).2⟩
  | pop k => exact ⟨(live_pop s s' k h hl hs).1, fun _ => (live_pop s s' k h hl hs).2⟩
  | exec k => exact ⟨(live_exec s s' k hl hs).1, fun _ => (live_exec s s' k hl hs).2⟩
  | finish k => exact ⟨(live_finish s s' k hl hs).1, fun _ => (live_finish s s' k hl hs).2⟩

theorem linv_reachable (s : State) (h : ReachableOk s) : LInv s := by
  induction h with
  | init => exact linv_init
  | step a hr hok hs ih => exact (live_step _ _ a (inv_reachable _ (reachable_of_ok _ hr)) ih hok hs).1

/-- some internal action is enabled whenever anything is still queued, in flight, or being split -/
theorem progress (s : State) (hne : s.jobs ≠ [] ∨ s.queued ≠ [] ∨ s.inflight ≠ []) :
    ∃ a, a.internal = true ∧ (step false s a).isSome = true := by
  cases hi : s.inflight with
  | cons p rest =>
    by_cases hc : p.s < p.e
    · exact ⟨.exec 0, rfl, by simp [step, hi, pick, hc]⟩
    · exact ⟨.finish 0, rfl, by simp [step, hi, pick, hc]⟩
  | nil =>
    cases hq : s.queued with
    | cons q rest =>
      by_cases hc : s.rtr q.tid < q.e - q.s
      · exact ⟨.pop 0, rfl, by simp [step, hq, pick, hc]⟩
      · exact ⟨.pop 0, rfl, by simp [step, hq, pick, hc]⟩
    | nil =>
      cases hj : s.jobs with
      | nil => simp [hi, hq, hj] at hne
      | cons j rest =>
        cases hp : j.pend with
        | some p => exact ⟨.push 0, rfl, by simp [step, hj, pick, hp]⟩
        | none =>
          by_cases hc : j.s = j.e
          · cases hcn : j.cont with
            | none => exact ⟨.jobDone 0, rfl, by simp [step, hj, pick, hp, hc, hcn]⟩
            | some c => exact ⟨.jobDone 0, rfl, by simp [step, hj, pick, hp, hc, hcn]⟩
          · exact ⟨.take 0, rfl, by simp [step, hj, pick, hp, hc, splitTask]⟩
end RkVerif.C01
