/-
Helper layer for the C07 theorems (Mathlib side; never imported by the driver):
 * `CNum.ofFieldX E` — the scalar class of the model instantiated at an arbitrary linearly ordered field, with
   FLT_MIN, `pow` and `sqrt` as parameters (`E : Ext α`) about which each theorem states what it needs;
 * unfolding lemmas: every model definition at that instance equals the plain field expression;
 * two generic facts on `|a*b - 1|` used by the rounding-error analysis.
-/
import Mathlib.Algebra.Order.Field.Basic
import Mathlib.Algebra.Order.AbsoluteValue.Basic
import Mathlib.Order.MinMax
import Mathlib.Tactic.Ring
import Mathlib.Tactic.FieldSimp
import Mathlib.Tactic.Linarith
import Mathlib.Tactic.NormNum
import Mathlib.Tactic.NormNum.OfScientific
import Mathlib.Tactic.Positivity
import RkVerif.Model.C07

namespace RkVerif.C07
open RkVerif

/-- `linear_to_srgba8` is `pack4` of three `srgb8` channels and the clamped-below alpha (any scalar) -/
theorem srgba8_channels_gen {α : Type} [CNum α] (rnd : α → Nat) (x y z w : α) :
    linear_to_srgba8 rnd x y z w = pack4 (srgb8 rnd x) (srgb8 rnd y) (srgb8 rnd z) (cvt_uint32 rnd (max w 0)) := rfl

/-- parameters of the field instance: FLT_MIN and the two library functions -/
structure Ext (α : Type) where
  fmin : α
  pow : α → α → α
  sqrt : α → α

@[reducible] def _root_.RkVerif.CNum.ofFieldX (α : Type) [Field α] [LinearOrder α] [IsStrictOrderedRing α] (E : Ext α) : CNum α where
  add := (· + ·)
  sub := (· - ·)
  mul := (· * ·)
  div := (· / ·)
  neg := (- ·)
  mod a _ := a
  lt := (· < ·)
  le := (· ≤ ·)
  min := Min.min
  max := Max.max
  ofNat n := (n : α)
  ofScientific m s e := (OfScientific.ofScientific m s e : α)
  ofInt n := (n : α)
  toInt _ := 0
  decLt := inferInstance
  decLe := inferInstance
  beq a b := decide (a = b)
  abs a := |a|
  sqrt := E.sqrt
  sin a := a
  cos a := a
  tan a := a
  acos a := a
  asin a := a
  atan2 a _ := a
  floor a := a
  pow := E.pow
  exp a := a
  posInf := 0
  negInf := 0
  pi := 0
  nan := 0
  ulp := 0
  fltMin := E.fmin
  rcpEst a := a
  rsqrtEst a := a

section
variable {α : Type} [Field α] [LinearOrder α] [IsStrictOrderedRing α] (E : Ext α)
local notation "𝔽" => CNum.ofFieldX α E

theorem ofFieldX_ofNat (n : Nat) :
    (@OfNat.ofNat α n (@instOfNatOfCNum α 𝔽 n)) = (n : α) := rfl
theorem ofFieldX_ofScientific (m : Nat) (s : Bool) (e : Nat) :
    (@OfScientific.ofScientific α (@instOfScientificOfCNum α 𝔽) m s e) = (OfScientific.ofScientific m s e : α) := rfl
theorem ofFieldX_cofNat (n : Nat) : @CNum.ofNat α 𝔽 n = (n : α) := rfl
theorem ofFieldX_abs (x : α) : @CNum.abs α 𝔽 x = |x| := rfl
theorem ofFieldX_fltMin : @CNum.fltMin α 𝔽 = E.fmin := rfl
theorem ofFieldX_sqrt (x : α) : @CNum.sqrt α 𝔽 x = E.sqrt x := rfl
theorem ofFieldX_pow (x y : α) : @CNum.pow α 𝔽 x y = E.pow x y := rfl

/-! ### the model at a field is the plain field expression -/

theorem sign_eq (x : α) : @sign α 𝔽 x = if x < 0 then -1 else 1 := by
  simp only [sign, ofFieldX_ofNat, Nat.cast_zero, Nat.cast_one]

theorem rcp_simd_eq (x r : α) : @rcp_simd α 𝔽 x r = r * (2 - r * x) := by
  simp only [rcp_simd, ofFieldX_ofNat]

theorem rcp_nosimd_eq (x : α) : @rcp_nosimd α 𝔽 x = 1 / x := by
  simp only [rcp_nosimd, ofFieldX_ofNat]; norm_num

theorem rcp_safe_arg_eq (x : α) :
    @rcp_safe_arg α 𝔽 x = if |x| < E.fmin then (if 0 ≤ x then E.fmin else -E.fmin) else x := by
  simp only [rcp_safe_arg, ofFieldX_ofNat, ofFieldX_abs, ofFieldX_fltMin, Nat.cast_zero]

theorem rsqrt_simd_eq (x r : α) : @rsqrt_simd α 𝔽 x r = 3 / 2 * r + ((x * -(1 / 2)) * r) * (r * r) := by
  simp only [rsqrt_simd, ofFieldX_ofScientific]; norm_num

theorem rsqrt_nosimd_eq (x : α) : @rsqrt_nosimd α 𝔽 x = 1 / E.sqrt x := by
  simp only [rsqrt_nosimd, ofFieldX_ofNat, ofFieldX_sqrt, Nat.cast_one]

theorem clamp_eq (x lo hi : α) : @clamp α 𝔽 x lo hi = max (min x hi) lo := rfl

theorem deg2rad_eq (x : α) :
    @deg2rad α 𝔽 x = x * (1745329251994329576923690768489 / 100000000000000000000000000000000) := by
  simp only [deg2rad, ofFieldX_ofScientific]; norm_num

theorem madd_eq (a b c : α) : @madd α 𝔽 a b c = a * b + c := rfl

theorem lerp_eq (f a b : α) : @lerp α 𝔽 f a b = (1 - f) * a + f * b := by
  simp only [lerp, ofFieldX_ofNat]; norm_num

theorem linear_to_srgb_eq (f : α) : @linear_to_srgb α 𝔽 f = E.pow (max f 0) (5 / 11) := by
  simp only [linear_to_srgb, ofFieldX_ofNat, ofFieldX_ofScientific, ofFieldX_pow]; norm_num

theorem cvt_uint32_eq (rnd : α → Nat) (f : α) : @cvt_uint32 α 𝔽 rnd f = rnd (255 * max (min f 1) 0) := by
  simp only [cvt_uint32, clamp, ofFieldX_ofNat]; norm_num

theorem biased_float_eq (k : Nat) (lo hi : α) :
    @biased_float α 𝔽 k lo hi = (1 / 4294967296 * (k : α)) * (hi - lo) + lo := by
  simp only [biased_float, ofFieldX_ofScientific, ofFieldX_cofNat]; norm_num

theorem uniform_real_eq (l u : α) (gmin gmax g : Nat) :
    @uniform_real α 𝔽 l u gmin gmax g = l + ((sub32 g gmin : Nat) : α) * ((u - l) / ((sub32 gmax gmin : Nat) : α)) := rfl

theorem makeRandomColor_eq (i : Nat) :
    @makeRandomColor α 𝔽 i =
      let g := (i * 1905 + 12312314) % 4294967296
      (((g % 9503 : Nat) : α) * (1 / 9502), ((g % 319 : Nat) : α) * (1 / 318), ((g % 10143 : Nat) : α) * (1 / 10142)) := by
  simp only [makeRandomColor, ofFieldX_ofNat, ofFieldX_cofNat]; norm_num

end

/-! ### generic inequalities -/
section
variable {α : Type} [Field α] [LinearOrder α] [IsStrictOrderedRing α]

/-- `|a-1| ≤ p`, `|b-1| ≤ q` ⇒ `|a*b-1| ≤ p + q + p*q` -/
theorem abs_mul_sub_one_le {a b p q : α} (ha : |a - 1| ≤ p) (hb : |b - 1| ≤ q) :
    |a * b - 1| ≤ p + q + p * q := by
  have h : a * b - 1 = (a - 1) * (b - 1) + (a - 1) + (b - 1) := by ring
  have hp : 0 ≤ p := le_trans (abs_nonneg _) ha
  calc |a * b - 1| = |(a - 1) * (b - 1) + (a - 1) + (b - 1)| := by rw [h]
    _ ≤ |(a - 1) * (b - 1) + (a - 1)| + |b - 1| := abs_add_le _ _
    _ ≤ |(a - 1) * (b - 1)| + |a - 1| + |b - 1| := by linarith [abs_add_le ((a - 1) * (b - 1)) (a - 1)]
    _ = |a - 1| * |b - 1| + |a - 1| + |b - 1| := by rw [abs_mul]
    _ ≤ p * q + p + q := by
        have := mul_le_mul ha hb (abs_nonneg _) hp
        linarith
    _ = p + q + p * q := by ring

omit [IsStrictOrderedRing α] in
/-- a rounding factor: `|d| ≤ u` ⇒ `|(1+d) - 1| ≤ u` -/
theorem abs_one_add_sub_one {d u : α} (hd : |d| ≤ u) : |(1 + d) - 1| ≤ u := by
  simpa using hd

/-- Common last step of the two rounded range theorems: `inner = w + lo` with `0 ≤ w ≤ (hi-lo)·c` (`c ≥ 1` collects the
    rounding factors), then one more rounding `(1+d)`, `|d| ≤ u`; if `2(c-1) + (2c-1)u ≤ m` the result stays within
    `m·M` of `[lo, hi]`. -/
theorem margin_of_inner (w lo hi M c u m d : α) (hM : 0 ≤ M) (hc1 : 1 ≤ c) (hu : 0 ≤ u)
    (hnum : 2 * (c - 1) + (2 * c - 1) * u ≤ m)
    (hw0 : 0 ≤ w) (hw1 : w ≤ (hi - lo) * c) (hD2 : hi - lo ≤ 2 * M) (hlo : -M ≤ lo) (hhi : hi ≤ M) (hd : |d| ≤ u) :
    lo - m * M ≤ (w + lo) * (1 + d) ∧ (w + lo) * (1 + d) ≤ hi + m * M := by
  have hc0 : 0 ≤ c - 1 := sub_nonneg.mpr hc1
  have hDc : (hi - lo) * (c - 1) ≤ 2 * M * (c - 1) := mul_le_mul_of_nonneg_right hD2 hc0
  have e0 : (hi - lo) * c = (hi - lo) + (hi - lo) * (c - 1) := by ring
  have hi2 : w + lo ≤ hi + 2 * M * (c - 1) := by linarith
  have hMc : 0 ≤ 2 * M * (c - 1) := mul_nonneg (mul_nonneg (by norm_num) hM) hc0
  have hia : |w + lo| ≤ M + 2 * M * (c - 1) := by
    rw [abs_le]; constructor <;> linarith
  have hK : 0 ≤ M + 2 * M * (c - 1) := by linarith
  have hprod : |(w + lo) * d| ≤ (M + 2 * M * (c - 1)) * u := by
    rw [abs_mul]; exact mul_le_mul hia hd (abs_nonneg _) hK
  have bp := abs_le.mp hprod
  have hMn : M * (2 * (c - 1) + (2 * c - 1) * u) ≤ M * m := mul_le_mul_of_nonneg_left hnum hM
  have e1 : (w + lo) * (1 + d) = (w + lo) + (w + lo) * d := by ring
  have e2 : M * (2 * (c - 1) + (2 * c - 1) * u) = 2 * M * (c - 1) + (M + 2 * M * (c - 1)) * u := by ring
  have hKu : 0 ≤ (M + 2 * M * (c - 1)) * u := mul_nonneg hK hu
  rw [e1]
  constructor <;> linarith

end

end RkVerif.C07
