/- Helper lemmas for C10 (one-step facts about the model). Property theorems live in Props/C10.lean. -/
import RkVerif.Model.C10
set_option linter.unusedSectionVars false
namespace RkVerif.C10
variable {K V : Type} [DecidableEq K]

theorem lookup_none_iff (m : Items K V) (k : K) : lookup m k = none ↔ k ∉ keys m := by
  induction m with
  | nil => simp [lookup, keys]
  | cons a rest ih => grind [lookup, keys]

theorem mem_keys_of_lookup (m : Items K V) (k : K) (v : V) (h : lookup m k = some v) : k ∈ keys m := by
  have := lookup_none_iff m k; grind

theorem keys_set (m : Items K V) (k : K) (v : V) :
    keys (set m k v) = if k ∈ keys m then keys m else keys m ++ [k] := by
  induction m with
  | nil => simp [set, keys]
  | cons a rest ih => grind [set, keys]

theorem lookup_set_same (m : Items K V) (k : K) (v : V) : lookup (set m k v) k = some v := by
  induction m with
  | nil => simp [set, lookup]
  | cons a rest ih => grind [set, lookup]

theorem lookup_set_other (m : Items K V) (k k2 : K) (v : V) (h : k2 ≠ k) :
    lookup (set m k v) k2 = lookup m k2 := by
  induction m with
  | nil => grind [set, lookup]
  | cons a rest ih => grind [set, lookup]

theorem lookup_append_absent (m : Items K V) (k k2 : K) (d : V) (hk : lookup m k = none) :
    lookup (m ++ [(k, d)]) k2 = if k2 = k then some d else lookup m k2 := by
  induction m with
  | nil => grind [lookup]
  | cons a rest ih => grind [lookup]

theorem keys_erase (m : Items K V) (k : K) : keys (erase m k) = (keys m).filter (· ≠ k) := by
  induction m with
  | nil => simp [erase, keys]
  | cons a rest ih => grind [erase, keys]

theorem lookup_erase_same (m : Items K V) (k : K) : lookup (erase m k) k = none := by
  rw [lookup_none_iff, keys_erase]; simp

theorem lookup_erase_other (m : Items K V) (k k2 : K) (h : k2 ≠ k) :
    lookup (erase m k) k2 = lookup m k2 := by
  induction m with
  | nil => simp [erase, lookup]
  | cons a rest ih => grind [erase, lookup]

theorem nodup_snoc (l : List K) (k : K) (h : l.Nodup) (hk : k ∉ l) : (l ++ [k]).Nodup := by
  rw [List.nodup_append]; grind

/-! ParameterizedObject -/
variable {T A : Type} [DecidableEq T]

def pnames (ps : Params T A) : List String := ps.map (·.name)

theorem findParam_none_iff (ps : Params T A) (n : String) : findParam ps n = none ↔ n ∉ pnames ps := by
  induction ps with
  | nil => simp [findParam, pnames]
  | cons p rest ih => grind [findParam, pnames]

theorem findParam_name (ps : Params T A) (n : String) (p : Param T A) (h : findParam ps n = some p) :
    p.name = n := by
  induction ps with
  | nil => simp [findParam] at h
  | cons q rest ih => grind [findParam]

theorem pnames_set (ps : Params T A) (n : String) (t : T) (v : A) :
    pnames (setParam ps n t v) = if n ∈ pnames ps then pnames ps else pnames ps ++ [n] := by
  induction ps with
  | nil => simp [setParam, pnames]
  | cons p rest ih => grind [setParam, pnames]

theorem pnames_mark (ps : Params T A) (n : String) : pnames (markQueried ps n) = pnames ps := by
  induction ps with
  | nil => simp [markQueried, pnames]
  | cons p rest ih => grind [markQueried, pnames]

theorem pnames_remove_sublist (ps : Params T A) (n : String) :
    (pnames (removeParam ps n)).Sublist (pnames ps) := by
  induction ps with
  | nil => simp [removeParam, pnames]
  | cons p rest ih =>
    simp only [pnames] at ih
    by_cases h : p.name = n
    · simp [removeParam, pnames, h]
    · simp [removeParam, pnames, h, ih]

theorem findParam_mark_same (ps : Params T A) (n : String) (p : Param T A) (h : findParam ps n = some p) :
    findParam (markQueried ps n) n = some { p with query := true } := by
  induction ps with
  | nil => simp [findParam] at h
  | cons q rest ih => grind [findParam, markQueried]

theorem findParam_mark_other (ps : Params T A) (n n2 : String) (h : n2 ≠ n) :
    findParam (markQueried ps n) n2 = findParam ps n2 := by
  induction ps with
  | nil => simp [markQueried, findParam]
  | cons q rest ih => grind [findParam, markQueried]

theorem findParam_set_same (ps : Params T A) (n : String) (t : T) (v : A) :
    ∃ p, findParam (setParam ps n t v) n = some p ∧ p.tag = t ∧ p.val = v ∧
      p.query = ((findParam ps n).map (·.query)).getD false := by
  induction ps with
  | nil => simp [setParam, findParam]
  | cons q rest ih => grind [findParam, setParam]

theorem findParam_set_other (ps : Params T A) (n n2 : String) (t : T) (v : A) (h : n2 ≠ n) :
    findParam (setParam ps n t v) n2 = findParam ps n2 := by
  induction ps with
  | nil => grind [setParam, findParam]
  | cons q rest ih => grind [findParam, setParam]

theorem findParam_remove_same (ps : Params T A) (n : String) (hn : (pnames ps).Nodup) :
    findParam (removeParam ps n) n = none := by
  induction ps with
  | nil => simp [removeParam, findParam]
  | cons q rest ih =>
    have := findParam_none_iff rest n
    grind [findParam, removeParam, pnames]

theorem findParam_remove_other (ps : Params T A) (n n2 : String) (h : n2 ≠ n) :
    findParam (removeParam ps n) n2 = findParam ps n2 := by
  induction ps with
  | nil => simp [removeParam, findParam]
  | cons q rest ih => grind [findParam, removeParam]

theorem findParam_reset (ps : Params T A) (n : String) :
    findParam (resetQuery ps) n = (findParam ps n).map (fun p => { p with query := false }) := by
  induction ps with
  | nil => simp [resetQuery, findParam]
  | cons q rest ih =>
    simp only [resetQuery] at ih
    grind [findParam, resetQuery]

end RkVerif.C10
