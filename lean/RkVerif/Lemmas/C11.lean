/- Helper lemmas for C11: heap primitives, the inductive invariant `Inv` and its preservation. -/
import RkVerif.Model.C11
set_option linter.unusedVariables false
namespace RkVerif.C11

/-! ### lists -/

theorem getD_set {α : Type} (l : List α) (i j : Nat) (x d : α) :
    (l.set i x).getD j d = if i = j ∧ i < l.length then x else l.getD j d := by grind

/-! ### heap primitives -/

theorem cellAt_alloc_old (h : Heap) (t : Tag) (xs : List Nat) (a : Nat) (ha : a < h.length) :
    cellAt (alloc h t xs).1 a = cellAt h a := by
  simp [cellAt, alloc, List.getD_eq_getElem?_getD, List.getElem?_append_left ha]

theorem cellAt_alloc_new (h : Heap) (t : Tag) (xs : List Nat) :
    cellAt (alloc h t xs).1 (alloc h t xs).2 = ⟨true, t, xs⟩ := by
  simp [cellAt, alloc, List.getD_eq_getElem?_getD]

theorem alloc_length (h : Heap) (t : Tag) (xs : List Nat) : (alloc h t xs).1.length = h.length + 1 := by
  simp [alloc]

theorem alloc_id (h : Heap) (t : Tag) (xs : List Nat) : (alloc h t xs).2 = h.length := rfl

theorem free_length (h : Heap) (a : Nat) : (free h a).length = h.length := by simp [free]
theorem write_length (h : Heap) (a k v : Nat) : (write h a k v).length = h.length := by simp [write]

theorem cellAt_free (h : Heap) (a x : Nat) :
    cellAt (free h a) x = if a = x ∧ a < h.length then { cellAt h a with live := false } else cellAt h x := by
  simp only [cellAt, free, getD_set]

theorem cellAt_free_ne (h : Heap) (a x : Nat) (hx : x ≠ a) : cellAt (free h a) x = cellAt h x := by
  rw [cellAt_free]; simp [Ne.symm hx]

theorem cellAt_write (h : Heap) (a k v x : Nat) :
    cellAt (write h a k v) x =
      if a = x ∧ a < h.length then { cellAt h a with data := (cellAt h a).data.set k v } else cellAt h x := by
  simp only [cellAt, write, getD_set]

theorem cellAt_write_ne (h : Heap) (a k v x : Nat) (hx : x ≠ a) : cellAt (write h a k v) x = cellAt h x := by
  rw [cellAt_write]; simp [Ne.symm hx]

theorem cellAt_oob (h : Heap) (a : Nat) (ha : h.length ≤ a) : cellAt h a = deadCell := by
  simp [cellAt, List.getD_eq_getElem?_getD, List.getElem?_eq_none ha]

theorem liveAt_lt (h : Heap) (a : Nat) (hl : liveAt h a = true) : a < h.length := by
  by_cases ha : a < h.length
  · exact ha
  · have := cellAt_oob h a (by omega); simp [liveAt, this, deadCell] at hl

/-- what a heap transformation keeps of an allocation -/
structure Keeps (h h' : Heap) (a : Nat) : Prop where
  live : liveAt h' a = liveAt h a
  tag : (cellAt h' a).tag = (cellAt h a).tag
  len : lenAt h' a = lenAt h a

theorem keeps_of_cell {h h' : Heap} {a : Nat} (e : cellAt h' a = cellAt h a) : Keeps h h' a :=
  ⟨by simp [liveAt, e], by simp [e], by simp [lenAt, e]⟩

theorem keeps_write (h : Heap) (a k v x : Nat) : Keeps h (write h a k v) x := by
  rw [show write h a k v = write h a k v from rfl]
  refine ⟨?_, ?_, ?_⟩ <;> simp only [liveAt, lenAt, cellAt_write] <;> split <;> simp_all

theorem keeps_refl (h : Heap) (a : Nat) : Keeps h h a := ⟨rfl, rfl, rfl⟩

theorem keeps_trans {h1 h2 h3 : Heap} {a : Nat} (x : Keeps h1 h2 a) (y : Keeps h2 h3 a) : Keeps h1 h3 a :=
  ⟨y.live.trans x.live, y.tag.trans x.tag, y.len.trans x.len⟩

theorem keeps_alloc (h : Heap) (t : Tag) (xs : List Nat) (a : Nat) (ha : a < h.length) :
    Keeps h (alloc h t xs).1 a := keeps_of_cell (cellAt_alloc_old h t xs a ha)

theorem keeps_free_ne (h : Heap) (a x : Nat) (hx : x ≠ a) : Keeps h (free h a) x :=
  keeps_of_cell (cellAt_free_ne h a x hx)

/-! ### the invariant -/

def ownAlloc : W → Option Nat
  | .av _ => none
  | .oa _ x => some x
  | .fa _ a => a
  | .fav _ a => a

/-- a wrapper's members are consistent with the heap -/
def WOk (h : Heap) : W → Prop
  | .av _ => True
  | .oa b x => liveAt h x = true ∧ (cellAt h x).tag = .vec ∧ b = setPtr (some ⟨x, 0⟩) (lenAt h x)
  | .fa b none => b = ⟨none, 0⟩
  | .fa b (some a) => liveAt h a = true ∧ (cellAt h a).tag = .shared ∧ b = setPtr (some ⟨a, 0⟩) (lenAt h a)
  | .fav b none => b = ⟨none, 0⟩
  | .fav b (some a) => liveAt h a = true ∧ (cellAt h a).tag = .shared ∧ (b.ptr = none → b.n = 0) ∧
      ∀ p, b.ptr = some p → p.a = a ∧ p.off + b.n ≤ lenAt h a

theorem WOk_keeps {h h' : Heap} {w : W} (ok : WOk h w) (k : ∀ a, ownAlloc w = some a → Keeps h h' a) : WOk h' w := by
  cases w with
  | av b => trivial
  | oa b x =>
    have := k x rfl
    simp only [WOk] at ok ⊢
    rw [this.live, this.tag, this.len]; exact ok
  | fa b arr =>
    cases arr with
    | none => exact ok
    | some a =>
      have := k a rfl
      simp only [WOk] at ok ⊢
      rw [this.live, this.tag, this.len]; exact ok
  | fav b arr =>
    cases arr with
    | none => exact ok
    | some a =>
      have := k a rfl
      simp only [WOk] at ok ⊢
      rw [this.live, this.tag, this.len]; exact ok

/-- liveness and tag of the allocation a wrapper owns -/
theorem WOk_own {h : Heap} {w : W} (ok : WOk h w) {a : Nat} (e : ownAlloc w = some a) :
    liveAt h a = true ∧ (cellAt h a).tag = (match w with | .oa _ _ => Tag.vec | _ => Tag.shared) := by
  cases w with
  | av b => simp [ownAlloc] at e
  | oa b x => simp only [ownAlloc, Option.some.injEq] at e; subst e; exact ⟨ok.1, ok.2.1⟩
  | fa b arr =>
    cases arr with
    | none => simp [ownAlloc] at e
    | some x => simp only [ownAlloc, Option.some.injEq] at e; subst e; exact ⟨ok.1, ok.2.1⟩
  | fav b arr =>
    cases arr with
    | none => simp [ownAlloc] at e
    | some x => simp only [ownAlloc, Option.some.injEq] at e; subst e; exact ⟨ok.1, ok.2.1⟩

structure Inv (s : State) : Prop where
  ok : ∀ i w, getW s i = some w → WOk s.heap w
  uniq : ∀ i j b1 b2 x, getW s i = some (.oa b1 x) → getW s j = some (.oa b2 x) → i = j
  bufs : ∀ b a, getBuf s b = some a → liveAt s.heap a = true ∧ (cellAt s.heap a).tag = .buf
  bufUniq : ∀ b b' a, getBuf s b = some a → getBuf s b' = some a → b = b'

theorem holds_own (w : W) (a : Nat) : w.holds a = true ↔ (ownAlloc w = some a ∧ ∀ b x, w ≠ .oa b x) := by
  cases w with
  | av b => simp [W.holds, ownAlloc]
  | oa b x => simp [W.holds, ownAlloc]
  | fa b arr => cases arr <;> simp [W.holds, ownAlloc]
  | fav b arr => cases arr <;> simp [W.holds, ownAlloc]

theorem holdsAny_false {ws : List (Option W)} {a : Nat} (hf : holdsAny ws a = false) (k : Nat) (w : W)
    (hk : ws.getD k none = some w) : w.holds a = false := by
  simp only [holdsAny, List.any_eq_false] at hf
  have hm : (some w) ∈ ws := by
    rw [List.getD_eq_getElem?_getD] at hk
    cases h : ws[k]? with
    | none => simp [h] at hk
    | some o => simp [h] at hk; subst hk; exact List.mem_of_getElem? h
  have := hf _ hm
  simpa using this

theorem getW_install (s : State) (i : Nat) (nw : Option W) (k : Nat) :
    getW (install s i nw) k = if i = k ∧ i < s.ws.length then nw else getW s k := by
  simp only [getW, install, getD_set]

theorem getBuf_install (s : State) (i : Nat) (nw : Option W) (b : Nat) : getBuf (install s i nw) b = getBuf s b := rfl

theorem getW_some_lt {s : State} {i : Nat} {w : W} (h : getW s i = some w) : i < s.ws.length := by
  by_cases hi : i < s.ws.length
  · exact hi
  · simp [getW, List.getD_eq_getElem?_getD, List.getElem?_eq_none (Nat.le_of_not_lt hi)] at h

/-- every wrapper of the pool after `install` was consistent with the heap before it -/
theorem install_ok_before (s : State) (i : Nat) (nw : Option W) (hinv : Inv s)
    (hok : ∀ w, nw = some w → WOk s.heap w) (k : Nat) (w : W) (hk : getW (install s i nw) k = some w) :
    WOk s.heap w := by
  rw [getW_install] at hk
  split at hk
  · exact hok w hk
  · exact hinv.ok k w hk

/-- what `install` does to the heap: nothing, or it frees one allocation that is not a caller buffer and
    that no wrapper of the new pool owns -/
theorem install_heap (s : State) (i : Nat) (nw : Option W) (hinv : Inv s)
    (hok : ∀ w, nw = some w → WOk s.heap w)
    (hfresh : ∀ b x, nw = some (.oa b x) → ∀ k b', getW s k ≠ some (.oa b' x)) :
    (install s i nw).heap = s.heap ∨ ∃ z, (install s i nw).heap = free s.heap z ∧ (cellAt s.heap z).tag ≠ .buf ∧
        ∀ k w, getW (install s i nw) k = some w → ownAlloc w ≠ some z := by
  have okb := install_ok_before s i nw hinv hok
  cases hold : getW s i with
  | none => left; simp [install, hold, dispose]
  | some old =>
    have hi := getW_some_lt hold
    have oldok := hinv.ok i old hold
    -- shared case, used twice
    have shared : ∀ a, liveAt s.heap a = true → (cellAt s.heap a).tag = .shared →
        (install s i nw).heap = release s.heap (s.ws.set i nw) a →
        (install s i nw).heap = s.heap ∨ ∃ z, (install s i nw).heap = free s.heap z ∧ (cellAt s.heap z).tag ≠ .buf ∧
          ∀ k w, getW (install s i nw) k = some w → ownAlloc w ≠ some z := by
      intro a hl ht he
      by_cases hh : holdsAny (s.ws.set i nw) a = true
      · left; rw [he]; simp [release, hh]
      · right
        refine ⟨a, by rw [he]; simp [release, hh], by simp [ht], ?_⟩
        intro k w hk hown
        have hf := holdsAny_false (by simpa using hh) k w (by simpa [getW, install] using hk)
        have hw := okb k w hk
        have := WOk_own hw hown
        cases w with
        | oa b x => simp [ht] at this
        | av b => simp [ownAlloc] at hown
        | fa b arr => have := (holds_own (.fa b arr) a).mpr ⟨hown, by simp⟩; simp [hf] at this
        | fav b arr => have := (holds_own (.fav b arr) a).mpr ⟨hown, by simp⟩; simp [hf] at this
    cases old with
    | av b => left; simp [install, hold, dispose]
    | oa b x =>
      right
      refine ⟨x, by simp [install, hold, dispose], by simp [oldok.2.1], ?_⟩
      intro k w hk hown
      have hw := okb k w hk
      have hwo := WOk_own hw hown
      rw [getW_install] at hk
      cases w with
      | av b' => simp [ownAlloc] at hown
      | oa b' x' =>
        simp only [ownAlloc, Option.some.injEq] at hown; subst hown
        split at hk
        · exact hfresh b' x' hk i b hold
        · rename_i hne
          have := hinv.uniq k i b' b x' hk hold
          exact hne ⟨this.symm, hi⟩
      | fa b' arr => simp [oldok.2.1] at hwo
      | fav b' arr => simp [oldok.2.1] at hwo
    | fa b arr =>
      cases arr with
      | none => left; simp [install, hold, dispose]
      | some a => exact shared a oldok.1 oldok.2.1 (by simp [install, hold, dispose])
    | fav b arr =>
      cases arr with
      | none => left; simp [install, hold, dispose]
      | some a => exact shared a oldok.1 oldok.2.1 (by simp [install, hold, dispose])

theorem install_cell_own (s : State) (i : Nat) (nw : Option W) (hinv : Inv s)
    (hok : ∀ w, nw = some w → WOk s.heap w)
    (hfresh : ∀ b x, nw = some (.oa b x) → ∀ k b', getW s k ≠ some (.oa b' x))
    (k : Nat) (w : W) (hk : getW (install s i nw) k = some w) (a : Nat) (hown : ownAlloc w = some a) :
    cellAt (install s i nw).heap a = cellAt s.heap a := by
  rcases install_heap s i nw hinv hok hfresh with h | ⟨z, hz, _, hno⟩
  · rw [h]
  · rw [hz]; apply cellAt_free_ne; intro e; subst e; exact hno k w hk hown

theorem install_cell_buf (s : State) (i : Nat) (nw : Option W) (hinv : Inv s)
    (hok : ∀ w, nw = some w → WOk s.heap w)
    (hfresh : ∀ b x, nw = some (.oa b x) → ∀ k b', getW s k ≠ some (.oa b' x))
    (a : Nat) (hb : (cellAt s.heap a).tag = .buf) :
    cellAt (install s i nw).heap a = cellAt s.heap a := by
  rcases install_heap s i nw hinv hok hfresh with h | ⟨z, hz, ht, _⟩
  · rw [h]
  · rw [hz]; apply cellAt_free_ne; intro e; subst e; exact ht hb

theorem install_inv (s : State) (i : Nat) (nw : Option W) (hinv : Inv s)
    (hok : ∀ w, nw = some w → WOk s.heap w)
    (hfresh : ∀ b x, nw = some (.oa b x) → ∀ k b', getW s k ≠ some (.oa b' x)) :
    Inv (install s i nw) := by
  refine ⟨?_, ?_, ?_, ?_⟩
  · intro k w hk
    exact WOk_keeps (install_ok_before s i nw hinv hok k w hk)
      (fun a ha => keeps_of_cell (install_cell_own s i nw hinv hok hfresh k w hk a ha))
  · intro k1 k2 b1 b2 x h1 h2
    rw [getW_install] at h1 h2
    split at h1 <;> split at h2
    · omega
    · exact absurd h2 (hfresh b1 x h1 k2 b2)
    · exact absurd h1 (hfresh b2 x h2 k1 b1)
    · exact hinv.uniq k1 k2 b1 b2 x h1 h2
  · intro b a hb
    rw [getBuf_install] at hb
    have := hinv.bufs b a hb
    have e := install_cell_buf s i nw hinv hok hfresh a this.2
    simp only [liveAt, e]; exact this
  · intro b b' a h1 h2; exact hinv.bufUniq b b' a h1 h2

/-- change of heap and buffer table that keeps every allocation owned by a wrapper -/
theorem inv_of_keeps (s : State) (h' : Heap) (bufs' : List (Option Nat)) (hinv : Inv s)
    (hk : ∀ k w a, getW s k = some w → ownAlloc w = some a → Keeps s.heap h' a)
    (hb : ∀ b a, bufs'.getD b none = some a → liveAt h' a = true ∧ (cellAt h' a).tag = .buf)
    (hu : ∀ b b' a, bufs'.getD b none = some a → bufs'.getD b' none = some a → b = b') :
    Inv { heap := h', bufs := bufs', ws := s.ws } :=
  ⟨fun k w hw => WOk_keeps (hinv.ok k w hw) (fun a ha => hk k w a hw ha),
   fun i j b1 b2 x h1 h2 => hinv.uniq i j b1 b2 x h1 h2, hb, hu⟩

theorem inv_heap (s : State) (h' : Heap) (hinv : Inv s)
    (hk : ∀ a, liveAt s.heap a = true → Keeps s.heap h' a) : Inv { s with heap := h' } := by
  apply inv_of_keeps s h' s.bufs hinv
  · intro k w a hw ha; exact hk a (WOk_own (hinv.ok k w hw) ha).1
  · intro b a hb
    have := hinv.bufs b a hb
    have k := hk a this.1
    exact ⟨k.live.trans this.1, k.tag.trans this.2⟩
  · exact hinv.bufUniq

theorem inv_alloc (s : State) (t : Tag) (xs : List Nat) (hinv : Inv s) :
    Inv { s with heap := (alloc s.heap t xs).1 } :=
  inv_heap s _ hinv (fun a ha => keeps_alloc _ _ _ a (liveAt_lt _ a ha))

theorem inv_write (s : State) (a k v : Nat) (hinv : Inv s) : Inv { s with heap := write s.heap a k v } :=
  inv_heap s _ hinv (fun x _ => keeps_write _ _ _ _ x)

theorem not_oa_fresh (s : State) (hinv : Inv s) (k : Nat) (b' : Base) : getW s k ≠ some (.oa b' s.heap.length) := by
  intro h
  have := liveAt_lt _ _ (hinv.ok k _ h).1
  omega

theorem lenAt_alloc_new (h : Heap) (t : Tag) (xs : List Nat) : lenAt (alloc h t xs).1 h.length = xs.length := by
  have := cellAt_alloc_new h t xs
  simp only [alloc_id] at this
  simp [lenAt, this]

theorem mkOA_ok (h : Heap) (vals : List Nat) : WOk (mkOA h vals).1 (mkOA h vals).2 := by
  simp [mkOA, WOk, liveAt, lenAt, cellAt_alloc_new]

theorem mkFA_ok (h : Heap) (vals : List Nat) : WOk (mkFA h vals).1 (mkFA h vals).2 := by
  simp [mkFA, WOk, liveAt, lenAt, cellAt_alloc_new]

theorem inv_mkOA (s : State) (i : Nat) (vals : List Nat) (hinv : Inv s) :
    Inv (install { s with heap := (mkOA s.heap vals).1 } i (some (mkOA s.heap vals).2)) := by
  apply install_inv _ _ _ (inv_alloc s .vec vals hinv)
  · intro w hw; cases hw; exact mkOA_ok s.heap vals
  · intro b x hw k b'
    simp only [mkOA, alloc, Option.some.injEq, W.oa.injEq] at hw
    rw [← hw.2]; exact not_oa_fresh s hinv k b'

theorem inv_mkFA (s : State) (i : Nat) (vals : List Nat) (hinv : Inv s) :
    Inv (install { s with heap := (mkFA s.heap vals).1 } i (some (mkFA s.heap vals).2)) := by
  apply install_inv _ _ _ (inv_alloc s .shared vals hinv)
  · intro w hw; cases hw; exact mkFA_ok s.heap vals
  · intro b x hw k b'; simp [mkFA] at hw

theorem inv_install_simple (s : State) (i : Nat) (w : Option W) (hinv : Inv s)
    (hok : ∀ w', w = some w' → WOk s.heap w') (hno : ∀ b x, w ≠ some (.oa b x)) : Inv (install s i w) :=
  install_inv s i w hinv hok (fun b x hw => absurd hw (hno b x))

theorem inv_resetSrc (s : State) (j : Nat) (hinv : Inv s) : Inv (resetSrc s j) := inv_mkOA s j [] hinv

theorem mkFAV_ok (h : Heap) (b : Base) (arr : Option Nat) (off cnt : Nat) (ok : WOk h (.fa b arr)) (hle : off + cnt ≤ b.n) :
    WOk h (mkFAV Cfg.fixed b arr off cnt) := by
  cases arr with
  | none =>
    simp only [WOk] at ok; subst ok
    have : cnt = 0 := by simp at hle; omega
    subst this; simp [mkFAV, Cfg.fixed, WOk, setPtr]
  | some a =>
    obtain ⟨hl, ht, hb⟩ := ok
    subst hb
    simp only [mkFAV, Cfg.fixed, WOk, setPtr, ite_true] at hle ⊢
    refine ⟨hl, ht, ?_, ?_⟩
    · intro hn; by_cases hc : cnt > 0
      · have : lenAt h a > 0 := by omega
        simp [hc, this] at hn
      · omega
    · intro p hp
      by_cases hc : cnt > 0
      · have : lenAt h a > 0 := by omega
        simp [hc, this] at hp; subst hp; simp; omega
      · simp [hc] at hp

theorem inv_init (nb nw : Nat) : Inv (State.init nb nw) := by
  refine ⟨?_, ?_, ?_, ?_⟩ <;> intros <;> simp_all [State.init, getW, getBuf, List.getD_eq_getElem?_getD, List.getElem?_replicate] <;> split at * <;> simp_all

theorem inv_copyOf (s : State) (i j : Nat) (w : W) (mv : Bool) (hinv : Inv s) (hj : getW s j = some w) :
    Inv (install { s with heap := (copyOf Cfg.fixed s.heap w mv).1 } i (some (copyOf Cfg.fixed s.heap w mv).2.1)) := by
  cases w with
  | oa b buf => simp only [copyOf, Cfg.fixed, ite_true]; exact inv_mkOA s i _ hinv
  | av b => exact inv_install_simple s i _ hinv (by intro w' hw; cases hw; trivial) (by simp [copyOf])
  | fa b arr =>
    exact inv_install_simple s i _ hinv (by intro w' hw; cases hw; exact hinv.ok j _ hj) (by simp [copyOf])
  | fav b arr =>
    exact inv_install_simple s i _ hinv (by intro w' hw; cases hw; exact hinv.ok j _ hj) (by simp [copyOf])

theorem inv_bufs_change (s : State) (b : Nat) (hinv : Inv s) (xs : Option (List Nat)) :
    let h1 := match xs with
      | some xs => (alloc s.heap .buf xs).1
      | none => s.heap
    let h2 := match getBuf s b with
      | some old => free h1 old
      | none => h1
    let nb : Option Nat := xs.map fun _ => s.heap.length
    Inv { s with heap := h2, bufs := s.bufs.set b nb } := by
  intro h1 h2 nb
  have k1 : ∀ a, a < s.heap.length → cellAt h1 a = cellAt s.heap a := by
    intro a ha; cases xs with
    | none => rfl
    | some xs => exact cellAt_alloc_old _ _ _ a ha
  have len1 : s.heap.length ≤ h1.length := by
    cases xs with
    | none => exact Nat.le_refl _
    | some xs => simp [h1, alloc]
  have k2 : ∀ a, a < s.heap.length → getBuf s b ≠ some a → cellAt h2 a = cellAt s.heap a := by
    intro a ha hne
    cases hb : getBuf s b with
    | none => simp only [h2, hb]; exact k1 a ha
    | some old =>
      simp only [h2, hb]
      rw [cellAt_free_ne _ _ _ (by intro e; subst e; exact hne hb)]; exact k1 a ha
  apply inv_of_keeps s h2 _ hinv
  · intro k w a hw ha
    have own := WOk_own (hinv.ok k w hw) ha
    apply keeps_of_cell; apply k2 a (liveAt_lt _ _ own.1)
    intro hb
    have := (hinv.bufs b a hb).2
    rw [own.2] at this
    cases w <;> simp at this
  · intro b' a hb'
    rw [getD_set] at hb'
    split at hb'
    · rename_i hc
      cases xs with
      | none => simp [nb] at hb'
      | some xs =>
        simp only [nb, Option.map_some, Option.some.injEq] at hb'; subst hb'
        have hnew : cellAt h1 s.heap.length = ⟨true, .buf, xs⟩ := cellAt_alloc_new s.heap .buf xs
        have : cellAt h2 s.heap.length = cellAt h1 s.heap.length := by
          cases hb : getBuf s b with
          | none => simp only [h2, hb]
          | some old =>
            simp only [h2, hb]
            apply cellAt_free_ne
            have := liveAt_lt _ _ (hinv.bufs b old hb).1
            omega
        simp [liveAt, this, hnew]
    · rename_i hc
      have hne : b' ≠ b ∨ ¬ b < s.bufs.length := by
        by_cases e : b = b'
        · right; intro hl; exact hc ⟨e, hl⟩
        · left; exact fun e' => e e'.symm
      have hold := hinv.bufs b' a hb'
      have hnb : getBuf s b ≠ some a := by
        intro hb
        rcases hne with h | h
        · exact h (hinv.bufUniq b' b a hb' hb)
        · simp [getBuf, List.getD_eq_getElem?_getD, List.getElem?_eq_none (Nat.le_of_not_lt h)] at hb
      have e := k2 a (liveAt_lt _ _ hold.1) hnb
      simp only [liveAt, e]; exact hold
  · intro b1 b2 a h1' h2'
    rw [getD_set] at h1' h2'
    have fresh : ∀ b0, getBuf s b0 ≠ some s.heap.length := by
      intro b0 hb0
      have := liveAt_lt _ _ (hinv.bufs b0 _ hb0).1
      omega
    split at h1' <;> split at h2'
    · omega
    · cases xs with
      | none => simp [nb] at h1'
      | some xs => simp only [nb, Option.map_some, Option.some.injEq] at h1'; subst h1'; exact absurd h2' (fresh b2)
    · cases xs with
      | none => simp [nb] at h2'
      | some xs => simp only [nb, Option.map_some, Option.some.injEq] at h2'; subst h2'; exact absurd h1' (fresh b1)
    · exact hinv.bufUniq b1 b2 a h1' h2'

theorem step_inv (s s' : State) (op : Op) (hinv : Inv s) (hs : step Cfg.fixed s op = some s') : Inv s' := by
  cases op with
  | bufNew b xs =>
    simp only [step] at hs
    split at hs
    · simp only [Option.some.injEq] at hs; subst hs
      exact inv_bufs_change s b hinv (some xs)
    · simp at hs
  | bufFree b =>
    simp only [step] at hs
    split at hs
    · rename_i a hb
      simp only [Option.some.injEq] at hs; subst hs
      have := inv_bufs_change s b hinv none
      simpa [hb] using this
    · simp at hs
  | bufSet b k v =>
    simp only [step] at hs
    split at hs
    · split at hs
      · simp only [Option.some.injEq] at hs; subst hs; exact inv_write s _ _ _ hinv
      · simp at hs
    · simp at hs
  | avDefault i =>
    simp only [step, Option.some.injEq] at hs; subst hs
    exact inv_install_simple s i _ hinv (by intro w hw; cases hw; trivial) (by simp)
  | avSet i src fresh =>
    simp only [step] at hs
    split at hs
    · split at hs
      · simp only [Option.some.injEq] at hs; subst hs
        exact inv_install_simple s i _ hinv (by intro w hw; cases hw; trivial) (by simp [mkAV])
      · simp at hs
    · simp at hs
  | avReset i =>
    simp only [step] at hs
    split at hs
    · simp only [Option.some.injEq] at hs; subst hs
      exact inv_install_simple s i _ hinv (by intro w hw; cases hw; trivial) (by simp)
    · simp at hs
  | oaDefault i =>
    simp only [step, Option.some.injEq] at hs; subst hs; exact inv_mkOA s i [] hinv
  | oaSet i src fresh =>
    simp only [step] at hs
    split at hs
    · split at hs
      · simp only [Option.some.injEq] at hs; subst hs; exact inv_mkOA s i _ hinv
      · simp at hs
    · simp at hs
  | oaReset i =>
    simp only [step] at hs
    split at hs
    · simp only [Option.some.injEq] at hs; subst hs; exact inv_mkOA s i [] hinv
    · simp at hs
  | oaResize i n v =>
    simp only [step] at hs
    split at hs
    · simp only [Option.some.injEq] at hs; subst hs; exact inv_mkOA s i _ hinv
    · simp at hs
  | faDefault i =>
    simp only [step, Option.some.injEq] at hs; subst hs
    exact inv_install_simple s i _ hinv (by intro w hw; cases hw; simp [WOk]) (by simp)
  | faSize i xs =>
    simp only [step, Option.some.injEq] at hs; subst hs; exact inv_mkFA s i xs hinv
  | faSet i src fresh =>
    simp only [step] at hs
    split at hs
    · split at hs
      · simp only [Option.some.injEq] at hs; subst hs; exact inv_mkFA s i _ hinv
      · simp at hs
    · simp at hs
  | favDefault i =>
    simp only [step, Option.some.injEq] at hs; subst hs
    exact inv_install_simple s i _ hinv (by intro w hw; cases hw; simp [WOk]) (by simp)
  | favNew i j off cnt =>
    simp only [step] at hs
    split at hs
    · rename_i b arr hj
      split at hs
      · rename_i hle
        simp only [Option.some.injEq] at hs; subst hs
        exact inv_install_simple s i _ hinv
          (by intro w hw; cases hw; exact mkFAV_ok s.heap b arr off cnt (hinv.ok j _ hj) hle) (by simp [mkFAV])
      · simp at hs
    · simp at hs
  | copy i j mv =>
    simp only [step] at hs
    split at hs
    · rename_i w hj
      have h1 := inv_copyOf s i j w mv hinv hj
      split at hs
      · simp only [Option.some.injEq] at hs; subst hs; exact inv_resetSrc _ j h1
      · simp only [Option.some.injEq] at hs; subst hs; exact h1
    · simp at hs
  | assign i j mv =>
    simp only [step] at hs
    split at hs
    · simp only [Option.some.injEq] at hs; subst hs
      exact inv_install_simple s i _ hinv (by intro w hw; cases hw; trivial) (by simp)
    · rename_i b arr hi hj
      simp only [Option.some.injEq] at hs; subst hs
      exact inv_install_simple s i _ hinv (by intro w hw; cases hw; exact hinv.ok j _ hj) (by simp)
    · rename_i b k hi hj
      simp only [Option.some.injEq] at hs; subst hs
      exact inv_install_simple s i _ hinv (by intro w hw; cases hw; exact hinv.ok j _ hj) (by simp)
    · rename_i b buf hi hj
      split at hs
      · simp only [Option.some.injEq] at hs; subst hs; exact hinv
      · have hfix : Cfg.fixed.oaRepoint = true := rfl
        simp only [hfix, ite_true] at hs
        have h1 := inv_copyOf s i j (.oa b buf) mv hinv hj
        by_cases hm : (copyOf Cfg.fixed s.heap (W.oa b buf) mv).2.2 = true
        · simp only [hm, ite_true, Option.some.injEq] at hs; subst hs; exact inv_resetSrc _ j h1
        · simp only [hm, Bool.false_eq_true, ite_false, Option.some.injEq] at hs; subst hs; exact h1
    · simp at hs
  | destroy i =>
    simp only [step] at hs
    split at hs
    · simp only [Option.some.injEq] at hs; subst hs
      exact inv_install_simple s i none hinv (by simp) (by simp)
    · simp at hs
  | wset i k v =>
    simp only [step] at hs
    split at hs
    · split at hs
      · split at hs
        · simp only [Option.some.injEq] at hs; subst hs; exact inv_write s _ _ _ hinv
        · simp at hs
      · simp at hs
    · simp at hs

theorem stepT_inv (s : State) (op : Op) (hinv : Inv s) : Inv (stepT Cfg.fixed s op) := by
  unfold stepT
  cases h : step Cfg.fixed s op with
  | none => exact hinv
  | some s' => exact step_inv s s' op hinv h

/-! ### frame: what an operation that does not target slot `i` leaves alone -/

def Op.targets (op : Op) (k : Nat) : Bool :=
  match op with
  | .bufNew _ _ | .bufFree _ | .bufSet _ _ _ | .wset _ _ _ => false
  | .avDefault i | .avSet i _ _ | .avReset i | .oaDefault i | .oaSet i _ _ | .oaReset i | .oaResize i _ _
  | .faDefault i | .faSize i _ | .faSet i _ _ | .favDefault i | .favNew i _ _ _ | .destroy i => k == i
  | .copy i j mv | .assign i j mv => k == i || (mv && k == j)

/-- slot `i` still holds the same wrapper record and the allocation it owns has the same cell -/
structure Frame (s s' : State) (i : Nat) (w : W) : Prop where
  same : getW s' i = some w
  cell : ∀ a, ownAlloc w = some a → cellAt s'.heap a = cellAt s.heap a

theorem Frame.trans {s1 s2 s3 : State} {i : Nat} {w : W} (x : Frame s1 s2 i w) (y : Frame s2 s3 i w) : Frame s1 s3 i w :=
  ⟨y.same, fun a ha => (y.cell a ha).trans (x.cell a ha)⟩

theorem frame_install (s : State) (i' : Nat) (nw : Option W) (hinv : Inv s)
    (hok : ∀ w, nw = some w → WOk s.heap w)
    (hfresh : ∀ b x, nw = some (.oa b x) → ∀ k b', getW s k ≠ some (.oa b' x))
    (i : Nat) (w : W) (hi : getW s i = some w) (hne : i ≠ i') : Frame s (install s i' nw) i w := by
  have hr : getW (install s i' nw) i = some w := by
    rw [getW_install]; simp [Ne.symm hne, hi]
  exact ⟨hr, fun a ha => install_cell_own s i' nw hinv hok hfresh i w hr a ha⟩

theorem frame_alloc (s : State) (t : Tag) (xs : List Nat) (hinv : Inv s) (i : Nat) (w : W) (hi : getW s i = some w) :
    Frame s { s with heap := (alloc s.heap t xs).1 } i w :=
  ⟨hi, fun a ha => cellAt_alloc_old _ _ _ a (liveAt_lt _ _ (WOk_own (hinv.ok i w hi) ha).1)⟩

theorem frame_mkOA (s : State) (i' : Nat) (vals : List Nat) (hinv : Inv s) (i : Nat) (w : W)
    (hi : getW s i = some w) (hne : i ≠ i') :
    Frame s (install { s with heap := (mkOA s.heap vals).1 } i' (some (mkOA s.heap vals).2)) i w := by
  refine (frame_alloc s .vec vals hinv i w hi).trans ?_
  apply frame_install _ _ _ (inv_alloc s .vec vals hinv)
  · intro w hw; cases hw; exact mkOA_ok s.heap vals
  · intro b x hw k b'
    simp only [mkOA, alloc, Option.some.injEq, W.oa.injEq] at hw
    rw [← hw.2]; exact not_oa_fresh s hinv k b'
  · exact hi
  · exact hne

theorem frame_mkFA (s : State) (i' : Nat) (vals : List Nat) (hinv : Inv s) (i : Nat) (w : W)
    (hi : getW s i = some w) (hne : i ≠ i') :
    Frame s (install { s with heap := (mkFA s.heap vals).1 } i' (some (mkFA s.heap vals).2)) i w := by
  refine (frame_alloc s .shared vals hinv i w hi).trans ?_
  apply frame_install _ _ _ (inv_alloc s .shared vals hinv)
  · intro w hw; cases hw; exact mkFA_ok s.heap vals
  · intro b x hw k b'; simp [mkFA] at hw
  · exact hi
  · exact hne

theorem frame_simple (s : State) (i' : Nat) (nw : Option W) (hinv : Inv s)
    (hok : ∀ w', nw = some w' → WOk s.heap w') (hno : ∀ b x, nw ≠ some (.oa b x))
    (i : Nat) (w : W) (hi : getW s i = some w) (hne : i ≠ i') : Frame s (install s i' nw) i w :=
  frame_install s i' nw hinv hok (fun b x hw => absurd hw (hno b x)) i w hi hne

theorem frame_copyOf (s : State) (i' j : Nat) (wj : W) (mv : Bool) (hinv : Inv s) (hj : getW s j = some wj)
    (i : Nat) (w : W) (hi : getW s i = some w) (hne : i ≠ i') :
    Frame s (install { s with heap := (copyOf Cfg.fixed s.heap wj mv).1 } i' (some (copyOf Cfg.fixed s.heap wj mv).2.1)) i w := by
  cases wj with
  | oa b buf => simp only [copyOf, Cfg.fixed, ite_true]; exact frame_mkOA s i' _ hinv i w hi hne
  | av b => exact frame_simple s i' _ hinv (by intro w' hw; cases hw; trivial) (by simp [copyOf]) i w hi hne
  | fa b arr =>
    exact frame_simple s i' _ hinv (by intro w' hw; cases hw; exact hinv.ok j _ hj) (by simp [copyOf]) i w hi hne
  | fav b arr =>
    exact frame_simple s i' _ hinv (by intro w' hw; cases hw; exact hinv.ok j _ hj) (by simp [copyOf]) i w hi hne

theorem frame_heap (s : State) (h' : Heap) (bufs' : List (Option Nat)) (i : Nat) (w : W) (hi : getW s i = some w)
    (hc : ∀ a, ownAlloc w = some a → cellAt h' a = cellAt s.heap a) :
    Frame s { s with heap := h', bufs := bufs' } i w := ⟨hi, hc⟩

theorem own_not_buf (s : State) (hinv : Inv s) (i : Nat) (w : W) (hi : getW s i = some w) (a : Nat)
    (ha : ownAlloc w = some a) (b : Nat) : getBuf s b ≠ some a := by
  intro hb
  have own := WOk_own (hinv.ok i w hi) ha
  have := (hinv.bufs b a hb).2
  rw [own.2] at this
  cases w <;> simp at this

/-- an operation that does not target slot `i` (and, if it writes elements, writes them outside the
    allocation owned by slot `i`) leaves the wrapper record of slot `i` and its allocation untouched -/
theorem step_frame (s s' : State) (op : Op) (hinv : Inv s) (hs : step Cfg.fixed s op = some s')
    (i : Nat) (w : W) (hi : getW s i = some w) (ht : op.targets i = false)
    (hw : ∀ k x v, op = .wset k x v → ∀ wk p, getW s k = some wk → wk.base.ptr = some p → ownAlloc w ≠ some p.a) :
    Frame s s' i w := by
  have hlive : ∀ a, ownAlloc w = some a → a < s.heap.length :=
    fun a ha => liveAt_lt _ _ (WOk_own (hinv.ok i w hi) ha).1
  cases op with
  | bufNew b xs =>
    simp only [step] at hs
    split at hs
    · simp only [Option.some.injEq] at hs; subst hs
      apply frame_heap s _ _ i w hi
      intro a ha
      have hnb := own_not_buf s hinv i w hi a ha b
      cases hb : getBuf s b with
      | none => simp only []; exact cellAt_alloc_old _ _ _ a (hlive a ha)
      | some old =>
        simp only []
        rw [cellAt_free_ne _ _ _ (by intro e; subst e; exact hnb hb)]
        exact cellAt_alloc_old _ _ _ a (hlive a ha)
    · simp at hs
  | bufFree b =>
    simp only [step] at hs
    split at hs
    · rename_i old hb
      simp only [Option.some.injEq] at hs; subst hs
      apply frame_heap s _ _ i w hi
      intro a ha
      exact cellAt_free_ne _ _ _ (by intro e; subst e; exact own_not_buf s hinv i w hi a ha b hb)
    · simp at hs
  | bufSet b k v =>
    simp only [step] at hs
    split at hs
    · rename_i old hb
      split at hs
      · simp only [Option.some.injEq] at hs; subst hs
        refine ⟨hi, fun a ha => ?_⟩
        exact cellAt_write_ne _ _ _ _ _ (by intro e; subst e; exact own_not_buf s hinv i w hi a ha b hb)
      · simp at hs
    · simp at hs
  | avDefault i' =>
    have hne : i ≠ i' := by simpa [Op.targets] using ht
    simp only [step, Option.some.injEq] at hs; subst hs
    exact frame_simple s i' _ hinv (by intro w hw; cases hw; trivial) (by simp) i w hi hne
  | avSet i' src fresh =>
    have hne : i ≠ i' := by simpa [Op.targets] using ht
    simp only [step] at hs
    split at hs
    · split at hs
      · simp only [Option.some.injEq] at hs; subst hs
        exact frame_simple s i' _ hinv (by intro w hw; cases hw; trivial) (by simp [mkAV]) i w hi hne
      · simp at hs
    · simp at hs
  | avReset i' =>
    have hne : i ≠ i' := by simpa [Op.targets] using ht
    simp only [step] at hs
    split at hs
    · simp only [Option.some.injEq] at hs; subst hs
      exact frame_simple s i' _ hinv (by intro w hw; cases hw; trivial) (by simp) i w hi hne
    · simp at hs
  | oaDefault i' =>
    have hne : i ≠ i' := by simpa [Op.targets] using ht
    simp only [step, Option.some.injEq] at hs; subst hs; exact frame_mkOA s i' [] hinv i w hi hne
  | oaSet i' src fresh =>
    have hne : i ≠ i' := by simpa [Op.targets] using ht
    simp only [step] at hs
    split at hs
    · split at hs
      · simp only [Option.some.injEq] at hs; subst hs; exact frame_mkOA s i' _ hinv i w hi hne
      · simp at hs
    · simp at hs
  | oaReset i' =>
    have hne : i ≠ i' := by simpa [Op.targets] using ht
    simp only [step] at hs
    split at hs
    · simp only [Option.some.injEq] at hs; subst hs; exact frame_mkOA s i' [] hinv i w hi hne
    · simp at hs
  | oaResize i' n v =>
    have hne : i ≠ i' := by simpa [Op.targets] using ht
    simp only [step] at hs
    split at hs
    · simp only [Option.some.injEq] at hs; subst hs; exact frame_mkOA s i' _ hinv i w hi hne
    · simp at hs
  | faDefault i' =>
    have hne : i ≠ i' := by simpa [Op.targets] using ht
    simp only [step, Option.some.injEq] at hs; subst hs
    exact frame_simple s i' _ hinv (by intro w hw; cases hw; simp [WOk]) (by simp) i w hi hne
  | faSize i' xs =>
    have hne : i ≠ i' := by simpa [Op.targets] using ht
    simp only [step, Option.some.injEq] at hs; subst hs; exact frame_mkFA s i' xs hinv i w hi hne
  | faSet i' src fresh =>
    have hne : i ≠ i' := by simpa [Op.targets] using ht
    simp only [step] at hs
    split at hs
    · split at hs
      · simp only [Option.some.injEq] at hs; subst hs; exact frame_mkFA s i' _ hinv i w hi hne
      · simp at hs
    · simp at hs
  | favDefault i' =>
    have hne : i ≠ i' := by simpa [Op.targets] using ht
    simp only [step, Option.some.injEq] at hs; subst hs
    exact frame_simple s i' _ hinv (by intro w hw; cases hw; simp [WOk]) (by simp) i w hi hne
  | favNew i' j off cnt =>
    have hne : i ≠ i' := by simpa [Op.targets] using ht
    simp only [step] at hs
    split at hs
    · rename_i b arr hj
      split at hs
      · rename_i hle
        simp only [Option.some.injEq] at hs; subst hs
        exact frame_simple s i' _ hinv
          (by intro w hw; cases hw; exact mkFAV_ok s.heap b arr off cnt (hinv.ok j _ hj) hle) (by simp [mkFAV]) i w hi hne
      · simp at hs
    · simp at hs
  | copy i' j mv =>
    simp only [Op.targets, Bool.or_eq_false_iff, beq_eq_false_iff_ne, Bool.and_eq_false_iff] at ht
    simp only [step] at hs
    split at hs
    · rename_i wj hj
      have f1 := frame_copyOf s i' j wj mv hinv hj i w hi ht.1
      have h1 := inv_copyOf s i' j wj mv hinv hj
      by_cases hm : ((copyOf Cfg.fixed s.heap wj mv).2.2 && i' != j) = true
      · simp only [hm, ite_true, Option.some.injEq] at hs; subst hs
        have hmv : mv = true := by
          cases wj <;> simp_all [copyOf, Cfg.fixed]
        have hij : i ≠ j := by
          rcases ht.2 with h | h
          · simp [hmv] at h
          · simpa using h
        exact f1.trans (frame_mkOA _ j [] h1 i w f1.same hij)
      · simp only [hm, Bool.false_eq_true, ite_false, Option.some.injEq] at hs; subst hs; exact f1
    · simp at hs
  | assign i' j mv =>
    simp only [Op.targets, Bool.or_eq_false_iff, beq_eq_false_iff_ne, Bool.and_eq_false_iff] at ht
    simp only [step] at hs
    split at hs
    · simp only [Option.some.injEq] at hs; subst hs
      exact frame_simple s i' _ hinv (by intro w hw; cases hw; trivial) (by simp) i w hi ht.1
    · rename_i b arr hi' hj
      simp only [Option.some.injEq] at hs; subst hs
      exact frame_simple s i' _ hinv (by intro w hw; cases hw; exact hinv.ok j _ hj) (by simp) i w hi ht.1
    · rename_i b k hi' hj
      simp only [Option.some.injEq] at hs; subst hs
      exact frame_simple s i' _ hinv (by intro w hw; cases hw; exact hinv.ok j _ hj) (by simp) i w hi ht.1
    · rename_i b buf hi' hj
      split at hs
      · simp only [Option.some.injEq] at hs; subst hs; exact ⟨hi, fun _ _ => rfl⟩
      · have hfix : Cfg.fixed.oaRepoint = true := rfl
        simp only [hfix, ite_true] at hs
        have f1 := frame_copyOf s i' j (.oa b buf) mv hinv hj i w hi ht.1
        have h1 := inv_copyOf s i' j (.oa b buf) mv hinv hj
        by_cases hm : (copyOf Cfg.fixed s.heap (W.oa b buf) mv).2.2 = true
        · simp only [hm, ite_true, Option.some.injEq] at hs; subst hs
          have hmv : mv = true := by simpa [copyOf, Cfg.fixed] using hm
          have hij : i ≠ j := by
            rcases ht.2 with h | h
            · simp [hmv] at h
            · simpa using h
          exact f1.trans (frame_mkOA _ j [] h1 i w f1.same hij)
        · simp only [hm, Bool.false_eq_true, ite_false, Option.some.injEq] at hs; subst hs; exact f1
    · simp at hs
  | destroy i' =>
    have hne : i ≠ i' := by simpa [Op.targets] using ht
    simp only [step] at hs
    split at hs
    · simp only [Option.some.injEq] at hs; subst hs
      exact frame_simple s i' none hinv (by simp) (by simp) i w hi hne
    · simp at hs
  | wset k x v =>
    simp only [step] at hs
    split at hs
    · rename_i wk hk
      split at hs
      · split at hs
        · rename_i p hp
          simp only [Option.some.injEq] at hs; subst hs
          refine ⟨hi, fun a ha => ?_⟩
          apply cellAt_write_ne
          intro e
          exact hw k x v rfl wk p hk hp (by rw [ha, e])
        · simp at hs
      · simp at hs
    · simp at hs

/-! ### helpers of the property theorems -/

/-- A consistent owning wrapper designates live storage inside the allocation it owns. -/
theorem valid_of_ok (h : Heap) (w : W) (ok : WOk h w) (ho : w.owning = true) :
    w.base.valid h = true ∧ ∀ p, w.base.ptr = some p → ownAlloc w = some p.a := by
  cases w with
  | av b => simp [W.owning] at ho
  | oa b x =>
    obtain ⟨hl, _, hb⟩ := ok
    subst hb
    by_cases hn : lenAt h x > 0 <;> simp [W.base, Base.valid, setPtr, hn, hl, ownAlloc]
    omega
  | fa b arr =>
    cases arr with
    | none => simp only [WOk] at ok; subst ok; simp [W.base, Base.valid]
    | some a =>
      obtain ⟨hl, _, hb⟩ := ok
      subst hb
      by_cases hn : lenAt h a > 0 <;> simp [W.base, Base.valid, setPtr, hn, hl, ownAlloc]
      omega
  | fav b arr =>
    cases arr with
    | none => simp only [WOk] at ok; subst ok; simp [W.base, Base.valid]
    | some a =>
      obtain ⟨hl, _, hnone, hsome⟩ := ok
      cases hp : b.ptr with
      | none => simp [W.base, Base.valid, hp, hnone hp]
      | some p =>
        have := hsome p hp
        simp [W.base, Base.valid, hp, ownAlloc, this.1, hl, this.2]

theorem setPtr_wellformed (p : Option Ptr) (n : Nat) (hp : n > 0 → p.isSome) : (setPtr p n).ptr = none → (setPtr p n).n = 0 := by
  simp only [setPtr]
  by_cases hn : n > 0
  · have := hp hn; cases p <;> simp_all
  · intro _; omega

theorem walk_spec (d cur fuel : Nat) (hf : d ≤ fuel) : walk cur (cur + d) fuel = some (List.range' cur d) := by
  induction d generalizing cur fuel with
  | zero => cases fuel <;> simp [walk]
  | succ d ih =>
    cases fuel with
    | zero => omega
    | succ fuel =>
      have : cur ≠ cur + (d + 1) := by omega
      have e : cur + (d + 1) = (cur + 1) + d := by omega
      simp only [walk, this, ite_false]
      rw [e, ih (cur + 1) fuel (by omega)]
      simp [List.range'_succ]

theorem flatten_length_uniform (records : List (List Nat)) (stride : Nat) (hl : ∀ r ∈ records, r.length = stride) :
    records.flatten.length = records.length * stride := by
  induction records with
  | nil => simp
  | cons r rest ih =>
    have h1 := hl r (by simp)
    have h2 := ih (fun r hr => hl r (by simp [hr]))
    simp [h1, h2, Nat.add_mul]; omega

theorem drop_flatten_uniform (records : List (List Nat)) (stride i : Nat) (hl : ∀ r ∈ records, r.length = stride) :
    records.flatten.drop (i * stride) = (records.drop i).flatten := by
  induction records generalizing i with
  | nil => simp
  | cons r rest ih =>
    cases i with
    | zero => simp
    | succ i =>
      have h1 := hl r (by simp)
      have : (i + 1) * stride = r.length + i * stride := by rw [h1, Nat.add_mul]; omega
      simp only [List.flatten_cons, List.drop_succ_cons, this]
      rw [List.drop_append]
      simp only [Nat.add_sub_cancel_left, List.drop_of_length_le (Nat.le_add_right _ _), List.nil_append]
      exact ih i (fun r hr => hl r (by simp [hr]))

theorem read_of_frame (s s' : State) (i : Nat) (w : W) (ok : WOk s.heap w) (ho : w.owning = true)
    (f : Frame s s' i w) : w.base.read s'.heap = w.base.read s.heap := by
  have hv := (valid_of_ok s.heap w ok ho).2
  cases hp : w.base.ptr with
  | none => simp [Base.read, hp]
  | some p => simp [Base.read, hp, f.cell p.a (hv p hp)]

theorem oa_read (s : State) (hinv : Inv s) (i : Nat) (b : Base) (x : Nat) (hi : getW s i = some (.oa b x)) :
    b.n = (cellAt s.heap x).data.length ∧ b.read s.heap = (cellAt s.heap x).data := by
  have ok := hinv.ok i _ hi
  rw [ok.2.2]
  by_cases hn : 0 < (cellAt s.heap x).data.length
  · simp [setPtr, hn, Base.read, lenAt]
  · have : (cellAt s.heap x).data = [] := List.eq_nil_of_length_eq_zero (by omega)
    simp [setPtr, Base.read, lenAt, this]

/-- constructing / assigning / resetting / resizing an OwnedArray with the element list `vals`:
    afterwards the slot holds an OwnedArray of size `vals.length` with exactly these contents, in storage
    that did not exist before (so nothing else points into it). -/
theorem mkOA_post (s : State) (hinv : Inv s) (i : Nat) (vals : List Nat) (hi : i < s.ws.length) :
    let s1 := install { s with heap := (mkOA s.heap vals).1 } i (some (mkOA s.heap vals).2)
    ∃ b, getW s1 i = some (.oa b s.heap.length) ∧ b.n = vals.length ∧ b.read s1.heap = vals := by
  intro s1
  have hinv1 : Inv s1 := inv_mkOA s i vals hinv
  have hg : getW s1 i = some (mkOA s.heap vals).2 := by
    simp only [s1, getW_install]; simp [hi]
  have hc : cellAt s1.heap s.heap.length = cellAt (mkOA s.heap vals).1 s.heap.length := by
    apply install_cell_own _ i _ (inv_alloc s .vec vals hinv) _ _ i _ hg
    · simp [mkOA, alloc, ownAlloc]
    · intro w hw; cases hw; exact mkOA_ok s.heap vals
    · intro b x hw k b'
      simp only [mkOA, alloc, Option.some.injEq, W.oa.injEq] at hw
      rw [← hw.2]; exact not_oa_fresh s hinv k b'
  have hd : (cellAt s1.heap s.heap.length).data = vals := by
    rw [hc]; have := cellAt_alloc_new s.heap .vec vals; simp only [alloc_id] at this; simp [mkOA, this]
  refine ⟨_, hg, ?_, ?_⟩
  · simp [setPtr]
  · have := oa_read s1 hinv1 i _ _ hg
    rw [this.2]; exact hd

theorem resolve_vals_length (s : State) (src : Src) (r : Res) (h : resolve s src = some r) : r.vals.length = r.cnt := by
  cases src with
  | null => simp [resolve] at h; subst h; rfl
  | buf b off cnt =>
    simp only [resolve] at h
    split at h
    · simp at h
    · split at h
      · simp only [Option.some.injEq] at h; subst h; simp [lenAt] at *; omega
      · simp at h
  | wr j off cnt =>
    simp only [resolve] at h
    split at h
    · simp at h
    · rename_i w hw
      split at h
      · rename_i hc
        simp only [Bool.and_eq_true, decide_eq_true_eq] at hc
        split at h
        · rename_i hp
          simp only [Option.some.injEq] at h; subst h
          simp [Base.valid, hp] at hc; simp; omega
        · rename_i p hp
          simp only [Option.some.injEq] at h; subst h
          simp only [Base.valid, hp, lenAt, Bool.and_eq_true] at hc
          have h2 := of_decide_eq_true hc.1.2
          simp only [List.length_take, List.length_drop]; omega
      · simp at h

/-- what an ArrayView built on (a, off, cnt) reads from a heap: the current elements of that range -/
theorem view_reads (h : Heap) (a off cnt : Nat) :
    (setPtr (some ⟨a, off⟩) cnt).read h = ((cellAt h a).data.drop off).take cnt := by
  by_cases hc : cnt > 0
  · simp [setPtr, hc, Base.read]
  · have : cnt = 0 := by omega
    subst this; simp [setPtr, Base.read]

end RkVerif.C11
