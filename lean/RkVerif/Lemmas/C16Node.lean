/- C16 — round trip of elements: `parseNode` on the printed form of a well-formed element returns
   the element's tree (mutual induction over `Elem` / `Items`). -/
import RkVerif.Lemmas.C16RT
namespace RkVerif.C16

theorem eq_ite_content (tx : Bool) (content : Bytes) (h : tx = true → content = []) :
    (if tx = true then ([] : Bytes) else content) = content := by
  cases tx with
  | false => simp
  | true => simp [h rfl]

mutual

theorem parseNode_ev (e : Elem) : ∀ (b : Array UInt8) (s f : Nat) (t : Bytes),
    Suf b s (printElem e ++ t) → elemOK e = true → b.size - s + 1 ≤ f →
    parseNodeWith parseString f b s = .ok (eraseElem e, s + (printElem e).length) :=
  match e with
  | .selfClose name ws0 attrs => by
    intro b s f t h he hf
    cases f with
    | zero => omega
    | succ f =>
      simp only [elemOK, tagOK, Bool.and_eq_true] at he
      obtain ⟨⟨⟨hn, hw0⟩, hne⟩, hattrs⟩ := he
      have h' : Suf b s (cLT :: (name ++ (ws0 ++ (printAttrs attrs ++ cSlash :: cGT :: t)))) := by
        simpa [printElem, List.append_assoc] using h
      obtain ⟨c, t', e1, hc⟩ := tag_after_name ws0 attrs cSlash (cGT :: t) hw0 hne (by decide)
      have h1 := h'.step
      have h1' := h1; rw [e1] at h1'
      have hl1 := h1'.len'
      obtain ⟨c2, t2, e2, hc2⟩ := printAttrs_head attrs cSlash (cGT :: t) hattrs (by decide)
      have h2 := h1.app
      have h2' := h2; rw [e2] at h2'
      have hl2 := h2'.len'
      have h3 := h2.app
      have hl3 := h3.len'
      have hnpos : 1 ≤ name.length := by
        obtain ⟨c, r, e, -⟩ := identOK_head hn; subst e; simp
      unfold parseNodeWith
      refine ev_bind (consume_ev h') ?_
      refine ev_bind (parseIdentifier_ev h1' hn hc (by omega)) ?_
      simp only []
      refine ev_bind (skipWhites_ev ws0 h2' hw0 hc2 (by omega)) ?_
      refine ev_bind (propLoop_ev attrs h3 hattrs (by decide) (by decide) (by omega)) ?_
      have h4 := h3.app
      refine ev_bind (peek_ev h4) ?_
      simp only [beq_self_eq_true, if_true]
      refine ev_bind (consumeWord_ev [cSlash, cGT] (t := t) h4) ?_
      simp [eraseElem, printElem]
      omega
  | .node name ws0 attrs initWs items => by
    intro b s f t h he hf
    cases f with
    | zero => omega
    | succ f =>
      simp only [elemOK, tagOK, Bool.and_eq_true] at he
      obtain ⟨⟨⟨⟨⟨hn, hw0⟩, hne⟩, hattrs⟩, hiw⟩, hitems⟩ := he
      have h' : Suf b s (cLT :: (name ++ (ws0 ++ (printAttrs attrs ++ cGT :: (initWs ++
          (printItems items ++ cLT :: cSlash :: (name ++ cGT :: t))))))) := by
        simpa [printElem, List.append_assoc] using h
      obtain ⟨c, t', e1, hc⟩ := tag_after_name ws0 attrs cGT (initWs ++
          (printItems items ++ cLT :: cSlash :: (name ++ cGT :: t))) hw0 hne (by decide)
      have h1 := h'.step
      have h1' := h1; rw [e1] at h1'
      have hl1 := h1'.len'
      obtain ⟨c2, t2, e2, hc2⟩ := printAttrs_head attrs cGT (initWs ++
          (printItems items ++ cLT :: cSlash :: (name ++ cGT :: t))) hattrs (by decide)
      have h2 := h1.app
      have h2' := h2; rw [e2] at h2'
      have hl2 := h2'.len'
      have h3 := h2.app
      have hl3 := h3.len'
      have hnpos : 1 ≤ name.length := by
        obtain ⟨c, r, e, -⟩ := identOK_head hn; subst e; simp
      unfold parseNodeWith
      refine ev_bind (consume_ev h') ?_
      refine ev_bind (parseIdentifier_ev h1' hn hc (by omega)) ?_
      simp only []
      refine ev_bind (skipWhites_ev ws0 h2' hw0 hc2 (by omega)) ?_
      refine ev_bind (propLoop_ev attrs h3 hattrs (by decide) (by decide) (by omega)) ?_
      have h4 := h3.app
      refine ev_bind (peek_ev h4) ?_
      have : (cGT == cSlash) = false := by decide
      simp only [this, Bool.false_eq_true, if_false]
      refine ev_bind (consumeWord_ev [cGT] (t := initWs ++
          (printItems items ++ cLT :: cSlash :: (name ++ cGT :: t))) h4) ?_
      have h5 := h4.step
      have e5 : ∀ n : Nat, n + [cGT].length = n + 1 := fun _ => rfl
      rw [e5]
      rw [nodeLoop_ev items b _ f f initWs t name (propsOf [] attrs) [] [] true h5 hiw hn hitems
        (fun _ => rfl) (by simp at hl3 ⊢; omega) (Nat.le_refl _)]
      simp [eraseElem, printElem]
      omega

theorem nodeLoop_ev (items : Items) : ∀ (b : Array UInt8) (s f f0 : Nat) (w t name : Bytes)
    (props : List (Bytes × Bytes)) (content : Bytes) (children : List Node) (tx : Bool),
    Suf b s (w ++ (printItems items ++ cLT :: cSlash :: (name ++ cGT :: t))) →
    wsOK w = true → identOK name = true → itemsOK tx items = true → (tx = true → content = []) →
    b.size - s + 2 ≤ f → f ≤ f0 →
    nodeLoop (parseNodeWith parseString f0) name props f content children b s =
      .ok ({ name, props, content := if tx then contentOf items else content,
             children := children ++ childrenOf items },
           s + w.length + (printItems items).length + (name.length + 3)) :=
  match items with
  | .nil => by
    intro b s f f0 w t name props content children tx h hw hn _ hct hf hf0
    cases f with
    | zero => omega
    | succ f =>
      have h' : Suf b s (w ++ cLT :: cSlash :: (name ++ cGT :: t)) := by
        simpa [printItems] using h
      have hl := h'.len'
      have h1 := h'.app
      have h2 := h1.step.step
      have hl2 := h2.len'
      unfold nodeLoop
      refine ev_bind (skipWhites_ev w h' hw (by decide) (by omega)) ?_
      refine ev_bind (skipComment_false1 h1 (by decide)) ?_
      simp only [Bool.false_eq_true, if_false]
      refine ev_bind (peekAt0_ev h1) ?_
      simp only [beq_self_eq_true, if_true]
      refine ev_bind (peekAt1_ev h1) ?_
      simp only [beq_self_eq_true, if_true]
      refine ev_bind (consumeWord_ev [cLT, cSlash] (t := name ++ cGT :: t) h1) ?_
      refine ev_bind (parseIdentifier_ev h2 hn (by decide) (by simp at hl2 ⊢; omega)) ?_
      simp only [Option.getD_some, bne_self_eq_false, Bool.false_eq_true, if_false]
      refine ev_bind (consumeWord_ev [cGT] (t := t) h2.app) ?_
      simp [printItems, contentOf, childrenOf, eq_ite_content tx content hct]
      omega
  | .child e wA rest => by
    intro b s f f0 w t name props content children tx h hw hn hi hct hf hf0
    cases f with
    | zero => omega
    | succ f =>
      simp only [itemsOK, Bool.and_eq_true] at hi
      obtain ⟨⟨he, hwA⟩, hrest⟩ := hi
      have h' : Suf b s (w ++ (printElem e ++ (wA ++ (printItems rest ++ cLT :: cSlash :: (name ++ cGT :: t))))) := by
        simpa [printItems, List.append_assoc] using h
      obtain ⟨c, r, ee, hc⟩ := printElem_head2 e he
      obtain ⟨hcb, hcs, -, -⟩ := isIdStart_facts hc
      have h0 := h'
      rw [ee] at h0
      simp only [List.cons_append] at h0
      have hl := h0.len'
      simp only [List.length_cons, List.length_append] at hl
      have h1 := h0.app
      have hpos := printElem_pos e
      unfold nodeLoop
      refine ev_bind (skipWhites_ev w h0 hw (by decide) (by omega)) ?_
      refine ev_bind (skipComment_false1 h1 hcb) ?_
      simp only [Bool.false_eq_true, if_false]
      refine ev_bind (peekAt0_ev h1) ?_
      simp only [beq_self_eq_true, if_true]
      refine ev_bind (peekAt1_ev h1) ?_
      have : (c == cSlash) = false := by simpa using hcs
      simp only [this, Bool.false_eq_true, if_false]
      refine ev_bind (parseNode_ev e b _ f0 _ h'.app he (by omega)) ?_
      have h2 := h'.app.app
      rw [nodeLoop_ev rest b _ f f0 wA t name props content (children ++ [eraseElem e]) tx h2 hwA hn hrest hct
        (by omega) (by omega)]
      simp [printItems, contentOf, childrenOf]
      omega
  | .comment body wA rest => by
    intro b s f f0 w t name props content children tx h hw hn hi hct hf hf0
    cases f with
    | zero => omega
    | succ f =>
      simp only [itemsOK, Bool.and_eq_true] at hi
      obtain ⟨⟨hb, hwA⟩, hrest⟩ := hi
      have h' : Suf b s (w ++ (printComment body ++ (wA ++ (printItems rest ++ cLT :: cSlash :: (name ++ cGT :: t))))) := by
        simpa [printItems, List.append_assoc] using h
      have h0 : Suf b s (w ++ cLT :: (cBang :: (body ++ [cDash, cDash, cGT]) ++ (wA ++ (printItems rest ++ cLT :: cSlash :: (name ++ cGT :: t))))) := by
        simpa [printComment] using h'
      have hl := h0.len'
      simp only [List.length_cons, List.length_append] at hl
      have hcl := printComment_length body
      unfold nodeLoop
      refine ev_bind (skipWhites_ev w h0 hw (by decide) (by omega)) ?_
      refine ev_bind (skipComment_true h'.app hb (by omega)) ?_
      simp only [if_true]
      have h2 := h'.app.app
      rw [nodeLoop_ev rest b _ f f0 wA t name props content children tx h2 hwA hn hrest hct
        (by omega) (by omega)]
      simp [printItems, contentOf, childrenOf]
      omega
  | .text tt wA rest => by
    intro b s f f0 w t name props content children tx h hw hn hi hct hf hf0
    cases f with
    | zero => omega
    | succ f =>
      simp only [itemsOK, Bool.and_eq_true] at hi
      obtain ⟨⟨⟨htx, htt⟩, hwA⟩, hrest⟩ := hi
      subst htx
      have hcont : content = [] := hct rfl
      subst hcont
      obtain ⟨r, er⟩ := items_head_noText rest (cSlash :: (name ++ cGT :: t)) hrest
      have h' : Suf b s (w ++ (tt ++ (wA ++ cLT :: r))) := by
        have : Suf b s (w ++ (tt ++ (wA ++ (printItems rest ++ cLT :: cSlash :: (name ++ cGT :: t))))) := by
          simpa [printItems, List.append_assoc] using h
        rw [er] at this; exact this
      cases tt with
      | nil => simp [textOK] at htt
      | cons c0 tr =>
        simp only [textOK, Bool.and_eq_true, Bool.not_eq_true'] at htt
        obtain ⟨⟨hc0w, hall⟩, hlast⟩ := htt
        have hc0 : (c0 != cLT && c0 != 0) = true := by
          simp only [allB_cons, Bool.and_eq_true] at hall; simpa using hall.1
        simp only [Bool.and_eq_true, bne_iff_ne, ne_eq] at hc0
        have h0 : Suf b s (w ++ c0 :: (tr ++ (wA ++ cLT :: r))) := by simpa using h'
        have hl := h0.len'
        have h1 := h'.app
        have h1c : Suf b (s + w.length) (((c0 :: tr) ++ wA) ++ cLT :: r) := by
          simpa [List.append_assoc] using h1
        have hlc := h1c.len'
        have hallc : allB (fun c => c != cLT && c != 0) ((c0 :: tr) ++ wA) = true := by
          rw [allB_append, hall, Bool.true_and]
          exact allB_imp (fun c hc => ws_ne hc) hwA
        obtain ⟨cm, tm, em⟩ : ∃ cm tm, wA ++ cLT :: r = cm :: tm := by
          cases wA with
          | nil => exact ⟨_, _, rfl⟩
          | cons a wr => exact ⟨_, _, rfl⟩
        have h1m : Suf b (s + w.length) ((c0 :: tr) ++ cm :: tm) := by
          rw [← em]; exact h1
        have hnz : allB (· != 0) (c0 :: tr) = true :=
          allB_imp (fun c hc => by simp only [Bool.and_eq_true] at hc; exact hc.2) hall
        unfold nodeLoop
        refine ev_bind (skipWhites_ev w h0 hw hc0w (by omega)) ?_
        refine ev_bind (skipComment_false0 (t := tr ++ (wA ++ cLT :: r)) (by simpa using h1) hc0.1) ?_
        simp only [Bool.false_eq_true, if_false]
        refine ev_bind (peekAt0_ev (t := tr ++ (wA ++ cLT :: r)) (by simpa using h1)) ?_
        have e1 : (c0 == cLT) = false := by simpa using hc0.1
        have e2 : (c0 == (0 : UInt8)) = false := by simpa using hc0.2
        simp only [e1, e2, Bool.false_eq_true, if_false, bne_self_eq_false]
        refine ev_bind (pos_apply b _) ?_
        refine ev_bind (contentLoop_ev ((c0 :: tr) ++ wA) h1c hallc (by omega)) ?_
        refine ev_bind (pos_apply b _) ?_
        have etrim : s + w.length + ((c0 :: tr) ++ wA).length = s + w.length + (c0 :: tr).length + wA.length := by
          simp; omega
        rw [etrim]
        refine ev_bind (trimBack_ev hlast wA.length wA (cLT :: r) rfl h1 (by simp) hwA) ?_
        refine ev_bind (makeString_ev h1m hnz) ?_
        have h2 : Suf b (s + w.length + (c0 :: tr).length + wA.length)
            ([] ++ (printItems rest ++ cLT :: cSlash :: (name ++ cGT :: t))) := by
          rw [er]; simpa using h1.app.app
        rw [nodeLoop_ev rest b _ f f0 [] t name props (c0 :: tr) children false h2 rfl hn hrest
          (fun h => by cases h) (by simp at hlc ⊢; omega) (by omega)]
        simp [printItems, contentOf, childrenOf]
        omega

end

end RkVerif.C16
