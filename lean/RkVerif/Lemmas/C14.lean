/- Helper lemmas for C14.  Property theorems live in Props/C14.lean. -/
import RkVerif.Model.C14
set_option linter.unusedSectionVars false
set_option linter.unusedVariables false
namespace RkVerif.C14

variable {V : Type}

/-! ## size_t arithmetic -/

theorem W_eq : W = 2 ^ 64 := by decide

theorem W_pos : 0 < W := by decide

theorem mul_lt_of_le_maxSize (sz n : Nat) (hsz : 0 < sz) (h : n ≤ maxSize sz) : n * sz < W := by
  have : n * sz ≤ W - 1 := (Nat.le_div_iff_mul_le hsz).mp h
  have := W_pos; omega

theorem le_maxSize_of_mul_lt (sz n : Nat) (hsz : 0 < sz) (h : n * sz < W) : n ≤ maxSize sz := by
  apply (Nat.le_div_iff_mul_le hsz).mpr; omega

/-! ## the allocator's blocks -/

theorem Apart.symm {x y : Ext} (h : Apart x y) : Apart y x :=
  ⟨fun e => h.1 e.symm, h.2.symm⟩

/-- The extent a vector owns. -/
def extOf (c : Cfg) : Vec V → List Ext
  | none => []
  | some b => [⟨b.addr, b.cap * c.sz⟩]

/-- Well-formed vector: storage is non-null, aligned, inside the address space, and the constructed
    elements fit the capacity. -/
def WfV (c : Cfg) : Vec V → Prop
  | none => True
  | some b => b.addr ≠ 0 ∧ b.addr % c.A = 0 ∧ 0 < b.cap ∧ b.cells.length ≤ b.cap ∧ b.addr + b.cap * c.sz ≤ W

/-- Invariant of one vector in a heap whose other live blocks are `F` (the frame). -/
structure VInv (c : Cfg) (s : VS V) (F : List Ext) : Prop where
  nofault : s.fault = false
  wf : WfV c s.v
  perm : s.live.Perm (extOf c s.v ++ F)
  apart : s.live.Pairwise Apart

theorem size_le_cap (c : Cfg) (v : Vec V) (h : WfV c v) : v.size ≤ v.cap := by
  cases v with
  | none => simp [Vec.size, Vec.cap]
  | some b => exact h.2.2.2.1

theorem contents_length (v : Vec V) : v.contents.length = v.size := by
  cases v <;> simp [Vec.contents, Vec.size]

/-- Releasing the storage a vector owns: exactly its block leaves the live set, no fault. -/
theorem free_owned (c : Cfg) (live : List Ext) (v : Vec V) (F : List Ext)
    (wf : WfV c v) (hp : live.Perm (extOf c v ++ F)) (ha : live.Pairwise Apart) :
    ∃ L, free live v.data = (L, false) ∧ L.Perm F ∧ L.Pairwise Apart := by
  cases v with
  | none => exact ⟨live, by simp [free, Vec.data], by simpa [extOf] using hp, ha⟩
  | some b =>
    obtain ⟨hne, -, -, -, -⟩ := wf
    have hp' : live.Perm (⟨b.addr, b.cap * c.sz⟩ :: F) := by simpa [extOf] using hp
    have hmem : (⟨b.addr, b.cap * c.sz⟩ : Ext) ∈ live := hp'.symm.subset (by simp)
    have hany : live.any (·.addr == b.addr) = true := by
      rw [List.any_eq_true]; exact ⟨_, hmem, by simp⟩
    have hpw : (⟨b.addr, b.cap * c.sz⟩ :: F).Pairwise Apart := hp'.pairwise ha Apart.symm
    have hF : ∀ f ∈ F, (!(f.addr == b.addr)) = true := by
      intro f hf
      have := (List.pairwise_cons.mp hpw).1 f hf
      have h1 : b.addr ≠ f.addr := this.1
      simp; exact fun e => h1 e.symm
    refine ⟨live.filter (fun e => !(e.addr == b.addr)), by simp [free, Vec.data, hne, hany], ?_, ha.filter _⟩
    have := hp'.filter (fun e => !(e.addr == b.addr))
    rw [List.filter_cons] at this
    simp only [beq_self_eq_true, Bool.not_true, Bool.false_eq_true, ↓reduceIte] at this
    rwa [List.filter_eq_self.mpr hF] at this

/-- A successful allocation for `n` elements holding `cells` (which fit). -/
theorem fresh_ok (c : Cfg) (hs : SysOK c.sys) (hA : 0 < c.A) (hsz : 0 < c.sz)
    (live : List Ext) (n : Nat) (cells : Unit → List V) (hlen : (cells ()).length ≤ n)
    (ha : live.Pairwise Apart) (live1 : List Ext) (v1 : Vec V) (f1 : Bool)
    (h : fresh c live n cells = .ok (live1, v1, f1)) :
    f1 = false ∧ WfV c v1 ∧ live1 = extOf c v1 ++ live ∧ live1.Pairwise Apart ∧
      v1.contents = cells () ∧ v1.cap = n := by
  unfold fresh at h
  unfold allocGuard at h
  by_cases h0 : n = 0
  · subst h0
    simp only [↓reduceIte] at h
    injection h with h; injection h with h1 h; injection h with h2 h3
    subst h1; subst h2
    have hc : cells () = [] := List.length_eq_zero_iff.mp (by omega)
    refine ⟨by simpa [hc] using h3.symm, trivial, by simp [extOf], ha, by simp [Vec.contents, hc], by simp [Vec.cap]⟩
  · by_cases hm : n > maxSize c.sz
    · simp [h0, hm] at h
    · simp only [h0, hm, ↓reduceIte] at h
      have hlt : n * c.sz < W := mul_lt_of_le_maxSize c.sz n hsz (by omega)
      rw [Nat.mod_eq_of_lt hlt] at h
      cases hsys : c.sys live (n * c.sz) c.A with
      | none => simp [hsys] at h
      | some p =>
        simp only [hsys] at h
        injection h with h; injection h with h1 h; injection h with h2 h3
        subst h1; subst h2
        obtain ⟨p0, pa, pw, pap⟩ := hs live (n * c.sz) c.A p hA hsys
        have hn : 0 < n := by omega
        refine ⟨?_, ⟨p0, pa, hn, hlen, pw⟩, by simp [extOf], ?_, by simp [Vec.contents], by simp [Vec.cap]⟩
        · have : ¬ (cells ()).length > n := by omega
          simpa [this] using h3.symm
        · exact List.pairwise_cons.mpr ⟨pap, ha⟩

theorem regrow_spec (c : Cfg) (hs : SysOK c.sys) (hA : 0 < c.A) (hsz : 0 < c.sz)
    (s : VS V) (F : List Ext) (inv : VInv c s F) (n : Nat) (cells : Unit → List V) (hlen : (cells ()).length ≤ n) :
    ((regrow c s n cells).2 = .ok →
        VInv c (regrow c s n cells).1 F ∧ (regrow c s n cells).1.v.contents = cells () ∧
        (regrow c s n cells).1.v.cap = n) ∧
    ((regrow c s n cells).2 ≠ .ok → (regrow c s n cells).1 = s) := by
  unfold regrow
  cases hf : fresh c s.live n cells with
  | error o =>
    simp only
    refine ⟨fun h => ?_, fun _ => by trivial⟩
    -- `fresh` never fails with outcome ok
    unfold fresh at hf
    split at hf
    · simp at hf
    · injection hf with hf; subst hf; simp at h
    · split at hf
      · injection hf with hf; subst hf; simp at h
      · simp at hf
  | ok r =>
    obtain ⟨live1, v1, f1⟩ := r
    obtain ⟨hf1, wf1, hl1, hap1, hc1, hcap1⟩ :=
      fresh_ok c hs hA hsz s.live n cells hlen inv.apart live1 v1 f1 hf
    -- the old storage is still owned: live1 ~ extOf old ++ (extOf new ++ F)
    have hperm : live1.Perm (extOf c s.v ++ (extOf c v1 ++ F)) := by
      rw [hl1]
      have := inv.perm.append_left (extOf c v1)
      refine this.trans ?_
      rw [← List.append_assoc, ← List.append_assoc]
      exact List.Perm.append_right F List.perm_append_comm
    obtain ⟨L, hfree, hLp, hLa⟩ := free_owned c live1 s.v (extOf c v1 ++ F) inv.wf hperm hap1
    simp only [hfree]
    refine ⟨fun _ => ⟨⟨by simp [inv.nofault, hf1], wf1, hLp, hLa⟩, hc1, hcap1⟩, fun h => by simp at h⟩

theorem inPlace_spec (c : Cfg) (s : VS V) (F : List Ext) (inv : VInv c s F) (cells : List V)
    (hlen : cells.length ≤ s.v.cap) :
    VInv c (inPlace s cells) F ∧ (inPlace s cells).v.contents = cells ∧ (inPlace s cells).v.cap = s.v.cap := by
  obtain ⟨nf, wf, hp, ha⟩ := inv
  unfold inPlace
  cases hv : s.v with
  | none =>
    rw [hv] at hlen wf hp
    have : cells = [] := List.length_eq_zero_iff.mp (by simpa [Vec.cap] using hlen)
    subst this
    refine ⟨⟨by simp [nf], by simpa [hv] using wf, by simpa [hv] using hp, ha⟩, by simp [Vec.contents], by simp⟩
  | some b =>
    rw [hv] at hlen wf hp
    simp only [Vec.cap] at hlen
    obtain ⟨w1, w2, w3, w4, w5⟩ := wf
    have : ¬ cells.length > b.cap := by omega
    exact ⟨⟨by simp [nf, this], ⟨w1, w2, w3, hlen, w5⟩, by simpa [extOf] using hp, ha⟩,
      by simp [Vec.contents], by simp [Vec.cap]⟩

/-- Invariant of the two-vector state: no fault so far, both vectors well-formed (storage non-null,
    aligned, elements within capacity), live blocks pairwise apart, and the live set is *exactly*
    the storage the two vectors own. -/
structure Inv (c : Cfg) (s : St V) : Prop where
  nofault : s.fault = false
  wfa : WfV c s.a
  wfb : WfV c s.b
  perm : s.live.Perm (extOf c s.a ++ extOf c s.b)
  apart : s.live.Pairwise Apart

/-! ## the copy loop -/

theorem copyCells_take (l : List V) (n : Nat) (h : n ≤ l.length) : copyCells l n = l.take n := by
  induction n with
  | zero => simp [copyCells]
  | succ k ih =>
    have hk : k < l.length := by omega
    have ih := ih (by omega)
    unfold copyCells at *
    rw [List.range_succ, List.filterMap_append, ih, List.take_add_one]
    congr 1

theorem copyCells_self (l : List V) : copyCells l l.length = l := by
  rw [copyCells_take l l.length (Nat.le_refl _)]; simp

end RkVerif.C14
