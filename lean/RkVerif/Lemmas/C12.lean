/-
Helper lemmas for property C12 (model: Model/C12.lean).
-/
import RkVerif.Model.C12

namespace RkVerif.C12

/-! ## TransactionalBuffer -/
section TBuf
variable {P α : Type}

theorem delivered_step_push (s : BSys P α) (p : P) (x : α) :
    (s.step (.push p x)).delivered = s.delivered ++ [(p, x)] := by
  simp [BSys.step, BSys.exec, BSys.delivered, TBuf.pushBack, List.append_assoc]

theorem delivered_step_consume (s : BSys P α) : (s.step .consume).delivered = s.delivered := by
  simp [BSys.step, BSys.exec, BSys.delivered, TBuf.consume]

theorem delivered_runR (hist : List (BEv P α)) : (BSys.runR hist).delivered = pushedAll hist := by
  induction hist with
  | nil => simp [BSys.runR, BSys.delivered, pushedAll]
  | cons e earlier ih =>
    cases e with
    | push p x => simp [BSys.runR, pushedAll, delivered_step_push, ih]
    | consume => simp [BSys.runR, pushedAll, delivered_step_consume, ih]
    | size => simpa [BSys.runR, pushedAll, BSys.step, BSys.exec] using ih
    | empty => simpa [BSys.runR, pushedAll, BSys.step, BSys.exec] using ih

theorem pushedAll_filter [DecidableEq P] (p : P) (hist : List (BEv P α)) :
    (pushedAll hist).filter (fun e => e.1 = p) = (pushesOf p hist).map (fun x => (p, x)) := by
  induction hist with
  | nil => simp [pushedAll, pushesOf]
  | cons e earlier ih =>
    cases e with
    | push q x =>
      by_cases h : q = p
      · subst h; simp [pushedAll, pushesOf, ih]
      · simp [pushedAll, pushesOf, ih, h]
    | consume => simpa [pushedAll, pushesOf] using ih
    | size => simpa [pushedAll, pushesOf] using ih
    | empty => simpa [pushedAll, pushesOf] using ih

theorem pushedAll_count [DecidableEq P] [DecidableEq α] (p : P) (x : α) (hist : List (BEv P α)) :
    (pushedAll hist).count (p, x) = (pushesOf p hist).count x := by
  induction hist with
  | nil => simp [pushedAll, pushesOf]
  | cons e earlier ih =>
    cases e with
    | push q y =>
      by_cases h : q = p
      · subst h
        by_cases hy : y = x
        · subst hy; simp [pushedAll, pushesOf, ih, List.count_append]
        · simp [pushedAll, pushesOf, ih, List.count_append, hy]
      · simp [pushedAll, pushesOf, ih, List.count_append, h]
    | consume => simpa [pushedAll, pushesOf] using ih
    | size => simpa [pushedAll, pushesOf] using ih
    | empty => simpa [pushedAll, pushesOf] using ih

/-- Between two consumes the buffer only grows at its end. -/
theorem buffer_prefix_of_no_consume (hist more : List (BEv P α))
    (h : ∀ e ∈ more, e.isConsume = false) :
    (BSys.runR hist).buf.buffer <+: (BSys.runR (more ++ hist)).buf.buffer := by
  induction more with
  | nil => simp
  | cons e rest ih =>
    have ih' := ih (fun e he => h e (List.mem_cons_of_mem _ he))
    cases e with
    | push p x =>
      simp only [List.cons_append, BSys.runR, BSys.step, BSys.exec, TBuf.pushBack]
      exact List.IsPrefix.trans ih' (List.prefix_append _ _)
    | consume => simpa [BEv.isConsume] using h .consume (List.mem_cons_self)
    | size => simpa [BSys.runR, BSys.step, BSys.exec] using ih'
    | empty => simpa [BSys.runR, BSys.step, BSys.exec] using ih'

end TBuf

/-! ## TransactionalValue -/
section TVal
variable {V : Type}

open VSys

theorem valAt_append (c0 : Option V) (as : List V) (v : V) (k : Nat) (hk : k ≤ as.length) :
    valAt c0 (as ++ [v]) k = valAt c0 as k := by
  unfold valAt
  split
  · rfl
  · rw [List.getElem?_append_left (by omega)]

/-- The inductive invariant of the producer/consumer system. -/
structure Inv (c0 : Option V) (s : VSys V) : Prop where
  le : s.upTo ≤ s.assigned.length
  flagT : s.tv.newValue = true → s.tv.queued = s.assigned.getLast? ∧ s.upTo < s.assigned.length
  flagF : s.tv.newValue = false → s.upTo = s.assigned.length
  pcI : s.pc = .install → s.tv.newValue = true
  cur : s.tv.current = valAt c0 s.assigned s.upTo
  logK : ∀ o ∈ s.log, o.k ≤ s.upTo
  logSorted : (s.log.map Obs.k).Pairwise (· ≤ ·)
  logGot : ∀ k v, Obs.got k v ∈ s.log → k ≤ s.assigned.length ∧ v = valAt c0 s.assigned k
  logUpd : ∀ r kb ka n, Obs.upd r kb ka n ∈ s.log → (r = true ↔ kb < ka) ∧ ka = n ∧ kb ≤ ka ∧ ka ≤ s.assigned.length

theorem inv_init (c0 : Option V) : Inv c0 (VSys.init c0) := by
  constructor <;> simp [VSys.init, valAt]

theorem pairwise_snoc {l : List Nat} {k : Nat} (h : l.Pairwise (· ≤ ·)) (hk : ∀ x ∈ l, x ≤ k) :
    (l ++ [k]).Pairwise (· ≤ ·) := by
  rw [List.pairwise_append]
  exact ⟨h, by simp, by simpa using hk⟩

theorem inv_step (c0 : Option V) (s : VSys V) (e : VEv V) (h : Inv c0 s) : Inv c0 (s.step e) := by
  cases e with
  | assign v =>
    refine ⟨?_, ?_, ?_, ?_, ?_, ?_, ?_, ?_, ?_⟩
    · simp [VSys.step]; have := h.le; omega
    · intro _; simp [VSys.step, TVal.assign]; have := h.le; omega
    · simp [VSys.step, TVal.assign]
    · intro _; simp [VSys.step, TVal.assign]
    · simp only [VSys.step, TVal.assign]; rw [valAt_append _ _ _ _ h.le]; exact h.cur
    · simpa [VSys.step] using h.logK
    · simpa [VSys.step] using h.logSorted
    · intro k v hm
      have ⟨h1, h2⟩ := h.logGot k v (by simpa [VSys.step] using hm)
      refine ⟨by simp [VSys.step]; omega, ?_⟩
      simp only [VSys.step]; rw [valAt_append _ _ _ _ h1]; exact h2
    · intro r kb ka n hm
      have ⟨h1, h2, h3, h4⟩ := h.logUpd r kb ka n (by simpa [VSys.step] using hm)
      exact ⟨h1, h2, h3, by simp [VSys.step]; omega⟩
  | updRead =>
    cases hpc : s.pc with
    | install => simpa [VSys.step, hpc] using h
    | idle =>
      cases hf : s.tv.newValue with
      | true =>
        have e : s.step .updRead = { s with pc := .install } := by simp [VSys.step, hpc, TVal.readFlag, hf]
        rw [e]
        exact ⟨h.le, h.flagT, h.flagF, fun _ => hf, h.cur, h.logK, h.logSorted, h.logGot, h.logUpd⟩
      | false =>
        have e : s.step .updRead = { s with log := s.log ++ [.upd false s.upTo s.upTo s.assigned.length] } := by
          simp [VSys.step, hpc, TVal.readFlag, hf]
        rw [e]
        have hup := h.flagF hf
        refine ⟨h.le, h.flagT, h.flagF, ?_, h.cur, ?_, ?_, ?_, ?_⟩
        · intro hp; simp [hpc] at hp
        · intro o ho
          rcases List.mem_append.mp ho with ho | ho
          · exact h.logK o ho
          · simp at ho; subst ho; simp [Obs.k]
        · simp only [List.map_append, List.map_cons, List.map_nil, Obs.k]
          exact pairwise_snoc h.logSorted (by
            intro x hx
            obtain ⟨o, ho, rfl⟩ := List.mem_map.mp hx
            exact h.logK o ho)
        · intro k v hm
          rcases List.mem_append.mp hm with hm | hm
          · exact h.logGot k v hm
          · simp at hm
        · intro r kb ka n hm
          rcases List.mem_append.mp hm with hm | hm
          · exact h.logUpd r kb ka n hm
          · simp at hm
            obtain ⟨rfl, rfl, rfl, rfl⟩ := hm
            simp [hup]
  | updInstall =>
    cases hpc : s.pc with
    | idle => simpa [VSys.step, hpc] using h
    | install =>
      have hf := h.pcI hpc
      have ⟨hq, hlt⟩ := h.flagT hf
      have e : s.step .updInstall =
          { s with tv := s.tv.install, pc := .idle, upTo := s.assigned.length,
                   log := s.log ++ [.upd true s.upTo s.assigned.length s.assigned.length] } := by
        simp [VSys.step, hpc]
      rw [e]
      refine ⟨by simp, ?_, ?_, ?_, ?_, ?_, ?_, ?_, ?_⟩
      · simp [TVal.install]
      · simp
      · simp
      · simp only [TVal.install, hq, valAt]
        rw [List.getLast?_eq_getElem?]
        have : s.assigned.length ≠ 0 := by omega
        simp [this]
      · intro o ho
        rcases List.mem_append.mp ho with ho | ho
        · exact Nat.le_trans (h.logK o ho) h.le
        · simp at ho; subst ho; simp [Obs.k]
      · simp only [List.map_append, List.map_cons, List.map_nil, Obs.k]
        exact pairwise_snoc h.logSorted (by
          intro x hx
          obtain ⟨o, ho, rfl⟩ := List.mem_map.mp hx
          exact Nat.le_trans (h.logK o ho) h.le)
      · intro k v hm
        rcases List.mem_append.mp hm with hm | hm
        · exact h.logGot k v hm
        · simp at hm
      · intro r kb ka n hm
        rcases List.mem_append.mp hm with hm | hm
        · exact h.logUpd r kb ka n hm
        · simp at hm
          obtain ⟨rfl, rfl, rfl, rfl⟩ := hm
          simp; omega
  | get =>
    cases hpc : s.pc with
    | install => simpa [VSys.step, hpc] using h
    | idle =>
      have e : s.step .get = { s with log := s.log ++ [.got s.upTo s.tv.get] } := by simp [VSys.step, hpc]
      rw [e]
      refine ⟨h.le, h.flagT, h.flagF, h.pcI, h.cur, ?_, ?_, ?_, ?_⟩
      · intro o ho
        rcases List.mem_append.mp ho with ho | ho
        · exact h.logK o ho
        · simp at ho; subst ho; simp [Obs.k]
      · simp only [List.map_append, List.map_cons, List.map_nil, Obs.k]
        exact pairwise_snoc h.logSorted (by
          intro x hx
          obtain ⟨o, ho, rfl⟩ := List.mem_map.mp hx
          exact h.logK o ho)
      · intro k v hm
        rcases List.mem_append.mp hm with hm | hm
        · exact h.logGot k v hm
        · simp at hm
          obtain ⟨rfl, rfl⟩ := hm
          exact ⟨h.le, h.cur⟩
      · intro r kb ka n hm
        rcases List.mem_append.mp hm with hm | hm
        · exact h.logUpd r kb ka n hm
        · simp at hm

theorem inv_runR (c0 : Option V) (hist : List (VEv V)) : Inv c0 (VSys.runR c0 hist) := by
  induction hist with
  | nil => exact inv_init c0
  | cons e earlier ih => exact inv_step c0 _ e ih

/-! ### the consumer catching up after the producer stopped -/

theorem step_assigned_of_consumer (s : VSys V) (e : VEv V) (h : VEv.isAssign e = false) :
    (s.step e).assigned = s.assigned := by
  cases e with
  | assign v => simp [VEv.isAssign] at h
  | updRead => simp only [VSys.step]; split <;> (try split) <;> rfl
  | updInstall => simp only [VSys.step]; split <;> rfl
  | get => simp only [VSys.step]; split <;> rfl

/-- Up to date: nothing pending, flag clear. -/
def Quiet (s : VSys V) : Prop := s.pc = .idle ∧ s.tv.newValue = false

theorem quiet_step (s : VSys V) (e : VEv V) (h : VEv.isAssign e = false) (hq : Quiet s) :
    Quiet (s.step e) ∧ (s.step e).tv = s.tv ∧ (s.step e).upTo = s.upTo := by
  obtain ⟨hpc, hf⟩ := hq
  cases e with
  | assign v => simp [VEv.isAssign] at h
  | updRead => simp [VSys.step, hpc, TVal.readFlag, hf, Quiet]
  | updInstall => simp [VSys.step, hpc, hf, Quiet]
  | get => simp [VSys.step, hpc, hf, Quiet]

theorem finish_from_idle (c0 : Option V) (s1 : VSys V) (h1 : Inv c0 s1) (hpc1 : s1.pc = .idle) :
    Quiet ((s1.step .updRead).step .updInstall) ∧
      ((s1.step .updRead).step .updInstall).assigned = s1.assigned ∧
      ((s1.step .updRead).step .updInstall).upTo = s1.assigned.length := by
  cases hf : s1.tv.newValue with
  | false =>
    have e : s1.step .updRead = { s1 with log := s1.log ++ [.upd false s1.upTo s1.upTo s1.assigned.length] } := by
      simp [VSys.step, hpc1, TVal.readFlag, hf]
    have hup := h1.flagF hf
    rw [e]; simp [VSys.step, hpc1, Quiet, hf, hup]
  | true =>
    have e : s1.step .updRead = { s1 with pc := .install } := by simp [VSys.step, hpc1, TVal.readFlag, hf]
    rw [e]; simp [VSys.step, Quiet, TVal.install]

theorem finishUpdate_quiet (c0 : Option V) (s : VSys V) (h : Inv c0 s) :
    Quiet (finishUpdate s) ∧ (finishUpdate s).assigned = s.assigned ∧
      (finishUpdate s).upTo = s.assigned.length := by
  -- after the first updInstall the consumer is idle
  have h1 : Inv c0 (s.step .updInstall) := inv_step c0 s _ h
  have hpc1 : (s.step .updInstall).pc = .idle := by
    cases hpc : s.pc <;> simp [VSys.step, hpc]
  have ha1 : (s.step .updInstall).assigned = s.assigned := step_assigned_of_consumer s _ rfl
  have := finish_from_idle c0 _ h1 hpc1
  rw [ha1] at this
  exact this

end TVal
end RkVerif.C12
