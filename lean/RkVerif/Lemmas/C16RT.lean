/- C16 — evaluation lemmas for the round trip: what each helper of the XML.cpp model returns when
   the buffer, from the cursor on, starts with the text the printer emits for the corresponding
   construct.  `Suf b s l`: the zero-terminated buffer from index `s` on is exactly `l`. -/
import RkVerif.Model.C16
import RkVerif.Lemmas.C16
namespace RkVerif.C16

variable {α β : Type}

/-- the zero-terminated buffer from index `s` on -/
def Suf (b : Array UInt8) (s : Nat) (l : Bytes) : Prop := (b.toList ++ [0]).drop s = l

theorem Suf.zero (b : Array UInt8) : Suf b 0 (b.toList ++ [0]) := by simp [Suf]

theorem Suf.len {b : Array UInt8} {s : Nat} {c : UInt8} {t : Bytes} (h : Suf b s (c :: t)) :
    s + t.length = b.size := by
  have := congrArg List.length h
  simp at this
  omega

theorem Suf.rdOk {b : Array UInt8} {s : Nat} {c : UInt8} {t : Bytes} (h : Suf b s (c :: t)) :
    rd b s = .ok c := by
  have hl := h.len
  have h0 : (b.toList ++ [0])[s]? = some c := by
    have := congrArg List.head? h
    simpa [List.head?_drop] using this
  unfold rd
  by_cases h1 : s < b.size
  · simp only [h1, dite_true]
    rw [List.getElem?_append_left (by simpa using h1)] at h0
    simp only [Array.getElem?_toList] at h0
    rw [Array.getElem?_eq_getElem h1] at h0
    rw [Option.some.inj h0]
  · have : s = b.size := by omega
    subst this
    simp at h0
    simp [h0]

theorem Suf.step {b : Array UInt8} {s : Nat} {c : UInt8} {t : Bytes} (h : Suf b s (c :: t)) :
    Suf b (s + 1) t := by
  unfold Suf at *
  rw [← List.drop_drop, h]; rfl

theorem Suf.app {b : Array UInt8} {s : Nat} {x t : Bytes} (h : Suf b s (x ++ t)) :
    Suf b (s + x.length) t := by
  unfold Suf at *
  rw [← List.drop_drop, h]; simp

theorem Suf.rdAt {b : Array UInt8} {s : Nat} {x : Bytes} {c : UInt8} {t : Bytes} (h : Suf b s (x ++ c :: t)) :
    rd b (s + x.length) = .ok c := (h.app).rdOk

theorem ev_bind {m : XmlM α} {f : α → XmlM β} {b : Array UInt8} {s s1 : Nat} {a : α}
    {r : Except Err (β × Nat)} (h1 : m b s = .ok (a, s1)) (h2 : f a b s1 = r) : (m >>= f) b s = r := by
  rw [bind_apply, h1]; exact h2

theorem peek_ev {b : Array UInt8} {s : Nat} {c : UInt8} {t : Bytes} (h : Suf b s (c :: t)) :
    peek b s = .ok (c, s) := by
  simp [peek, peekAt, h.rdOk]

theorem peekAt0_ev {b : Array UInt8} {s : Nat} {c : UInt8} {t : Bytes} (h : Suf b s (c :: t)) :
    peekAt 0 b s = .ok (c, s) := peek_ev h

theorem peekAt1_ev {b : Array UInt8} {s : Nat} {c0 c : UInt8} {t : Bytes} (h : Suf b s (c0 :: c :: t)) :
    peekAt 1 b s = .ok (c, s) := by
  simp [peekAt, h.step.rdOk]

theorem peekAt2_ev {b : Array UInt8} {s : Nat} {c0 c1 c : UInt8} {t : Bytes} (h : Suf b s (c0 :: c1 :: c :: t)) :
    peekAt 2 b s = .ok (c, s) := by
  simp [peekAt, h.step.step.rdOk]

theorem consume_ev {b : Array UInt8} {s : Nat} {w : UInt8} {t : Bytes} (h : Suf b s (w :: t)) :
    consume w b s = .ok ((), s + 1) := by
  simp [consume, expect, bind_apply, peek_ev h]

theorem consumeWord_ev {b : Array UInt8} (ws : Bytes) : ∀ {s : Nat} {t : Bytes}, Suf b s (ws ++ t) →
    consumeWord ws b s = .ok ((), s + ws.length) := by
  induction ws with
  | nil => intro s t h; simp [consumeWord]
  | cons w ws ih =>
    intro s t h
    unfold consumeWord
    refine ev_bind (consume_ev (t := ws ++ t) h) ?_
    rw [ih (s := s + 1) (t := t) (Suf.step h)]
    simp; omega


theorem Suf.len' {b : Array UInt8} {s : Nat} {x : Bytes} {c : UInt8} {t : Bytes} (h : Suf b s (x ++ c :: t)) :
    s + x.length + t.length = b.size := by
  have := (h.app).len; omega

@[simp] theorem allB_nil (p : UInt8 → Bool) : allB p [] = true := rfl
@[simp] theorem allB_cons (p : UInt8 → Bool) (c : UInt8) (t : Bytes) :
    allB p (c :: t) = (p c && allB p t) := rfl

theorem allB_append (p : UInt8 → Bool) (x y : Bytes) : allB p (x ++ y) = (allB p x && allB p y) := by
  induction x with
  | nil => simp
  | cons c t ih => simp [ih, Bool.and_assoc]

theorem allB_imp {p q : UInt8 → Bool} (h : ∀ c, p c = true → q c = true) :
    ∀ {x : Bytes}, allB p x = true → allB q x = true := by
  intro x
  induction x with
  | nil => simp
  | cons c t ih => simp only [allB_cons, Bool.and_eq_true]; exact fun ⟨h1, h2⟩ => ⟨h c h1, ih h2⟩

theorem skipWhites_ev {b : Array UInt8} (w : Bytes) : ∀ {s f : Nat} {c : UInt8} {t : Bytes},
    Suf b s (w ++ c :: t) → allB isWhite w = true → isWhite c = false → b.size - s + 1 ≤ f →
    skipWhites f b s = .ok ((), s + w.length) := by
  induction w with
  | nil =>
    intro s f c t h _ hc hf
    cases f with
    | zero => omega
    | succ f =>
      unfold skipWhites
      refine ev_bind (peek_ev (t := t) h) ?_
      simp [hc]
  | cons x w ih =>
    intro s f c t h hw hc hf
    have hl := h.len' 
    simp only [allB_cons, Bool.and_eq_true] at hw
    cases f with
    | zero => omega
    | succ f =>
      unfold skipWhites
      refine ev_bind (peek_ev (t := w ++ c :: t) h) ?_
      simp only [hw.1, if_true]
      refine ev_bind (adv_apply b s) ?_
      rw [ih (Suf.step h) hw.2 hc (by simp at hl; omega)]
      simp; omega

theorem identLoop_ev {b : Array UInt8} (w : Bytes) : ∀ {s f : Nat} {c : UInt8} {t : Bytes},
    Suf b s (w ++ c :: t) → allB isIdChar w = true → isIdChar c = false → b.size - s + 1 ≤ f →
    identLoop f b s = .ok ((), s + w.length) := by
  induction w with
  | nil =>
    intro s f c t h _ hc hf
    cases f with
    | zero => omega
    | succ f =>
      unfold identLoop
      refine ev_bind (peek_ev (t := t) h) ?_
      simp [hc]
  | cons x w ih =>
    intro s f c t h hw hc hf
    have hl := h.len'
    simp only [allB_cons, Bool.and_eq_true] at hw
    cases f with
    | zero => omega
    | succ f =>
      unfold identLoop
      refine ev_bind (peek_ev (t := w ++ c :: t) h) ?_
      simp only [hw.1, if_true]
      refine ev_bind (adv_apply b s) ?_
      rw [ih (Suf.step h) hw.2 hc (by simp at hl; omega)]
      simp; omega

/-- the content scan stops at the first `<` -/
theorem contentLoop_ev {b : Array UInt8} (w : Bytes) : ∀ {s f : Nat} {t : Bytes},
    Suf b s (w ++ cLT :: t) → allB (fun c => c != cLT && c != 0) w = true → b.size - s + 1 ≤ f →
    contentLoop f b s = .ok ((), s + w.length) := by
  induction w with
  | nil =>
    intro s f t h _ hf
    cases f with
    | zero => omega
    | succ f =>
      unfold contentLoop
      refine ev_bind (peek_ev (t := t) h) ?_
      simp
  | cons x w ih =>
    intro s f t h hw hf
    have hl := h.len'
    simp only [allB_cons, Bool.and_eq_true] at hw
    cases f with
    | zero => omega
    | succ f =>
      unfold contentLoop
      refine ev_bind (peek_ev (t := w ++ cLT :: t) h) ?_
      have : (x != cLT && x != 0) = true := by simpa using hw.1
      simp only [this, if_true]
      refine ev_bind (adv_apply b s) ?_
      rw [ih (Suf.step h) hw.2 (by simp at hl; omega)]
      simp; omega

/-- the string scan stops at the closing quote (backslash pairs are stepped over) -/
theorem stringLoop_ev_aux {b : Array UInt8} (q : UInt8) (hq : q ≠ cBSl) : ∀ (n : Nat) (v : Bytes) {s f : Nat} {t : Bytes},
    v.length ≤ n → Suf b s (v ++ q :: t) → valOK q v = true → b.size - s + 1 ≤ f →
    stringLoop q f b s = .ok ((), s + v.length) := by
  intro n
  induction n with
  | zero =>
    intro v s f t hn h _ hf
    have : v = [] := List.eq_nil_of_length_eq_zero (by omega)
    subst this
    cases f with
    | zero => omega
    | succ f =>
      unfold stringLoop
      refine ev_bind (peek_ev (t := t) h) ?_
      simp
  | succ n ih =>
    intro v s f t hn h hv hf
    cases v with
    | nil =>
      cases f with
      | zero => omega
      | succ f =>
        unfold stringLoop
        refine ev_bind (peek_ev (t := t) h) ?_
        simp
    | cons x v =>
      have hl := h.len'
      cases f with
      | zero => omega
      | succ f =>
        by_cases hb : (x == cBSl) = true
        · have hxb : x = cBSl := by simpa using hb
          cases v with
          | nil => simp [valOK, hb] at hv
          | cons y v =>
            simp only [valOK, hb, if_true, Bool.and_eq_true] at hv
            have hxq : (x != q) = true := by
              rw [hxb]; simp only [bne_iff_ne, ne_eq]; exact fun h => hq h.symm
            have hy : (y == (0 : UInt8)) = false := by simpa using hv.1
            unfold stringLoop
            refine ev_bind (peek_ev (t := (y :: v) ++ q :: t) h) ?_
            simp only [hxq, if_true, hb]
            refine ev_bind (adv_apply b s) ?_
            refine ev_bind (peek_ev (t := v ++ q :: t) (Suf.step h)) ?_
            simp only [hy, Bool.false_eq_true, if_false]
            refine ev_bind (adv_apply b _) ?_
            simp only [List.length_cons] at hn hl
            rw [ih v (by omega) (Suf.step (Suf.step h)) hv.2 (by omega)]
            simp; omega
        · have hb' : (x == cBSl) = false := by simpa using hb
          rw [valOK.eq_def] at hv
          simp only [hb', Bool.false_eq_true, if_false, Bool.and_eq_true] at hv
          obtain ⟨⟨hx0, hxq⟩, hv'⟩ := hv
          unfold stringLoop
          refine ev_bind (peek_ev (t := v ++ q :: t) h) ?_
          simp only [hxq, if_true]
          simp only [hb', Bool.false_eq_true, if_false]
          refine ev_bind (pure_apply () b s) ?_
          refine ev_bind (peek_ev (t := v ++ q :: t) h) ?_
          have hz : (x == 0) = false := by simpa using hx0
          simp only [hz, Bool.false_eq_true, if_false]
          refine ev_bind (adv_apply b s) ?_
          simp only [List.length_cons] at hn hl
          rw [ih v (by omega) (Suf.step h) hv' (by omega)]
          simp; omega

theorem stringLoop_ev {b : Array UInt8} (q : UInt8) (hq : q ≠ cBSl) (v : Bytes) {s f : Nat} {t : Bytes}
    (h : Suf b s (v ++ q :: t)) (hv : valOK q v = true) (hf : b.size - s + 1 ≤ f) :
    stringLoop q f b s = .ok ((), s + v.length) :=
  stringLoop_ev_aux q hq v.length v (Nat.le_refl _) h hv hf

theorem valOK_nz_aux (q : UInt8) : ∀ (n : Nat) (v : Bytes), v.length ≤ n → valOK q v = true →
    allB (· != 0) v = true := by
  intro n
  induction n with
  | zero =>
    intro v hn _
    have : v = [] := List.eq_nil_of_length_eq_zero (by omega)
    subst this; rfl
  | succ n ih =>
    intro v hn hv
    cases v with
    | nil => rfl
    | cons x v =>
      by_cases hb : (x == cBSl) = true
      · cases v with
        | nil => simp [valOK, hb] at hv
        | cons y v =>
          simp only [valOK, hb, if_true, Bool.and_eq_true] at hv
          have hxb : x = cBSl := by simpa using hb
          simp only [List.length_cons] at hn
          simp only [allB_cons, Bool.and_eq_true]
          exact ⟨by rw [hxb]; decide, hv.1, ih v (by omega) hv.2⟩
      · have hb' : (x == cBSl) = false := by simpa using hb
        rw [valOK.eq_def] at hv
        simp only [hb', Bool.false_eq_true, if_false, Bool.and_eq_true] at hv
        simp only [List.length_cons] at hn
        simp only [allB_cons, Bool.and_eq_true]
        exact ⟨hv.1.1, ih v (by omega) hv.2⟩

theorem takeWhile_nz {x : Bytes} (h : allB (· != 0) x = true) : x.takeWhile (· != 0) = x := by
  induction x with
  | nil => rfl
  | cons c t ih =>
    simp only [allB_cons, Bool.and_eq_true] at h
    simp [h.1, ih h.2]

theorem Suf.slice {b : Array UInt8} {bg : Nat} {x : Bytes} {c : UInt8} {t : Bytes}
    (h : Suf b bg (x ++ c :: t)) : (b.extract bg (bg + x.length)).toList = x := by
  have hl := h.len'
  unfold Suf at h
  have h1 : (b.toList ++ [0]).drop bg = b.toList.drop bg ++ [0] := by
    rw [List.drop_append_of_le_length (by simp; omega)]
  rw [h1] at h
  have h2 := congrArg (List.take x.length) h
  rw [List.take_append_of_le_length (by simp; omega)] at h2
  simp at h2
  simp [Array.toList_extract, List.extract]
  exact h2

theorem makeString_ev {b : Array UInt8} {bg s : Nat} {x : Bytes} {c : UInt8} {t : Bytes}
    (h : Suf b bg (x ++ c :: t)) (hx : allB (· != 0) x = true) :
    makeString bg (bg + x.length) b s = .ok (x, s) := by
  unfold makeString
  have : ¬ bg > bg + x.length := by omega
  simp only [this, if_false]
  rw [h.slice, takeWhile_nz hx]


theorem identOK_nz {name : Bytes} (h : identOK name = true) : allB (· != 0) name = true := by
  cases name with
  | nil => simp [identOK] at h
  | cons c t =>
    simp only [identOK, Bool.and_eq_true] at h
    simp only [allB_cons, Bool.and_eq_true]
    refine ⟨by simpa using isIdStart_ne_zero h.1, allB_imp (fun c hc => by simpa using isIdChar_ne_zero hc) h.2⟩

theorem parseIdentifier_ev {b : Array UInt8} {s f : Nat} {name : Bytes} {c : UInt8} {t : Bytes}
    (h : Suf b s (name ++ c :: t)) (hn : identOK name = true) (hc : isIdChar c = false)
    (hf : b.size - s ≤ f) : parseIdentifier f b s = .ok (some name, s + name.length) := by
  have hnz := identOK_nz hn
  cases name with
  | nil => simp [identOK] at hn
  | cons c0 rest =>
    have hl := h.len'
    simp only [identOK, Bool.and_eq_true] at hn
    unfold parseIdentifier
    refine ev_bind (peek_ev (t := rest ++ c :: t) h) ?_
    simp only [hn.1, if_true]
    refine ev_bind (pos_apply b s) ?_
    refine ev_bind (adv_apply b s) ?_
    refine ev_bind (identLoop_ev rest (Suf.step h) hn.2 hc (by simp at hl; omega)) ?_
    refine ev_bind (pos_apply b _) ?_
    have e : s + 1 + rest.length = s + (c0 :: rest).length := by simp; omega
    rw [e]
    refine ev_bind (makeString_ev h hnz) ?_
    rfl

theorem parseIdentifier_none {b : Array UInt8} {s f : Nat} {c : UInt8} {t : Bytes}
    (h : Suf b s (c :: t)) (hc : isIdStart c = false) : parseIdentifier f b s = .ok (none, s) := by
  unfold parseIdentifier
  refine ev_bind (peek_ev h) ?_
  simp [hc]

theorem valOK_nz {q : UInt8} {v : Bytes} (h : valOK q v = true) : allB (· != 0) v = true :=
  valOK_nz_aux q v.length v (Nat.le_refl _) h

theorem parseQuoted_ev {b : Array UInt8} {s f : Nat} {q : UInt8} {v : Bytes} {t : Bytes}
    (hq : q ≠ cBSl) (h : Suf b s (q :: (v ++ q :: t))) (hv : valOK q v = true) (hf : b.size - s ≤ f) :
    parseQuoted stringLoop q f b s = .ok (v, s + 1 + v.length + 1) := by
  have hl := h.step.len'
  unfold parseQuoted
  refine ev_bind (consume_ev h) ?_
  refine ev_bind (pos_apply b _) ?_
  refine ev_bind (stringLoop_ev q hq v h.step hv (by omega)) ?_
  refine ev_bind (pos_apply b _) ?_
  refine ev_bind (makeString_ev h.step (valOK_nz hv)) ?_
  refine ev_bind (consume_ev (t := t) (h.step.app)) ?_
  rfl

theorem quoteOf_cases (dq : Bool) : (quoteOf dq = cDQ ∧ dq = true) ∨ (quoteOf dq = cSQ ∧ dq = false) := by
  cases dq <;> simp [quoteOf]

theorem parseString_ev {b : Array UInt8} {s f : Nat} {dq : Bool} {v : Bytes} {t : Bytes}
    (h : Suf b s (quoteOf dq :: (v ++ quoteOf dq :: t))) (hv : valOK (quoteOf dq) v = true)
    (hf : b.size - s ≤ f) : parseString f b s = .ok (v, s + 1 + v.length + 1) := by
  unfold parseString parseStringWith
  refine ev_bind (peek_ev h) ?_
  rcases quoteOf_cases dq with ⟨hq, -⟩ | ⟨hq, -⟩
  · rw [hq] at h hv ⊢
    simp only [beq_self_eq_true, if_true]
    exact parseQuoted_ev (by decide) h hv hf
  · rw [hq] at h hv ⊢
    have : (cSQ == cDQ) = false := by decide
    simp only [this, Bool.false_eq_true, if_false]
    exact parseQuoted_ev (by decide) h hv hf


/-- first byte of `w ++ d :: r` for whitespace `w` -/
theorem head_ws (w : Bytes) (d : UInt8) (r : Bytes) (hw : allB isWhite w = true) :
    ∃ c t', w ++ d :: r = c :: t' ∧ (isWhite c = true ∨ c = d) := by
  cases w with
  | nil => exact ⟨d, r, rfl, Or.inr rfl⟩
  | cons c w' =>
    simp only [allB_cons, Bool.and_eq_true] at hw
    exact ⟨c, w' ++ d :: r, rfl, Or.inl hw.1⟩

theorem isWhite_not_idChar {c : UInt8} (h : isWhite c = true) : isIdChar c = false := by
  simp only [isWhite, Bool.or_eq_true, beq_iff_eq] at h
  rcases h with ((h | h) | h) | h <;> subst h <;> decide

theorem isWhite_not_idStart {c : UInt8} (h : isWhite c = true) : isIdStart c = false := by
  simp only [isWhite, Bool.or_eq_true, beq_iff_eq] at h
  rcases h with ((h | h) | h) | h <;> subst h <;> decide

theorem printAttrCore_length (a : Attr) :
    (printAttrCore a).length = a.key.length + a.ws1.length + 1 + a.ws2.length + 1 + a.val.length + 1 := by
  simp [printAttrCore]; omega

theorem parseProp_ev {b : Array UInt8} {s f : Nat} {a : Attr} {t : Bytes}
    (h : Suf b s (printAttrCore a ++ t)) (ha : attrOK a = true) (hf : b.size - s + 1 ≤ f) :
    parsePropWith parseString f b s = .ok (some (a.key, a.val), s + (printAttrCore a).length) := by
  simp only [attrOK, Bool.and_eq_true] at ha
  obtain ⟨⟨⟨⟨hk, hw1⟩, hw2⟩, hw3⟩, hv⟩ := ha
  have h' : Suf b s (a.key ++ (a.ws1 ++ cEq :: (a.ws2 ++ quoteOf a.dq :: (a.val ++ quoteOf a.dq :: t)))) := by
    simpa [printAttrCore, List.append_assoc] using h
  obtain ⟨c, t', e, hc⟩ := head_ws a.ws1 cEq (a.ws2 ++ quoteOf a.dq :: (a.val ++ quoteOf a.dq :: t)) hw1
  have hcid : isIdChar c = false := by
    rcases hc with hc | hc
    · exact isWhite_not_idChar hc
    · subst hc; decide
  have hk' := h'
  rw [e] at hk'
  have hl1 := hk'.len'
  have e' := congrArg List.length e
  simp at e'
  unfold parsePropWith
  refine ev_bind (parseIdentifier_ev hk' hk hcid (by omega)) ?_
  simp only []
  have h1 := h'.app
  have hl2 := h1.len'
  refine ev_bind (skipWhites_ev a.ws1 h1 hw1 (by decide) (by omega)) ?_
  have h2 := h1.app
  refine ev_bind (consume_ev h2) ?_
  have h3 := h2.step
  have hq : isWhite (quoteOf a.dq) = false := by
    rcases quoteOf_cases a.dq with ⟨hq, -⟩ | ⟨hq, -⟩ <;> rw [hq] <;> decide
  refine ev_bind (skipWhites_ev a.ws2 h3 hw2 hq (by omega)) ?_
  have h4 := h3.app
  have hexp : expect2 cDQ cSQ b (s + a.key.length + a.ws1.length + 1 + a.ws2.length) =
      .ok ((), s + a.key.length + a.ws1.length + 1 + a.ws2.length) := by
    unfold expect2
    refine ev_bind (peek_ev h4) ?_
    rcases quoteOf_cases a.dq with ⟨hq, -⟩ | ⟨hq, -⟩ <;> rw [hq] <;> simp <;> decide
  refine ev_bind hexp ?_
  have hl4 := h4.len
  refine ev_bind (parseString_ev h4 hv (by omega)) ?_
  rw [printAttrCore_length]
  simp only [pure_apply]
  congr 2
  omega


theorem isIdStart_not_white {c : UInt8} (h : isIdStart c = true) : isWhite c = false := by
  cases hw : isWhite c with
  | false => rfl
  | true => rw [isWhite_not_idStart hw] at h; cases h

theorem printAttrs_head (as : List Attr) (c : UInt8) (t : Bytes) (has : as.all attrOK = true)
    (hc : isWhite c = false) : ∃ c' t', printAttrs as ++ c :: t = c' :: t' ∧ isWhite c' = false := by
  cases as with
  | nil => exact ⟨c, t, rfl, hc⟩
  | cons a as =>
    simp only [List.all_cons, Bool.and_eq_true, attrOK] at has
    obtain ⟨⟨⟨⟨⟨hk, -⟩, -⟩, -⟩, -⟩, -⟩ := has
    cases hkey : a.key with
    | nil => rw [hkey] at hk; simp [identOK] at hk
    | cons k0 krest =>
      rw [hkey] at hk
      simp only [identOK, Bool.and_eq_true] at hk
      refine ⟨k0, (printAttrs (a :: as) ++ c :: t).tail, ?_, isIdStart_not_white hk.1⟩
      simp [printAttrs, printAttrCore, hkey]

theorem parseProp_none {b : Array UInt8} {s f : Nat} {c : UInt8} {t : Bytes}
    (h : Suf b s (c :: t)) (hc : isIdStart c = false) : parsePropWith parseString f b s = .ok (none, s) := by
  unfold parsePropWith
  refine ev_bind (parseIdentifier_none h hc) ?_
  rfl

theorem propLoop_ev {b : Array UInt8} (as : List Attr) : ∀ {s f : Nat} {acc : List (Bytes × Bytes)}
    {c : UInt8} {t : Bytes}, Suf b s (printAttrs as ++ c :: t) → as.all attrOK = true →
    isIdStart c = false → isWhite c = false → b.size - s + 2 ≤ f →
    propLoop parseString f acc b s = .ok (propsOf acc as, s + (printAttrs as).length) := by
  induction as with
  | nil =>
    intro s f acc c t h _ hc _ hf
    cases f with
    | zero => omega
    | succ f =>
      unfold propLoop
      refine ev_bind (parseProp_none (t := t) h hc) ?_
      simp [propsOf, printAttrs]
  | cons a as ih =>
    intro s f acc c t h has hc hcw hf
    simp only [List.all_cons, Bool.and_eq_true] at has
    cases f with
    | zero => omega
    | succ f =>
      have h' : Suf b s (printAttrCore a ++ (a.ws3 ++ (printAttrs as ++ c :: t))) := by
        simpa [printAttrs, List.append_assoc] using h
      have hl := h'.app
      obtain ⟨c', t', e, hc'⟩ := printAttrs_head as c t has.2 hcw
      have hl' := hl
      rw [e] at hl'
      have hlen := hl'.len'
      have hw3 : allB isWhite a.ws3 = true := by
        have := has.1; simp only [attrOK, Bool.and_eq_true] at this; exact this.1.2
      unfold propLoop
      refine ev_bind (parseProp_ev h' has.1 (by omega)) ?_
      simp only []
      refine ev_bind (skipWhites_ev a.ws3 hl' hw3 hc' (by omega)) ?_
      have hcl := printAttrCore_length a
      rw [ih (hl.app) has.2 hc hcw (by omega)]
      simp [propsOf, printAttrs]
      omega


theorem commentLoop_stop {b : Array UInt8} {s f : Nat} {t : Bytes}
    (h : Suf b s (cDash :: cDash :: cGT :: t)) : commentLoop (f + 1) b s = .ok ((), s) := by
  unfold commentLoop
  refine ev_bind (peekAt0_ev h) ?_
  have e1 : (cDash == (0 : UInt8)) = false := by decide
  simp only [e1, Bool.false_eq_true, if_false, beq_self_eq_true, if_true]
  refine ev_bind (peekAt1_ev h) ?_
  simp only [beq_self_eq_true, if_true]
  refine ev_bind (peekAt2_ev h) ?_
  simp

theorem commentLoop_step {b : Array UInt8} {s f : Nat} {x y1 y2 : UInt8} {r : Bytes}
    (h : Suf b s (x :: y1 :: y2 :: r)) (hx : x ≠ 0) (hs : startsClose (x :: y1 :: y2 :: r) = false)
    {res : Except Err (Unit × Nat)} (hres : commentLoop f b (s + 1) = res) :
    commentLoop (f + 1) b s = res := by
  unfold commentLoop
  refine ev_bind (peekAt0_ev h) ?_
  have e0 : (x == (0 : UInt8)) = false := by simpa using hx
  simp only [e0, Bool.false_eq_true, if_false]
  simp only [startsClose] at hs
  by_cases h0 : (x == cDash) = true
  · simp only [h0, if_true]
    refine ev_bind (peekAt1_ev h) ?_
    by_cases h1 : (y1 == cDash) = true
    · simp only [h1, if_true]
      refine ev_bind (peekAt2_ev h) ?_
      have h2 : (y2 == cGT) = false := by simpa [h0, h1] using hs
      simp only [h2, Bool.false_eq_true, if_false]
      exact ev_bind (adv_apply b s) hres
    · simp only [h1]
      exact ev_bind (adv_apply b s) hres
  · simp only [h0]
    exact ev_bind (adv_apply b s) hres

theorem startsClose_append (l t : Bytes) (h : 3 ≤ l.length) : startsClose (l ++ t) = startsClose l := by
  match l, h with
  | a :: b :: c :: r, _ => rfl

theorem commentLoop_ev {b : Array UInt8} (body : Bytes) : ∀ {s f : Nat} {t : Bytes},
    Suf b s (body ++ cDash :: cDash :: cGT :: t) → commentOK body = true → b.size - s + 1 ≤ f →
    commentLoop f b s = .ok ((), s + body.length) := by
  induction body with
  | nil =>
    intro s f t h _ hf
    cases f with
    | zero => omega
    | succ f => exact commentLoop_stop h
  | cons x body ih =>
    intro s f t h hb hf
    have hl := h.len'
    simp only [commentOK, allB_cons, Bool.and_eq_true, beq_iff_eq] at hb
    obtain ⟨⟨hx, hnz⟩, hfc⟩ := hb
    obtain ⟨y1, y2, r, e⟩ : ∃ y1 y2 r, body ++ [cDash, cDash, cGT] = y1 :: y2 :: r := by
      cases body with
      | nil => exact ⟨_, _, _, rfl⟩
      | cons a body' =>
        cases body' with
        | nil => exact ⟨_, _, _, rfl⟩
        | cons a' b'' => exact ⟨_, _, _, rfl⟩
    have e2 : body ++ cDash :: cDash :: cGT :: t = y1 :: y2 :: (r ++ t) := by
      have := congrArg (· ++ t) e
      simpa using this
    have hsc : startsClose (x :: y1 :: y2 :: r) = false ∧ firstClose (body ++ [cDash, cDash, cGT]) = body.length := by
      have hfc' := hfc
      simp only [List.cons_append, firstClose, List.length_cons] at hfc'
      rw [e] at hfc'
      split at hfc'
      · omega
      · next hns => exact ⟨by simpa using hns, by rw [e]; omega⟩
    cases f with
    | zero => omega
    | succ f =>
      have h' : Suf b s (x :: y1 :: y2 :: (r ++ t)) := by
        have := h; simp only [List.cons_append] at this; rw [e2] at this; exact this
      have hs' : startsClose (x :: y1 :: y2 :: (r ++ t)) = false := by
        have := startsClose_append (x :: y1 :: y2 :: r) t (by simp)
        simp only [List.cons_append] at this
        rw [this]; exact hsc.1
      have hb' : commentOK body = true := by
        simp only [commentOK, Bool.and_eq_true, beq_iff_eq]; exact ⟨hnz, hsc.2⟩
      refine commentLoop_step h' (by simpa using hx) hs' ?_
      rw [ih (Suf.step h) hb' (by simp at hl; omega)]
      simp; omega

theorem printComment_length (body : Bytes) : (printComment body).length = body.length + 5 := by
  simp [printComment]

theorem consumeComment_ev {b : Array UInt8} {s f : Nat} {body t : Bytes}
    (h : Suf b s (printComment body ++ t)) (hb : commentOK body = true) (hf : b.size - s ≤ f + 1) :
    consumeComment f b s = .ok ((), s + (printComment body).length) := by
  have h' : Suf b s (cLT :: cBang :: (body ++ cDash :: cDash :: cGT :: t)) := by
    simpa [printComment, List.append_assoc] using h
  have hl := h'.step.step.len'
  unfold consumeComment
  refine ev_bind (consume_ev h') ?_
  refine ev_bind (consume_ev h'.step) ?_
  refine ev_bind (commentLoop_ev body h'.step.step hb (by omega)) ?_
  have h3 := h'.step.step.app
  refine ev_bind (consume_ev h3) ?_
  refine ev_bind (consume_ev h3.step) ?_
  rw [consume_ev h3.step.step, printComment_length]
  congr 2
  omega

theorem skipComment_true {b : Array UInt8} {s f : Nat} {body t : Bytes}
    (h : Suf b s (printComment body ++ t)) (hb : commentOK body = true) (hf : b.size - s ≤ f + 1) :
    skipComment f b s = .ok (true, s + (printComment body).length) := by
  have h' : Suf b s (cLT :: cBang :: (body ++ cDash :: cDash :: cGT :: t)) := by
    simpa [printComment, List.append_assoc] using h
  unfold skipComment
  refine ev_bind (peekAt0_ev h') ?_
  simp only [beq_self_eq_true, if_true]
  refine ev_bind (peekAt1_ev h') ?_
  simp only [beq_self_eq_true, if_true]
  refine ev_bind (consumeComment_ev h hb hf) ?_
  rfl

/-- not a comment: the byte is not `<` -/
theorem skipComment_false0 {b : Array UInt8} {s f : Nat} {c : UInt8} {t : Bytes}
    (h : Suf b s (c :: t)) (hc : c ≠ cLT) : skipComment f b s = .ok (false, s) := by
  unfold skipComment
  refine ev_bind (peekAt0_ev h) ?_
  have : (c == cLT) = false := by simpa using hc
  simp [this]

/-- not a comment: `<` followed by something else than `!` -/
theorem skipComment_false1 {b : Array UInt8} {s f : Nat} {c : UInt8} {t : Bytes}
    (h : Suf b s (cLT :: c :: t)) (hc : c ≠ cBang) : skipComment f b s = .ok (false, s) := by
  unfold skipComment
  refine ev_bind (peekAt0_ev h) ?_
  simp only [beq_self_eq_true, if_true]
  refine ev_bind (peekAt1_ev h) ?_
  have : (c == cBang) = false := by simpa using hc
  simp [this]


theorem isWhite_isSpace {c : UInt8} (h : isWhite c = true) : isSpace c = true := by
  simp only [isWhite, Bool.or_eq_true, beq_iff_eq] at h
  rcases h with ((h | h) | h) | h <;> subst h <;> decide

theorem lastNotSpace_split : ∀ {x : Bytes}, lastNotSpace x = true → ∃ x' l, x = x' ++ [l] ∧ isSpace l = false
  | [], h => by simp [lastNotSpace] at h
  | [c], h => ⟨[], c, rfl, by simpa [lastNotSpace] using h⟩
  | c :: d :: r, h => by
    have h' : lastNotSpace (d :: r) = true := by simpa [lastNotSpace] using h
    obtain ⟨x', l, e, hl⟩ := lastNotSpace_split h'
    exact ⟨c :: x', l, by rw [e]; rfl, hl⟩

theorem rdAbs_ev {b : Array UInt8} {s0 s : Nat} {x : Bytes} {c : UInt8} {t : Bytes}
    (h : Suf b s0 (x ++ c :: t)) : rdAbs (s0 + x.length) b s = .ok (c, s) := by
  simp [rdAbs, h.rdAt]

/-- `while (isspace(end[-1])) --end;` walks back over the whitespace after the text and stops at
    the text's last byte -/
theorem trimBack_ev {b : Array UInt8} {s0 s : Nat} {tx : Bytes} (htx : lastNotSpace tx = true) :
    ∀ (k : Nat) (w rest : Bytes), w.length = k → Suf b s0 (tx ++ (w ++ rest)) → rest ≠ [] →
      allB isWhite w = true → trimBack (s0 + tx.length + k) b s = .ok (s0 + tx.length, s) := by
  intro k
  induction k with
  | zero =>
    intro w rest hk h hr _
    have : w = [] := List.eq_nil_of_length_eq_zero hk
    subst this
    obtain ⟨x', l, e, hl⟩ := lastNotSpace_split htx
    obtain ⟨r0, rr, er⟩ : ∃ r0 rr, rest = r0 :: rr := by
      cases rest with
      | nil => exact absurd rfl hr
      | cons a t => exact ⟨a, t, rfl⟩
    have h' : Suf b s0 (x' ++ l :: rest) := by
      have := h; rw [e] at this; simpa [List.append_assoc] using this
    have elen : s0 + tx.length + 0 = (s0 + x'.length) + 1 := by rw [e]; simp; omega
    rw [elen]
    unfold trimBack
    refine ev_bind (rdAbs_ev h') ?_
    simp only [hl, Bool.false_eq_true, if_false, pure_apply]
    rw [e]; simp; omega
  | succ k ih =>
    intro w rest hk h hr hw
    have hne : w ≠ [] := by intro h0; subst h0; simp at hk
    have e := (List.dropLast_concat_getLast hne).symm
    generalize hwl : w.getLast hne = c' at e
    generalize hwd : w.dropLast = w' at e
    have hlen : w'.length = k := by
      have := congrArg List.length e; simp at this; omega
    subst e
    rw [allB_append] at hw
    simp only [Bool.and_eq_true, allB_cons, allB_nil, Bool.and_true] at hw
    have h' : Suf b s0 ((tx ++ w') ++ c' :: rest) := by
      simpa [List.append_assoc] using h
    have elen : s0 + tx.length + (k + 1) = (s0 + (tx ++ w').length) + 1 := by simp; omega
    rw [elen]
    unfold trimBack
    refine ev_bind (rdAbs_ev h') ?_
    simp only [isWhite_isSpace hw.2, if_true]
    have := ih w' (c' :: rest) hlen (by simpa [List.append_assoc] using h) (by simp) hw.1
    rw [← this]
    congr 1
    simp; omega


/-! ### elements -/

theorem printElem_head (e : Elem) : ∃ r, printElem e = cLT :: r := by
  cases e <;> exact ⟨_, by simp [printElem]; rfl⟩

theorem identOK_head {name : Bytes} (h : identOK name = true) :
    ∃ c r, name = c :: r ∧ isIdStart c = true := by
  cases name with
  | nil => simp [identOK] at h
  | cons c r => simp only [identOK, Bool.and_eq_true] at h; exact ⟨c, r, rfl, h.1⟩

theorem isIdStart_facts {c : UInt8} (h : isIdStart c = true) : c ≠ cBang ∧ c ≠ cSlash ∧ c ≠ cLT ∧ c ≠ cQuest := by
  refine ⟨?_, ?_, ?_, ?_⟩ <;> (intro h0; subst h0; revert h; decide)

/-- first byte after the tag name: whitespace, or (no properties) the `/` or `>` -/
theorem tag_after_name (ws0 : Bytes) (attrs : List Attr) (d : UInt8) (r : Bytes)
    (hw : wsOK ws0 = true) (hne : (attrs.isEmpty || !ws0.isEmpty) = true) (hd : isIdChar d = false) :
    ∃ c t', ws0 ++ (printAttrs attrs ++ d :: r) = c :: t' ∧ isIdChar c = false := by
  cases ws0 with
  | cons c w =>
    simp only [wsOK, allB_cons, Bool.and_eq_true] at hw
    exact ⟨c, _, rfl, isWhite_not_idChar hw.1⟩
  | nil =>
    cases attrs with
    | nil => exact ⟨d, r, rfl, hd⟩
    | cons a as => simp at hne


theorem tagOK_name {name ws0 : Bytes} {attrs : List Attr} (h : tagOK name ws0 attrs = true) :
    identOK name = true := by
  simp only [tagOK, Bool.and_eq_true] at h; exact h.1.1.1

theorem printElem_head2 (e : Elem) (he : elemOK e = true) :
    ∃ c r, printElem e = cLT :: c :: r ∧ isIdStart c = true := by
  cases e with
  | selfClose name ws0 attrs =>
    simp only [elemOK] at he
    obtain ⟨c, r, e, hc⟩ := identOK_head (tagOK_name he)
    subst e
    exact ⟨c, _, by simp [printElem]; rfl, hc⟩
  | node name ws0 attrs initWs items =>
    simp only [elemOK, Bool.and_eq_true] at he
    obtain ⟨c, r, e, hc⟩ := identOK_head (tagOK_name he.1.1)
    subst e
    exact ⟨c, _, by simp [printElem]; rfl, hc⟩

/-- after the text run only children, comments or the close tag follow: the next byte is `<` -/
theorem items_head_noText (items : Items) (x : Bytes) (h : itemsOK false items = true) :
    ∃ r, printItems items ++ cLT :: x = cLT :: r := by
  cases items with
  | nil => exact ⟨x, by simp [printItems]⟩
  | child e w rest =>
    obtain ⟨r, e'⟩ := printElem_head e
    exact ⟨_, by simp [printItems, e']; rfl⟩
  | comment body w rest => exact ⟨_, by simp [printItems, printComment]; rfl⟩
  | text t w rest => simp [itemsOK] at h

theorem ws_ne {c : UInt8} (h : isWhite c = true) : (c != cLT && c != 0) = true := by
  simp only [isWhite, Bool.or_eq_true, beq_iff_eq] at h
  rcases h with ((h | h) | h) | h <;> subst h <;> decide

theorem printElem_pos (e : Elem) : 1 ≤ (printElem e).length := by
  obtain ⟨r, h⟩ := printElem_head e; rw [h]; simp

end RkVerif.C16
