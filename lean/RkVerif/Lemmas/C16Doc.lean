/- C16 — round trip of documents: header, top-level loop, `parseXML`, `readXML`. -/
import RkVerif.Lemmas.C16Node
namespace RkVerif.C16

theorem headerPropLoop_ev {b : Array UInt8} (as : List Attr) : ∀ {s f : Nat} {c : UInt8} {t : Bytes},
    Suf b s (printAttrs as ++ c :: t) → as.all attrOK = true →
    isIdStart c = false → isWhite c = false → b.size - s + 2 ≤ f →
    headerPropLoop parseString f b s = .ok ((), s + (printAttrs as).length) := by
  induction as with
  | nil =>
    intro s f c t h _ hc _ hf
    cases f with
    | zero => omega
    | succ f =>
      unfold headerPropLoop
      refine ev_bind (parseProp_none (t := t) h hc) ?_
      simp [printAttrs]
  | cons a as ih =>
    intro s f c t h has hc hcw hf
    simp only [List.all_cons, Bool.and_eq_true] at has
    cases f with
    | zero => omega
    | succ f =>
      have h' : Suf b s (printAttrCore a ++ (a.ws3 ++ (printAttrs as ++ c :: t))) := by
        simpa [printAttrs, List.append_assoc] using h
      have hl := h'.app
      obtain ⟨c', t', e, hc'⟩ := printAttrs_head as c t has.2 hcw
      have hl' := hl
      rw [e] at hl'
      have hlen := hl'.len'
      have hw3 : allB isWhite a.ws3 = true := by
        have := has.1; simp only [attrOK, Bool.and_eq_true] at this; exact this.1.2
      unfold headerPropLoop
      refine ev_bind (parseProp_ev h' has.1 (by omega)) ?_
      simp only []
      refine ev_bind (skipWhites_ev a.ws3 hl' hw3 hc' (by omega)) ?_
      have hcl := printAttrCore_length a
      rw [ih (hl.app) has.2 hc hcw (by omega)]
      simp [printAttrs]
      omega

theorem parseHeader_short {b : Array UInt8} {s f : Nat} {t : Bytes}
    (h : Suf b s (printHeader .short ++ t)) :
    parseHeaderWith parseString f b s = .ok (true, s + (printHeader .short).length) := by
  have h' : Suf b s ([cLT, cQuest, 120, 109, 108] ++ (cQuest :: cGT :: t)) := by
    simpa [printHeader] using h
  have h1 := h'.app
  unfold parseHeaderWith
  refine ev_bind (consumeWord_ev _ h') ?_
  refine ev_bind (peekAt0_ev h1) ?_
  simp only [beq_self_eq_true, if_true]
  refine ev_bind (ev_bind (peekAt1_ev h1) rfl) ?_
  simp only [beq_self_eq_true, if_true]
  refine ev_bind (consumeWord_ev [cQuest, cGT] (t := t) h1) ?_
  simp [printHeader]

theorem parseHeader_long {b : Array UInt8} {s f : Nat} {ws : Bytes} {attrs : List Attr} {t : Bytes}
    (h : Suf b s (printHeader (.long ws attrs) ++ t)) (hok : headerOK (.long ws attrs) = true)
    (hf : b.size - s + 2 ≤ f) :
    parseHeaderWith parseString f b s = .ok (true, s + (printHeader (.long ws attrs)).length) := by
  simp only [headerOK, Bool.and_eq_true] at hok
  obtain ⟨⟨hne, hws⟩, hattrs⟩ := hok
  cases ws with
  | nil => simp at hne
  | cons w0 wr =>
    simp only [wsOK, allB_cons, Bool.and_eq_true] at hws
    have h' : Suf b s ([cLT, cQuest, 120, 109, 108] ++ (w0 :: (wr ++ (printAttrs attrs ++ cQuest :: cGT :: t)))) := by
      simpa [printHeader, List.append_assoc] using h
    have h1 := h'.app
    have hl1 := h1.len
    have hw0q : (w0 == cQuest) = false := by
      cases hq : w0 == cQuest with
      | false => rfl
      | true =>
        have : w0 = cQuest := by simpa using hq
        rw [this] at hws; exact absurd hws.1 (by decide)
    obtain ⟨c2, t2, e2, hc2⟩ := printAttrs_head attrs cQuest (cGT :: t) hattrs (by decide)
    have h2 := h1.step
    have h2' := h2; rw [e2] at h2'
    have hl2 := h2'.len'
    have h3 := h2.app
    unfold parseHeaderWith
    refine ev_bind (consumeWord_ev _ h') ?_
    refine ev_bind (peekAt0_ev h1) ?_
    simp only [hw0q, Bool.false_eq_true, if_false]
    refine ev_bind (pure_apply false b _) ?_
    simp only [Bool.false_eq_true, if_false]
    refine ev_bind (peek_ev h1) ?_
    simp only [hws.1, Bool.not_true, Bool.false_eq_true, if_false]
    refine ev_bind (adv_apply b _) ?_
    simp only [List.length_cons, List.length_nil] at hl1 hl2 ⊢
    refine ev_bind (skipWhites_ev wr h2' hws.2 hc2 (by omega)) ?_
    refine ev_bind (headerPropLoop_ev attrs h3 hattrs (by decide) (by decide) (by omega)) ?_
    refine ev_bind (consumeWord_ev [cQuest, cGT] (t := t) h3.app) ?_
    simp [printHeader]
    omega

theorem tops_head (tops : List Top) : ∃ c t, printTops tops ++ [0] = c :: t ∧ isWhite c = false := by
  cases tops with
  | nil => exact ⟨0, [], rfl, by decide⟩
  | cons x r =>
    cases x with
    | elem e w =>
      obtain ⟨r', e'⟩ := printElem_head e
      exact ⟨cLT, _, by simp [printTops, e']; rfl, by decide⟩
    | comment body w => exact ⟨cLT, _, by simp [printTops, printComment]; rfl, by decide⟩

theorem topLoop_ev {b : Array UInt8} (tops : List Top) : ∀ {s f : Nat} {acc : List Node},
    Suf b s (printTops tops ++ [0]) → tops.all topOK = true → b.size - s + 2 ≤ f →
    topLoop parseString f acc b s = .ok (acc ++ eraseTops tops, s + (printTops tops).length) := by
  induction tops with
  | nil =>
    intro s f acc h _ hf
    cases f with
    | zero => omega
    | succ f =>
      have h' : Suf b s [0] := by simpa [printTops] using h
      unfold topLoop
      refine ev_bind (peek_ev h') ?_
      simp [eraseTops, printTops]
  | cons x r ih =>
    intro s f acc h hall hf
    simp only [List.all_cons, Bool.and_eq_true] at hall
    cases f with
    | zero => omega
    | succ f =>
      obtain ⟨c2, t2, e2, hc2⟩ := tops_head r
      cases x with
      | elem e w =>
        have hx := hall.1
        simp only [topOK, Bool.and_eq_true] at hx
        have h' : Suf b s (printElem e ++ (w ++ (printTops r ++ [0]))) := by
          simpa [printTops, List.append_assoc] using h
        obtain ⟨c, r', ee, hc⟩ := printElem_head2 e hx.1
        obtain ⟨hcb, -, -, -⟩ := isIdStart_facts hc
        have h0 := h'; rw [ee] at h0; simp only [List.cons_append] at h0
        have hl := h0.len
        simp only [List.length_cons, List.length_append] at hl
        have hpos := printElem_pos e
        have h1 := h'.app
        have h1' := h1; rw [e2] at h1'
        have hl1 := h1'.len'
        unfold topLoop
        refine ev_bind (peek_ev h0) ?_
        have : (cLT != (0 : UInt8)) = true := by decide
        simp only [this, if_true]
        refine ev_bind (skipComment_false1 h0 hcb) ?_
        simp only [Bool.false_eq_true, if_false]
        refine ev_bind (parseNode_ev e b s f _ h' hx.1 (by omega)) ?_
        refine ev_bind (skipWhites_ev w h1' hx.2 hc2 (by omega)) ?_
        rw [ih h1.app hall.2 (by omega)]
        simp [eraseTops, printTops]
        omega
      | comment body w =>
        have hx := hall.1
        simp only [topOK, Bool.and_eq_true] at hx
        have h' : Suf b s (printComment body ++ (w ++ (printTops r ++ [0]))) := by
          simpa [printTops, List.append_assoc] using h
        have h0 : Suf b s (cLT :: (cBang :: (body ++ [cDash, cDash, cGT]) ++ (w ++ (printTops r ++ [0])))) := by
          simpa [printComment] using h'
        have hl := h0.len
        simp only [List.length_cons, List.length_append] at hl
        have hcl := printComment_length body
        have h1 := h'.app
        have h1' := h1; rw [e2] at h1'
        have hl1 := h1'.len'
        unfold topLoop
        refine ev_bind (peek_ev h0) ?_
        have : (cLT != (0 : UInt8)) = true := by decide
        simp only [this, if_true]
        refine ev_bind (skipComment_true h' hx.1 (by omega)) ?_
        simp only [if_true]
        refine ev_bind (skipWhites_ev w h1' hx.2 hc2 (by omega)) ?_
        rw [ih h1.app hall.2 (by omega)]
        simp [eraseTops, printTops]
        omega


/-- the part of `parseXML` after the header -/
theorem body_ev {b : Array UInt8} {s f : Nat} {initWs : Bytes} {tops : List Top}
    (h : Suf b s (initWs ++ (printTops tops ++ [0]))) (hw : wsOK initWs = true)
    (hall : tops.all topOK = true) (hf : b.size - s + 2 ≤ f) :
    (do skipWhites f
        let doc ← topLoop parseString f []
        let c ← peek
        if c != 0 then fail .runtimeError else pure doc : XmlM (List Node)) b s =
      .ok (eraseTops tops, s + initWs.length + (printTops tops).length) := by
  obtain ⟨c2, t2, e2, hc2⟩ := tops_head tops
  have h' := h; rw [e2] at h'
  have hl := h'.len'
  have h1 := h.app
  refine ev_bind (skipWhites_ev initWs h' hw hc2 (by omega)) ?_
  refine ev_bind (topLoop_ev tops h1 hall (by omega)) ?_
  have h2 : Suf b (s + initWs.length + (printTops tops).length) [0] := h1.app
  refine ev_bind (peek_ev h2) ?_
  simp

/-- without a header the document does not start with `<?` -/
theorem noHeader_head (initWs : Bytes) (tops : List Top) (hw : wsOK initWs = true)
    (hall : tops.all topOK = true) :
    ∃ c0 t0, initWs ++ (printTops tops ++ [0]) = c0 :: t0 ∧
      (c0 ≠ cLT ∨ ∃ c1 t1, t0 = c1 :: t1 ∧ c1 ≠ cQuest) := by
  cases initWs with
  | cons w0 wr =>
    simp only [wsOK, allB_cons, Bool.and_eq_true] at hw
    refine ⟨w0, _, rfl, Or.inl ?_⟩
    intro h0; rw [h0] at hw; exact absurd hw.1 (by decide)
  | nil =>
    cases tops with
    | nil => exact ⟨0, [], rfl, Or.inl (by decide)⟩
    | cons x r =>
      simp only [List.all_cons, Bool.and_eq_true] at hall
      cases x with
      | elem e w =>
        have hx := hall.1
        simp only [topOK, Bool.and_eq_true] at hx
        obtain ⟨c, r', ee, hc⟩ := printElem_head2 e hx.1
        obtain ⟨-, -, -, hq⟩ := isIdStart_facts hc
        exact ⟨cLT, _, by simp [printTops, ee]; rfl, Or.inr ⟨c, _, rfl, hq⟩⟩
      | comment body w =>
        exact ⟨cLT, _, by simp [printTops, printComment]; rfl, Or.inr ⟨cBang, _, rfl, by decide⟩⟩

theorem toArray_size_toList (l : Bytes) : l.toArray.toList = l := by simp

/-- **round trip**: reading the printed form of a well-formed source document gives its tree. -/
theorem readXML_printDoc (d : Doc) (hd : docOK d = true) :
    readXML (printDoc d).toArray = .ok (eraseDoc d) := by
  obtain ⟨header, initWs, tops⟩ := d
  simp only [docOK, Bool.and_eq_true] at hd
  obtain ⟨⟨hh, hw⟩, hall⟩ := hd
  generalize hb : (printDoc ⟨header, initWs, tops⟩).toArray = b
  have hbl : b.toList = printDoc ⟨header, initWs, tops⟩ := by rw [← hb]
  have hsz : b.size = (printDoc ⟨header, initWs, tops⟩).length := by rw [← hb]; simp
  have h0 : Suf b 0 (printHeader header ++ (initWs ++ (printTops tops ++ [0]))) := by
    have := Suf.zero b
    rw [hbl] at this
    simpa [printDoc, List.append_assoc] using this
  have key : parseXMLWith parseString (b.size + 2) b 0 =
      .ok (eraseTops tops, (printHeader header).length + initWs.length + (printTops tops).length) := by
    unfold parseXMLWith
    cases header with
    | none =>
      have h0' : Suf b 0 (initWs ++ (printTops tops ++ [0])) := by simpa [printHeader] using h0
      obtain ⟨c0, t0, e0, hc⟩ := noHeader_head initWs tops hw hall
      have h0'' := h0'; rw [e0] at h0''
      refine ev_bind (peekAt0_ev h0'') ?_
      have hprobe : ((if (c0 == cLT) = true then (do let c1 ← peekAt 1; pure (c1 == cQuest))
          else pure false : XmlM Bool)) b 0 = .ok (false, 0) := by
        rcases hc with hc | ⟨c1, t1, e1, hc1⟩
        · have : (c0 == cLT) = false := by simpa using hc
          simp [this]
        · by_cases hlt : (c0 == cLT) = true
          · simp only [hlt, if_true]
            subst e1
            refine ev_bind (peekAt1_ev h0'') ?_
            have : (c1 == cQuest) = false := by simpa using hc1
            simp [this]
          · simp [hlt]
      refine ev_bind hprobe ?_
      simp only [Bool.false_eq_true, if_false]
      refine ev_bind (pure_apply true b 0) ?_
      simp only [Bool.not_true, Bool.false_eq_true, if_false]
      rw [body_ev h0' hw hall (by omega)]
      simp [printHeader]
    | short =>
      have h0' : Suf b 0 (cLT :: cQuest :: ([120, 109, 108, cQuest, cGT] ++ (initWs ++ (printTops tops ++ [0])))) := by
        simpa [printHeader] using h0
      refine ev_bind (peekAt0_ev h0') ?_
      simp only [beq_self_eq_true, if_true]
      refine ev_bind (ev_bind (peekAt1_ev h0') rfl) ?_
      simp only [beq_self_eq_true, if_true]
      refine ev_bind (parseHeader_short h0) ?_
      simp only [Bool.not_true, Bool.false_eq_true, if_false]
      have hl := h0.app
      rw [body_ev hl hw hall (by omega)]
      simp
    | long ws attrs =>
      have h0' : Suf b 0 (cLT :: cQuest :: ([120, 109, 108] ++ (ws ++ (printAttrs attrs ++ [cQuest, cGT])) ++ (initWs ++ (printTops tops ++ [0])))) := by
        simpa [printHeader, List.append_assoc] using h0
      refine ev_bind (peekAt0_ev h0') ?_
      simp only [beq_self_eq_true, if_true]
      refine ev_bind (ev_bind (peekAt1_ev h0') rfl) ?_
      simp only [beq_self_eq_true, if_true]
      refine ev_bind (parseHeader_long h0 hh (by omega)) ?_
      simp only [Bool.not_true, Bool.false_eq_true, if_false]
      have hl := h0.app
      rw [body_ev hl hw hall (by omega)]
      simp
  unfold readXML
  rw [key]
  rfl

end RkVerif.C16
