/-
Helper lemmas for C01 §1 (Blocks): C integer semantics, block arithmetic, serial loop, chunking, addressing.
-/
import RkVerif.Model.C01
namespace RkVerif.C01

theorem two_pow_pos' (b : Nat) : (0 : Int) < 2 ^ b := Int.pow_pos (by decide)

theorem two_pow_succ_pred (b : Nat) (hb : 1 ≤ b) : (2 : Int) ^ b = 2 * 2 ^ (b - 1) := by
  obtain ⟨c, rfl⟩ : ∃ c, b = c + 1 := ⟨b - 1, by omega⟩
  simp [Int.pow_succ, Int.mul_comm]

theorem conv_id (T : CTy) (hb : 1 ≤ T.bits) (x : Int) (h : T.inRange x) : T.conv x = x := by
  have hM := two_pow_succ_pred T.bits hb
  have hH := two_pow_pos' (T.bits - 1)
  unfold CTy.inRange CTy.lo CTy.hi at h
  unfold CTy.conv
  generalize (2 : Int) ^ T.bits = M at *
  generalize (2 : Int) ^ (T.bits - 1) = H at *
  cases hs : T.signed
  · simp [hs] at h
    simp
    exact Int.emod_eq_of_lt (by omega) (by omega)
  · simp [hs] at h
    by_cases hx : 0 ≤ x
    · have : x % M = x := Int.emod_eq_of_lt hx (by omega)
      simp only [this]
      rw [if_neg (by simp; omega)]
    · have h1 : (x + M) % M = x + M := Int.emod_eq_of_lt (by omega) (by omega)
      have h2 : (x + M) % M = x % M := Int.add_emod_right x M
      simp only [← h2, h1]
      rw [if_pos (by simp; omega)]
      omega

theorem cres_ok (A : CTy) (hb : 1 ≤ A.bits) (r : Int) (h : A.inRange r) : cres A r = some r := by
  unfold cres
  cases hs : A.signed
  · simp [conv_id A hb r h]
  · simp [h]

/-- what the block arithmetic needs of an index type -/
structure Fits (T : CTy) : Prop where
  hbT : 1 ≤ T.bits
  hbA : 1 ≤ T.arith.bits
  loT : T.lo ≤ 0
  loA : T.arith.lo ≤ 0
  hiTA : T.hi ≤ T.arith.hi
  hiA : 2 ^ 31 - 1 ≤ T.arith.hi
  hiT : 127 ≤ T.hi

theorem fits_of_mem (name : String) (T : CTy) (h : (name, T) ∈ indexTypes) : Fits T := by
  simp only [indexTypes, List.mem_cons, Prod.mk.injEq, List.mem_nil_iff, or_false] at h
  rcases h with ⟨_, rfl⟩ | ⟨_, rfl⟩ | ⟨_, rfl⟩ | ⟨_, rfl⟩ | ⟨_, rfl⟩ | ⟨_, rfl⟩ | ⟨_, rfl⟩ | ⟨_, rfl⟩ <;>
    constructor <;> decide

theorem divmod_facts (n bs : Int) (hn : 0 < n) (hbs : 0 < bs) :
    bs * (n / bs) + n % bs = n ∧ 0 ≤ n % bs ∧ n % bs < bs ∧ 0 ≤ n / bs ∧ n / bs ≤ n ∧
    (n % bs ≠ 0 → n / bs + 1 ≤ n) := by
  have h1 := Int.mul_ediv_add_emod n bs
  have h2 := Int.emod_nonneg n (by omega : bs ≠ 0)
  have h3 := Int.emod_lt_of_pos n hbs
  have h4 : 0 ≤ n / bs := Int.ediv_nonneg (by omega) (by omega)
  have h5 : bs * (n / bs) = n / bs + (bs - 1) * (n / bs) := by rw [Int.sub_mul]; omega
  have h6 : 0 ≤ (bs - 1) * (n / bs) := Int.mul_nonneg (by omega) h4
  refine ⟨h1, h2, h3, h4, by omega, by omega⟩

theorem mul_step (k q bs : Int) (hbs : 0 < bs) (h : k + 1 ≤ q) : k * bs + bs ≤ q * bs := by
  have := Int.mul_le_mul_of_nonneg_right h (by omega : 0 ≤ bs)
  rw [Int.add_mul] at this
  omega

/-- the number of blocks, as a mathematical integer -/
def nbIdeal (n bs : Int) : Int := if n > 0 then n / bs + (if n % bs ≠ 0 then 1 else 0) else 0

theorem numBlocks_eq (T : CTy) (hf : Fits T) (n bs : Int) (hn : T.inRange n) (hbs : 0 < bs)
    (hbs2 : bs ≤ 2 ^ 31 - 1) : numBlocks T n bs = some (nbIdeal n bs) := by
  obtain ⟨hbT, hbA, loT, loA, hiTA, hiA, hiT⟩ := hf
  unfold numBlocks nbIdeal
  by_cases hpos : n > 0
  · obtain ⟨f1, f2, f3, f4, f5, f6⟩ := divmod_facts n bs hpos hbs
    have cn : T.arith.conv n = n := conv_id _ hbA _ ⟨by omega, by have := hn.2; omega⟩
    have cb : T.arith.conv bs = bs := conv_id _ hbA _ ⟨by omega, by omega⟩
    have hd : cdiv T.arith n bs = some (n / bs) := by
      unfold cdiv
      rw [if_neg (by omega), Int.tdiv_eq_ediv_of_nonneg (by omega)]
      exact cres_ok _ hbA _ ⟨by omega, by have := hn.2; omega⟩
    have hm : cmod T.arith n bs = some (n % bs) := by
      unfold cmod
      rw [if_neg (by omega), Int.tmod_eq_emod_of_nonneg (by omega)]
      exact cres_ok _ hbA _ ⟨by omega, by have := hn.2; omega⟩
    simp only [hpos, if_true, cn, cb, hd, hm]
    by_cases hr : n % bs ≠ 0
    · have c1 : T.arith.conv 1 = 1 := conv_id _ hbA _ ⟨by omega, by omega⟩
      have ha : cadd T.arith (n / bs) 1 = some (n / bs + 1) :=
        cres_ok _ hbA _ ⟨by omega, by have := hn.2; have := f6 hr; omega⟩
      rw [if_pos hr, c1, ha]
      have := f6 hr
      simp only
      rw [conv_id T hbT _ ⟨by omega, by have := hn.2; omega⟩]
    · have c0 : T.arith.conv 0 = 0 := conv_id _ hbA _ ⟨by omega, by omega⟩
      have ha : cadd T.arith (n / bs) 0 = some (n / bs + 0) :=
        cres_ok _ hbA _ ⟨by omega, by have := hn.2; omega⟩
      rw [if_neg hr, c0, ha]
      simp only
      rw [conv_id T hbT _ ⟨by omega, by have := hn.2; omega⟩]
  · simp only [hpos, if_false]
    rw [conv_id T hbT _ ⟨by omega, by omega⟩]


theorem nb_lt_facts (n bs k : Int) (hn : 0 < n) (hbs : 0 < bs) (hk0 : 0 ≤ k) (hk : k < nbIdeal n bs) :
    0 ≤ k * bs ∧ k * bs < n ∧ k < n ∧
    (k + 1 < nbIdeal n bs → n - k * bs > bs) ∧ (k + 1 = nbIdeal n bs → n - k * bs ≤ bs) := by
  obtain ⟨f1, f2, f3, f4, f5, f6⟩ := divmod_facts n bs hn hbs
  have hP : 0 ≤ k * bs := Int.mul_nonneg hk0 (by omega)
  have hQ : bs * (n / bs) = (n / bs) * bs := Int.mul_comm _ _
  have hnb : nbIdeal n bs = n / bs + (if n % bs ≠ 0 then 1 else 0) := by
    unfold nbIdeal; rw [if_pos hn]
  rw [hnb] at hk ⊢
  by_cases hr : n % bs ≠ 0
  · rw [if_pos hr] at hk ⊢
    by_cases hkq : k + 1 ≤ n / bs
    · have := mul_step k (n / bs) bs hbs hkq
      refine ⟨hP, by omega, by omega, fun _ => by omega, fun _ => by omega⟩
    · have hkq' : k = n / bs := by omega
      subst hkq'
      refine ⟨hP, by omega, by omega, fun _ => by omega, fun _ => by omega⟩
  · rw [if_neg hr] at hk ⊢
    have hkq : k + 1 ≤ n / bs := by omega
    have h1 := mul_step k (n / bs) bs hbs hkq
    refine ⟨hP, by omega, by omega, ?_, ?_⟩
    · intro h2
      have := mul_step (k + 1) (n / bs) bs hbs (by omega)
      have e1 : (k + 1) * bs = k * bs + bs := by rw [Int.add_mul]; omega
      omega
    · intro h2
      have h3 : n / bs = k + 1 := by omega
      have e1 : (k + 1) * bs = k * bs + bs := by rw [Int.add_mul]; omega
      rw [h3] at hQ f1
      omega

theorem blockBegin_eq (T : CTy) (hf : Fits T) (n bs k : Int) (hn : T.inRange n) (hbs : 0 < bs)
    (hbs2 : bs ≤ 2 ^ 31 - 1) (hpos : 0 < n) (hk0 : 0 ≤ k) (hk : k < nbIdeal n bs) :
    blockBegin T bs k = some (k * bs) := by
  obtain ⟨hbT, hbA, loT, loA, hiTA, hiA, hiT⟩ := hf
  obtain ⟨g1, g2, g3, _, _⟩ := nb_lt_facts n bs k hpos hbs hk0 hk
  have hn2 := hn.2
  unfold blockBegin
  have ck : T.arith.conv k = k := conv_id _ hbA _ ⟨by omega, by omega⟩
  have cb : T.arith.conv bs = bs := conv_id _ hbA _ ⟨by omega, by omega⟩
  have hm : cmul T.arith k bs = some (k * bs) := cres_ok _ hbA _ ⟨by omega, by omega⟩
  simp only [ck, cb, hm]
  rw [conv_id T hbT _ ⟨by omega, by omega⟩]

theorem blockEnd_eq (T : CTy) (hf : Fits T) (n bs k : Int) (hn : T.inRange n) (hbs : 0 < bs)
    (hbs2 : bs ≤ 2 ^ 31 - 1) (hpos : 0 < n) (hk0 : 0 ≤ k) (hk : k < nbIdeal n bs) :
    blockEnd T n bs (k * bs) = some (if n - k * bs > bs then k * bs + bs else n) := by
  obtain ⟨hbT, hbA, loT, loA, hiTA, hiA, hiT⟩ := hf
  obtain ⟨g1, g2, g3, _, _⟩ := nb_lt_facts n bs k hpos hbs hk0 hk
  have hn2 := hn.2
  unfold blockEnd
  have cn : T.arith.conv n = n := conv_id _ hbA _ ⟨by omega, by omega⟩
  have cp : T.arith.conv (k * bs) = k * bs := conv_id _ hbA _ ⟨by omega, by omega⟩
  have cb : T.arith.conv bs = bs := conv_id _ hbA _ ⟨by omega, by omega⟩
  have hs : csub T.arith n (k * bs) = some (n - k * bs) := cres_ok _ hbA _ ⟨by omega, by omega⟩
  simp only [cn, cp, cb, hs]
  by_cases hd : n - k * bs > bs
  · have ha : cadd T.arith (k * bs) bs = some (k * bs + bs) := cres_ok _ hbA _ ⟨by omega, by omega⟩
    rw [if_pos hd, if_pos hd, ha]
    simp only
    rw [conv_id T hbT _ ⟨by omega, by omega⟩]
  · rw [if_neg hd, if_neg hd]

theorem blocksFrom_chain (T : CTy) (hf : Fits T) (n bs : Int) (hn : T.inRange n) (hbs : 0 < bs)
    (hbs2 : bs ≤ 2 ^ 31 - 1) (hpos : 0 < n) :
    ∀ (fuel : Nat) (k : Int), 0 ≤ k → 0 < fuel → k + fuel = nbIdeal n bs →
      ∃ L, blocksFrom T n bs fuel k = some L ∧ chainFrom bs n (k * bs) L ∧ L.length = fuel := by
  intro fuel
  induction fuel with
  | zero => intro k _ h; omega
  | succ f ih =>
    intro k hk0 _ hsum
    have hk : k < nbIdeal n bs := by omega
    obtain ⟨g1, g2, g3, g4, g5⟩ := nb_lt_facts n bs k hpos hbs hk0 hk
    have hb := blockBegin_eq T hf n bs k hn hbs hbs2 hpos hk0 hk
    have he := blockEnd_eq T hf n bs k hn hbs hbs2 hpos hk0 hk
    simp only [blocksFrom, hb, he]
    by_cases hf0 : f = 0
    · subst hf0
      have hlast : k + 1 = nbIdeal n bs := by omega
      have := g5 hlast
      rw [if_neg (by omega)]
      refine ⟨[(k * bs, n)], by simp [blocksFrom], ?_, rfl⟩
      simp only [chainFrom, true_and, and_true]
      exact ⟨by omega, by omega⟩
    · have hmore : k + 1 < nbIdeal n bs := by omega
      have := g4 hmore
      obtain ⟨L, hL, hc, hlen⟩ := ih (k + 1) (by omega) (by omega) (by omega)
      rw [if_pos (by omega), hL]
      refine ⟨(k * bs, k * bs + bs) :: L, rfl, ?_, by simp [hlen]⟩
      simp only [chainFrom, true_and]
      rw [Int.add_mul, Int.one_mul] at hc
      exact ⟨by omega, by omega, hc⟩

theorem blocks_chain (T : CTy) (hf : Fits T) (n bs : Int) (hn : T.inRange n) (hbs : 0 < bs)
    (hbs2 : bs ≤ 2 ^ 31 - 1) :
    ∃ L, blocks T n bs = some L ∧ (n ≤ 0 → L = []) ∧ (0 < n → chainFrom bs n 0 L) := by
  unfold blocks
  rw [numBlocks_eq T hf n bs hn hbs hbs2]
  by_cases hpos : 0 < n
  · have hnb : 0 < nbIdeal n bs := by
      obtain ⟨f1, f2, f3, f4, f5, f6⟩ := divmod_facts n bs hpos hbs
      unfold nbIdeal
      rw [if_pos hpos]
      by_cases hr : n % bs ≠ 0
      · rw [if_pos hr]; omega
      · rw [if_neg hr]
        have : n / bs ≠ 0 := by
          intro h0
          rw [h0] at f1
          omega
        omega
    obtain ⟨L, hL, hc, _⟩ := blocksFrom_chain T hf n bs hn hbs hbs2 hpos (nbIdeal n bs).toNat 0
      (by omega) (by omega) (by omega)
    refine ⟨L, hL, fun h => by omega, fun _ => ?_⟩
    simpa using hc
  · have : nbIdeal n bs = 0 := by unfold nbIdeal; simp [hpos]
    rw [this]
    exact ⟨[], by simp [blocksFrom], fun _ => rfl, fun h => by omega⟩

/-- a chain of blocks covers every index of `[a, n)` exactly once and nothing else -/
theorem chain_cover (bs n : Int) : ∀ (L : List (Int × Int)) (a : Int), chainFrom bs n a L →
    a ≤ n ∧ ∀ i : Int, (L.filter fun be => decide (be.1 ≤ i ∧ i < be.2)).length = if a ≤ i ∧ i < n then 1 else 0
  | [], a, h => by
    simp only [chainFrom] at h
    subst h
    refine ⟨Int.le_refl _, fun i => ?_⟩
    have : ¬ (a ≤ i ∧ i < a) := by omega
    rw [if_neg this]
    rfl
  | (b, e) :: rest, a, h => by
    simp only [chainFrom] at h
    obtain ⟨rfl, h1, h2, h3⟩ := h
    obtain ⟨ih1, ih2⟩ := chain_cover bs n rest e h3
    refine ⟨by omega, fun i => ?_⟩
    have := ih2 i
    simp only [List.filter_cons]
    by_cases hi : b ≤ i ∧ i < e
    · have hd : decide (b ≤ i ∧ i < e) = true := decide_eq_true hi
      simp only [hd, ↓reduceIte, List.length_cons]
      rw [this]
      have h5 : ¬ (e ≤ i ∧ i < n) := by omega
      have h6 : b ≤ i ∧ i < n := by omega
      rw [if_neg h5, if_pos h6]
    · have hd : decide (b ≤ i ∧ i < e) = false := decide_eq_false hi
      simp only [hd, Bool.false_eq_true, ↓reduceIte]
      rw [this]
      by_cases h4 : e ≤ i ∧ i < n
      · have h6 : b ≤ i ∧ i < n := by omega
        rw [if_pos h4, if_pos h6]
      · have h6 : ¬ (b ≤ i ∧ i < n) := by omega
        rw [if_neg h4, if_neg h6]


theorem cinc_ok (T : CTy) (hbT : 1 ≤ T.bits) (loT : T.lo ≤ 0) (i : Int) (h0 : 0 ≤ i) (h1 : i + 1 ≤ T.hi) :
    cinc T i = some (i + 1) := by
  unfold cinc
  have hr : T.inRange (i + 1) := ⟨by omega, h1⟩
  split
  · rw [conv_id T hbT _ hr]
  · exact cres_ok T hbT _ hr

theorem serialFrom_eq (T : CTy) (hbT : 1 ≤ T.bits) (loT : T.lo ≤ 0) (n : Int) (hn : n ≤ T.hi) :
    ∀ (fuel : Nat) (i : Int), 0 ≤ i → (n - i).toNat < fuel →
      serialFrom T n fuel i = some (intsFrom i (n - i).toNat) := by
  intro fuel
  induction fuel with
  | zero => intro i _ h; omega
  | succ f ih =>
    intro i hi hf
    unfold serialFrom
    by_cases hlt : i < n
    · rw [if_pos hlt, cinc_ok T hbT loT i hi (by omega)]
      simp only
      rw [ih (i + 1) (by omega) (by omega)]
      have : (n - i).toNat = (n - (i + 1)).toNat + 1 := by omega
      rw [this]
      rfl
    · rw [if_neg hlt]
      have : (n - i).toNat = 0 := by omega
      rw [this]
      rfl

theorem mem_intsFrom : ∀ (len : Nat) (a x : Int), x ∈ intsFrom a len ↔ a ≤ x ∧ x < a + len
  | 0, a, x => by simp [intsFrom]
  | len + 1, a, x => by
    simp only [intsFrom, List.mem_cons, mem_intsFrom len (a + 1) x]
    omega

theorem nodup_intsFrom : ∀ (len : Nat) (a : Int), (intsFrom a len).Nodup
  | 0, a => by simp [intsFrom]
  | len + 1, a => by
    simp only [intsFrom, List.nodup_cons, mem_intsFrom]
    exact ⟨by omega, nodup_intsFrom len (a + 1)⟩

theorem intsFrom_append : ∀ (l1 l2 : Nat) (a : Int), intsFrom a l1 ++ intsFrom (a + l1) l2 = intsFrom a (l1 + l2)
  | 0, l2, a => by simp [intsFrom]
  | l1 + 1, l2, a => by
    have := intsFrom_append l1 l2 (a + 1)
    have e : l1 + 1 + l2 = (l1 + l2) + 1 := by omega
    rw [e]
    simp only [intsFrom, List.cons_append]
    rw [← this]
    congr 3
    omega

theorem map_add_intsFrom : ∀ (len : Nat) (a c : Int), (intsFrom a len).map (c + ·) = intsFrom (c + a) len
  | 0, a, c => rfl
  | len + 1, a, c => by
    simp only [intsFrom, List.map_cons, map_add_intsFrom len (a + 1) c]
    congr 2
    omega

/-- the ideal set list: (first, size) with size = min(left, maxChunk) -/
theorem internalSetsFrom_ok (T : CTy) (hbT : 1 ≤ T.bits) (total : Int) (htot : total ≤ T.hi) (hu : T.hi ≤ u64.hi) (loT : T.lo ≤ 0) :
    ∀ (fuel : Nat) (first : Int), 0 ≤ first → first ≤ total → (total - first).toNat < fuel →
      ∃ L, internalSetsFrom total fuel first = some L ∧
        (∀ fs ∈ L, 0 < fs.2 ∧ fs.2 ≤ maxChunk) ∧
        (L.flatMap fun fs => (intsFrom 0 fs.2.toNat).map (internalIndex T fs.1)) = intsFrom first (total - first).toNat := by
  have hu64 : u64.hi = 2 ^ 64 - 1 := by decide
  have hu64lo : u64.lo = 0 := by decide
  intro fuel
  induction fuel with
  | zero => intro first _ _ h; omega
  | succ f ih =>
    intro first h0 hle hf
    unfold internalSetsFrom
    by_cases hlt : first < total
    · rw [if_pos hlt]
      have hs : csub u64 total first = some (total - first) :=
        cres_ok u64 (by decide) _ ⟨by omega, by omega⟩
      rw [hs]
      simp only
      generalize hc : (if total - first < maxChunk then total - first else maxChunk) = chunk
      have hc1 : 0 < chunk := by
        rw [← hc]; unfold maxChunk; split <;> omega
      have hc2 : chunk ≤ maxChunk := by
        rw [← hc]; unfold maxChunk; split <;> omega
      have hc3 : chunk ≤ total - first := by
        rw [← hc]; unfold maxChunk at *; split <;> omega
      have hmc : maxChunk = 2147483647 := rfl
      have ci : i32.conv chunk = chunk := conv_id i32 (by decide) _ ⟨by
        have : i32.lo = -2147483648 := by decide
        omega, by
        have : i32.hi = 2147483647 := by decide
        omega⟩
      have cu : u64.conv chunk = chunk := conv_id u64 (by decide) _ ⟨by omega, by omega⟩
      have c32 : u32.conv chunk = chunk := conv_id u32 (by decide) _ ⟨by
        have : u32.lo = 0 := by decide
        omega, by
        have : u32.hi = 4294967295 := by decide
        omega⟩
      rw [ci, cu, c32]
      have ha : cadd u64 first chunk = some (first + chunk) :=
        cres_ok u64 (by decide) _ ⟨by omega, by omega⟩
      rw [ha]
      simp only
      obtain ⟨L, hL, hsz, hflat⟩ := ih (first + chunk) (by omega) (by omega) (by omega)
      rw [hL]
      refine ⟨(first, chunk) :: L, rfl, ?_, ?_⟩
      · intro fs hfs
        rcases List.mem_cons.mp hfs with rfl | hfs
        · exact ⟨hc1, hc2⟩
        · exact hsz fs hfs
      · simp only [List.flatMap_cons]
        rw [hflat]
        have hmap : (intsFrom 0 chunk.toNat).map (internalIndex T first) = intsFrom first chunk.toNat := by
          have : (intsFrom 0 chunk.toNat).map (internalIndex T first) = (intsFrom 0 chunk.toNat).map (first + ·) := by
            apply List.map_congr_left
            intro x hx
            rw [mem_intsFrom] at hx
            unfold internalIndex
            have c1 : u32.conv x = x := conv_id u32 (by decide) _ ⟨by
              have : u32.lo = 0 := by decide
              omega, by
              have : u32.hi = 4294967295 := by decide
              omega⟩
            rw [c1, conv_id u64 (by decide) _ ⟨by omega, by omega⟩, conv_id T hbT _ ⟨by omega, by omega⟩]
          rw [this, map_add_intsFrom]
          simp
        rw [hmap]
        have e1 : (first + chunk) = first + (chunk.toNat : Int) := by omega
        have e2 : (total - first).toNat = chunk.toNat + (total - (first + chunk)).toNat := by omega
        rw [e2, e1]
        have := intsFrom_append chunk.toNat (total - (first + ↑chunk.toNat)).toNat first
        exact this
    · rw [if_neg hlt]
      have : (total - first).toNat = 0 := by omega
      rw [this]
      exact ⟨[], rfl, by simp, rfl⟩

theorem iterAt_eq (sz : Nat) : ∀ (chunks : List Chunk) (i : Nat), iterAt sz chunks i = (rangeAddrs sz chunks)[i]?
  | [], i => by simp [iterAt, rangeAddrs]
  | c :: cs, i => by
    have ih := iterAt_eq sz cs (i - c.len)
    simp only [iterAt, rangeAddrs, List.flatMap_cons] at ih ⊢
    have hlen : (elemAddrs sz c).length = c.len := by simp [elemAddrs]
    by_cases hi : i < c.len
    · rw [if_pos hi, List.getElem?_append_left (by omega)]
      simp [elemAddrs, hi]
    · rw [if_neg hi, List.getElem?_append_right (by omega), hlen]
      exact ih


end RkVerif.C01
