/-
Helper lemmas for C01 §1 (Blocks): C integer semantics, block arithmetic, serial loop, chunking, addressing.
-/
import RkVerif.Model.C01
namespace RkVerif.C01

theorem two_pow_pos' (b : Nat) : (0 : Int) < 2 ^ b := Int.pow_pos (by decide)

theorem two_pow_succ_pred (b : Nat) (hb : 1 ≤ b) : (2 : Int) ^ b = 2 * 2 ^ (b - 1) := by
  obtain ⟨c, rfl⟩ : ∃ c, b = c + 1 := ⟨b - 1, by omega⟩
  simp [Int.pow_succ, Int.mul_comm]

theorem conv_id (T : CTy) (hb : 1 ≤ T.bits) (x : Int) (h : T.inRange x) : T.conv x = x := by
  have hM := two_pow_succ_pred T.bits hb
  have hH := two_pow_pos' (T.bits - 1)
  unfold CTy.inRange CTy.lo CTy.hi at h
  unfold CTy.conv
  generalize (2 : Int) ^ T.bits = M at *
  generalize (2 : Int) ^ (T.bits - 1) = H at *
  cases hs : T.signed
  · simp [hs] at h
    simp
    exact Int.emod_eq_of_lt (by omega) (by omega)
  · simp [hs] at h
    by_cases hx : 0 ≤ x
    · have : x % M = x := Int.emod_eq_of_lt hx (by omega)
      simp only [this]
      rw [if_neg (by simp; omega)]
    · have h1 : (x + M) % M = x + M := Int.emod_eq_of_lt (by omega) (by omega)
      have h2 : (x + M) % M = x % M := Int.add_emod_right x M
      simp only [← h2, h1]
      rw [if_pos (by simp; omega)]
      omega

theorem cres_ok (A : CTy) (hb : 1 ≤ A.bits) (r : Int) (h : A.inRange r) : cres A r = some r := by
  unfold cres
  cases hs : A.signed
  · simp [conv_id A hb r h]
  · simp [h]

/-- what the block arithmetic needs of an index type -/
structure Fits (T : CTy) : Prop where
  hbT : 1 ≤ T.bits
  hbA : 1 ≤ T.arith.bits
  loT : T.lo ≤ 0
  loA : T.arith.lo ≤ 0
  hiTA : T.hi ≤ T.arith.hi
  hiA : 2 ^ 31 - 1 ≤ T.arith.hi
  hiT : 127 ≤ T.hi

theorem fits_of_mem (name : String) (T : CTy) (h : (name, T) ∈ indexTypes) : Fits T := by
  simp only [indexTypes, List.mem_cons, Prod.mk.injEq, List.mem_nil_iff, or_false] at h
  rcases h with ⟨_, rfl⟩ | ⟨_, rfl⟩ | ⟨_, rfl⟩ | ⟨_, rfl⟩ | ⟨_, rfl⟩ | ⟨_, rfl⟩ | ⟨_, rfl⟩ | ⟨_, rfl⟩ <;>
    constructor <;> decide

theorem divmod_facts (n bs : Int) (hn : 0 < n) (hbs : 0 < bs) :
    bs * (n / bs) + n % bs = n ∧ 0 ≤ n % bs ∧ n % bs < bs ∧ 0 ≤ n / bs ∧ n / bs ≤ n ∧
    (n % bs ≠ 0 → n / bs + 1 ≤ n) := by
  have h1 := Int.mul_ediv_add_emod n bs
  have h2 := Int.emod_nonneg n (by omega : bs ≠ 0)
  have h3 := Int.emod_lt_of_pos n hbs
  have h4 : 0 ≤ n / bs := Int.ediv_nonneg (by omega) (by omega)
  have h5 : bs * (n / bs) = n / bs + (bs - 1) * (n / bs) := by rw [Int.sub_mul]; omega
  have h6 : 0 ≤ (bs - 1) * (n / bs) := Int.mul_nonneg (by omega) h4
  refine ⟨h1, h2, h3, h4, by omega, by omega⟩

theorem mul_step (k q bs : Int) (hbs : 0 < bs) (h : k + 1 ≤ q) : k * bs + bs ≤ q * bs := by
  have := Int.mul_le_mul_of_nonneg_right h (by omega : 0 ≤ bs)
  rw [Int.add_mul] at this
  omega

/-- the number of blocks, as a mathematical integer -/
def nbIdeal (n bs : Int) : Int := if n > 0 then n / bs + (if n % bs ≠ 0 then 1 else 0) else 0

theorem numBlocks_eq (T : CTy) (hf : Fits T) (n bs : Int) (hn : T.inRange n) (hbs : 0 < bs)
    (hbs2 : bs ≤ 2 ^ 31 - 1) : numBlocks T n bs = some (nbIdeal n bs) := by
  obtain ⟨hbT, hbA, loT, loA, hiTA, hiA, hiT⟩ := hf
  unfold numBlocks nbIdeal
  by_cases hpos : n > 0
  · obtain ⟨f1, f2, f3, f4, f5, f6⟩ := divmod_facts n bs hpos hbs
    have cn : T.arith.conv n = n := conv_id _ hbA _ ⟨by omega, by have := hn.2; omega⟩
    have cb : T.arith.conv bs = bs := conv_id _ hbA _ ⟨by omega, by omega⟩
    have hd : cdiv T.arith n bs = some (n / bs) := by
      unfold cdiv
      rw [if_neg (by omega), Int.tdiv_eq_ediv_of_nonneg (by omega)]
      exact cres_ok _ hbA _ ⟨by omega, by have := hn.2; omega⟩
    have hm : cmod T.arith n bs = some (n % bs) := by
      unfold cmod
      rw [if_neg (by omega), Int.tmod_eq_emod_of_nonneg (by omega)]
      exact cres_ok _ hbA _ ⟨by omega, by have := hn.2; omega⟩
    simp only [hpos, if_true, cn, cb, hd, hm]
    by_cases hr : n % bs ≠ 0
    · have c1 : T.arith.conv 1 = 1 := conv_id _ hbA _ ⟨by omega, by omega⟩
      have ha : cadd T.arith (n / bs) 1 = some (n / bs + 1) :=
        cres_ok _ hbA _ ⟨by omega, by have := hn.2; have := f6 hr; omega⟩
      rw [if_pos hr, c1, ha]
      have := f6 hr
      simp only
      rw [conv_id T hbT _ ⟨by omega, by have := hn.2; omega⟩]
    · have c0 : T.arith.conv 0 = 0 := conv_id _ hbA _ ⟨by omega, by omega⟩
      have ha : cadd T.arith (n / bs) 0 = some (n / bs + 0) :=
        cres_ok _ hbA _ ⟨by omega, by have := hn.2; omega⟩
      rw [if_neg hr, c0, ha]
      simp only
      rw [conv_id T hbT _ ⟨by omega, by have := hn.2; omega⟩]
  · simp only [hpos, if_false]
    rw [conv_id T hbT _ ⟨by omega, by omega⟩]


end RkVerif.C01
