/- C16 — safety lemmas: every helper of the XML.cpp model, started with the cursor inside the
   buffer (`s ≤ b.size`, i.e. at or before the terminator) and with fuel at least
   `b.size - s + 1` (`+ 2` for the node loop), returns with the cursor still inside the buffer
   or fails with `runtimeError` — never `outOfBounds`, never `outOfFuel`. -/
import RkVerif.Model.C16
namespace RkVerif.C16

variable {α β : Type}

/-- postcondition of a parser step: ok results satisfy `Q` and keep the cursor inside the buffer;
    the only failure is `runtimeError`. -/
def Post (b : Array UInt8) (r : Except Err (α × Nat)) (Q : α → Nat → Prop) : Prop :=
  match r with
  | .ok (a, s') => s' ≤ b.size ∧ Q a s'
  | .error e => e = .runtimeError

@[simp] theorem bind_apply (m : XmlM α) (f : α → XmlM β) (b : Array UInt8) (s : Nat) :
    (m >>= f) b s = match m b s with
      | .ok (a, s') => f a b s'
      | .error e => .error e := rfl

@[simp] theorem pure_apply (a : α) (b : Array UInt8) (s : Nat) : (pure a : XmlM α) b s = .ok (a, s) := rfl
@[simp] theorem fail_apply (e : Err) (b : Array UInt8) (s : Nat) : (fail e : XmlM α) b s = .error e := rfl
@[simp] theorem adv_apply (b : Array UInt8) (s : Nat) : adv b s = .ok ((), s + 1) := rfl
@[simp] theorem pos_apply (b : Array UInt8) (s : Nat) : pos b s = .ok (s, s) := rfl

theorem Post.bind {b : Array UInt8} {s : Nat} {m : XmlM α} {f : α → XmlM β}
    {Q1 : α → Nat → Prop} {Q2 : β → Nat → Prop}
    (h1 : Post b (m b s) Q1)
    (h2 : ∀ a s', s' ≤ b.size → Q1 a s' → Post b (f a b s') Q2) :
    Post b ((m >>= f) b s) Q2 := by
  rw [bind_apply]
  unfold Post at h1
  split at h1
  · next a s' heq => exact h2 a s' h1.1 h1.2
  · next e heq => simpa [Post] using h1

theorem Post.mono {b : Array UInt8} {r : Except Err (α × Nat)} {Q1 Q2 : α → Nat → Prop}
    (h : Post b r Q1) (hq : ∀ a s', s' ≤ b.size → Q1 a s' → Q2 a s') : Post b r Q2 := by
  unfold Post at *
  split <;> simp_all

theorem Post.pure {b : Array UInt8} {s : Nat} {a : α} {Q : α → Nat → Prop} (h1 : s ≤ b.size) (h2 : Q a s) :
    Post b ((pure a : XmlM α) b s) Q := by
  simp [Post, h1, h2]

theorem Post.fail {b : Array UInt8} {s : Nat} {Q : α → Nat → Prop} :
    Post b ((fail .runtimeError : XmlM α) b s) Q := by
  simp [Post]

theorem rd_le {b : Array UInt8} {i : Nat} (h : i ≤ b.size) :
    ∃ c, rd b i = .ok c ∧ (c ≠ 0 → i < b.size) := by
  unfold rd
  by_cases h1 : i < b.size
  · simp [h1]
  · have : i = b.size := by omega
    simp [this]

/-- `s[k]` with `s + k` inside the buffer: yields a char, cursor unchanged; a non-zero char means
    `s + k` is before the terminator. -/
theorem peekAt_post {b : Array UInt8} {s k : Nat} (h : s + k ≤ b.size) :
    Post b (peekAt k b s) (fun c s' => s = s' ∧ rd b (s + k) = .ok c ∧ (c ≠ 0 → s + k < b.size)) := by
  obtain ⟨c, hc, hnz⟩ := rd_le h
  simp only [peekAt, hc, Post]
  exact ⟨by omega, trivial, trivial, hnz⟩

theorem peek_post {b : Array UInt8} {s : Nat} (h : s ≤ b.size) :
    Post b (peek b s) (fun c s' => s = s' ∧ rd b s = .ok c ∧ (c ≠ 0 → s < b.size)) := by
  have := peekAt_post (b := b) (s := s) (k := 0) (by omega)
  simpa [peek] using this

theorem adv_post {b : Array UInt8} {s : Nat} (h : s < b.size) :
    Post b (adv b s) (fun _ s' => s' = s + 1) := by
  simp [Post]; omega

theorem expect_post {b : Array UInt8} {s : Nat} (w : UInt8) (h : s ≤ b.size) :
    Post b (expect w b s) (fun _ s' => s = s' ∧ rd b s = .ok w) := by
  unfold expect
  refine Post.bind (peek_post h) ?_
  rintro c s' _ ⟨rfl, hc, -⟩
  by_cases hw : c = w
  · subst hw; simp [Post, h, hc]
  · simp [hw, Post]

theorem consume_post {b : Array UInt8} {s : Nat} (w : UInt8) (hw : w ≠ 0) (h : s ≤ b.size) :
    Post b (consume w b s) (fun _ s' => s' = s + 1 ∧ rd b s = .ok w) := by
  unfold consume
  refine Post.bind (expect_post w h) ?_
  rintro _ s' _ ⟨rfl, hc⟩
  obtain ⟨c, hc', hnz⟩ := rd_le h
  have : c = w := by rw [hc] at hc'; cases hc'; rfl
  subst this
  simp [Post, hc]; exact hnz hw

theorem consumeWord_post {b : Array UInt8} (ws : List UInt8) (hws : ∀ w ∈ ws, w ≠ 0) :
    ∀ s, s ≤ b.size → Post b (consumeWord ws b s) (fun _ s' => s' = s + ws.length) := by
  induction ws with
  | nil => intro s h; simp [consumeWord, Post, h]
  | cons w ws ih =>
    intro s h
    unfold consumeWord
    refine Post.bind (consume_post w (hws w (by simp)) h) ?_
    rintro _ s' hs' ⟨rfl, -⟩
    refine (ih (fun w hw => hws w (by simp [hw])) _ hs').mono ?_
    intro _ s'' _ hq; simp [hq]; omega


theorem isWhite_ne_zero {c : UInt8} (h : isWhite c = true) : c ≠ 0 := by
  intro h0; subst h0; simp [isWhite] at h
theorem isIdChar_ne_zero {c : UInt8} (h : isIdChar c = true) : c ≠ 0 := by
  intro h0; subst h0; simp [isIdChar, isAlpha, isDigit] at h
theorem isIdStart_ne_zero {c : UInt8} (h : isIdStart c = true) : c ≠ 0 := by
  intro h0; subst h0; simp [isIdStart, isAlpha] at h

/-- shape of the simple scanning loops: cursor only moves forward, stays inside. -/
abbrev Fwd (s : Nat) : α → Nat → Prop := fun _ s' => s ≤ s'

theorem skipWhites_post (b : Array UInt8) (f : Nat) : ∀ s, s ≤ b.size → b.size - s + 1 ≤ f →
    Post b (skipWhites f b s) (Fwd s) := by
  induction f with
  | zero => intro s h1 h2; omega
  | succ f ih =>
    intro s h1 h2
    unfold skipWhites
    refine Post.bind (peek_post h1) ?_
    rintro c s' _ ⟨rfl, hc, hnz⟩
    split
    · next hw =>
      have hlt := hnz (isWhite_ne_zero hw)
      refine Post.bind (adv_post hlt) ?_
      rintro _ s' _ rfl
      exact (ih _ (by omega) (by omega)).mono (fun _ s'' _ h => by simp only [Fwd] at *; omega)
    · exact Post.pure h1 (Nat.le_refl _)

theorem identLoop_post (b : Array UInt8) (f : Nat) : ∀ s, s ≤ b.size → b.size - s + 1 ≤ f →
    Post b (identLoop f b s) (Fwd s) := by
  induction f with
  | zero => intro s h1 h2; omega
  | succ f ih =>
    intro s h1 h2
    unfold identLoop
    refine Post.bind (peek_post h1) ?_
    rintro c s' _ ⟨rfl, hc, hnz⟩
    split
    · next hw =>
      have hlt := hnz (isIdChar_ne_zero hw)
      refine Post.bind (adv_post hlt) ?_
      rintro _ s' _ rfl
      exact (ih _ (by omega) (by omega)).mono (fun _ s'' _ h => by simp only [Fwd] at *; omega)
    · exact Post.pure h1 (Nat.le_refl _)

theorem contentLoop_post (b : Array UInt8) (f : Nat) : ∀ s, s ≤ b.size → b.size - s + 1 ≤ f →
    Post b (contentLoop f b s) (Fwd s) := by
  induction f with
  | zero => intro s h1 h2; omega
  | succ f ih =>
    intro s h1 h2
    unfold contentLoop
    refine Post.bind (peek_post h1) ?_
    rintro c s' _ ⟨rfl, hc, hnz⟩
    split
    · next hw =>
      have hlt := hnz (by simp at hw; exact hw.2)
      refine Post.bind (adv_post hlt) ?_
      rintro _ s' _ rfl
      exact (ih _ (by omega) (by omega)).mono (fun _ s'' _ h => by simp only [Fwd] at *; omega)
    · exact Post.pure h1 (Nat.le_refl _)

theorem commentLoop_post (b : Array UInt8) (f : Nat) : ∀ s, s ≤ b.size → b.size - s + 1 ≤ f →
    Post b (commentLoop f b s) (Fwd s) := by
  induction f with
  | zero => intro s h1 h2; omega
  | succ f ih =>
    intro s h1 h2
    have step : ∀ (c0 : UInt8), c0 ≠ 0 → (c0 ≠ 0 → s + 0 < b.size) →
        Post b ((adv >>= fun _ => commentLoop f) b s) (Fwd s) := by
      intro c0 hne hnz
      have hlt := hnz hne
      refine Post.bind (adv_post (by omega)) ?_
      rintro _ s' _ rfl
      exact (ih _ (by omega) (by omega)).mono (fun _ s'' _ h => by simp only [Fwd] at *; omega)
    unfold commentLoop
    refine Post.bind (peekAt_post (k := 0) (by omega)) ?_
    rintro c0 s' _ ⟨rfl, hc0, hnz0⟩
    split
    · exact Post.pure h1 (Nat.le_refl _)
    · next h0 =>
      have hne0 : c0 ≠ 0 := by simpa using h0
      split
      · refine Post.bind (peekAt_post (k := 1) (by have := hnz0 hne0; omega)) ?_
        rintro c1 s' _ ⟨rfl, hc1, hnz1⟩
        split
        · next h1' =>
          have hne1 : c1 ≠ 0 := by
            have : c1 = cDash := by simpa using h1'
            rw [this]; decide
          refine Post.bind (peekAt_post (k := 2) (by have := hnz1 hne1; omega)) ?_
          rintro c2 s' _ ⟨rfl, hc2, hnz2⟩
          split
          · exact Post.pure h1 (Nat.le_refl _)
          · exact step c0 hne0 hnz0
        · exact step c0 hne0 hnz0
      · exact step c0 hne0 hnz0

theorem consumeComment_post (b : Array UInt8) (f s : Nat) (h1 : s ≤ b.size) (h2 : b.size - s ≤ f + 1) :
    Post b (consumeComment f b s) (fun _ s' => s + 5 ≤ s') := by
  unfold consumeComment
  refine Post.bind (consume_post cLT (by decide) h1) ?_
  rintro _ s1 hs1 ⟨rfl, -⟩
  refine Post.bind (consume_post cBang (by decide) hs1) ?_
  rintro _ s2 hs2 ⟨rfl, -⟩
  refine Post.bind (commentLoop_post b f _ hs2 (by omega)) ?_
  intro _ s3 hs3 h3
  refine Post.bind (consume_post cDash (by decide) hs3) ?_
  rintro _ s4 hs4 ⟨rfl, -⟩
  refine Post.bind (consume_post cDash (by decide) hs4) ?_
  rintro _ s5 hs5 ⟨rfl, -⟩
  refine (consume_post cGT (by decide) hs5).mono ?_
  rintro _ s6 _ ⟨rfl, -⟩
  simp only [Fwd] at h3; omega

theorem makeString_post (b : Array UInt8) (bg en s : Nat) (h : s ≤ b.size) :
    Post b (makeString bg en b s) (fun _ s' => s = s') := by
  unfold makeString
  split <;> simp [Post, h]

theorem stringLoop_post (q : UInt8) (b : Array UInt8) (f : Nat) : ∀ s, s ≤ b.size → b.size - s + 1 ≤ f →
    Post b (stringLoop q f b s) (Fwd s) := by
  induction f with
  | zero => intro s h1 h2; omega
  | succ f ih =>
    intro s h1 h2
    unfold stringLoop
    refine Post.bind (peek_post h1) ?_
    rintro c s' _ ⟨rfl, hc, hnz⟩
    split
    · next hq =>
      -- `if (*s == '\\') ++s;` then the terminator test on the (possibly advanced) cursor
      have hmid : Post b ((if (c == cBSl) = true then adv else pure () : XmlM Unit) b s)
          (fun _ s' => s ≤ s' ∧ s' ≤ s + 1) := by
        split
        · next hb =>
          have : c ≠ 0 := by
            have : c = cBSl := by simpa using hb
            rw [this]; decide
          exact (adv_post (hnz this)).mono (fun _ s' _ h => by omega)
        · exact Post.pure h1 (by omega)
      refine Post.bind hmid ?_
      rintro _ s1 hs1 ⟨hlo, hhi⟩
      refine Post.bind (peek_post hs1) ?_
      rintro c' s' _ ⟨rfl, hc', hnz'⟩
      split
      · exact Post.fail
      · next hz =>
        have hlt := hnz' (by simpa using hz)
        refine Post.bind (adv_post hlt) ?_
        rintro _ s2 _ rfl
        exact (ih _ (by omega) (by omega)).mono (fun _ s'' _ h => by simp only [Fwd] at *; omega)
    · exact Post.pure h1 (Nat.le_refl _)


theorem parseQuoted_post (q : UInt8) (hq : q ≠ 0) (b : Array UInt8) (f s : Nat) (h1 : s ≤ b.size)
    (h2 : b.size - s ≤ f) : Post b (parseQuoted stringLoop q f b s) (fun _ s' => s + 2 ≤ s') := by
  unfold parseQuoted
  refine Post.bind (consume_post q hq h1) ?_
  rintro _ s1 hs1 ⟨rfl, -⟩
  refine Post.bind (Post.pure hs1 rfl (Q := fun bg s' => s' = s + 1)) ?_
  rintro bg s1 hs1 rfl
  refine Post.bind (stringLoop_post q b f _ hs1 (by omega)) ?_
  intro _ s2 hs2 h12
  refine Post.bind (Post.pure hs2 rfl (Q := fun _ s' => s' = s2)) ?_
  rintro en s2' hs2' rfl
  refine Post.bind (makeString_post b _ _ _ hs2') ?_
  rintro v s3 hs3 rfl
  refine Post.bind (consume_post q hq hs3) ?_
  rintro _ s4 hs4 ⟨rfl, -⟩
  refine Post.pure hs4 ?_
  simp only [Fwd] at h12; omega

/-- what the callers need from `parseString` -/
def PsOK (b : Array UInt8) (ps : Nat → XmlM Bytes) : Prop :=
  ∀ f s, s ≤ b.size → b.size - s + 1 ≤ f → Post b (ps f b s) (fun _ s' => s + 2 ≤ s')

theorem parseString_ok (b : Array UInt8) : PsOK b parseString := by
  intro f s h1 h2
  unfold parseString parseStringWith
  refine Post.bind (peek_post h1) ?_
  rintro c s' _ ⟨rfl, -, -⟩
  split
  · exact parseQuoted_post cDQ (by decide) b f _ h1 (by omega)
  · exact parseQuoted_post cSQ (by decide) b f _ h1 (by omega)

theorem parseIdentifier_post (b : Array UInt8) (f s : Nat) (h1 : s ≤ b.size) (h2 : b.size - s ≤ f) :
    Post b (parseIdentifier f b s) (fun r s' => s ≤ s' ∧ (r.isSome → s + 1 ≤ s')) := by
  unfold parseIdentifier
  refine Post.bind (peek_post h1) ?_
  rintro c s' _ ⟨rfl, hc, hnz⟩
  split
  · next hs =>
    have hlt := hnz (isIdStart_ne_zero hs)
    refine Post.bind (Post.pure h1 rfl (Q := fun _ s' => s' = s)) ?_
    rintro bg s0 _ rfl
    refine Post.bind (adv_post hlt) ?_
    rintro _ s1 hs1 rfl
    refine Post.bind (identLoop_post b f _ hs1 (by omega)) ?_
    intro _ s2 hs2 h12
    refine Post.bind (Post.pure hs2 rfl (Q := fun _ s' => s' = s2)) ?_
    rintro en s2' hs2' rfl
    refine Post.bind (makeString_post b _ _ _ hs2') ?_
    rintro v s3 hs3 rfl
    refine Post.pure hs3 ?_
    simp only [Fwd] at h12; simp; omega
  · exact Post.pure h1 (by simp)

theorem parsePropWith_post (b : Array UInt8) (ps : Nat → XmlM Bytes) (hps : PsOK b ps) (f s : Nat)
    (h1 : s ≤ b.size) (h2 : b.size - s + 1 ≤ f) :
    Post b (parsePropWith ps f b s) (fun r s' => s ≤ s' ∧ (r.isSome → s + 1 ≤ s')) := by
  unfold parsePropWith
  refine Post.bind (parseIdentifier_post b f s h1 (by omega)) ?_
  rintro r s1 hs1 ⟨h01, h01'⟩
  cases r with
  | none => exact Post.pure hs1 (by simp; omega)
  | some name =>
    have := h01' rfl
    refine Post.bind (skipWhites_post b f _ hs1 (by omega)) ?_
    intro _ s2 hs2 h12
    refine Post.bind (consume_post cEq (by decide) hs2) ?_
    rintro _ s3 hs3 ⟨rfl, -⟩
    refine Post.bind (skipWhites_post b f _ hs3 (by simp only [Fwd] at h12; omega)) ?_
    intro _ s4 hs4 h34
    refine Post.bind (?_ : Post b (expect2 cDQ cSQ b s4) (fun _ s' => s4 = s')) ?_
    · unfold expect2
      refine Post.bind (peek_post hs4) ?_
      rintro c s' _ ⟨rfl, -, -⟩
      split
      · exact Post.fail
      · exact Post.pure hs4 rfl
    rintro _ s5 hs5 rfl
    refine Post.bind (hps f _ hs5 (by simp only [Fwd] at h12 h34; omega)) ?_
    intro v s6 hs6 h56
    refine Post.pure hs6 ?_
    simp only [Fwd] at h12 h34; simp; omega

theorem skipComment_post (b : Array UInt8) (f s : Nat) (h1 : s ≤ b.size) (h2 : b.size - s ≤ f + 1) :
    Post b (skipComment f b s) (fun r s' => s ≤ s' ∧ (r = true → s + 1 ≤ s')) := by
  unfold skipComment
  refine Post.bind (peekAt_post (k := 0) (by omega)) ?_
  rintro c0 s' _ ⟨rfl, hc0, hnz0⟩
  split
  · next h0 =>
    have hne0 : c0 ≠ 0 := by
      have : c0 = cLT := by simpa using h0
      rw [this]; decide
    refine Post.bind (peekAt_post (k := 1) (by have := hnz0 hne0; omega)) ?_
    rintro c1 s' _ ⟨rfl, -, -⟩
    split
    · refine Post.bind (consumeComment_post b f s h1 h2) ?_
      intro _ s2 hs2 h
      exact Post.pure hs2 (by omega)
    · exact Post.pure h1 (by simp)
  · exact Post.pure h1 (by simp)

theorem propLoop_post (b : Array UInt8) (ps : Nat → XmlM Bytes) (hps : PsOK b ps) (f : Nat) :
    ∀ s acc, s ≤ b.size → b.size - s + 2 ≤ f → Post b (propLoop ps f acc b s) (Fwd s) := by
  induction f with
  | zero => intro s acc h1 h2; omega
  | succ f ih =>
    intro s acc h1 h2
    unfold propLoop
    refine Post.bind (parsePropWith_post b ps hps f s h1 (by omega)) ?_
    rintro r s1 hs1 ⟨h01, h01'⟩
    cases r with
    | none => exact Post.pure hs1 h01
    | some kv =>
      obtain ⟨k, v⟩ := kv
      have := h01' rfl
      refine Post.bind (skipWhites_post b f _ hs1 (by omega)) ?_
      intro _ s2 hs2 h12
      simp only [Fwd] at h12
      exact (ih _ _ hs2 (by omega)).mono (fun _ s'' _ h => by simp only [Fwd] at *; omega)

theorem headerPropLoop_post (b : Array UInt8) (ps : Nat → XmlM Bytes) (hps : PsOK b ps) (f : Nat) :
    ∀ s, s ≤ b.size → b.size - s + 2 ≤ f → Post b (headerPropLoop ps f b s) (Fwd s) := by
  induction f with
  | zero => intro s h1 h2; omega
  | succ f ih =>
    intro s h1 h2
    unfold headerPropLoop
    refine Post.bind (parsePropWith_post b ps hps f s h1 (by omega)) ?_
    rintro r s1 hs1 ⟨h01, h01'⟩
    cases r with
    | none => exact Post.pure hs1 h01
    | some kv =>
      have := h01' rfl
      refine Post.bind (skipWhites_post b f _ hs1 (by omega)) ?_
      intro _ s2 hs2 h12
      simp only [Fwd] at h12
      exact (ih _ hs2 (by omega)).mono (fun _ s'' _ h => by simp only [Fwd] at *; omega)

/-- the backward trimming loop stops at the latest on a non-space byte at an index `p < e`
    (in `parseNode`: the node's own `'<'`), so it never reads before the buffer. -/
theorem trimBack_post (b : Array UInt8) (p : Nat) (c : UInt8) (hp : rd b p = .ok c) (hc : isSpace c = false)
    (s : Nat) (hs : s ≤ b.size) : ∀ e, p < e → e ≤ b.size + 1 →
    Post b (trimBack e b s) (fun _ s' => s = s') := by
  intro e
  induction e with
  | zero => intro h; omega
  | succ e ih =>
    intro h1 h2
    unfold trimBack
    obtain ⟨c', hc', -⟩ := rd_le (b := b) (i := e) (by omega)
    have hrd : Post b (rdAbs e b s) (fun x s' => s = s' ∧ rd b e = .ok x) := by
      simp [rdAbs, hc', Post, hs]
    refine Post.bind hrd ?_
    rintro x s' _ ⟨rfl, hx⟩
    split
    · next hsp =>
      have : p ≠ e := by
        rintro rfl
        rw [hp] at hx; cases hx; rw [hc] at hsp; cases hsp
      exact ih (by omega) (by omega)
    · exact Post.pure hs rfl


theorem contentLoop_adv (b : Array UInt8) (f s : Nat) (c : UInt8) (h1 : s ≤ b.size) (h2 : b.size - s + 1 ≤ f)
    (hc : rd b s = .ok c) (hlt : c ≠ cLT) (hz : c ≠ 0) :
    Post b (contentLoop f b s) (fun _ s' => s + 1 ≤ s') := by
  cases f with
  | zero => omega
  | succ f =>
    unfold contentLoop
    refine Post.bind (peek_post h1) ?_
    rintro c' s' _ ⟨rfl, hc', hnz⟩
    have : c' = c := by rw [hc] at hc'; cases hc'; rfl
    subst this
    split
    · have hl := hnz hz
      refine Post.bind (adv_post hl) ?_
      rintro _ s1 hs1 rfl
      exact (contentLoop_post b f _ hs1 (by omega)).mono (fun _ s'' _ h => by simp only [Fwd] at *; omega)
    · next hcond => simp [hlt, hz] at hcond

theorem nodeLoop_post (b : Array UInt8) (pn : XmlM Node) (name : Bytes) (props : List (Bytes × Bytes))
    (p0 : Nat) (hp0 : rd b p0 = .ok cLT) (f : Nat) :
    ∀ s content children, p0 < s → s ≤ b.size → b.size - s + 2 ≤ f →
      (∀ s', s ≤ s' → s' ≤ b.size → Post b (pn b s') (fun _ s'' => s' + 1 ≤ s'')) →
      Post b (nodeLoop pn name props f content children b s) (Fwd s) := by
  induction f with
  | zero => intro s _ _ _ h1 h2; omega
  | succ f ih =>
    intro s content children hp h1 h2 hpn
    unfold nodeLoop
    refine Post.bind (skipWhites_post b f _ h1 (by omega)) ?_
    intro _ s1 hs1 h01
    simp only [Fwd] at h01
    refine Post.bind (skipComment_post b f s1 hs1 (by omega)) ?_
    rintro r s2 hs2 ⟨h12, h12'⟩
    cases r with
    | true =>
      have := h12' rfl
      simp only [if_true]
      exact (ih _ _ _ (by omega) hs2 (by omega) (fun s' hs hs' => hpn s' (by omega) hs')).mono
        (fun _ s'' _ h => by simp only [Fwd] at *; omega)
    | false =>
      simp only [Bool.false_eq_true, if_false]
      refine Post.bind (peekAt_post (k := 0) (by omega)) ?_
      rintro c0 s' _ ⟨rfl, hc0, hnz0⟩
      split
      · next h0 =>
        have hne0 : c0 ≠ 0 := by
          have : c0 = cLT := by simpa using h0
          rw [this]; decide
        have hlt := hnz0 hne0
        refine Post.bind (peekAt_post (k := 1) (by omega)) ?_
        rintro c1 s' _ ⟨rfl, -, -⟩
        split
        · refine Post.bind (consumeWord_post [cLT, cSlash] (by decide) _ hs2) ?_
          rintro _ s3 hs3 rfl
          refine Post.bind (parseIdentifier_post b f _ hs3 (by simp; omega)) ?_
          rintro r s4 hs4 ⟨h34, -⟩
          split
          · exact Post.fail
          · refine Post.bind (consumeWord_post [cGT] (by decide) _ hs4) ?_
            rintro _ s5 hs5 rfl
            refine Post.pure hs5 ?_
            simp only [Fwd, List.length_cons, List.length_nil] at *; omega
        · refine Post.bind (hpn s2 (by omega) hs2) ?_
          intro ch s3 hs3 h23
          exact (ih _ _ _ (by omega) hs3 (by omega) (fun s' hs hs' => hpn s' (by omega) hs')).mono
            (fun _ s'' _ h => by simp only [Fwd] at *; omega)
      · next h0 =>
        split
        · exact Post.pure hs2 (by simp only [Fwd]; omega)
        · next hz =>
          split
          · exact Post.fail
          · refine Post.bind (Post.pure hs2 rfl (Q := fun _ s' => s' = s2)) ?_
            rintro bg s2' hs2' rfl
            refine Post.bind (contentLoop_adv b f _ c0 hs2' (by omega) (by simpa using hc0)
              (by simpa using h0) (by simpa using hz)) ?_
            intro _ s3 hs3 h23
            refine Post.bind (Post.pure hs3 ⟨rfl, rfl⟩ (Q := fun en s' => en = s3 ∧ s' = s3)) ?_
            rintro en s3' hs3' ⟨rfl, rfl⟩
            refine Post.bind (trimBack_post b p0 cLT hp0 (by decide) _ hs3' _ (by omega) (by omega)) ?_
            rintro en' s4 hs4 rfl
            refine Post.bind (makeString_post b _ _ _ hs4) ?_
            rintro v s5 hs5 rfl
            exact (ih _ _ _ (by omega) hs5 (by omega) (fun s' hs hs' => hpn s' (by omega) hs')).mono
              (fun _ s'' _ h => by simp only [Fwd] at *; omega)

theorem parseNodeWith_post (b : Array UInt8) (ps : Nat → XmlM Bytes) (hps : PsOK b ps) (f : Nat) :
    ∀ s, s ≤ b.size → b.size - s + 1 ≤ f →
      Post b (parseNodeWith ps f b s) (fun _ s' => s + 1 ≤ s') := by
  induction f with
  | zero => intro s h1 h2; omega
  | succ f ih =>
    intro s h1 h2
    unfold parseNodeWith
    refine Post.bind (consume_post cLT (by decide) h1) ?_
    rintro _ s1 hs1 ⟨rfl, hp0⟩
    refine Post.bind (parseIdentifier_post b f _ hs1 (by omega)) ?_
    rintro r s2 hs2 ⟨h12, h12'⟩
    cases r with
    | none => exact Post.fail
    | some name =>
      have := h12' rfl
      refine Post.bind (skipWhites_post b f _ hs2 (by omega)) ?_
      intro _ s3 hs3 h23
      simp only [Fwd] at h23
      refine Post.bind (propLoop_post b ps hps f _ _ hs3 (by omega)) ?_
      intro props s4 hs4 h34
      simp only [Fwd] at h34
      refine Post.bind (peek_post hs4) ?_
      rintro c s' _ ⟨rfl, -, -⟩
      split
      · refine Post.bind (consumeWord_post [cSlash, cGT] (by decide) _ hs4) ?_
        rintro _ s5 hs5 rfl
        exact Post.pure hs5 (by omega)
      · refine Post.bind (consumeWord_post [cGT] (by decide) _ hs4) ?_
        intro _ s5 hs5 h5
        have h5' : s5 = s4 + 1 := h5
        subst h5'
        refine (nodeLoop_post b _ name props s hp0 f _ _ _ (by omega) hs5 (by omega) ?_).mono
          (fun _ s'' _ h => by simp only [Fwd] at *; omega)
        intro s' hs hs'
        exact ih s' hs' (by omega)

theorem parseHeaderWith_post (b : Array UInt8) (ps : Nat → XmlM Bytes) (hps : PsOK b ps) (f s : Nat)
    (h1 : s ≤ b.size) (h2 : b.size - s + 2 ≤ f) : Post b (parseHeaderWith ps f b s) (Fwd s) := by
  unfold parseHeaderWith
  refine Post.bind (consumeWord_post [cLT, cQuest, 120, 109, 108] (by decide) _ h1) ?_
  rintro _ s1 hs1 rfl
  refine Post.bind (peekAt_post (k := 0) (by omega)) ?_
  rintro c0 s' _ ⟨rfl, hc0, hnz0⟩
  refine Post.bind (?_ : Post b _ (fun _ s' => s + [cLT, cQuest, (120 : UInt8), 109, 108].length = s')) ?_
  · split
    · next h0 =>
      have hne0 : c0 ≠ 0 := by
        have : c0 = cQuest := by simpa using h0
        rw [this]; decide
      refine Post.bind (peekAt_post (k := 1) (by have := hnz0 hne0; omega)) ?_
      rintro c1 s' _ ⟨rfl, -, -⟩
      exact Post.pure hs1 rfl
    · exact Post.pure hs1 rfl
  rintro isEnd s2 hs2 rfl
  split
  · refine Post.bind (consumeWord_post [cQuest, cGT] (by decide) _ hs2) ?_
    rintro _ s3 hs3 rfl
    exact Post.pure hs3 (by simp only [Fwd]; omega)
  · refine Post.bind (peek_post hs2) ?_
    rintro c s' _ ⟨rfl, hc, hnz⟩
    split
    · exact Post.pure hs2 (by simp only [Fwd]; omega)
    · next hw =>
      have hw' : isWhite c = true := by simpa using hw
      refine Post.bind (adv_post (hnz (isWhite_ne_zero hw'))) ?_
      rintro _ s3 hs3 rfl
      simp only [List.length_cons, List.length_nil] at hs3
      refine Post.bind (skipWhites_post b f _ hs3 (by omega)) ?_
      intro _ s4 hs4 h34
      simp only [Fwd, List.length_cons, List.length_nil] at h34
      refine Post.bind (headerPropLoop_post b ps hps f _ hs4 (by omega)) ?_
      intro _ s5 hs5 h45
      refine Post.bind (consumeWord_post [cQuest, cGT] (by decide) _ hs5) ?_
      rintro _ s6 hs6 rfl
      exact Post.pure hs6 (by simp only [Fwd] at *; omega)

theorem topLoop_post (b : Array UInt8) (ps : Nat → XmlM Bytes) (hps : PsOK b ps) (f : Nat) :
    ∀ s acc, s ≤ b.size → b.size - s + 2 ≤ f → Post b (topLoop ps f acc b s) (Fwd s) := by
  induction f with
  | zero => intro s acc h1 h2; omega
  | succ f ih =>
    intro s acc h1 h2
    unfold topLoop
    refine Post.bind (peek_post h1) ?_
    rintro c s' _ ⟨rfl, hc, hnz⟩
    split
    · next hc0 =>
      have hlt := hnz (by simpa using hc0)
      refine Post.bind (skipComment_post b f s h1 (by omega)) ?_
      rintro r s1 hs1 ⟨h01, h01'⟩
      cases r with
      | true =>
        have := h01' rfl
        simp only [if_true]
        refine Post.bind (skipWhites_post b f _ hs1 (by omega)) ?_
        intro _ s2 hs2 h12
        simp only [Fwd] at h12
        exact (ih _ _ hs2 (by omega)).mono (fun _ s'' _ h => by simp only [Fwd] at *; omega)
      | false =>
        simp only [Bool.false_eq_true, if_false]
        refine Post.bind (parseNodeWith_post b ps hps f _ hs1 (by omega)) ?_
        intro nd s2 hs2 h12
        refine Post.bind (skipWhites_post b f _ hs2 (by omega)) ?_
        intro _ s3 hs3 h23
        simp only [Fwd] at h23
        exact (ih _ _ hs3 (by omega)).mono (fun _ s'' _ h => by simp only [Fwd] at *; omega)
    · exact Post.pure h1 (Nat.le_refl _)

theorem parseXMLWith_post (b : Array UInt8) (ps : Nat → XmlM Bytes) (hps : PsOK b ps) :
    Post b (parseXMLWith ps (b.size + 2) b 0) (fun _ _ => True) := by
  unfold parseXMLWith
  have h0 : (0 : Nat) ≤ b.size := Nat.zero_le _
  refine Post.bind (peekAt_post (k := 0) (by omega)) ?_
  rintro c0 s' _ ⟨rfl, hc0, hnz0⟩
  refine Post.bind (?_ : Post b _ (fun _ s' => s' = 0)) ?_
  · split
    · next h0' =>
      have hne0 : c0 ≠ 0 := by
        have : c0 = cLT := by simpa using h0'
        rw [this]; decide
      refine Post.bind (peekAt_post (k := 1) (by have := hnz0 hne0; omega)) ?_
      rintro c1 s' _ ⟨rfl, -, -⟩
      exact Post.pure h0 rfl
    · exact Post.pure h0 rfl
  rintro hdr s1 _ rfl
  refine Post.bind (?_ : Post b _ (fun _ _ => True)) ?_
  · split
    · exact (parseHeaderWith_post b ps hps _ 0 h0 (by omega)).mono (fun _ _ _ _ => trivial)
    · exact Post.pure h0 trivial
  intro hok s2 hs2 _
  split
  · exact Post.fail
  · refine Post.bind (skipWhites_post b _ _ hs2 (by omega)) ?_
    intro _ s3 hs3 _
    refine Post.bind (topLoop_post b ps hps _ _ _ hs3 (by omega)) ?_
    intro doc s4 hs4 _
    refine Post.bind (peek_post hs4) ?_
    rintro c s' _ ⟨rfl, -, -⟩
    split
    · exact Post.fail
    · exact Post.pure hs4 trivial

/-- the fixed reader, on every byte string: a document or `runtimeError`. -/
theorem readXML_cases (b : Array UInt8) :
    (∃ doc, readXML b = .ok doc) ∨ readXML b = .error .runtimeError := by
  have h := parseXMLWith_post b parseString (parseString_ok b)
  unfold readXML
  unfold Post at h
  split at h
  · next a s' heq => left; rw [heq]; exact ⟨a, rfl⟩
  · next e heq => right; rw [heq, h]

end RkVerif.C16
