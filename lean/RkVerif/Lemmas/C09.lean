/-
Helper lemmas for C09 (Optional part): the per-wrapper invariant `OptOk`/`Inv`, its preservation
by every operation (`step_inv`), the abstraction `abs` to `Option`, the value-level reference
semantics `Ref.step`, the commutation `step_abs`, the frame lemma, end-of-history destruction, and
the layout arithmetic.  The proofs evaluate each member function on the three shapes a well-formed
slot can have (no object / empty / engaged) for `this` and `other`, including `this == other`.
-/
import RkVerif.Model.C09
set_option linter.unusedSectionVars false
namespace RkVerif.C09

@[simp] theorem upd_same {α : Type} (f : Nat → α) (i : Nat) (a : α) : upd f i a i = a := by simp [upd]
theorem upd_other {α : Type} (f : Nat → α) (i k : Nat) (a : α) (h : k ≠ i) : upd f i a k = f k := by simp [upd, h]

/-- a wrapper object is well formed: the flag says exactly whether the storage holds an object -/
def OptOk (σ : World) (i : Nat) : Prop :=
  match σ.w i with
  | none => σ.born i = σ.died i
  | some o => o.hasValue = o.storage.isLive ∧ σ.born i = σ.died i + (if o.storage.isLive then 1 else 0)

def Inv (σ : World) : Prop := σ.errs = [] ∧ ∀ i, OptOk σ i

/-- the three shapes a well-formed slot can have -/
theorem optOk_cases {σ : World} {i : Nat} (h : OptOk σ i) :
    (σ.w i = none ∧ σ.born i = σ.died i) ∨
    (σ.w i = some ⟨false, .raw⟩ ∧ σ.born i = σ.died i) ∨
    (∃ x, σ.w i = some ⟨true, .live x⟩ ∧ σ.born i = σ.died i + 1) := by
  unfold OptOk at h
  split at h
  · left; exact ⟨‹_›, h⟩
  · rename_i o ho
    obtain ⟨hv, st⟩ := o
    cases st with
    | raw => right; left; simp_all [Slot.isLive]
    | live x => right; right; exact ⟨x, by simp_all [Slot.isLive]⟩


/-! ## Abstraction to `Option` and the reference semantics -/

/-- what a wrapper object holds, as the property sees it -/
def absOpt (o : Opt) : Option Val :=
  if o.hasValue then (match o.storage with | .live x => some x | .raw => some .unspec) else none

/-- abstract state: per slot, no object / empty / engaged with a value -/
abbrev Ref := Nat → Option (Option Val)

def abs (σ : World) (i : Nat) : Option (Option Val) := (σ.w i).map absOpt

/-- the value of a wrapper that was passed as an rvalue is unspecified afterwards -/
def fg (a : Option (Option Val)) : Option (Option Val) := a.map (Option.map fun _ => Val.unspec)

/-- Reference semantics: what each operation means for value types (`std::optional` semantics). -/
def Ref.step (r : Ref) : Op → Ref
  | .ctorDefault i => upd r i (some none)
  | .ctorValue i x => upd r i (some (some (.v x)))
  | .makeOptional i x => upd r i (some (some (.v x)))
  | .ctorCopy i j => if i ≠ j ∧ (r j).isSome then upd r i (r j) else r
  | .ctorMove i j => if i ≠ j ∧ (r j).isSome then upd (upd r i (r j)) j (fg (r j)) else r
  | .dtor i => upd r i none
  | .assignValue i x => if (r i).isSome then upd r i (some (some (.v x))) else r
  | .emplace i x => if (r i).isSome then upd r i (some (some (.v x))) else r
  | .reset i => if (r i).isSome then upd r i (some none) else r
  | .copyAssign i j => if (r i).isSome ∧ (r j).isSome then upd r i (r j) else r
  | .moveAssign i j => if (r i).isSome ∧ (r j).isSome ∧ i ≠ j then upd (upd r i (r j)) j (fg (r j)) else r
  | .convMoveAssign i j => if (r i).isSome ∧ (r j).isSome ∧ i ≠ j then upd (upd r i (r j)) j (fg (r j)) else r

def Ref.runR : List Op → Ref
  | [] => fun _ => none
  | op :: earlier => (Ref.runR earlier).step op

macro "c09_eval" : tactic => `(tactic|
  simp (config := { decide := true }) [step, clear, present, dtor, vanish, reset, emplace, dcsin, assignValue, ctorValue, ctorCopy, ctorMove,
    copyAssign, moveAssign, create, forget, hasV, setHV, pConstruct, pDestroy, pAssign, pRead, pMoveFrom,
    World.err, Slot.isLive, Val.dflt, upd, OptOk, abs, absOpt, fg, Ref.step, *])

/-- closes `Inv (step σ op)`-style goals once the shapes of the slots involved are in the context -/
macro "c09_inv2" hw:ident i:ident j:ident : tactic => `(tactic|
  (refine ⟨?_, fun k => ?_⟩
   · c09_eval
   · by_cases hki : k = $i
     · subst hki; c09_eval
     · by_cases hkj : k = $j
       · subst hkj; c09_eval
       · have hk := $hw k
         revert hk; c09_eval))


macro "c09_shapes1" hw:ident i:ident : tactic => `(tactic|
  (rcases optOk_cases ($hw $i) with ⟨h1, h2⟩ | ⟨h1, h2⟩ | ⟨x, h1, h2⟩))

/-- Every operation keeps all wrappers well formed and records no lifetime error. -/
theorem step_inv {σ : World} (op : Op) (h : Inv σ) : Inv (step σ op) := by
  obtain ⟨he, hw⟩ := h
  cases op with
  | ctorDefault i => c09_shapes1 hw i <;> c09_inv2 hw i i
  | ctorValue i x => c09_shapes1 hw i <;> c09_inv2 hw i i
  | makeOptional i x => c09_shapes1 hw i <;> c09_inv2 hw i i
  | dtor i => c09_shapes1 hw i <;> c09_inv2 hw i i
  | assignValue i x => c09_shapes1 hw i <;> c09_inv2 hw i i
  | emplace i x => c09_shapes1 hw i <;> c09_inv2 hw i i
  | reset i => c09_shapes1 hw i <;> c09_inv2 hw i i
  | ctorCopy i j =>
    by_cases hij : i = j
    · subst hij; exact ⟨by simp [step, he], fun k => by simpa [step] using hw k⟩
    · have hji : ¬ j = i := fun h => hij h.symm
      rcases optOk_cases (hw i) with ⟨h1, h2⟩ | ⟨h1, h2⟩ | ⟨x, h1, h2⟩ <;>
      rcases optOk_cases (hw j) with ⟨g1, g2⟩ | ⟨g1, g2⟩ | ⟨y, g1, g2⟩ <;> c09_inv2 hw i j
  | ctorMove i j =>
    by_cases hij : i = j
    · subst hij; exact ⟨by simp [step, he], fun k => by simpa [step] using hw k⟩
    · have hji : ¬ j = i := fun h => hij h.symm
      rcases optOk_cases (hw i) with ⟨h1, h2⟩ | ⟨h1, h2⟩ | ⟨x, h1, h2⟩ <;>
      rcases optOk_cases (hw j) with ⟨g1, g2⟩ | ⟨g1, g2⟩ | ⟨y, g1, g2⟩ <;> c09_inv2 hw i j
  | copyAssign i j =>
    by_cases hij : i = j
    · subst hij
      c09_shapes1 hw i <;> c09_inv2 hw i i
    · have hji : ¬ j = i := fun h => hij h.symm
      rcases optOk_cases (hw i) with ⟨h1, h2⟩ | ⟨h1, h2⟩ | ⟨x, h1, h2⟩ <;>
      rcases optOk_cases (hw j) with ⟨g1, g2⟩ | ⟨g1, g2⟩ | ⟨y, g1, g2⟩ <;> c09_inv2 hw i j
  | moveAssign i j =>
    by_cases hij : i = j
    · subst hij; exact ⟨by simp [step, he], fun k => by simpa [step] using hw k⟩
    · have hji : ¬ j = i := fun h => hij h.symm
      rcases optOk_cases (hw i) with ⟨h1, h2⟩ | ⟨h1, h2⟩ | ⟨x, h1, h2⟩ <;>
      rcases optOk_cases (hw j) with ⟨g1, g2⟩ | ⟨g1, g2⟩ | ⟨y, g1, g2⟩ <;> c09_inv2 hw i j
  | convMoveAssign i j =>
    by_cases hij : i = j
    · subst hij; exact ⟨by simp [step, he], fun k => by simpa [step] using hw k⟩
    · have hji : ¬ j = i := fun h => hij h.symm
      rcases optOk_cases (hw i) with ⟨h1, h2⟩ | ⟨h1, h2⟩ | ⟨x, h1, h2⟩ <;>
      rcases optOk_cases (hw j) with ⟨g1, g2⟩ | ⟨g1, g2⟩ | ⟨y, g1, g2⟩ <;> c09_inv2 hw i j

theorem inv_init : Inv ({} : World) := ⟨rfl, fun _ => by simp [OptOk]⟩

theorem inv_runR (hist : List Op) : Inv (runR hist) := by
  induction hist with
  | nil => exact inv_init
  | cons op earlier ih => exact step_inv op ih


macro "c09_abs2" i:ident j:ident : tactic => `(tactic|
  (funext k
   by_cases hki : k = $i
   · subst hki; c09_eval
   · by_cases hkj : k = $j
     · subst hkj; c09_eval
     · c09_eval))

theorem step_abs {σ : World} (op : Op) (h : Inv σ) : abs (step σ op) = Ref.step (abs σ) op := by
  obtain ⟨he, hw⟩ := h
  cases op with
  | ctorDefault i => c09_shapes1 hw i <;> c09_abs2 i i
  | ctorValue i x => c09_shapes1 hw i <;> c09_abs2 i i
  | makeOptional i x => c09_shapes1 hw i <;> c09_abs2 i i
  | dtor i => c09_shapes1 hw i <;> c09_abs2 i i
  | assignValue i x => c09_shapes1 hw i <;> c09_abs2 i i
  | emplace i x => c09_shapes1 hw i <;> c09_abs2 i i
  | reset i => c09_shapes1 hw i <;> c09_abs2 i i
  | ctorCopy i j =>
    by_cases hij : i = j
    · subst hij; simp [step, Ref.step]
    · have hji : ¬ j = i := fun h => hij h.symm
      rcases optOk_cases (hw i) with ⟨h1, h2⟩ | ⟨h1, h2⟩ | ⟨x, h1, h2⟩ <;>
      rcases optOk_cases (hw j) with ⟨g1, g2⟩ | ⟨g1, g2⟩ | ⟨y, g1, g2⟩ <;> c09_abs2 i j
  | ctorMove i j =>
    by_cases hij : i = j
    · subst hij; simp [step, Ref.step]
    · have hji : ¬ j = i := fun h => hij h.symm
      rcases optOk_cases (hw i) with ⟨h1, h2⟩ | ⟨h1, h2⟩ | ⟨x, h1, h2⟩ <;>
      rcases optOk_cases (hw j) with ⟨g1, g2⟩ | ⟨g1, g2⟩ | ⟨y, g1, g2⟩ <;> c09_abs2 i j
  | copyAssign i j =>
    by_cases hij : i = j
    · subst hij
      c09_shapes1 hw i <;> c09_abs2 i i
    · have hji : ¬ j = i := fun h => hij h.symm
      rcases optOk_cases (hw i) with ⟨h1, h2⟩ | ⟨h1, h2⟩ | ⟨x, h1, h2⟩ <;>
      rcases optOk_cases (hw j) with ⟨g1, g2⟩ | ⟨g1, g2⟩ | ⟨y, g1, g2⟩ <;> c09_abs2 i j
  | moveAssign i j =>
    by_cases hij : i = j
    · subst hij; simp [step, Ref.step]
    · have hji : ¬ j = i := fun h => hij h.symm
      rcases optOk_cases (hw i) with ⟨h1, h2⟩ | ⟨h1, h2⟩ | ⟨x, h1, h2⟩ <;>
      rcases optOk_cases (hw j) with ⟨g1, g2⟩ | ⟨g1, g2⟩ | ⟨y, g1, g2⟩ <;> c09_abs2 i j
  | convMoveAssign i j =>
    by_cases hij : i = j
    · subst hij; simp [step, Ref.step]
    · have hji : ¬ j = i := fun h => hij h.symm
      rcases optOk_cases (hw i) with ⟨h1, h2⟩ | ⟨h1, h2⟩ | ⟨x, h1, h2⟩ <;>
      rcases optOk_cases (hw j) with ⟨g1, g2⟩ | ⟨g1, g2⟩ | ⟨y, g1, g2⟩ <;> c09_abs2 i j



/-- the slots an operation may change: `this`, plus the source of a move -/
def Op.writes : Op → List Nat
  | .ctorMove i j | .moveAssign i j | .convMoveAssign i j => [i, j]
  | .ctorDefault i | .ctorValue i _ | .makeOptional i _ | .dtor i | .assignValue i _
  | .emplace i _ | .reset i | .ctorCopy i _ | .copyAssign i _ => [i]

theorem step_frame {σ : World} (h : Inv σ) (op : Op) (k : Nat) (hk : k ∉ op.writes) :
    abs (step σ op) k = abs σ k := by
  rw [step_abs op h]
  cases op <;> simp [Op.writes] at hk <;> simp [Ref.step, upd, hk] <;> split <;> simp [upd, hk]

theorem untouched_absent (hist : List Op) (k : Nat) (hk : k ∉ touched hist) : (runR hist).w k = none := by
  have : abs (runR hist) k = none := by
    induction hist with
    | nil => simp [abs, runR]
    | cons op earlier ih =>
      simp only [touched, List.mem_append, not_or] at hk
      have hw : k ∉ op.writes := by
        intro h; apply hk.1
        cases op <;> simp [Op.writes, Op.slots] at h ⊢ <;> simp [h]
      have := step_frame (inv_runR earlier) op k hw
      simp only [runR]; rw [this]; exact ih hk.2
  simpa [abs] using this

theorem destroyAll_spec (σ : World) (is : List Nat) (h : Inv σ) :
    Inv (destroyAll σ is) ∧ ∀ k, (k ∈ is ∨ σ.w k = none) → (destroyAll σ is).w k = none := by
  induction is generalizing σ with
  | nil => exact ⟨h, fun k hk => by simpa [destroyAll] using hk⟩
  | cons i rest ih =>
    have hd : Inv (dtor σ i) := step_inv (.dtor i) h
    obtain ⟨h1, h2⟩ := ih (dtor σ i) hd
    refine ⟨h1, fun k hk => h2 k ?_⟩
    have habs := step_abs (.dtor i) h
    have hk' : abs (dtor σ i) k = Ref.step (abs σ) (.dtor i) k := congrFun habs k
    by_cases hki : k = i
    · right; subst hki; simpa [abs, Ref.step] using hk'
    · rcases hk with hk | hk
      · rcases List.mem_cons.mp hk with hk | hk
        · exact absurd hk hki
        · left; exact hk
      · right; simpa [abs, Ref.step, upd, hki, hk] using hk'


/-! ## Layout arithmetic -/

theorem roundUp_dvd (n a : Nat) : a ∣ roundUp n a := ⟨(n + a - 1) / a, by simp [roundUp, Nat.mul_comm]⟩

theorem offsetAfter_dvd (cur : Nat) (before : List Field) (f : Field) :
    f.align ∣ offsetAfter cur before f := by
  induction before generalizing cur with
  | nil => exact roundUp_dvd _ _
  | cons g gs ih => exact ih _

theorem structAlignExp_ge (before after : List Field) (f : Field) :
    f.alignExp ≤ structAlignExp (before ++ f :: after) := by
  induction before with
  | nil => simp [structAlignExp]; omega
  | cons g gs ih => simp [structAlignExp]; omega


end RkVerif.C09
