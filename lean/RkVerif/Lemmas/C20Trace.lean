/-
Helper lemmas for C20 (trace recorder): the emitted character stream as a list of objects,
well-formedness of every object, the token automaton on every object, recording.
-/
import RkVerif.Model.C20
set_option linter.unusedSimpArgs false
namespace RkVerif.C20

open Tok

/-! ## the emitted stream as a list of objects, each followed by a comma -/

def withCommas (objs : List (List Tok)) : List Tok := objs.flatMap (· ++ [comma])

theorem withCommas_append (a b : List (List Tok)) : withCommas (a ++ b) = withCommas a ++ withCommas b := by
  simp [withCommas]

def metaObj (pid tid : Nat) (what name : String) : List Tok :=
  [lbrace, str "ph", colon, str "M", comma, str "pid", colon, num pid, comma, str "tid", colon, num tid, comma,
   str "name", colon, str what, comma, str "args", colon, lbrace, str "name", colon, str name, rbrace, rbrace]

def builtinObj (pid tid : Nat) (b : TEvent) : List Tok :=
  [lbrace, str "ph", colon, str "C", comma, str "pid", colon, num pid, comma, str "tid", colon, num tid, comma,
   str "ts", colon, num (b.time / 1000), comma, str "name", colon, str "cpuUtilization", comma,
   str "cat", colon, str "builtin", comma, str "args", colon, lbrace, str "value", colon, flt, rbrace, rbrace]

def evArgs (e : TEvent) : List Tok :=
  match e.ty with
  | .end_ => [comma, str "args", colon, lbrace, str "cpuUtilization", colon, flt, rbrace]
  | .counter => [comma, str "args", colon, lbrace, str "value", colon, num e.value, rbrace]
  | _ => []

def evObj (pid tid : Nat) (e : TEvent) : List Tok := evHead pid tid e ++ evCat e ++ evArgs e ++ [rbrace]

/-- the objects written for one event (given the begin stack after the push) -/
def objsOne (pid tid : Nat) (stack : List TEvent) (e : TEvent) : List (List Tok) :=
  match e.ty, stack with
  | .end_, b :: _ => evObj pid tid e :: (if (e.time - b.time) / 1000 > 100 then [builtinObj pid tid b] else [])
  | .end_, [] => []
  | _, _ => [evObj pid tid e]

theorem metaTokens_eq (pid tid : Nat) (what name : String) :
    metaTokens pid tid what name = withCommas [metaObj pid tid what name] := by
  simp [metaTokens, withCommas, metaObj]

theorem emitOne_eq (pid tid : Nat) (stack : List TEvent) (e : TEvent) :
    (emitOne pid tid stack e).1 = withCommas (objsOne pid tid stack e) := by
  unfold emitOne objsOne
  cases hty : e.ty <;> cases stack <;>
    simp [withCommas, evObj, evArgs, hty, builtinTokens, builtinObj]
  split <;> simp [builtinTokens, builtinObj]

/-- stack after one event of the loop body -/
def stackAfter (stack : List TEvent) (e : TEvent) : List TEvent :=
  match e.ty with
  | .begin => e :: stack
  | .end_ => stack.tail
  | _ => stack

theorem emitOne_stack (pid tid : Nat) (stack : List TEvent) (e : TEvent) :
    (emitOne pid tid (if e.ty = .begin then e :: stack else stack) e).2 = stackAfter stack e := by
  unfold emitOne stackAfter
  cases hty : e.ty <;> simp
  cases stack <;> simp

def objsChunk (pid tid : Nat) (stack : List TEvent) : List TEvent → List (List Tok)
  | [] => []
  | e :: rest =>
    if e.ty = .end_ ∧ stack = [] then []
    else objsOne pid tid (if e.ty = .begin then e :: stack else stack) e ++ objsChunk pid tid (stackAfter stack e) rest

def stackChunk (stack : List TEvent) : List TEvent → List TEvent
  | [] => stack
  | e :: rest => if e.ty = .end_ ∧ stack = [] then stack else stackChunk (stackAfter stack e) rest

theorem emitChunk_eq (pid tid : Nat) (stack : List TEvent) (evs : List TEvent) :
    emitChunk pid tid stack evs = (withCommas (objsChunk pid tid stack evs), stackChunk stack evs) := by
  induction evs generalizing stack with
  | nil => simp [emitChunk, objsChunk, stackChunk, withCommas]
  | cons e rest ih =>
    unfold emitChunk objsChunk stackChunk
    by_cases hb : e.ty = .begin
    · have hne : ¬ (e.ty = .end_) := by rw [hb]; decide
      simp only [hb, if_true, hne, false_and, if_false]
      have := emitOne_stack pid tid stack e
      simp only [hb, if_true] at this
      rw [ih, this, emitOne_eq]
      simp [withCommas_append]
    · simp only [hb, if_false]
      by_cases hbrk : e.ty = .end_ ∧ stack = []
      · simp [hbrk, withCommas]
      · have := emitOne_stack pid tid stack e
        simp only [hb, if_false] at this
        rw [if_neg hbrk, if_neg hbrk, if_neg hbrk, ih, this, emitOne_eq, withCommas_append]



def depthStep (d : Nat) (e : TEvent) : Nat :=
  match e.ty with
  | .begin => d + 1
  | .end_ => d - 1
  | _ => d

/-- no end event finds the begin stack (of depth `d`) empty -/
def wn : Nat → List TEvent → Prop
  | _, [] => True
  | d, e :: rest => ¬ (e.ty = .end_ ∧ d = 0) ∧ wn (depthStep d e) rest

def depthAfter : Nat → List TEvent → Nat
  | d, [] => d
  | d, e :: rest => depthAfter (depthStep d e) rest

theorem length_stackAfter (stack : List TEvent) (e : TEvent) :
    (stackAfter stack e).length = depthStep stack.length e := by
  unfold stackAfter depthStep; cases e.ty <;> simp

theorem wn_append (d : Nat) (a b : List TEvent) : wn d (a ++ b) ↔ wn d a ∧ wn (depthAfter d a) b := by
  induction a generalizing d with
  | nil => simp [wn, depthAfter]
  | cons e a ih => simp [wn, depthAfter, ih, and_assoc]

theorem depthAfter_append (d : Nat) (a b : List TEvent) : depthAfter d (a ++ b) = depthAfter (depthAfter d a) b := by
  induction a generalizing d with
  | nil => rfl
  | cons e a ih => simp [depthAfter, ih]

theorem length_stackChunk (stack : List TEvent) (evs : List TEvent) (h : wn stack.length evs) :
    (stackChunk stack evs).length = depthAfter stack.length evs := by
  induction evs generalizing stack with
  | nil => rfl
  | cons e rest ih =>
    obtain ⟨h1, h2⟩ := h
    have h1' : ¬ (e.ty = .end_ ∧ stack = []) := by
      intro ⟨a, b⟩; exact h1 ⟨a, by simp [b]⟩
    rw [stackChunk, if_neg h1', depthAfter, ← length_stackAfter]
    exact ih _ (by rw [length_stackAfter]; exact h2)

theorem objsChunk_append (pid tid : Nat) (stack : List TEvent) (a b : List TEvent) (h : wn stack.length a) :
    objsChunk pid tid stack (a ++ b) = objsChunk pid tid stack a ++ objsChunk pid tid (stackChunk stack a) b ∧
    stackChunk stack (a ++ b) = stackChunk (stackChunk stack a) b := by
  induction a generalizing stack with
  | nil => simp [objsChunk, stackChunk]
  | cons e a ih =>
    obtain ⟨h1, h2⟩ := h
    have h1' : ¬ (e.ty = .end_ ∧ stack = []) := by
      intro ⟨x, y⟩; exact h1 ⟨x, by simp [y]⟩
    have := ih (stackAfter stack e) (by rw [length_stackAfter]; exact h2)
    simp only [List.cons_append, objsChunk, stackChunk, if_neg h1', this.1, this.2, List.append_assoc, and_self]

def objsChunks (pid tid : Nat) (stack : List TEvent) : List (List TEvent) → List (List Tok)
  | [] => []
  | c :: cs => objsChunk pid tid stack c ++ objsChunks pid tid (stackChunk stack c) cs

def stackChunks (stack : List TEvent) : List (List TEvent) → List TEvent
  | [] => stack
  | c :: cs => stackChunks (stackChunk stack c) cs

theorem emitChunks_eq (pid tid : Nat) (stack : List TEvent) (chunks : List (List TEvent)) :
    emitChunks pid tid stack chunks = (withCommas (objsChunks pid tid stack chunks), stackChunks stack chunks) := by
  induction chunks generalizing stack with
  | nil => simp [emitChunks, objsChunks, stackChunks, withCommas]
  | cons c cs ih => simp [emitChunks, objsChunks, stackChunks, emitChunk_eq, ih, withCommas_append]

/-- without a `break` the chunk structure is invisible -/
theorem objsChunks_flatten (pid tid : Nat) (stack : List TEvent) (chunks : List (List TEvent))
    (h : wn stack.length chunks.flatten) :
    objsChunks pid tid stack chunks = objsChunk pid tid stack chunks.flatten ∧
    stackChunks stack chunks = stackChunk stack chunks.flatten := by
  induction chunks generalizing stack with
  | nil => simp [objsChunks, objsChunk, stackChunks, stackChunk]
  | cons c cs ih =>
    rw [List.flatten_cons, wn_append] at h
    have hs := length_stackChunk stack c h.1
    have := ih (stackChunk stack c) (by rw [hs]; exact h.2)
    have ha := objsChunk_append pid tid stack c cs.flatten h.1
    simp only [objsChunks, stackChunks, List.flatten_cons, this.1, this.2, ha.1, ha.2, and_self]

def objsThread (pid tid : Nat) (idText : String) (l : ThreadLog) : List (List Tok) :=
  metaObj pid tid "thread_name" (if l.threadName ≠ "" then l.threadName else idText) :: objsChunks pid tid [] l.chunks

def objsThreads (pid : Nat) (idText : Nat → String) : Nat → List (Nat × ThreadLog) → List (List Tok)
  | _, [] => []
  | nextTid, (t, l) :: rest => objsThread pid nextTid (idText t) l ++ objsThreads pid idText (nextTid + 1) rest

def procObjs (pid : Nat) : Option String → List (List Tok)
  | some p => [metaObj pid 0 "process_name" p]
  | none => []

theorem emitThreads_eq (pid : Nat) (idText : Nat → String) (n : Nat) (ths : List (Nat × ThreadLog)) :
    emitThreads pid idText n ths = withCommas (objsThreads pid idText n ths) := by
  induction ths generalizing n with
  | nil => simp [emitThreads, objsThreads, withCommas]
  | cons th rest ih =>
    obtain ⟨t, l⟩ := th
    simp only [emitThreads, objsThreads, emitThread, emitChunks_eq, ih, withCommas_append, objsThread, metaTokens_eq]
    simp [withCommas]

theorem saveLogBody_eq (pid : Nat) (proc : Option String) (idText : Nat → String) (ths : List (Nat × ThreadLog)) :
    saveLogBody pid proc idText ths = lbrack :: withCommas (procObjs pid proc ++ objsThreads pid idText 0 ths) := by
  unfold saveLogBody
  rw [emitThreads_eq, withCommas_append]
  cases proc <;> simp [procObjs, metaTokens_eq, withCommas]



/-! ## the closing step -/

def sepBy : List (List Tok) → List Tok
  | [] => []
  | [o] => o
  | o :: o' :: os => o ++ comma :: sepBy (o' :: os)

theorem withCommas_cons_eq (o : List Tok) (os : List (List Tok)) :
    withCommas (o :: os) = sepBy (o :: os) ++ [comma] := by
  induction os generalizing o with
  | nil => simp [withCommas, sepBy]
  | cons o' os ih =>
    have := ih o'
    simp only [withCommas, List.flatMap_cons] at this ⊢
    rw [this]; simp [sepBy]

theorem finish_eq (objs : List (List Tok)) :
    finish (lbrack :: withCommas objs) = lbrack :: sepBy objs ++ [rbrack] := by
  cases objs with
  | nil => simp [finish, withCommas, sepBy]
  | cons o os =>
    rw [withCommas_cons_eq]
    have hlen : (lbrack :: (sepBy (o :: os) ++ [comma])).length > 1 := by simp
    rw [finish, if_pos hlen, overwriteLast]
    have : (lbrack :: (sepBy (o :: os) ++ [comma])) = (lbrack :: sepBy (o :: os)) ++ [comma] := by simp
    rw [this, List.getLast?_concat, List.dropLast_concat]
    simp [isPunct]

theorem finishOld_eq (o : List Tok) (os : List (List Tok)) :
    finishOld (lbrack :: withCommas (o :: os)) = lbrack :: sepBy (o :: os) ++ [rbrack] := by
  rw [withCommas_cons_eq, finishOld, overwriteLast]
  have : (lbrack :: (sepBy (o :: os) ++ [comma])) = (lbrack :: sepBy (o :: os)) ++ [comma] := by simp
  rw [this, List.getLast?_concat, List.dropLast_concat]
  simp [isPunct]

/-! ## well-formedness of the pieces -/

theorem JElems_sepBy (o : List Tok) (os : List (List Tok)) (h : ∀ x ∈ o :: os, JVal x) : JElems (sepBy (o :: os)) := by
  induction os generalizing o with
  | nil => exact JElems.one (h o (by simp))
  | cons o' os ih =>
    rw [sepBy]
    exact JElems.cons (h o (by simp)) (ih o' (fun x hx => h x (by simp at hx ⊢; right; exact hx)))

theorem JArr_of_objs (objs : List (List Tok)) (h : ∀ x ∈ objs, JVal x) : JArr (lbrack :: sepBy objs ++ [rbrack]) := by
  cases objs with
  | nil => exact JArr.empty
  | cons o os => exact JArr.mk (JElems_sepBy o os h)

def render : List (String × List Tok) → List Tok
  | [] => []
  | [(k, v)] => str k :: colon :: v
  | (k, v) :: m :: rest => str k :: colon :: v ++ comma :: render (m :: rest)

theorem JMembers_render (m : String × List Tok) (ms : List (String × List Tok)) (h : ∀ x ∈ m :: ms, JVal x.2) :
    JMembers (render (m :: ms)) := by
  induction ms generalizing m with
  | nil => exact JMembers.one m.1 (h m (by simp))
  | cons m' ms ih =>
    rw [render]
    exact JMembers.cons m.1 (h m (by simp)) (ih m' (fun x hx => h x (by simp at hx ⊢; right; exact hx)))

theorem JVal_obj (m : String × List Tok) (ms : List (String × List Tok)) (h : ∀ x ∈ m :: ms, JVal x.2) :
    JVal (lbrace :: render (m :: ms) ++ [rbrace]) :=
  JVal.obj (JObj.mk (JMembers_render m ms h))

theorem JVal_obj' (ms : List (String × List Tok)) (hne : ms ≠ []) (h : ∀ x ∈ ms, JVal x.2) :
    JVal (lbrace :: render ms ++ [rbrace]) := by
  cases ms with
  | nil => exact absurd rfl hne
  | cons m ms => exact JVal_obj m ms h

theorem JVal_metaObj (pid tid : Nat) (what name : String) : JVal (metaObj pid tid what name) := by
  have inner : JVal (lbrace :: render [("name", [str name])] ++ [rbrace]) :=
    JVal_obj _ _ (by intro x hx; simp at hx; subst hx; exact JVal.str _)
  have := JVal_obj ("ph", [str "M"]) [("pid", [num pid]), ("tid", [num tid]), ("name", [str what]),
    ("args", lbrace :: render [("name", [str name])] ++ [rbrace])]
    (by intro x hx; simp at hx; rcases hx with rfl | rfl | rfl | rfl | rfl <;>
          first | exact JVal.str _ | exact JVal.num _ | exact inner)
  simpa [render, metaObj] using this

theorem JVal_builtinObj (pid tid : Nat) (b : TEvent) : JVal (builtinObj pid tid b) := by
  have inner : JVal (lbrace :: render [("value", [flt])] ++ [rbrace]) :=
    JVal_obj _ _ (by intro x hx; simp at hx; subst hx; exact JVal.flt)
  have := JVal_obj ("ph", [str "C"]) [("pid", [num pid]), ("tid", [num tid]), ("ts", [num (b.time / 1000)]),
    ("name", [str "cpuUtilization"]), ("cat", [str "builtin"]),
    ("args", lbrace :: render [("value", [flt])] ++ [rbrace])]
    (by intro x hx; simp at hx; rcases hx with rfl | rfl | rfl | rfl | rfl | rfl | rfl <;>
          first | exact JVal.str _ | exact JVal.num _ | exact inner)
  simpa [render, builtinObj] using this

def catFields (e : TEvent) : List (String × List Tok) :=
  match e.cat with
  | some c => if e.ty ≠ .end_ then [("cat", [str c])] else []
  | none => []

def argFields (e : TEvent) : List (String × List Tok) :=
  match e.ty with
  | .end_ => [("args", lbrace :: render [("cpuUtilization", [flt])] ++ [rbrace])]
  | .counter => [("args", lbrace :: render [("value", [num e.value])] ++ [rbrace])]
  | _ => []

theorem evObj_render (pid tid : Nat) (e : TEvent) :
    evObj pid tid e = lbrace :: render ([("ph", [str (phOf e.ty)]), ("pid", [num pid]), ("tid", [num tid]),
      ("ts", [num (e.time / 1000)]), ("name", [str (e.name.getD "")])] ++ catFields e ++ argFields e) ++ [rbrace] := by
  unfold evObj evHead evCat evArgs catFields argFields
  cases e.ty <;> cases e.cat <;> simp [render]

theorem JVal_evObj (pid tid : Nat) (e : TEvent) : JVal (evObj pid tid e) := by
  rw [evObj_render]
  apply JVal_obj' _ (by simp)
  intro x hx
  rw [List.append_assoc, List.mem_append] at hx
  rcases hx with hx | hx
  · simp only [List.mem_cons, List.not_mem_nil, or_false] at hx
    rcases hx with rfl | rfl | rfl | rfl | rfl <;> first | exact JVal.str _ | exact JVal.num _
  rw [List.mem_append] at hx
  rcases hx with hx | hx
  · unfold catFields at hx
    split at hx
    · split at hx
      · simp at hx; subst hx; exact JVal.str _
      · simp at hx
    · simp at hx
  · unfold argFields at hx
    split at hx
    · simp at hx; subst hx
      exact JVal_obj _ _ (by intro x hx; simp at hx; subst hx; exact JVal.flt)
    · simp at hx; subst hx
      exact JVal_obj _ _ (by intro x hx; simp at hx; subst hx; exact JVal.num _)
    · simp at hx

theorem JVal_objsOne (pid tid : Nat) (stack : List TEvent) (e : TEvent) : ∀ o ∈ objsOne pid tid stack e, JVal o := by
  intro o ho
  unfold objsOne at ho
  split at ho
  · simp at ho
    rcases ho with rfl | ho
    · exact JVal_evObj ..
    · obtain ⟨_, rfl⟩ := ho; exact JVal_builtinObj ..
  · simp at ho
  · simp at ho; subst ho; exact JVal_evObj ..

theorem JVal_objsChunk (pid tid : Nat) (stack : List TEvent) (evs : List TEvent) :
    ∀ o ∈ objsChunk pid tid stack evs, JVal o := by
  induction evs generalizing stack with
  | nil => simp [objsChunk]
  | cons e rest ih =>
    intro o ho
    rw [objsChunk] at ho
    split at ho
    · simp at ho
    · rw [List.mem_append] at ho
      rcases ho with ho | ho
      · exact JVal_objsOne _ _ _ _ o ho
      · exact ih _ o ho

theorem JVal_objsChunks (pid tid : Nat) (stack : List TEvent) (chunks : List (List TEvent)) :
    ∀ o ∈ objsChunks pid tid stack chunks, JVal o := by
  induction chunks generalizing stack with
  | nil => simp [objsChunks]
  | cons c cs ih =>
    intro o ho
    rw [objsChunks, List.mem_append] at ho
    rcases ho with ho | ho
    · exact JVal_objsChunk _ _ _ _ o ho
    · exact ih _ o ho

theorem JVal_objsThreads (pid : Nat) (idText : Nat → String) (n : Nat) (ths : List (Nat × ThreadLog)) :
    ∀ o ∈ objsThreads pid idText n ths, JVal o := by
  induction ths generalizing n with
  | nil => simp [objsThreads]
  | cons th rest ih =>
    obtain ⟨t, l⟩ := th
    intro o ho
    rw [objsThreads, List.mem_append, objsThread, List.mem_cons] at ho
    rcases ho with (rfl | ho) | ho
    · exact JVal_metaObj ..
    · exact JVal_objsChunks _ _ _ _ o ho
    · exact ih _ o ho

theorem JVal_procObjs (pid : Nat) (proc : Option String) : ∀ o ∈ procObjs pid proc, JVal o := by
  intro o ho
  cases proc with
  | none => simp [procObjs] at ho
  | some p => simp [procObjs] at ho; subst ho; exact JVal_metaObj ..



/-! ## the token automaton on the pieces -/

/-- the automaton reads `o` as one array element with value `v` -/
def Accepts (o : List Tok) (v : Obj) : Prop :=
  ∀ (m : Mode) (acc : List Obj), (m = .first ∨ m = .elem) →
    o.foldl pstep ⟨m, acc, [], ""⟩ = ⟨.afterObj, v :: acc, [], ""⟩

/-- value of a piece as read by the automaton -/
def pOf (o : List Tok) : Obj := ((o.foldl pstep ⟨.elem, [], [], ""⟩).robjs).headD []

theorem pOf_eq {o : List Tok} {v : Obj} (h : Accepts o v) : pOf o = v := by
  simp [pOf, h .elem [] (Or.inr rfl)]

def pMeta (pid tid : Nat) (what name : String) : Obj :=
  [("ph", .s "M"), ("pid", .n pid), ("tid", .n tid), ("name", .s what), ("args.name", .s name)]

def pBuiltin (pid tid : Nat) (b : TEvent) : Obj :=
  [("ph", .s "C"), ("pid", .n pid), ("tid", .n tid), ("ts", .n (b.time / 1000)), ("name", .s "cpuUtilization"),
   ("cat", .s "builtin"), ("args.value", .f)]

def pCat (e : TEvent) : Obj :=
  match e.cat with
  | some c => if e.ty ≠ .end_ then [("cat", .s c)] else []
  | none => []

def pArgs (e : TEvent) : Obj :=
  match e.ty with
  | .end_ => [("args.cpuUtilization", .f)]
  | .counter => [("args.value", .n e.value)]
  | _ => []

def pEv (pid tid : Nat) (e : TEvent) : Obj :=
  [("ph", .s (phOf e.ty)), ("pid", .n pid), ("tid", .n tid), ("ts", .n (e.time / 1000)), ("name", .s (e.name.getD ""))]
    ++ pCat e ++ pArgs e

theorem accepts_metaObj (pid tid : Nat) (what name : String) : Accepts (metaObj pid tid what name) (pMeta pid tid what name) := by
  intro m acc hm
  rcases hm with rfl | rfl <;> simp [metaObj, pMeta, pstep, fullKey]

theorem accepts_builtinObj (pid tid : Nat) (b : TEvent) : Accepts (builtinObj pid tid b) (pBuiltin pid tid b) := by
  intro m acc hm
  rcases hm with rfl | rfl <;> simp [builtinObj, pBuiltin, pstep, fullKey]

theorem accepts_evObj (pid tid : Nat) (e : TEvent) : Accepts (evObj pid tid e) (pEv pid tid e) := by
  intro m acc hm
  unfold evObj evHead evCat evArgs pEv pCat pArgs
  rcases hm with rfl | rfl <;> cases e.ty <;> cases e.cat <;> simp [pstep, fullKey]

theorem run_sepBy (o : List Tok) (os : List (List Tok)) (h : ∀ x ∈ o :: os, ∃ v, Accepts x v)
    (m : Mode) (hm : m = .first ∨ m = .elem) (acc : List Obj) :
    (sepBy (o :: os)).foldl pstep ⟨m, acc, [], ""⟩ = ⟨.afterObj, ((o :: os).map pOf).reverse ++ acc, [], ""⟩ := by
  induction os generalizing o m acc with
  | nil =>
    obtain ⟨v, hv⟩ := h o (by simp)
    simp [sepBy, hv m acc hm, pOf_eq hv]
  | cons o' os ih =>
    obtain ⟨v, hv⟩ := h o (by simp)
    rw [sepBy, List.foldl_append, hv m acc hm, List.foldl_cons]
    have : pstep ⟨.afterObj, v :: acc, [], ""⟩ comma = ⟨.elem, v :: acc, [], ""⟩ := by simp [pstep]
    rw [this, ih o' (fun x hx => h x (by simp at hx ⊢; right; exact hx)) .elem (Or.inr rfl)]
    simp [pOf_eq hv]

theorem parseArray_of_objs (objs : List (List Tok)) (h : ∀ x ∈ objs, ∃ v, Accepts x v) :
    parseArray (lbrack :: sepBy objs ++ [rbrack]) = some (objs.map pOf) := by
  cases objs with
  | nil => simp [parseArray, sepBy, pstep, psInit]
  | cons o os =>
    unfold parseArray
    rw [List.cons_append, List.foldl_cons]
    have h0 : pstep psInit lbrack = ⟨.first, [], [], ""⟩ := by simp [pstep, psInit]
    rw [h0, List.foldl_append, run_sepBy o os h .first (Or.inl rfl)]
    simp [pstep]

theorem accepts_objsOne (pid tid : Nat) (stack : List TEvent) (e : TEvent) :
    ∀ o ∈ objsOne pid tid stack e, ∃ v, Accepts o v := by
  intro o ho
  unfold objsOne at ho
  split at ho
  · simp at ho
    rcases ho with rfl | ho
    · exact ⟨_, accepts_evObj _ _ _⟩
    · obtain ⟨_, rfl⟩ := ho; exact ⟨_, accepts_builtinObj _ _ _⟩
  · simp at ho
  · simp at ho; subst ho; exact ⟨_, accepts_evObj _ _ _⟩

theorem accepts_objsChunk (pid tid : Nat) (stack : List TEvent) (evs : List TEvent) :
    ∀ o ∈ objsChunk pid tid stack evs, ∃ v, Accepts o v := by
  induction evs generalizing stack with
  | nil => simp [objsChunk]
  | cons e rest ih =>
    intro o ho
    rw [objsChunk] at ho
    split at ho
    · simp at ho
    · rw [List.mem_append] at ho
      rcases ho with ho | ho
      · exact accepts_objsOne _ _ _ _ o ho
      · exact ih _ o ho

theorem accepts_objsChunks (pid tid : Nat) (stack : List TEvent) (chunks : List (List TEvent)) :
    ∀ o ∈ objsChunks pid tid stack chunks, ∃ v, Accepts o v := by
  induction chunks generalizing stack with
  | nil => simp [objsChunks]
  | cons c cs ih =>
    intro o ho
    rw [objsChunks, List.mem_append] at ho
    rcases ho with ho | ho
    · exact accepts_objsChunk _ _ _ _ o ho
    · exact ih _ o ho

theorem accepts_objsThreads (pid : Nat) (idText : Nat → String) (n : Nat) (ths : List (Nat × ThreadLog)) :
    ∀ o ∈ objsThreads pid idText n ths, ∃ v, Accepts o v := by
  induction ths generalizing n with
  | nil => simp [objsThreads]
  | cons th rest ih =>
    obtain ⟨t, l⟩ := th
    intro o ho
    rw [objsThreads, List.mem_append, objsThread, List.mem_cons] at ho
    rcases ho with (rfl | ho) | ho
    · exact ⟨_, accepts_metaObj _ _ _ _⟩
    · exact accepts_objsChunks _ _ _ _ o ho
    · exact ih _ o ho

theorem accepts_procObjs (pid : Nat) (proc : Option String) : ∀ o ∈ procObjs pid proc, ∃ v, Accepts o v := by
  intro o ho
  cases proc with
  | none => simp [procObjs] at ho
  | some p => simp [procObjs] at ho; subst ho; exact ⟨_, accepts_metaObj _ _ _ _⟩



/-! ## events read back from the pieces -/

/-- the selection `eventsOf` applies to every object -/
def sel (i : Nat) (o : Obj) : Option CEv :=
  if o.num? "tid" = some i ∧ o.str? "ph" ≠ some "M" then o.canon? else none

theorem eventsOf_eq (objs : List Obj) (i : Nat) : eventsOf objs i = objs.filterMap (sel i) := rfl

/-- the canonical event a stored TraceEvent stands for -/
def TEvent.canon (e : TEvent) : Option CEv :=
  match e.ty with
  | .begin => some (.b (e.name.getD "") e.cat)
  | .end_ => some .e
  | .marker => some (.m (e.name.getD "") e.cat)
  | .counter => if e.cat = none then some (.c (e.name.getD "") e.value) else none

theorem sel_pMeta (i pid tid : Nat) (what name : String) : sel i (pMeta pid tid what name) = none := by
  simp [sel, pMeta, Obj.str?, Obj.num?, Obj.get]

theorem sel_pBuiltin (i pid tid : Nat) (b : TEvent) : sel i (pBuiltin pid tid b) = none := by
  simp [sel, pBuiltin, Obj.str?, Obj.num?, Obj.get, Obj.canon?]

theorem sel_pEv (i pid tid : Nat) (e : TEvent) : sel i (pEv pid tid e) = if tid = i then e.canon else none := by
  unfold sel pEv pCat pArgs TEvent.canon
  by_cases h : tid = i
  · subst h
    cases hty : e.ty <;> cases hc : e.cat <;>
      simp [Obj.str?, Obj.num?, Obj.get, Obj.canon?, phOf, hty, hc]
  · cases hty : e.ty <;> cases hc : e.cat <;>
      simp [Obj.str?, Obj.num?, Obj.get, Obj.canon?, phOf, hty, hc, h]




theorem events_objsOne (i pid tid : Nat) (stack : List TEvent) (e : TEvent)
    (h : ¬ (e.ty = .end_ ∧ stack = [])) :
    ((objsOne pid tid stack e).map pOf).filterMap (sel i) = if tid = i then e.canon.toList else [] := by
  have hev : sel i (pOf (evObj pid tid e)) = if tid = i then e.canon else none := by
    rw [pOf_eq (accepts_evObj pid tid e), sel_pEv]
  unfold objsOne
  split
  · rename_i b rest hty
    have hc : e.canon = some .e := by simp [TEvent.canon, hty]
    have hbl : ((if (e.time - b.time) / 1000 > 100 then [builtinObj pid tid b] else []).map pOf).filterMap (sel i) = [] := by
      split
      · simp [pOf_eq (accepts_builtinObj pid tid b), sel_pBuiltin]
      · simp
    rw [List.map_cons, List.filterMap_cons, hev, hbl, hc]
    by_cases hi : tid = i <;> simp [hi]
  · rename_i hty; exact absurd ⟨hty, rfl⟩ h
  · simp only [List.map_cons, List.map_nil, List.filterMap_cons, List.filterMap_nil, hev]
    by_cases hi : tid = i <;> simp [hi]
    cases e.canon <;> simp

theorem events_objsChunk (i pid tid : Nat) (stack : List TEvent) (evs : List TEvent) (h : wn stack.length evs) :
    ((objsChunk pid tid stack evs).map pOf).filterMap (sel i) = if tid = i then evs.filterMap TEvent.canon else [] := by
  induction evs generalizing stack with
  | nil => simp [objsChunk]
  | cons e rest ih =>
    obtain ⟨h1, h2⟩ := h
    have h1' : ¬ (e.ty = .end_ ∧ stack = []) := by
      intro ⟨x, y⟩; exact h1 ⟨x, by simp [y]⟩
    have h1'' : ¬ (e.ty = .end_ ∧ (if e.ty = .begin then e :: stack else stack) = []) := by
      intro ⟨x, y⟩; rw [if_neg (by rw [x]; decide)] at y; exact h1' ⟨x, y⟩
    rw [objsChunk, if_neg h1', List.map_append, List.filterMap_append, events_objsOne _ _ _ _ _ h1'',
      ih _ (by rw [length_stackAfter]; exact h2)]
    by_cases hi : tid = i <;> simp [hi]
    cases hc : e.canon <;> simp [List.filterMap_cons, hc]




def ThreadLog.all (l : ThreadLog) : List TEvent := l.chunks.flatten

theorem events_objsThread (i pid tid : Nat) (idText : String) (l : ThreadLog) (h : wn 0 l.all) :
    ((objsThread pid tid idText l).map pOf).filterMap (sel i) = if tid = i then l.all.filterMap TEvent.canon else [] := by
  have hf := (objsChunks_flatten pid tid [] l.chunks (by simpa [ThreadLog.all] using h)).1
  rw [objsThread, List.map_cons, List.filterMap_cons, pOf_eq (accepts_metaObj _ _ _ _), sel_pMeta, hf]
  exact events_objsChunk i pid tid [] _ (by simpa [ThreadLog.all] using h)

theorem events_objsThreads (i pid : Nat) (idText : Nat → String) (n : Nat) (ths : List (Nat × ThreadLog))
    (h : ∀ th ∈ ths, wn 0 th.2.all) :
    ((objsThreads pid idText n ths).map pOf).filterMap (sel i) =
      if n ≤ i then ((ths[i - n]?).map fun th => th.2.all.filterMap TEvent.canon).getD [] else [] := by
  induction ths generalizing n with
  | nil => simp [objsThreads]
  | cons th rest ih =>
    obtain ⟨t, l⟩ := th
    rw [objsThreads, List.map_append, List.filterMap_append,
      events_objsThread i pid n (idText t) l (h (t, l) (by simp)),
      ih (n + 1) (fun th hth => h th (by simp [hth]))]
    by_cases h1 : n = i
    · subst h1; simp; omega
    · by_cases h2 : n < i
      · have e : i - n = (i - (n + 1)) + 1 := by omega
        simp [h1, show n ≤ i by omega, show n + 1 ≤ i by omega, e]
      · simp [h1, show ¬ n ≤ i by omega, show ¬ n + 1 ≤ i by omega]




/-! ## recording -/

theorem all_pushEvent (cs : Nat) (rc : List (List TEvent)) (nm nm' : String) (e : TEvent) :
    (ThreadLog.mk (pushEvent cs rc e) nm).all = (ThreadLog.mk rc nm').all ++ [e] := by
  unfold pushEvent ThreadLog.all ThreadLog.chunks
  cases rc with
  | nil => simp
  | cons last older => simp only []; split <;> simp

theorem all_applyLog (cs : Nat) (l : ThreadLog) (o : Op) (time : Nat) :
    (applyLog cs l o time).all = l.all ++ (o.event? time).toList := by
  cases o <;> simp [applyLog, Op.event?, all_pushEvent cs l.rchunks l.threadName l.threadName] <;> rfl

/-- events stored for thread `t` by the calls of `h` (most recent first), oldest first -/
def evsOf : List Call → Nat → List TEvent
  | [], _ => []
  | c :: earlier, t => evsOf earlier t ++ (if c.tid = t then (c.op.event? c.time).toList else [])

/-- begins minus ends of thread `t` -/
def depthOf : List Call → Nat → Nat
  | [], _ => 0
  | c :: earlier, t =>
    if c.tid = t then
      match c.op with
      | .begin _ _ => depthOf earlier t + 1
      | .end_ => depthOf earlier t - 1
      | _ => depthOf earlier t
    else depthOf earlier t

/-- precondition of the API: no endEvent without an open beginEvent on the same thread -/
def Valid : List Call → Prop
  | [] => True
  | c :: earlier => Valid earlier ∧ (c.op = .end_ → 0 < depthOf earlier c.tid)

instance validDec : (h : List Call) → Decidable (Valid h)
  | [] => isTrue trivial
  | c :: e => by
    unfold Valid
    exact @instDecidableAnd _ _ (validDec e) inferInstance

theorem depthOf_pos_mem (h : List Call) (t : Nat) (hd : 0 < depthOf h t) : ∃ c ∈ h, c.tid = t := by
  induction h with
  | nil => simp [depthOf] at hd
  | cons c earlier ih =>
    by_cases hc : c.tid = t
    · exact ⟨c, by simp, hc⟩
    · rw [depthOf, if_neg hc] at hd
      obtain ⟨c', h1, h2⟩ := ih hd
      exact ⟨c', by simp [h1], h2⟩

theorem updLog_eq_map (cs : Nat) (r : Recorder) (c : Call) (hn : (r.map (·.1)).Nodup) :
    updLog cs r c = r.map fun p => if p.1 = c.tid then (p.1, applyLog cs p.2 c.op c.time) else p := by
  induction r with
  | nil => rfl
  | cons p rest ih =>
    obtain ⟨t, l⟩ := p
    rw [List.map_cons, List.nodup_cons] at hn
    unfold updLog
    by_cases ht : t = c.tid
    · simp only [ht, if_true, List.map_cons]
      congr 1
      symm
      rw [List.map_congr_left, List.map_id]
      intro p hp
      have : p.1 ≠ c.tid := by
        intro e; apply hn.1; rw [ht, ← e]; exact List.mem_map_of_mem (f := (·.1)) hp
      simp [this]
    · simp only [ht, if_false, List.map_cons, ih hn.2]

theorem registered_iff (r : Recorder) (t : Nat) : registered r t = true ↔ t ∈ r.map (·.1) := by
  simp [registered]




theorem evsOf_nil_of_not_mem (h : List Call) (t : Nat) (hn : ∀ c ∈ h, c.tid ≠ t) : evsOf h t = [] := by
  induction h with
  | nil => rfl
  | cons c earlier ih =>
    rw [evsOf, if_neg (hn c (by simp)), ih (fun c' hc' => hn c' (by simp [hc']))]; rfl

theorem runR_inv (cs : Nat) (h : List Call) (hv : Valid h) :
    ((runR cs h).map (·.1)).Nodup ∧ (∀ p ∈ runR cs h, p.2.all = evsOf h p.1) ∧
    (∀ c ∈ h, c.tid ∈ (runR cs h).map (·.1)) := by
  induction h with
  | nil => simp [runR]
  | cons c earlier ih =>
    obtain ⟨hv1, hv2⟩ := hv
    obtain ⟨i1, i2, i3⟩ := ih hv1
    rw [runR, record]
    by_cases hreg : registered (runR cs earlier) c.tid = true
    · rw [if_pos hreg, updLog_eq_map cs _ c i1]
      have hids : (List.map (fun p => if p.1 = c.tid then (p.1, applyLog cs p.2 c.op c.time) else p) (runR cs earlier)).map (·.1)
          = (runR cs earlier).map (·.1) := by
        rw [List.map_map]; apply List.map_congr_left; intro p _; simp only [Function.comp]; split <;> rfl
      refine ⟨by rw [hids]; exact i1, ?_, ?_⟩
      · intro p hp
        rw [List.mem_map] at hp
        obtain ⟨q, hq, rfl⟩ := hp
        by_cases hqt : q.1 = c.tid
        · simp only [hqt, if_true, all_applyLog, evsOf, i2 q hq]
        · have : ¬ c.tid = q.1 := fun e => hqt e.symm
          simp only [hqt, if_false, evsOf, this, List.append_nil, i2 q hq]
      · intro c' hc'
        rw [hids]
        rcases List.mem_cons.mp hc' with rfl | hc'
        · exact (registered_iff _ _).mp hreg
        · exact i3 c' hc'
    · rw [if_neg hreg]
      have hnm : c.tid ∉ (runR cs earlier).map (·.1) := fun hm => hreg ((registered_iff _ _).mpr hm)
      have hnocall : ∀ c' ∈ earlier, c'.tid ≠ c.tid := fun c' hc' e => hnm (e ▸ i3 c' hc')
      have hne : c.op ≠ .end_ := by
        intro he
        obtain ⟨c', h1, h2⟩ := depthOf_pos_mem earlier c.tid (hv2 he)
        exact hnocall c' h1 h2
      rw [if_neg hne]
      refine ⟨?_, ?_, ?_⟩
      · rw [List.map_append, List.nodup_append]
        refine ⟨i1, by simp, ?_⟩
        intro a ha b hb
        simp at hb; subst hb
        intro e; exact hnm (e ▸ ha)
      · intro p hp
        rcases List.mem_append.mp hp with hp | hp
        · have : ¬ c.tid = p.1 := fun e => hnm (e ▸ List.mem_map_of_mem (f := (·.1)) hp)
          simp only [evsOf, this, if_false, List.append_nil, i2 p hp]
        · simp at hp; subst hp
          simp only [all_applyLog, evsOf, if_true, evsOf_nil_of_not_mem earlier c.tid hnocall]
          rfl
      · intro c' hc'
        rw [List.map_append]
        rcases List.mem_cons.mp hc' with rfl | hc'
        · simp
        · exact List.mem_append_left _ (i3 c' hc')




theorem wn_evsOf (h : List Call) (hv : Valid h) (t : Nat) :
    wn 0 (evsOf h t) ∧ depthAfter 0 (evsOf h t) = depthOf h t := by
  induction h with
  | nil => simp [evsOf, wn, depthAfter, depthOf]
  | cons c earlier ih =>
    obtain ⟨hv1, hv2⟩ := hv
    obtain ⟨i1, i2⟩ := ih hv1
    rw [evsOf, wn_append, depthAfter_append, i2, depthOf]
    by_cases hc : c.tid = t
    · subst hc
      simp only [if_true]
      refine ⟨⟨i1, ?_⟩, ?_⟩
      · cases hop : c.op <;> simp [Op.event?, wn, depthStep]
        have := hv2 hop; omega
      · cases hop : c.op <;> simp [Op.event?, depthAfter, depthStep]
    · simp [hc, wn, depthAfter, i1]

theorem recordedOf_cons (c : Call) (earlier : List Call) (t : Nat) :
    recordedOf (c :: earlier) t = recordedOf earlier t ++ (if c.tid = t then c.op.canon?.toList else []) := by
  unfold recordedOf
  rw [List.reverse_cons, List.filter_append, List.filterMap_append]
  by_cases hc : c.tid = t <;> simp [hc]
  cases hcan : c.op.canon? <;> simp [List.filterMap_cons, hcan]

theorem canon_evsOf (h : List Call) (t : Nat) : (evsOf h t).filterMap TEvent.canon = recordedOf h t := by
  induction h with
  | nil => rfl
  | cons c earlier ih =>
    rw [evsOf, List.filterMap_append, ih, recordedOf_cons]
    by_cases hc : c.tid = t
    · simp only [hc, if_true]
      cases c.op <;> simp [Op.event?, Op.canon?, TEvent.canon]
    · simp [hc]

/-- events stored for a call satisfy: counters carry no category -/
def EvOK (e : TEvent) : Prop := e.ty = .counter → e.cat = none

theorem evsOf_ok (h : List Call) (t : Nat) : ∀ e ∈ evsOf h t, EvOK e := by
  induction h with
  | nil => simp [evsOf]
  | cons c earlier ih =>
    intro e he
    rw [evsOf, List.mem_append] at he
    rcases he with he | he
    · exact ih e he
    · split at he
      · cases hop : c.op <;> simp [hop, Op.event?] at he <;> subst he <;> simp [EvOK]
      · simp at he

/-! ## what saveLog looks at -/

def view (p : Nat × ThreadLog) : Nat × String × List TEvent := (p.1, p.2.threadName, p.2.all)

theorem view_applyLog (cs1 cs2 : Nat) (t : Nat) (l1 l2 : ThreadLog) (o : Op) (time : Nat)
    (h : view (t, l1) = view (t, l2)) : view (t, applyLog cs1 l1 o time) = view (t, applyLog cs2 l2 o time) := by
  simp only [view, Prod.mk.injEq, true_and] at h ⊢
  refine ⟨?_, by rw [all_applyLog, all_applyLog, h.2]⟩
  cases o <;> simp [applyLog, Op.event?, h.1]

theorem updLog_view (cs1 cs2 : Nat) (r1 r2 : Recorder) (c : Call) (h : r1.map view = r2.map view) :
    (updLog cs1 r1 c).map view = (updLog cs2 r2 c).map view := by
  induction r1 generalizing r2 with
  | nil => cases r2 with
    | nil => rfl
    | cons p r => simp at h
  | cons p1 r1 ih =>
    cases r2 with
    | nil => simp at h
    | cons p2 r2 =>
      obtain ⟨t1, l1⟩ := p1
      obtain ⟨t2, l2⟩ := p2
      simp only [List.map_cons, List.cons.injEq] at h
      have ht : t1 = t2 := by have := h.1; simp [view] at this; exact this.1
      subst ht
      unfold updLog
      by_cases hc : t1 = c.tid
      · simp only [hc, if_true, List.map_cons, h.2]
        rw [view_applyLog cs1 cs2 c.tid l1 l2 c.op c.time (by simpa [hc] using h.1)]
      · simp only [hc, if_false, List.map_cons, h.1, ih r2 h.2]

theorem record_view (cs1 cs2 : Nat) (r1 r2 : Recorder) (c : Call) (h : r1.map view = r2.map view) :
    (record cs1 r1 c).map view = (record cs2 r2 c).map view := by
  have hids : r1.map (·.1) = r2.map (·.1) := by
    have := congrArg (List.map (·.1)) h
    rw [List.map_map, List.map_map] at this
    exact this
  have hreg : registered r1 c.tid = registered r2 c.tid := by
    rw [Bool.eq_iff_iff, registered_iff, registered_iff, hids]
  unfold record
  rw [hreg]
  split
  · exact updLog_view cs1 cs2 r1 r2 c h
  · split
    · exact h
    · rw [List.map_append, List.map_append, h]
      congr 1

theorem runR_view (cs1 cs2 : Nat) (h : List Call) : (runR cs1 h).map view = (runR cs2 h).map view := by
  induction h with
  | nil => rfl
  | cons c earlier ih => exact record_view cs1 cs2 _ _ c ih

theorem objsThread_of_view (pid tid : Nat) (idText : String) (l : ThreadLog) (h : wn 0 l.all) :
    objsThread pid tid idText l =
      metaObj pid tid "thread_name" (if l.threadName ≠ "" then l.threadName else idText) :: objsChunk pid tid [] l.all := by
  rw [objsThread, (objsChunks_flatten pid tid [] l.chunks (by simpa [ThreadLog.all] using h)).1]; rfl

theorem objsThreads_congr (pid : Nat) (idText : Nat → String) (n : Nat) (ths1 ths2 : List (Nat × ThreadLog))
    (hview : ths1.map view = ths2.map view) (hwn : ∀ th ∈ ths1, wn 0 th.2.all) :
    objsThreads pid idText n ths1 = objsThreads pid idText n ths2 := by
  induction ths1 generalizing ths2 n with
  | nil => cases ths2 with
    | nil => rfl
    | cons p r => simp at hview
  | cons p1 r1 ih =>
    cases ths2 with
    | nil => simp at hview
    | cons p2 r2 =>
      obtain ⟨t1, l1⟩ := p1
      obtain ⟨t2, l2⟩ := p2
      simp only [List.map_cons, List.cons.injEq, view, Prod.mk.injEq] at hview
      obtain ⟨⟨ht, hn, ha⟩, hrest⟩ := hview
      have hw1 : wn 0 l1.all := hwn (t1, l1) (by simp)
      have hw2 : wn 0 l2.all := by rw [← ha]; exact hw1
      rw [objsThreads, objsThreads, objsThread_of_view _ _ _ _ hw1, objsThread_of_view _ _ _ _ hw2, ht, hn, ha,
        ih (n + 1) r2 hrest (fun th hth => hwn th (by simp [hth]))]




/-! ## nesting check on the pieces -/

def keep (i : Nat) (o : Obj) : Bool := o.num? "tid" = some i ∧ o.str? "ph" ≠ some "M"

theorem threadObjs_eq (objs : List Obj) (i : Nat) : threadObjs objs i = objs.filter (keep i) := rfl

theorem keep_pMeta (i pid tid : Nat) (what name : String) : keep i (pMeta pid tid what name) = false := by
  simp [keep, pMeta, Obj.str?, Obj.num?, Obj.get]

theorem keep_pBuiltin (i pid tid : Nat) (b : TEvent) : keep i (pBuiltin pid tid b) = decide (tid = i) := by
  simp [keep, pBuiltin, Obj.str?, Obj.num?, Obj.get]

theorem keep_pEv (i pid tid : Nat) (e : TEvent) : keep i (pEv pid tid e) = decide (tid = i) := by
  unfold keep pEv
  cases hty : e.ty <;> simp [Obj.str?, Obj.num?, Obj.get, phOf]

theorem keep_objsOne (i pid tid : Nat) (stack : List TEvent) (e : TEvent) :
    ((objsOne pid tid stack e).map pOf).filter (keep i) = if tid = i then (objsOne pid tid stack e).map pOf else [] := by
  have h1 : keep i (pOf (evObj pid tid e)) = decide (tid = i) := by
    rw [pOf_eq (accepts_evObj pid tid e), keep_pEv]
  have h2 : ∀ b, keep i (pOf (builtinObj pid tid b)) = decide (tid = i) := by
    intro b; rw [pOf_eq (accepts_builtinObj pid tid b), keep_pBuiltin]
  unfold objsOne
  split
  · split <;> by_cases hi : tid = i
    · subst hi; simp [List.filter_cons, h1, h2]
    · simp [List.filter_cons, h1, h2, hi]
    · subst hi; simp [List.filter_cons, h1, h2]
    · simp [List.filter_cons, h1, h2, hi]
  · simp
  · by_cases hi : tid = i
    · subst hi; simp [List.filter_cons, h1]
    · simp [List.filter_cons, h1, hi]

theorem keep_objsChunk (i pid tid : Nat) (stack : List TEvent) (evs : List TEvent) :
    ((objsChunk pid tid stack evs).map pOf).filter (keep i) = if tid = i then (objsChunk pid tid stack evs).map pOf else [] := by
  induction evs generalizing stack with
  | nil => simp [objsChunk]
  | cons e rest ih =>
    rw [objsChunk]
    split
    · simp
    · rw [List.map_append, List.filter_append, keep_objsOne, ih]
      by_cases hi : tid = i <;> simp [hi]

theorem keep_objsThread (i pid tid : Nat) (idText : String) (l : ThreadLog) (h : wn 0 l.all) :
    ((objsThread pid tid idText l).map pOf).filter (keep i) =
      if tid = i then (objsChunk pid tid [] l.all).map pOf else [] := by
  rw [objsThread_of_view _ _ _ _ h, List.map_cons, List.filter_cons, pOf_eq (accepts_metaObj _ _ _ _), keep_pMeta]
  simp only [Bool.false_eq_true, if_false]
  exact keep_objsChunk ..

theorem keep_objsThreads (i pid : Nat) (idText : Nat → String) (n : Nat) (ths : List (Nat × ThreadLog))
    (h : ∀ th ∈ ths, wn 0 th.2.all) :
    ((objsThreads pid idText n ths).map pOf).filter (keep i) =
      if n ≤ i then ((ths[i - n]?).map fun th => (objsChunk pid i [] th.2.all).map pOf).getD [] else [] := by
  induction ths generalizing n with
  | nil => simp [objsThreads]
  | cons th rest ih =>
    obtain ⟨t, l⟩ := th
    rw [objsThreads, List.map_append, List.filter_append,
      keep_objsThread i pid n (idText t) l (h (t, l) (by simp)),
      ih (n + 1) (fun th hth => h th (by simp [hth]))]
    by_cases h1 : n = i
    · subst h1; simp; omega
    · by_cases h2 : n < i
      · have e : i - n = (i - (n + 1)) + 1 := by omega
        simp [h1, show n ≤ i by omega, show n + 1 ≤ i by omega, e]
      · simp [h1, show ¬ n ≤ i by omega, show ¬ n + 1 ≤ i by omega]

theorem keep_procObjs (i pid : Nat) (proc : Option String) : ((procObjs pid proc).map pOf).filter (keep i) = [] := by
  cases proc <;> simp [procObjs, pOf_eq (accepts_metaObj _ _ _ _), keep_pMeta]

theorem sel_procObjs (i pid : Nat) (proc : Option String) : ((procObjs pid proc).map pOf).filterMap (sel i) = [] := by
  cases proc <;> simp [procObjs, pOf_eq (accepts_metaObj _ _ _ _), sel_pMeta]

def tsOf (e : TEvent) : Nat := e.time / 1000

theorem nestCheck_pEv (st : List Nat) (le : Option Nat) (pid tid : Nat) (e : TEvent) (hok : EvOK e) (rest : List Obj) :
    nestCheck st le (pEv pid tid e :: rest) =
      match e.ty with
      | .begin => nestCheck (tsOf e :: st) none rest
      | .end_ => (match st with | b :: st' => nestCheck st' (some b) rest | [] => none)
      | _ => nestCheck st none rest := by
  unfold EvOK at hok
  unfold pEv pCat pArgs
  cases hty : e.ty <;> cases hc : e.cat <;> cases st <;>
    simp_all [nestCheck, Obj.str?, Obj.num?, Obj.get, phOf, tsOf]

theorem nestCheck_pBuiltin (st : List Nat) (le : Option Nat) (pid tid : Nat) (b : TEvent) (rest : List Obj) :
    nestCheck st le (pBuiltin pid tid b :: rest) = if le = some (tsOf b) then nestCheck st none rest else none := by
  by_cases h : le = some (tsOf b) <;> simp [nestCheck, pBuiltin, Obj.str?, Obj.num?, Obj.get, h] <;>
    simp_all [tsOf]

theorem nestCheck_objsChunk (pid tid : Nat) (stack : List TEvent) (evs : List TEvent) (le : Option Nat)
    (hwn : wn stack.length evs) (hok : ∀ e ∈ evs, EvOK e) :
    nestCheck (stack.map tsOf) le ((objsChunk pid tid stack evs).map pOf) = some (depthAfter stack.length evs) := by
  induction evs generalizing stack le with
  | nil => simp [objsChunk, nestCheck, depthAfter]
  | cons e rest ih =>
    obtain ⟨h1, h2⟩ := hwn
    have h1' : ¬ (e.ty = .end_ ∧ stack = []) := by
      intro ⟨x, y⟩; exact h1 ⟨x, by simp [y]⟩
    have hoke := hok e (by simp)
    have ih' := fun le => ih (stackAfter stack e) le (by rw [length_stackAfter]; exact h2)
      (fun e' he' => hok e' (by simp [he']))
    rw [objsChunk, if_neg h1', depthAfter, List.map_append, ← length_stackAfter]
    cases hty : e.ty with
    | begin =>
      simp only [objsOne, hty, if_true, List.map_cons, List.map_nil, List.cons_append, List.nil_append,
        pOf_eq (accepts_evObj pid tid e), nestCheck_pEv _ _ _ _ _ hoke]
      have := ih' none
      simpa [stackAfter, hty] using this
    | end_ =>
      cases stack with
      | nil => exact absurd ⟨hty, rfl⟩ h1'
      | cons b st' =>
        have hne : ¬ (EvType.end_ = EvType.begin) := by decide
        simp only [objsOne, hty, hne, if_false, List.map_cons, List.cons_append,
          pOf_eq (accepts_evObj pid tid e), nestCheck_pEv _ _ _ _ _ hoke]
        split
        · simp only [List.map_cons, List.map_nil, List.cons_append, List.nil_append,
            pOf_eq (accepts_builtinObj pid tid b), nestCheck_pBuiltin, if_true]
          have := ih' none
          simpa [stackAfter, hty] using this
        · have := ih' (some (tsOf b))
          simpa [stackAfter, hty] using this
    | marker =>
      have hne : ¬ (EvType.marker = EvType.begin) := by decide
      simp only [objsOne, hty, hne, if_false, List.map_cons, List.map_nil, List.cons_append, List.nil_append,
        pOf_eq (accepts_evObj pid tid e), nestCheck_pEv _ _ _ _ _ hoke]
      have := ih' none
      simpa [stackAfter, hty] using this
    | counter =>
      have hne : ¬ (EvType.counter = EvType.begin) := by decide
      simp only [objsOne, hty, hne, if_false, List.map_cons, List.map_nil, List.cons_append, List.nil_append,
        pOf_eq (accepts_evObj pid tid e), nestCheck_pEv _ _ _ _ _ hoke]
      have := ih' none
      simpa [stackAfter, hty] using this



end RkVerif.C20
