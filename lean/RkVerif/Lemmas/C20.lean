/-
Helper lemmas for C20 (image writers): the row-fill loops as a function of the input, decimal
printing/parsing, header tokens, sample bytes, indexing into uniformly chunked lists.
-/
import RkVerif.Model.C20
set_option linter.unusedSimpArgs false
namespace RkVerif.C20

/-! ## row fill loops -/


theorem foldl_set_range {α : Type} (g : Nat → α) (m base : Nat) (out : List α) (h : base + m ≤ out.length) :
    (List.range m).foldl (fun o c => o.set (base + c) (g c)) out
      = out.take base ++ (List.range m).map g ++ out.drop (base + m) := by
  induction m with
  | zero => simp
  | succ m ih =>
    rw [List.range_succ, List.foldl_append, ih (by omega)]
    simp only [List.foldl_cons, List.foldl_nil, List.map_append, List.map_cons, List.map_nil]
    have hlen : (List.take base out ++ List.map g (List.range m)).length = base + m := by
      simp; omega
    rw [List.set_append_right _ _ (by rw [hlen]; omega), hlen]
    simp only [Nat.sub_self]
    have : List.drop (base + m) out = out[base + m] :: List.drop (base + m + 1) out := by
      rw [List.drop_eq_getElem_cons]
    rw [this]
    simp [List.append_assoc, Nat.add_assoc]

/-- the row as a function of the input: pixel by pixel, selected components in order -/
def pixRow (f : Fmt) (sel : Fmt → Nat → Nat) (sizeX : Nat) (inp : Nat → Nat) : List Nat :=
  (List.range sizeX).flatMap fun x => (List.range f.nComp).map fun c => inp (inIdx f sel x c)

theorem length_pixRow (f : Fmt) (sel) (k : Nat) (inp) : (pixRow f sel k inp).length = f.nComp * k := by
  induction k with
  | zero => simp [pixRow]
  | succ k ih =>
    simp only [pixRow] at ih ⊢
    rw [List.range_succ, List.flatMap_append, List.length_append, ih]
    simp [Nat.mul_succ]

theorem fillRow_aux (f : Fmt) (sel) (sizeX : Nat) (inp : Nat → Nat) (k : Nat) (hk : k ≤ sizeX) :
    (List.range k).foldl
      (fun out x => (List.range f.nComp).foldl
        (fun out c => out.set (dstIdx f x c) (inp (inIdx f sel x c))) out)
      (List.replicate (f.nComp * sizeX) 0)
    = pixRow f sel k inp ++ List.replicate (f.nComp * (sizeX - k)) 0 := by
  induction k with
  | zero => simp [pixRow]
  | succ k ih =>
    rw [List.range_succ, List.foldl_append, ih (by omega)]
    simp only [List.foldl_cons, List.foldl_nil, dstIdx]
    have hl := length_pixRow f sel k inp
    have hmul : f.nComp * (sizeX - k) = f.nComp + f.nComp * (sizeX - (k + 1)) := by
      have : sizeX - k = (sizeX - (k + 1)) + 1 := by omega
      rw [this, Nat.mul_succ]; omega
    rw [foldl_set_range (fun c => inp (inIdx f sel k c)) f.nComp (f.nComp * k) _ (by simp [hl]; omega)]
    rw [List.take_append_of_le_length (by omega), List.take_of_length_le (by omega)]
    rw [List.drop_append, List.drop_of_length_le (by omega), hl, hmul, ← List.replicate_append_replicate,
      List.drop_left' (by simp)]
    simp only [pixRow, List.range_succ, List.flatMap_append, List.flatMap_cons, List.flatMap_nil, List.append_nil,
      List.append_assoc, List.nil_append]

theorem fillRow_eq (f : Fmt) (sel) (sizeX : Nat) (inp : Nat → Nat) :
    fillRow f sel sizeX inp = pixRow f sel sizeX inp := by
  have := fillRow_aux f sel sizeX inp sizeX (Nat.le_refl _)
  simpa [fillRow] using this


/-! ## header -/


/-! decimal printing / parsing -/
def ofDigitsRev : List Nat → Nat
  | [] => 0
  | d :: r => d + 10 * ofDigitsRev r

theorem ofDigitsRev_digitsRev (n : Nat) : ofDigitsRev (digitsRev n) = n := by
  fun_induction digitsRev n with
  | case1 n h => simp [ofDigitsRev]
  | case2 n h ih => simp [ofDigitsRev, ih]; omega

theorem digitsRev_lt (n : Nat) : ∀ d ∈ digitsRev n, d < 10 := by
  fun_induction digitsRev n with
  | case1 n h => simp; omega
  | case2 n h ih => intro d hd; simp at hd; rcases hd with rfl | hd; omega; exact ih d hd

theorem digitsRev_ne_nil (n : Nat) : digitsRev n ≠ [] := by
  unfold digitsRev; split <;> simp

theorem parseDecAux_digits (ds : List Nat) (h : ∀ d ∈ ds, d < 10) (acc : Nat) :
    parseDecAux acc (ds.map fun d => UInt8.ofNat (48 + d)) = some (ds.foldl (fun a d => a * 10 + d) acc) := by
  induction ds generalizing acc with
  | nil => simp [parseDecAux]
  | cons d ds ih =>
    have hd : d < 10 := h d (by simp)
    have h1 : (UInt8.ofNat (48 + d)).toNat = 48 + d := by
      simp [UInt8.toNat_ofNat']; omega
    simp only [List.map_cons, parseDecAux, h1, List.foldl_cons]
    rw [if_pos (by omega), ih (fun d' hd' => h d' (by simp [hd']))]
    congr 2; omega

theorem foldl_reverse_ofDigitsRev (ds : List Nat) :
    ds.reverse.foldl (fun a d => a * 10 + d) 0 = ofDigitsRev ds := by
  induction ds with
  | nil => rfl
  | cons d ds ih => simp [List.foldl_append, ih, ofDigitsRev]; omega

theorem parseDec_dec (n : Nat) : parseDec (dec n) = some n := by
  unfold parseDec dec
  have hne : ((digitsRev n).reverse.map fun d => UInt8.ofNat (48 + d)) ≠ [] := by
    simp [digitsRev_ne_nil]
  rw [if_neg (by simpa using hne)]
  rw [parseDecAux_digits _ (by intro d hd; exact digitsRev_lt n d (by simpa using hd))]
  rw [foldl_reverse_ofDigitsRev, ofDigitsRev_digitsRev]

theorem dec_not_ws (n : Nat) : ∀ b ∈ dec n, isWs b = false := by
  intro b hb
  simp only [dec, List.mem_map, List.mem_reverse] at hb
  obtain ⟨d, hd, rfl⟩ := hb
  have := digitsRev_lt n d hd
  have h10 : d = 0 ∨ d = 1 ∨ d = 2 ∨ d = 3 ∨ d = 4 ∨ d = 5 ∨ d = 6 ∨ d = 7 ∨ d = 8 ∨ d = 9 := by omega
  rcases h10 with rfl|rfl|rfl|rfl|rfl|rfl|rfl|rfl|rfl|rfl <;> decide

theorem dec_ne_nil (n : Nat) : dec n ≠ [] := by simp [dec, digitsRev_ne_nil]

/-! tokens -/
theorem token_cons_ws (w : UInt8) (l : List UInt8) (hw : isWs w = true) : token (w :: l) = token l := by
  simp [token, hw]

theorem token_nonws (tok rest : List UInt8) (w : UInt8) (h : ∀ b ∈ tok, isWs b = false) (hne : tok ≠ [])
    (hw : isWs w = true) : token (tok ++ w :: rest) = (tok, w :: rest) := by
  unfold token
  cases tok with
  | nil => exact absurd rfl hne
  | cons t ts =>
    have ht : isWs t = false := h t (by simp)
    have e : (t :: ts ++ w :: rest).dropWhile isWs = (t :: ts) ++ w :: rest := by simp [ht]
    simp only [e]
    have h' : ∀ b ∈ t :: ts, (fun b => !isWs b) b = true := by intro b hb; simp [h b hb]
    rw [List.takeWhile_append_of_pos h', List.dropWhile_append_of_pos h']
    simp [hw]



/-! sample bytes -/
theorem toNat_ofNat_lt (v : Nat) (h : v < 256) : (UInt8.ofNat v).toNat = v := by
  simp [UInt8.toNat_ofNat']; omega

theorem bytes1_map (vs : List Nat) (h : ∀ v ∈ vs, v < 256) :
    bytes1 (vs.flatMap fun v => [UInt8.ofNat v]) = vs := by
  induction vs with
  | nil => rfl
  | cons v vs ih =>
    simp only [List.flatMap_cons, bytes1, List.cons_append, List.nil_append, List.map_cons]
    rw [toNat_ofNat_lt v (h v (by simp))]
    congr 1
    exact ih (fun v' hv' => h v' (by simp [hv']))

theorem words32_le4 (vs : List Nat) (h : ∀ v ∈ vs, v < 4294967296) :
    words32 (vs.flatMap le4) = vs := by
  induction vs with
  | nil => rfl
  | cons v vs ih =>
    have hv := h v (by simp)
    simp only [List.flatMap_cons, le4, List.cons_append, List.nil_append, words32]
    rw [ih (fun v' hv' => h v' (by simp [hv']))]
    congr 1
    rw [toNat_ofNat_lt _ (by omega), toNat_ofNat_lt _ (by omega), toNat_ofNat_lt _ (by omega), toNat_ofNat_lt _ (by omega)]
    omega

theorem length_flatMap_le4 (vs : List Nat) : (vs.flatMap le4).length = vs.length * 4 := by
  induction vs with
  | nil => rfl
  | cons v vs ih => simp [List.flatMap_cons, le4, ih]; omega

/-! uniformly chunked lists -/
theorem length_flatMap_range_uniform {α : Type} (g : Nat → List α) (L m : Nat) (h : ∀ y, y < m → (g y).length = L) :
    ((List.range m).flatMap g).length = m * L := by
  induction m with
  | zero => simp
  | succ m ih =>
    rw [List.range_succ, List.flatMap_append, List.length_append, ih (fun y hy => h y (by omega))]
    simp [h m (by omega), Nat.succ_mul]

theorem getElem?_flatMap_range_uniform {α : Type} (g : Nat → List α) (L m : Nat)
    (h : ∀ y, y < m → (g y).length = L) (y i : Nat) (hy : y < m) (hi : i < L) :
    ((List.range m).flatMap g)[y * L + i]? = (g y)[i]? := by
  induction m with
  | zero => omega
  | succ m ih =>
    have hlen := length_flatMap_range_uniform g L m (fun y hy => h y (by omega))
    rw [List.range_succ, List.flatMap_append]
    by_cases hym : y < m
    · have : y * L + i < m * L := by
        have : (y + 1) * L ≤ m * L := Nat.mul_le_mul_right L hym
        rw [Nat.succ_mul] at this; omega
      rw [List.getElem?_append_left (by omega)]
      exact ih (fun y hy => h y (by omega)) hym
    · have : y = m := by omega
      subst this
      rw [List.getElem?_append_right (by omega), hlen]
      simp


/-! ## in-bounds -/


/-- what the proofs need to know about a writer instantiation (all six satisfy it: `formats_wf`) -/
def Fmt.WF (f : Fmt) : Prop :=
  f.stride = f.pixelComp ∧ 0 < f.nComp ∧ f.nComp ≤ f.pixelComp ∧ (f.compBytes = 1 ∨ f.compBytes = 4) ∧
  (∀ b ∈ f.magic, isWs b = false) ∧ f.magic ≠ [] ∧ (∀ b ∈ f.third, isWs b = false) ∧ f.third ≠ [] ∧
  magicKind f.magic = some (f.nComp, f.compBytes) ∧
  thirdInfo f.compBytes f.third = some (if f.compBytes = 1 then some 255 else none, true)

instance (f : Fmt) : Decidable f.WF := by unfold Fmt.WF; infer_instance

theorem formats_wf : ∀ f ∈ formats, f.WF := by decide

theorem srcRow_lt (f : Fmt) (sy y : Nat) (hy : y < sy) : srcRow f sy y < sy := by
  unfold srcRow; split <;> omega

theorem compSel_lt (f : Fmt) (hw : f.WF) (c : Nat) (hc : c < f.nComp) : compSel f c < f.pixelComp := by
  obtain ⟨_, h1, h2, _⟩ := hw
  unfold compSel; split <;> omega

theorem srcIdx_lt (f : Fmt) (hw : f.WF) (sx sy y x c : Nat) (hy : y < sy) (hx : x < sx) (hc : c < f.nComp) :
    srcIdx f compSel sx sy y x c < sx * sy * f.stride := by
  have hr := srcRow_lt f sy y hy
  have hs := compSel_lt f hw c hc
  obtain ⟨hst, _⟩ := hw
  unfold srcIdx inIdx
  rw [hst]
  generalize srcRow f sy y = r at *
  generalize compSel f c = s at *
  generalize f.pixelComp = pc at *
  have h1 : pc * x + s < pc * (x + 1) := by rw [Nat.mul_succ]; omega
  have h2 : pc * (x + 1) ≤ pc * sx := Nat.mul_le_mul_left pc hx
  have h3 : (r + 1) * sx * pc ≤ sy * sx * pc := Nat.mul_le_mul_right pc (Nat.mul_le_mul_right sx hr)
  have h4 : (r + 1) * sx * pc = r * sx * pc + pc * sx := by
    rw [Nat.succ_mul, Nat.add_mul, Nat.mul_comm sx pc]
  have h5 : sx * sy * pc = sy * sx * pc := by rw [Nat.mul_comm sx sy]
  omega

theorem mem_readsWith (sel) (f : Fmt) (sx sy i : Nat) :
    i ∈ readsWith sel f sx sy ↔ ∃ y x c, y < sy ∧ x < sx ∧ c < f.nComp ∧ i = srcIdx f sel sx sy y x c := by
  simp only [readsWith, List.mem_flatMap, List.mem_range, List.mem_map]
  constructor
  · rintro ⟨y, hy, x, hx, c, hc, rfl⟩; exact ⟨y, x, c, hy, hx, hc, rfl⟩
  · rintro ⟨y, x, c, hy, hx, hc, rfl⟩; exact ⟨y, hy, x, hx, c, hc, rfl⟩

theorem reads_lt (f : Fmt) (hw : f.WF) (sx sy : Nat) : ∀ i ∈ reads f sx sy, i < sx * sy * f.stride := by
  intro i hi
  obtain ⟨y, x, c, hy, hx, hc, rfl⟩ := (mem_readsWith _ _ _ _ _).mp hi
  exact srcIdx_lt f hw sx sy y x c hy hx hc


/-! ## the written file and its decoding -/


/-- the samples the file must contain, in file order: for every file row, every pixel, the selected components -/
def samples (f : Fmt) (sx sy : Nat) (comps : List Nat) : List Nat :=
  (List.range sy).flatMap fun y => pixRow f compSel sx fun i => comps.getD (srcRow f sy y * sx * f.stride + i) 0

theorem toArray_getD (comps : List Nat) (i : Nat) : comps.toArray.getD i 0 = comps.getD i 0 := by
  simp [Array.getD, List.getD_eq_getElem?_getD]
  split <;> rename_i h
  · simp [List.getElem?_eq_getElem h]
  · simp [List.getElem?_eq_none (Nat.le_of_not_lt h)]

theorem payload_eq (f : Fmt) (sx sy : Nat) (comps : List Nat) :
    payloadWith compSel f sx sy comps = (samples f sx sy comps).flatMap (compBytesOf f) := by
  simp only [payloadWith, samples, fillRow_eq, List.flatMap_assoc, toArray_getD]

theorem length_samples (f : Fmt) (sx sy : Nat) (comps : List Nat) :
    (samples f sx sy comps).length = sy * (f.nComp * sx) :=
  length_flatMap_range_uniform _ _ _ (fun _ _ => length_pixRow f compSel sx _)

theorem getD_lt (comps : List Nat) (B i : Nat) (hB : 0 < B) (h : ∀ v ∈ comps, v < B) : comps.getD i 0 < B := by
  rw [List.getD_eq_getElem?_getD]
  cases hi : comps[i]? with
  | none => simpa using hB
  | some v => simpa using h v (List.mem_of_getElem? hi)

theorem samples_lt (f : Fmt) (sx sy : Nat) (comps : List Nat) (B : Nat) (hB : 0 < B) (h : ∀ v ∈ comps, v < B) :
    ∀ v ∈ samples f sx sy comps, v < B := by
  intro v hv
  simp only [samples, pixRow, List.mem_flatMap, List.mem_map, List.mem_range] at hv
  obtain ⟨y, _, x, _, c, _, rfl⟩ := hv
  exact getD_lt comps B _ hB h

theorem samplesOf_payload (f : Fmt) (hw : f.WF) (vs : List Nat) (h : ∀ v ∈ vs, v < 256 ^ f.compBytes) :
    samplesOf f.compBytes true (vs.flatMap (compBytesOf f)) = vs ∧
    (vs.flatMap (compBytesOf f)).length = vs.length * f.compBytes := by
  obtain ⟨_, _, _, hb, _⟩ := hw
  rcases hb with hb | hb
  · have e : compBytesOf f = fun v => [UInt8.ofNat v] := by funext v; simp [compBytesOf, hb]
    rw [hb] at h
    simp only [samplesOf, hb, e, if_true]
    exact ⟨bytes1_map vs (by simpa using h), by induction vs <;> simp_all⟩
  · have e : compBytesOf f = le4 := by funext v; simp [compBytesOf, hb]
    rw [hb] at h
    simp only [samplesOf, hb, e]
    exact ⟨by simpa using words32_le4 vs (by simpa using h), length_flatMap_le4 vs⟩

theorem writeImage_eq (f : Fmt) (hw : f.WF) (sx sy : Nat) (comps : List Nat) (hlen : comps.length = sx * sy * f.stride) :
    writeImage f sx sy comps = some (header f sx sy ++ payloadWith compSel f sx sy comps ++ [10]) := by
  unfold writeImage writeImageWith
  rw [if_pos]
  rw [List.all_eq_true]
  intro i hi
  have := reads_lt f hw sx sy i hi
  simpa [hlen] using this

theorem decode_file (f : Fmt) (hw : f.WF) (sx sy : Nat) (comps : List Nat)
    (hr : ∀ v ∈ comps, v < 256 ^ f.compBytes) :
    decode (header f sx sy ++ payloadWith compSel f sx sy comps ++ [10]) =
      some ⟨f.magic, sx, sy, f.nComp, if f.compBytes = 1 then some 255 else none, true, samples f sx sy comps⟩ := by
  have hw' := hw
  obtain ⟨_, _, _, hb, hm1, hm2, ht1, ht2, hk, hti⟩ := hw
  have hB : 0 < 256 ^ f.compBytes := Nat.pow_pos (by omega)
  obtain ⟨hs1, hs2⟩ := samplesOf_payload f hw' (samples f sx sy comps) (samples_lt f sx sy comps _ hB hr)
  rw [payload_eq]
  generalize hp : (samples f sx sy comps).flatMap (compBytesOf f) = payload at *
  have hshape : header f sx sy ++ payload ++ [10] =
      f.magic ++ 10 :: (dec sx ++ 32 :: (dec sy ++ 10 :: (f.third ++ 10 :: (payload ++ [10])))) := by
    simp [header, List.append_assoc]
  rw [hshape]
  unfold decode
  have w10 : isWs 10 = true := by decide
  have w32 : isWs 32 = true := by decide
  have e1 := token_nonws f.magic (dec sx ++ 32 :: (dec sy ++ 10 :: (f.third ++ 10 :: (payload ++ [10])))) 10 hm1 hm2 w10
  have e2 : token (10 :: (dec sx ++ 32 :: (dec sy ++ 10 :: (f.third ++ 10 :: (payload ++ [10]))))) = _ :=
    (token_cons_ws 10 _ w10).trans (token_nonws (dec sx) _ 32 (dec_not_ws sx) (dec_ne_nil sx) w32)
  have e3 : token (32 :: (dec sy ++ 10 :: (f.third ++ 10 :: (payload ++ [10])))) = _ :=
    (token_cons_ws 32 _ w32).trans (token_nonws (dec sy) _ 10 (dec_not_ws sy) (dec_ne_nil sy) w10)
  have e4 : token (10 :: (f.third ++ 10 :: (payload ++ [10]))) = _ :=
    (token_cons_ws 10 _ w10).trans (token_nonws f.third _ 10 ht1 ht2 w10)
  simp only [e1, e2, e3, e4, w10, hk, parseDec_dec, hti, Bool.not_true, Bool.false_eq_true, if_false]
  have hneed : sx * sy * f.nComp * f.compBytes = payload.length := by
    rw [hs2, length_samples]
    ac_rfl
  rw [hneed, if_neg (by simp), List.take_left' rfl, hs1]



theorem samples_getElem? (f : Fmt) (hw : f.WF) (sx sy : Nat) (comps : List Nat)
    (hlen : comps.length = sx * sy * f.stride) (y x k : Nat) (hy : y < sy) (hx : x < sx) (hk : k < f.nComp) :
    (samples f sx sy comps)[(y * sx + x) * f.nComp + k]? =
      comps[(srcRow f sy y * sx + x) * f.stride + compSel f k]? := by
  have hidx := srcIdx_lt f hw sx sy y x k hy hx hk
  obtain ⟨hst, _⟩ := hw
  have h1 : (y * sx + x) * f.nComp + k = y * (f.nComp * sx) + (x * f.nComp + k) := by
    rw [Nat.add_mul, Nat.mul_assoc, Nat.mul_comm sx f.nComp]; omega
  have h2 : x * f.nComp + k < f.nComp * sx := by
    have : (x + 1) * f.nComp ≤ sx * f.nComp := Nat.mul_le_mul_right _ hx
    rw [Nat.succ_mul] at this
    rw [Nat.mul_comm f.nComp sx]; omega
  rw [h1, samples, getElem?_flatMap_range_uniform _ (f.nComp * sx) sy
    (fun _ _ => length_pixRow f compSel sx _) y _ hy h2]
  rw [pixRow, getElem?_flatMap_range_uniform _ f.nComp sx (fun _ _ => by simp) x k hx hk]
  simp only [List.getElem?_map, List.getElem?_range hk, Option.map_some]
  have h3 : srcRow f sy y * sx * f.stride + inIdx f compSel x k =
      (srcRow f sy y * sx + x) * f.stride + compSel f k := by
    rw [inIdx, hst, Nat.add_mul, Nat.mul_comm x]; omega
  unfold srcIdx at hidx
  rw [h3] at hidx ⊢
  rw [List.getD_eq_getElem?_getD, List.getElem?_eq_getElem (by omega)]
  simp


/-! ## uint32 pixels as bytes -/

/-- 32-bit pixel words as the 8-bit writers see them -/
theorem bytesOfWords_getElem? (ws : List Nat) (p k : Nat) (hk : k < 4) :
    (bytesOfWords ws)[p * 4 + k]? = (ws[p]?).map fun v => v / 256 ^ k % 256 := by
  induction ws generalizing p with
  | nil => simp [bytesOfWords]
  | cons v ws ih =>
    have ih' := ih
    simp only [bytesOfWords] at ih' ⊢
    cases p with
    | zero =>
      have : k = 0 ∨ k = 1 ∨ k = 2 ∨ k = 3 := by omega
      rcases this with rfl | rfl | rfl | rfl <;> simp
    | succ p =>
      have e : (p + 1) * 4 + k = (p * 4 + k) + 4 := by omega
      rw [e, List.flatMap_cons]
      simpa using ih' p

theorem length_bytesOfWords (ws : List Nat) : (bytesOfWords ws).length = ws.length * 4 := by
  induction ws with
  | nil => rfl
  | cons v ws ih => simp only [bytesOfWords] at ih ⊢; simp [List.flatMap_cons, ih]; omega

theorem bytesOfWords_lt (ws : List Nat) : ∀ v ∈ bytesOfWords ws, v < 256 := by
  intro v hv
  simp only [bytesOfWords, List.mem_flatMap] at hv
  obtain ⟨w, _, hw⟩ := hv
  simp at hw
  omega


end RkVerif.C20
