/-
Model for C02 — schedule() / async() / AsyncTask of rkcommon/tasking.  Core Lean only (the driver links it).

Three transition systems, all under sequential consistency; every transition is one access of one
thread to the modelled objects, threads interleave arbitrarily (the step relation takes the *action* as
an argument, `Reach` quantifies over every finite action sequence):

* `AsyncTaskM` (`ASt`, `aNext`): one `AsyncTask<T>` object.  The class is described by a `Table`
  (declaration order of the three data members, the statements of the task lambda, whether the
  destructor waits, the shape of get(), the flag's initialiser); `RkVerif.Gen.C02Table` is that table
  read from rkcommon/tasking/AsyncTask.h on every run (props/c02.py).  The controller thread constructs
  the members in declaration order, then calls finished()/get()/wait()/~AsyncTask in any order; the
  task becomes runnable when `taskImpl` is constructed and may take its steps at any later point
  (immediately and completely for the Debug backend, inside wait() for a scheduler without workers —
  both are particular interleavings).  `retValue` is a lifetime slot raw | dflt | res.

* `ScheduleM` (`SSt`, `sNext`): the heap tasks of `schedule_internal` (Internal backend): any number of
  them, each `new`ed by a caller, added to the pipe (or executed inline when the pipe is full), popped by
  a worker (or by a caller that is inside WaitforTask), its closure run, its running count decremented
  by the scheduler *after* ExecuteRange returned, and its memory released either by itself inside
  ExecuteRange (`selfDelete`, the pinned code) or by the owner list of
  `scheduleDetachedTaskInternal` once `GetIsComplete()` (fixes/C02-internal-schedule-uaf.patch).
  Every access to a task allocation that is no longer live sets `uaf`.

* `AsyncM` (`PCell`, `runClosure`): the heap `std::packaged_task` of async(): the scheduled closure
  invokes it (the future receives the value) and deletes it.
-/
namespace RkVerif.C02

/-- States reachable from `init` by any finite sequence of actions (= any interleaving). -/
inductive Reach {σ α : Type} (next : σ → α → Option σ) (init : σ) : σ → Prop
  | init : Reach next init init
  | step {s s' : σ} (a : α) : Reach next init s → next s a = some s' → Reach next init s'

/-- run an action list (most recent action first); a disabled action ends the run with `none` -/
def runActs {σ α : Type} (next : σ → α → Option σ) (init : σ) : List α → Option σ
  | [] => some init
  | a :: earlier =>
      match runActs next init earlier with
      | some s => next s a
      | none => none

/-! ## AsyncTaskM -/

inductive Member | jobFinished | retValue | taskImpl
  deriving DecidableEq, Repr, Inhabited

/-- statements of the task lambda `[this, fcn]() { retValue = fcn(); jobFinished = true; }` -/
inductive TaskOp | assignRet | setFinished
  deriving DecidableEq, Repr, Inhabited

/-- shape of `T get()`: `if (!jobFinished) wait(); return retValue;` | `wait(); return retValue;` | `return retValue;` -/
inductive GetKind | checkThenWait | alwaysWait | noWait
  deriving DecidableEq, Repr, Inhabited

/-- What the check reads from the class definition. -/
structure Table where
  /-- declaration (= construction) order of the three data members -/
  order : List Member
  /-- `jobFinished` has the initialiser `{false}` -/
  flagInit : Bool
  /-- statements of the task lambda, in order -/
  taskProg : List TaskOp
  /-- `~AsyncTask()` calls `wait()` before the members are destroyed -/
  dtorWaits : Bool
  getKind : GetKind
  deriving DecidableEq, Repr

/-- the class after fixes/C02-asynctask-member-order.patch -/
def Table.reference : Table :=
  { order := [.jobFinished, .retValue, .taskImpl], flagInit := true,
    taskProg := [.assignRet, .setFinished], dtorWaits := true, getKind := .checkThenWait }

/-- the class as pinned: `retValue` declared after `taskImpl` -/
def Table.pinned : Table := { Table.reference with order := [.jobFinished, .taskImpl, .retValue] }

/-- storage of `retValue`: not yet constructed | default-constructed | holds the value `fcn()` returned -/
inductive Slot | raw | dflt | res
  deriving DecidableEq, Repr, Inhabited

def Slot.isRaw : Slot → Bool
  | .raw => true
  | _ => false
def Slot.isRes : Slot → Bool
  | .res => true
  | _ => false

/-- where the controlling thread is -/
inductive Ctl
  | ctor (rest : List Member)   -- in the constructor: members still to be constructed
  | idle                        -- object complete, no call in progress
  | getWait                     -- get(): inside wait()
  | getRead                     -- get(): about to `return retValue`
  | inWait                      -- wait()
  | dtorWait                    -- ~AsyncTask(): inside wait()
  | dtorMembers                 -- ~AsyncTask(): body done, members about to be destroyed
  | gone                        -- destructor returned: the object's memory is released
  deriving DecidableEq, Repr, Inhabited

def Ctl.isGone : Ctl → Bool
  | .gone => true
  | _ => false

structure ASt where
  ctl : Ctl
  ret : Slot
  /-- `jobFinished` has been constructed -/
  finBuilt : Bool
  /-- value of `jobFinished` -/
  fin : Bool
  /-- `taskImpl` has been constructed: the task is runnable -/
  started : Bool
  /-- statements of the task still to be executed -/
  trest : List TaskOp
  /-- the backend has finished with the task (function returned, bookkeeping done): wait() returns only then -/
  completed : Bool
  /-- ghost: a payload operation on raw storage, or an access to the object after its destructor returned -/
  err : Bool
  /-- ghost: `retValue` was written while `jobFinished` was already true -/
  lateWrite : Bool
  /-- ghost: some get() returned something else than the value of `fcn()` -/
  badGet : Bool
  /-- ghost: finished() returned true while `retValue` did not hold the value of `fcn()` -/
  finishedLied : Bool
  deriving DecidableEq, Repr

def aInit (t : Table) : ASt :=
  { ctl := .ctor t.order, ret := .raw, finBuilt := false, fin := !t.flagInit, started := false,
    trest := t.taskProg, completed := false, err := false, lateWrite := false, badGet := false,
    finishedLied := false }

inductive AAct
  | ctl            -- the controlling thread continues what it is doing (constructor, wait, get, destructor)
  | callFinished | callGet | callWait | callDtor   -- it starts a member function (only when idle)
  | task           -- the task (another thread, or the same one inside the constructor / wait) takes one step
  deriving DecidableEq, Repr, Inhabited

def construct (t : Table) (s : ASt) : Member → ASt
  | .jobFinished => { s with finBuilt := true, fin := if t.flagInit then false else s.fin }
  | .retValue => { s with ret := .dflt }     -- whatever was there is overwritten
  | .taskImpl => { s with started := true }

def taskOp (s : ASt) : TaskOp → ASt
  | .assignRet =>
      { s with ret := .res, err := s.err || s.ret.isRaw || s.ctl.isGone, lateWrite := s.lateWrite || s.fin }
  | .setFinished => { s with fin := true, err := s.err || !s.finBuilt || s.ctl.isGone }

def getEntry (t : Table) (s : ASt) : Ctl :=
  match t.getKind with
  | .checkThenWait => if s.fin then .getRead else .getWait
  | .alwaysWait => .getWait
  | .noWait => .getRead

def aNext (t : Table) (s : ASt) : AAct → Option ASt
  | .task =>
      if s.started && !s.completed then
        match s.trest with
        | op :: rest => some { taskOp s op with trest := rest }
        | [] => some { s with completed := true, err := s.err || s.ctl.isGone }
      else none
  | .ctl =>
      match s.ctl with
      | .ctor (m :: rest) => some { construct t s m with ctl := .ctor rest }
      | .ctor [] => some { s with ctl := .idle }
      | .getWait => if s.completed then some { s with ctl := .getRead } else none
      | .getRead =>
          some { s with ctl := .idle, badGet := s.badGet || !s.ret.isRes, err := s.err || s.ret.isRaw }
      | .inWait => if s.completed then some { s with ctl := .idle } else none
      | .dtorWait => if s.completed then some { s with ctl := .dtorMembers } else none
      | .dtorMembers => some { s with ctl := .gone }
      | .idle => none
      | .gone => none
  | .callFinished =>
      match s.ctl with
      | .idle => some { s with finishedLied := s.finishedLied || (s.fin && !s.ret.isRes) }
      | _ => none
  | .callGet =>
      match s.ctl with
      | .idle => some { s with ctl := getEntry t s }
      | _ => none
  | .callWait =>
      match s.ctl with
      | .idle => some { s with ctl := .inWait }
      | _ => none
  | .callDtor =>
      match s.ctl with
      | .idle => some { s with ctl := if t.dtorWaits then .dtorWait else .dtorMembers }
      | _ => none

/-- members: `jobFinished` and `retValue` exactly once and before `taskImpl`, `taskImpl` exactly once, nothing after it
    (arguments: flag constructed, result constructed, task started) -/
def okOrder : List Member → Bool → Bool → Bool → Bool
  | [], _, _, tk => tk
  | .taskImpl :: rest, f, r, tk => f && r && !tk && okOrder rest f r true
  | .jobFinished :: rest, f, r, tk => !tk && !f && okOrder rest true r tk
  | .retValue :: rest, f, r, tk => !tk && !r && okOrder rest f true tk

/-- task statements: the result is assigned before the flag is set and never after
    (arguments: `retValue` holds the result, flag set) -/
def okProg : List TaskOp → Bool → Bool → Bool
  | [], a, f => a && f
  | .assignRet :: rest, _, f => !f && okProg rest true f
  | .setFinished :: rest, a, _ => a && okProg rest a true

/-- the shape of the class for which `asynctask_safe` is proved -/
def Table.wf (t : Table) : Bool :=
  okOrder t.order false false false && t.flagInit && okProg t.taskProg false false && t.dtorWaits &&
    t.getKind != .noWait

/-- Debug-backend schedule of a controller call sequence (`f`inished, `g`et, `w`ait, `d`estroy): the task runs
    to completion inside the constructor of `taskImpl` (the driver executes the model along it). -/
def ctlActs : Char → List AAct
  | 'f' => [.callFinished]
  | 'g' => [.callGet, .ctl, .ctl]      -- second .ctl is disabled/ignored on the non-waiting path
  | 'w' => [.callWait, .ctl]
  | 'd' => [.callDtor, .ctl, .ctl]
  | _ => []

/-- apply an action if enabled, otherwise stay -/
def aTry (t : Table) (s : ASt) (a : AAct) : ASt := (aNext t s a).getD s

/-- run the task as far as it can go -/
def aDrain (t : Table) (s : ASt) : Nat → ASt
  | 0 => s
  | n + 1 => match aNext t s .task with
             | some s' => aDrain t s' n
             | none => s

/-- constructor under the eager schedule: after every member the task runs as far as it can -/
def aConstruct (t : Table) (s : ASt) : Nat → ASt
  | 0 => s
  | n + 1 =>
      match s.ctl with
      | .ctor _ => aConstruct t (aDrain t (aTry t s .ctl) (t.taskProg.length + 1)) n
      | _ => s

/-- one controller call, token = what the harness prints for it -/
def aCall (t : Table) (s : ASt) (c : Char) : ASt × String :=
  let s1 := (ctlActs c).foldl (fun s a => aDrain t (aTry t s a) (t.taskProg.length + 1)) s
  let tok :=
    match c with
    | 'f' => if s1.finishedLied then "f0" else "f"
    | 'g' => if s1.badGet then "g0" else "g1"
    | 'w' => if s1.completed && s1.ctl == .idle then "w1" else "w0"
    | 'd' => if s1.completed && s1.ctl == .gone then "d1" else "d0"
    | _ => "?"
  (s1, tok)

/-! ## ScheduleM -/

inductive Phase
  | fresh     -- allocated, not yet handed to the scheduler
  | queued    -- one partition in a pipe, m_RunningCount = 1
  | running   -- popped (or taken inline), ExecuteRange not yet returned
  | ran       -- ExecuteRange returned, the scheduler's decrement still to come
  | done      -- decremented
  deriving DecidableEq, Repr, Inhabited

/-- where the thread that called schedule() is with this task -/
inductive CStage
  | toAdd       -- before AddTaskSetToPipe
  | adding      -- inside AddTaskSetToPipe: pipe full, executing the task inline
  | waiting     -- inside WaitforTask(task)   (scheduler without worker threads)
  | recording   -- about to record the task in the owner list (a no-op without an owner)
  | released    -- schedule() returned
  deriving DecidableEq, Repr, Inhabited

structure Task where
  phase : Phase
  byCaller : Bool       -- executed by a calling thread (inline / from WaitforTask), else by a worker
  cstage : CStage
  live : Bool           -- the heap allocation of the LocalTask
  count : Nat           -- m_RunningCount
  recorded : Bool       -- in the owner list g_detached.tasks
  runs : Nat            -- how often the closure has been executed
  deriving DecidableEq, Repr, Inhabited

structure SCfg where
  /-- worker threads of the scheduler = numThreads − 1 -/
  workers : Nat
  /-- ExecuteRange ends with `delete this` -/
  selfDelete : Bool
  /-- ownership goes to scheduleDetachedTaskInternal (an owner list exists) -/
  detached : Bool
  /-- the owner records the task only after AddTaskSetToPipe -/
  recordAfterAdd : Bool
  /-- the owner deletes only tasks with GetIsComplete() -/
  reapGuarded : Bool
  /-- scheduleTaskInternal runs the task on the calling thread when there are no workers -/
  inlineNoWorkers : Bool
  deriving DecidableEq, Repr

/-- the code after fixes/C02-internal-schedule-uaf.patch and fixes/C02-internal-single-thread.patch -/
def SCfg.reference (workers : Nat) : SCfg :=
  { workers := workers, selfDelete := false, detached := true, recordAfterAdd := true, reapGuarded := true,
    inlineNoWorkers := true }

/-- the pinned code -/
def SCfg.pinned (workers : Nat) : SCfg :=
  { workers := workers, selfDelete := true, detached := false, recordAfterAdd := true, reapGuarded := true,
    inlineNoWorkers := false }

/-- no access to a released task -/
def SCfg.wfMem (c : SCfg) : Bool := !c.selfDelete && c.detached && c.recordAfterAdd && c.reapGuarded
/-- somebody runs queued tasks -/
def SCfg.wfLive (c : SCfg) : Bool := decide (1 ≤ c.workers) || c.inlineNoWorkers

structure SSt where
  /-- most recently allocated first -/
  tasks : List Task
  /-- ghost: some step read or wrote a task allocation that had been released -/
  uaf : Bool
  deriving DecidableEq, Repr

def sInit : SSt := { tasks := [], uaf := false }

inductive SAct
  | sched                         -- a thread calls schedule(): `new LocalTask`
  | add (i : Nat) (inl : Bool)    -- AddTaskSetToPipe: count := 0; count += 1; write to the pipe | pipe full: run inline
  | popW (i : Nat)                -- an idle worker takes the partition (TryRunTask)
  | popC (i : Nat)                -- a calling thread inside WaitforTask takes it
  | run (i : Nat)                 -- ExecuteRange: the closure runs (and `delete this` in the pinned code)
  | dec (i : Nat)                 -- AtomicAdd(&pTask->m_RunningCount, -1)
  | waitRet (i : Nat)             -- WaitforTask(task) reads m_RunningCount == 0 and returns
  | record (i : Nat)              -- g_detached.tasks.push_back(task)
  | reap (i : Nat)                -- the owner's sweep deletes the task
  deriving DecidableEq, Repr, Inhabited

def SAct.internal : SAct → Bool
  | .sched => false
  | _ => true

def updAt (l : List Task) (i : Nat) (f : Task → Task) : List Task :=
  match l, i with
  | [], _ => []
  | t :: rest, 0 => f t :: rest
  | t :: rest, i + 1 => t :: updAt rest i f

def Task.executing (t : Task) : Bool := t.phase == .running || t.phase == .ran

/-- workers currently executing a task -/
def busyW (s : SSt) : Nat := s.tasks.countP (fun t => t.executing && !t.byCaller)
/-- some calling thread is inside WaitforTask -/
def callerWaiting (s : SSt) : Bool := s.tasks.any (fun t => t.cstage == .waiting)

def afterAdd (c : SCfg) : CStage := if c.inlineNoWorkers && c.workers == 0 then .waiting else .recording

def newTask (c : SCfg) : Task :=
  { phase := .fresh, byCaller := false, cstage := .toAdd, live := true, count := 0,
    recorded := c.detached && !c.recordAfterAdd, runs := 0 }

/-- step of task `t` (index `i`): guard, then the new task; every such step accesses the allocation -/
def onTask (s : SSt) (i : Nat) (guard : Task → Bool) (f : Task → Task) (touches : Bool := true) : Option SSt :=
  match s.tasks[i]? with
  | none => none
  | some t =>
      if guard t then some { tasks := updAt s.tasks i f, uaf := s.uaf || (touches && !t.live) } else none

def sNext (c : SCfg) (s : SSt) : SAct → Option SSt
  | .sched => some { s with tasks := newTask c :: s.tasks }
  | .add i inl =>
      onTask s i (fun t => t.phase == .fresh && t.cstage == .toAdd)
        (fun t => { t with count := 1, phase := if inl then .running else .queued, byCaller := inl,
                           cstage := if inl then .adding else afterAdd c })
  | .popW i =>
      if busyW s < c.workers then
        onTask s i (fun t => t.phase == .queued) (fun t => { t with phase := .running, byCaller := false })
      else none
  | .popC i =>
      if callerWaiting s then
        onTask s i (fun t => t.phase == .queued) (fun t => { t with phase := .running, byCaller := true })
      else none
  | .run i =>
      onTask s i (fun t => t.phase == .running)
        (fun t => { t with phase := .ran, runs := t.runs + 1, live := t.live && !c.selfDelete })
  | .dec i =>
      onTask s i (fun t => t.phase == .ran)
        (fun t => { t with phase := .done, count := t.count - 1,
                           cstage := if t.cstage == .adding then afterAdd c else t.cstage })
  | .waitRet i =>
      onTask s i (fun t => t.cstage == .waiting && (t.phase == .done || !t.live))
        (fun t => { t with cstage := .recording })
  | .record i =>
      onTask s i (fun t => t.cstage == .recording)
        (fun t => { t with cstage := .released, recorded := t.recorded || c.detached }) (touches := false)
  | .reap i =>
      onTask s i (fun t => c.detached && t.recorded && t.live && (t.count == 0 || !c.reapGuarded))
        (fun t => { t with live := false })

/-- termination measure: every internal step lowers the weight of the task it acts on -/
def Phase.w : Phase → Nat
  | .fresh => 4 | .queued => 3 | .running => 2 | .ran => 1 | .done => 0
def CStage.w : CStage → Nat
  | .toAdd => 4 | .adding => 3 | .waiting => 2 | .recording => 1 | .released => 0
def Task.w (t : Task) : Nat := t.phase.w + t.cstage.w + (if t.live then 1 else 0)
def total : List Task → Nat
  | [] => 0
  | t :: rest => t.w + total rest

/-- the internal actions on task index `i` -/
def actsOn (i : Nat) : List SAct :=
  [.add i false, .popW i, .popC i, .run i, .dec i, .waitRet i, .record i, .reap i]

/-- first enabled internal action on the newest tasks first (the driver's canonical schedule) -/
def firstEnabled (c : SCfg) (s : SSt) : Nat → Nat → Option SSt
  | _, 0 => none
  | i, n + 1 =>
      match (actsOn i).findSome? (sNext c s) with
      | some s' => some s'
      | none => firstEnabled c s (i + 1) n

/-- run internal steps until none is enabled (fuel-bounded) -/
def quiesce (c : SCfg) (s : SSt) : Nat → SSt
  | 0 => s
  | n + 1 =>
      match firstEnabled c s 0 s.tasks.length with
      | some s' => quiesce c s' n
      | none => s

/-- schedule one closure and, eagerly, everything that is enabled for it (index 0 = the new task) -/
def schedEager (c : SCfg) (s : SSt) : SSt :=
  match sNext c s .sched with
  | none => s
  | some s1 =>
      (List.range 8).foldl (fun s _ => ((actsOn 0).findSome? (sNext c s)).getD s) s1

/-! ## AsyncM -/

/-- the heap `std::packaged_task` of async() and the shared state of its future -/
structure PCell where
  live : Bool
  future : Option Nat
  /-- ghost: the closure touched the packaged_task after it had been deleted -/
  err : Bool
  deriving DecidableEq, Repr

def pInit : PCell := { live := true, future := none, err := false }

/-- the scheduled closure `[=]() { (*task)(); delete task; }`, `v` = what the user's function returns -/
def runClosure (v : Nat) (p : PCell) : PCell :=
  if p.live then { live := false, future := some v, err := p.err } else { p with err := true }

def runClosureN (v : Nat) : Nat → PCell
  | 0 => pInit
  | n + 1 => runClosure v (runClosureN v n)

end RkVerif.C02
