/-
Model of rkcommon::utility::Observable / Observer (rkcommon/utility/Observer.h) and
rkcommon::utility::TimeStamp (rkcommon/utility/TimeStamp.{h,cpp}).

Hand-written, executable, core Lean only.  Tied to the source by the correspondence check
(harness/c19.cpp vs Driver/C19.lean) and by the source-shape check in props/c19.py
(the counter is a std::atomic, nextValue is one read-modify-write).

`ObsM` (single thread, as the classes are not synchronised):
  * objects live in slots (slot number = address; a slot can be reused after destruction,
    which is how address reuse is modelled); `none` = no live object at that address
  * every member access through a pointer is a *dereference*: when the pointee is not live
    the model sets `fault` (the real code would read/write freed memory)
  * the code after the fixes C19-observer-copy / C19-observable-copy is modelled:
      Observable()                     lastNotified{nextValue()}, no observers
      Observable(const Observable&)    same as Observable()  (registrations are not copied)
      operator=(const Observable&)     nothing
      ~Observable()                    for (o : observers) o->observee = nullptr
      notifyObservers()                lastNotified.renew()
      Observer(Observable& b)          lastObserved{nextValue()}, observee=&b, b.observers.push_back(this)
      Observer(const Observer& x)      lastObserved(x.lastObserved)  [TimeStamp copy ctor: takes a
                                       counter value, then overwrites it], observee=x.observee,
                                       if (observee) observee->observers.push_back(this)
      operator=(const Observer& x)     if (observee) observee->remove(this); lastObserved=x.lastObserved;
                                       observee=x.observee; if (observee) observee->push_back(this)
      ~Observer()                      if (observee) observee->remove(this)   [erase-remove: all occurrences]
      wasNotified()                    if (!observee) return false;
                                       n = lastObserved < observee->lastNotified; if (n) lastObserved.renew(); return n

`StampM` (any number of threads): micro-steps
      fetchInc t     reg[t] := global++          (one atomic read-modify-write)
      store t s      stamp[s].value := reg[t]
      load t s       reg[t] := stamp[s].value
  TimeStamp()  = fetchInc; store        renew() = fetchInc; store
  copy ctor    = fetchInc; store; load src; store      operator= = load src; store
  A schedule is any list of micro-steps (any interleaving of any number of threads).
-/
namespace RkVerif.C19

def upd {α : Type} (f : Nat → α) (k : Nat) (v : α) : Nat → α := fun x => if x = k then v else f x

/-! ### ObsM — concrete model -/

structure Obl where
  lastNotified : Nat
  observers : List Nat
deriving Repr, DecidableEq

structure Obr where
  lastObserved : Nat
  observee : Option Nat
deriving Repr, DecidableEq

structure St where
  counter : Nat := 0
  obl : Nat → Option Obl := fun _ => none
  obr : Nat → Option Obr := fun _ => none
  fault : Bool := false

inductive Op where
  | bnew (b : Nat)
  | bdel (b : Nat)
  | bcopy (b src : Nat)
  | bassign (b src : Nat)
  | onew (o b : Nat)
  | odel (o : Nat)
  | ocopy (o src : Nat)
  | oassign (o src : Nat)
  | notify (b : Nat)
  | poll (o : Nat)
deriving Repr, DecidableEq

inductive Out where
  | ok
  | skip           -- the operation does not apply (slot occupied / empty); nothing happens
  | res (r : Bool) -- result of wasNotified()
deriving Repr, DecidableEq

/-- `observee->registerObserver(*this)` : dereferences `b`. -/
def register (s : St) (b o : Nat) : St :=
  match s.obl b with
  | none => { s with fault := true }
  | some B => { s with obl := upd s.obl b (some { B with observers := B.observers ++ [o] }) }

/-- `observee->removeObserver(*this)` : dereferences `b`; erase-remove drops every occurrence. -/
def unregister (s : St) (b o : Nat) : St :=
  match s.obl b with
  | none => { s with fault := true }
  | some B => { s with obl := upd s.obl b (some { B with observers := B.observers.filter (· ≠ o) }) }

def registerOpt (s : St) (ob : Option Nat) (o : Nat) : St :=
  match ob with
  | none => s
  | some b => register s b o

def unregisterOpt (s : St) (ob : Option Nat) (o : Nat) : St :=
  match ob with
  | none => s
  | some b => unregister s b o

/-- the loop of `~Observable`: `observer->observee = nullptr` for every registered pointer. -/
def orphanAll (s : St) : List Nat → St
  | [] => s
  | o :: rest =>
    match s.obr o with
    | none => orphanAll { s with fault := true } rest
    | some c => orphanAll { s with obr := upd s.obr o (some { c with observee := none }) } rest

/-- `Observer::wasNotified()` of the live observer `c` in slot `o`. -/
def wasNotified (s : St) (o : Nat) (c : Obr) : St × Bool :=
  match c.observee with
  | none => (s, false)
  | some b =>
    match s.obl b with
    | none => ({ s with fault := true }, false)
    | some B =>
      if c.lastObserved < B.lastNotified then
        ({ s with counter := s.counter + 1,
                  obr := upd s.obr o (some { c with lastObserved := s.counter }) }, true)
      else (s, false)

def stepC (s : St) : Op → St × Out
  | .bnew b =>
    match s.obl b with
    | some _ => (s, .skip)
    | none => ({ s with counter := s.counter + 1, obl := upd s.obl b (some ⟨s.counter, []⟩) }, .ok)
  | .bcopy b src =>
    match s.obl b, s.obl src with
    | none, some _ => ({ s with counter := s.counter + 1, obl := upd s.obl b (some ⟨s.counter, []⟩) }, .ok)
    | _, _ => (s, .skip)
  | .bassign b src =>
    match s.obl b, s.obl src with
    | some _, some _ => (s, .ok)
    | _, _ => (s, .skip)
  | .bdel b =>
    match s.obl b with
    | none => (s, .skip)
    | some B => let s1 := orphanAll s B.observers; ({ s1 with obl := upd s1.obl b none }, .ok)
  | .onew o b =>
    match s.obr o, s.obl b with
    | none, some _ =>
      (register { s with counter := s.counter + 1, obr := upd s.obr o (some ⟨s.counter, some b⟩) } b o, .ok)
    | _, _ => (s, .skip)
  | .ocopy o src =>
    match s.obr o, s.obr src with
    | none, some x =>
      (registerOpt { s with counter := s.counter + 1, obr := upd s.obr o (some ⟨x.lastObserved, x.observee⟩) }
        x.observee o, .ok)
    | _, _ => (s, .skip)
  | .oassign o src =>
    match s.obr o, s.obr src with
    | some c, some x =>
      let s1 := unregisterOpt s c.observee o
      (registerOpt { s1 with obr := upd s1.obr o (some ⟨x.lastObserved, x.observee⟩) } x.observee o, .ok)
    | _, _ => (s, .skip)
  | .odel o =>
    match s.obr o with
    | none => (s, .skip)
    | some c => let s1 := unregisterOpt s c.observee o; ({ s1 with obr := upd s1.obr o none }, .ok)
  | .notify b =>
    match s.obl b with
    | none => (s, .skip)
    | some B => ({ s with counter := s.counter + 1, obl := upd s.obl b (some { B with lastNotified := s.counter }) }, .ok)
  | .poll o =>
    match s.obr o with
    | none => (s, .skip)
    | some c => let (s1, r) := wasNotified s o c; (s1, .res r)

/-- `n` stamps are drawn from the process-wide counter by code unrelated to these observers. -/
def jump (s : St) (n : Nat) : St := { s with counter := s.counter + n }

/-- History most-recent-first: final state and the outputs (most recent first). -/
def runC : List Op → St × List Out
  | [] => ({}, [])
  | op :: earlier =>
    let (s, outs) := runC earlier
    let (s', o) := stepC s op
    (s', o :: outs)

/-! ### ObsM — abstract specification: one `pending` bit per observer -/

structure AObr where
  pending : Bool
  target : Option Nat
deriving Repr, DecidableEq

structure ASt where
  alive : Nat → Bool := fun _ => false
  obs : Nat → Option AObr := fun _ => none

/-- apply `f` to every observer whose target is `b`. -/
def mapTarget (obs : Nat → Option AObr) (b : Nat) (f : AObr → AObr) : Nat → Option AObr :=
  fun o => match obs o with
    | none => none
    | some x => if x.target = some b then some (f x) else some x

def stepA (a : ASt) : Op → ASt × Out
  | .bnew b => if a.alive b then (a, .skip) else ({ a with alive := upd a.alive b true }, .ok)
  | .bcopy b src =>
    if !a.alive b && a.alive src then ({ a with alive := upd a.alive b true }, .ok) else (a, .skip)
  | .bassign b src => if a.alive b && a.alive src then (a, .ok) else (a, .skip)
  | .bdel b =>
    if a.alive b then
      ({ alive := upd a.alive b false, obs := mapTarget a.obs b (fun _ => ⟨false, none⟩) }, .ok)
    else (a, .skip)
  | .onew o b =>
    match a.obs o, a.alive b with
    | none, true => ({ a with obs := upd a.obs o (some ⟨false, some b⟩) }, .ok)
    | _, _ => (a, .skip)
  | .ocopy o src =>
    match a.obs o, a.obs src with
    | none, some x => ({ a with obs := upd a.obs o (some x) }, .ok)
    | _, _ => (a, .skip)
  | .oassign o src =>
    match a.obs o, a.obs src with
    | some _, some x => ({ a with obs := upd a.obs o (some x) }, .ok)
    | _, _ => (a, .skip)
  | .odel o =>
    match a.obs o with
    | none => (a, .skip)
    | some _ => ({ a with obs := upd a.obs o none }, .ok)
  | .notify b =>
    if a.alive b then ({ a with obs := mapTarget a.obs b (fun x => { x with pending := true }) }, .ok)
    else (a, .skip)
  | .poll o =>
    match a.obs o with
    | none => (a, .skip)
    | some x => ({ a with obs := upd a.obs o (some { x with pending := false }) }, .res x.pending)

def runA : List Op → ASt × List Out
  | [] => ({}, [])
  | op :: earlier =>
    let (a, outs) := runA earlier
    let (a', o) := stepA a op
    (a', o :: outs)

/-! ### StampM -/

structure SSt where
  counter : Nat := 0
  reg : Nat → Nat := fun _ => 0
  stamp : Nat → Nat := fun _ => 0
  /-- values handed out by the counter, most recent first: (thread, value) -/
  log : List (Nat × Nat) := []

inductive SStep where
  | fetchInc (t : Nat)
  | store (t s : Nat)
  | load (t s : Nat)
deriving Repr, DecidableEq

def SStep.thread : SStep → Nat
  | .fetchInc t => t
  | .store t _ => t
  | .load t _ => t

def sstep (s : SSt) : SStep → SSt
  | .fetchInc t => { s with counter := s.counter + 1, reg := upd s.reg t s.counter, log := (t, s.counter) :: s.log }
  | .store t k => { s with stamp := upd s.stamp k (s.reg t) }
  | .load t k => { s with reg := upd s.reg t (s.stamp k) }

/-- run a schedule (most-recent-first list of micro-steps) from state `s0`. -/
def srun (s0 : SSt) : List SStep → SSt
  | [] => s0
  | st :: earlier => sstep (srun s0 earlier) st

/-- values obtained by thread `t`, most recent first. -/
def issuedTo (s : SSt) (t : Nat) : List Nat := (s.log.filter (fun e => e.1 == t)).map Prod.snd

def issued (s : SSt) : List Nat := s.log.map Prod.snd

/-- programs of the stamp operations as micro-step lists in execution order. -/
def progCreate (t k : Nat) : List SStep := [.fetchInc t, .store t k]
def progRenew (t k : Nat) : List SStep := [.fetchInc t, .store t k]
def progCopyCtor (t dst src : Nat) : List SStep := [.fetchInc t, .store t dst, .load t src, .store t dst]
def progAssign (t dst src : Nat) : List SStep := [.load t src, .store t dst]

/-- execute micro-steps given in execution order. -/
def sexec (s : SSt) (steps : List SStep) : SSt := steps.foldl sstep s

end RkVerif.C19
