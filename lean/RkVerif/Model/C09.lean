/-
Model of rkcommon::utility::Optional<T> (rkcommon/utility/Optional.h, with getEnvVar.h on top)
and rkcommon::utility::Any (rkcommon/utility/Any.h; the `HasOperatorEquals` switch of
traits/rktraits.h).  Hand-written, executable, core Lean only.  Tied to the source by the
correspondence check (harness/c09.cpp vs Driver/C09.lean).

Optional<T> is `{ alignas(T) byte storage[sizeof T]; bool hasValue; }`.  The model keeps, per
wrapper object, the flag and an object-lifetime view of the storage (`Slot = raw | live v`), and
every member function is the sequence of *payload events* the source performs, in source order:
construct (placement new), destroy (explicit destructor call), assign-to, read-from, move-from.
A payload operation on a raw slot, a construction on a live slot, and a wrapper object dying
while its storage still holds a live payload are *error outcomes* recorded in `errs` — never
defaults.  Per wrapper slot the world counts constructions (`born`) and destructions (`died`).

The definitions without suffix follow the source *with the fixes/C09-*.patch repairs applied*;
the `_prefix` definitions are the same member functions as they were before the repairs and are
only used for the negative witnesses in Props/C09.lean.
-/
namespace RkVerif.C09

/-! ## Payload values and storage slots -/

/-- A payload value: a token (`v n`), or the unspecified value of a moved-from object. -/
inductive Val where
  | v (n : Nat)
  | unspec
deriving DecidableEq, Repr, Inhabited

/-- `T()` — every payload type of the harness value-initialises to token 0. -/
def Val.dflt : Val := .v 0

inductive Slot where
  | raw
  | live (x : Val)
deriving DecidableEq, Repr, Inhabited

def Slot.isLive : Slot → Bool
  | .raw => false
  | .live _ => true

inductive Err where
  | constructOnLive   -- placement new over a live payload (the old one is never destroyed)
  | destroyRaw        -- destructor call on storage holding no object
  | assignRaw         -- assignment to storage holding no object
  | readRaw           -- copy/move from storage holding no object
  | leak              -- the wrapper object's storage goes away while a payload is live
deriving DecidableEq, Repr

/-- One Optional<T> object. -/
structure Opt where
  hasValue : Bool
  storage : Slot
deriving DecidableEq, Repr, Inhabited

/-- Function update. -/
def upd {α : Type} (f : Nat → α) (i : Nat) (a : α) : Nat → α := fun k => if k = i then a else f k

/-- All wrapper objects of a history, addressed by slot number (`none` = no object there). -/
structure World where
  w : Nat → Option Opt := fun _ => none
  born : Nat → Nat := fun _ => 0
  died : Nat → Nat := fun _ => 0
  errs : List Err := []

instance : Inhabited World := ⟨{}⟩

def World.err (σ : World) (e : Err) : World := { σ with errs := e :: σ.errs }

/-! ## Payload events on the storage of wrapper `i` (no-ops when there is no wrapper) -/

def hasV (σ : World) (i : Nat) : Bool :=
  match σ.w i with
  | some o => o.hasValue
  | none => false

/-- `hasValue = b;` -/
def setHV (σ : World) (i : Nat) (b : Bool) : World :=
  match σ.w i with
  | some o => { σ with w := upd σ.w i (some { o with hasValue := b }) }
  | none => σ

/-- `new (storage.data()) T(x)` -/
def pConstruct (σ : World) (i : Nat) (x : Val) : World :=
  match σ.w i with
  | some o =>
    match o.storage with
    | .raw => { σ with w := upd σ.w i (some { o with storage := .live x }),
                       born := upd σ.born i (σ.born i + 1) }
    | .live _ => σ.err .constructOnLive
  | none => σ

/-- `value().~T()` -/
def pDestroy (σ : World) (i : Nat) : World :=
  match σ.w i with
  | some o =>
    match o.storage with
    | .live _ => { σ with w := upd σ.w i (some { o with storage := .raw }),
                          died := upd σ.died i (σ.died i + 1) }
    | .raw => σ.err .destroyRaw
  | none => σ

/-- `value() = x` -/
def pAssign (σ : World) (i : Nat) (x : Val) : World :=
  match σ.w i with
  | some o =>
    match o.storage with
    | .live _ => { σ with w := upd σ.w i (some { o with storage := .live x }) }
    | .raw => σ.err .assignRaw
  | none => σ

/-- reading `other.value()` as a copy source -/
def pRead (σ : World) (j : Nat) : Val × World :=
  match σ.w j with
  | some o =>
    match o.storage with
    | .live x => (x, σ)
    | .raw => (.unspec, σ.err .readRaw)
  | none => (.unspec, σ)

/-- reading `std::move(other.value())`: the source object stays alive with an unspecified value -/
def pMoveFrom (σ : World) (j : Nat) : Val × World :=
  match σ.w j with
  | some o =>
    match o.storage with
    | .live x => (x, { σ with w := upd σ.w j (some { o with storage := .live .unspec }) })
    | .raw => (.unspec, σ.err .readRaw)
  | none => (.unspec, σ)

/-- After a wrapper has been passed as an rvalue its payload value is unspecified for the caller,
    whether or not the callee actually moved from it (canonicalisation, not an event). -/
def forget (σ : World) (j : Nat) : World :=
  match σ.w j with
  | some o =>
    match o.storage with
    | .live _ => { σ with w := upd σ.w j (some { o with storage := .live .unspec }) }
    | .raw => σ
  | none => σ

/-- The bytes of a new wrapper object come into existence: `Optional() = default`
    (`hasValue{false}`, storage uninitialised). -/
def create (σ : World) (i : Nat) : World :=
  { σ with w := upd σ.w i (some { hasValue := false, storage := .raw }) }

/-- The bytes of wrapper `i` go away (end of `~Optional`). -/
def vanish (σ : World) (i : Nat) : World :=
  match σ.w i with
  | some o =>
    let σ' := { σ with w := upd σ.w i none }
    if o.storage.isLive then σ'.err .leak else σ'
  | none => σ

/-! ## Optional<T> member functions (source order of effects; `i` = this, `j` = other) -/

/-- `reset()`: `if (!is_trivially_destructible<T> && has_value()) value().~T(); hasValue = false;`
    (for a trivially destructible T the destructor call is a no-op; it is still the end of the
    payload's lifetime, so the model records it for every T). -/
def reset (σ : World) (i : Nat) : World :=
  let σ := if hasV σ i then pDestroy σ i else σ
  setHV σ i false

/-- `emplace(args)`: `reset(); new (storage.data()) T(args); hasValue = true;` -/
def emplace (σ : World) (i : Nat) (x : Val) : World :=
  setHV (pConstruct (reset σ i) i x) i true

/-- `default_construct_storage_if_needed()`: `if (!has_value()) new (storage.data()) T();` -/
def dcsin (σ : World) (i : Nat) : World :=
  if hasV σ i then σ else pConstruct σ i Val.dflt

/-- `operator=(U &&rhs)`: `default_construct_storage_if_needed(); value() = rhs; hasValue = true;` -/
def assignValue (σ : World) (i : Nat) (x : Val) : World :=
  setHV (pAssign (dcsin σ i) i x) i true

/-- `Optional(const T &value) { emplace(value); }` -/
def ctorValue (σ : World) (i : Nat) (x : Val) : World :=
  emplace (create σ i) i x

/-- `Optional(const Optional<T> &other) : Optional() { if (other.has_value()) *this = other.value(); }`
    (also the converting `Optional(const Optional<U>&)`: same statements). -/
def ctorCopy (σ : World) (i j : Nat) : World :=
  let σ := create σ i
  if hasV σ j then
    let σ := dcsin σ i
    let (x, σ) := pRead σ j
    setHV (pAssign σ i x) i true
  else σ

/-- `Optional(Optional<T> &&other) : Optional() { if (other.has_value()) emplace(std::move(other.value())); }`
    (also the converting `Optional(Optional<U>&&)`). -/
def ctorMove (σ : World) (i j : Nat) : World :=
  let σ := create σ i
  if hasV σ j then
    let σ := reset σ i
    let (x, σ) := pMoveFrom σ j
    setHV (pConstruct σ i x) i true
  else σ

/-- before fixes/C09-optional-move-ctor-construct.patch:
    `if (other.has_value()) { reset(); value() = std::move(other.value()); hasValue = true; }` -/
def ctorMove_prefix (σ : World) (i j : Nat) : World :=
  let σ := create σ i
  if hasV σ j then
    let σ := reset σ i
    let (x, σ) := pMoveFrom σ j
    setHV (pAssign σ i x) i true
  else σ

/-- `~Optional() { reset(); }` and the object's bytes go away. -/
def dtor (σ : World) (i : Nat) : World := vanish (reset σ i) i

/-- `operator=(const Optional &other)` (and `operator=(const Optional<U>&)`):
    `if (other.has_value()) { default_construct_storage_if_needed(); value() = other.value();
     hasValue = true; } else { reset(); }` -/
def copyAssign (σ : World) (i j : Nat) : World :=
  if hasV σ j then
    let σ := dcsin σ i
    let (x, σ) := pRead σ j
    setHV (pAssign σ i x) i true
  else reset σ i

/-- `operator=(Optional &&other)`: as `copyAssign` with `std::move(other.value())`. -/
def moveAssign (σ : World) (i j : Nat) : World :=
  if hasV σ j then
    let σ := dcsin σ i
    let (x, σ) := pMoveFrom σ j
    setHV (pAssign σ i x) i true
  else reset σ i

/-- before fixes/C09-optional-assign-from-empty.patch:
    `default_construct_storage_if_needed(); value() = other.value(); hasValue = true;` -/
def copyAssign_prefix (σ : World) (i j : Nat) : World :=
  let σ := dcsin σ i
  let (x, σ) := pRead σ j
  setHV (pAssign σ i x) i true

def moveAssign_prefix (σ : World) (i j : Nat) : World :=
  let σ := dcsin σ i
  let (x, σ) := pMoveFrom σ j
  setHV (pAssign σ i x) i true

/-! ## Histories -/

/-- State-changing operations.  A constructor op on an occupied slot first destroys the object
    there (that is what the harness does); an op whose `this`/`other` object does not exist, or a
    constructor from itself, is skipped. -/
inductive Op where
  | ctorDefault (i : Nat)
  | ctorValue (i : Nat) (x : Nat)
  | ctorCopy (i j : Nat)          -- Optional(const Optional<T>&) / Optional(const Optional<U>&)
  | ctorMove (i j : Nat)          -- Optional(Optional<T>&&) / Optional(Optional<U>&&)
  | makeOptional (i : Nat) (x : Nat)
  | dtor (i : Nat)
  | assignValue (i : Nat) (x : Nat)
  | copyAssign (i j : Nat)        -- operator=(const Optional&) / operator=(const Optional<U>&)
  | moveAssign (i j : Nat)        -- operator=(Optional&&)
  | convMoveAssign (i j : Nat)    -- operator=(Optional<U>&&): copies from `other.value()`
  | emplace (i : Nat) (x : Nat)
  | reset (i : Nat)
deriving DecidableEq, Repr

def present (σ : World) (i : Nat) : Bool := (σ.w i).isSome

/-- make room for a new object in slot `i` -/
def clear (σ : World) (i : Nat) : World := if present σ i then dtor σ i else σ

def step (σ : World) : Op → World
  | .ctorDefault i => create (clear σ i) i
  | .ctorValue i x => ctorValue (clear σ i) i (.v x)
  | .ctorCopy i j => if i ≠ j ∧ present σ j then ctorCopy (clear σ i) i j else σ
  | .ctorMove i j => if i ≠ j ∧ present σ j then forget (ctorMove (clear σ i) i j) j else σ
  | .makeOptional i x => emplace (create (clear σ i) i) i (.v x)   -- `ret.emplace(x)`, result elided/moved into place
  | .dtor i => dtor σ i
  | .assignValue i x => if present σ i then assignValue σ i (.v x) else σ
  | .copyAssign i j => if present σ i ∧ present σ j then copyAssign σ i j else σ
  | .moveAssign i j => if present σ i ∧ present σ j ∧ i ≠ j then forget (moveAssign σ i j) j else σ
  | .convMoveAssign i j => if present σ i ∧ present σ j ∧ i ≠ j then forget (copyAssign σ i j) j else σ
  | .emplace i x => if present σ i then emplace σ i (.v x) else σ
  | .reset i => if present σ i then reset σ i else σ

/-- History given most-recent-first. -/
def runR : List Op → World
  | [] => {}
  | op :: earlier => step (runR earlier) op

/-- The same dispatcher over the member functions as they were before the repairs. -/
def step_prefix (σ : World) : Op → World
  | .ctorMove i j => if i ≠ j ∧ present σ j then forget (ctorMove_prefix (clear σ i) i j) j else σ
  | .copyAssign i j => if present σ i ∧ present σ j then copyAssign_prefix σ i j else σ
  | .moveAssign i j => if present σ i ∧ present σ j ∧ i ≠ j then forget (moveAssign_prefix σ i j) j else σ
  | .convMoveAssign i j => if present σ i ∧ present σ j ∧ i ≠ j then forget (copyAssign_prefix σ i j) j else σ
  | op => step σ op

def runR_prefix : List Op → World
  | [] => {}
  | op :: earlier => step_prefix (runR_prefix earlier) op

/-- Destroy the wrapper objects in the listed slots (end of a history). -/
def destroyAll (σ : World) : List Nat → World
  | [] => σ
  | i :: is => destroyAll (dtor σ i) is

def Op.slots : Op → List Nat
  | .ctorDefault i | .ctorValue i _ | .makeOptional i _ | .dtor i | .assignValue i _
  | .emplace i _ | .reset i => [i]
  | .ctorCopy i j | .ctorMove i j | .copyAssign i j | .moveAssign i j | .convMoveAssign i j => [i, j]

def touched : List Op → List Nat
  | [] => []
  | op :: earlier => op.slots ++ touched earlier

/-! ## Observers (pure) — `none` is the error value "read of storage that holds no object" -/

/-- `has_value()` / `operator bool` -/
def obsHas (σ : World) (i : Nat) : Bool := hasV σ i

/-- `value()` / `operator*` / `operator->` as used by the harness: only called when
    `has_value()`; the result is what the storage holds. -/
def obsValue (σ : World) (i : Nat) : Option Val :=
  match σ.w i with
  | some o => match o.storage with
    | .live x => some x
    | .raw => none
  | none => none

/-- `value_or(d)`: `has_value() ? value() : static_cast<T>(d)` -/
def obsValueOr (σ : World) (i : Nat) (d : Val) : Option Val :=
  if hasV σ i then obsValue σ i else some d

inductive Rel where | eq | ne | lt | le | gt | ge
deriving DecidableEq, Repr

def Rel.eval : Rel → Nat → Nat → Bool
  | .eq, a, b => a == b
  | .ne, a, b => a != b
  | .lt, a, b => a < b
  | .le, a, b => a ≤ b
  | .gt, a, b => a > b
  | .ge, a, b => a ≥ b

/-- Result of a comparison: a Boolean, or "unspecified" when a moved-from payload is compared. -/
inductive CmpRes where
  | b (r : Bool)
  | unspecified
deriving DecidableEq, Repr

/-- `operator==,<,<=,>,>=`: `(lhs && rhs) && (*lhs OP *rhs)`; `operator!=` is `!(lhs == rhs)`.
    `none` = a raw slot was dereferenced. -/
def obsCmp (σ : World) (r : Rel) (i j : Nat) : Option CmpRes :=
  let r' := if r = .ne then Rel.eq else r
  let neg := fun (b : Bool) => if r = .ne then !b else b
  if hasV σ i && hasV σ j then
    match obsValue σ i, obsValue σ j with
    | some (.v a), some (.v b) => some (.b (neg (r'.eval a b)))
    | some _, some _ => some .unspecified
    | _, _ => none
  else some (.b (neg false))

/-! ## Storage layout (alignment)

Alignments are powers of two, given by their exponent.  `layout` is the Itanium/SysV rule for a
standard-layout struct: every member at the next multiple of its alignment, struct alignment =
largest member alignment, size rounded up to it. -/

structure Field where
  size : Nat
  alignExp : Nat
deriving Repr, DecidableEq

def Field.align (f : Field) : Nat := 2 ^ f.alignExp

def roundUp (n a : Nat) : Nat := ((n + a - 1) / a) * a

/-- offset of a member `f` that follows the members `before`, the first of which may start at `cur` -/
def offsetAfter (cur : Nat) : List Field → Field → Nat
  | [], f => roundUp cur f.align
  | g :: gs, f => offsetAfter (roundUp cur g.align + g.size) gs f

def endFrom (cur : Nat) : List Field → Nat
  | [] => cur
  | f :: fs => endFrom (roundUp cur f.align + f.size) fs

def structAlignExp : List Field → Nat
  | [] => 0
  | f :: fs => max f.alignExp (structAlignExp fs)

/-- the struct as a member of an enclosing struct -/
def structField (fs : List Field) : Field :=
  { size := roundUp (endFrom 0 fs) (2 ^ structAlignExp fs), alignExp := structAlignExp fs }

/-- `Optional<T>` = `{ alignas(T) std::array<byte_t, sizeof(T)> storage; bool hasValue; }` -/
def optionalFields (t : Field) : List Field := [{ size := t.size, alignExp := t.alignExp }, ⟨1, 0⟩]

/-- before fixes/C09-optional-storage-alignment.patch: `std::array<byte_t, sizeof(T)> storage;` -/
def optionalFields_prefix (t : Field) : List Field := [{ size := t.size, alignExp := 0 }, ⟨1, 0⟩]

/-- offset of `storage` inside the Optional -/
def storageOffset : List Field → Nat
  | [] => 0
  | f :: _ => roundUp 0 f.align

/-- Address of the payload storage of an Optional that is the last member of a struct with the
    members `before` in front of it, the struct being placed at `base`. -/
def storageAddr (base : Nat) (before : List Field) (opt : List Field) : Nat :=
  base + offsetAfter 0 before (structField opt) + storageOffset opt

/-! ## getEnvVar<T>

`getEnvVar<T>(name)`: `Optional<T>(parse(getenv(name)))` when the variable exists, `Optional<T>()`
otherwise.  The environment is an association list; values are tokens. -/

def envLookup (env : List (String × Nat)) (name : String) : Option Nat :=
  match env with
  | [] => none
  | (n, x) :: rest => if n = name then some x else envLookup rest name

/-- constructs the result in wrapper slot `i` -/
def getEnvVar (σ : World) (env : List (String × Nat)) (i : Nat) (name : String) : World :=
  match envLookup env name with
  | some x => step σ (.ctorValue i x)
  | none => step σ (.ctorDefault i)

/-! ## Any

`Any` owns a heap-allocated `handle<T>` through a `std::unique_ptr<handle_base>`.  The model keeps
the heap of holders explicitly so that "copies are independent" is a statement about pointers
(no two Any objects share a holder), not an assumption. -/

inductive Tag where
  | int | float | string | long | noeq | trk | key
deriving DecidableEq, Repr

/-- `traits::HasOperatorEqualsT<T>::value` for the payload types of the harness -/
def Tag.hasEq : Tag → Bool
  | .noeq => false
  | _ => true

/-- the payload type's own `operator==` on value tokens: identity for the ordinary types; the `key` payload
    (a record whose `==` compares only its key field, token / 4) shows that "equal" is coarser than "identical" -/
def Tag.valEq : Tag → Nat → Nat → Bool
  | .key, x, y => x / 4 == y / 4
  | _, x, y => x == y

inductive AErr where
  | danglingHandle  -- use or release of a holder that is not allocated (use after free, double free)
deriving DecidableEq, Repr

structure AWorld where
  a : Nat → Option (Option Nat) := fun _ => none   -- Any objects: `some none` = null currentValue
  heap : Nat → Option (Tag × Nat) := fun _ => none -- allocated holders: type tag and value token
  next : Nat := 0                                  -- allocation counter (fresh ids)
  errs : List AErr := []

instance : Inhabited AWorld := ⟨{}⟩

def AWorld.err (σ : AWorld) (e : AErr) : AWorld := { σ with errs := e :: σ.errs }

/-- `new handle<T>(value)` -/
def alloc (σ : AWorld) (c : Tag × Nat) : Nat × AWorld :=
  (σ.next, { σ with heap := upd σ.heap σ.next (some c), next := σ.next + 1 })

/-- `delete p` (through unique_ptr); null is a no-op -/
def free (σ : AWorld) : Option Nat → AWorld
  | none => σ
  | some h =>
    match σ.heap h with
    | some _ => { σ with heap := upd σ.heap h none }
    | none => σ.err .danglingHandle

/-- `copy.valid() ? copy.currentValue->clone() : nullptr` -/
def clone (σ : AWorld) : Option Nat → Option Nat × AWorld
  | none => (none, σ)
  | some h =>
    match σ.heap h with
    | some c => let (h', σ') := alloc σ c; (some h', σ')
    | none => (none, σ.err .danglingHandle)

inductive AOp where
  | ctorDefault (i : Nat)                 -- Any()
  | ctorValue (i : Nat) (t : Tag) (x : Nat) -- Any(T value)
  | ctorCopy (i j : Nat)                  -- Any(const Any&)
  | dtor (i : Nat)
  | assign (i j : Nat)                    -- operator=(const Any&): `Any temp(rhs); currentValue = std::move(temp.currentValue);`
  | assignValue (i : Nat) (t : Tag) (x : Nat) -- operator=(T rhs)
  | mutate (i : Nat) (t : Tag) (x : Nat)  -- `a.get<T>() = x` (throws when T is not the stored type)
deriving DecidableEq, Repr

def apresent (σ : AWorld) (i : Nat) : Bool := (σ.a i).isSome

def adtor (σ : AWorld) (i : Nat) : AWorld :=
  match σ.a i with
  | some p => let σ' := free σ p; { σ' with a := upd σ'.a i none }
  | none => σ

def aclear (σ : AWorld) (i : Nat) : AWorld := if apresent σ i then adtor σ i else σ

/-- `Any::is<T>()`: `valid() && strcmp(typeid(T).name(), currentValue->valueTypeID().name()) == 0` -/
def anyIs (σ : AWorld) (i : Nat) (t : Tag) : Bool :=
  match σ.a i with
  | some (some h) => match σ.heap h with
    | some (t', _) => t' == t
    | none => false
  | _ => false

def astep (σ : AWorld) : AOp → AWorld
  | .ctorDefault i => let σ := aclear σ i; { σ with a := upd σ.a i (some none) }
  | .ctorValue i t x =>
    let σ := aclear σ i
    let (h, σ) := alloc σ (t, x)
    { σ with a := upd σ.a i (some (some h)) }
  | .ctorCopy i j =>
    if i ≠ j ∧ apresent σ j then
      let σ := aclear σ i
      match σ.a j with
      | some p => let (p', σ) := clone σ p; { σ with a := upd σ.a i (some p') }
      | none => σ
    else σ
  | .dtor i => adtor σ i
  | .assign i j =>
    match σ.a i, σ.a j with
    | some _, some pj =>
      let (tmp, σ) := clone σ pj                       -- Any temp(rhs);
      match σ.a i with
      | some old => let σ := free σ old                -- unique_ptr move-assignment releases the old holder
                    { σ with a := upd σ.a i (some tmp) } -- temp is left null and dies
      | none => σ
    | _, _ => σ
  | .assignValue i t x =>
    match σ.a i with
    | some old =>
      let (h, σ) := alloc σ (t, x)
      let σ := free σ old
      { σ with a := upd σ.a i (some (some h)) }
    | none => σ
  | .mutate i t x =>
    match σ.a i with
    | some (some h) =>
      match σ.heap h with
      | some (t', _) => if t' = t then { σ with heap := upd σ.heap h (some (t, x)) } else σ
      | none => σ.err .danglingHandle
    | _ => σ

def arunR : List AOp → AWorld
  | [] => {}
  | op :: earlier => astep (arunR earlier) op

inductive GetRes where
  | ok (x : Nat)
  | throws
  | crash          -- dereference of a missing holder
deriving DecidableEq, Repr

/-- `valid()` -/
def anyValid (σ : AWorld) (i : Nat) : Bool :=
  match σ.a i with
  | some (some _) => true
  | _ => false

/-- `get<T>()`: throws when empty, returns the value when `is<T>()`, throws otherwise -/
def anyGet (σ : AWorld) (i : Nat) (t : Tag) : GetRes :=
  match σ.a i with
  | some (some h) =>
    match σ.heap h with
    | some (t', x) => if t' = t then .ok x else .throws
    | none => .crash
  | _ => .throws

/-- `handle<T>::isSame(other)`: `dynamic_cast<handle<T>*>(other)` non-null and values equal when
    T has `operator==`; constant false otherwise. -/
def isSame (c : Tag × Nat) (other : Option (Tag × Nat)) : Bool :=
  if c.1.hasEq then
    match other with
    | some (t, x) => t == c.1 && c.1.valEq x c.2
    | none => false
  else false

def deref (σ : AWorld) : Option Nat → Option (Tag × Nat)
  | some h => σ.heap h
  | none => none

/-- `operator==`: `if (!valid()) return !rhs.valid(); return currentValue->isSame(rhs.currentValue.get());`
    `none` = null dereference. -/
def anyEq (σ : AWorld) (i j : Nat) : Option Bool :=
  match σ.a i, σ.a j with
  | some pi, some pj =>
    match pi with
    | none => some (pj.isNone)
    | some h => match σ.heap h with
      | some c => some (isSame c (deref σ pj))
      | none => none
  | _, _ => some false

/-- before fixes/C09-any-empty-equals.patch: `return currentValue->isSame(rhs.currentValue.get());` -/
def anyEq_prefix (σ : AWorld) (i j : Nat) : Option Bool :=
  match σ.a i, σ.a j with
  | some pi, some pj =>
    match pi with
    | none => none
    | some h => match σ.heap h with
      | some c => some (isSame c (deref σ pj))
      | none => none
  | _, _ => some false

/-- `toString()`: what is printed after the fixed prefix: the stored type, or the empty marker.
    `none` = null dereference. -/
def anyToString (σ : AWorld) (i : Nat) : Option (Option Tag) :=
  match σ.a i with
  | some none => some none
  | some (some h) => match σ.heap h with
    | some (t, _) => some (some t)
    | none => none
  | none => some none

/-- before fixes/C09-any-empty-tostring.patch: `demangle(currentValue->valueTypeID().name())` unconditionally -/
def anyToString_prefix (σ : AWorld) (i : Nat) : Option (Option Tag) :=
  match σ.a i with
  | some none => none
  | some (some h) => match σ.heap h with
    | some (t, _) => some (some t)
    | none => none
  | none => some none

end RkVerif.C09
