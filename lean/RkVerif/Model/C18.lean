/-
Model of the string / URL / path / argument helpers of rkcommon (property C18):
  rkcommon/utility/StringManip.h   longestBeginningMatch, beginsWith, split (2 overloads)
  rkcommon/utility/PseudoURL.cpp   tokenize, PseudoURL (ctor, getType, getFileName, getValue, hasParam)
  rkcommon/os/FileName.cpp         FileName (ctor normalisation, path/base/name/ext/dropExt/setExt/addExt/operator+)
  rkcommon/utility/ArgumentList.h  ArgumentList (ctor, [], size, empty, remove), ArgumentsParser::parseAndRemove
  rkcommon/common.cpp              removeArgs, prettyNumber, prettyDouble

Hand-written, executable, core Lean only.  Strings are `List Char`.  The model follows the code of
/repo *with the three repairs of fixes/C18-*.patch applied* (tokenize keeps 1-character tokens,
ext()/dropExt() look at the last path component only, first SI threshold is 1e18f).  It is tied to
the source by the correspondence check (harness/c18.cpp vs Driver/C18.lean).
-/
namespace RkVerif.C18

abbrev Str := List Char

/-! ## StringManip.h -/

/-- `longestBeginningMatch(first, second)`: `std::mismatch` over the first `min(|first|,|second|)`
    characters; the result is the part of `first` before the first mismatch. -/
def lbm : Str → Str → Str
  | a :: as, b :: bs => if a = b then a :: lbm as bs else []
  | _, _ => []

/-- `beginsWith(input, start)`: `longestBeginningMatch(input, start).size() == start.size()`. -/
def beginsWith (input start : Str) : Bool := (lbm input start).length == start.length

/-- `split(input, char delim)`: the `std::getline(ss, item, delim)` loop.  `cur` is the item read so
    far.  At end of input `getline` succeeds iff it extracted at least one character, so a trailing
    empty item is not produced (`"a,"` → `["a"]`, `""` → `[]`, `","` → `[""]`). -/
def split1Aux (d : Char) : Str → Str → List Str
  | [], cur => if cur.isEmpty then [] else [cur]
  | c :: cs, cur => if c = d then cur :: split1Aux d cs [] else split1Aux d cs (cur ++ [c])

def split1 (d : Char) (s : Str) : List Str := split1Aux d s []

/-- `split(input, const std::string &delim, keepDelim)`: `find_first_not_of` / `find_first_of` loop.
    `prev` is the character just before the current position (the one `begin--` would include),
    `cur` the token being collected (`none` while skipping delimiters). -/
def splitSetAux (ds : Str) (keep : Bool) : Str → Option Char → Option Str → List Str
  | [], _, none => []
  | [], _, some t => [t]
  | c :: cs, prev, none =>
      if c ∈ ds then splitSetAux ds keep cs (some c) none
      else splitSetAux ds keep cs (some c) (some ((if keep then prev.toList else []) ++ [c]))
  | c :: cs, _, some t =>
      if c ∈ ds then t :: splitSetAux ds keep cs (some c) none
      else splitSetAux ds keep cs (some c) (some (t ++ [c]))

def splitSet (ds : Str) (keep : Bool) (s : Str) : List Str := splitSetAux ds keep s none none

/-! ## PseudoURL.cpp -/

/-- `tokenize(str, delim, tokens)` with the minimum token length as a parameter: a piece between
    two delimiters (or before the first / after the last) is pushed iff `piece.size() > k`.
    /repo's unrepaired code has `k = 1` (drops one-character tokens), the repaired code `k = 0`. -/
def tokenizeAux (k : Nat) (d : Char) : Str → Str → List Str
  | [], cur => if cur.length > k then [cur] else []
  | c :: cs, cur =>
      if c = d then (if cur.length > k then cur :: tokenizeAux k d cs [] else tokenizeAux k d cs [])
      else tokenizeAux k d cs (cur ++ [c])

def tokenizeK (k : Nat) (d : Char) (s : Str) : List Str := tokenizeAux k d s []
def tokenize (d : Char) (s : Str) : List Str := tokenizeK 0 d s

/-- `tmp.find("://")`: `(before, after)` of the first occurrence. -/
def findSep : Str → Option (Str × Str)
  | [] => none
  | c :: cs =>
      match c, cs with
      | ':', '/' :: '/' :: rest => some ([], rest)
      | _, _ => (findSep cs).map fun (b, a) => (c :: b, a)

/-- `arg.find('=')` and the two `substr`s; no `=` gives `(arg, "")`. -/
def splitEq : Str → Str × Str
  | [] => ([], [])
  | c :: cs => if c = '=' then ([], cs) else let (n, v) := splitEq cs; (c :: n, v)

structure URL where
  type : Str
  fileName : Str
  params : List (Str × Str)
deriving Repr, DecidableEq

def parseURL (input : Str) : URL :=
  let (type, tmp) := match findSep input with
    | some (b, a) => (b, a)
    | none => ([], input)
  match tokenize ':' tmp with
  | [] => ⟨type, [], []⟩
  | f :: args => ⟨type, f, args.map splitEq⟩

/-- `getValue`: index of the *last* parameter with that name; `none` models the exception. -/
def getValue : List (Str × Str) → Str → Option Str
  | [], _ => none
  | (n, v) :: rest, name =>
      match getValue rest name with
      | some v' => some v'
      | none => if n = name then some v else none

def hasParam (ps : List (Str × Str)) (name : Str) : Bool := ps.any (·.1 = name)

/-! ## FileName.cpp (path_sep = '/') -/

/-- `filename.find_last_of(c)` together with the two `substr`s around it:
    `(filename.substr(0,pos), filename.substr(pos+1))`. -/
def splitLast (c : Char) : Str → Option (Str × Str)
  | [] => none
  | x :: xs =>
      match splitLast c xs with
      | some (b, a) => some (x :: b, a)
      | none => if x = c then some ([], xs) else none

/-- `while (!filename.empty() && filename.back() == path_sep) filename.resize(size-1)` -/
def rstripSep (s : Str) : Str := (s.reverse.dropWhile (· = '/')).reverse

/-- The constructors: both kinds of slash become `path_sep`, trailing separators are removed. -/
def mkFile (s : Str) : Str := rstripSep (s.map fun c => if c = '\\' ∨ c = '/' then '/' else c)

def path (f : Str) : Str :=
  match splitLast '/' f with
  | none => []
  | some (b, _) => b ++ ['/']

def base (f : Str) : Str :=
  match splitLast '/' f with
  | none => f
  | some (_, a) => a

/-- repaired `ext()`: the last `.` of the last component. -/
def ext (f : Str) : Str :=
  match splitLast '.' (base f) with
  | none => []
  | some (_, a) => a

/-- `name()`: `start` = after the last separator, `end` = last `.` of the whole string, ignored
    when it lies before `start` (i.e. when a separator follows it). -/
def name (f : Str) : Str :=
  match splitLast '.' f with
  | none => base f
  | some (b, a) => if '/' ∈ a then base f else base b

/-- repaired `dropExt()`: same `start`/`end` logic as `setExt`; the result goes through the
    `FileName(std::string)` constructor. -/
def dropExt (f : Str) : Str :=
  match splitLast '.' f with
  | none => mkFile f
  | some (b, a) => if '/' ∈ a then mkFile f else mkFile b

def setExt (f e : Str) : Str :=
  match splitLast '.' f with
  | none => mkFile (f ++ e)
  | some (b, a) => if '/' ∈ a then mkFile (f ++ e) else mkFile (b ++ e)

def addExt (f e : Str) : Str := mkFile (f ++ e)

/-- `operator+(const FileName &other)` on two already constructed file names. -/
def plus (f g : Str) : Str := if f = [] then mkFile g else mkFile (f ++ '/' :: g)

/-! ## ArgumentList.h / removeArgs -/

variable {α : Type}

/-- `ArgumentList(ac, av)`: drops `av[0]`. -/
def argsNew (av : List α) : List α := av.drop 1

/-- `remove(where, howMany)`: `howMany` times `arg.erase(arg.begin() + where)`. -/
def remove (args : List α) (w : Nat) : Nat → List α
  | 0 => args
  | n + 1 => remove (args.eraseIdx w) w n

/-- `parseAndRemove` for a parser whose `tryConsume` looks at the argument at `argID`:
    `fuel` bounds the number of loop iterations (`parseAndRemove` supplies enough). -/
def parseLoop (f : α → Nat) : Nat → List α → Nat → List α
  | 0, args, _ => args
  | fuel + 1, args, i =>
      match args[i]? with
      | none => args
      | some a => if f a = 0 then parseLoop f fuel args (i + 1) else parseLoop f fuel (remove args i (f a)) i

def parseAndRemove (f : α → Nat) (args : List α) : List α := parseLoop f (2 * args.length + 1) args 0

/-- `removeArgs(ac, av, where, howMany)`: `for (i = where+howMany; i < ac; i++) av[i-howMany] = av[i]`,
    `todo` = number of remaining iterations. -/
def shiftLoop (h : Nat) : Nat → Nat → List α → List α
  | 0, _, av => av
  | todo + 1, i, av =>
      match av[i]? with
      | some x => shiftLoop h todo (i + 1) (av.set (i - h) x)
      | none => av

/-- The visible result: the first `ac - howMany` entries of `av`. -/
def removeArgs (av : List α) (w h : Nat) : List α :=
  (shiftLoop h (av.length - (w + h)) (w + h) av).take (av.length - h)

/-! ## prettyNumber / prettyDouble -/

/-- Round a non-negative rational to the nearest integer, ties to even. -/
def roundHalfEven (q : Rat) : Nat :=
  let n := q.num.toNat
  let d := q.den
  let fl := n / d
  let r := n % d
  if 2 * r < d then fl else if 2 * r > d then fl + 1 else if fl % 2 = 0 then fl else fl + 1

def pow2 (e : Int) : Rat := if e ≥ 0 then ((2 ^ e.toNat : Nat) : Rat) else 1 / ((2 ^ (-e).toNat : Nat) : Rat)

/-- `⌊log₂ q⌋` for `q > 0`: with `2^a ≤ num < 2^(a+1)` and `2^b ≤ den < 2^(b+1)` it is `a-b` or `a-b-1`. -/
def ilog2 (q : Rat) : Int :=
  let e : Int := (q.num.toNat.log2 : Int) - (q.den.log2 : Int)
  if pow2 e ≤ q then e else e - 1

/-- Round to the nearest binary floating-point number with a `p`-bit significand (round to nearest,
    ties to even).  The exponent range is not modelled (inputs stay inside the normal range). -/
def roundBin (p : Nat) (q : Rat) : Rat :=
  if q = 0 then 0 else
    let a := if q < 0 then -q else q
    let e := ilog2 a - ((p - 1 : Nat) : Int)      -- a / 2^e lies in [2^(p-1), 2^p)
    let m := roundHalfEven (a / pow2 e)
    let r := (m : Rat) * pow2 e
    if q < 0 then -r else r

def f32 (q : Rat) : Rat := roundBin 24 q
def f64 (q : Rat) : Rat := roundBin 53 q

def padLeft (n : Nat) (s : Str) : Str := List.replicate (n - s.length) '0' ++ s

/-- `printf("%.<digits>f", q)` for an exactly known `q`; `neg` is the sign bit of the argument. -/
def fmtFixed (digits : Nat) (neg : Bool) (q : Rat) : Str :=
  let a := if q < 0 then -q else q
  let n := roundHalfEven (a * ((10 ^ digits : Nat) : Rat))
  let ip := n / 10 ^ digits
  let fp := n % 10 ^ digits
  (if neg then ['-'] else []) ++ (toString ip).toList ++
    (if digits = 0 then [] else '.' :: padLeft digits (toString fp).toList)

/-- One arm of the if-chains: `absVal >= thr` (big arms) resp. `absVal <= thr` (small arms);
    `scale` is the float literal the value is divided (big) / multiplied (small) by;
    `si`: the power of ten the suffix stands for (value ≈ mantissa * si); not used by the code. -/
structure Arm where
  thr : Rat
  scale : Rat
  suffix : Char
  si : Rat
deriving Repr

/-- exact values of the float literals `1e18f, 1e15f, 1e12f, 1e09f, 1e06f, 1e03f` -/
def f1e18 : Rat := 999999984306749440
def f1e15 : Rat := 999999986991104
def f1e12 : Rat := 999999995904
def f1e09 : Rat := 1000000000
def f1e06 : Rat := 1000000
def f1e03 : Rat := 1000
/-- exact values of the float literals `1e-12f, 1e-09f, 1e-06f, 1e-03f` -/
def f1em12 : Rat := (2305843 : Rat) / 2305843009213693952
def f1em09 : Rat := (9007199 : Rat) / 9007199254740992
def f1em06 : Rat := (8796093 : Rat) / 8796093022208
def f1em03 : Rat := (8589935 : Rat) / 8589934592

/-- The arms `absVal >= thr → val / scale`, in source order (first threshold repaired: 1e18f). -/
def bigArms : List Arm :=
  [⟨f1e18, f1e18, 'E', 1000000000000000000⟩, ⟨f1e15, f1e15, 'P', 1000000000000000⟩,
   ⟨f1e12, f1e12, 'T', 1000000000000⟩, ⟨f1e09, f1e09, 'G', 1000000000⟩, ⟨f1e06, f1e06, 'M', 1000000⟩,
   ⟨f1e03, f1e03, 'k', 1000⟩]

/-- The arms `absVal <= thr → val * scale` of prettyDouble, in source order. -/
def smallArms : List Arm :=
  [⟨f1em12, f1e15, 'f', (1 : Rat) / 1000000000000000⟩, ⟨f1em09, f1e12, 'p', (1 : Rat) / 1000000000000⟩,
   ⟨f1em06, f1e09, 'n', (1 : Rat) / 1000000000⟩, ⟨f1em03, f1e06, 'u', (1 : Rat) / 1000000⟩,
   ⟨1, f1e03, 'm', (1 : Rat) / 1000⟩]

def selectBig (x : Rat) : List Arm → Option Arm
  | [] => none
  | a :: rest => if x ≥ a.thr then some a else selectBig x rest

def selectSmall (x : Rat) : List Arm → Option Arm
  | [] => none
  | a :: rest => if x ≤ a.thr then some a else selectSmall x rest

/-- `prettyNumber(size_t s)`; `val = (double)s`. -/
def prettyNumber (s : Nat) : Str :=
  let val := f64 s
  match selectBig val bigArms with
  | some a => fmtFixed 1 false (f64 (val / a.scale)) ++ [a.suffix]
  | none => (toString s).toList

/-- `prettyDouble(double val)` for a finite `val` given exactly. -/
def prettyDouble (val : Rat) : Str :=
  let absVal := if val < 0 then -val else val
  let neg := decide (val < 0)
  match selectBig absVal bigArms with
  | some a => fmtFixed 1 neg (f64 (val / a.scale)) ++ [a.suffix]
  | none =>
    match selectSmall absVal smallArms with
    | some a => fmtFixed 1 neg (f64 (val * a.scale)) ++ [a.suffix]
    | none => fmtFixed 6 neg (f32 val)

end RkVerif.C18
