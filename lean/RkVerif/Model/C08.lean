/-
Model of rkcommon::memory::RefCountedObject / IntrusivePtr<T>
(rkcommon/memory/IntrusivePtr.h; RefCount.h only adds the aliases Ref<T>, RefCount).

Hand-written, executable, core Lean only.  Tied to the source by the correspondence
check (harness/c08.cpp vs Driver/C08.lean) and by the atomic-ness table in props/c08.py.

What the source does (after fixes/C08-assign-release-last.patch):

  refCounter            std::atomic<long long>, initial value 1 (the creator's reference)
  refInc()              refCounter++                      one atomic RMW
  refDec()              if ((--refCounter) == 0) delete this;   one atomic RMW, then delete
  ~IntrusivePtr         if (ptr) ptr->refDec();
  IntrusivePtr(const&)  ptr(input.ptr); if (ptr) ptr->refInc();      (also the converting ctor
                                                                      and the raw-pointer ctor)
  IntrusivePtr(&&)      ptr(input.ptr); input.ptr = nullptr;
  operator=(const&)     in = input.ptr; if (in) in->refInc(); old = ptr; ptr = in;
                        if (old) old->refDec();
  operator=(&&)         in = input.ptr; input.ptr = nullptr; old = ptr; ptr = in;
                        if (old) old->refDec();
  operator=(T*)         if (input) input->refInc(); if (ptr) ptr->refDec(); ptr = input;
  operator==            a.ptr == b.ptr

Granularity.  The only accesses to shared memory are the atomic RMWs on `refCounter`.
Every `MStep` below contains exactly one of them (or none); the plain loads/stores of
`ptr` fields that the source performs next to it are folded into the same step.  A
thread executes its operation as the sequence `compile op` of such steps; steps of
different threads interleave arbitrarily (`Props/C08.lean` proves the invariants for
every step, hence for every interleaving).

State.  All handles live in one list of cells (`none` = storage without a constructed
handle).  Cell indices `< ns` are the handle variables of the program; every object
owns one more cell, its member handle (`struct Node : Base { Ref<Base> next; }` in the
harness), destroyed by the object's destructor.  A handle is `null`, `own o` (points at
`o` and owns one count) or `stale o` (still holds the pointer value `o` but has already
given its count back: the state of `*this` between `ptr->refDec()` and `ptr = input`
in `operator=(T*)`).  `regs` are a thread's local variables holding a counted reference
(`in` between `in->refInc()` and `ptr = in`).  `manual` is ghost: the number of
references held through raw pointers (the creator's reference, explicit refInc()).
`addr` is the object's address; the allocator may reuse the address of a destroyed
object, `operator==` compares addresses.
-/
namespace RkVerif.C08

inductive H where
  | null
  | own (o : Nat)
  | stale (o : Nat)
deriving DecidableEq, Repr, Inhabited

def H.ptr : H → Option Nat
  | .null => none
  | .own o => some o
  | .stale o => some o

def H.ofPtr : Option Nat → H
  | none => .null
  | some o => .own o

def H.isStale : H → Bool
  | .stale _ => true
  | _ => false

def H.isOwn : H → Bool
  | .own _ => true
  | _ => false

structure Obj where
  count : Int        -- refCounter
  alive : Bool       -- storage not yet released / destructor not yet entered
  destroyed : Nat    -- how often the destructor ran
  manual : Nat       -- ghost: references held through raw pointers
  addr : Nat         -- address (never 0)
  mcell : Nat        -- cell index of the member handle
deriving DecidableEq, Repr, Inhabited

/-- Atomic steps (one RMW on a counter at most, plus thread-local loads/stores). -/
inductive MStep where
  | alloc (a : Nat)              -- new Node: refCounter{1}, member handle default-constructed
  | ctorNull (x : Nat)           -- IntrusivePtr() / IntrusivePtr(nullptr)
  | copyInit (x y : Nat)         -- IntrusivePtr(const IntrusivePtr<O>& y): ptr(y.ptr); if (ptr) ptr->refInc()
  | moveInit (x y : Nat)         -- IntrusivePtr(IntrusivePtr&& y): ptr(y.ptr); y.ptr = nullptr
  | rawInit (x k : Nat)          -- IntrusivePtr(T* k), k != nullptr
  | dtorH (x : Nat)              -- ~IntrusivePtr: if (ptr) ptr->refDec()
  | incFrom (y : Nat)            -- in = y.ptr; if (in) in->refInc()
  | swapDec (x : Nat)            -- old = ptr; ptr = in; if (old) old->refDec()
  | moveDec (x y : Nat)          -- in = y.ptr; y.ptr = nullptr; old = ptr; ptr = in; if (old) old->refDec()
  | incRaw (k : Option Nat)      -- if (input) input->refInc()
  | decH (x : Nat)               -- if (ptr) ptr->refDec()      (ptr keeps its value)
  | storeTop (x : Nat)           -- ptr = input
  | incM (k : Nat)               -- k->refInc() through a raw pointer
  | decM (k : Nat)               -- k->refDec() through a raw pointer
  | dtorMem (o : Nat)            -- destructor of o's member handle, run by `delete o`
deriving DecidableEq, Repr, Inhabited

structure Thread where
  regs : List (Option Nat) := []
  cont : List MStep := []
deriving DecidableEq, Repr, Inhabited

structure State where
  cells : List (Option H)
  objs : List Obj
  thr : List Thread
deriving DecidableEq, Repr, Inhabited

/-- `ns` handle variables without a constructed handle, no objects, `nt` idle threads. -/
def init (ns nt : Nat) : State :=
  { cells := List.replicate ns none, objs := [], thr := List.replicate nt {} }

/-! ## Primitive state transformers -/

def setCell (s : State) (x : Nat) (h : Option H) : State :=
  { s with cells := s.cells.set x h }

def setObj (s : State) (o : Nat) (ob : Obj) : State :=
  { s with objs := s.objs.set o ob }

def setThr (s : State) (t : Nat) (th : Thread) : State :=
  { s with thr := s.thr.set t th }

def getThr (s : State) (t : Nat) : Thread := s.thr[t]?.getD {}

def pushReg (s : State) (t : Nat) (r : Option Nat) : State :=
  let th := getThr s t
  setThr s t { th with regs := r :: th.regs }

/-- pop the newest local; `none` (a null pointer) when there is none -/
def topReg (s : State) (t : Nat) : Option Nat := ((getThr s t).regs.head?).getD none

def popReg (s : State) (t : Nat) : State :=
  let th := getThr s t
  setThr s t { th with regs := th.regs.tail }

def pushCont (s : State) (t : Nat) (ms : List MStep) : State :=
  let th := getThr s t
  setThr s t { th with cont := ms ++ th.cont }

/-- `o->refInc()` : `refCounter++`. -/
def incCount (s : State) (o : Nat) : State :=
  match s.objs[o]? with
  | none => s
  | some ob => setObj s o { ob with count := ob.count + 1 }

/-- `o->refDec()` by thread `t`: `if ((--refCounter) == 0) delete this;`.  `delete` enters the
    destructor (the object is dead from here on), which runs the member handle's destructor
    as the next step of the same thread. -/
def release (s : State) (t : Nat) (o : Nat) : State :=
  match s.objs[o]? with
  | none => s
  | some ob =>
    if ob.count - 1 = 0 then
      pushCont (setObj s o { ob with count := ob.count - 1, alive := false, destroyed := ob.destroyed + 1 })
        t [.dtorMem o]
    else
      setObj s o { ob with count := ob.count - 1 }

def addManual (s : State) (o : Nat) : State :=
  match s.objs[o]? with
  | none => s
  | some ob => setObj s o { ob with manual := ob.manual + 1 }

def subManual (s : State) (o : Nat) : State :=
  match s.objs[o]? with
  | none => s
  | some ob => setObj s o { ob with manual := ob.manual - 1 }

/-- release the count owned by handle value `h` (nothing for null / stale) -/
def releaseH (s : State) (t : Nat) (h : H) : State :=
  match h with
  | .own v => release s t v
  | _ => s

def incOpt (s : State) (k : Option Nat) : State :=
  match k with
  | some v => incCount s v
  | none => s

def cell (s : State) (x : Nat) : Option H := (s.cells[x]?).getD none

/-- the handle a copy of `h` becomes (pointer value copied, one count taken) -/
def H.copy (h : H) : H := H.ofPtr h.ptr

/-! ## One atomic step of thread `t` (the step has already been removed from `cont`) -/

def exec (s : State) (t : Nat) : MStep → State
  | .alloc a =>
    { s with
      objs := s.objs ++ [{ count := 1, alive := true, destroyed := 0, manual := 1, addr := a, mcell := s.cells.length }],
      cells := s.cells ++ [some .null] }
  | .ctorNull x => setCell s x (some .null)
  | .copyInit x y =>
    match cell s y with
    | some hy => incOpt (setCell s x (some hy.copy)) hy.ptr
    | none => s
  | .moveInit x y =>
    match cell s y with
    | some hy => setCell (setCell s x (some hy)) y (some .null)
    | none => s
  | .rawInit x k => incCount (setCell s x (some (.own k))) k
  | .dtorH x =>
    match cell s x with
    | some hx => releaseH (setCell s x none) t hx
    | none => s
  | .incFrom y =>
    match cell s y with
    | some hy => incOpt (pushReg s t hy.ptr) hy.ptr
    | none => s
  | .swapDec x =>
    match cell s x with
    | some hx => releaseH (setCell (popReg s t) x (some (H.ofPtr (topReg s t)))) t hx
    | none => s
  | .moveDec x y =>
    match cell s y with
    | some hy =>
      let s1 := setCell s y (some .null)
      match cell s1 x with
      | some hx => releaseH (setCell s1 x (some hy)) t hx
      | none => s
    | none => s
  | .incRaw k => incOpt (pushReg s t k) k
  | .decH x =>
    match cell s x with
    | some (.own v) => release (setCell s x (some (.stale v))) t v
    | _ => s
  | .storeTop x => setCell (popReg s t) x (some (H.ofPtr (topReg s t)))
  | .incM k => addManual (incCount s k) k
  | .decM k => release (subManual s k) t k
  | .dtorMem o =>
    match s.objs[o]? with
    | some ob =>
      match cell s ob.mcell with
      | some hx => releaseH (setCell s ob.mcell none) t hx
      | none => s
    | none => s

/-! ## Usage discipline (obligations of the calling program, checked per step)

  * constructors run on storage without a handle, everything else on constructed handles;
  * a handle that is in the middle of `operator=(T*)` (stale) is not used by anything
    but the `ptr = input` of that assignment;
  * `ptr = input` does not overwrite a handle that still owns a count;
  * a raw pointer is only used for an object on which a counted reference exists
    (`0 < refsTo s k`: an owning handle, a local of a running operation or a raw reference);
  * `refDec()` through a raw pointer gives back a reference held through a raw pointer;
  * the allocator returns a non-null address not used by a live object. -/

def usable (s : State) (x : Nat) : Bool :=
  match cell s x with
  | some h => !h.isStale
  | none => false

def ccnt (o : Nat) : Option H → Nat
  | some (.own v) => if v = o then 1 else 0
  | _ => 0

def rcnt (o : Nat) : Option Nat → Nat
  | some v => if v = o then 1 else 0
  | none => 0

def sumBy {α : Type} (f : α → Nat) : List α → Nat
  | [] => 0
  | a :: l => f a + sumBy f l

def manualOf (s : State) (o : Nat) : Nat := (s.objs[o]?.map (·.manual)).getD 0

/-- number of counted references to `o`: owning handles, locals of running operations, raw references -/
def refsTo (s : State) (o : Nat) : Nat :=
  sumBy (ccnt o) s.cells + sumBy (fun th => sumBy (rcnt o) th.regs) s.thr + manualOf s o

def guard (s : State) (_t : Nat) : MStep → Bool
  | .alloc a => a != 0 && s.objs.all (fun ob => !ob.alive || ob.addr != a)
  | .ctorNull x => decide (s.cells[x]? = some none)
  | .copyInit x y => decide (s.cells[x]? = some none) && usable s y
  | .moveInit x y => decide (s.cells[x]? = some none) && usable s y
  | .rawInit x k => decide (s.cells[x]? = some none) && decide (0 < refsTo s k)
  | .dtorH x => usable s x
  | .incFrom y => usable s y
  | .swapDec x => usable s x
  | .moveDec x y => usable s x && usable s y
  | .incRaw k => match k with
    | some v => decide (0 < refsTo s v)
    | none => true
  | .decH x => usable s x
  | .storeTop x => match cell s x with
    | some h => !h.isOwn
    | none => false
  | .incM k => decide (0 < refsTo s k)
  | .decM k => decide (0 < manualOf s k)
  | .dtorMem _ => true

/-! ## Operations and their compilation to atomic steps -/

inductive Op where
  | new (a : Nat)                      -- new Node
  | ctorDef (x : Nat)                  -- Ref<T> x;
  | ctorCopy (x y : Nat)               -- Ref<T> x(y);  also Ref<Base> x(yDerived)
  | ctorMove (x y : Nat)               -- Ref<T> x(std::move(y));
  | ctorRaw (x : Nat) (k : Option Nat) -- Ref<T> x(k);
  | dtor (x : Nat)                     -- x.~Ref<T>()
  | copy (x y : Nat)                   -- x = y;   (x == y allowed)
  | move (x y : Nat)                   -- x = std::move(y);
  | conv (x d tmp : Nat)               -- xBase = dDerived;  temporary Ref<Base>(d), move-assign, ~temporary
  | raw (x : Nat) (k : Option Nat)     -- x = k;   (k raw pointer or nullptr)
  | refInc (k : Nat)
  | refDec (k : Nat)
deriving DecidableEq, Repr, Inhabited

def compile : Op → List MStep
  | .new a => [.alloc a]
  | .ctorDef x => [.ctorNull x]
  | .ctorCopy x y => [.copyInit x y]
  | .ctorMove x y => [.moveInit x y]
  | .ctorRaw x none => [.ctorNull x]
  | .ctorRaw x (some k) => [.rawInit x k]
  | .dtor x => [.dtorH x]
  | .copy x y => [.incFrom y, .swapDec x]
  | .move x y => [.moveDec x y]
  | .conv x d tmp => [.copyInit tmp d, .moveDec x tmp, .dtorH tmp]
  | .raw x k => [.incRaw k, .swapDec x]   -- old = ptr; ptr = input; if (old) old->refDec()  (as in the handle assignments)
  | .refInc k => [.incM k]
  | .refDec k => [.decM k]

/-! ## Scheduler-level transitions -/

/-- thread `t` (idle) begins operation `op` -/
def start (s : State) (t : Nat) (op : Op) : State :=
  setThr s t { getThr s t with cont := compile op }

/-- the next step of thread `t`, if any -/
def nextStep (s : State) (t : Nat) : Option MStep :=
  match s.thr[t]? with
  | some th => th.cont.head?
  | none => none

/-- thread `t` performs its next atomic step -/
def micro (s : State) (t : Nat) : State :=
  match s.thr[t]? with
  | some th =>
    match th.cont with
    | ms :: rest => exec (setThr s t { th with cont := rest }) t ms
    | [] => s
  | none => s

/-- A labelled transition: which thread, and whether it starts an operation or performs a step. -/
inductive Act where
  | start (t : Nat) (op : Op)
  | step (t : Nat)
deriving DecidableEq, Repr, Inhabited

/-- enabledness (including the usage discipline) -/
def enabled (s : State) : Act → Bool
  | .start t _ => match s.thr[t]? with
    | some th => th.cont.isEmpty
    | none => false
  | .step t => match nextStep s t with
    | some ms => guard s t ms
    | none => false

def apply (s : State) : Act → State
  | .start t op => start s t op
  | .step t => micro s t

/-! ## Sequential execution of one operation by thread `t` (used by the driver) -/

/-- run thread `t` until it is idle; `none` = usage discipline violated or out of fuel -/
def drain (s : State) (t : Nat) : Nat → Option State
  | 0 => none
  | fuel + 1 =>
    match nextStep s t with
    | none => some s
    | some ms => if guard s t ms then drain (micro s t) t fuel else none

def runOp (s : State) (t : Nat) (op : Op) (fuel : Nat := 1000) : Option State :=
  if enabled s (.start t op) then drain (start s t op) t fuel else none

/-! ## Observations -/

def countOf (s : State) (o : Nat) : Int := (s.objs[o]?.map (·.count)).getD 0
def aliveOf (s : State) (o : Nat) : Bool := (s.objs[o]?.map (·.alive)).getD false
def destroyedOf (s : State) (o : Nat) : Nat := (s.objs[o]?.map (·.destroyed)).getD 0
def addrOf (s : State) (p : Option Nat) : Nat :=
  match p with
  | none => 0
  | some o => (s.objs[o]?.map (·.addr)).getD 0

/-- `a == b` on handles: pointer (address) comparison -/
def eqH (s : State) (x y : Nat) : Bool :=
  match cell s x, cell s y with
  | some hx, some hy => addrOf s hx.ptr == addrOf s hy.ptr
  | _, _ => false

end RkVerif.C08
