/-
Model of the image writers (rkcommon/utility/SaveImage.h) and of the trace recorder
(rkcommon/tracing/Tracing.{h,cpp}).  Hand-written, executable, core Lean only.  Tied to the
source by the correspondence check (harness/c20.cpp vs Driver/C20.lean).  The code *after* the
fixes C20-pfm-float-index and C20-savelog-empty is modelled; the pre-fix expressions are kept
as `compSelOld` / `finishOld` for the witnesses in Props/C20.lean.

## ImageM

  template <COMP_T, N_COMP, PIXEL_T, PIXEL_COMP, FLIP> writeImage(file, header, sizeX, sizeY, pixel)
      fprintf(file, header, sizeX, sizeY);
      out = STACK_BUFFER(COMP_T, N_COMP * sizeX);
      for y < sizeY:
        in = (const COMP_T *)&pixel[(FLIP ? sizeY - 1 - y : y) * sizeX];        -- srcRow, stride
        for x < sizeX: for c < N_COMP:
          out[N_COMP * x + c] = in[PIXEL_COMP * x + (N_COMP == 1 ? PIXEL_COMP - 1 : c)];   -- dstIdx, srcIdx
        fwrite(out, N_COMP * sizeX, sizeof(COMP_T), file);
      fprintf(file, "\n");

  The pixel array is seen as the array of its COMP_T components (`comps`): bytes of the uint32_t
  pixels in memory order for PPM/PGM (little-endian split of the words, `bytesOfWords`), 32-bit
  words for the PFM variants (floats are opaque bit patterns, written as 4 bytes in memory
  order = little-endian, which is what the negative scale in the header announces).
  `stride = sizeof(PIXEL_T)/sizeof(COMP_T)` is the number of components one step of `pixel[...]`
  skips.  A read outside `comps` makes the whole write fail (`none`): the real code would read
  outside the caller's buffer.

  `decode` is a reader for the Netpbm P5/P6 and PFM (Pf/PF, plus the 4-channel PF4 extension)
  file formats written from the format descriptions: four white-space separated header tokens,
  one white-space byte, then width*height*channels samples.

## TraceM

  ThreadEventList::events is a std::list of std::vector chunks; getCurrentEventList() opens a new
  chunk when there is none or the last one holds >= THREAD_EVENT_CHUNK_SIZE events; every
  record call appends one TraceEvent (type, name, category, counter value, clock reading).
  TraceRecorder::threadTrace maps thread id -> list (created on the first begin/marker/counter/
  setThreadName call of a thread; `endEvent` dereferences the thread_local pointer without
  creating it).  saveLog writes, as one character stream,
      [  {process meta},  for every registered thread: {thread meta}, then for every chunk, for
      every event: {event}, and after an end event whose duration exceeds 100 us a derived
      {"ph":"C","name":"cpuUtilization","cat":"builtin"} counter carrying the begin's time stamp
  with a `,` after every object; an end event with an empty begin stack `break`s out of the
  *chunk* loop.  Finally the last character is overwritten by `]` (after the fix: only if
  something follows the opening `[`).  The stream is modelled as a token list (`Tok`): the six
  punctuation characters are tokens of their own, strings and numbers are atoms (names are
  identifier-like, see DESIGN: JSON escaping is a documented input restriction; the float
  printed for cpuUtilization is the opaque atom `flt`).
-/
namespace RkVerif.C20

/-! ## ImageM -/

structure Fmt where
  name : String
  magic : List UInt8      -- first header line
  third : List UInt8      -- third header line ("255" / "-1.0")
  compBytes : Nat         -- sizeof(COMP_T)
  nComp : Nat             -- N_COMP
  stride : Nat            -- sizeof(PIXEL_T) / sizeof(COMP_T)
  pixelComp : Nat         -- PIXEL_COMP
  flip : Bool             -- FLIP
deriving Repr, DecidableEq

/-- the six wrappers: template arguments and header strings as in SaveImage.h:49-110 -/
def fmtPPM  : Fmt := ⟨"ppm",  [80, 54],     [50, 53, 53],     1, 3, 4, 4, true⟩   -- "P6"  "255"
def fmtPGM  : Fmt := ⟨"pgm",  [80, 53],     [50, 53, 53],     1, 1, 4, 4, true⟩   -- "P5"  "255"
def fmtPf   : Fmt := ⟨"pf",   [80, 102],    [45, 49, 46, 48], 4, 1, 1, 1, false⟩  -- "Pf"  "-1.0"
def fmtPF3  : Fmt := ⟨"pf3",  [80, 70],     [45, 49, 46, 48], 4, 3, 3, 3, false⟩  -- "PF"  vec3f
def fmtPF3a : Fmt := ⟨"pf3a", [80, 70],     [45, 49, 46, 48], 4, 3, 4, 4, false⟩  -- "PF"  vec3fa
def fmtPF4  : Fmt := ⟨"pf4",  [80, 70, 52], [45, 49, 46, 48], 4, 4, 4, 4, false⟩  -- "PF4" vec4f

def formats : List Fmt := [fmtPPM, fmtPGM, fmtPf, fmtPF3, fmtPF3a, fmtPF4]

/-- `(FLIP ? sizeY - 1 - y : y)` -/
def srcRow (f : Fmt) (sizeY y : Nat) : Nat := if f.flip then sizeY - 1 - y else y

/-- `(N_COMP == 1 ? PIXEL_COMP - 1 : c)` (after fix C20-pfm-float-index) -/
def compSel (f : Fmt) (c : Nat) : Nat := if f.nComp == 1 then f.pixelComp - 1 else c

/-- `(N_COMP == 1 ? 3 : c)` (before the fix) -/
def compSelOld (f : Fmt) (c : Nat) : Nat := if f.nComp == 1 then 3 else c

/-- index into `in` : `PIXEL_COMP * x + sel c` -/
def inIdx (f : Fmt) (sel : Fmt → Nat → Nat) (x c : Nat) : Nat := f.pixelComp * x + sel f c

/-- index into the component array of the whole image -/
def srcIdx (f : Fmt) (sel : Fmt → Nat → Nat) (sizeX sizeY y x c : Nat) : Nat :=
  srcRow f sizeY y * sizeX * f.stride + inIdx f sel x c

/-- `N_COMP * x + c` -/
def dstIdx (f : Fmt) (x c : Nat) : Nat := f.nComp * x + c

/-- every source index read, in loop order -/
def readsWith (sel : Fmt → Nat → Nat) (f : Fmt) (sizeX sizeY : Nat) : List Nat :=
  (List.range sizeY).flatMap fun y => (List.range sizeX).flatMap fun x =>
    (List.range f.nComp).map fun c => srcIdx f sel sizeX sizeY y x c

def reads := readsWith compSel

/-- the two inner loops: fill the row buffer `out` (initial content irrelevant, modelled as 0) -/
def fillRow (f : Fmt) (sel : Fmt → Nat → Nat) (sizeX : Nat) (inp : Nat → Nat) : List Nat :=
  (List.range sizeX).foldl
    (fun out x => (List.range f.nComp).foldl
      (fun out c => out.set (dstIdx f x c) (inp (inIdx f sel x c))) out)
    (List.replicate (f.nComp * sizeX) 0)

def le4 (v : Nat) : List UInt8 :=
  [UInt8.ofNat (v % 256), UInt8.ofNat (v / 256 % 256), UInt8.ofNat (v / 65536 % 256), UInt8.ofNat (v / 16777216 % 256)]

/-- bytes of one component as fwrite stores them -/
def compBytesOf (f : Fmt) (v : Nat) : List UInt8 := if f.compBytes == 1 then [UInt8.ofNat v] else le4 v

/-- least significant digit first -/
def digitsRev (n : Nat) : List Nat := if n < 10 then [n] else (n % 10) :: digitsRev (n / 10)

/-- `%i` of a non-negative int -/
def dec (n : Nat) : List UInt8 := (digitsRev n).reverse.map fun d => UInt8.ofNat (48 + d)

/-- `fprintf(file, header, sizeX, sizeY)` with header = "<magic>\n%i %i\n<third>\n" -/
def header (f : Fmt) (sizeX sizeY : Nat) : List UInt8 :=
  f.magic ++ [10] ++ dec sizeX ++ [32] ++ dec sizeY ++ [10] ++ f.third ++ [10]

def payloadWith (sel : Fmt → Nat → Nat) (f : Fmt) (sizeX sizeY : Nat) (comps : List Nat) : List UInt8 :=
  let a := comps.toArray      -- O(1) indexing in the compiled model
  (List.range sizeY).flatMap fun y =>
    (fillRow f sel sizeX fun i => a.getD (srcRow f sizeY y * sizeX * f.stride + i) 0).flatMap (compBytesOf f)

def writeImageWith (sel : Fmt → Nat → Nat) (f : Fmt) (sizeX sizeY : Nat) (comps : List Nat) : Option (List UInt8) :=
  let n := comps.length
  if (readsWith sel f sizeX sizeY).all (· < n) then
    some (header f sizeX sizeY ++ payloadWith sel f sizeX sizeY comps ++ [10])
  else none

/-- the file written by the (fixed) code; `none` = a read outside the pixel buffer -/
def writeImage := writeImageWith compSel
/-- the same with the pre-fix component selection -/
def writeImageOld := writeImageWith compSelOld

/-- uint32_t pixels seen through `(const unsigned char *)` on a little-endian machine -/
def bytesOfWords (ws : List Nat) : List Nat :=
  ws.flatMap fun w => [w % 256, w / 256 % 256, w / 65536 % 256, w / 16777216 % 256]

/-! ### independent reader -/

def isWs (b : UInt8) : Bool := b == 32 || b == 9 || b == 10 || b == 13

/-- next header token: skip white space, take the non-white-space run -/
def token (bs : List UInt8) : List UInt8 × List UInt8 :=
  let s := bs.dropWhile isWs
  (s.takeWhile fun b => !isWs b, s.dropWhile fun b => !isWs b)

def parseDecAux (acc : Nat) : List UInt8 → Option Nat
  | [] => some acc
  | b :: rest => if 48 ≤ b.toNat ∧ b.toNat ≤ 57 then parseDecAux (acc * 10 + (b.toNat - 48)) rest else none

def parseDec (bs : List UInt8) : Option Nat := if bs.isEmpty then none else parseDecAux 0 bs

def bytes1 (bs : List UInt8) : List Nat := bs.map (·.toNat)

def words32 : List UInt8 → List Nat
  | a :: b :: c :: d :: rest => (a.toNat + 256 * b.toNat + 65536 * c.toNat + 16777216 * d.toNat) :: words32 rest
  | _ => []

def words32be : List UInt8 → List Nat
  | a :: b :: c :: d :: rest => (d.toNat + 256 * c.toNat + 65536 * b.toNat + 16777216 * a.toNat) :: words32be rest
  | _ => []

structure Decoded where
  magic : List UInt8
  w : Nat
  h : Nat
  nChan : Nat
  /-- `some maxval` for P5/P6, `none` for the float formats -/
  maxval : Option Nat
  /-- byte order announced by the sign of the PFM scale -/
  littleEndian : Bool
  samples : List Nat
deriving Repr, DecidableEq

def scaleOk (t : List UInt8) : Bool :=
  t.any (fun b => 48 ≤ b.toNat && b.toNat ≤ 57) && t.all (fun b => (48 ≤ b.toNat && b.toNat ≤ 57) || b == 46)

/-- channels and bytes per sample announced by the magic number -/
def magicKind (magic : List UInt8) : Option (Nat × Nat) :=
  if magic = [80, 54] then some (3, 1) else if magic = [80, 53] then some (1, 1)         -- P6 P5
  else if magic = [80, 102] then some (1, 4) else if magic = [80, 70] then some (3, 4)    -- Pf PF
  else if magic = [80, 70, 52] then some (4, 4) else none                                 -- PF4

/-- third header token: maxval (1..255, one byte per sample) or the PFM scale whose sign gives the byte order -/
def thirdInfo (nb : Nat) (third : List UInt8) : Option (Option Nat × Bool) :=
  if nb = 1 then
    match parseDec third with
    | some mv => if 1 ≤ mv ∧ mv ≤ 255 then some (some mv, true) else none
    | none => none
  else
    match third with
    | 45 :: mag => if scaleOk mag then some (none, true) else none
    | mag => if scaleOk mag then some (none, false) else none

def samplesOf (nb : Nat) (le : Bool) (data : List UInt8) : List Nat :=
  if nb = 1 then bytes1 data else if le then words32 data else words32be data

def decode (bs : List UInt8) : Option Decoded :=
  let t1 := token bs
  let t2 := token t1.2
  let t3 := token t2.2
  let t4 := token t3.2
  match t4.2 with
  | [] => none
  | sep :: body =>
    if !isWs sep then none else
    match magicKind t1.1, parseDec t2.1, parseDec t3.1 with
    | some (nc, nb), some w, some h =>
      match thirdInfo nb t4.1 with
      | some (mv, le) =>
        if body.length < w * h * nc * nb then none
        else some ⟨t1.1, w, h, nc, mv, le, samplesOf nb le (body.take (w * h * nc * nb))⟩
      | none => none
    | _, _, _ => none

/-! ## TraceM -/

inductive EvType where
  | begin | end_ | marker | counter
deriving Repr, DecidableEq

structure TEvent where
  ty : EvType
  name : Option String     -- nullptr for end events
  cat : Option String      -- may be null
  value : Nat              -- counterValue
  time : Nat               -- steady_clock reading (ns)
deriving Repr, DecidableEq

/-- `ThreadEventList`.  The chunk list is kept newest chunk first and every chunk newest event
    first (so that recording is O(1) in the compiled model); `ThreadLog.chunks` is the
    std::list<std::vector<TraceEvent>> in its real order. -/
structure ThreadLog where
  rchunks : List (List TEvent)
  threadName : String      -- "" = never set
deriving Repr, DecidableEq

def ThreadLog.chunks (l : ThreadLog) : List (List TEvent) := l.rchunks.reverse.map List.reverse

/-- `getCurrentEventList().push_back(e)` for chunk size `cs`:
    `if (events.empty() || events.back().size() >= cs) events.push_back({}); events.back().push_back(e)` -/
def pushEvent (cs : Nat) (rchunks : List (List TEvent)) (e : TEvent) : List (List TEvent) :=
  match rchunks with
  | [] => [[e]]
  | last :: older => if last.length ≥ cs then [e] :: last :: older else (e :: last) :: older

inductive Op where
  | begin (name : String) (cat : Option String)
  | end_
  | marker (name : String) (cat : Option String)
  | counter (name : String) (value : Nat)
  | setName (name : String)
deriving Repr, DecidableEq

/-- one API call: calling thread, operation, clock reading taken by the TraceEvent constructor -/
structure Call where
  tid : Nat
  op : Op
  time : Nat
deriving Repr, DecidableEq

/-- the registry `threadTrace` (thread id → list) in registration order -/
abbrev Recorder := List (Nat × ThreadLog)

def Op.event? (o : Op) (time : Nat) : Option TEvent :=
  match o with
  | .begin n c => some ⟨.begin, some n, c, 0, time⟩
  | .end_ => some ⟨.end_, none, none, 0, time⟩
  | .marker n c => some ⟨.marker, some n, c, 0, time⟩
  | .counter n v => some ⟨.counter, some n, none, v, time⟩
  | .setName _ => none

def applyLog (cs : Nat) (l : ThreadLog) (o : Op) (time : Nat) : ThreadLog :=
  match o with
  | .setName n => { l with threadName := n }
  | _ => match o.event? time with
    | some e => { l with rchunks := pushEvent cs l.rchunks e }
    | none => l

def updLog (cs : Nat) (r : Recorder) (c : Call) : Recorder :=
  match r with
  | [] => []
  | (t, l) :: rest => if t = c.tid then (t, applyLog cs l c.op c.time) :: rest else (t, l) :: updLog cs rest c

def registered (r : Recorder) (t : Nat) : Bool := r.any (·.1 == t)

/-- one API call.  `endEvent` on a thread that never registered dereferences a null
    thread_local pointer in the real code; that is outside the precondition (no end without a
    begin) and modelled as "nothing recorded". -/
def record (cs : Nat) (r : Recorder) (c : Call) : Recorder :=
  if registered r c.tid then updLog cs r c
  else if c.op = .end_ then r
  else r ++ [(c.tid, applyLog cs ⟨[], ""⟩ c.op c.time)]

/-- history most recent call first -/
def runR (cs : Nat) : List Call → Recorder
  | [] => []
  | c :: earlier => record cs (runR cs earlier) c

inductive Tok where
  | lbrack | rbrack | lbrace | rbrace | comma | colon
  | str (s : String)
  | num (n : Nat)
  | flt            -- a float printed by operator<< (cpuUtilization)
  | bad            -- a string/number atom whose last character was overwritten
deriving Repr, DecidableEq

open Tok

def phOf : EvType → String
  | .begin => "B" | .end_ => "E" | .marker => "i" | .counter => "C"

def metaTokens (pid tid : Nat) (what name : String) : List Tok :=
  [lbrace, str "ph", colon, str "M", comma, str "pid", colon, num pid, comma, str "tid", colon, num tid, comma,
   str "name", colon, str what, comma, str "args", colon, lbrace, str "name", colon, str name, rbrace,
   rbrace, comma]

def evHead (pid tid : Nat) (e : TEvent) : List Tok :=
  [lbrace, str "ph", colon, str (phOf e.ty), comma, str "pid", colon, num pid, comma, str "tid", colon, num tid, comma,
   str "ts", colon, num (e.time / 1000), comma, str "name", colon, str (e.name.getD "")]

def evCat (e : TEvent) : List Tok :=
  match e.cat with
  | some c => if e.ty ≠ .end_ then [comma, str "cat", colon, str c] else []
  | none => []

def builtinTokens (pid tid : Nat) (b : TEvent) : List Tok :=
  [lbrace, str "ph", colon, str "C", comma, str "pid", colon, num pid, comma, str "tid", colon, num tid, comma,
   str "ts", colon, num (b.time / 1000), comma, str "name", colon, str "cpuUtilization", comma,
   str "cat", colon, str "builtin", comma, str "args", colon, lbrace, str "value", colon, flt, rbrace, rbrace, comma]

/-- body of the event loop after the two stack checks: the characters written for one event and
    the begin stack (top first) afterwards -/
def emitOne (pid tid : Nat) (stack : List TEvent) (e : TEvent) : List Tok × List TEvent :=
  let head := evHead pid tid e ++ evCat e
  match e.ty with
  | .end_ =>
    match stack with
    | b :: rest =>
      let o := head ++ [comma, str "args", colon, lbrace, str "cpuUtilization", colon, flt, rbrace] ++ [rbrace, comma]
      let extra := if (e.time - b.time) / 1000 > 100 then builtinTokens pid tid b else []
      (o ++ extra, rest)
    | [] => ([], [])     -- not reached: the loop breaks before
  | .counter =>
    (head ++ [comma, str "args", colon, lbrace, str "value", colon, num e.value, rbrace] ++ [rbrace, comma], stack)
  | _ => (head ++ [rbrace, comma], stack)

/-- `for (evt : chunk)` with the `break` on an end event that finds the stack empty -/
def emitChunk (pid tid : Nat) (stack : List TEvent) : List TEvent → List Tok × List TEvent
  | [] => ([], stack)
  | e :: rest =>
    let stack1 := if e.ty = .begin then e :: stack else stack
    if e.ty = .end_ ∧ stack1 = [] then ([], stack1)
    else
      let r1 := emitOne pid tid stack1 e
      let r2 := emitChunk pid tid r1.2 rest
      (r1.1 ++ r2.1, r2.2)

/-- `for (evtChunk : events)` -/
def emitChunks (pid tid : Nat) (stack : List TEvent) : List (List TEvent) → List Tok × List TEvent
  | [] => ([], stack)
  | c :: cs =>
    let r1 := emitChunk pid tid stack c
    let r2 := emitChunks pid tid r1.2 cs
    (r1.1 ++ r2.1, r2.2)

/-- one iteration of `for (trace : threadTrace)`; `idText` is what `fout << tid` prints -/
def emitThread (pid tid : Nat) (idText : String) (l : ThreadLog) : List Tok :=
  let nm := if l.threadName ≠ "" then l.threadName else idText
  metaTokens pid tid "thread_name" nm ++ (emitChunks pid tid [] l.chunks).1

def emitThreads (pid : Nat) (idText : Nat → String) : Nat → List (Nat × ThreadLog) → List Tok
  | _, [] => []
  | nextTid, (t, l) :: rest => emitThread pid nextTid (idText t) l ++ emitThreads pid idText (nextTid + 1) rest

def isPunct : Tok → Bool
  | lbrack | rbrack | lbrace | rbrace | comma | colon => true
  | _ => false

/-- `seekp(-1, cur); fout << "]"` : the last *character* is replaced -/
def overwriteLast (out : List Tok) : List Tok :=
  match out.getLast? with
  | none => [rbrack]
  | some t => if isPunct t then out.dropLast ++ [rbrack] else out.dropLast ++ [bad, rbrack]

/-- after the fix: `if (tellp() > 1) seekp(-1, cur); fout << "]"` -/
def finish (out : List Tok) : List Tok := if out.length > 1 then overwriteLast out else out ++ [rbrack]
/-- before the fix -/
def finishOld (out : List Tok) : List Tok := overwriteLast out

def saveLogBody (pid : Nat) (proc : Option String) (idText : Nat → String) (threads : List (Nat × ThreadLog)) : List Tok :=
  [lbrack] ++ (match proc with | some p => metaTokens pid 0 "process_name" p | none => []) ++
    emitThreads pid idText 0 threads

/-- `TraceRecorder::saveLog`; `threads` is the registry in the (unspecified) iteration order of the
    unordered_map -/
def saveLog (pid : Nat) (proc : Option String) (idText : Nat → String) (threads : List (Nat × ThreadLog)) : List Tok :=
  finish (saveLogBody pid proc idText threads)

def saveLogOld (pid : Nat) (proc : Option String) (idText : Nat → String) (threads : List (Nat × ThreadLog)) : List Tok :=
  finishOld (saveLogBody pid proc idText threads)

/-! ### JSON grammar over tokens (RFC 8259 with strings and numbers as atoms) -/

mutual
  inductive JVal : List Tok → Prop
    | str (s : String) : JVal [Tok.str s]
    | num (n : Nat) : JVal [Tok.num n]
    | flt : JVal [Tok.flt]
    | obj {ts : List Tok} : JObj ts → JVal ts
    | arr {ts : List Tok} : JArr ts → JVal ts
  inductive JObj : List Tok → Prop
    | empty : JObj [lbrace, rbrace]
    | mk {ms : List Tok} : JMembers ms → JObj (lbrace :: ms ++ [rbrace])
  inductive JMembers : List Tok → Prop
    | one (k : String) {v : List Tok} : JVal v → JMembers (Tok.str k :: colon :: v)
    | cons (k : String) {v rest : List Tok} : JVal v → JMembers rest → JMembers (Tok.str k :: colon :: v ++ comma :: rest)
  inductive JArr : List Tok → Prop
    | empty : JArr [lbrack, rbrack]
    | mk {es : List Tok} : JElems es → JArr (lbrack :: es ++ [rbrack])
  inductive JElems : List Tok → Prop
    | one {v : List Tok} : JVal v → JElems v
    | cons {v rest : List Tok} : JVal v → JElems rest → JElems (v ++ comma :: rest)
end

/-! ### independent reader for the token stream

A deterministic automaton for the shape "array of objects whose members are atoms or one level
of nested objects of atoms"; nested members are stored under `outer.inner`. -/

inductive Val where
  | s (v : String) | n (v : Nat) | f
deriving Repr, DecidableEq

abbrev Obj := List (String × Val)

inductive Mode where
  | start | first | elem
  | key (nested : Bool)
  | colon (nested : Bool) (k : String)
  | value (nested : Bool) (k : String)
  | after (nested : Bool)
  | afterObj | done | fail
deriving Repr, DecidableEq

structure PS where
  mode : Mode
  robjs : List Obj        -- completed elements, most recent first
  cur : Obj
  pre : String
deriving Repr, DecidableEq

def fullKey (nested : Bool) (pre k : String) : String := if nested then pre ++ "." ++ k else k

def pstep (s : PS) (t : Tok) : PS :=
  match s.mode, t with
  | .start, lbrack => { s with mode := .first }
  | .first, rbrack => { s with mode := .done }
  | .first, lbrace => { s with mode := .key false, cur := [] }
  | .elem, lbrace => { s with mode := .key false, cur := [] }
  | .key n, str k => { s with mode := .colon n k }
  | .colon n k, colon => { s with mode := .value n k }
  | .value n k, str v => { s with mode := .after n, cur := s.cur ++ [(fullKey n s.pre k, .s v)] }
  | .value n k, num v => { s with mode := .after n, cur := s.cur ++ [(fullKey n s.pre k, .n v)] }
  | .value n k, flt => { s with mode := .after n, cur := s.cur ++ [(fullKey n s.pre k, .f)] }
  | .value false k, lbrace => { s with mode := .key true, pre := k }
  | .after true, comma => { s with mode := .key true }
  | .after true, rbrace => { s with mode := .after false }
  | .after false, comma => { s with mode := .key false }
  | .after false, rbrace => { s with mode := .afterObj, robjs := s.cur :: s.robjs, cur := [], pre := "" }
  | .afterObj, comma => { s with mode := .elem }
  | .afterObj, rbrack => { s with mode := .done }
  | _, _ => { s with mode := .fail }

def psInit : PS := ⟨.start, [], [], ""⟩

/-- `some objects` iff the token list is an array of the expected shape -/
def parseArray (toks : List Tok) : Option (List Obj) :=
  let s := toks.foldl pstep psInit
  if s.mode = .done then some s.robjs.reverse else none

def Obj.get (o : Obj) (k : String) : Option Val := (o.find? (·.1 == k)).map (·.2)

def Obj.str? (o : Obj) (k : String) : Option String := match o.get k with | some (.s v) => some v | _ => none
def Obj.num? (o : Obj) (k : String) : Option Nat := match o.get k with | some (.n v) => some v | _ => none

/-- canonical event (what the property speaks about) -/
inductive CEv where
  | b (name : String) (cat : Option String)
  | e
  | m (name : String) (cat : Option String)
  | c (name : String) (value : Nat)
deriving Repr, DecidableEq

def Op.canon? : Op → Option CEv
  | .begin n c => some (.b n c)
  | .end_ => some .e
  | .marker n c => some (.m n c)
  | .counter n v => some (.c n v)
  | .setName _ => none

/-- the recorded event an output object stands for; metadata objects and the derived
    cpuUtilization counters (the only counters that carry a category) stand for none -/
def Obj.canon? (o : Obj) : Option CEv :=
  match o.str? "ph", o.str? "name" with
  | some "B", some n => some (.b n (o.str? "cat"))
  | some "E", _ => some .e
  | some "i", some n => some (.m n (o.str? "cat"))
  | some "C", some n =>
    match o.get "cat", o.num? "args.value" with
    | none, some v => some (.c n v)
    | _, _ => none
  | _, _ => none

/-- events of the thread numbered `tid` in the output, in output order -/
def eventsOf (objs : List Obj) (tid : Nat) : List CEv :=
  objs.filterMap fun o => if o.num? "tid" = some tid ∧ o.str? "ph" ≠ some "M" then o.canon? else none

/-- the recorded events of thread `t` in recording order (history most recent first) -/
def recordedOf (h : List Call) (t : Nat) : List CEv :=
  (h.reverse.filter (·.tid = t)).filterMap (·.op.canon?)

/-- stack check over one thread's output objects: every E closes a B, every derived counter
    directly follows an E and carries the time stamp of the B that E closed.
    Returns the number of begins left open. -/
def nestCheck : List Nat → Option Nat → List Obj → Option Nat
  | stack, _, [] => some stack.length
  | stack, lastEndBegin, o :: rest =>
    match o.str? "ph", o.num? "ts" with
    | some "B", some ts => nestCheck (ts :: stack) none rest
    | some "E", some _ =>
      match stack with
      | b :: st => nestCheck st (some b) rest
      | [] => none
    | some "C", some ts =>
      if o.str? "cat" = some "builtin" then
        (if lastEndBegin = some ts then nestCheck stack none rest else none)
      else nestCheck stack none rest
    | some _, some _ => nestCheck stack none rest
    | _, _ => none

def threadObjs (objs : List Obj) (tid : Nat) : List Obj :=
  objs.filter fun o => o.num? "tid" = some tid ∧ o.str? "ph" ≠ some "M"

end RkVerif.C20
